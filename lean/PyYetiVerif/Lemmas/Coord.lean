import PyYetiVerif.Model.Coord
import Mathlib.Analysis.SpecialFunctions.Complex.Arg
import Mathlib.Tactic.Ring
import Mathlib.Tactic.FieldSimp
import Mathlib.Tactic.Linarith
import Mathlib.Tactic.LinearCombination
import Mathlib.Tactic.Positivity
/-!
Helper lemmas for C14: the `ℝ` instance of `TransOps`, 3-vector / 3x3 algebra, the A-B-C triad,
the round trips through `Complex.arg`, and the factorisation of `gridRb` into
(local frame)ᵀ · `rigid (p - ref)`.
-/
namespace PyYetiVerif.Coord

noncomputable instance : TransOps ℝ where
  sin := Real.sin
  cos := Real.cos
  sqrt := Real.sqrt
  atan2 y x := Complex.arg ⟨x, y⟩
  abs x := |x|
  pi := Real.pi
  tiny := 1 / 10 ^ 8
  tiny12 := 1 / 10 ^ 12
  ofNat n := n

/-! ### algebra of `V3` / `M3` / `Rb` over a commutative ring -/

/-- unfold every vector / matrix operation to components and close with `ring` -/
macro "coord_simp" : tactic =>
  `(tactic| simp only [V3.add, V3.sub, V3.smul, V3.sdiv, V3.dot, V3.cross, V3.zero, M3.one, M3.zero,
      M3.col0, M3.col1, M3.col2, M3.transpose, M3.ofCols, M3.mulVec, M3.vecMul, M3.mul, M3.add, M3.det,
      skewNeg, rigid, Rb.lmul, Rb.mul, Rb.apply, Rb.zero, V3.ext_iff, M3.ext_iff, Rb.ext_iff,
      Prod.ext_iff])

macro "coord_ring" : tactic =>
  `(tactic| (coord_simp; try (split_ands <;> first | trivial | ring)))

section ring
variable (u v w : V3 ℝ) (A B C : M3 ℝ)

theorem cross_dot_left : (u.cross v).dot u = 0 := by coord_simp; ring
theorem cross_dot_right : (u.cross v).dot v = 0 := by coord_simp; ring
theorem dot_comm : u.dot v = v.dot u := by coord_simp; ring
theorem lagrange : (u.cross v).dot (u.cross v) = u.dot u * v.dot v - (u.dot v) ^ 2 := by
  coord_simp; ring
theorem mul_assoc3 : (A.mul B).mul C = A.mul (B.mul C) := by coord_ring
theorem mulVec_mulVec : A.mulVec (B.mulVec v) = (A.mul B).mulVec v := by coord_ring
theorem one_mulVec : (M3.one : M3 ℝ).mulVec v = v := by coord_ring
theorem one_mul3 : (M3.one : M3 ℝ).mul A = A := by coord_ring
theorem mul_one3 : A.mul (M3.one : M3 ℝ) = A := by coord_ring
theorem transpose_mul : (A.mul B).transpose = B.transpose.mul A.transpose := by coord_ring
theorem transpose_transpose : A.transpose.transpose = A := by coord_ring
theorem det_mul : (A.mul B).det = A.det * B.det := by coord_simp; ring
theorem det_transpose : A.transpose.det = A.det := by coord_simp; ring
theorem mulVec_dot : (A.mulVec u).dot v = u.dot (A.transpose.mulVec v) := by coord_simp; ring
theorem mulVec_sub : A.mulVec (u.sub v) = (A.mulVec u).sub (A.mulVec v) := by coord_ring
theorem mulVec_add : A.mulVec (u.add v) = (A.mulVec u).add (A.mulVec v) := by coord_ring
theorem add_sub_cancel_left3 : (u.add v).sub u = v := by coord_ring
theorem skewNeg_mulVec : (skewNeg u).mulVec w = w.cross u := by coord_ring

theorem lmul_lmul (r : Rb ℝ) : Rb.lmul A (Rb.lmul B r) = Rb.lmul (A.mul B) r := by coord_ring
theorem lmul_mul (r s : Rb ℝ) : (Rb.lmul A r).mul s = Rb.lmul A (r.mul s) := by coord_ring
theorem rigid_mul : (rigid u).mul (rigid v) = rigid (u.add v) := by coord_ring
theorem lmul_one (r : Rb ℝ) : Rb.lmul (M3.one : M3 ℝ) r = r := by coord_ring

/-- a block applied to the rigid motion `(t, ω)`: local frame `F`, offset `d` -/
theorem lmul_rigid_apply (F : M3 ℝ) (d t ω : V3 ℝ) :
    (Rb.lmul F (rigid d)).apply t ω = (F.mulVec (t.add (ω.cross d)), F.mulVec ω) := by
  coord_ring

theorem rows_mul_rigid (r : Rb ℝ) (d : V3 ℝ) : (r.mul (rigid d)).rows = r.rows.map (rbmoveRow d) := by
  simp only [Rb.rows, rbmoveRow, List.map, List.cons.injEq, and_true]
  coord_ring

end ring

/-! ### frames -/

theorem IsFrame.one : IsFrame (M3.one : M3 ℝ) := by
  constructor
  · coord_ring
  · coord_simp; ring

theorem IsFrame.mul {A B : M3 ℝ} (hA : IsFrame A) (hB : IsFrame B) : IsFrame (A.mul B) := by
  refine ⟨?_, by rw [det_mul, hA.2, hB.2, mul_one]⟩
  rw [transpose_mul, mul_assoc3, ← mul_assoc3 A.transpose, hA.1, one_mul3, hB.1]

theorem IsFrame.transpose_mulVec {T : M3 ℝ} (h : IsFrame T) (v : V3 ℝ) :
    T.transpose.mulVec (T.mulVec v) = v := by
  rw [mulVec_mulVec, h.1, one_mulVec]

theorem IsFrame.dot_mulVec {T : M3 ℝ} (h : IsFrame T) (u v : V3 ℝ) :
    (T.mulVec u).dot (T.mulVec v) = u.dot v := by
  rw [mulVec_dot, h.transpose_mulVec]

/-! ### norms and the A-B-C triad -/

theorem norm_def' (v : V3 ℝ) : norm v = Real.sqrt (v.dot v) := rfl

theorem dot_self_nonneg (v : V3 ℝ) : 0 ≤ v.dot v := by
  coord_simp; nlinarith [mul_self_nonneg v.x, mul_self_nonneg v.y, mul_self_nonneg v.z]

theorem dot_self_pos_of_ne {v : V3 ℝ} (h : v ≠ V3.zero) : 0 < v.dot v := by
  rcases (dot_self_nonneg v).lt_or_eq with h1 | h1
  · exact h1
  · exfalso
    apply h
    have h2 : v.x * v.x + v.y * v.y + v.z * v.z = 0 := by
      have := h1.symm; simpa [V3.dot] using this
    have hx : v.x = 0 := by nlinarith [mul_self_nonneg v.x, mul_self_nonneg v.y, mul_self_nonneg v.z]
    have hy : v.y = 0 := by nlinarith [mul_self_nonneg v.x, mul_self_nonneg v.y, mul_self_nonneg v.z]
    have hz : v.z = 0 := by nlinarith [mul_self_nonneg v.x, mul_self_nonneg v.y, mul_self_nonneg v.z]
    ext <;> simp [V3.zero, hx, hy, hz]

theorem norm_pos {v : V3 ℝ} (h : 0 < v.dot v) : 0 < norm v := Real.sqrt_pos.mpr h
theorem norm_mul_self {v : V3 ℝ} (h : 0 < v.dot v) : norm v * norm v = v.dot v :=
  Real.mul_self_sqrt h.le

theorem normalize_dot (v w : V3 ℝ) : (normalize v).dot w = v.dot w / norm v := by
  simp only [normalize]; coord_simp; ring

theorem normalize_dot_self {v : V3 ℝ} (h : 0 < v.dot v) : (normalize v).dot (normalize v) = 1 := by
  have hn := norm_pos h
  have h2 := norm_mul_self h
  have : (normalize v).dot (normalize v) = v.dot v / (norm v * norm v) := by
    simp only [normalize]; coord_simp; field_simp
  rw [this, h2, div_self h.ne']

theorem normalize_of_unit {v : V3 ℝ} (h : v.dot v = 1) : normalize v = v := by
  have : norm v = 1 := by rw [norm_def', h, Real.sqrt_one]
  simp only [normalize, this]; coord_simp; simp

theorem cross_left_zero (v : V3 ℝ) : (V3.zero : V3 ℝ).cross v = V3.zero := by coord_ring

/-- the columns `x y z` produced by `abcTriad` -/
theorem abcTriad_spec (a b c : V3 ℝ) (h : (b.sub a).cross (c.sub a) ≠ V3.zero) :
    ∃ x y z : V3 ℝ, abcTriad a b c = M3.ofCols x y z ∧
      z = normalize (b.sub a) ∧ y = normalize (z.cross (c.sub a)) ∧ x = y.cross z ∧
      x.dot x = 1 ∧ y.dot y = 1 ∧ z.dot z = 1 ∧ x.dot y = 0 ∧ y.dot z = 0 ∧ x.dot z = 0 ∧
      x.cross y = z := by
  set ab := b.sub a with hab
  set ac := c.sub a with hac
  have hab0 : ab ≠ V3.zero := by
    intro h0; apply h; rw [h0]; exact cross_left_zero _
  have hpab := dot_self_pos_of_ne hab0
  have hk := dot_self_pos_of_ne h
  set z := normalize ab with hz
  have hzz : z.dot z = 1 := normalize_dot_self hpab
  -- w = z × ac is not zero
  have hw : 0 < (z.cross ac).dot (z.cross ac) := by
    rw [lagrange, hzz, hz, normalize_dot]
    have hl := lagrange ab ac
    have hn := norm_mul_self hpab
    have hnp := norm_pos hpab
    have : 1 * ac.dot ac - (ab.dot ac / norm ab) ^ 2
        = (ab.cross ac).dot (ab.cross ac) / (norm ab * norm ab) := by
      rw [hl, ← hn]; field_simp
    rw [this]; positivity
  set y := normalize (z.cross ac) with hy
  have hyy : y.dot y = 1 := normalize_dot_self hw
  have hyz : y.dot z = 0 := by
    rw [hy, normalize_dot, cross_dot_left, zero_div]
  have huu : (y.cross z).dot (y.cross z) = 1 := by
    rw [lagrange, hyy, hzz, hyz]; ring
  have hx : normalize (y.cross z) = y.cross z := normalize_of_unit huu
  refine ⟨y.cross z, y, z, ?_, rfl, rfl, rfl, huu, hyy, hzz, cross_dot_left _ _, hyz,
    cross_dot_right _ _, ?_⟩
  · simp only [abcTriad]; rw [← hab, ← hac, ← hz, ← hy, hx]
  · -- (y × z) × y = z (y·y) - y (z·y)
    have e1 : y.x * y.x + y.y * y.y + y.z * y.z = 1 := by simpa [V3.dot] using hyy
    have e2 : y.x * z.x + y.y * z.y + y.z * z.z = 0 := by simpa [V3.dot] using hyz
    ext
    · simp only [V3.cross]; linear_combination z.x * e1 - y.x * e2
    · simp only [V3.cross]; linear_combination z.y * e1 - y.y * e2
    · simp only [V3.cross]; linear_combination z.z * e1 - y.z * e2

theorem isFrame_ofCols {x y z : V3 ℝ} (hxx : x.dot x = 1) (hyy : y.dot y = 1) (hzz : z.dot z = 1)
    (hxy : x.dot y = 0) (hyz : y.dot z = 0) (hxz : x.dot z = 0) (hc : x.cross y = z) :
    IsFrame (M3.ofCols x y z) := by
  have e1 : x.x * x.x + x.y * x.y + x.z * x.z = 1 := by simpa [V3.dot] using hxx
  have e2 : y.x * y.x + y.y * y.y + y.z * y.z = 1 := by simpa [V3.dot] using hyy
  have e3 : z.x * z.x + z.y * z.y + z.z * z.z = 1 := by simpa [V3.dot] using hzz
  have e4 : x.x * y.x + x.y * y.y + x.z * y.z = 0 := by simpa [V3.dot] using hxy
  have e5 : y.x * z.x + y.y * z.y + y.z * z.z = 0 := by simpa [V3.dot] using hyz
  have e6 : x.x * z.x + x.y * z.y + x.z * z.z = 0 := by simpa [V3.dot] using hxz
  constructor
  · coord_simp
    split_ands <;>
      first
      | linear_combination e1 | linear_combination e2 | linear_combination e3
      | linear_combination e4 | linear_combination e5 | linear_combination e6
  · -- det [x y z] = (x × y) · z = z · z
    have : (M3.ofCols x y z).det = (x.cross y).dot z := by coord_simp; ring
    rw [this, hc, hzz]

/-! ### the `ℝ` instance unfolded -/

@[simp] theorem sin_real (x : ℝ) : (TransOps.sin x : ℝ) = Real.sin x := rfl
@[simp] theorem cos_real (x : ℝ) : (TransOps.cos x : ℝ) = Real.cos x := rfl
@[simp] theorem sqrt_real (x : ℝ) : (TransOps.sqrt x : ℝ) = Real.sqrt x := rfl
@[simp] theorem atan2_real (y x : ℝ) : (TransOps.atan2 y x : ℝ) = Complex.arg ⟨x, y⟩ := rfl
@[simp] theorem abs_real (x : ℝ) : (TransOps.abs x : ℝ) = |x| := rfl
@[simp] theorem pi_real : (TransOps.pi : ℝ) = Real.pi := rfl
@[simp] theorem tiny_real : (TransOps.tiny : ℝ) = 1 / 10 ^ 8 := rfl

theorem norm_mk (x y : ℝ) : ‖(⟨x, y⟩ : ℂ)‖ = Real.sqrt (x * x + y * y) := by
  rw [Complex.norm_def, Complex.normSq_mk]

theorem mk_ne_zero {x y : ℝ} (h : 0 < x * x + y * y) : (⟨x, y⟩ : ℂ) ≠ 0 := by
  intro h0
  have := congrArg Complex.normSq h0
  rw [Complex.normSq_mk, map_zero] at this
  linarith

theorem deg_cancel (t : ℝ) : t * 180 / Real.pi * (Real.pi / 180) = t := by
  field_simp

theorem cos_atan2 {x y : ℝ} (h : 0 < x * x + y * y) :
    Real.cos (Complex.arg ⟨x, y⟩) = x / Real.sqrt (x * x + y * y) := by
  rw [Complex.cos_arg (mk_ne_zero h), norm_mk]

theorem sin_atan2 (x y : ℝ) :
    Real.sin (Complex.arg ⟨x, y⟩) = y / Real.sqrt (x * x + y * y) := by
  rw [Complex.sin_arg, norm_mk]

/-! ### round trips -/

theorem cyl_fwd_inv (g : V3 ℝ) (h : 0 < g.x * g.x + g.y * g.y) :
    toRect .cyl (fromRect .cyl g) = g := by
  have hr := Real.sqrt_pos.mpr h
  simp only [toRect, fromRect, a2r, sin_real, cos_real, sqrt_real, atan2_real, pi_real, deg_cancel,
    cos_atan2 h, sin_atan2]
  generalize Real.sqrt (g.x * g.x + g.y * g.y) = rho at hr
  ext <;> simp <;> field_simp

theorem mk_polar (r t : ℝ) : (⟨r * Real.cos t, r * Real.sin t⟩ : ℂ)
    = (r : ℂ) * (Complex.cos t + Complex.sin t * Complex.I) := by
  apply Complex.ext <;>
    simp [Complex.cos_ofReal_re, Complex.sin_ofReal_re, Complex.cos_ofReal_im, Complex.sin_ofReal_im]

theorem cyl_inv_fwd (a : V3 ℝ) (hr : 0 < a.x) (hlo : -180 < a.y) (hhi : a.y ≤ 180) :
    fromRect .cyl (toRect .cyl a) = a := by
  have hpi := Real.pi_pos
  set t := a.y * (Real.pi / 180) with ht
  have hmem : t ∈ Set.Ioc (-Real.pi) Real.pi := by
    constructor
    · rw [ht]; nlinarith
    · rw [ht]; nlinarith
  have harg : Complex.arg ⟨a.x * Real.cos t, a.x * Real.sin t⟩ = t := by
    rw [mk_polar]; exact Complex.arg_mul_cos_add_sin_mul_I hr hmem
  have hsq : Real.sqrt (a.x * Real.cos t * (a.x * Real.cos t) + a.x * Real.sin t * (a.x * Real.sin t)) = a.x := by
    have : a.x * Real.cos t * (a.x * Real.cos t) + a.x * Real.sin t * (a.x * Real.sin t) = a.x * a.x := by
      have := Real.sin_sq_add_cos_sq t; nlinarith
    rw [this, Real.sqrt_mul_self hr.le]
  simp only [toRect, fromRect, a2r, sin_real, cos_real, sqrt_real, atan2_real, pi_real]
  rw [← ht, harg, hsq]
  ext
  · rfl
  · simp only [ht]; field_simp
  · rfl

/-- the polar angle `getcoordinates` computes for a spherical system, whichever branch is taken -/
theorem sph_theta (g : V3 ℝ) (h : 0 < g.x * g.x + g.y * g.y) :
    (if |Real.cos (Complex.arg ⟨g.x, g.y⟩)| < |Real.sin (Complex.arg ⟨g.x, g.y⟩)|
      then Complex.arg ⟨g.z, g.y / Real.sin (Complex.arg ⟨g.x, g.y⟩)⟩
      else Complex.arg ⟨g.z, g.x / Real.cos (Complex.arg ⟨g.x, g.y⟩)⟩)
    = Complex.arg ⟨g.z, Real.sqrt (g.x * g.x + g.y * g.y)⟩ := by
  have hr := Real.sqrt_pos.mpr h
  have hrr := Real.mul_self_sqrt h.le
  rw [cos_atan2 h, sin_atan2]
  set rho := Real.sqrt (g.x * g.x + g.y * g.y) with hrho
  split_ifs with hb
  · have hs : g.y / rho ≠ 0 := by
      intro h0; rw [h0, abs_zero] at hb; exact absurd hb (not_lt.mpr (abs_nonneg _))
    have hy : g.y ≠ 0 := by intro h0; apply hs; rw [h0, zero_div]
    congr 2; field_simp
  · have hc : g.x / rho ≠ 0 := by
      intro h0
      rw [h0, abs_zero] at hb
      have hs0 : g.y / rho = 0 := by
        have := le_antisymm (not_lt.mp hb) (abs_nonneg _); exact abs_eq_zero.mp this
      have hx : g.x = 0 := by
        rcases div_eq_zero_iff.mp h0 with h1 | h1
        · exact h1
        · exact absurd h1 hr.ne'
      have hy : g.y = 0 := by
        rcases div_eq_zero_iff.mp hs0 with h1 | h1
        · exact h1
        · exact absurd h1 hr.ne'
      rw [hx, hy] at h; simp at h
    have hx : g.x ≠ 0 := by intro h0; apply hc; rw [h0, zero_div]
    congr 2; field_simp

theorem sph_fwd_inv (g : V3 ℝ) (h : 0 < g.x * g.x + g.y * g.y) :
    toRect .sph (fromRect .sph g) = g := by
  have hr := Real.sqrt_pos.mpr h
  have hrr := Real.mul_self_sqrt h.le
  have hR2 : g.z * g.z + Real.sqrt (g.x * g.x + g.y * g.y) * Real.sqrt (g.x * g.x + g.y * g.y)
      = g.dot g := by rw [hrr]; simp only [V3.dot]; ring
  have hgg : 0 < g.dot g := by simp only [V3.dot]; nlinarith [mul_self_nonneg g.z]
  have hR := Real.sqrt_pos.mpr hgg
  have hz2 : 0 < g.z * g.z + Real.sqrt (g.x * g.x + g.y * g.y) * Real.sqrt (g.x * g.x + g.y * g.y) := by
    rw [hR2]; exact hgg
  simp only [toRect, fromRect, a2r, sin_real, cos_real, atan2_real, pi_real, abs_real, deg_cancel,
    sph_theta g h, norm_def']
  rw [cos_atan2 h, sin_atan2, cos_atan2 hz2, sin_atan2, hR2]
  set rho := Real.sqrt (g.x * g.x + g.y * g.y) with hrho
  set R := Real.sqrt (g.dot g) with hRdef
  ext <;> simp only [V3.smul] <;> field_simp

/-! ### `gridRb` = (local frame)ᵀ · rigid -/

theorem rotzT_atan2 {x y : ℝ} (h : 0 < x * x + y * y) (z : ℝ) :
    rotzT (Complex.arg ⟨x, y⟩) = cylE ⟨x, y, z⟩ := by
  simp only [rotzT, cylE, sin_real, cos_real, sqrt_real, cos_atan2 h, sin_atan2]

theorem pos_of_tiny_lt {x y : ℝ} (h : (1 : ℝ) / 10 ^ 8 < |y| + |x|) : 0 < x * x + y * y := by
  have h0 : (0 : ℝ) < |y| + |x| := lt_trans (by positivity) h
  rcases (abs_nonneg x).lt_or_eq with hx | hx
  · have : 0 < x * x := by rw [← abs_mul_abs_self]; positivity
    nlinarith [mul_self_nonneg y]
  · have hy : 0 < |y| := by rw [← hx] at h0; linarith
    have : 0 < y * y := by rw [← abs_mul_abs_self]; positivity
    nlinarith [mul_self_nonneg x]

theorem gridRb_rect (co : CoordInfo ℝ) (p ref : V3 ℝ) (h : co.typ = .rect) :
    gridRb co p ref = Rb.lmul (localFrameT co p) (rigid (p.sub ref)) := by
  simp only [gridRb, localFrameT, h]

theorem gridRb_cyl (co : CoordInfo ℝ) (p ref : V3 ℝ) (h : co.typ = .cyl)
    (hfix : (1 : ℝ) / 10 ^ 8 < |(co.T.transpose.mulVec (p.sub co.origin)).y|
      + |(co.T.transpose.mulVec (p.sub co.origin)).x|) :
    gridRb co p ref = Rb.lmul (localFrameT co p) (rigid (p.sub ref)) := by
  have hpos := pos_of_tiny_lt hfix
  simp only [gridRb, localFrameT, h, abs_real, tiny_real, atan2_real, if_pos hfix]
  rw [lmul_lmul, rotzT_atan2 hpos (co.T.transpose.mulVec (p.sub co.origin)).z]

theorem sphT_mul_rotzT (g : V3 ℝ) (h : 0 < g.x * g.x + g.y * g.y) :
    (sphT (Complex.arg ⟨g.z, Real.sqrt (g.x * g.x + g.y * g.y)⟩)).mul (rotzT (Complex.arg ⟨g.x, g.y⟩))
      = sphE g := by
  have hr := Real.sqrt_pos.mpr h
  have hrr := Real.mul_self_sqrt h.le
  have hR2 : g.z * g.z + Real.sqrt (g.x * g.x + g.y * g.y) * Real.sqrt (g.x * g.x + g.y * g.y)
      = g.dot g := by rw [hrr]; simp only [V3.dot]; ring
  have hgg : 0 < g.dot g := by simp only [V3.dot]; nlinarith [mul_self_nonneg g.z]
  have hR := Real.sqrt_pos.mpr hgg
  have hz2 : 0 < g.z * g.z + Real.sqrt (g.x * g.x + g.y * g.y) * Real.sqrt (g.x * g.x + g.y * g.y) := by
    rw [hR2]; exact hgg
  simp only [sphT, rotzT, sphE, sin_real, cos_real, sqrt_real, norm_def']
  rw [cos_atan2 h, sin_atan2, cos_atan2 hz2, sin_atan2, hR2]
  generalize Real.sqrt (g.x * g.x + g.y * g.y) = rho at hr
  generalize Real.sqrt (g.dot g) = R at hR
  coord_simp
  split_ands <;> field_simp <;> ring

theorem gridRb_sph (co : CoordInfo ℝ) (p ref : V3 ℝ) (h : co.typ = .sph)
    (hfix : (1 : ℝ) / 10 ^ 8 < |(co.T.transpose.mulVec (p.sub co.origin)).y|
      + |(co.T.transpose.mulVec (p.sub co.origin)).x|)
    (hfix' : (1 : ℝ) / 10 ^ 8 < |(co.T.transpose.mulVec (p.sub co.origin)).z|
      + Real.sqrt ((co.T.transpose.mulVec (p.sub co.origin)).x * (co.T.transpose.mulVec (p.sub co.origin)).x
        + (co.T.transpose.mulVec (p.sub co.origin)).y * (co.T.transpose.mulVec (p.sub co.origin)).y)) :
    gridRb co p ref = Rb.lmul (localFrameT co p) (rigid (p.sub ref)) := by
  have hpos := pos_of_tiny_lt hfix
  set g := co.T.transpose.mulVec (p.sub co.origin) with hg
  have hr := Real.sqrt_pos.mpr hpos
  have hrr := Real.mul_self_sqrt hpos.le
  -- after the φ rotation the in-plane component is ρ
  have hl0 : Real.cos (Complex.arg ⟨g.x, g.y⟩) * g.x + Real.sin (Complex.arg ⟨g.x, g.y⟩) * g.y
      = Real.sqrt (g.x * g.x + g.y * g.y) := by
    rw [cos_atan2 hpos, sin_atan2, div_mul_eq_mul_div, div_mul_eq_mul_div, ← add_div,
      div_eq_iff hr.ne', hrr]
  have hfix2 : (1 : ℝ) / 10 ^ 8 < |g.z| + |Real.sqrt (g.x * g.x + g.y * g.y)| := by
    rw [abs_of_pos hr]; exact hfix'
  simp only [gridRb, localFrameT, h, abs_real, tiny_real, atan2_real, sin_real, cos_real]
  rw [← hg]
  simp only [if_pos hfix, hl0, if_pos hfix2]
  rw [lmul_lmul, lmul_lmul, sphT_mul_rotzT g hpos]

/-! ### inverse, frames of the local rotations -/

theorem inv_mul_self (M : M3 ℝ) (h : M.det ≠ 0) : M.inv.mul M = M3.one := by
  have hd : M.det = M.r0.dot (M.r1.cross M.r2) := rfl
  simp only [M3.inv]
  generalize M.det = d at h hd
  simp only [V3.dot, V3.cross] at hd
  coord_simp
  split_ands <;> field_simp <;> (try rw [hd]) <;> ring

theorem rbcoords_lmul_rigid (F : M3 ℝ) (h : F.det ≠ 0) (d : V3 ℝ) :
    rbcoordsGrid (Rb.lmul F (rigid d)) = d := by
  simp only [rbcoordsGrid, Rb.lmul, rigid]
  rw [mul_one3, ← mul_assoc3, inv_mul_self F h, one_mul3]
  rfl

theorem rotzT_frame (t : ℝ) : IsFrame (rotzT t).transpose := by
  have h1 := Real.sin_sq_add_cos_sq t
  simp only [rotzT, sin_real, cos_real]
  constructor
  · coord_simp
    split_ands <;> first | ring1 | linear_combination h1
  · coord_simp
    linear_combination h1

theorem sphT_frame (t : ℝ) : IsFrame (sphT t).transpose := by
  have h1 := Real.sin_sq_add_cos_sq t
  simp only [sphT, sin_real, cos_real]
  constructor
  · coord_simp
    split_ands <;> first | ring1 | linear_combination h1
  · coord_simp
    linear_combination h1

theorem cylE_frame (g : V3 ℝ) (h : 0 < g.x * g.x + g.y * g.y) : IsFrame (cylE g).transpose := by
  have e : cylE g = rotzT (Complex.arg ⟨g.x, g.y⟩) := (rotzT_atan2 h g.z).symm
  rw [e]; exact rotzT_frame _

theorem sphE_frame (g : V3 ℝ) (h : 0 < g.x * g.x + g.y * g.y) : IsFrame (sphE g).transpose := by
  rw [← sphT_mul_rotzT g h, transpose_mul]
  exact IsFrame.mul (rotzT_frame _) (sphT_frame _)

/-- `R_grid` is a right-handed orthonormal triad -/
theorem localFrame_isFrame (co : CoordInfo ℝ) (p : V3 ℝ) (hT : IsFrame co.T)
    (hoff : co.typ ≠ .rect → 0 < (co.T.transpose.mulVec (p.sub co.origin)).x * (co.T.transpose.mulVec (p.sub co.origin)).x
      + (co.T.transpose.mulVec (p.sub co.origin)).y * (co.T.transpose.mulVec (p.sub co.origin)).y) :
    IsFrame (localFrameT co p).transpose := by
  unfold localFrameT
  cases hc : co.typ with
  | rect => simpa [transpose_transpose] using hT
  | cyl =>
    simp only [transpose_mul, transpose_transpose]
    exact IsFrame.mul hT (cylE_frame _ (hoff (by simp [hc])))
  | sph =>
    simp only [transpose_mul, transpose_transpose]
    exact IsFrame.mul hT (sphE_frame _ (hoff (by simp [hc])))

theorem IsFrame.det_transpose_ne {T : M3 ℝ} (h : IsFrame T) : T.transpose.det ≠ 0 := by
  rw [det_transpose, h.2]; exact one_ne_zero

/-! ### chains -/

theorem abcTriad_isFrame (a b c : V3 ℝ) (h : NonCollinear a b c) : IsFrame (abcTriad a b c) := by
  obtain ⟨x, y, z, he, -, -, -, hxx, hyy, hzz, hxy, hyz, hxz, hc⟩ := abcTriad_spec a b c h
  rw [he]; exact isFrame_ofCols hxx hyy hzz hxy hyz hxz hc

theorem mkCoord_isFrame (ref : CoordInfo ℝ) (typ : CType) (A B C : V3 ℝ) (hT : IsFrame ref.T)
    (h : NonCollinear (toRect ref.typ A) (toRect ref.typ B) (toRect ref.typ C)) :
    IsFrame (mkCoord ref typ A B C).T := by
  simp only [mkCoord]
  exact IsFrame.mul hT (abcTriad_isFrame _ _ _ h)

theorem resolve_snoc (specs : List (CsSpec ℝ)) (s : CsSpec ℝ) :
    resolve (specs ++ [s]) = (resolve specs).bind fun acc =>
      (acc[s.ref]?).bind fun r => some (acc ++ [mkCoord r s.typ s.A s.B s.C]) := by
  simp only [resolve, List.foldlM_append, List.foldlM_cons, List.foldlM_nil]
  cases h : List.foldlM (fun acc s => do
      let r ← acc[s.ref]?
      pure (acc ++ [mkCoord r s.typ s.A s.B s.C])) [basic] specs with
  | none => rfl
  | some acc =>
    simp only [Option.bind_eq_bind, Option.bind_some, Option.pure_def]
    cases acc[s.ref]? <;> rfl

theorem chain_frames (specs : List (CsSpec ℝ)) :
    ∀ l, resolve specs = some l →
    (∀ pre s suf acc r, specs = pre ++ s :: suf → resolve pre = some acc → acc[s.ref]? = some r →
        NonCollinear (toRect r.typ s.A) (toRect r.typ s.B) (toRect r.typ s.C)) →
    ∀ ci ∈ l, IsFrame ci.T := by
  induction specs using List.reverseRecOn with
  | nil =>
    intro l h _ ci hci
    have : l = [basic] := by simpa [resolve] using h.symm
    subst this
    have : ci = basic := by simpa using hci
    subst this
    exact IsFrame.one
  | append_singleton init s ih =>
    intro l h hok ci hci
    rw [resolve_snoc] at h
    cases hacc : resolve init with
    | none => rw [hacc] at h; exact absurd h (by simp)
    | some acc =>
      rw [hacc] at h
      cases hr : acc[s.ref]? with
      | none => simp [hr] at h
      | some r =>
        simp only [hr, Option.bind_some, Option.some.injEq] at h
        subst h
        have ihf := ih acc hacc (fun pre s' suf acc' r' he => hok pre s' (suf ++ [s]) acc' r' (by rw [he]; simp))
        rcases List.mem_append.mp hci with hm | hm
        · exact ihf ci hm
        · have : ci = mkCoord r s.typ s.A s.B s.C := by simpa using hm
          subst this
          have hrm : r ∈ acc := List.mem_of_getElem? hr
          exact mkCoord_isFrame r _ _ _ _ (ihf r hrm) (hok init s [] acc r (by simp) hacc hr)
/-! ### orthogonality both ways, factorisation of `gridRb`, `rbmove` -/

theorem mul_inv_self (M : M3 ℝ) (h : M.det ≠ 0) : M.mul M.inv = M3.one := by
  have hd : M.det = M.r0.dot (M.r1.cross M.r2) := rfl
  simp only [M3.inv]
  generalize M.det = d at h hd
  simp only [V3.dot, V3.cross] at hd
  coord_simp
  split_ands <;> field_simp <;> (try rw [hd]) <;> ring

theorem IsFrame.mul_transpose {T : M3 ℝ} (h : IsFrame T) : T.mul T.transpose = M3.one := by
  have hd : T.det ≠ 0 := by rw [h.2]; exact one_ne_zero
  have e : T.transpose = T.inv := by
    calc T.transpose = T.transpose.mul (T.mul T.inv) := by rw [mul_inv_self T hd, mul_one3]
      _ = T.inv := by rw [← mul_assoc3, h.1, one_mul3]
  rw [e, mul_inv_self T hd]

theorem IsFrame.mulVec_transpose {T : M3 ℝ} (h : IsFrame T) (v : V3 ℝ) :
    T.mulVec (T.transpose.mulVec v) = v := by
  rw [mulVec_mulVec, h.mul_transpose, one_mulVec]

/-- the polar fix-ups of `rbgeom_uset` are taken (the grid is off the polar axis of its output system) -/
def FixupsActive (co : CoordInfo ℝ) (p : V3 ℝ) : Prop :=
  let g := co.T.transpose.mulVec (p.sub co.origin)
  match co.typ with
  | .rect => True
  | .cyl => (1 : ℝ) / 10 ^ 8 < |g.y| + |g.x|
  | .sph => (1 : ℝ) / 10 ^ 8 < |g.y| + |g.x| ∧ (1 : ℝ) / 10 ^ 8 < |g.z| + Real.sqrt (g.x * g.x + g.y * g.y)

theorem gridRb_factor (co : CoordInfo ℝ) (p ref : V3 ℝ) (h : FixupsActive co p) :
    gridRb co p ref = Rb.lmul (localFrameT co p) (rigid (p.sub ref)) := by
  unfold FixupsActive at h
  cases hc : co.typ with
  | rect => exact gridRb_rect co p ref hc
  | cyl => rw [hc] at h; exact gridRb_cyl co p ref hc h
  | sph => rw [hc] at h; exact gridRb_sph co p ref hc h.1 h.2

theorem FixupsActive.offAxis {co : CoordInfo ℝ} {p : V3 ℝ} (h : FixupsActive co p) :
    co.typ ≠ .rect → 0 < (co.T.transpose.mulVec (p.sub co.origin)).x * (co.T.transpose.mulVec (p.sub co.origin)).x
      + (co.T.transpose.mulVec (p.sub co.origin)).y * (co.T.transpose.mulVec (p.sub co.origin)).y := by
  intro hne
  unfold FixupsActive at h
  cases hc : co.typ with
  | rect => exact absurd hc hne
  | cyl => rw [hc] at h; exact pos_of_tiny_lt h
  | sph => rw [hc] at h; exact pos_of_tiny_lt h.1

theorem gridRb_mul_rigid (co : CoordInfo ℝ) (p old new : V3 ℝ) :
    (gridRb co p old).mul (rigid (old.sub new)) = gridRb co p new := by
  have key : ∀ F : M3 ℝ, (Rb.lmul F (rigid (p.sub old))).mul (rigid (old.sub new))
      = Rb.lmul F (rigid (p.sub new)) := by
    intro F; rw [lmul_mul, rigid_mul]; congr 2; coord_ring
  unfold gridRb
  cases co.typ <;> simp only [] <;> (try split_ifs) <;> simp only [lmul_lmul, key]

end PyYetiVerif.Coord
