import PyYetiVerif.Lemmas.RainflowDup
/-! Runs of `k ≥ 2` equal points (plateaus) in the rainflow stack machine (core Lean only). -/
set_option linter.unusedSectionVars false
set_option linter.unusedVariables false
namespace PyYetiVerif.Rainflow

variable {α : Type} [Sub α] [Add α] [LT α] [DecidableLT α]

/-- `j` zero-range FULL cycles `(n, n+1), (n+2, n+3), …` of the value `x` -/
def zeroFulls (x : α) : Nat → Nat → List (Cyc α)
  | _, 0 => []
  | n, j + 1 => mkCyc true (x, n) (x, n + 1) :: zeroFulls x (n + 2) j

/-- `k` zero-range HALF cycles `(n, n+1), (n+1, n+2), …` of the value `x` -/
def zeroHalves (x : α) : Nat → Nat → List (Cyc α)
  | _, 0 => []
  | n, k + 1 => mkCyc false (x, n) (x, n + 1) :: zeroHalves x (n + 1) k

@[simp] theorem zeroFulls_length (x : α) (n j : Nat) : (zeroFulls x n j).length = j := by
  induction j generalizing n with
  | zero => rfl
  | succ j ih => simp [zeroFulls, ih]

@[simp] theorem zeroHalves_length (x : α) (n k : Nat) : (zeroHalves x n k).length = k := by
  induction k generalizing n with
  | zero => rfl
  | succ k ih => simp [zeroHalves, ih]

/-- the stack the loop leaves is stable: running the loop again does nothing -/
theorem reduce_idem (st : List (α × Nat)) : reduce (reduce st).1 = ((reduce st).1, []) := by
  fun_induction reduce st with
  | case1 c b a h => show reduce [c, b, a] = _; rw [reduce]; simp [h]
  | case2 c b a h => simp [reduce]
  | case3 c b a r rest h => show reduce (c :: b :: a :: r :: rest) = _; rw [reduce]; simp [h]
  | case4 c b a r rest h res ih => simpa [res] using ih
  | case5 st h1 h2 =>
      match st, h1, h2 with
      | [], _, _ => simp [reduce]
      | [a], _, _ => simp [reduce]
      | [a, b], _, _ => simp [reduce]
      | [c, b, a], h1, _ => exact absurd rfl (h1 c b a)
      | c :: b :: a :: r :: rest, _, h2 => exact absurd rfl (h2 c b a r rest)

/-- stability does not depend on the offset the top carries -/
theorem stable_relabel (x : α) (n m : Nat) (w : α × Nat) (rest : List (α × Nat))
    (h : reduce ((x, n) :: w :: rest) = ((x, n) :: w :: rest, [])) :
    reduce ((x, m) :: w :: rest) = ((x, m) :: w :: rest, []) := by
  match rest, h with
  | [], _ => simp [reduce]
  | [a], h =>
      by_cases hlt : absd w.1 x < absd a.1 w.1
      · rw [reduce]; simp [hlt]
      · rw [reduce] at h; simp [hlt] at h
  | a :: r :: rest, h =>
      by_cases hlt : absd w.1 x < absd a.1 w.1
      · rw [reduce]; simp [hlt]
      · rw [reduce] at h; simp [hlt] at h

/-- `2 j` further copies of the top `x` of a stable stack `x :: w :: rest`: `j` zero-range full cycles are counted
and the top is again one copy of `x` (now with the offset of the last copy) -/
theorem plateau_fold_even (x : α) (w : α × Nat) (rest : List (α × Nat))
    (hs : ∀ m, reduce ((x, m) :: w :: rest) = ((x, m) :: w :: rest, []))
    (h1 : absd x x < absd w.1 x) (h2 : ¬ absd x x < absd x x) (j : Nat) :
    ∀ (n : Nat) (rows : List (Cyc α)),
    (index (List.replicate (2 * j) x) (n + 1)).foldl step ((x, n) :: w :: rest, rows)
      = ((x, n + 2 * j) :: w :: rest, rows ++ zeroFulls x n j) := by
  induction j with
  | zero => intro n rows; simp [index, zeroFulls]
  | succ j ih =>
      intro n rows
      have e : 2 * (j + 1) = 2 * j + 1 + 1 := by omega
      rw [e, List.replicate_succ, List.replicate_succ]
      simp only [index, List.foldl_cons]
      rw [plateau_step (x, n) (x, n + 1) (x, n + 1 + 1) w rest rows h1 h2, hs (n + 1 + 1)]
      have := ih (n + 1 + 1) (rows ++ [mkCyc true (x, n) (x, n + 1)])
      simp only [List.append_nil] at this ⊢
      rw [this]
      have e2 : n + 1 + 1 + 2 * j = n + (2 * j + 1 + 1) := by omega
      rw [e2]
      simp [zeroFulls, List.append_assoc]

/-- **a run of equal points at an interior position.**  `pre ++ [x]` has been read and left the stack
`x :: w :: rest` (`w` differs from `x`: `h1`) and the rows `rows`; `n = pre.length` is the offset of the first copy.
A run of `2 j + 1` copies counts `j` zero-range FULL cycles `(n, n+1), …, (n+2j-2, n+2j-1)` and the machine goes on
from the SAME stack with `x` carrying the offset `n + 2 j` of the last copy; a run of `2 j + 2` copies counts the same
`j` full cycles and goes on from the stack `x :: x :: w :: rest` (offsets `n+2j+1`, `n+2j`) — exactly the situation
after a run of two (`duplicate_interior_aux`).  `post` may be empty (the run ends the record). -/
theorem plateau_interior_aux (pre : List α) (x : α) (w : α × Nat) (rest : List (α × Nat)) (rows : List (Cyc α))
    (hrun : run (index (pre ++ [x]) 0) = ((x, pre.length) :: w :: rest, rows))
    (h1 : absd x x < absd w.1 x) (h2 : ¬ absd x x < absd x x) (j : Nat) (post : List α) :
    rainflow (pre ++ List.replicate (2 * j + 1) x ++ post) =
        ((index post (pre.length + 2 * j + 1)).foldl step
            ((x, pre.length + 2 * j) :: w :: rest, rows ++ zeroFulls x pre.length j)).2 ++
          finish ((index post (pre.length + 2 * j + 1)).foldl step
            ((x, pre.length + 2 * j) :: w :: rest, rows ++ zeroFulls x pre.length j)).1.reverse ∧
    rainflow (pre ++ List.replicate (2 * j + 2) x ++ post) =
        ((index post (pre.length + 2 * j + 2)).foldl step
            ((x, pre.length + 2 * j + 1) :: (x, pre.length + 2 * j) :: w :: rest,
              rows ++ zeroFulls x pre.length j)).2 ++
          finish ((index post (pre.length + 2 * j + 2)).foldl step
            ((x, pre.length + 2 * j + 1) :: (x, pre.length + 2 * j) :: w :: rest,
              rows ++ zeroFulls x pre.length j)).1.reverse := by
  have hrun' : (index (pre ++ [x]) 0).foldl step ([], []) = ((x, pre.length) :: w :: rest, rows) := hrun
  have hidx : index (pre ++ [x]) 0 = index pre 0 ++ [(x, pre.length)] := by
    rw [index_append]; simp [index]
  have hst : reduce ((x, pre.length) :: w :: rest) = ((x, pre.length) :: w :: rest, []) := by
    have h := hrun'
    rw [hidx, List.foldl_append] at h
    simp only [List.foldl_cons, List.foldl_nil, step] at h
    have hf := congrArg Prod.fst h
    simp only [] at hf
    have := reduce_idem ((x, pre.length) :: (List.foldl step ([], []) (index pre 0)).1)
    rw [hf] at this
    exact this
  have hs : ∀ m, reduce ((x, m) :: w :: rest) = ((x, m) :: w :: rest, []) :=
    fun m => stable_relabel x pre.length m w rest hst
  have hfold := plateau_fold_even x w rest hs h1 h2 j pre.length rows
  constructor
  · have hl : pre ++ List.replicate (2 * j + 1) x ++ post
        = (pre ++ [x]) ++ (List.replicate (2 * j) x ++ post) := by
      rw [List.replicate_succ]; simp
    have hi : index (pre ++ List.replicate (2 * j + 1) x ++ post) 0
        = index (pre ++ [x]) 0 ++ (index (List.replicate (2 * j) x) (pre.length + 1)
            ++ index post (pre.length + 2 * j + 1)) := by
      rw [hl, index_append (pre ++ [x]), index_append (List.replicate (2 * j) x)]
      simp only [List.length_append, List.length_cons, List.length_nil, List.length_replicate, Nat.zero_add]
      have : pre.length + 1 + 2 * j = pre.length + 2 * j + 1 := by omega
      rw [this]
    unfold rainflow run
    simp only [hi, List.foldl_append, hrun', hfold]
  · have hl : pre ++ List.replicate (2 * j + 2) x ++ post
        = (pre ++ [x]) ++ (List.replicate (2 * j) x ++ (x :: post)) := by
      rw [List.replicate_succ, List.replicate_succ']; simp
    have hi : index (pre ++ List.replicate (2 * j + 2) x ++ post) 0
        = index (pre ++ [x]) 0 ++ (index (List.replicate (2 * j) x) (pre.length + 1)
            ++ (x, pre.length + 2 * j + 1) :: index post (pre.length + 2 * j + 2)) := by
      rw [hl, index_append (pre ++ [x]), index_append (List.replicate (2 * j) x)]
      simp only [List.length_append, List.length_cons, List.length_nil, List.length_replicate, Nat.zero_add, index]
      have : pre.length + 1 + 2 * j = pre.length + 2 * j + 1 := by omega
      rw [this]
    unfold rainflow run
    simp only [hi, List.foldl_append, hrun', hfold, List.foldl_cons]
    rw [plateau_read (x, pre.length + 2 * j) (x, pre.length + 2 * j + 1) w rest _ h1]

/-- shifting the offsets of a list of zero half cycles -/
theorem zeroHalves_shift (x : α) (n k : Nat) :
    (zeroHalves x n k).map (shiftCyc 1) = zeroHalves x (n + 1) k := by
  induction k generalizing n with
  | zero => rfl
  | succ k ih => simp [zeroHalves, ih, mkCyc, shiftCyc]

/-- **a run of `k + 1` equal points at the very start** (generalises `duplicate_first_aux`): `k` zero-range HALF
cycles `(0,1), (1,2), …, (k-1,k)` in front, then the table of the record with the run compressed to one point, its
offsets shifted by `k` — for any `k` and any continuation (also none) -/
theorem plateau_start_aux (x : α) (h0 : ∀ y : α, ¬ absd x y < absd x x) (k : Nat) (rest : List α) :
    rainflow (List.replicate (k + 1) x ++ rest)
      = zeroHalves x 0 k ++ (rainflow (x :: rest)).map (shiftCyc k) := by
  induction k with
  | zero =>
      have : (fun c : Cyc α => shiftCyc 0 c) = id := by funext c; simp [shiftCyc]
      simp [zeroHalves, this]
  | succ k ih =>
      have hl : List.replicate (k + 1 + 1) x ++ rest = x :: x :: (List.replicate k x ++ rest) := by
        rw [List.replicate_succ, List.replicate_succ]; simp
      have hl' : x :: (List.replicate k x ++ rest) = List.replicate (k + 1) x ++ rest := by
        rw [List.replicate_succ]; simp
      rw [hl, duplicate_first_aux x _ h0, hl', ih]
      have hc : ∀ c : Cyc α, shiftCyc 1 (shiftCyc k c) = shiftCyc (k + 1) c := by
        intro c; simp [shiftCyc, Nat.add_assoc]
      simp [zeroHalves, zeroHalves_shift, List.map_map, Function.comp_def, hc]

/-! ### in user terms: the table without offsets (`rainflow1` = amplitude·2, mean·2, full/half) -/

/-- what the machine still does with `post` from the stack of values `vs`, offsets dropped -/
def cont1 (vs : List α) (post : List α) : List (α × α × Bool) :=
  (post.foldl step1 (vs, [])).2 ++ finish1 (post.foldl step1 (vs, [])).1.reverse

theorem strip_cont (post : List α) (N : Nat) (st : List (α × Nat)) (rows : List (Cyc α)) :
    (((index post N).foldl step (st, rows)).2
        ++ finish ((index post N).foldl step (st, rows)).1.reverse).map strip
      = rows.map strip ++ cont1 (st.map Prod.fst) post := by
  have hp := fold_prefix (index post N) st rows []
  simp only [List.append_nil] at hp
  rw [hp]
  have h := fold1_eq (index post N) (st, [])
  simp only [index_map_fst, List.map_nil] at h
  unfold cont1
  rw [h]
  simp only [List.map_append, ← finish1_eq, List.map_reverse, List.append_assoc]

theorem zeroFulls_strip (x : α) (n j : Nat) :
    (zeroFulls x n j).map strip = List.replicate j (absd x x, x + x, true) := by
  induction j generalizing n with
  | zero => rfl
  | succ j ih => simp [zeroFulls, ih, strip, mkCyc, List.replicate_succ]

/-- **plateaus compress by PARITY, not to one point.**  Under the hypotheses of `plateau_interior_aux`, with
`T1` / `T2` what the machine does with `post` from the stack `x :: w :: rest` / `x :: x :: w :: rest`:
the offset-free table of the record with a run of `2 j + 1` copies is that of the record with ONE copy plus `j` rows
`(0, x + x, full)` inserted after `rows`; with a run of `2 j + 2` copies it is that of the record with TWO copies
plus the same `j` rows. -/
theorem plateau_parity_aux (pre : List α) (x : α) (w : α × Nat) (rest : List (α × Nat)) (rows : List (Cyc α))
    (hrun : run (index (pre ++ [x]) 0) = ((x, pre.length) :: w :: rest, rows))
    (h1 : absd x x < absd w.1 x) (h2 : ¬ absd x x < absd x x) (j : Nat) (post : List α) :
    (rainflow1 (pre ++ List.replicate (2 * j + 1) x ++ post)
        = rows.map strip ++ List.replicate j (absd x x, x + x, true)
            ++ cont1 (x :: w.1 :: rest.map Prod.fst) post ∧
      rainflow1 (pre ++ x :: post) = rows.map strip ++ cont1 (x :: w.1 :: rest.map Prod.fst) post) ∧
    (rainflow1 (pre ++ List.replicate (2 * j + 2) x ++ post)
        = rows.map strip ++ List.replicate j (absd x x, x + x, true)
            ++ cont1 (x :: x :: w.1 :: rest.map Prod.fst) post ∧
      rainflow1 (pre ++ x :: x :: post) = rows.map strip ++ cont1 (x :: x :: w.1 :: rest.map Prod.fst) post) := by
  have hj := plateau_interior_aux pre x w rest rows hrun h1 h2 j post
  have h0 := plateau_interior_aux pre x w rest rows hrun h1 h2 0 post
  have e1 : pre ++ List.replicate (2 * 0 + 1) x ++ post = pre ++ x :: post := by simp
  have e2 : pre ++ List.replicate (2 * 0 + 2) x ++ post = pre ++ x :: x :: post := by
    simp [List.replicate_succ]
  rw [e1, e2] at h0
  refine ⟨⟨?_, ?_⟩, ?_, ?_⟩
  · rw [rainflow1_eq, hj.1, strip_cont]; simp [zeroFulls_strip]
  · rw [rainflow1_eq, h0.1, strip_cont]; simp [zeroFulls]
  · rw [rainflow1_eq, hj.2, strip_cont]; simp [zeroFulls_strip]
  · rw [rainflow1_eq, h0.2, strip_cont]; simp [zeroFulls]

end PyYetiVerif.Rainflow
