import PyYetiVerif.Model.RigidBody
import Mathlib.Analysis.SpecialFunctions.Sqrt
import Mathlib.Analysis.SpecialFunctions.Trigonometric.Arctan
import Mathlib.Tactic.FieldSimp
import Mathlib.Tactic.Ring
import Mathlib.Tactic.IntervalCases
import Mathlib.Data.List.Perm.Basic
/-! Helper lemmas for C06: the real-number instance of `RbOps`, `sumN` as an unfolded sum,
list lemmas about `flippv` / `pvList` / `rankIn`. -/
set_option linter.unusedVariables false
set_option linter.unusedSimpArgs false
set_option linter.unusedSectionVars false
namespace PyYetiVerif.RigidBody

noncomputable instance instRbOpsReal : RbOps ℝ where
  cos := Real.cos
  sin := Real.sin
  sqrt := Real.sqrt
  abs := fun x => |x|
  atan2 := fun y x => Real.arctan (y / x)   -- only `cos`/`sin` of it are used; never unfolded
  gt := fun x y => decide (x > y)
  tiny := 1e-8

section sums
variable {K : Type} [CommRing K]

theorem sumN_six (f : Nat → K) : sumN 6 f = f 0 + f 1 + f 2 + f 3 + f 4 + f 5 := by
  simp [sumN]

end sums

/-! ### lists -/

theorem mem_flippv {b : List Nat} {n x : Nat} : x ∈ flippv b n ↔ x < n ∧ x ∉ b := by
  simp [flippv]

theorem flippv_nodup (b : List Nat) (n : Nat) : (flippv b n).Nodup :=
  List.Nodup.filter _ List.nodup_range

theorem pvList_perm {b : List Nat} {lt : Nat} (last : Bool) (hb : b.Nodup)
    (hlt : ∀ x ∈ b, x < lt) : (pvList b lt last).Perm (List.range lt) := by
  have hsub : b.Subperm (List.range lt) :=
    List.Nodup.subperm hb (fun x hx => List.mem_range.2 (hlt x hx))
  unfold pvList
  split_ifs with h0 hl
  · -- lt ≤ |b|: b itself is a permutation of range lt
    have hle : (List.range lt).length ≤ b.length := by simp; omega
    exact hsub.perm_of_length_le hle
  · have hnd : (flippv b lt ++ b).Nodup := by
      refine List.Nodup.append (flippv_nodup b lt) hb ?_
      intro x hx hxb
      exact (mem_flippv.1 hx).2 hxb
    refine (List.perm_ext_iff_of_nodup hnd List.nodup_range).2 ?_
    intro x
    simp only [List.mem_append, mem_flippv, List.mem_range]
    constructor
    · rintro (h | h)
      · exact h.1
      · exact hlt x h
    · intro h
      by_cases hx : x ∈ b
      · exact Or.inr hx
      · exact Or.inl ⟨h, hx⟩
  · have hnd : (b ++ flippv b lt).Nodup := by
      refine List.Nodup.append hb (flippv_nodup b lt) ?_
      intro x hxb hx
      exact (mem_flippv.1 hx).2 hxb
    refine (List.perm_ext_iff_of_nodup hnd List.nodup_range).2 ?_
    intro x
    simp only [List.mem_append, mem_flippv, List.mem_range]
    constructor
    · rintro (h | h)
      · exact hlt x h
      · exact h.1
    · intro h
      by_cases hx : x ∈ b
      · exact Or.inl hx
      · exact Or.inr ⟨h, hx⟩

theorem rankIn_lt {b : List Nat} {x : Nat} (hx : x ∈ b) : rankIn b x < b.length := by
  unfold rankIn
  induction b with
  | nil => simp at hx
  | cons a t ih =>
    simp only [List.filter_cons, List.length_cons]
    rcases List.mem_cons.1 hx with rfl | h
    · simp only [lt_self_iff_false, decide_false]
      exact Nat.lt_succ_of_le (List.length_filter_le _ _)
    · have := ih h
      by_cases h1 : a < x
      · simp only [h1, decide_true, if_true, List.length_cons]; omega
      · simp only [h1, decide_false, Bool.false_eq_true, if_false]; omega

theorem rankIn_le_of_le (b : List Nat) {x y : Nat} (hxy : x ≤ y) : rankIn b x ≤ rankIn b y := by
  unfold rankIn
  induction b with
  | nil => simp
  | cons a t ih =>
    simp only [List.filter_cons]
    by_cases h1 : a < x
    · have h2 : a < y := lt_of_lt_of_le h1 hxy
      simp [h1, h2]; exact ih
    · by_cases h2 : a < y
      · simp [h1, h2]; omega
      · simp [h1, h2]; exact ih

theorem rankIn_strictMono {b : List Nat} {x y : Nat} (hx : x ∈ b) (hxy : x < y) :
    rankIn b x < rankIn b y := by
  induction b with
  | nil => simp at hx
  | cons a t ih =>
    have hle := rankIn_le_of_le t (le_of_lt hxy)
    unfold rankIn at *
    simp only [List.filter_cons]
    rcases List.mem_cons.1 hx with rfl | h
    · simp [hxy]; omega
    · have := ih h
      by_cases h1 : a < x
      · have h2 : a < y := lt_trans h1 hxy
        simp [h1, h2]; exact this
      · by_cases h2 : a < y
        · simp [h1, h2]; omega
        · simp [h1, h2]; exact this

end PyYetiVerif.RigidBody
