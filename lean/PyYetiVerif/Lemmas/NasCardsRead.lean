import PyYetiVerif.Lemmas.NasCardsLines
import PyYetiVerif.Lemmas.NasFloatFixed
/-! C12 cards, reader side: names and string fields are read back as themselves, one line of a
written card (`lineVals_layout`), `_rdfixed` on a written card (`rdfixed_card`), a one-card file. -/
set_option linter.unusedSimpArgs false
set_option linter.unusedVariables false
namespace PyYetiVerif.NasCards
open PyYetiVerif.PyFloat PyYetiVerif.NasFloat

/-! ### names and string fields -/

def isLetter (c : Char) : Bool := ('A' ≤ c && c ≤ 'Z') || ('a' ≤ c && c ≤ 'z')

/-- a character that cannot start a number -/
def noNumStart (c : Char) : Bool :=
  !isDigit c && c != '.' && c != '-' && c != '+' && !isWs c

def lowerChar (c : Char) : Char := if 'A' ≤ c && c ≤ 'Z' then Char.ofNat (c.toNat + 32) else c

theorem letter_lower (c : Char) (h : isLetter c = true) :
    noNumStart c = true ∧ noNumStart (lowerChar c) = true ∧
      noNumStart (if lowerChar c == 'd' then 'e' else lowerChar c) = true := by
  have key : ∀ n, n < 128 → isLetter (Char.ofNat n) = true →
      noNumStart (Char.ofNat n) = true ∧ noNumStart (lowerChar (Char.ofNat n)) = true ∧
      noNumStart (if lowerChar (Char.ofNat n) == 'd' then 'e' else lowerChar (Char.ofNat n)) = true := by
    decide
  have hlt : c.toNat < 128 := by
    simp only [isLetter, Bool.or_eq_true, Bool.and_eq_true, decide_eq_true_eq] at h
    rcases h with ⟨_, h2⟩ | ⟨_, h2⟩
    · have : c.toNat ≤ 90 := h2
      omega
    · have : c.toNat ≤ 122 := h2
      omega
  have := key c.toNat hlt (by rw [Char.ofNat_toNat]; exact h)
  rwa [Char.ofNat_toNat] at this

theorem parseDec?_head_none (s : Str) (c : Char) (rest : Str) (h : stripWs s = c :: rest)
    (hc : noNumStart c = true) : parseDec? s = none := by
  simp only [noNumStart, Bool.and_eq_true, Bool.not_eq_true', bne_iff_ne, ne_eq] at hc
  obtain ⟨⟨⟨⟨hd, hdot⟩, hm⟩, hp⟩, _⟩ := hc
  have hss : splitSign (c :: rest) = (false, c :: rest) := by
    unfold splitSign
    split
    · rename_i r heq; injection heq with h1 _; exact absurd h1 hm
    · rename_i r heq; injection heq with h1 _; exact absurd h1 hp
    · rfl
  unfold parseDec?
  rw [h, hss]
  simp only [List.takeWhile, hd, List.dropWhile]
  have : ∀ t, c :: rest ≠ '.' :: t := by
    intro t heq; injection heq with h1 _; exact hdot h1
  split
  · rename_i t heq; exact absurd heq (this t)
  · simp

theorem parseInt?_head_none (s : Str) (c : Char) (rest : Str) (h : stripWs s = c :: rest)
    (hc : noNumStart c = true) : parseInt? s = none := by
  simp only [noNumStart, Bool.and_eq_true, Bool.not_eq_true', bne_iff_ne, ne_eq] at hc
  obtain ⟨⟨⟨⟨hd, hdot⟩, hm⟩, hp⟩, _⟩ := hc
  have hss : splitSign (c :: rest) = (false, c :: rest) := by
    unfold splitSign
    split
    · rename_i r heq; injection heq with h1 _; exact absurd h1 hm
    · rename_i r heq; injection heq with h1 _; exact absurd h1 hp
    · rfl
  unfold parseInt?
  rw [h, hss]
  simp [parseNat?, hd]


theorem stripWs_head (c : Char) (rest : Str) (hc : isWs c = false) :
    stripWs (c :: rest) = c :: rstripBy isWs rest := by
  unfold stripWs stripBy
  rw [lstripBy_cons_neg _ _ hc]
  have := rstripBy_append_keep isWs [] c hc rest
  simpa using this

theorem noNumStart_not_ws (c : Char) (h : noNumStart c = true) : isWs c = false := by
  simp only [noNumStart, Bool.and_eq_true, Bool.not_eq_true'] at h
  exact h.2

/-- a name (letter first, no white space inside), left-justified in a field, is read as itself -/
theorem nasSscanf_name (c0 : Char) (t : Str) (k : Nat) (hc0 : isLetter c0 = true)
    (hws : ∀ c ∈ c0 :: t, isWs c = false) :
    nasSscanf ((c0 :: t) ++ List.replicate k ' ') true = .str (c0 :: t) := by
  obtain ⟨h1, h2, h3⟩ := letter_lower c0 hc0
  have hS : stripWs ((c0 :: t) ++ List.replicate k ' ') = c0 :: t := by
    rw [stripWs, stripBy_append_allp isWs _ _ (by
      intro c hc; rw [List.eq_of_mem_replicate hc]; decide)]
    exact stripWs_of_all _ hws
  have hI := parseInt?_head_none _ c0 t hS h1
  have hD := parseDec?_head_none _ c0 t hS h1
  -- s1
  obtain ⟨c1, hc1⟩ : ∃ c1, c1 = (if lowerChar c0 == 'd' then 'e' else lowerChar c0) := ⟨_, rfl⟩
  obtain ⟨r1, hs1⟩ : ∃ r1, replace ['d'] ['e'] (lower (c0 :: t)) = c1 :: r1 := by
    rw [replace_single]
    have : lower (c0 :: t) = lowerChar c0 :: lower t := rfl
    rw [this, List.flatMap_cons]
    refine ⟨List.flatMap (fun x => if (x == 'd') = true then ['e'] else [x]) (lower t), ?_⟩
    by_cases hd : lowerChar c0 = 'd'
    · simp only [hd, beq_self_eq_true, if_true, List.singleton_append] at hc1 ⊢
      rw [hc1]
    · have hb : (lowerChar c0 == 'd') = false := by simp [hd]
      simp only [hb, Bool.false_eq_true, if_false, List.singleton_append] at hc1 ⊢
      rw [hc1]
  have hc1n : noNumStart c1 = true := by rw [hc1]; exact h3
  have hD1 := parseDec?_head_none (c1 :: r1) c1 _ (stripWs_head c1 r1 (noNumStart_not_ws c1 hc1n)) hc1n
  have hD2 := parseDec?_head_none
    ((c1 :: r1).take 1 ++ replace ['-'] ['e', '-'] (replace ['+'] ['e', '+'] ((c1 :: r1).drop 1))) c1 _
    (by
      simp only [List.take_succ_cons, List.take_zero, List.singleton_append]
      exact stripWs_head c1 _ (noNumStart_not_ws c1 hc1n)) hc1n
  unfold nasSscanf parseFloat?
  simp only [hI, hD, hS, hs1, hD1, hD2, List.isEmpty_cons, Bool.false_eq_true, if_false, if_true]


/-! ### reading one line of a written card -/

theorem rstripBy_idem (p : Char → Bool) (s : Str) : rstripBy p (rstripBy p s) = rstripBy p s := by
  obtain ⟨z, _, _, hlast⟩ := rstripBy_split p s
  generalize rstripBy p s = r at hlast
  rcases List.eq_nil_or_concat r with rfl | ⟨w, g, rfl⟩
  · rfl
  · simp only [List.concat_eq_append] at hlast ⊢
    exact rstripBy_snoc_keep p w g (hlast g (by simp))

theorem rstripBy_mem (p : Char → Bool) (s : Str) : ∀ c ∈ rstripBy p s, c ∈ s := by
  obtain ⟨z, hz, _, _⟩ := rstripBy_split p s
  intro c hc
  rw [hz]; exact List.mem_append_left _ hc

theorem takeWhile_all (p : Char → Bool) (s : Str) (h : ∀ c ∈ s, p c = true) : s.takeWhile p = s := by
  induction s with
  | nil => rfl
  | cons a t ih =>
    simp only [List.takeWhile, h a List.mem_cons_self]
    rw [ih (fun c hc => h c (List.mem_cons_of_mem _ hc))]

/-- `_proc_line(line[:72])` of a line `X w` whose first 72 columns are `X` followed by white space -/
theorem procLine_take (X w w' : Str) (hX : ∀ c ∈ X, c ≠ '$') (hw' : ∀ c ∈ w', isWs c = true)
    (hw'd : ∀ c ∈ w', c ≠ '$') (htake : (X ++ w).take 72 = X ++ w') :
    procLine ((X ++ w).take 72) = rstripWs X := by
  unfold procLine
  rw [htake, takeWhile_all _ _ (by
    intro c hc
    rcases List.mem_append.1 hc with h | h
    · simpa using hX c h
    · simpa using hw'd c h)]
  exact rstripBy_append_allp isWs X w' hw'

/-- a line of at most 72 columns followed by its newline -/
theorem take72_newline (X : Str) (hlen : X.length ≤ 72) :
    ∃ w', (X ++ ['\n']).take 72 = X ++ w' ∧ (∀ c ∈ w', isWs c = true) ∧ ∀ c ∈ w', c ≠ '$' := by
  rcases Nat.lt_or_ge X.length 72 with h | h
  · refine ⟨['\n'], ?_, by simp [isWs], by simp⟩
    apply List.take_of_length_le
    simp; omega
  · refine ⟨[], ?_, by simp, by simp⟩
    have : X.length = 72 := by omega
    rw [List.append_nil, ← this, List.take_left]

/-- a full line (72 columns) followed by anything -/
theorem take72_full (X w : Str) (hlen : X.length = 72) :
    ∃ w', (X ++ w).take 72 = X ++ w' ∧ (∀ c ∈ w', isWs c = true) ∧ ∀ c ∈ w', c ≠ '$' := by
  refine ⟨[], ?_, by simp, by simp⟩
  rw [List.append_nil, ← hlen, List.take_left]

/-- **values read on one line of a written card** (`head` of 8 columns, fields of width `n`) -/
theorem lineVals_layout (n : Nat) (hn : 0 < n) (head : Str) (hhead : head.length = 8)
    (hhd : ∀ c ∈ head, c ≠ '$') (fs : List Str) (hfs : ∀ f ∈ fs, FieldOK n f)
    (hfit : 8 + fs.length * n ≤ 72) (w w' : Str) (hw' : ∀ c ∈ w', isWs c = true)
    (hw'd : ∀ c ∈ w', c ≠ '$') (htake : ((head ++ fs.flatten) ++ w).take 72 = (head ++ fs.flatten) ++ w') :
    lineVals n ((head ++ fs.flatten) ++ w) = (dropEnd isBlankField fs).map cardVal := by
  unfold lineVals
  have hX : ∀ c ∈ head ++ fs.flatten, c ≠ '$' := by
    intro c hc
    rcases List.mem_append.1 hc with h | h
    · exact hhd c h
    · obtain ⟨f, hf, hcf⟩ := List.mem_flatten.1 h
      exact (hfs f hf).2.2 c hcf
  rw [procLine_take _ w w' hX hw' hw'd htake]
  exact fieldsOf_line n hn head hhead fs hfs hfit

theorem lineVals_short (n : Nat) (l : Str) (h : l.length ≤ 8) : lineVals n l = [] := by
  unfold lineVals procLine
  have h1 : (rstripWs ((l.take 72).takeWhile (· != '$'))).length ≤ 8 := by
    refine le_trans (rstripBy_length_le _ _) ?_
    refine le_trans (List.takeWhile_sublist _).length_le ?_
    simp; omega
  unfold fieldsOf fieldsLoop
  have hnot : ¬ (8 ≤ 72 - n ∧ (rstripWs ((l.take 72).takeWhile (· != '$'))).length > 8) := by omega
  simp only [hnot, if_false]


/-! ### the first line and the whole card -/

/-- a card name: letter first, no white space, comment or comma character, at most 8 long -/
def NameOK (name : Str) : Prop :=
  (∃ c0 t, name = c0 :: t ∧ isLetter c0 = true) ∧ name.length ≤ 8 ∧
    ∀ c ∈ name, isWs c = false ∧ c ≠ '$' ∧ c ≠ ','

theorem rstripBy_of_last (p : Char → Bool) (w : Str) (g : Char) (hg : p g = false) :
    rstripBy p (w ++ [g]) = w ++ [g] := rstripBy_snoc_keep p w g hg

theorem rstripWs_name (name : Str) (hne : name ≠ []) (hws : ∀ c ∈ name, isWs c = false) :
    rstripWs name = name := by
  rcases List.eq_nil_or_concat name with rfl | ⟨w, g, rfl⟩
  · exact absurd rfl hne
  · simp only [List.concat_eq_append] at hws ⊢
    exact rstripBy_snoc_keep isWs w g (hws g (by simp))

/-- the first 8 columns of the right-stripped name line are the name and blanks -/
theorem name_line_take8 (name : Str) (hname : NameOK name) (F : Str) :
    ∃ j, (rstripWs (ljust 8 name ++ F)).take 8 = name ++ List.replicate j ' ' := by
  obtain ⟨⟨c0, t, hn, _⟩, hlen, hch⟩ := hname
  have hne : name ≠ [] := by rw [hn]; simp
  have hws : ∀ c ∈ name, isWs c = false := fun c hc => (hch c hc).1
  have hsp : ∀ c ∈ List.replicate (8 - name.length) ' ', isWs c = true := by
    intro c hc; rw [List.eq_of_mem_replicate hc]; decide
  unfold ljust
  by_cases hF : ∃ x ∈ F, isWs x = false
  · refine ⟨8 - name.length, ?_⟩
    have e : name ++ List.replicate (8 - name.length) ' ' ++ F =
        (name ++ List.replicate (8 - name.length) ' ') ++ F := rfl
    rw [rstripWs, rstripBy_append_of_mem isWs _ F hF]
    rw [List.take_append_of_le_length (by simp; omega)]
    apply List.take_of_length_le
    simp; omega
  · refine ⟨0, ?_⟩
    have hFall : ∀ c ∈ F, isWs c = true := by
      intro c hc
      by_contra hcon
      exact hF ⟨c, hc, by simpa using hcon⟩
    have e : name ++ List.replicate (8 - name.length) ' ' ++ F =
        name ++ (List.replicate (8 - name.length) ' ' ++ F) := by simp
    rw [e, rstripWs, rstripBy_append_allp isWs name _ (by
      intro c hc
      rcases List.mem_append.1 hc with h | h
      · exact hsp c h
      · exact hFall c h)]
    have := rstripWs_name name hne hws
    unfold rstripWs at this
    rw [this]
    simp only [List.replicate_zero, List.append_nil]
    exact List.take_of_length_le hlen

/-- **`_rdfixed` on a written card**: name line `ljust 8 name ++ fields`, continuation lines all
marked — the values are those of the lines glued with blank padding, and every continuation line
is consumed. -/
theorem rdfixed_card (n : Nat) (hn : 0 < n) (conchar : Str) (keep : Bool) (name : Str)
    (hname : NameOK name) (c0 : List Str) (hc0 : ∀ f ∈ c0, FieldOK n f) (hfit : 8 + c0.length * n ≤ 72)
    (w w' : Str) (hw' : ∀ c ∈ w', isWs c = true)
    (htake : ((ljust 8 name ++ c0.flatten) ++ w).take 72 = (ljust 8 name ++ c0.flatten) ++ w')
    (rest : List Str) (hcont : ∀ l ∈ rest, isCont conchar l = true) :
    rdfixed n conchar keep (rstripWs (((ljust 8 name ++ c0.flatten) ++ w).take 72)) rest =
      ((if keep then [NasVal.str name] else []) ++
        glue (if n > 8 then 4 else 8) ((dropEnd isBlankField c0).map cardVal :: rest.map (lineVals n)),
       rest.length) := by
  obtain ⟨⟨c0', t, hnm, hlet⟩, hlen, hch⟩ := id hname
  have hhead : (ljust 8 name).length = 8 := by simp [ljust]; omega
  have hhd : ∀ c ∈ ljust 8 name, c ≠ '$' := by
    intro c hc
    simp only [ljust, List.mem_append] at hc
    rcases hc with h | h
    · exact (hch c h).2.1
    · rw [List.eq_of_mem_replicate h]; decide
  have hX : ∀ c ∈ ljust 8 name ++ c0.flatten, c ≠ '$' := by
    intro c hc
    rcases List.mem_append.1 hc with h | h
    · exact hhd c h
    · obtain ⟨f, hf, hcf⟩ := List.mem_flatten.1 h
      exact (hc0 f hf).2.2 c hcf
  rw [htake]
  have hS : rstripWs ((ljust 8 name ++ c0.flatten) ++ w') = rstripWs (ljust 8 name ++ c0.flatten) :=
    rstripBy_append_allp isWs _ w' hw'
  rw [hS]
  generalize hS0 : rstripWs (ljust 8 name ++ c0.flatten) = S0
  have hS0len : S0.length ≤ 72 := by
    rw [← hS0]
    refine le_trans (rstripBy_length_le _ _) ?_
    simp only [List.length_append, hhead, flatten_length_eq n c0 (fun f hf => (hc0 f hf).1)]
    exact hfit
  have hS0d : ∀ c ∈ S0, c ≠ '$' := by
    intro c hc; rw [← hS0] at hc
    exact hX c (rstripBy_mem isWs _ c hc)
  have hproc : procLine (S0.take 72) = S0 := by
    unfold procLine
    rw [List.take_of_length_le hS0len, takeWhile_all _ _ (fun c hc => by simpa using hS0d c hc)]
    rw [← hS0]; exact rstripBy_idem isWs _
  obtain ⟨j, hj⟩ := name_line_take8 name hname c0.flatten
  rw [hS0] at hj
  have hnmv : nasSscanf (S0.take 8) true = NasVal.str name := by
    rw [hj, hnm]
    exact nasSscanf_name c0' t j hlet (fun c hc => (hch c (by rw [hnm]; exact hc)).1)
  have hfo : fieldsOf n S0 S0.length = (dropEnd isBlankField c0).map cardVal := by
    rw [← hS0]; exact fieldsOf_line n hn _ hhead c0 hc0 hfit
  unfold rdfixed
  simp only [hproc, hnmv, rdfixedGo_lines n _ conchar rest hcont, hfo, Nat.sub_self, List.replicate_zero,
    List.nil_append]


theorem rdcardsGo_nil (name : Str) (keep : Bool) (fuel : Nat) : rdcardsGo name keep fuel [] = [] := by
  cases fuel <;> rfl

/-- a file holding one card whose continuation lines the reader consumes -/
theorem rdcards_single (name : Str) (keep : Bool) (text l0 : Str) (rest : List Str)
    (hlines : fileLines text = l0 :: rest) (hprefix : (lower name).isPrefixOf (lower l0) = true)
    (r : List NasVal) (hone : rdOne keep l0 rest = (r, rest.length)) :
    rdcards name keep text = [r] := by
  unfold rdcards
  simp only [hlines, List.length_cons]
  rw [rdcardsGo]
  simp only [hprefix, if_true, hone, List.drop_length, rdcardsGo_nil]

theorem lower_prefix (name rest : Str) : (lower name).isPrefixOf (lower (name ++ rest)) = true := by
  rw [lower_append, List.isPrefixOf_iff_prefix]
  exact List.prefix_append _ _

end PyYetiVerif.NasCards
