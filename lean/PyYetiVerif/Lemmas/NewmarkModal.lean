import PyYetiVerif.Lemmas.NewmarkSeq
import PyYetiVerif.Lemmas.NewmarkEnergyVec
import Mathlib.Algebra.BigOperators.Pi
/-!
Modal transformation of the Newmark-beta scheme (C17).  `V` is a real inner product space carrying the full
matrices `M`, `B`, `K`; `(Φ, Ψ)` is a simultaneously diagonalising pair
(`M Φ = Ψ diag(m)`, `B Φ = Ψ diag(b)`, `K Φ = Ψ diag(k)`, `Φ` onto, `Ψ` one-to-one — for symmetric positive
definite `M` and `B = αM + βK`: `Φ` the matrix of mass-normalised modes and `Ψ = Φ⁻ᵀ`).  Then the scheme run in
`V` with modal data (`d0 = Φ q0`, `v0 = Φ p0`, `F_j = Ψ φ_j`) is `Φ` applied to the SCALAR schemes run mode by
mode (`dseq_modal`).
-/
namespace PyYetiVerif.Newmark

section modal
variable {ι : Type} {V : Type} [NormedAddCommGroup V] [InnerProductSpace ℝ V]

attribute [local instance 10] moduleVecOps

/-- the hypotheses of the modal reduction, bundled -/
structure ModalSys (S : Sys V ℝ) (M B K : V →ₗ[ℝ] V) (Φ Ψ : (ι → ℝ) →ₗ[ℝ] V) (mm bb kk : ι → ℝ) (h : ℝ) :
    Prop where
  hh : S.h = h
  hSK : ∀ x, S.K x = K x
  hSB : ∀ x, S.B x = B x
  hsolve : ∀ x, fullA M B K h (S.solve x) = x
  hA1 : ∀ x, fullA M B K h (S.A1 x) = fullA1 M K h x
  hA0 : ∀ x, fullA M B K h (S.A0 x) = fullA0 M B K h x
  hM : ∀ q, M (Φ q) = Ψ (fun i => mm i * q i)
  hB : ∀ q, B (Φ q) = Ψ (fun i => bb i * q i)
  hK : ∀ q, K (Φ q) = Ψ (fun i => kk i * q i)
  inj : Function.Injective Ψ
  surj : Function.Surjective Φ
  hA : ∀ i, coefA (mm i) (bb i) (kk i) h ≠ 0

variable {S : Sys V ℝ} {M B K : V →ₗ[ℝ] V} {Φ Ψ : (ι → ℝ) →ₗ[ℝ] V} {mm bb kk : ι → ℝ} {h : ℝ}

theorem ModalSys.A_Phi (H : ModalSys S M B K Φ Ψ mm bb kk h) (q : ι → ℝ) :
    fullA M B K h (Φ q) = Ψ (fun i => coefA (mm i) (bb i) (kk i) h * q i) := by
  simp only [fullA, LinearMap.add_apply, LinearMap.smul_apply, H.hM, H.hB, H.hK, ← map_smul, ← map_add]
  congr 1
  funext i
  simp only [Pi.add_apply, Pi.smul_apply, smul_eq_mul, coefA, div_eq_mul_inv]
  ring

theorem ModalSys.A1_Phi (H : ModalSys S M B K Φ Ψ mm bb kk h) (q : ι → ℝ) :
    fullA1 M K h (Φ q) = Ψ (fun i => coefA1 (mm i) (kk i) h * q i) := by
  simp only [fullA1, LinearMap.sub_apply, LinearMap.smul_apply, H.hM, H.hK, ← map_smul, ← map_sub]
  congr 1
  funext i
  simp only [Pi.sub_apply, Pi.smul_apply, smul_eq_mul, coefA1, div_eq_mul_inv]
  ring

theorem ModalSys.A0_Phi (H : ModalSys S M B K Φ Ψ mm bb kk h) (q : ι → ℝ) :
    fullA0 M B K h (Φ q) = Ψ (fun i => coefA0 (mm i) (bb i) (kk i) h * q i) := by
  simp only [fullA0, LinearMap.sub_apply, LinearMap.smul_apply, H.hM, H.hB, H.hK, ← map_smul, ← map_sub]
  congr 1
  funext i
  simp only [Pi.sub_apply, Pi.smul_apply, smul_eq_mul, coefA0, div_eq_mul_inv]
  ring

/-- `A` is one-to-one -/
theorem ModalSys.A_inj (H : ModalSys S M B K Φ Ψ mm bb kk h) {x y : V}
    (hxy : fullA M B K h x = fullA M B K h y) : x = y := by
  obtain ⟨q, rfl⟩ := H.surj x
  obtain ⟨r, rfl⟩ := H.surj y
  rw [H.A_Phi, H.A_Phi] at hxy
  have := H.inj hxy
  congr 1
  funext i
  have hi := congrFun this i
  exact mul_left_cancel₀ (H.hA i) hi

theorem ModalSys.solve_Psi (H : ModalSys S M B K Φ Ψ mm bb kk h) (φ : ι → ℝ) :
    S.solve (Ψ φ) = Φ (fun i => φ i / coefA (mm i) (bb i) (kk i) h) := by
  apply H.A_inj
  rw [H.hsolve, H.A_Phi]
  congr 1
  funext i
  have := H.hA i
  field_simp

theorem ModalSys.SA1_Phi (H : ModalSys S M B K Φ Ψ mm bb kk h) (q : ι → ℝ) :
    S.A1 (Φ q) = Φ (fun i => coefA1 (mm i) (kk i) h / coefA (mm i) (bb i) (kk i) h * q i) := by
  apply H.A_inj
  rw [H.hA1, H.A1_Phi, H.A_Phi]
  congr 1
  funext i
  have := H.hA i
  field_simp

theorem ModalSys.SA0_Phi (H : ModalSys S M B K Φ Ψ mm bb kk h) (q : ι → ℝ) :
    S.A0 (Φ q) = Φ (fun i => coefA0 (mm i) (bb i) (kk i) h / coefA (mm i) (bb i) (kk i) h * q i) := by
  apply H.A_inj
  rw [H.hA0, H.A0_Phi, H.A_Phi]
  congr 1
  funext i
  have := H.hA i
  field_simp

theorem ModalSys.scaled_Psi (H : ModalSys S M B K Φ Ψ mm bb kk h) (φ : ι → ℝ) :
    scaled S (Ψ φ) = Φ (fun i => scaled (scalarSys (mm i) (bb i) (kk i) h) (φ i)) := by
  have : VecOps.sdiv (Ψ φ) (3 : ℝ) = Ψ (fun i => φ i / 3) := by
    simp only [VecOps.sdiv, ← map_smul]
    congr 1
    funext i
    simp only [Pi.smul_apply, smul_eq_mul]
    ring
  simp only [scaled, this, H.solve_Psi]
  rfl

theorem ModalSys.uM1_Phi (H : ModalSys S M B K Φ Ψ mm bb kk h) (q0 p0 : ι → ℝ) :
    uM1 S (Φ q0) (Φ p0) = Φ (fun i => uM1 (scalarSys (mm i) (bb i) (kk i) h) (q0 i) (p0 i)) := by
  simp only [uM1, VecOps.smul, H.hh, ← map_smul, ← map_sub]
  rfl

theorem ModalSys.KB_Phi (H : ModalSys S M B K Φ Ψ mm bb kk h) (q p : ι → ℝ) :
    S.K (Φ q) + S.B (Φ p) = Ψ (fun i => kk i * q i + bb i * p i) := by
  rw [H.hSK, H.hSB, H.hK, H.hB, ← map_add]
  rfl

theorem ModalSys.f0_Phi (H : ModalSys S M B K Φ Ψ mm bb kk h) (q0 p0 : ι → ℝ) :
    f0 S (Φ q0) (Φ p0) = Φ (fun i => f0 (scalarSys (mm i) (bb i) (kk i) h) (q0 i) (p0 i)) := by
  simp only [f0, H.KB_Phi, H.scaled_Psi]
  rfl

theorem ModalSys.fM1_Phi (H : ModalSys S M B K Φ Ψ mm bb kk h) (q0 p0 : ι → ℝ) :
    fM1 S (Φ q0) (Φ p0) = Φ (fun i => fM1 (scalarSys (mm i) (bb i) (kk i) h) (q0 i) (p0 i)) := by
  simp only [fM1, H.uM1_Phi, H.KB_Phi, H.scaled_Psi]
  rfl

theorem ModalSys.step_Phi (H : ModalSys S M B K Φ Ψ mm bb kk h) (a b c x y : ι → ℝ) :
    step S (Φ a) (Φ b) (Φ c) 0 (Φ x) (Φ y)
      = Φ (fun i => step (scalarSys (mm i) (bb i) (kk i) h) (a i) (b i) (c i) 0 (x i) (y i)) := by
  have e : (fun i => step (scalarSys (mm i) (bb i) (kk i) h) (a i) (b i) (c i) 0 (x i) (y i))
      = a + b + c + 0 + (fun i => coefA1 (mm i) (kk i) h / coefA (mm i) (bb i) (kk i) h * x i)
        + (fun i => coefA0 (mm i) (bb i) (kk i) h / coefA (mm i) (bb i) (kk i) h * y i) := by
    funext i
    simp [step, scalarSys]
  rw [e]
  simp only [step, H.SA1_Phi, H.SA0_Phi, map_add, map_zero]

theorem ModalSys.gseq_Phi (H : ModalSys S M B K Φ Ψ mm bb kk h) (φ : ℕ → ι → ℝ) (q0 p0 : ι → ℝ) (n : ℕ) :
    gseq S (fun j => Ψ (φ j)) (Φ q0) (Φ p0) n
      = Φ (fun i => gseq (scalarSys (mm i) (bb i) (kk i) h) (fun j => φ j i) (q0 i) (p0 i) n) := by
  unfold gseq
  split
  · exact H.f0_Phi q0 p0
  · exact H.scaled_Psi (φ n)

/-- **Modal decomposition of the displacement sequence**: with modal data the scheme in `V` is `Φ` of the scalar
schemes, step by step. -/
theorem ModalSys.dseq_Phi (H : ModalSys S M B K Φ Ψ mm bb kk h) (φ : ℕ → ι → ℝ) (q0 p0 : ι → ℝ) :
    ∀ n, dseq S (fun j => Ψ (φ j)) (Φ q0) (Φ p0) 0 n
      = Φ (fun i => dseq (scalarSys (mm i) (bb i) (kk i) h) (fun j => φ j i) (q0 i) (p0 i) 0 n) := by
  have pair : ∀ n,
      (dseq S (fun j => Ψ (φ j)) (Φ q0) (Φ p0) 0 n
        = Φ (fun i => dseq (scalarSys (mm i) (bb i) (kk i) h) (fun j => φ j i) (q0 i) (p0 i) 0 n)) ∧
      (dseq S (fun j => Ψ (φ j)) (Φ q0) (Φ p0) 0 (n + 1)
        = Φ (fun i => dseq (scalarSys (mm i) (bb i) (kk i) h) (fun j => φ j i) (q0 i) (p0 i) 0 (n + 1))) := by
    intro n
    induction n with
    | zero =>
      refine ⟨rfl, ?_⟩
      show step S (scaled S (Ψ (φ 1))) (f0 S (Φ q0) (Φ p0)) (fM1 S (Φ q0) (Φ p0)) 0 (Φ q0)
          (uM1 S (Φ q0) (Φ p0)) = _
      rw [H.scaled_Psi, H.f0_Phi, H.fM1_Phi, H.uM1_Phi, H.step_Phi]
      rfl
    | succ n ih =>
      refine ⟨ih.2, ?_⟩
      show step S (scaled S (Ψ (φ (n + 2)))) (gseq S (fun j => Ψ (φ j)) (Φ q0) (Φ p0) (n + 1))
          (gseq S (fun j => Ψ (φ j)) (Φ q0) (Φ p0) n) 0
          (dseq S (fun j => Ψ (φ j)) (Φ q0) (Φ p0) 0 (n + 1))
          (dseq S (fun j => Ψ (φ j)) (Φ q0) (Φ p0) 0 n) = _
      rw [H.scaled_Psi, H.gseq_Phi, H.gseq_Phi, ih.1, ih.2, H.step_Phi]
      rfl
  exact fun n => (pair n).1

end modal

/-- `‖Φ q‖ ≤ Σ_i |q_i| ‖Φ e_i‖` (`Φ e_i` is the `i`-th mode shape) -/
theorem norm_modal_le {ι : Type} [Fintype ι] [DecidableEq ι] {V : Type} [NormedAddCommGroup V]
    [InnerProductSpace ℝ V] (Φ : (ι → ℝ) →ₗ[ℝ] V) (q : ι → ℝ) :
    ‖Φ q‖ ≤ ∑ i, |q i| * ‖Φ (Pi.single i 1)‖ := by
  have hq : q = ∑ i, q i • (Pi.single i (1 : ℝ) : ι → ℝ) := by
    funext j
    simp [Finset.sum_apply, Pi.single_apply]
  conv_lhs => rw [hq]
  rw [map_sum]
  refine le_trans (norm_sum_le _ _) (Finset.sum_le_sum fun i _ => ?_)
  rw [map_smul, norm_smul, Real.norm_eq_abs]

end PyYetiVerif.Newmark
