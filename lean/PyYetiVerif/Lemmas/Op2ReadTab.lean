import PyYetiVerif.Lemmas.Op2ReadHead
/-! C11: `rdop2record`, `skipop2record`, `rdop2tabheaders` of the reader model on the encoder's table body. -/
namespace PyYetiVerif.Op2R
open PyYetiVerif.Op4 PyYetiVerif.Op2
open PyYetiVerif.Op4V (leBytes natBytes intBytes)

/-- one piece (logical record) of a table record as the encoder writes it -/
def encPiece (v : V2) (p : List Int) : List Nat := K v p.length ++ R v (keys v p)

theorem encTabRecs_cons (v : V2) (j : Nat) (pieces : List (List Int)) (r : List (List (List Int))) :
    encTabRecs v j (pieces :: r) = pieces.flatMap (encPiece v) ++ K v (-((j : Int) + 4)) ++ K v 1 ++ K v 0 ++
      encTabRecs v (j + 1) r := rfl

/-- a piece is not empty, its record length fits the 4-byte marker, its keys are representable -/
structure PieceOk (v : V2) (p : List Int) : Prop where
  pos : 0 < p.length
  len : p.length * kb v < 2147483648
  keys : ∀ x ∈ p, InKey v x

instance (v : V2) (p : List Int) : Decidable (PieceOk v p) :=
  decidable_of_iff (0 < p.length ∧ p.length * kb v < 2147483648 ∧ ∀ x ∈ p, InKey v x)
    ⟨fun ⟨a, b, c⟩ => ⟨a, b, c⟩, fun h => ⟨h.pos, h.len, h.keys⟩⟩

theorem PieceOk.count (v : V2) (p : List Int) (h : PieceOk v p) : InKey v (p.length : Int) ∧ (0 : Int) < p.length := by
  have := h.len
  have := h.pos
  have := kb_pos v
  refine ⟨inKey_small v _ (by omega) ?_, by omega⟩
  have : p.length ≤ p.length * kb v := Nat.le_mul_of_pos_right _ (kb_pos v)
  omega

theorem length_encPiece_pos (v : V2) (p : List Int) : 1 ≤ (encPiece v p).length := by
  rw [encPiece, List.length_append, length_K]; omega

theorem length_le_flatMap_encPiece (v : V2) (t : List (List Int)) : t.length ≤ (t.flatMap (encPiece v)).length := by
  induction t with
  | nil => simp
  | cons s t ih =>
    have := length_encPiece_pos v s
    simp only [List.flatMap_cons, List.length_append, List.length_cons]; omega

/-- the first key of a record: the count of the first piece or, without pieces, the closing key -/
theorem firstKey_pieces (v : V2) (neg : Int) (hneg : neg < 0) (hnk : InKey v neg) (tail : List Nat)
    (pieces : List (List Int)) (hok : ∀ p ∈ pieces, PieceOk v p) :
    ∃ key s1, getKey v (pieces.flatMap (encPiece v) ++ (K v neg ++ tail)) = .ok (key, s1) ∧
      rdEot v (pieces.flatMap (encPiece v) ++ (K v neg ++ tail)) = .ok (key, s1) ∧
      pieces.length ≤ s1.length ∧ key ≠ 0 := by
  cases pieces with
  | nil =>
    exact ⟨neg, tail, by simp only [List.flatMap_nil, List.nil_append, getKey_K v neg _ hnk],
      by simp only [List.flatMap_nil, List.nil_append, rdEot_K v neg _ hnk], by simp, by omega⟩
  | cons p t =>
    obtain ⟨hck, hcp⟩ := (hok p List.mem_cons_self).count
    refine ⟨(p.length : Int), R v (keys v p) ++ (t.flatMap (encPiece v) ++ (K v neg ++ tail)),
      by simp only [List.flatMap_cons, encPiece, List.append_assoc, getKey_K v _ _ hck],
      by simp only [List.flatMap_cons, encPiece, List.append_assoc, rdEot_K v _ _ hck], ?_, by omega⟩
    have := length_le_flatMap_encPiece v t
    simp only [List.length_append, length_R, List.length_cons]
    omega

/-! ### `rdop2record` -/

def rdRecFrom (v : V2) (fuel : Nat) (s : List Nat) (acc : List Int) : M (List Int × List Nat) :=
  match getKey v s with
  | .error e => .error e
  | .ok (key, s) => rdRecPieces v fuel key s acc

theorem rdRecFrom_enc (v : V2) (neg : Int) (hneg : neg < 0) (hnk : InKey v neg) (tail : List Nat) :
    ∀ (pieces : List (List Int)) (acc : List Int) (fuel : Nat), (∀ p ∈ pieces, PieceOk v p) → pieces.length < fuel →
      rdRecFrom v fuel (pieces.flatMap (encPiece v) ++ (K v neg ++ tail)) acc = .ok (acc ++ pieces.flatten, tail) := by
  intro pieces
  induction pieces with
  | nil =>
    intro acc fuel _ hf
    cases fuel with
    | zero => omega
    | succ f =>
      have : ¬ (neg > 0) := by omega
      simp only [rdRecFrom, List.flatMap_nil, List.nil_append, getKey_K v neg _ hnk, rdRecPieces, this, if_false,
        List.flatten_nil, List.append_nil]
  | cons p t ih =>
    intro acc fuel hok hf
    cases fuel with
    | zero => omega
    | succ f =>
      have hp := hok p List.mem_cons_self
      obtain ⟨hck, hcp⟩ := hp.count
      have hkl : (keys v p).length < 2147483648 := by rw [length_keys]; exact hp.len
      have hn : (((keys v p).length : Nat) : Int) / ((kb v : Nat) : Int) = (p.length : Int) := by
        rw [length_keys, Int.natCast_mul, Int.mul_ediv_cancel]
        have := kb_pos v; omega
      have hnn : ¬ ((p.length : Int) < 0) := by omega
      have hlk : (keys v p).length = p.length * kb v := length_keys v p
      simp only [rdRecFrom, List.flatMap_cons, encPiece, List.append_assoc, getKey_K v _ _ hck, rdRecPieces,
        gt_iff_lt, hcp, if_true, rdI4_R v _ _ hkl, hn, hnn, if_false, Int.toNat_natCast, List.take_left' hlk,
        unpackInts_keys v p hp.keys, List.drop_left' hlk, drop4_mark]
      have := ih (acc ++ p) f (fun x hx => hok x (List.mem_cons_of_mem _ hx)) (by simpa using hf)
      rw [List.flatten_cons, ← List.append_assoc acc p]
      exact this

/-- the closing of a table record -/
def recTail (v : V2) (tail : List Nat) : List Nat := K v 1 ++ (K v 0 ++ tail)

theorem rdRecord_enc (v : V2) (neg : Int) (hneg : neg < 0) (hnk : InKey v neg) (tail : List Nat)
    (pieces : List (List Int)) (hok : ∀ p ∈ pieces, PieceOk v p) :
    rdRecord v (pieces.flatMap (encPiece v) ++ (K v neg ++ (K v 1 ++ (K v 0 ++ tail))))
      = .ok (some pieces.flatten, tail) := by
  obtain ⟨key, s1, hg, _, hl, hk⟩ := firstKey_pieces v neg hneg hnk (K v 1 ++ (K v 0 ++ tail)) pieces hok
  have := rdRecFrom_enc v neg hneg hnk (K v 1 ++ (K v 0 ++ tail)) pieces [] (s1.length + 1) hok (by omega)
  unfold rdRecFrom at this
  rw [hg] at this
  simp only [rdRecord, hg, hk, if_false, this, List.nil_append, skipKey_K2r]

/-- `skipop2record` -/
def skipRecFrom (v : V2) (fuel : Nat) (s : List Nat) : M (List Nat) :=
  match getKey v s with
  | .error e => .error e
  | .ok (key, s) => skipRecPieces v fuel key s

theorem seekFwd_len4 (v : V2) (b rest : List Nat) :
    seekFwd ((b.length : Int) + 4) (b ++ (mark v b.length ++ rest)) = .ok rest := by
  have h0 : (0 : Int) ≤ (b.length : Int) + 4 := by omega
  have h1 : ((b.length : Int) + 4).toNat = (b ++ mark v b.length).length := by
    rw [List.length_append, length_mark]; omega
  simp only [seekFwd, h0, if_true, h1, ← List.append_assoc, List.drop_left' rfl]

theorem skipRecFrom_enc (v : V2) (neg : Int) (hneg : neg < 0) (hnk : InKey v neg) (tail : List Nat) :
    ∀ (pieces : List (List Int)) (fuel : Nat), (∀ p ∈ pieces, PieceOk v p) → pieces.length < fuel →
      skipRecFrom v fuel (pieces.flatMap (encPiece v) ++ (K v neg ++ tail)) = .ok tail := by
  intro pieces
  induction pieces with
  | nil =>
    intro fuel _ hf
    cases fuel with
    | zero => omega
    | succ f =>
      have : ¬ (neg > 0) := by omega
      simp only [skipRecFrom, List.flatMap_nil, List.nil_append, getKey_K v neg _ hnk, skipRecPieces, this, if_false]
  | cons p t ih =>
    intro fuel hok hf
    cases fuel with
    | zero => omega
    | succ f =>
      have hp := hok p List.mem_cons_self
      obtain ⟨hck, hcp⟩ := hp.count
      have hkl : (keys v p).length < 2147483648 := by rw [length_keys]; exact hp.len
      simp only [skipRecFrom, List.flatMap_cons, encPiece, List.append_assoc, getKey_K v _ _ hck, skipRecPieces,
        gt_iff_lt, hcp, if_true, rdI4_R v _ _ hkl, seekFwd_len4]
      exact ih f (fun x hx => hok x (List.mem_cons_of_mem _ hx)) (by simpa using hf)

theorem skipRecord_enc (v : V2) (neg : Int) (hneg : neg < 0) (hnk : InKey v neg) (tail : List Nat)
    (pieces : List (List Int)) (hok : ∀ p ∈ pieces, PieceOk v p) :
    skipRecord v (pieces.flatMap (encPiece v) ++ (K v neg ++ (K v 1 ++ (K v 0 ++ tail)))) = .ok tail := by
  obtain ⟨key, s1, hg, _, hl, _⟩ := firstKey_pieces v neg hneg hnk (K v 1 ++ (K v 0 ++ tail)) pieces hok
  have := skipRecFrom_enc v neg hneg hnk (K v 1 ++ (K v 0 ++ tail)) pieces (s1.length + 1) hok (by omega)
  unfold skipRecFrom at this
  rw [hg] at this
  simp only [skipRecord, hg, this, skipKey_K2r]

/-! ### the records of a table -/

/-- every record of a table is well formed and the record counter stays representable -/
def TabOk (v : V2) (j : Nat) (recs : List (List (List Int))) : Prop :=
  j + recs.length < 2147483000 ∧ ∀ pieces ∈ recs, ∀ p ∈ pieces, PieceOk v p

instance (v : V2) (j : Nat) (recs : List (List (List Int))) : Decidable (TabOk v j recs) := by
  unfold TabOk; exact inferInstance

theorem length_encTabRecs (v : V2) : ∀ (recs : List (List (List Int))) (j : Nat),
    recs.length ≤ (encTabRecs v j recs).length := by
  intro recs
  induction recs with
  | nil => intro j; simp [encTabRecs]
  | cons c cs ih =>
    intro j
    have := ih (j + 1)
    simp only [encTabRecs, List.length_append, length_K, List.length_cons]
    omega

theorem rdRecords_enc (v : V2) (rest : List Nat) : ∀ (recs : List (List (List Int))) (j fuel : Nat),
    TabOk v j recs → recs.length < fuel →
    rdRecords v fuel (encTabRecs v j recs ++ (K v 0 ++ rest)) = .ok (recs.map List.flatten, rest) := by
  intro recs
  induction recs with
  | nil =>
    intro j fuel _ hf
    cases fuel with
    | zero => omega
    | succ f =>
      simp only [encTabRecs, List.nil_append, rdRecords, rdRecord, getKey_K v 0 _ (inKey_small v 0 (by omega) (by omega)),
        if_true, List.map_nil]
  | cons pieces r ih =>
    intro j fuel hok hf
    cases fuel with
    | zero => omega
    | succ f =>
      have hj := hok.1
      simp only [List.length_cons] at hj
      have hnk : InKey v (-((j : Int) + 4)) := inKey_small v _ (by omega) (by omega)
      have h1 := rdRecord_enc v (-((j : Int) + 4)) (by omega) hnk (encTabRecs v (j + 1) r ++ (K v 0 ++ rest)) pieces
        (hok.2 pieces List.mem_cons_self)
      have h2 := ih (j + 1) f ⟨by omega, fun ps h => hok.2 ps (List.mem_cons_of_mem _ h)⟩ (by simpa using hf)
      simp only [encTabRecs_cons, encPiece, List.append_assoc] at h1 ⊢
      simp only [rdRecords, h1, h2, List.map_cons]

/-! ### `rdop2tabheaders` -/

/-- what `rdop2tabheaders` reports of a piece: its first three keys and its length in bytes -/
def headOf (v : V2) (p : List Int) : TabHead := (p.take 3, ((p.length * kb v : Nat) : Int))

def headersOf (v : V2) (recs : List (List (List Int))) : List TabHead := recs.flatten.map (headOf v)

def rdHeadFrom (v : V2) (fuel : Nat) (s : List Nat) (acc : List TabHead) : M (List TabHead × List Nat) :=
  match getKey v s with
  | .error e => .error e
  | .ok (key, s) => rdHeadPieces v fuel key s acc

theorem keys_append (v : V2) (a b : List Int) : keys v (a ++ b) = keys v a ++ keys v b := by
  simp [keys]

theorem rdHeadFrom_enc (v : V2) (neg : Int) (hneg : neg < 0) (hnk : InKey v neg) (tail : List Nat) :
    ∀ (pieces : List (List Int)) (acc : List TabHead) (fuel : Nat), (∀ p ∈ pieces, PieceOk v p ∧ 3 ≤ p.length) →
      pieces.length < fuel →
      rdHeadFrom v fuel (pieces.flatMap (encPiece v) ++ (K v neg ++ tail)) acc
        = .ok (acc ++ pieces.map (headOf v), tail) := by
  intro pieces
  induction pieces with
  | nil =>
    intro acc fuel _ hf
    cases fuel with
    | zero => omega
    | succ f =>
      have : ¬ (neg > 0) := by omega
      simp only [rdHeadFrom, List.flatMap_nil, List.nil_append, getKey_K v neg _ hnk, rdHeadPieces, this, if_false,
        List.map_nil, List.append_nil]
  | cons p t ih =>
    intro acc fuel hok hf
    cases fuel with
    | zero => omega
    | succ f =>
      obtain ⟨hp, h3⟩ := hok p List.mem_cons_self
      obtain ⟨hck, hcp⟩ := hp.count
      have hkl : (keys v p).length < 2147483648 := by rw [length_keys]; exact hp.len
      have hlk : (keys v p).length = p.length * kb v := length_keys v p
      have ht3 : (p.take 3).length = 3 := by rw [List.length_take]; omega
      have hl3 : (keys v (p.take 3)).length = 3 * kb v := by rw [length_keys, ht3]
      have hsplit : keys v p = keys v (p.take 3) ++ keys v (p.drop 3) := by
        rw [← keys_append, List.take_append_drop]
      have hu : unpackInts v.e (kb v) 3 (keys v (p.take 3)) = .ok (p.take 3) := by
        have := unpackInts_keys v (p.take 3) (fun x hx => hp.keys x (List.mem_of_mem_take hx))
        rw [ht3] at this
        exact this
      have htake : (keys v p ++ (mark v (keys v p).length ++ (t.flatMap (encPiece v) ++ (K v neg ++ tail)))).take (3 * kb v)
          = keys v (p.take 3) := by
        rw [hsplit, List.append_assoc]
        exact List.take_left' hl3
      simp only [rdHeadFrom, List.flatMap_cons, encPiece, List.append_assoc, getKey_K v _ _ hck, rdHeadPieces,
        gt_iff_lt, hcp, if_true, rdI4_R v _ _ hkl, htake, hu, Int.toNat_natCast, List.drop_left' hlk, drop4_mark]
      have := ih (acc ++ [((p.take 3), ((keys v p).length : Int))]) f
        (fun x hx => hok x (List.mem_cons_of_mem _ hx)) (by simpa using hf)
      have e : acc ++ headOf v p :: t.map (headOf v) = (acc ++ [headOf v p]) ++ t.map (headOf v) := by simp
      rw [List.map_cons, e]
      simp only [headOf, ← hlk]
      exact this

def rdTabFrom (v : V2) (fuel : Nat) (s : List Nat) (acc : List TabHead) : M (List TabHead × List Nat) :=
  match rdEot v s with
  | .error e => .error e
  | .ok (key, s) => rdTabLoop v fuel key s acc

theorem rdTabFrom_enc (v : V2) (rest : List Nat) : ∀ (recs : List (List (List Int))) (j : Nat) (acc : List TabHead)
    (fuel : Nat), TabOk v j recs → (∀ pieces ∈ recs, ∀ p ∈ pieces, 3 ≤ p.length) → recs.length < fuel →
    rdTabFrom v fuel (encTabRecs v j recs ++ (K v 0 ++ rest)) acc = .ok (acc ++ headersOf v recs, rest) := by
  intro recs
  induction recs with
  | nil =>
    intro j acc fuel _ _ hf
    cases fuel with
    | zero => omega
    | succ f =>
      simp only [encTabRecs, List.nil_append, rdTabFrom, rdEot_K v 0 _ (inKey_small v 0 (by omega) (by omega)),
        rdTabLoop, if_true, headersOf, List.flatten_nil, List.map_nil, List.append_nil]
  | cons pieces r ih =>
    intro j acc fuel hok h3 hf
    cases fuel with
    | zero => omega
    | succ f =>
      have hj := hok.1
      simp only [List.length_cons] at hj
      have hnk : InKey v (-((j : Int) + 4)) := inKey_small v _ (by omega) (by omega)
      have hp := hok.2 pieces List.mem_cons_self
      obtain ⟨key, s1, hg, he, hl, hk⟩ := firstKey_pieces v (-((j : Int) + 4)) (by omega) hnk
        (K v 1 ++ (K v 0 ++ (encTabRecs v (j + 1) r ++ (K v 0 ++ rest)))) pieces hp
      have h1 := rdHeadFrom_enc v (-((j : Int) + 4)) (by omega) hnk
        (K v 1 ++ (K v 0 ++ (encTabRecs v (j + 1) r ++ (K v 0 ++ rest)))) pieces acc (s1.length + 1)
        (fun p hpm => ⟨hp p hpm, h3 pieces List.mem_cons_self p hpm⟩) (by omega)
      unfold rdHeadFrom at h1
      rw [hg] at h1
      have h2 := ih (j + 1) (acc ++ pieces.map (headOf v)) f
        ⟨by omega, fun ps h => hok.2 ps (List.mem_cons_of_mem _ h)⟩
        (fun ps h => h3 ps (List.mem_cons_of_mem _ h)) (by simpa using hf)
      unfold rdTabFrom at h2
      simp only [encTabRecs_cons, List.append_assoc]
      simp only [rdTabFrom, he, rdTabLoop, hk, if_false, h1, skipKey_K2r]
      refine Eq.trans h2 ?_
      simp only [headersOf, List.flatten_cons, List.map_append, List.append_assoc]

theorem rdEot_length (v : V2) (S : List Nat) (key : Int) (s : List Nat) (h : rdEot v S = .ok (key, s)) :
    s.length = S.length - (8 + kb v) := by
  unfold rdEot at h
  split at h
  · unfold rdKeyRaw at h
    cases hu : unpack1 v.e (kb v) (List.take (kb v) (List.drop 4 S)) with
    | error e => simp only [hu] at h; exact absurd h (by simp)
    | ok x =>
      simp only [hu] at h
      have := (Prod.mk.inj (Except.ok.inj h)).2
      rw [← this]
      simp only [List.length_drop]; omega
  · rename_i hlen
    have := (Prod.mk.inj (Except.ok.inj h)).2
    rw [← this]
    simp only [List.length_take] at hlen
    simp only [List.length_drop]; omega

theorem rdTabHeaders_enc (v : V2) (rest : List Nat) (recs : List (List (List Int))) (hok : TabOk v 0 recs)
    (h3 : ∀ pieces ∈ recs, ∀ p ∈ pieces, 3 ≤ p.length) :
    rdTabHeaders v (encTabRecs v 0 recs ++ (K v 0 ++ rest)) = .ok (headersOf v recs, rest) := by
  have hlen : recs.length + (8 + kb v) ≤ (encTabRecs v 0 recs ++ (K v 0 ++ rest)).length := by
    have := length_encTabRecs v recs 0
    simp only [List.length_append, length_K]; omega
  cases he : rdEot v (encTabRecs v 0 recs ++ (K v 0 ++ rest)) with
  | error e =>
    have := rdTabFrom_enc v rest recs 0 [] (recs.length + 1) hok h3 (by omega)
    unfold rdTabFrom at this
    rw [he] at this
    exact absurd this (by simp)
  | ok r =>
    obtain ⟨key, s⟩ := r
    have hl := rdEot_length v _ key s he
    have := rdTabFrom_enc v rest recs 0 [] (s.length + 1) hok h3 (by omega)
    unfold rdTabFrom at this
    rw [he] at this
    simp only [List.nil_append] at this
    simp only [rdTabHeaders, he, this]

end PyYetiVerif.Op2R
