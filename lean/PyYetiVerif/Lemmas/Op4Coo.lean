import PyYetiVerif.Lemmas.Op4Domain
/-! C04: what `sparse=True` returns for a written file (the COO triplets of `cooOfPuts`), and that
`.toarray()` of it is the dense read up to the sign of zeros. -/
namespace PyYetiVerif.Op4
open PyYetiVerif.Generated.Op4Consts

/-! ### the stored rows of a column -/

/-- the rows of a column whose elements the file holds: the dense layout stores everything from the first
to the last non-zero row (explicit zeros included), the sparse layouts exactly the non-zero rows -/
def storedIdx (lay : Layout) (cplx : Bool) (col : List Entry) : List Nat :=
  match lay, nzIdx cplx col with
  | .dense, s :: tl => List.range' s ((s :: tl).getLast (by simp) - s + 1)
  | _, idx => idx

/-- the triplets `sparse=True` returns for the columns `cols` (first column index `c`), in file order -/
def cooList (lay : Layout) (cplx : Bool) : Nat → List (List Entry) → List (Nat × Nat × Entry)
  | _, [] => []
  | c, col :: t =>
    ((storedIdx lay cplx col).map fun r => (r, c, cooEntry cplx (normE cplx (col.getD r (0, 0)))))
      ++ cooList lay cplx (c + 1) t

/-- the triplets of one `put(X, r0, c, seg)` -/
def putTrips (cplx : Bool) (c r0 : Nat) (seg : List Entry) : List (Nat × Nat × Entry) :=
  ((List.range seg.length).zip seg).map fun (i, x) => (r0 + i, c, cooEntry cplx x)

theorem cooOfPuts_cons (cplx : Bool) (p : Put) (t : List Put) :
    cooOfPuts cplx (p :: t) = putTrips cplx p.2.1 p.1 p.2.2 ++ cooOfPuts cplx t := by
  simp [cooOfPuts, putTrips]

theorem cooOfPuts_append (cplx : Bool) (a b : List Put) :
    cooOfPuts cplx (a ++ b) = cooOfPuts cplx a ++ cooOfPuts cplx b := by
  simp [cooOfPuts]

theorem putTrips_slice (cplx : Bool) (c : Nat) (col : List Entry) (r0 n : Nat) (h : r0 + n ≤ col.length) :
    putTrips cplx c r0 (((col.drop r0).take n).map (normE cplx)) =
      (List.range' r0 n).map fun r => (r, c, cooEntry cplx (normE cplx (col.getD r (0, 0)))) := by
  have hlen : (((col.drop r0).take n).map (normE cplx)).length = n := by simp; omega
  apply List.ext_getElem
  · simp [putTrips]; omega
  · intro i h1 h2
    have hi : i < n := by simpa using h2
    simp only [putTrips, List.getElem_map, List.getElem_zip, List.getElem_range, List.getElem_take,
      List.getElem_drop, List.getElem_range', Nat.one_mul]
    have : col.getD (r0 + i) (0, 0) = col[r0 + i]'(by omega) := by
      rw [List.getD_eq_getElem?_getD, List.getElem?_eq_getElem (by omega)]; rfl
    rw [this]

/-- flatMap over the runs of a list of indices is map over the list -/
theorem flatMap_runs {β} (g : Nat → β) (idx : List Nat) :
    (colStats idx).flatMap (fun p => (List.range' p.1 p.2).map g) = idx.map g := by
  conv => rhs; rw [← expand_colStats idx]
  unfold expand
  rw [List.map_flatMap]

theorem recOf_coo (e : Endian) (lay : Layout) (cplx : Bool) (c : Nat) (col : List Entry) (s : Nat) (tl : List Nat)
    (h : nzIdx cplx col = s :: tl) :
    cooOfPuts cplx (recOf e lay cplx c col s tl).outPuts =
      (storedIdx lay cplx col).map fun r => (r, c, cooEntry cplx (normE cplx (col.getD r (0, 0)))) := by
  have hlast_mem : (s :: tl).getLast (by simp) ∈ nzIdx cplx col := by rw [h]; exact List.getLast_mem _
  obtain ⟨x, hx, _⟩ := (mem_nzIdx _ _ _).1 hlast_mem
  have hlast_lt := (List.getElem?_eq_some_iff.1 hx).1
  have hsorted := (nzIdxFrom_sorted cplx col 0).1
  have hs_le : s ≤ (s :: tl).getLast (by simp) := by
    have := (sorted_bounds (nzIdx cplx col) (by rw [h]; simp) hsorted s (by rw [h]; exact List.mem_cons_self)).2
    simpa [h] using this
  have hsparse : cooOfPuts cplx (((strings cplx col).map fun s => (s.1, s.2.map (normE cplx))).map
        fun s => ((s.1, c, s.2) : Put)) =
      (nzIdx cplx col).map fun r => (r, c, cooEntry cplx (normE cplx (col.getD r (0, 0)))) := by
    rw [← flatMap_runs (fun r => (r, c, cooEntry cplx (normE cplx (col.getD r (0, 0))))) (nzIdx cplx col)]
    simp only [strings, List.map_map, cooOfPuts]
    rw [List.flatMap_map]
    apply flatMap_congr'
    intro q hq
    have hr := run_in_range cplx col q hq
    have := putTrips_slice cplx c col q.1 q.2 hr
    simpa [putTrips, Function.comp_def] using this
  cases lay
  · simp only [recOf, Rec.outPuts, storedIdx, h, List.map_cons, List.map_nil, cooOfPuts_cons]
    have := putTrips_slice cplx c col s ((s :: tl).getLast (by simp) - s + 1) (by omega)
    simp only [cooOfPuts, List.flatMap_nil, List.append_nil]
    simpa [putTrips, denseSeg] using this
  · simp only [recOf, Rec.outPuts, storedIdx]
    exact hsparse
  · simp only [recOf, Rec.outPuts, storedIdx]
    exact hsparse

theorem storedIdx_zero (lay : Layout) (cplx : Bool) (col : List Entry) (h : nzIdx cplx col = []) :
    storedIdx lay cplx col = [] := by
  cases lay <;> simp [storedIdx, h]

/-- **the triplets of the sparse read**, for the puts of a written matrix -/
theorem recsOf_coo (e : Endian) (lay : Layout) (cplx : Bool) : ∀ (cols : List (List Entry)) (c : Nat),
    cooOfPuts cplx ((recsOf e lay cplx c cols).flatMap Rec.outPuts) = cooList lay cplx c cols := by
  intro cols
  induction cols with
  | nil => intro c; rfl
  | cons col t ih =>
    intro c
    unfold recsOf cooList
    split
    · next hz => rw [ih (c + 1), storedIdx_zero lay cplx col hz]; rfl
    · next s tl hnz =>
      rw [List.flatMap_cons, cooOfPuts_append, ih (c + 1), recOf_coo e lay cplx c col s tl hnz]

/-! ### `.toarray()` -/

/-- the element at row `r` of column `c` -/
def cell (X : List (List Entry)) (r c : Nat) : Option Entry := X[c]?.bind (·[r]?)

/-- the values of the triplets at `(r, c)`, in order -/
def valsOf (ts : List (Nat × Nat × Entry)) (r c : Nat) : List Entry :=
  (ts.filter fun t => t.1 == r && t.2.1 == c).map (·.2.2)

theorem cell_modify (X : List (List Entry)) (r c r' c' : Nat) (f : Entry → Entry) :
    cell (X.modify c' fun col => col.modify r' f) r c =
      if r' = r ∧ c' = c then (cell X r c).map f else cell X r c := by
  unfold cell
  rw [List.getElem?_modify]
  cases hX : X[c]? with
  | none => simp
  | some col =>
    simp only [Option.map_eq_map, Option.map_some, Option.bind_some]
    by_cases hc : c' = c
    · simp only [hc, if_true, true_and, and_true]
      rw [List.getElem?_modify]
      cases hcol : col[r]? with
      | none => simp
      | some x => by_cases hr : r' = r <;> simp [hr]
    · simp [hc]

theorem cell_foldl (add : Entry → Entry → Entry) : ∀ (ts : List (Nat × Nat × Entry)) (X : List (List Entry)) (r c : Nat),
    cell (ts.foldl (fun X t => X.modify t.2.1 fun col => col.modify t.1 fun y => add y t.2.2) X) r c =
      (cell X r c).map fun x0 => (valsOf ts r c).foldl add x0 := by
  intro ts
  induction ts with
  | nil => intro X r c; simp [valsOf]
  | cons t ts ih =>
    intro X r c
    simp only [List.foldl_cons]
    rw [ih, cell_modify]
    by_cases h : t.1 = r ∧ t.2.1 = c
    · obtain ⟨h1, h2⟩ := h
      simp only [h1, h2, and_self, if_true, valsOf, List.filter_cons, beq_self_eq_true, Bool.and_self,
        List.map_cons, List.foldl_cons, Option.map_map]
      rfl
    · have hb : (t.1 == r && t.2.1 == c) = false := by
        rw [Bool.and_eq_false_iff]
        by_cases h1 : t.1 = r
        · right; simpa using fun h2 => h ⟨h1, h2⟩
        · left; simpa using h1
      simp only [h, if_false, valsOf, List.filter_cons, hb, Bool.false_eq_true]

theorem cell_zeros (rows cols r c : Nat) :
    cell (List.replicate cols (List.replicate rows ((0, 0) : Entry))) r c =
      if r < rows ∧ c < cols then some (0, 0) else none := by
  unfold cell
  by_cases hc : c < cols
  · by_cases hr : r < rows <;> simp [hc, hr, List.getElem?_replicate]
  · simp [hc, List.getElem?_replicate]

theorem cooToDense_cell (add : Entry → Entry → Entry) (rows cols : Nat) (ts : List (Nat × Nat × Entry)) (r c : Nat) :
    cell (cooToDense add rows cols ts) r c =
      if r < rows ∧ c < cols then some ((valsOf ts r c).foldl add (0, 0)) else none := by
  unfold cooToDense
  rw [cell_foldl, cell_zeros]
  split <;> rfl

theorem cooToDense_dims (add : Entry → Entry → Entry) (rows cols : Nat) : ∀ (ts : List (Nat × Nat × Entry)),
    (cooToDense add rows cols ts).length = cols ∧ ∀ col ∈ cooToDense add rows cols ts, col.length = rows := by
  intro ts
  unfold cooToDense
  generalize hX : List.replicate cols (List.replicate rows ((0, 0) : Entry)) = X
  have h0 : X.length = cols ∧ ∀ col ∈ X, col.length = rows := by
    subst hX
    refine ⟨by simp, ?_⟩
    intro col hcol
    rw [List.mem_replicate] at hcol
    rw [hcol.2]; simp
  clear hX
  induction ts generalizing X with
  | nil => exact h0
  | cons t ts ih =>
    simp only [List.foldl_cons]
    apply ih
    refine ⟨by simp [h0.1], ?_⟩
    intro col hcol
    obtain ⟨i, hi, hget⟩ := List.getElem_of_mem hcol
    have hget' : (X.modify t.2.1 fun col => col.modify t.1 fun y => add y t.2.2)[i]? = some col := by
      rw [← hget]; exact List.getElem?_eq_getElem hi
    rw [List.getElem?_modify] at hget'
    cases hXi : X[i]? with
    | none => rw [hXi] at hget'; cases hget'
    | some col0 =>
      rw [hXi] at hget'
      simp only [Option.map_eq_map, Option.map_some, Option.some.injEq] at hget'
      have hl0 : col0.length = rows := h0.2 col0 (List.mem_of_getElem? hXi)
      split at hget'
      · rw [← hget']; simp [hl0]
      · rw [← hget']; exact hl0

/-- two matrices of the same shape with the same cells are equal -/
theorem mat_ext (rows cols : Nat) (X Y : List (List Entry)) (hX : X.length = cols ∧ ∀ col ∈ X, col.length = rows)
    (hY : Y.length = cols ∧ ∀ col ∈ Y, col.length = rows) (h : ∀ r c, r < rows → c < cols → cell X r c = cell Y r c) :
    X = Y := by
  apply List.ext_getElem (by rw [hX.1, hY.1])
  intro c h1 h2
  have hxc : X[c]? = some X[c] := List.getElem?_eq_getElem h1
  have hyc : Y[c]? = some Y[c] := List.getElem?_eq_getElem h2
  have hlx := hX.2 _ (List.getElem_mem h1)
  have hly := hY.2 _ (List.getElem_mem h2)
  apply List.ext_getElem (by rw [hlx, hly])
  intro r h3 h4
  have := h r c (by omega) (by omega)
  simp only [cell, hxc, hyc, Option.bind_some, List.getElem?_eq_getElem h3, List.getElem?_eq_getElem h4,
    Option.some.injEq] at this
  exact this

/-! ### the values at one position of `cooList` -/

theorem filter_eq_sorted : ∀ (l : List Nat) (r : Nat), List.Pairwise (· < ·) l →
    l.filter (· == r) = if r ∈ l then [r] else [] := by
  intro l
  induction l with
  | nil => intro r _; rfl
  | cons a t ih =>
    intro r hp
    obtain ⟨ha, ht⟩ := List.pairwise_cons.1 hp
    rw [List.filter_cons, ih r ht]
    by_cases har : a = r
    · subst har
      have : a ∉ t := fun hm => by have := ha a hm; omega
      simp [this]
    · have : (a == r) = false := by simpa using har
      simp only [this, Bool.false_eq_true, if_false, List.mem_cons]
      have hra : ¬ r = a := fun h => har h.symm
      simp [hra]

theorem storedIdx_sorted (lay : Layout) (cplx : Bool) (col : List Entry) :
    List.Pairwise (· < ·) (storedIdx lay cplx col) := by
  have hs := (nzIdxFrom_sorted cplx col 0).1
  unfold storedIdx
  split
  · exact List.pairwise_lt_range'
  · next idx _ => exact hs

theorem valsOf_cooList (lay : Layout) (cplx : Bool) : ∀ (cols : List (List Entry)) (c0 r c : Nat),
    valsOf (cooList lay cplx c0 cols) r c =
      if c0 ≤ c then
        match cols[c - c0]? with
        | some col => if r ∈ storedIdx lay cplx col then [cooEntry cplx (normE cplx (col.getD r (0, 0)))] else []
        | none => []
      else [] := by
  intro cols
  induction cols with
  | nil => intro c0 r c; simp [cooList, valsOf]
  | cons col t ih =>
    intro c0 r c
    have iht := ih (c0 + 1) r c
    simp only [valsOf, cooList, List.filter_append, List.map_append] at iht ⊢
    rw [iht]
    by_cases hc : c0 = c
    · subst hc
      simp only [Nat.le_refl, if_true, Nat.sub_self, List.getElem?_cons_zero]
      have h2 : ¬ (c0 + 1 ≤ c0) := by omega
      simp only [h2, if_false, List.append_nil, List.filter_map, Function.comp_def, beq_self_eq_true,
        Bool.and_true, List.map_map]
      rw [filter_eq_sorted _ r (storedIdx_sorted lay cplx col)]
      by_cases hm : r ∈ storedIdx lay cplx col <;> simp [hm]
    · have hne : ∀ x : Nat, ((x == r) && (c0 == c)) = false := by
        intro x; simp [hc]
      simp only [List.filter_map, Function.comp_def, hne, List.filter_false, List.map_nil, List.nil_append]
      by_cases hle : c0 + 1 ≤ c
      · have : c0 ≤ c := by omega
        simp only [hle, this, if_true]
        have : c - c0 = (c - (c0 + 1)) + 1 := by omega
        rw [this, List.getElem?_cons_succ]
      · have : ¬ c0 ≤ c := by omega
        simp [hle, this]

/-- the rebuilt column at one row -/
theorem decCol_get (lay : Layout) (cplx : Bool) (col : List Entry) (r : Nat) (hr : r < col.length) :
    (decCol lay cplx col)[r]? =
      some (if r ∈ storedIdx lay cplx col then normE cplx (col.getD r (0, 0)) else (0, 0)) := by
  have hgetD : col.getD r (0, 0) = col[r] := by
    rw [List.getD_eq_getElem?_getD, List.getElem?_eq_getElem hr]; rfl
  have hx : col[r]? = some col[r] := List.getElem?_eq_getElem hr
  have hsparse : (canonCol cplx col)[r]? =
      some (if r ∈ nzIdx cplx col then normE cplx (col.getD r (0, 0)) else (0, 0)) := by
    simp only [canonCol, List.getElem?_map, hx, Option.map_some, hgetD]
    by_cases hz : (col[r]).isZero cplx = true
    · have : r ∉ nzIdx cplx col := fun hm => by
        obtain ⟨x, hx', hnz⟩ := (mem_nzIdx _ _ _).1 hm
        rw [hx] at hx'; cases hx'; rw [hz] at hnz; cases hnz
      rw [if_neg this, canonEntry_of_zero cplx _ hz]
    · have hz' : (col[r]).isZero cplx = false := by simpa using hz
      have : r ∈ nzIdx cplx col := (mem_nzIdx _ _ _).2 ⟨_, hx, hz'⟩
      rw [if_pos this, canonEntry_of_nonzero cplx _ hz']
  have hzero : nzIdx cplx col = [] → (decCol lay cplx col)[r]? = some (0, 0) := by
    intro hnil
    rw [decCol_zero lay cplx col hnil]
    simp [List.getElem?_replicate, hr]
  cases lay
  · cases h : nzIdx cplx col with
    | nil => rw [hzero h]; simp [storedIdx, h]
    | cons s tl =>
      have hlast_mem : (s :: tl).getLast (by simp) ∈ nzIdx cplx col := by rw [h]; exact List.getLast_mem _
      obtain ⟨x, hx', _⟩ := (mem_nzIdx _ _ _).1 hlast_mem
      have hlast_lt := (List.getElem?_eq_some_iff.1 hx').1
      have hsorted := (nzIdxFrom_sorted cplx col 0).1
      have hs_le : s ≤ (s :: tl).getLast (by simp) := by
        have := (sorted_bounds (nzIdx cplx col) (by rw [h]; simp) hsorted s (by rw [h]; exact List.mem_cons_self)).2
        simpa [h] using this
      simp only [decCol, storedIdx, h]
      generalize hm : (s :: tl).getLast (by simp) - s + 1 = m
      have hseg : (denseSeg col s tl).length = m := by
        unfold denseSeg; rw [hm]; simp; omega
      simp only [List.mem_range'_1]
      by_cases h1 : r < s
      · rw [List.getElem?_append_left (by simp; omega), List.getElem?_append_left (by simp; omega)]
        simp only [List.getElem?_take, h1, if_true, List.getElem?_replicate, hr]
        rw [if_neg (by omega)]
      · by_cases h2 : r < s + m
        · rw [List.getElem?_append_left (by simp; omega), List.getElem?_append_right (by simp; omega)]
          simp only [List.length_take, List.length_replicate, List.getElem?_map]
          have hmin : min s col.length = s := by omega
          rw [hmin, if_pos ⟨by omega, h2⟩]
          unfold denseSeg
          rw [hm]
          simp only [List.getElem?_take, List.getElem?_drop]
          rw [if_pos (by omega)]
          have : s + (r - s) = r := by omega
          rw [this, hx, hgetD]
          rfl
        · have hA : (List.take s (List.replicate col.length ((0, 0) : Entry))).length = s := by simp; omega
          have hB : (List.map (normE cplx) (denseSeg col s tl)).length = m := by simp [hseg]
          rw [List.getElem?_append_right (by simp only [List.length_append, hA, hB]; omega)]
          rw [hB]
          simp only [List.length_append, hA, hB, List.getElem?_drop, List.getElem?_replicate]
          have hnot : ¬ (s ≤ r ∧ r < s + m) := by omega
          simp only [hnot, if_false]
          rw [if_pos (by have := hA; have := hB; omega)]
  · simpa [decCol, storedIdx] using hsparse
  · simpa [decCol, storedIdx] using hsparse

theorem pz_cooEntry_zero (cplx : Bool) : pz (cooEntry cplx (0, 0)) = (0, 0) := by
  cases cplx <;> decide

/-- **`.toarray()` of the sparse read is the dense read**, up to the sign of zeros (`pz`) and the complex
construction `re + 1j*im` (`cooEntry`) -/
theorem cooToDense_cooList (add : Entry → Entry → Entry) (hadd0 : ∀ v, add (0, 0) v = pz v) (lay : Layout)
    (cplx : Bool) (rows : Nat) (cols : List (List Entry)) (hlen : ∀ col ∈ cols, col.length = rows) :
    cooToDense add rows cols.length (cooList lay cplx 0 cols) =
      cols.map fun col => (decCol lay cplx col).map fun y => pz (cooEntry cplx y) := by
  apply mat_ext rows cols.length _ _ (cooToDense_dims add rows cols.length _)
  · refine ⟨by simp, ?_⟩
    intro col hcol
    rw [List.mem_map] at hcol
    obtain ⟨col0, h0, rfl⟩ := hcol
    rw [List.length_map, decCol_length, hlen col0 h0]
  · intro r c hr hc
    rw [cooToDense_cell, if_pos ⟨hr, hc⟩, valsOf_cooList]
    have hcol : cols[c]? = some cols[c] := List.getElem?_eq_getElem hc
    have hl : (cols[c]).length = rows := hlen _ (List.getElem_mem hc)
    simp only [Nat.zero_le, if_true, Nat.sub_zero, hcol, cell, List.getElem?_map, Option.map_some, Option.bind_some]
    rw [decCol_get lay cplx _ r (by omega)]
    simp only [Option.map_some]
    by_cases hm : r ∈ storedIdx lay cplx cols[c]
    · simp only [hm, if_true, List.foldl_cons, List.foldl_nil, hadd0]
    · simp only [hm, if_false, List.foldl_nil, pz_cooEntry_zero]

end PyYetiVerif.Op4
