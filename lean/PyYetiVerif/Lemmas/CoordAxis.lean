import PyYetiVerif.Lemmas.Coord
/-!
C14 at the singular places of cylindrical / spherical systems.

* on the polar axis (`ρ = 0`): what `getcoordinates` returns there (`atan2(0, 0) = 0`: the undefined azimuth is
  reported as 0, the polar angle of a spherical system as 0 or 180), that forward ∘ inverse is the identity at
  *every* point (so a location queried in a system and entered again is the same point, axis included), that
  inverse ∘ forward normalises the azimuth to 0, and which local frame `rbgeom_uset` uses there (the frame of
  azimuth 0: the polar fix-up is skipped);
* at azimuths of exactly 0 / 90 / 180 / 270 degrees: the local frame is a signed permutation matrix times `Tᵀ`,
  so the `rbgeom_uset` rows of such a grid are exact rational expressions of `T`, `p`, `ref`.
-/
namespace PyYetiVerif.Coord

/-! ### the polar axis -/

theorem arg_mk_zero : Complex.arg ⟨0, 0⟩ = 0 := by
  have : (⟨0, 0⟩ : ℂ) = 0 := rfl
  rw [this, Complex.arg_zero]

theorem xy_zero_of_not_pos {x y : ℝ} (h : ¬ 0 < x * x + y * y) : x = 0 ∧ y = 0 := by
  have hx := mul_self_nonneg x
  have hy := mul_self_nonneg y
  have h0 : x * x + y * y = 0 := le_antisymm (not_lt.mp h) (by positivity)
  exact ⟨mul_self_eq_zero.mp (by linarith), mul_self_eq_zero.mp (by linarith)⟩

/-- `getcoordinates` on the axis of a cylindrical system: `R = 0`, `θ = atan2(0, 0) = 0` -/
theorem cyl_axis (z : ℝ) : fromRect .cyl (⟨0, 0, z⟩ : V3 ℝ) = ⟨0, 0, z⟩ := by
  simp only [fromRect, sqrt_real, atan2_real, pi_real, arg_mk_zero]
  ext <;> simp

/-- forward ∘ inverse is the identity at every point of a cylindrical system, the axis included -/
theorem cyl_fwd_inv_all (g : V3 ℝ) : toRect .cyl (fromRect .cyl g) = g := by
  by_cases h : 0 < g.x * g.x + g.y * g.y
  · exact cyl_fwd_inv g h
  · obtain ⟨hx, hy⟩ := xy_zero_of_not_pos h
    have hg : g = ⟨0, 0, g.z⟩ := by ext <;> simp [hx, hy]
    rw [hg, cyl_axis]
    simp only [toRect]
    ext <;> simp

/-- entering `(0, θ, z)` and querying it back gives `(0, 0, z)`: the azimuth, which has no meaning on the axis,
comes back as 0 -/
theorem cyl_axis_inv_fwd (θ z : ℝ) : fromRect .cyl (toRect .cyl (⟨0, θ, z⟩ : V3 ℝ)) = ⟨0, 0, z⟩ := by
  have : toRect .cyl (⟨0, θ, z⟩ : V3 ℝ) = ⟨0, 0, z⟩ := by
    simp only [toRect]; ext <;> simp
  rw [this, cyl_axis]

theorem arg_ofReal_mk (z : ℝ) : Complex.arg ⟨z, 0⟩ = if z < 0 then Real.pi else 0 := by
  have e : (⟨z, 0⟩ : ℂ) = (z : ℂ) := rfl
  rw [e]
  split
  · rename_i h; exact Complex.arg_ofReal_of_neg h
  · rename_i h; exact Complex.arg_ofReal_of_nonneg (not_lt.mp h)

/-- `getcoordinates` on the polar axis of a spherical system: `R = |z|`, `φ = atan2(0, 0) = 0`, and (through the
`cos φ` branch) `θ = atan2(0, z)` = 0 on the positive, 180 on the negative half -/
theorem sph_axis (z : ℝ) :
    fromRect .sph (⟨0, 0, z⟩ : V3 ℝ) = ⟨|z|, if z < 0 then 180 else 0, 0⟩ := by
  have hn : norm (⟨0, 0, z⟩ : V3 ℝ) = |z| := by
    simp only [norm, V3.dot, sqrt_real]
    rw [show (0 : ℝ) * 0 + 0 * 0 + z * z = z * z by ring, Real.sqrt_mul_self_eq_abs]
  simp only [fromRect, hn, atan2_real, sin_real, cos_real, abs_real, pi_real, arg_mk_zero, Real.sin_zero,
    Real.cos_zero, abs_zero, abs_one]
  have hlt : ¬ ((1 : ℝ) < 0) := by norm_num
  simp only [hlt, if_false, zero_div, arg_ofReal_mk]
  ext
  · rfl
  · simp only []
    split
    · field_simp
    · simp
  · simp

/-- forward ∘ inverse is the identity at every point of a spherical system, the polar axis and the origin
included -/
theorem sph_fwd_inv_all (g : V3 ℝ) : toRect .sph (fromRect .sph g) = g := by
  by_cases h : 0 < g.x * g.x + g.y * g.y
  · exact sph_fwd_inv g h
  · obtain ⟨hx, hy⟩ := xy_zero_of_not_pos h
    have hg : g = ⟨0, 0, g.z⟩ := by ext <;> simp [hx, hy]
    rw [hg, sph_axis]
    simp only [toRect, a2r, sin_real, cos_real, pi_real]
    by_cases hz : g.z < 0
    · simp only [hz, if_true]
      have e : (180 : ℝ) * (Real.pi / 180) = Real.pi := by ring
      rw [e, Real.sin_pi, Real.cos_pi, abs_of_neg hz]
      ext <;> simp [V3.smul]
    · simp only [hz, if_false]
      rw [zero_mul, Real.sin_zero, Real.cos_zero, abs_of_nonneg (not_lt.mp hz)]
      ext <;> simp [V3.smul]

/-- a basic point queried in a system of any type and entered again in it is the same point — everywhere,
also on the polar axis of a cylindrical / spherical system and at its origin -/
theorem locBasic_getCoordinates_all (ci : CoordInfo ℝ) (p : V3 ℝ) (hT : IsFrame ci.T) :
    locBasic ci (getCoordinates ci p) = p := by
  have key : ci.origin.add (ci.T.mulVec (ci.T.transpose.mulVec (p.sub ci.origin))) = p := by
    rw [hT.mulVec_transpose]; coord_ring
  unfold locBasic getCoordinates
  cases hc : ci.typ with
  | rect => simpa [toRect, fromRect] using key
  | cyl => rw [cyl_fwd_inv_all]; exact key
  | sph => rw [sph_fwd_inv_all]; exact key

/-- `rbgeom_uset` on the axis of a cylindrical output system: the fix-up is skipped, the rows are those of the
system's own axes — the local frame of azimuth 0, the azimuth `getcoordinates` reports there -/
theorem gridRb_cyl_axis (co : CoordInfo ℝ) (p ref : V3 ℝ) (h : co.typ = .cyl)
    (hx : (co.T.transpose.mulVec (p.sub co.origin)).x = 0)
    (hy : (co.T.transpose.mulVec (p.sub co.origin)).y = 0) :
    gridRb co p ref = Rb.lmul co.T.transpose (rigid (p.sub ref)) ∧
    gridRb co p ref = Rb.lmul ((rotzT (0 : ℝ)).mul co.T.transpose) (rigid (p.sub ref)) := by
  have h1 : gridRb co p ref = Rb.lmul co.T.transpose (rigid (p.sub ref)) := by
    have hn : ¬ ((1 : ℝ) / 10 ^ 8 < |(0 : ℝ)| + |(0 : ℝ)|) := by norm_num
    simp only [gridRb, h, abs_real, tiny_real, hx, hy, hn, if_false]
  refine ⟨h1, ?_⟩
  have hr : rotzT (0 : ℝ) = M3.one := by
    simp only [rotzT, sin_real, cos_real, Real.sin_zero, Real.cos_zero, neg_zero, M3.one]
  rw [h1, hr, one_mul3]

/-- … and on the polar axis of a spherical output system (`|z| > 1e-8`): the first fix-up is skipped, the
second uses `θ = atan2(0, z)` = 0 or 180 — the frame of `(θ, φ) = (0 | 180, 0)`, the angles `getcoordinates`
reports there -/
theorem gridRb_sph_axis (co : CoordInfo ℝ) (p ref : V3 ℝ) (h : co.typ = .sph)
    (hx : (co.T.transpose.mulVec (p.sub co.origin)).x = 0)
    (hy : (co.T.transpose.mulVec (p.sub co.origin)).y = 0)
    (hz : (1 : ℝ) / 10 ^ 8 < |(co.T.transpose.mulVec (p.sub co.origin)).z|) :
    gridRb co p ref = Rb.lmul
      ((sphT (if (co.T.transpose.mulVec (p.sub co.origin)).z < 0 then Real.pi else 0)).mul co.T.transpose)
      (rigid (p.sub ref)) := by
  have hn : ¬ ((1 : ℝ) / 10 ^ 8 < |(0 : ℝ)| + |(0 : ℝ)|) := by norm_num
  have hz' : (1 : ℝ) / 10 ^ 8 < |(co.T.transpose.mulVec (p.sub co.origin)).z| + |(0 : ℝ)| := by
    rw [abs_zero, add_zero]; exact hz
  simp only [gridRb, h, abs_real, tiny_real, atan2_real, hx, hy, hn, if_false, hz', if_true, arg_ofReal_mk,
    lmul_lmul]

/-! ### azimuths of exactly 0 / 90 / 180 / 270 degrees -/

/-- the four coordinate half-lines of the local `xy`-plane, by quarter turns -/
def OnRay (x y : ℝ) : Fin 4 → Prop
  | 0 => y = 0 ∧ 0 < x
  | 1 => x = 0 ∧ 0 < y
  | 2 => y = 0 ∧ x < 0
  | 3 => x = 0 ∧ y < 0

/-- `cos` of `k · 90°` -/
def qcos : Fin 4 → ℝ
  | 0 => 1 | 1 => 0 | 2 => -1 | 3 => 0
/-- `sin` of `k · 90°` -/
def qsin : Fin 4 → ℝ
  | 0 => 0 | 1 => 1 | 2 => 0 | 3 => -1

/-- rotation about `z` by `-k · 90°` applied to rows (`[[c, s], [-s, c]]`): entries 0, ±1 -/
def quarterRot (k : Fin 4) : M3 ℝ := ⟨⟨qcos k, qsin k, 0⟩, ⟨-qsin k, qcos k, 0⟩, ⟨0, 0, 1⟩⟩

/-- the spherical frame on the equator at azimuth `k · 90°`: rows `e_R, e_θ, e_φ`, entries 0, ±1 -/
def quarterSph (k : Fin 4) : M3 ℝ := ⟨⟨qcos k, qsin k, 0⟩, ⟨0, 0, -1⟩, ⟨-qsin k, qcos k, 0⟩⟩

theorem ray_dirs {x y : ℝ} {k : Fin 4} (h : OnRay x y k) :
    0 < x * x + y * y ∧ x / Real.sqrt (x * x + y * y) = qcos k ∧ y / Real.sqrt (x * x + y * y) = qsin k := by
  fin_cases k <;> simp only [OnRay] at h <;> obtain ⟨h0, h1⟩ := h <;> subst h0
  · refine ⟨by nlinarith, ?_, by simp [qsin]⟩
    rw [show x * x + 0 * 0 = x * x by ring, Real.sqrt_mul_self h1.le]
    exact div_self h1.ne'
  · refine ⟨by nlinarith, by simp [qcos], ?_⟩
    rw [show (0 : ℝ) * 0 + y * y = y * y by ring, Real.sqrt_mul_self h1.le]
    exact div_self h1.ne'
  · refine ⟨by nlinarith, ?_, by simp [qsin]⟩
    rw [show x * x + 0 * 0 = x * x by ring, Real.sqrt_mul_self_eq_abs, abs_of_neg h1]
    simp only [qcos]
    rw [div_neg, div_self h1.ne]
  · refine ⟨by nlinarith, by simp [qcos], ?_⟩
    rw [show (0 : ℝ) * 0 + y * y = y * y by ring, Real.sqrt_mul_self_eq_abs, abs_of_neg h1]
    simp only [qsin]
    rw [div_neg, div_self h1.ne]

theorem cylE_on_ray {g : V3 ℝ} {k : Fin 4} (h : OnRay g.x g.y k) : cylE g = quarterRot k := by
  obtain ⟨_, hc, hs⟩ := ray_dirs h
  simp only [cylE, sqrt_real, hc, hs, quarterRot]

theorem sphE_on_ray {g : V3 ℝ} {k : Fin 4} (h : OnRay g.x g.y k) (hz : g.z = 0) : sphE g = quarterSph k := by
  obtain ⟨hpos, hc, hs⟩ := ray_dirs h
  have hn : norm g = Real.sqrt (g.x * g.x + g.y * g.y) := by
    simp only [norm, V3.dot, sqrt_real, hz]; congr 1; ring
  have hr := Real.sqrt_pos.mpr hpos
  simp only [sphE, sqrt_real, hn, hc, hs, hz, quarterSph, zero_div, zero_mul, div_self hr.ne']

/-- **exact values at 0 / 90 / 180 / 270 degrees, cylindrical output system**: the `rbgeom_uset` rows of a grid
whose local position lies on one of the four coordinate half-lines are
`(Q_k · Tᵀ) · [I, -(p - ref)×; 0, I]` with `Q_k` a signed permutation matrix -/
theorem gridRb_cyl_on_ray (co : CoordInfo ℝ) (p ref : V3 ℝ) (h : co.typ = .cyl) (k : Fin 4)
    (hray : OnRay (co.T.transpose.mulVec (p.sub co.origin)).x (co.T.transpose.mulVec (p.sub co.origin)).y k)
    (hfix : (1 : ℝ) / 10 ^ 8 < |(co.T.transpose.mulVec (p.sub co.origin)).y|
      + |(co.T.transpose.mulVec (p.sub co.origin)).x|) :
    gridRb co p ref = Rb.lmul ((quarterRot k).mul co.T.transpose) (rigid (p.sub ref)) := by
  rw [gridRb_cyl co p ref h hfix]
  simp only [localFrameT, h, cylE_on_ray hray]

/-- … spherical output system, grid on the equator (`θ = 90°`) at azimuth `k · 90°` -/
theorem gridRb_sph_on_ray (co : CoordInfo ℝ) (p ref : V3 ℝ) (h : co.typ = .sph) (k : Fin 4)
    (hray : OnRay (co.T.transpose.mulVec (p.sub co.origin)).x (co.T.transpose.mulVec (p.sub co.origin)).y k)
    (hz : (co.T.transpose.mulVec (p.sub co.origin)).z = 0)
    (hfix : (1 : ℝ) / 10 ^ 8 < |(co.T.transpose.mulVec (p.sub co.origin)).y|
      + |(co.T.transpose.mulVec (p.sub co.origin)).x|) :
    gridRb co p ref = Rb.lmul ((quarterSph k).mul co.T.transpose) (rigid (p.sub ref)) := by
  have hfix' : (1 : ℝ) / 10 ^ 8 < |(co.T.transpose.mulVec (p.sub co.origin)).z|
      + Real.sqrt ((co.T.transpose.mulVec (p.sub co.origin)).x * (co.T.transpose.mulVec (p.sub co.origin)).x
        + (co.T.transpose.mulVec (p.sub co.origin)).y * (co.T.transpose.mulVec (p.sub co.origin)).y) := by
    rw [hz, abs_zero, zero_add]
    refine lt_of_lt_of_le hfix ?_
    rw [← Real.sqrt_mul_self (by positivity : (0 : ℝ) ≤ |(co.T.transpose.mulVec (p.sub co.origin)).y|
      + |(co.T.transpose.mulVec (p.sub co.origin)).x|)]
    apply Real.sqrt_le_sqrt
    generalize (co.T.transpose.mulVec (p.sub co.origin)).x = x at hray ⊢
    generalize (co.T.transpose.mulVec (p.sub co.origin)).y = y at hray ⊢
    fin_cases k <;> simp only [OnRay] at hray <;> obtain ⟨h0, _⟩ := hray <;> subst h0 <;>
      simp [abs_mul_abs_self]
  rw [gridRb_sph co p ref h hfix hfix']
  simp only [localFrameT, h, sphE_on_ray hray hz]

end PyYetiVerif.Coord
