import Mathlib.Data.Matrix.Block
import Mathlib.Data.Matrix.ColumnRowPartitioned
import Mathlib.Algebra.Ring.Basic
import Mathlib.Tactic.NoncommRing
import Mathlib.Algebra.BigOperators.Group.Finset.Basic
import Mathlib.Data.Matrix.Basic
/-!
# C07 — block powers of the augmented matrix of `getEPQ2`

`M = [[X, Y, 0], [0, 0, 1], [0, 0, 0]]` (order 1) and `[[X, Y], [0, 0]]` (order 0) over any ring:
closed form of every power by induction, and the blocks of a truncated series `Σ c_k M^k`.
-/
open Matrix
namespace PyYetiVerif.ExpSeries
variable {n p i R : Type*} [Fintype n] [Fintype p] [Fintype i] [DecidableEq n] [DecidableEq p]
  [DecidableEq i] [Ring R]

/-- powers of a block upper-triangular matrix whose lower-right corner squares to zero -/
theorem aug_pow (X : Matrix n n R) (W : Matrix n p R) (N : Matrix p p R) (hN : N * N = 0) (k : ℕ) :
    (fromBlocks X W 0 N) ^ (k + 2)
      = fromBlocks (X ^ (k + 2)) (X ^ (k + 1) * W + X ^ k * (W * N)) 0 0 := by
  induction k with
  | zero =>
    simp [pow_two, fromBlocks_multiply, hN]
  | succ k ih =>
    rw [pow_succ, ih, fromBlocks_multiply]
    congr 1
    · simp [pow_succ]
    · simp only [Matrix.add_mul, Matrix.mul_assoc, hN, Matrix.mul_zero, add_zero, pow_succ]
    · simp
    · simp

/-- order 0: `[[X, Y], [0, 0]]` -/
theorem aug_pow_order0 (X : Matrix n n R) (Y : Matrix n i R) (k : ℕ) :
    (fromBlocks X Y 0 (0 : Matrix i i R)) ^ (k + 1) = fromBlocks (X ^ (k + 1)) (X ^ k * Y) 0 0 := by
  induction k with
  | zero => simp
  | succ k ih =>
    rw [pow_succ, ih, fromBlocks_multiply]
    simp [pow_succ, Matrix.mul_assoc]

/-- order 1: `[[X, Y, 0], [0, 0, 1], [0, 0, 0]]` -/
theorem aug_pow_order1 (X : Matrix n n R) (Y : Matrix n i R) (k : ℕ) :
    (fromBlocks X (fromCols Y 0) 0 (fromBlocks 0 1 0 0 : Matrix (i ⊕ i) (i ⊕ i) R)) ^ (k + 2)
      = fromBlocks (X ^ (k + 2)) (fromCols (X ^ (k + 1) * Y) (X ^ k * Y)) 0 0 := by
  rw [aug_pow _ _ _ (by simp [fromBlocks_multiply])]
  congr 1
  rw [fromCols_mul_fromBlocks, mul_fromCols, mul_fromCols]
  ext a b
  cases b <;> simp


section series
variable {S : Type*} [CommRing S]

/-- the matrix `getEPQ2` exponentiates for `order = 1` -/
def augM1 (X : Matrix n n S) (Y : Matrix n i S) : Matrix (n ⊕ (i ⊕ i)) (n ⊕ (i ⊕ i)) S :=
  fromBlocks X (fromCols Y 0) 0 (fromBlocks 0 1 0 0)

/-- the matrix `getEPQ2` exponentiates for `order = 0` -/
def augM0 (X : Matrix n n S) (Y : Matrix n i S) : Matrix (n ⊕ i) (n ⊕ i) S :=
  fromBlocks X Y 0 0

omit [DecidableEq n] [DecidableEq i] in
theorem toBlocks₁₁_sum {ι : Type*} (s : Finset ι) {p q r t : Type*} (f : ι → Matrix (p ⊕ q) (r ⊕ t) S) :
    (∑ k ∈ s, f k).toBlocks₁₁ = ∑ k ∈ s, (f k).toBlocks₁₁ := by
  ext a b; simp [toBlocks₁₁, Matrix.sum_apply]

omit [DecidableEq n] [DecidableEq i] in
theorem toBlocks₁₂_sum {ι : Type*} (s : Finset ι) {p q r t : Type*} (f : ι → Matrix (p ⊕ q) (r ⊕ t) S) :
    (∑ k ∈ s, f k).toBlocks₁₂ = ∑ k ∈ s, (f k).toBlocks₁₂ := by
  ext a b; simp [toBlocks₁₂, Matrix.sum_apply]

omit [DecidableEq n] [DecidableEq i] in
theorem fromCols_sum {ι : Type*} (s : Finset ι) {p q r : Type*} (f : ι → Matrix p q S) (g : ι → Matrix p r S) :
    fromCols (∑ k ∈ s, f k) (∑ k ∈ s, g k) = ∑ k ∈ s, fromCols (f k) (g k) := by
  ext a b; cases b <;> simp [Matrix.sum_apply]

omit [DecidableEq n] [DecidableEq i] in
theorem toBlocks₁₁_add {p q r t : Type*} (A B : Matrix (p ⊕ q) (r ⊕ t) S) :
    (A + B).toBlocks₁₁ = A.toBlocks₁₁ + B.toBlocks₁₁ := rfl

omit [DecidableEq n] [DecidableEq i] in
theorem toBlocks₁₂_add {p q r t : Type*} (A B : Matrix (p ⊕ q) (r ⊕ t) S) :
    (A + B).toBlocks₁₂ = A.toBlocks₁₂ + B.toBlocks₁₂ := rfl

/-- blocks of the truncated series of the order-1 augmented matrix: the `(1,1)` block is the same
series in `X`, the `(1,2)` block has the coefficients shifted by one, the `(1,3)` block by two -/
theorem aug1_series_blocks (X : Matrix n n S) (Y : Matrix n i S) (c : ℕ → S) (N : ℕ) :
    (∑ k ∈ Finset.range (N + 2), c k • augM1 X Y ^ k).toBlocks₁₁
        = ∑ k ∈ Finset.range (N + 2), c k • X ^ k ∧
    (∑ k ∈ Finset.range (N + 2), c k • augM1 X Y ^ k).toBlocks₁₂
        = fromCols (∑ k ∈ Finset.range (N + 1), c (k + 1) • (X ^ k * Y))
                   (∑ k ∈ Finset.range N, c (k + 2) • (X ^ k * Y)) := by
  induction N with
  | zero =>
    constructor
    · rw [toBlocks₁₁_sum]
      simp [Finset.sum_range_succ, augM1, toBlocks₁₁, ← fromBlocks_one]
      ext a b; simp
    · rw [toBlocks₁₂_sum]
      simp [Finset.sum_range_succ, augM1, toBlocks₁₂]
      ext a b; cases b <;> simp
  | succ N ih =>
    obtain ⟨ih1, ih2⟩ := ih
    have hp : augM1 X Y ^ (N + 2)
        = fromBlocks (X ^ (N + 2)) (fromCols (X ^ (N + 1) * Y) (X ^ N * Y)) 0 0 :=
      aug_pow_order1 X Y N
    have s1 := Finset.sum_range_succ (fun k => c k • augM1 X Y ^ k) (N + 2)
    have s2 := Finset.sum_range_succ (fun k => c k • X ^ k) (N + 2)
    have s3 := Finset.sum_range_succ (fun k => c (k + 1) • (X ^ k * Y)) (N + 1)
    have s4 := Finset.sum_range_succ (fun k => c (k + 2) • (X ^ k * Y)) N
    constructor
    · show (∑ k ∈ Finset.range (N + 2 + 1), c k • augM1 X Y ^ k).toBlocks₁₁
          = ∑ k ∈ Finset.range (N + 2 + 1), c k • X ^ k
      rw [s1, s2, toBlocks₁₁_add, ih1, hp]
      congr 1
    · show (∑ k ∈ Finset.range (N + 2 + 1), c k • augM1 X Y ^ k).toBlocks₁₂
          = fromCols (∑ k ∈ Finset.range (N + 1 + 1), c (k + 1) • (X ^ k * Y))
                     (∑ k ∈ Finset.range (N + 1), c (k + 2) • (X ^ k * Y))
      rw [s1, s3, s4, toBlocks₁₂_add, ih2, hp]
      ext a b; cases b <;> simp [toBlocks₁₂]

/-- order 0: `(1,2)` block with the coefficients shifted by one -/
theorem aug0_series_blocks (X : Matrix n n S) (Y : Matrix n i S) (c : ℕ → S) (N : ℕ) :
    (∑ k ∈ Finset.range (N + 1), c k • augM0 X Y ^ k).toBlocks₁₁
        = ∑ k ∈ Finset.range (N + 1), c k • X ^ k ∧
    (∑ k ∈ Finset.range (N + 1), c k • augM0 X Y ^ k).toBlocks₁₂
        = ∑ k ∈ Finset.range N, c (k + 1) • (X ^ k * Y) := by
  induction N with
  | zero =>
    constructor
    · simp [augM0, toBlocks₁₁]; ext a b; simp [Matrix.one_apply]
    · simp [augM0, toBlocks₁₂]; ext a b; simp
  | succ N ih =>
    obtain ⟨ih1, ih2⟩ := ih
    have hp : augM0 X Y ^ (N + 1) = fromBlocks (X ^ (N + 1)) (X ^ N * Y) 0 0 :=
      aug_pow_order0 X Y N
    have s1 := Finset.sum_range_succ (fun k => c k • augM0 X Y ^ k) (N + 1)
    have s2 := Finset.sum_range_succ (fun k => c k • X ^ k) (N + 1)
    have s3 := Finset.sum_range_succ (fun k => c (k + 1) • (X ^ k * Y)) N
    constructor
    · rw [s1, s2, toBlocks₁₁_add, ih1, hp]
      congr 1
    · rw [s1, s3, toBlocks₁₂_add, ih2, hp]
      congr 1

end series

end PyYetiVerif.ExpSeries
