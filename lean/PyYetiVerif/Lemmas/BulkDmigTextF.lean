import PyYetiVerif.Model.BulkReal
import PyYetiVerif.Lemmas.BulkDmigText
/-! The physical lines of `wtdmig` with the value fields written by an arbitrary formatter `fmt` whose fields are clean
(C13; core Lean only) — the generalisation of `Lemmas/BulkDmigText.lean` (there: `fmtE9`, integer-valued terms) that
carries real-valued terms (`Dmig.fmtR`: `'{:16.9E}'` of the double a term stands for).  Generated from that file by
renaming; the proofs are the same. -/
namespace PyYetiVerif.Bulk

/-! ### lines → card values -/

/-- what `nas_sscanf` returns for a value field written by `fmt` -/
def encF (fmt : Int → Txt) (v : Int) : Val := nasScan (fmt v)

/-- what the physical-line theorem asks when the value fields are written by `fmt`: the name is a word of at most 8
characters without `$`, `,` that `nas_sscanf` returns as it is; every written label fits its 16-column field, type and
NCOL their 8-column fields; every written value field is clean (exactly 16 columns, no `$`, no comma, solid end) -/
structure Dmig.CleanF (fmt : Int → Txt) (d : Dmig) : Prop where
  name_len : d.name.length ≤ 8
  name_d : '$' ∉ d.name
  name_c : ',' ∉ d.name
  name8 : nasScan (padR 8 d.name) = .str d.name
  name16 : nasScan (padR 16 d.name) = .str d.name
  mtype_len : (dec d.mtype).length ≤ 8
  ncol_len : (dec d.ncol).length ≤ 8
  labels : ∀ c ∈ d.cards, (dec c.1.1).length ≤ 16 ∧ (dec c.1.2).length ≤ 16 ∧
    ∀ e ∈ c.2, (dec e.1.1).length ≤ 16 ∧ (dec e.1.2).length ≤ 16 ∧ CleanField 16 (fmt e.2.1) ∧
      (¬ d.mtype < 3 → CleanField 16 (fmt e.2.2))

/-- the text of one column card -/
def Dmig.cardLinesF (d : Dmig) (fmt : Int → Txt) (c : (Int × Int) × List ((Int × Int) × (Int × Int))) : List Txt :=
  (padR 8 (txt "DMIG*") ++ padR 16 d.name ++ padL 16 (dec c.1.1) ++ padL 16 (dec c.1.2)) ::
    c.2.map fun e =>
      padR 8 ['*'] ++ padL 16 (dec e.1.1) ++ padL 16 (dec e.1.2) ++ fmt e.2.1 ++
        (if d.mtype < 3 then [] else fmt e.2.2)

theorem Dmig.linesF_eq (fmt : Int → Txt) (d : Dmig) :
    (d.linesF fmt) = (padR 8 (txt "DMIG") ++ padR 8 d.name ++ padL 8 (dec 0) ++ padL 8 (dec d.form) ++
      padL 8 (dec d.mtype) ++ padL 8 (dec 0) ++ padL 8 (dec 0) ++ blanks 8 ++ padL 8 (dec d.ncol)) ::
      d.cards.flatMap (d.cardLinesF fmt) := rfl

/-- a `*` line of a column card -/
theorem dmig_row_fieldsF (fmt : Int → Txt) (d : Dmig) (e : (Int × Int) × (Int × Int))
    (h : (dec e.1.1).length ≤ 16 ∧ (dec e.1.2).length ≤ 16 ∧ CleanField 16 (fmt e.2.1) ∧ (¬ d.mtype < 3 → CleanField 16 (fmt e.2.2))) :
    lineFields .f16 false (padR 8 ['*'] ++ padL 16 (dec e.1.1) ++ padL 16 (dec e.1.2) ++ fmt e.2.1 ++
        (if d.mtype < 3 then [] else fmt e.2.2)) = d.rowFields (encF fmt) e := by
  obtain ⟨h1, h2, c1, h4⟩ := h
  by_cases hr : d.mtype < 3
  · have hfl : FixedLine 16 (padR 8 ['*']) ([padL 16 (dec e.1.1), padL 16 (dec e.1.2)] ++ [fmt e.2.1]) 0 := by
      refine FixedLine.build 16 _ _ _ 0 (by decide) (by decide) (by decide) ?_ (cleanField_ne_nil (by decide) c1) c1.2 (by simp)
      intro f hf
      simp only [List.cons_append, List.nil_append, List.mem_cons, List.not_mem_nil, or_false] at hf
      rcases hf with rfl | rfl | rfl
      · exact fieldOK_padL_dec 16 _ h1
      · exact fieldOK_padL_dec 16 _ h2
      · exact c1.1
    have := hfl.fields .f16 (by decide) (by decide) false
    simp only [hr, if_true, List.append_nil]
    have e0 : padR 8 ['*'] ++ padL 16 (dec e.1.1) ++ padL 16 (dec e.1.2) ++ fmt e.2.1 =
        padR 8 ['*'] ++ ([padL 16 (dec e.1.1), padL 16 (dec e.1.2)] ++ [fmt e.2.1]).flatten ++ blanks 0 := by
      simp [blanks]
    rw [e0, this]
    simp [Dmig.rowFields, hr, nasScan_padL, encF]
  · have c2 := h4 hr
    have hfl : FixedLine 16 (padR 8 ['*'])
        ([padL 16 (dec e.1.1), padL 16 (dec e.1.2), fmt e.2.1] ++ [fmt e.2.2]) 0 := by
      refine FixedLine.build 16 _ _ _ 0 (by decide) (by decide) (by decide) ?_ (cleanField_ne_nil (by decide) c2) c2.2 (by simp)
      intro f hf
      simp only [List.cons_append, List.nil_append, List.mem_cons, List.not_mem_nil, or_false] at hf
      rcases hf with rfl | rfl | rfl | rfl
      · exact fieldOK_padL_dec 16 _ h1
      · exact fieldOK_padL_dec 16 _ h2
      · exact c1.1
      · exact c2.1
    have := hfl.fields .f16 (by decide) (by decide) false
    simp only [hr, if_false]
    have e0 : padR 8 ['*'] ++ padL 16 (dec e.1.1) ++ padL 16 (dec e.1.2) ++ fmt e.2.1 ++ fmt e.2.2 =
        padR 8 ['*'] ++ ([padL 16 (dec e.1.1), padL 16 (dec e.1.2), fmt e.2.1] ++ [fmt e.2.2]).flatten ++ blanks 0 := by
      simp [blanks]
    rw [e0, this]
    simp [Dmig.rowFields, hr, nasScan_padL, encF]

theorem isCont_star16F (x : Txt) : isCont .f16 (padR 8 ['*'] ++ x) = true := rfl

/-- one column card as `rdcards` reads it -/
theorem dmig_card_readF (fmt : Int → Txt) (d : Dmig) (hc : d.CleanF fmt) (c : (Int × Int) × List ((Int × Int) × (Int × Int))) (hm : c ∈ d.cards)
    (fuel : Nat) (rest : List Txt) (hr : ∀ x, rest.head? = some x → ∃ t, x = 'D' :: t) :
    rdcardsAux (txt "dmig") (fuel + 1) ((d.cardLinesF fmt) c ++ rest) =
      d.cardVals1 (encF fmt) c :: rdcardsAux (txt "dmig") fuel rest := by
  obtain ⟨hg, hcj, hrows⟩ := hc.labels c hm
  have hfl : FixedLine 16 (padR 8 (txt "DMIG*")) ([padR 16 d.name, padL 16 (dec c.1.1)] ++ [padL 16 (dec c.1.2)]) 0 := by
    refine FixedLine.build 16 _ _ _ 0 (by decide) (by decide) (by decide) ?_ (padL_dec_ne_nil 16 _) (lastSolid_padL_dec 16 _) (by simp)
    intro f hf
    simp only [List.cons_append, List.nil_append, List.mem_cons, List.not_mem_nil, or_false] at hf
    rcases hf with rfl | rfl | rfl
    · exact fieldOK_padR 16 _ (by have := hc.name_len; omega) hc.name_d hc.name_c
    · exact fieldOK_padL_dec 16 _ hg
    · exact fieldOK_padL_dec 16 _ hcj
  have hmode := hfl.modeOf
  have hstar : (padR 8 (txt "DMIG*")).contains '*' = true := by decide
  rw [hstar] at hmode; simp only [if_true] at hmode
  have e1 : padR 8 (txt "DMIG*") ++ padR 16 d.name ++ padL 16 (dec c.1.1) ++ padL 16 (dec c.1.2) =
      padR 8 (txt "DMIG*") ++ ([padR 16 d.name, padL 16 (dec c.1.1)] ++ [padL 16 (dec c.1.2)]).flatten ++ blanks 0 := by
    simp [blanks]
  unfold Dmig.cardLinesF
  rw [e1, List.cons_append, rdcardsAux_card (txt "dmig") fuel _ _ rest
    (by rw [List.append_assoc, lower_append]; exact startsWith_append (txt "dmig") _)
    (by
      rw [hmode]; intro x hx
      obtain ⟨e, _, rfl⟩ := List.mem_map.mp hx
      simp only [List.append_assoc]; exact isCont_star16F _)
    (by rw [hmode]; intro x hx; obtain ⟨t, rfl⟩ := hr x hx; exact isCont_D _ t),
    hmode, hfl.fields .f16 (by decide) (by decide) true, List.map_map]
  have hmap : c.2.map (lineFields .f16 false ∘ fun e =>
      padR 8 ['*'] ++ padL 16 (dec e.1.1) ++ padL 16 (dec e.1.2) ++ fmt e.2.1 ++
        (if d.mtype < 3 then [] else fmt e.2.2)) = c.2.map (d.rowFields (encF fmt)) := by
    apply List.map_congr_left
    intro e he
    exact dmig_row_fieldsF fmt d e (hrows e he)
  rw [hmap]
  simp [Dmig.cardVals1, Mode.inc, nasScan_padL, hc.name16]

theorem cardLines_headF (fmt : Int → Txt) (d : Dmig) (c : (Int × Int) × List ((Int × Int) × (Int × Int))) :
    ∃ t ls, (d.cardLinesF fmt) c = ('D' :: t) :: ls := ⟨_, _, rfl⟩

theorem rdcardsAux_dmig_cardsF (fmt : Int → Txt) (d : Dmig) (hc : d.CleanF fmt) (cs : List ((Int × Int) × List ((Int × Int) × (Int × Int))))
    (hsub : ∀ c ∈ cs, c ∈ d.cards) : ∀ fuel, (cs.flatMap (d.cardLinesF fmt)).length < fuel →
    rdcardsAux (txt "dmig") fuel (cs.flatMap (d.cardLinesF fmt)) = cs.map (d.cardVals1 (encF fmt)) := by
  induction cs with
  | nil => intro fuel _; simp [rdcardsAux_nil]
  | cons c r ih =>
      intro fuel hf
      have ih := ih (fun x hx => hsub x (by simp [hx]))
      obtain ⟨t, ls, hh⟩ := cardLines_headF fmt d c
      cases fuel with
      | zero => omega
      | succ f =>
          have hlen : (r.flatMap (d.cardLinesF fmt)).length < f := by
            simp only [List.flatMap_cons, List.length_append, hh, List.length_cons] at hf; omega
          rw [List.flatMap_cons, List.map_cons, ← ih f hlen]
          apply dmig_card_readF fmt d hc c (hsub c (by simp)) f
          intro x hx
          cases r with
          | nil => simp at hx
          | cons c' r' =>
              obtain ⟨t', ls', hh'⟩ := cardLines_headF fmt d c'
              simp [List.flatMap_cons, hh'] at hx
              exact ⟨t', hx.symm⟩

/-- `rdcards(f, "dmig", return_var="list")` on the text of `wtdmig` -/
theorem rdcards_dmig_linesF (fmt : Int → Txt) (d : Dmig) (hc : d.CleanF fmt) :
    rdcards (txt "dmig") (d.linesF fmt) = d.headerVals :: d.written (encF fmt) := by
  have hform : (dec (d.form : Int)).length ≤ 8 := by
    rcases form_cases d with h | h | h | h <;> rw [h] <;> decide
  have hfl : FixedLine 8 (padR 8 (txt "DMIG"))
      ([padR 8 d.name, padL 8 (dec 0), padL 8 (dec d.form), padL 8 (dec d.mtype), padL 8 (dec 0), padL 8 (dec 0), blanks 8] ++
        [padL 8 (dec d.ncol)]) 0 := by
    refine FixedLine.build 8 _ _ _ 0 (by decide) (by decide) (by decide) ?_ (padL_dec_ne_nil 8 _) (lastSolid_padL_dec 8 _) (by simp)
    intro f hf
    simp only [List.cons_append, List.nil_append, List.mem_cons, List.not_mem_nil, or_false] at hf
    rcases hf with rfl | rfl | rfl | rfl | rfl | rfl | rfl | rfl
    · exact fieldOK_padR 8 _ hc.name_len hc.name_d hc.name_c
    · exact fieldOK_padL_dec 8 _ (by decide)
    · exact fieldOK_padL_dec 8 _ hform
    · exact fieldOK_padL_dec 8 _ hc.mtype_len
    · exact fieldOK_padL_dec 8 _ (by decide)
    · exact fieldOK_padL_dec 8 _ (by decide)
    · exact fieldOK_blanks 8
    · exact fieldOK_padL_dec 8 _ hc.ncol_len
  have hmode := hfl.modeOf
  have hstar : (padR 8 (txt "DMIG")).contains '*' = false := by decide
  rw [hstar] at hmode; simp only [Bool.false_eq_true, if_false] at hmode
  have e1 : padR 8 (txt "DMIG") ++ padR 8 d.name ++ padL 8 (dec 0) ++ padL 8 (dec d.form) ++
      padL 8 (dec d.mtype) ++ padL 8 (dec 0) ++ padL 8 (dec 0) ++ blanks 8 ++ padL 8 (dec d.ncol) =
      padR 8 (txt "DMIG") ++ ([padR 8 d.name, padL 8 (dec 0), padL 8 (dec d.form), padL 8 (dec d.mtype), padL 8 (dec 0),
        padL 8 (dec 0), blanks 8] ++ [padL 8 (dec d.ncol)]).flatten ++ blanks 0 := by
    simp [blanks]
  have hl : lower (txt "dmig") = txt "dmig" := by decide
  unfold rdcards
  rw [hl, Dmig.linesF_eq fmt d, e1, List.length_cons]
  have hcards := rdcardsAux_dmig_cardsF fmt d hc d.cards (fun c h => h) _ (Nat.lt_succ_self _)
  have := rdcardsAux_card (txt "dmig") ((d.cards.flatMap (d.cardLinesF fmt)).length + 1)
    (padR 8 (txt "DMIG") ++ ([padR 8 d.name, padL 8 (dec 0), padL 8 (dec d.form), padL 8 (dec d.mtype), padL 8 (dec 0),
        padL 8 (dec 0), blanks 8] ++ [padL 8 (dec d.ncol)]).flatten ++ blanks 0) [] (d.cards.flatMap (d.cardLinesF fmt))
    (by rw [List.append_assoc, lower_append]; exact startsWith_append (txt "dmig") _)
    (by simp)
    (by
      rw [hmode]; intro x hx
      cases hq : d.cards with
      | nil => rw [hq] at hx; simp at hx
      | cons c' r' =>
          obtain ⟨t', ls', hh'⟩ := cardLines_headF fmt d c'
          rw [hq] at hx
          simp [List.flatMap_cons, hh'] at hx
          rw [← hx]; exact isCont_D _ t')
  rw [List.nil_append] at this
  rw [this, hmode, hfl.fields .f8 (by decide) (by decide) true, hcards]
  simp [cardVals, Dmig.headerVals, Dmig.written, nasScan_padL, nasScan_blanks, hc.name8]

/-- `rddmig` on the text of `wtdmig`: the frame of `Dmig.readFrame`, with `nas_sscanf` of the written
`{:16.9E}` fields as values -/
theorem rdDmig_linesF (fmt : Int → Txt) (d : Dmig) (hc : d.CleanF fmt) : rdDmig (d.linesF fmt) = some [d.readFrame (encF fmt) (lower d.name)] := by
  unfold rdDmig
  rw [rdcards_dmig_linesF fmt d hc]
  have hall : ∀ c ∈ d.written (encF fmt), (cardName c == some (lower d.name)) = true := by
    intro c hcm
    obtain ⟨c', _, rfl⟩ := List.mem_map.mp hcm
    simp [cardName_cardVals1]
  have hhead : cardName d.headerVals = some (lower d.name) := rfl
  simp only [List.isEmpty_cons, Bool.false_eq_true, if_false, List.length_cons, dmigAux, hhead, takeWhile_all' _ _ hall,
    dropWhile_all' _ _ hall, dmigOne_written, dmigAux_nil]

end PyYetiVerif.Bulk
