import PyYetiVerif.Lemmas.SrsVrs
import PyYetiVerif.Model.SrsFrf
import Mathlib.Tactic.NormNum.OfScientific
/-! Helper lemmas for C03: the routine `srs_frf` — `np.sort`, the near-duplicate removal, scipy's
linear `interp1d` with zero fill, the complex response and its modulus, the maximum over the grid. -/
set_option linter.unusedVariables false
set_option linter.unusedSimpArgs false
set_option linter.unusedSectionVars false
namespace PyYetiVerif.Srs

/-! ### `np.sort` -/

theorem insertSorted_perm (x : ℝ) (l : List ℝ) : (insertSorted x l).Perm (x :: l) := by
  induction l with
  | nil => simp [insertSorted]
  | cons y ys ih =>
    unfold insertSorted
    split_ifs with h
    · exact (List.Perm.cons y ih).trans (List.Perm.swap x y ys)
    · exact List.Perm.refl _

theorem sortList_perm' (l : List ℝ) : (sortList l).Perm l := by
  unfold sortList
  induction l with
  | nil => simp
  | cons x l ih =>
    simp only [List.foldr_cons]
    exact (insertSorted_perm x _).trans (List.Perm.cons x ih)

theorem insertSorted_sorted (x : ℝ) (l : List ℝ) (hl : l.Pairwise (· ≤ ·)) :
    (insertSorted x l).Pairwise (· ≤ ·) := by
  induction l with
  | nil => simp [insertSorted]
  | cons y ys ih =>
    rw [List.pairwise_cons] at hl
    unfold insertSorted
    split_ifs with h
    · rw [List.pairwise_cons]
      refine ⟨?_, ih hl.2⟩
      intro a ha
      rcases List.mem_cons.mp ((insertSorted_perm x ys).mem_iff.mp ha) with rfl | ha
      · exact h.le
      · exact hl.1 a ha
    · rw [List.pairwise_cons]
      refine ⟨?_, List.pairwise_cons.mpr hl⟩
      intro a ha
      have hxy : x ≤ y := not_lt.mp h
      rcases List.mem_cons.mp ha with rfl | ha
      · exact hxy
      · exact le_trans hxy (hl.1 a ha)

theorem sortList_sorted' (l : List ℝ) : (sortList l).Pairwise (· ≤ ·) := by
  unfold sortList
  induction l with
  | nil => simp
  | cons x l ih => exact insertSorted_sorted x _ ih

/-! ### `pv[1:] = np.diff(ffreq) > tol` -/

theorem dedupAux_spec (tol : ℝ) (xs : List ℝ) : ∀ p : ℝ,
    dedupAux tol p xs
      = ((xs.zip (p :: xs)).filter (fun q => decide (tol < q.1 - q.2))).map Prod.fst := by
  induction xs with
  | nil => intro p; rfl
  | cons x xs ih =>
    intro p
    unfold dedupAux
    rw [ih x]
    simp only [List.zip_cons_cons, List.filter_cons]
    by_cases h : tol < x - p <;> simp [h]

theorem dedupAux_sublist (tol : ℝ) (xs : List ℝ) : ∀ p : ℝ, (dedupAux tol p xs).Sublist xs := by
  induction xs with
  | nil => intro p; exact List.Sublist.refl _
  | cons x xs ih =>
    intro p
    unfold dedupAux
    split_ifs
    · exact (ih x).cons_cons x
    · exact (ih x).cons x

theorem dedupAux_gap_head (tol : ℝ) (xs : List ℝ) : ∀ p : ℝ, (p :: xs).Pairwise (· ≤ ·) →
    ∀ y ∈ dedupAux tol p xs, tol < y - p := by
  induction xs with
  | nil => intro p _ y hy; simp [dedupAux] at hy
  | cons x xs ih =>
    intro p hs y hy
    rw [List.pairwise_cons] at hs
    have hpx : p ≤ x := hs.1 x (List.mem_cons_self ..)
    have ih' := ih x hs.2
    unfold dedupAux at hy
    split_ifs at hy with h
    · rcases List.mem_cons.mp hy with rfl | hy
      · exact h
      · have := ih' y hy
        linarith
    · have := ih' y hy
      linarith

theorem dedupAux_gap (tol : ℝ) (xs : List ℝ) : ∀ p : ℝ, (p :: xs).Pairwise (· ≤ ·) →
    (dedupAux tol p xs).Pairwise (fun a b => tol < b - a) := by
  induction xs with
  | nil => intro p _; simp [dedupAux]
  | cons x xs ih =>
    intro p hs
    rw [List.pairwise_cons] at hs
    unfold dedupAux
    split_ifs with h
    · rw [List.pairwise_cons]
      exact ⟨dedupAux_gap_head tol xs x hs.2, ih x hs.2⟩
    · exact ih x hs.2

theorem dedupNear_gap (tol : ℝ) (l : List ℝ) (hs : l.Pairwise (· ≤ ·)) :
    (dedupNear tol l).Pairwise (fun a b => tol < b - a) := by
  cases l with
  | nil => simp [dedupNear]
  | cons x xs =>
    unfold dedupNear
    rw [List.pairwise_cons]
    exact ⟨dedupAux_gap_head tol xs x hs, dedupAux_gap tol xs x hs⟩

theorem dedupNear_sublist (tol : ℝ) (l : List ℝ) : (dedupNear tol l).Sublist l := by
  cases l with
  | nil => exact List.Sublist.refl _
  | cons x xs => exact (dedupAux_sublist tol xs x).cons_cons x

/-! ### linear interpolation -/

/-- the value on the segment `[xa, xb]` -/
noncomputable def segVal (xa ya xb yb x : ℝ) : ℝ := (yb - ya) / (xb - xa) * (x - xa) + ya

theorem interpSeg_first (x0 y0 x1 y1 : ℝ) (rest : List (ℝ × ℝ)) (x : ℝ) (h : x ≤ x1) :
    interpSeg x0 y0 ((x1, y1) :: rest) x = segVal x0 y0 x1 y1 x := by
  cases rest with
  | nil => simp [interpSeg, segVal]
  | cons p rest => simp [interpSeg, segVal, not_lt.mpr h]

theorem interpSeg_seg (pre : List (ℝ × ℝ)) : ∀ (xlo ylo xa ya xb yb : ℝ) (post : List (ℝ × ℝ))
    (x : ℝ), (∀ p ∈ pre, p.1 < x) → xa < x → x ≤ xb →
    interpSeg xlo ylo (pre ++ (xa, ya) :: (xb, yb) :: post) x = segVal xa ya xb yb x := by
  induction pre with
  | nil =>
    intro xlo ylo xa ya xb yb post x _ ha hb
    simp only [List.nil_append, interpSeg, if_pos ha]
    exact interpSeg_first xa ya xb yb post x hb
  | cons q pre ih =>
    intro xlo ylo xa ya xb yb post x hpre ha hb
    obtain ⟨x1, y1⟩ := q
    have h1 : x1 < x := hpre (x1, y1) (List.mem_cons_self ..)
    have hne : ∃ r rs, pre ++ (xa, ya) :: (xb, yb) :: post = r :: rs := by
      cases pre with
      | nil => exact ⟨_, _, rfl⟩
      | cons r rs => exact ⟨_, _, rfl⟩
    obtain ⟨r, rs, hr⟩ := hne
    have step : interpSeg xlo ylo ((x1, y1) :: (pre ++ (xa, ya) :: (xb, yb) :: post)) x
        = interpSeg x1 y1 (pre ++ (xa, ya) :: (xb, yb) :: post) x := by
      rw [hr]
      simp [interpSeg, h1]
    rw [List.cons_append, step]
    exact ih x1 y1 xa ya xb yb post x (fun p hp => hpre p (List.mem_cons_of_mem _ hp)) ha hb

theorem le_lastX (rest : List (ℝ × ℝ)) : ∀ x0 : ℝ, ((x0 :: rest.map Prod.fst).Pairwise (· < ·)) →
    x0 ≤ lastX x0 rest ∧ ∀ p ∈ rest, p.1 ≤ lastX x0 rest := by
  induction rest with
  | nil => intro x0 _; simp [lastX]
  | cons q rest ih =>
    intro x0 hs
    obtain ⟨x1, y1⟩ := q
    simp only [List.map_cons] at hs
    rw [List.pairwise_cons] at hs
    have h01 : x0 < x1 := hs.1 x1 (List.mem_cons_self ..)
    obtain ⟨h1, h2⟩ := ih x1 hs.2
    simp only [lastX]
    refine ⟨by linarith, ?_⟩
    intro p hp
    rcases List.mem_cons.mp hp with rfl | hp
    · exact h1
    · exact h2 p hp

/-- the interpolant on the segment `[xa, xb]` of a strictly increasing table, for `xa < x ≤ xb` -/
theorem interpLin_seg (pre post : List (ℝ × ℝ)) (xa ya xb yb x : ℝ)
    (hs : ((pre ++ (xa, ya) :: (xb, yb) :: post).map Prod.fst).Pairwise (· < ·))
    (ha : xa < x) (hb : x ≤ xb) :
    interpLin (pre ++ (xa, ya) :: (xb, yb) :: post) x = segVal xa ya xb yb x := by
  have hmem : ∀ p ∈ pre, p.1 < xa := by
    intro p hp
    rw [List.map_append, List.pairwise_append] at hs
    exact hs.2.2 p.1 (List.mem_map_of_mem hp) xa (by simp)
  cases pre with
  | nil =>
    simp only [List.nil_append] at hs ⊢
    simp only [List.map_cons] at hs
    have hl := le_lastX ((xb, yb) :: post) xa hs
    have hxl : x ≤ lastX xa ((xb, yb) :: post) :=
      le_trans hb (hl.2 (xb, yb) (List.mem_cons_self ..))
    simp only [interpLin, if_neg (not_lt.mpr ha.le), if_neg (not_lt.mpr hxl)]
    exact interpSeg_first xa ya xb yb post x hb
  | cons q pre =>
    obtain ⟨x0, y0⟩ := q
    simp only [List.cons_append, List.map_cons] at hs
    have hl := le_lastX (pre ++ (xa, ya) :: (xb, yb) :: post) x0 hs
    have hxl : x ≤ lastX x0 (pre ++ (xa, ya) :: (xb, yb) :: post) :=
      le_trans hb (hl.2 (xb, yb) (by simp))
    have h0 : x0 < x := lt_trans (hmem (x0, y0) (List.mem_cons_self ..)) ha
    simp only [List.cons_append, interpLin, if_neg (not_lt.mpr h0.le), if_neg (not_lt.mpr hxl)]
    exact interpSeg_seg pre x0 y0 xa ya xb yb post x
      (fun p hp => lt_trans (hmem p (List.mem_cons_of_mem _ hp)) ha) ha hb

/-- at the first abscissa (at least two points) -/
theorem interpLin_first (x0 y0 x1 y1 : ℝ) (rest : List (ℝ × ℝ))
    (hs : (((x0, y0) :: (x1, y1) :: rest).map Prod.fst).Pairwise (· < ·)) :
    interpLin ((x0, y0) :: (x1, y1) :: rest) x0 = y0 := by
  simp only [List.map_cons] at hs
  have hl := le_lastX ((x1, y1) :: rest) x0 hs
  have h01 : x0 < x1 := (List.pairwise_cons.mp hs).1 x1 (List.mem_cons_self ..)
  simp only [interpLin, lt_irrefl, if_false, if_neg (not_lt.mpr hl.1)]
  rw [interpSeg_first x0 y0 x1 y1 rest x0 h01.le]
  simp [segVal]

/-- the interpolant reproduces the table: at every abscissa of a strictly increasing table of at
least two points its value is the tabulated ordinate -/
theorem interpLin_node (pts : List (ℝ × ℝ)) (hlen : 2 ≤ pts.length)
    (hs : (pts.map Prod.fst).Pairwise (· < ·)) (p : ℝ × ℝ) (hp : p ∈ pts) :
    interpLin pts p.1 = p.2 := by
  obtain ⟨l1, l2, rfl⟩ := List.append_of_mem hp
  obtain ⟨xb, yb⟩ := p
  rcases List.eq_nil_or_concat l1 with rfl | ⟨pre, q, rfl⟩
  · -- first point
    cases l2 with
    | nil => simp at hlen
    | cons r rest =>
      obtain ⟨x1, y1⟩ := r
      exact interpLin_first xb yb x1 y1 rest hs
  · obtain ⟨xa, ya⟩ := q
    have e : pre ++ [(xa, ya)] ++ (xb, yb) :: l2 = pre ++ (xa, ya) :: (xb, yb) :: l2 := by simp
    rw [List.concat_eq_append, e] at hs ⊢
    have hab : xa < xb := by
      rw [List.map_append, List.pairwise_append] at hs
      have := hs.2.1
      simp only [List.map_cons] at this
      exact (List.pairwise_cons.mp this).1 xb (by simp)
    rw [interpLin_seg pre l2 xa ya xb yb xb hs hab le_rfl]
    have : xb - xa ≠ 0 := sub_ne_zero.mpr hab.ne'
    simp only [segVal]
    field_simp
    ring

theorem interpLin_below (x0 y0 : ℝ) (rest : List (ℝ × ℝ)) (x : ℝ) (h : x < x0) :
    interpLin ((x0, y0) :: rest) x = 0 := by simp [interpLin, h]

theorem interpLin_above (x0 y0 : ℝ) (rest : List (ℝ × ℝ)) (x : ℝ) (h : lastX x0 rest < x) :
    interpLin ((x0, y0) :: rest) x = 0 := by
  simp only [interpLin, h, if_true]
  split_ifs <;> rfl

/-! ### the response and its modulus -/

theorem cabs_real (z : ℝ × ℝ) : cabs z = Real.sqrt (z.1 * z.1 + z.2 * z.2) := rfl

theorem cabs_nonneg (z : ℝ × ℝ) : 0 ≤ cabs z := Real.sqrt_nonneg _

/-- `| |z| + 0 i | = |z|` -/
theorem cabs_cabs (z : ℝ × ℝ) : cabs (cabs z, (0 : ℝ)) = cabs z := by
  rw [cabs_real (cabs z, 0)]
  simp only [mul_zero, add_zero]
  exact Real.sqrt_mul_self (cabs_nonneg z)

theorem frfThreshold_real : (frfRigidThreshold : ℝ) = 5 / 1000 := by
  unfold frfRigidThreshold; norm_num

theorem frfTol_real : (frfTol : ℝ) = 1 / 100000 := by
  unfold frfTol; norm_num

/-- elastic branch: `|a|² = amp² |H(W/wn)|²` -/
theorem frfRespC_normSq (Q wn W amp : ℝ) (hQ : Q ≠ 0) (hk : (frfRigidThreshold : ℝ) ≤ wn * wn) :
    (frfRespC Q wn W amp).1 * (frfRespC Q wn W amp).1
        + (frfRespC Q wn W amp).2 * (frfRespC Q wn W amp).2
      = amp * amp * vrsGain (1 / 2 / Q) wn W := by
  have hwn : wn ≠ 0 := by
    rintro rfl
    rw [frfThreshold_real] at hk
    norm_num at hk
  have hD : (wn * wn - W * W) * (wn * wn - W * W) + 1 / Q * wn * W * (1 / Q * wn * W) ≠ 0 := by
    by_cases hW : W = 0
    · subst hW
      have : 0 < wn * wn := mul_self_pos.mpr hwn
      have h2 : 0 < (wn * wn - 0 * 0) * (wn * wn - 0 * 0) := by
        have e : wn * wn - 0 * 0 = wn * wn := by ring
        rw [e]; positivity
      have h3 : 0 ≤ 1 / Q * wn * 0 * (1 / Q * wn * 0) := mul_self_nonneg _
      linarith
    · have h2 : 0 < 1 / Q * wn * W * (1 / Q * wn * W) := by
        have : 1 / Q * wn * W ≠ 0 :=
          mul_ne_zero (mul_ne_zero (one_div_ne_zero hQ) hwn) hW
        exact mul_self_pos.mpr this
      have h3 : 0 ≤ (wn * wn - W * W) * (wn * wn - W * W) := mul_self_nonneg _
      linarith
  have hden : (1 - W / wn * (W / wn)) * (1 - W / wn * (W / wn))
      + 2 * (1 / 2 / Q) * (W / wn) * (2 * (1 / 2 / Q) * (W / wn)) ≠ 0 := by
    have : (1 - W / wn * (W / wn)) * (1 - W / wn * (W / wn))
        + 2 * (1 / 2 / Q) * (W / wn) * (2 * (1 / 2 / Q) * (W / wn))
        = ((wn * wn - W * W) * (wn * wn - W * W) + 1 / Q * wn * W * (1 / Q * wn * W))
          / (wn ^ 4) := by
      field_simp
    rw [this]
    exact div_ne_zero hD (pow_ne_zero 4 hwn)
  have hG : vrsGain (1 / 2 / Q) wn W
      = (wn * wn * (wn * wn) + 1 / Q * wn * W * (1 / Q * wn * W))
        / ((wn * wn - W * W) * (wn * wn - W * W) + 1 / Q * wn * W * (1 / Q * wn * W)) := by
    unfold vrsGain
    simp only
    rw [div_eq_div_iff hden hD]
    field_simp
  simp only [frfRespC, if_neg (not_lt.mpr hk)]
  rw [hG]
  generalize hhi : 1 / Q * wn * W = hi at hD ⊢
  generalize hdd : (wn * wn - W * W) * (wn * wn - W * W) + hi * hi = d at hD ⊢
  field_simp
  rw [← hdd]
  ring

theorem frfRespC_rigid (Q wn W amp : ℝ) (hk : wn * wn < (frfRigidThreshold : ℝ)) :
    frfRespC Q wn W amp = (0, 0) := by
  simp [frfRespC, hk]

theorem vrsGain_nonneg (zeta fn f : ℝ) : 0 ≤ vrsGain zeta fn f := by
  rw [vrsGain_eq_normSq']
  exact Complex.normSq_nonneg _

/-- elastic branch: `|a| = |amp| · |H(W/wn)|` -/
theorem cabs_frfRespC (Q wn W amp : ℝ) (hQ : Q ≠ 0) (hk : (frfRigidThreshold : ℝ) ≤ wn * wn) :
    cabs (frfRespC Q wn W amp) = |amp| * Real.sqrt (Complex.normSq (Hc (1 / 2 / Q) (W / wn))) := by
  rw [cabs_real, frfRespC_normSq Q wn W amp hQ hk, ← vrsGain_eq_normSq',
    Real.sqrt_mul (mul_self_nonneg amp), Real.sqrt_mul_self_eq_abs]

/-! ### maximum over the grid -/

theorem maxOf_mem (xs : List ℝ) : ∀ x : ℝ, maxOf x xs ∈ x :: xs := by
  induction xs with
  | nil => intro x; simp [maxOf]
  | cons v vs ih =>
    intro x
    have e : maxOf x (v :: vs) = maxOf (if x < v then v else x) vs := rfl
    rw [e]
    have := ih (if x < v then v else x)
    rcases List.mem_cons.mp this with h | h
    · rw [h]
      split_ifs <;> simp
    · exact List.mem_cons_of_mem _ (List.mem_cons_of_mem _ h)

theorem maxOf_is_max (x : ℝ) (xs : List ℝ) :
    maxOf x xs ∈ x :: xs ∧ ∀ v ∈ x :: xs, v ≤ maxOf x xs := by
  refine ⟨maxOf_mem xs x, ?_⟩
  intro v hv
  rcases List.mem_cons.mp hv with rfl | hv
  · exact le_maxOf xs _
  · exact mem_le_maxOf xs x v hv

end PyYetiVerif.Srs
