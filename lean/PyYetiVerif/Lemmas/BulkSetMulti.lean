import PyYetiVerif.Lemmas.BulkSet
/-! `rdsets` on a file that holds several SET statements between other lines (C13; core Lean only). -/
namespace PyYetiVerif.Bulk

/-- the lines after the header of a SET statement, any grouping of the tokens into non-empty lines, followed by
the rest of the file: the statement ends with its last token and the rest is handed back untouched -/
theorem rdSetBody_groups_rest (rest : List Txt) (Gs : List (List Txt)) : ∀ (g : List Txt) (J : List Item) (fuel : Nat),
    g ≠ [] → (∀ x ∈ Gs, x ≠ []) → J ≠ [] → (∀ x ∈ J, x.NonNeg) → (g :: Gs).flatten = setBody J → Gs.length < fuel →
    rdSetBody fuel (strip g.flatten) (Gs.map List.flatten ++ rest) = some (expand J, rest) := by
  induction Gs with
  | nil =>
      intro g J fuel _ _ hJ hn hfl hf
      simp only [List.flatten_cons, List.flatten_nil, List.append_nil] at hfl
      cases fuel with
      | zero => omega
      | succ f =>
          rw [hfl, ← joined_eq_setBody]
          exact rdSetBody_final f J hJ hn _
  | cons g' Gs' ih =>
      intro g J fuel hg hGs hJ hn hfl hf
      have hg' : g' ≠ [] := hGs g' (by simp)
      have hY : (g' :: Gs').flatten ≠ [] := by
        cases g' with
        | nil => exact absurd rfl hg'
        | cons a b => simp
      rw [List.flatten_cons] at hfl
      obtain ⟨K, J', hK, hJ', e1, e2, e3⟩ := setBody_split g J _ hg hY hfl.symm
      cases fuel with
      | zero => omega
      | succ f =>
          have hnK : ∀ x ∈ K, x.NonNeg := fun x hx => hn x (by simp [e1, hx])
          have hnJ' : ∀ x ∈ J', x.NonNeg := fun x hx => hn x (by simp [e1, hx])
          rw [e2, List.map_cons, List.cons_append, rdSetBody_cont f K hK hnK,
            ih g' J' f hg' (fun x hx => hGs x (by simp [hx])) hJ' hnJ' e3 (by simp at hf; omega)]
          simp [e1, expand_append]

/-- a line that is neither a SET header nor `BEGIN BULK` is skipped -/
theorem rdSetsAux_junk (fuel : Nat) (l : Txt) (rest : List Txt) (d : List (Val × List Int))
    (h1 : startsWith (txt "begin bulk") (lower (skipSp l)) = false) (h2 : setHead l = none) :
    rdSetsAux (fuel + 1) (l :: rest) d = rdSetsAux fuel rest d := by
  simp [rdSetsAux, h1, h2]

/-- one SET statement written as by `wtset` (header token first, then any grouping of the item tokens into
non-empty lines), followed by the rest of the file -/
theorem rdSetsAux_set (fuel : Nat) (setid : Int) (hs : 0 ≤ setid) (J : List Item) (hJ : J ≠ []) (hn : ∀ x ∈ J, x.NonNeg)
    (T1 : List Txt) (Gs : List (List Txt)) (hGs : ∀ x ∈ Gs, x ≠ []) (hfl : T1 ++ Gs.flatten = setBody J)
    (rest : List Txt) (d : List (Val × List Int)) :
    rdSetsAux (fuel + 1) (((txt "SET " ++ dec setid ++ txt " = ") :: T1).flatten :: (Gs.map List.flatten ++ rest)) d =
      rdSetsAux fuel rest (dictPut d (Val.int setid) (expand J)) := by
  have hTd : ∀ x, T1.flatten.head? = some x → x.isDigit = true := by
    intro x hx
    by_cases hT1 : T1 = []
    · subst hT1; simp at hx
    · have : ∃ r, T1.flatten = joined J ∨ ∃ K, K ≠ [] ∧ (∀ y ∈ K, y.NonNeg) ∧ T1.flatten = joined K ++ r := by
        by_cases hG : Gs.flatten = []
        · rw [hG, List.append_nil] at hfl
          exact ⟨[], Or.inl (by rw [hfl, joined_eq_setBody])⟩
        · obtain ⟨K, J', hK, _, e1, e2, _⟩ := setBody_split T1 J _ hT1 hG hfl.symm
          exact ⟨txt ", ", Or.inr ⟨K, hK, fun y hy => hn y (by simp [e1, hy]), by rw [e2, flatten_ctok K hK]⟩⟩
      obtain ⟨r, h | ⟨K, hK, hnK, h⟩⟩ := this
      · obtain ⟨⟨c, t, e, hc⟩, _⟩ := joined_ends J hJ hn
        rw [h, e] at hx; simp at hx; subst hx; exact hc
      · obtain ⟨⟨c, t, e, hc⟩, _⟩ := joined_ends K hK hnK
        rw [h, e] at hx; simp at hx; subst hx; exact hc
  have hline : ((txt "SET " ++ dec setid ++ txt " = ") :: T1).flatten = txt "SET " ++ dec setid ++ txt " = " ++ T1.flatten := by
    simp
  have hnb : startsWith (txt "begin bulk") (lower (skipSp (txt "SET " ++ dec setid ++ txt " = " ++ T1.flatten))) = false := by
    have e : txt "SET " ++ dec setid ++ txt " = " ++ T1.flatten = 'S' :: ('E' :: 'T' :: ' ' :: (dec setid ++ txt " = " ++ T1.flatten)) := by
      simp [txt]
    rw [e]
    simp only [skipSp, List.dropWhile_cons]
    rfl
  have hbody : rdSetBody ((Gs.map List.flatten ++ rest).length + 2) (strip T1.flatten) (Gs.map List.flatten ++ rest) =
      some (expand J, rest) := by
    by_cases hT1 : T1 = []
    · subst hT1
      rw [List.nil_append] at hfl
      cases Gs with
      | nil => simp at hfl; have := congrArg List.length hfl; rw [setBody_length] at this; simp at this; exact absurd this hJ
      | cons g Gs' =>
          have hstrip : strip ([] : List Txt).flatten = [] := by decide
          rw [hstrip]
          simp only [List.map_cons, List.length_cons, List.cons_append]
          rw [rdSetBody_empty, rdSetBody_groups_rest rest Gs' g J _ (hGs g (by simp)) (fun x hx => hGs x (by simp [hx])) hJ hn hfl
            (by simp; omega)]
          simp
    · exact rdSetBody_groups_rest rest Gs T1 J _ hT1 hGs hJ hn (by simpa using hfl) (by simp; omega)
  rw [hline]
  simp only [rdSetsAux, hnb, Bool.false_eq_true, if_false, setHead_written setid hs _ hTd, hbody]
  simp [Int.toNat_of_nonneg hs]

/-! ### segments -/

inductive SSeg where
  | set (setid : Int) (J : List Item) (T1 : List Txt) (Gs : List (List Txt))
  | junk (ls : List Txt)

def SSeg.lines : SSeg → List Txt
  | .set setid _ T1 Gs => ((txt "SET " ++ dec setid ++ txt " = ") :: T1).flatten :: Gs.map List.flatten
  | .junk ls => ls

def setFileOf (segs : List SSeg) : List Txt := segs.flatMap SSeg.lines

/-- every SET segment is a statement as `wtset` writes it (non-negative ids, the tokens of its items in some grouping
into non-empty lines); every other line is neither a SET header nor `BEGIN BULK` -/
def SetFileOK : List SSeg → Prop
  | [] => True
  | .set setid J T1 Gs :: r =>
      0 ≤ setid ∧ J ≠ [] ∧ (∀ x ∈ J, x.NonNeg) ∧ (∀ x ∈ Gs, x ≠ []) ∧ T1 ++ Gs.flatten = setBody J ∧ SetFileOK r
  | .junk ls :: r =>
      (∀ l ∈ ls, startsWith (txt "begin bulk") (lower (skipSp l)) = false ∧ setHead l = none) ∧ SetFileOK r

/-- the dictionary `rdsets` builds: statement by statement (`dict` assignment: a repeated id is overwritten) -/
def setsOf (d : List (Val × List Int)) : List SSeg → List (Val × List Int)
  | [] => d
  | .set setid J _ _ :: r => setsOf (dictPut d (Val.int setid) (expand J)) r
  | .junk _ :: r => setsOf d r

theorem rdSetsAux_junks (ls : List Txt)
    (h : ∀ l ∈ ls, startsWith (txt "begin bulk") (lower (skipSp l)) = false ∧ setHead l = none) :
    ∀ (fuel : Nat) (rest : List Txt) (d : List (Val × List Int)), ls.length ≤ fuel →
      rdSetsAux fuel (ls ++ rest) d = rdSetsAux (fuel - ls.length) rest d := by
  induction ls with
  | nil => intro fuel rest d _; simp
  | cons l r ih =>
      intro fuel rest d hf
      obtain ⟨n, rfl⟩ : ∃ n, fuel = n + 1 := ⟨fuel - 1, by simp at hf; omega⟩
      rw [List.cons_append, rdSetsAux_junk n l _ d (h l (by simp)).1 (h l (by simp)).2,
        ih (fun x hx => h x (by simp [hx])) n rest d (by simp at hf; omega)]
      congr 1
      simp

theorem rdSetsAux_segs : ∀ (segs : List SSeg), SetFileOK segs → ∀ (fuel : Nat) (d : List (Val × List Int)),
    (setFileOf segs).length < fuel → rdSetsAux fuel (setFileOf segs) d = some (setsOf d segs) := by
  intro segs
  induction segs with
  | nil => intro _ fuel d _; exact rdSetsAux_nil fuel d
  | cons s r ih =>
      intro hok fuel d hf
      cases s with
      | junk ls =>
          obtain ⟨hj, hr⟩ := hok
          have e : setFileOf (SSeg.junk ls :: r) = ls ++ setFileOf r := by simp [setFileOf, SSeg.lines]
          rw [e] at hf ⊢
          simp only [List.length_append] at hf
          rw [rdSetsAux_junks ls hj fuel _ d (by omega)]
          exact ih hr _ d (by omega)
      | set setid J T1 Gs =>
          obtain ⟨hs, hJ, hn, hGs, hfl, hr⟩ := hok
          have e : setFileOf (SSeg.set setid J T1 Gs :: r) =
              ((txt "SET " ++ dec setid ++ txt " = ") :: T1).flatten :: (Gs.map List.flatten ++ setFileOf r) := by
            simp [setFileOf, SSeg.lines]
          rw [e] at hf ⊢
          obtain ⟨n, rfl⟩ : ∃ n, fuel = n + 1 := ⟨fuel - 1, by simp at hf; omega⟩
          rw [rdSetsAux_set n setid hs J hJ hn T1 Gs hGs hfl]
          exact ih hr n _ (by simp at hf; omega)

theorem rdSets_segs (segs : List SSeg) (h : SetFileOK segs) : rdSets (setFileOf segs) = some (setsOf [] segs) :=
  rdSetsAux_segs segs h _ [] (Nat.lt_succ_self _)

/-- the lines of `wtset` are a SET segment: header token first, the item tokens of the compressed ids grouped into
non-empty lines (tokens not longer than `max_length`) -/
theorem setLines_segment (setid : Int) (ids : List Int) (maxLen : Nat) (hne : ids ≠ [])
    (h : ∀ t ∈ setTokens setid ids, t.length ≤ maxLen) :
    ∃ T1 Gs, setLines setid ids maxLen = (SSeg.set setid (compress ids) T1 Gs).lines ∧ (∀ x ∈ Gs, x ≠ []) ∧
      T1 ++ Gs.flatten = setBody (compress ids) := by
  have hJ := compress_ne_nil ids hne
  have hbody : setBody (compress ids) ≠ [] := by
    intro e; have := congrArg List.length e; rw [setBody_length] at this; simp at this; exact hJ this
  unfold setLines wrapLines wrapGroups
  rw [presplit_id maxLen _ h]
  have hlen : ¬ (setTokens setid ids).length < 2 := by
    simp only [setTokens, List.length_cons]
    cases hq : setBody (compress ids) with
    | nil => exact absurd hq hbody
    | cons a b => simp
  simp only [hlen, if_false]
  have hflat := wrapGo_flatten maxLen (setTokens setid ids) [] 0
  have hnon := wrapGo_nonempty maxLen (setTokens setid ids) h [] 0 (by intro _; exact ⟨rfl, by simp [setTokens]⟩)
  rw [List.nil_append] at hflat
  cases hG : wrapGo maxLen [] 0 (setTokens setid ids) with
  | nil => rw [hG] at hflat; simp [setTokens] at hflat
  | cons g1 Gs =>
      rw [hG] at hflat hnon
      have hg1 : g1 ≠ [] := hnon g1 (by simp)
      cases g1 with
      | nil => exact absurd rfl hg1
      | cons t0 T1 =>
          simp only [setTokens, List.flatten_cons, List.cons_append] at hflat
          injection hflat with h0 hrest
          subst h0
          exact ⟨T1, Gs, by simp [SSeg.lines], fun x hx => hnon x (by simp [hx]), hrest⟩

end PyYetiVerif.Bulk
