import PyYetiVerif.Lemmas.NasFloatRat
/-! C12: the small-magnitude mixed branches of `format_float8/16` (`smallPos`, `smallNeg`): the
result is the scientific field or the fixed-notation field `[-].000ddd`; the final `strip(" 0")`
of the 8-wide formatter leaves a scientific field with a one-digit non-zero exponent alone. -/
set_option linter.unusedSimpArgs false
set_option linter.unusedVariables false
namespace PyYetiVerif.NasFloat
open PyYetiVerif.PyFloat PyYetiVerif.Generated.NasFloat

theorem stripChars_swap (s : Str) : stripChars ['0', ' '] s = stripChars [' ', '0'] s := by
  have : (fun c : Char => ['0', ' '].contains c) = (fun c : Char => [' ', '0'].contains c) := by
    funext c
    simp [Bool.or_comm]
  unfold stripChars
  rw [this]

theorem lstripBy_of_head_neg (p : Char → Bool) (s : Str) (h : ∀ c ∈ s.head?, p c = false) :
    lstripBy p s = s := by
  cases s with
  | nil => rfl
  | cons a t => exact lstripBy_cons_neg p a (h a (by simp)) t

theorem rstripBy_of_last_neg (p : Char → Bool) (s : Str) (h : ∀ c ∈ s.getLast?, p c = false) :
    rstripBy p s = s := by
  rcases List.eq_nil_or_concat s with rfl | ⟨w, g, rfl⟩
  · rfl
  · simp only [List.concat_eq_append] at h ⊢
    exact rstripBy_snoc_keep p w g (h g (by simp))

/-- stripping is idempotent -/
theorem stripBy_idem (p : Char → Bool) (s : Str) : stripBy p (stripBy p s) = stripBy p s := by
  unfold stripBy
  obtain ⟨z, hz, hzall, hlast⟩ := rstripBy_split p (lstripBy p s)
  have hhead : ∀ c ∈ (rstripBy p (lstripBy p s)).head?, p c = false := by
    intro c hc
    -- the head of the right-stripped string is the head of the left-stripped one
    have hl : ∀ c ∈ (lstripBy p s).head?, p c = false := by
      intro c hc
      unfold lstripBy at hc
      have : ∀ w : Str, ∀ c ∈ (w.dropWhile p).head?, p c = false := by
        intro w
        induction w with
        | nil => simp
        | cons a w ih =>
          by_cases ha : p a = true
          · simpa [List.dropWhile, ha] using ih
          · simp [List.dropWhile, ha]
      exact this s c hc
    cases hr : rstripBy p (lstripBy p s) with
    | nil => rw [hr] at hc; simp at hc
    | cons a t =>
      rw [hr] at hc hz
      simp at hc; subst hc
      apply hl
      rw [hz]; simp
  rw [lstripBy_of_head_neg p _ hhead]
  exact rstripBy_of_last_neg p _ hlast

/-- `strip` of a left-padded string whose own ends are not strippable -/
theorem stripBy_pad_ends (p : Char → Bool) (sp : Char) (hsp : p sp = true) (n : Nat) (t : Str)
    (hh : ∀ c ∈ t.head?, p c = false) (hl : ∀ c ∈ t.getLast?, p c = false) :
    stripBy p (List.replicate n sp ++ t) = t := by
  unfold stripBy
  rw [lstripBy_replicate_append _ _ hsp, lstripBy_of_head_neg p t hh, rstripBy_of_last_neg p t hl]


/-- exponent printed by `%.qe` for `10^-K1 ≤ |x| < 10^-K2` -/
theorem eParts_exp_range (q K1 K2 : Nat) (x : Dbl) (hn : 0 < x.num) (hd : 0 < x.den)
    (hlo : x.den ≤ 10 ^ K1 * x.num) (hhi : x.num * 10 ^ K2 < x.den) :
    -(K1 : Int) ≤ (eParts q x).2 ∧ (eParts q x).2 ≤ -(K2 : Int) := by
  obtain ⟨-, -, -, e0, h1, h2, he⟩ := eParts_spec q x hn hd
  have hdq : (0 : ℚ) < x.den := by exact_mod_cast hd
  have h10 : (1 : ℚ) < 10 := by norm_num
  have hX1 : (x.num : ℚ) / x.den < (10 : ℚ) ^ (-(K2 : Int)) := by
    rw [zpow_neg, zpow_natCast, div_lt_iff₀ hdq, lt_inv_mul_iff₀ (by positivity)]
    have : ((x.num * 10 ^ K2 : ℕ) : ℚ) < ((x.den : ℕ) : ℚ) := by exact_mod_cast hhi
    push_cast at this; linarith
  have hX2 : (10 : ℚ) ^ (-(K1 : Int)) ≤ (x.num : ℚ) / x.den := by
    rw [zpow_neg, zpow_natCast, le_div_iff₀ hdq, inv_mul_le_iff₀ (by positivity)]; exact_mod_cast hlo
  have ha : e0 < -(K2 : Int) := (zpow_lt_zpow_iff_right₀ h10).1 (lt_of_le_of_lt h1 hX1)
  have hb : -(K1 : Int) < e0 + 1 := (zpow_lt_zpow_iff_right₀ h10).1 (lt_of_le_of_lt hX2 h2)
  omega

/-- the scientific field with its structure exposed -/
theorem sciCore_struct (W : Nat) (c : Sci) (dm : Bool) (hc : SciOK W c (if dm then 1 else 0))
    (x : Dbl) (hn : 0 < x.num) (hd : 0 < x.den)
    (hlo : x.den ≤ 10 ^ 999 * x.num) (hhi : x.num < 10 ^ 999 * x.den) :
    ∃ (P N3 : Nat), 1 ≤ P ∧ 10 ^ P ≤ N3 ∧ N3 ≤ 10 ^ (P + 1) ∧
      (sciFld x.neg dm x.absLtOne P N3 (eParts c.ePrec x).2).wf = true ∧
      (sciFld x.neg dm x.absLtOne P N3 (eParts c.ePrec x).2).text.length ≤ W ∧
      sciCore W c (if dm then ['D'] else []) x =
        rjust W (sciFld x.neg dm x.absLtOne P N3 (eParts c.ePrec x).2).text := by
  obtain ⟨hq1, hq15, hrows⟩ := hc
  obtain ⟨hb1, hb2, _, _⟩ := eParts_exp_bounds c.ePrec 999 x hn hd hlo hhi
  have hLmem := natDigits_len_le3 (eParts c.ePrec x).2.natAbs (by omega)
  obtain ⟨hP1, hP2, hW⟩ := hrows x.neg _ hLmem
  obtain ⟨N3, _, _, h3, h4, hshape⟩ := sciCore_shape W c dm x hn hd hq1 hq15 _ rfl hP1 (by omega)
  refine ⟨_, N3, hP1, h3, h4, sciFld_wf _ _ _ _ _ _ (by omega), ?_, hshape⟩
  have := sciFld_length x.neg dm x.absLtOne _ N3 (eParts c.ePrec x).2 hP1 h4
  omega


/-- the final `strip(" 0")` of `format_float8` leaves a scientific field alone when its exponent
is a single non-zero digit -/
theorem finish_sci (W : Nat) (neg dm eneg : Bool) (P N3 : Nat) (e : Int) (hI : 10 ^ P ≤ N3)
    (he1 : 1 ≤ e.natAbs) (he9 : e.natAbs ≤ 9) :
    finish W (rjust W (sciFld neg dm eneg P N3 e).text) = rjust W (sciFld neg dm eneg P N3 e).text := by
  have hI3 : 1 ≤ N3 / 10 ^ P := (Nat.le_div_iff_mul_le (by positivity)).2 (by simpa using hI)
  obtain ⟨c, u, hcu, hc0, hcd⟩ := natDigits_head_ne_zero (N3 / 10 ^ P) hI3
  have hed : natDigits e.natAbs = [digitChar e.natAbs] := natDigits_lt_ten _ (by omega)
  have hdl : isStrip (digitChar e.natAbs) = false := by
    have key : ∀ d, 1 ≤ d → d ≤ 9 → isStrip (digitChar d) = false := by decide
    exact key _ he1 he9
  have hhead : ∀ x ∈ (sciFld neg dm eneg P N3 e).text.head?, isStrip x = false := by
    intro x hx
    cases neg with
    | true =>
      simp [sciFld, Fld.text, Fld.mant] at hx
      rw [← hx]; decide
    | false =>
      simp [sciFld, Fld.text, Fld.mant, hcu] at hx
      rw [← hx]
      exact isStrip_digit c hcd hc0
  have hlast : ∀ x ∈ (sciFld neg dm eneg P N3 e).text.getLast?, isStrip x = false := by
    intro x hx
    have : (sciFld neg dm eneg P N3 e).text.getLast? = some (digitChar e.natAbs) := by
      simp [sciFld, Fld.text, Fld.exText, FExp.text, hed, List.getLast?_append]
    rw [this] at hx
    simp at hx; subst hx; exact hdl
  unfold finish
  congr 1
  rw [rjust]
  exact stripBy_pad_ends isStrip ' ' (by decide) _ _ hhead hlast


theorem fixedFld_text_dot (p N : Nat) (h : (fixedFld false true p N).text ≠ ['.']) : 0 < N := by
  by_contra hcon
  have hN : N = 0 := by omega
  subst hN
  apply h
  have hz : fracDigits p 0 = List.replicate p '0' := fracDigits_of_dvd p 0 (dvd_zero _)
  have hr : rstripBy isStrip (List.replicate p '0') = [] := by
    have := rstripBy_append_replicate_length isStrip '0' (by decide) p []
    simpa using this
  simp [fixedFld_text, ipKept, hz, hr]

/-- **the small-magnitude mixed branch of the positive chain** (`value < 0.001`): the result is
always a well-formed field right-justified in `W` characters — either the scientific field or,
when it is as wide at most and reads back as the same double, the fixed-notation field
`.000ddd`.  (`h8`: where the final `strip(" 0")` of `format_float8` applies, the exponent is a
single non-zero digit.) -/
theorem smallPos_good (W p : Nat) (c : Sci) (hc : SciOK W c 0) (hp : 1 ≤ p) (x : Dbl)
    (hneg : x.neg = false) (hn : 0 < x.num) (hd : 0 < x.den)
    (hlo : x.den ≤ 10 ^ 999 * x.num) (hhi : x.num < 10 ^ 999 * x.den)
    (h8 : W = 8 → x.den ≤ 10 ^ 9 * x.num ∧ x.num * 10 ^ 1 < x.den) :
    ∃ f : Fld, f.wf = true ∧ f.text.length ≤ W ∧ smallPos W p c x = rjust W f.text ∧
      (sciCore W c [] x = rjust W f.text ∨
        f = fixedFld false true p (rheDiv (x.num * 10 ^ p) x.den)) := by
  obtain ⟨P, N3, hP1, h3, h4, hwf, hlen, hshape⟩ := sciCore_struct W c false hc x hn hd hlo hhi
  simp only [Bool.false_eq_true, if_false] at hshape
  have hz : x.isZero = false := by
    have : x.num ≠ 0 := by omega
    simp [Dbl.isZero, this]
  have hS : formatScientific W c x = rjust W (sciFld x.neg false x.absLtOne P N3 (eParts c.ePrec x).2).text := by
    simp [formatScientific, hz, hshape]
  have hp0 : p ≠ 0 := by omega
  have hF2 : stripChars ['0', ' '] (rjust W (fmtF p x)) =
      (fixedFld false true p (rheDiv (x.num * 10 ^ p) x.den)).text := by
    rw [stripChars_swap, fmtF_shape p hp0, hneg, rjust, fixedFld_text]
    have := strip_fixed false (rheDiv (x.num * 10 ^ p) x.den / 10 ^ p)
      (fracDigits p (rheDiv (x.num * 10 ^ p) x.den)) (W - ((if false = true then ['-'] else []) ++
        natDigits (rheDiv (x.num * 10 ^ p) x.den / 10 ^ p) ++
          '.' :: fracDigits p (rheDiv (x.num * 10 ^ p) x.den)).length)
    simpa using this
  generalize hT : (sciFld x.neg false x.absLtOne P N3 (eParts c.ePrec x).2).text = T at hS hlen hshape
  generalize hG : (fixedFld false true p (rheDiv (x.num * 10 ^ p) x.den)).text = G at hF2
  have hidem : stripChars [' ', '0'] G = G := by
    rw [← hF2, stripChars_swap]
    exact stripBy_idem _ _
  have hSlen : (rjust W T).length = W := rjust_length_of_le _ _ hlen
  unfold smallPos
  simp only [hS, hF2]
  by_cases hdot : (G == ['.']) = true
  · simp only [hdot, if_true]
    exact ⟨_, hwf, by rw [hT]; exact hlen, by rw [hT], Or.inl (by rw [hT]; exact hshape)⟩
  · simp only [hdot, Bool.false_eq_true, if_false]
    by_cases hcond : (decide (G.length ≤ W) && floatEq (replace ['-'] ['e', '-'] (rjust W T)) G) = true
    · simp only [hcond, if_true, hidem]
      have hGlen : G.length ≤ W := by
        simp only [Bool.and_eq_true, decide_eq_true_eq] at hcond; exact hcond.1
      have hGne : G ≠ ['.'] := by simpa using hdot
      have hN := fixedFld_text_dot p _ (by rw [hG]; exact hGne)
      refine ⟨_, fixedFld_wf false true p _ hN, by rw [hG]; exact hGlen, ?_, Or.inr rfl⟩
      rw [hG]
      split_ifs
      · unfold finish; rw [hidem]
      · rfl
    · simp only [hcond, Bool.false_eq_true, if_false]
      refine ⟨_, hwf, by rw [hT]; exact hlen, ?_, Or.inl (by rw [hT]; exact hshape)⟩
      rw [hT]
      split_ifs with hW8
      · have hW : W = 8 := by simpa using hW8
        obtain ⟨hr1, hr2⟩ := h8 hW
        obtain ⟨he1, he2⟩ := eParts_exp_range c.ePrec 9 1 x hn hd hr1 hr2
        rw [← hT]
        exact finish_sci W _ _ _ P N3 _ h3 (by omega) (by omega)
      · exact rjust_of_ge W _ (by rw [hSlen])


theorem fixedFld_last (neg drop : Bool) (p N : Nat) :
    ∀ c ∈ (fixedFld neg drop p N).text.getLast?, isStrip c = false := by
  intro c hc
  obtain ⟨z, hz, hzall, hlast⟩ := rstripBy_split isStrip (fracDigits p N)
  rw [fixedFld_text] at hc
  generalize rstripBy isStrip (fracDigits p N) = fp' at hc hlast
  rcases List.eq_nil_or_concat fp' with rfl | ⟨w, g, rfl⟩
  · have : ((if neg = true then ['-'] else []) ++ (ipKept drop (N / 10 ^ p) ++ ['.'])).getLast? = some '.' := by
      rw [← List.append_assoc, List.getLast?_append]; simp
    rw [this] at hc
    simp at hc; subst hc; decide
  · simp only [List.concat_eq_append] at hc hlast
    have : ((if neg = true then ['-'] else []) ++ (ipKept drop (N / 10 ^ p) ++ '.' :: (w ++ [g]))).getLast? = some g := by
      have e : (if neg = true then ['-'] else []) ++ (ipKept drop (N / 10 ^ p) ++ '.' :: (w ++ [g])) =
          ((if neg = true then ['-'] else []) ++ (ipKept drop (N / 10 ^ p) ++ '.' :: w)) ++ [g] := by simp
      rw [e, List.getLast?_append]; simp
    rw [this] at hc
    simp at hc; subst hc
    exact hlast g (by simp)

/-- **the small-magnitude mixed branch of the negative chain** (`value > -0.01`).  [partial: the
hypothesis `hN` — `x` does not round to zero at the branch's precision — is what makes the
fixed-notation alternative `-.000ddd` a well-formed field; in the code the comparison
`float(field1) == float(field2)` rejects `-0.`, which is not modelled here.] -/
theorem smallNeg_good_partial (W p : Nat) (c : Sci) (hc : SciOK W c 0) (hp : 1 ≤ p) (x : Dbl)
    (hneg : x.neg = true) (hn : 0 < x.num) (hd : 0 < x.den)
    (hlo : x.den ≤ 10 ^ 999 * x.num) (hhi : x.num < 10 ^ 999 * x.den)
    (hN : x.den < 2 * (x.num * 10 ^ p))
    (h8 : W = 8 → x.den ≤ 10 ^ 9 * x.num ∧ x.num * 10 ^ 1 < x.den) :
    ∃ f : Fld, f.wf = true ∧ f.text.length ≤ W ∧ smallNeg W p c x = rjust W f.text ∧
      (sciCore W c [] x = rjust W f.text ∨
        f = fixedFld true true p (rheDiv (x.num * 10 ^ p) x.den)) := by
  obtain ⟨P, N3, hP1, h3, h4, hwf, hlen, hshape⟩ := sciCore_struct W c false hc x hn hd hlo hhi
  simp only [Bool.false_eq_true, if_false] at hshape
  have hz : x.isZero = false := by
    have : x.num ≠ 0 := by omega
    simp [Dbl.isZero, this]
  have hS : formatScientific W c x = rjust W (sciFld x.neg false x.absLtOne P N3 (eParts c.ePrec x).2).text := by
    simp [formatScientific, hz, hshape]
  have hp0 : p ≠ 0 := by omega
  have hNpos : 0 < rheDiv (x.num * 10 ^ p) x.den := by
    by_contra hcon
    have h0 : rheDiv (x.num * 10 ^ p) x.den = 0 := by omega
    have := (rheDiv_err (x.num * 10 ^ p) x.den hd).2
    rw [h0] at this
    omega
  have hF2 : stripChars ['0', ' '] (rjust W (fmtF p x)) =
      (fixedFld true false p (rheDiv (x.num * 10 ^ p) x.den)).text := by
    rw [stripChars_swap, fmtF_shape p hp0, hneg, rjust, fixedFld_text]
    have := strip_fixed true (rheDiv (x.num * 10 ^ p) x.den / 10 ^ p)
      (fracDigits p (rheDiv (x.num * 10 ^ p) x.den)) (W - ((if true = true then ['-'] else []) ++
        natDigits (rheDiv (x.num * 10 ^ p) x.den / 10 ^ p) ++
          '.' :: fracDigits p (rheDiv (x.num * 10 ^ p) x.den)).length)
    simpa using this
  -- the alternative field: rstrip changes nothing, replace drops the zero integer part
  have hG' : replace ['-', '0', '.'] ['-', '.'] (rstripChars [' ', '0']
      (fixedFld true false p (rheDiv (x.num * 10 ^ p) x.den)).text) =
      (fixedFld true true p (rheDiv (x.num * 10 ^ p) x.den)).text := by
    have h1 : rstripChars [' ', '0'] (fixedFld true false p (rheDiv (x.num * 10 ^ p) x.den)).text =
        (fixedFld true false p (rheDiv (x.num * 10 ^ p) x.den)).text :=
      rstripBy_of_last_neg isStrip _ (fixedFld_last true false p _)
    rw [h1, fixedFld_text, fixedFld_text]
    have := replace_dash_fixed 0 (rheDiv (x.num * 10 ^ p) x.den / 10 ^ p)
      (rstripBy isStrip (fracDigits p (rheDiv (x.num * 10 ^ p) x.den))) (rstrip_frac_digits p _)
    simp only [List.replicate_zero, List.nil_append, dashZeroDot, dashDot] at this
    simp only [if_true, List.singleton_append, ipKept, Bool.false_and, Bool.false_eq_true, if_false]
    simpa [ipKept] using this
  have hGlen : (fixedFld true true p (rheDiv (x.num * 10 ^ p) x.den)).text.length ≤
      (fixedFld true false p (rheDiv (x.num * 10 ^ p) x.den)).text.length := by
    rw [← hG']
    refine le_trans (replace_length_le _) ?_
    exact rstripBy_length_le _ _
  have hG'wf := fixedFld_wf true true p _ hNpos
  have hG'head : ∀ c ∈ (fixedFld true true p (rheDiv (x.num * 10 ^ p) x.den)).text.head?, isStrip c = false := by
    intro c hc
    simp [fixedFld_text] at hc
    rw [← hc]; decide
  have hG'last := fixedFld_last true true p (rheDiv (x.num * 10 ^ p) x.den)
  generalize hT : (sciFld x.neg false x.absLtOne P N3 (eParts c.ePrec x).2).text = T at hS hlen hshape
  generalize hGf : fixedFld true true p (rheDiv (x.num * 10 ^ p) x.den) = Gf at hG' hGlen hG'wf hG'head hG'last
  generalize hG : (fixedFld true false p (rheDiv (x.num * 10 ^ p) x.den)).text = G at hF2 hG' hGlen
  have hSlen : (rjust W T).length = W := rjust_length_of_le _ _ hlen
  unfold smallNeg
  simp only [hS, hF2]
  by_cases hcond : (decide (G.length ≤ W) &&
      floatEq ('-' :: replace ['-'] ['e', '-'] (stripChars [' ', '0', '-'] (rjust W T))) G) = true
  · simp only [hcond, if_true, hG']
    have hl : G.length ≤ W := by
      simp only [Bool.and_eq_true, decide_eq_true_eq] at hcond; exact hcond.1
    refine ⟨Gf, hG'wf, le_trans hGlen hl, ?_, Or.inr rfl⟩
    split_ifs
    · have e := stripBy_pad_ends isStrip ' ' (by decide) 0 _ hG'head hG'last
      rw [List.replicate_zero, List.nil_append] at e
      show rjust W (stripBy isStrip Gf.text) = rjust W Gf.text
      rw [e]
    · rfl
  · simp only [hcond, Bool.false_eq_true, if_false]
    refine ⟨_, hwf, by rw [hT]; exact hlen, ?_, Or.inl (by rw [hT]; exact hshape)⟩
    rw [hT]
    split_ifs with hW8
    · have hW : W = 8 := by simpa using hW8
      obtain ⟨hr1, hr2⟩ := h8 hW
      obtain ⟨he1, he2⟩ := eParts_exp_range c.ePrec 9 1 x hn hd hr1 hr2
      rw [← hT]
      exact finish_sci W _ _ _ P N3 _ h3 (by omega) (by omega)
    · exact rjust_of_ge W _ (by rw [hSlen])

/-! ### the negative mixed branch in full: `float(field1) == float("-0.")` is false -/

def is3 (c : Char) : Bool := [' ', '0', '-'].contains c

/-- `field.strip(" 0-")` of a right-justified negative scientific field whose exponent does not
end in `0`: the sign, the padding — and nothing else — go -/
theorem strip3_sci (W P N3 : Nat) (eneg : Bool) (e : Int) (hI : 10 ^ P ≤ N3) (he0 : e.natAbs % 10 ≠ 0) :
    stripChars [' ', '0', '-'] (rjust W (sciFld true false eneg P N3 e).text) =
      (natDigits (N3 / 10 ^ P) ++ '.' :: rstripBy is0 (fracDigits P N3)) ++
        (if eneg then '-' else '+') :: natDigits e.natAbs := by
  have hstrip : ∀ s, stripChars [' ', '0', '-'] s = rstripBy is3 (lstripBy is3 s) := fun _ => rfl
  have hI3 : 1 ≤ N3 / 10 ^ P := (Nat.le_div_iff_mul_le (by positivity)).2 (by simpa using hI)
  obtain ⟨c, u, hcu, hc0, hcd⟩ := natDigits_head_ne_zero (N3 / 10 ^ P) hI3
  have hc3 : is3 c = false := by
    have h1 : c ≠ ' ' := isDigit_ne c ' ' hcd (by decide)
    have h2 : c ≠ '-' := isDigit_ne c '-' hcd (by decide)
    simp [is3, h1, hc0, h2]
  obtain ⟨w, hw⟩ := natDigits_last_digit e.natAbs
  have hlast3 : is3 (digitChar (e.natAbs % 10)) = false := by
    have key : ∀ d, d < 10 → d ≠ 0 → is3 (digitChar d) = false := by decide
    exact key _ (Nat.mod_lt _ (by norm_num)) he0
  have htext : (sciFld true false eneg P N3 e).text =
      '-' :: ((natDigits (N3 / 10 ^ P) ++ '.' :: rstripBy is0 (fracDigits P N3)) ++
        (if eneg then '-' else '+') :: natDigits e.natAbs) := by
    cases eneg <;> simp [sciFld, Fld.text, Fld.mant, Fld.exText, FExp.text]
  rw [hstrip, htext, rjust, lstripBy_replicate_append _ _ (by decide : is3 ' ' = true),
    lstripBy_cons_pos _ _ (by decide : is3 '-' = true), hcu]
  simp only [List.cons_append]
  rw [lstripBy_cons_neg _ _ hc3]
  apply rstripBy_of_last_neg
  intro d hd
  have : (c :: (u ++ '.' :: rstripBy is0 (fracDigits P N3) ++
      (if eneg = true then '-' else '+') :: natDigits e.natAbs)).getLast? =
      some (digitChar (e.natAbs % 10)) := by
    rw [hw]
    have e1 : c :: (u ++ '.' :: rstripBy is0 (fracDigits P N3) ++
        (if eneg = true then '-' else '+') :: (w ++ [digitChar (e.natAbs % 10)])) =
        (c :: (u ++ '.' :: rstripBy is0 (fracDigits P N3) ++
        (if eneg = true then '-' else '+') :: w)) ++ [digitChar (e.natAbs % 10)] := by simp
    rw [e1, List.getLast?_append]; simp
  rw [this] at hd
  simp at hd; rw [← hd]; exact hlast3

/-- the text the negative mixed branch compares with (`"-" + field.strip(" 0-").replace("-",
"e-")`) parses as a decimal in `[10^-|e|, 10^(1-|e|)]` — in particular not as zero -/
theorem field1_nonzero (W P N3 : Nat) (e : Int) (hP : 1 ≤ P) (hI : 10 ^ P ≤ N3) (hI2 : N3 ≤ 10 ^ (P + 1))
    (he0 : e.natAbs % 10 ≠ 0) (he : e.natAbs ≤ 250) :
    ∃ v : Dbl, (parseFloat? ('-' :: replace ['-'] ['e', '-']
        (stripChars [' ', '0', '-'] (rjust W (sciFld true false true P N3 e).text)))).bind ofBits = some v ∧
      0 < v.num := by
  rw [strip3_sci W P N3 true e hI he0]
  simp only [if_true]
  have hfpd := rstrip0_frac_digits P N3
  have hu : ∀ x ∈ natDigits (N3 / 10 ^ P) ++ '.' :: rstripBy is0 (fracDigits P N3), x ≠ '-' := by
    intro x hx
    simp only [List.mem_append, List.mem_cons] at hx
    rcases hx with h | rfl | h
    · exact isDigit_ne x '-' (natDigits_all_digit _ x h) (by decide)
    · decide
    · exact isDigit_ne x '-' (hfpd x h) (by decide)
  have hv : ∀ x ∈ natDigits e.natAbs, x ≠ '-' :=
    fun x hx => isDigit_ne x '-' (natDigits_all_digit _ x hx) (by decide)
  rw [replace_single_once '-' ['e', '-'] _ _ hu hv]
  -- parse
  have hne : natDigits e.natAbs ≠ [] := by
    intro h; have := natDigits_length_pos e.natAbs; rw [h] at this; simp at this
  have hfin := parse_rewritten true (natDigits (N3 / 10 ^ P)) (rstripBy is0 (fracDigits P N3))
    (natDigits e.natAbs) true (natDigits_all_digit _) hfpd (by
      have := natDigits_length_pos (N3 / 10 ^ P)
      cases h : natDigits (N3 / 10 ^ P) with
      | nil => rw [h] at this; simp at this
      | cons a t => simp) hne (natDigits_all_digit _) (by rw [digitsVal_natDigits]; omega)
  have etext : '-' :: ((natDigits (N3 / 10 ^ P) ++ '.' :: rstripBy is0 (fracDigits P N3)) ++ ['e', '-'] ++
      natDigits e.natAbs) = (if true = true then ['-'] else []) ++ (natDigits (N3 / 10 ^ P) ++
        '.' :: (rstripBy is0 (fracDigits P N3) ++ 'e' :: sgCh true :: natDigits e.natAbs)) := by
    simp [sgCh]
  unfold parseFloat?
  rw [etext, hfin]
  simp only [if_true, digitsVal_natDigits]
  -- the decimal
  obtain ⟨hlen, hval⟩ := sciFld_val true false true P N3 e
  simp only [sciFld] at hlen hval
  generalize hM : digitsVal (natDigits (N3 / 10 ^ P) ++ rstripBy is0 (fracDigits P N3)) = M at hval
  generalize hL : (rstripBy is0 (fracDigits P N3)).length = L at hlen hval
  have hsh : ¬ (-(e.natAbs : Int) - (L : Int) ≥ 0) := by
    have : 1 ≤ e.natAbs := by omega
    omega
  simp only [decOf, hsh, if_false, Option.bind_some]
  have hexp : (-(-(e.natAbs : Int) - (L : Int))).toNat = e.natAbs + L := by omega
  rw [hexp]
  -- M ∈ [10^L, 10^(L+1)]
  have hPL : 10 ^ P = 10 ^ (P - L) * 10 ^ L := by rw [← pow_add]; congr 1; omega
  have hM1 : 10 ^ L ≤ M := by
    have : 10 ^ (P - L) * 10 ^ L ≤ M * 10 ^ (P - L) := by rw [← hPL, hval]; exact hI
    have h2 : 10 ^ L * 10 ^ (P - L) ≤ M * 10 ^ (P - L) := by rw [mul_comm]; exact this
    exact Nat.le_of_mul_le_mul_right h2 (by positivity)
  have hM2 : M ≤ 10 ^ (L + 1) := by
    have h1 : M * 10 ^ (P - L) ≤ 10 ^ (P + 1) := by rw [hval]; exact hI2
    have h2 : 10 ^ (P + 1) = 10 ^ (L + 1) * 10 ^ (P - L) := by rw [← pow_add]; congr 1; omega
    rw [h2] at h1
    exact Nat.le_of_mul_le_mul_right h1 (by positivity)
  obtain ⟨v, hv1, _, hv3⟩ := toBits_nonzero true M (10 ^ (e.natAbs + L)) (4 * e.natAbs) (by omega)
    (by positivity)
    (by
      have h16 : 10 ^ e.natAbs ≤ 2 ^ (4 * e.natAbs) := by
        rw [pow_mul]; exact Nat.pow_le_pow_left (by norm_num) _
      calc 10 ^ (e.natAbs + L) = 10 ^ e.natAbs * 10 ^ L := by rw [pow_add]
        _ ≤ 2 ^ (4 * e.natAbs) * M := Nat.mul_le_mul h16 hM1
        _ = M * 2 ^ (4 * e.natAbs) := by ring)
    (by
      have h1 : 10 ^ (L + 1) ≤ 10 * 10 ^ (e.natAbs + L) := by
        have : 10 ^ (L + 1) = 10 * 10 ^ L := by rw [pow_succ]; ring
        rw [this]
        exact Nat.mul_le_mul_left _ (Nat.pow_le_pow_right (by norm_num) (by omega))
      omega)
  exact ⟨v, hv1, hv3⟩


theorem rheDiv_zero_of_half (a b : Nat) (hb : 0 < b) (h : 2 * a ≤ b) : rheDiv a b = 0 := by
  have hq : a / b = 0 := Nat.div_eq_of_lt (by omega)
  have hr : a % b = a := Nat.mod_eq_of_lt (by omega)
  unfold rheDiv
  simp only [hq, hr]
  split_ifs <;> omega

theorem fixedFld_zero_text (p : Nat) : (fixedFld true false p 0).text = ['-', '0', '.'] := by
  have hz : fracDigits p 0 = List.replicate p '0' := fracDigits_of_dvd p 0 (dvd_zero _)
  have hr : rstripBy isStrip (List.replicate p '0') = [] := by
    have := rstripBy_append_replicate_length isStrip '0' (by decide) p []
    simpa using this
  simp [fixedFld_text, ipKept, hz, hr, natDigits_zero]

theorem parse_minus_zero : (parseFloat? ['-', '0', '.']).bind ofBits = some ⟨true, 0, 2 ^ 1074⟩ := by
  decide +kernel

/-- **the small-magnitude mixed branch of the negative chain, in full**: when `x` rounds to zero
at the branch's precision the comparison `float(field1) == float("-0.")` is false (the scientific
field does not read as zero), so the scientific field is returned. -/
theorem smallNeg_good (W p : Nat) (c : Sci) (hc : SciOK W c 0) (hp : 1 ≤ p) (hp2 : p + 1 ≤ 250)
    (hpd : p % 10 ≠ 0 ∧ (p + 1) % 10 ≠ 0) (x : Dbl)
    (hneg : x.neg = true) (hn : 0 < x.num) (hd : 0 < x.den)
    (hlo : x.den ≤ 10 ^ 999 * x.num) (hhi : x.num < 10 ^ 999 * x.den)
    (hlow : x.den ≤ 10 ^ (p + 1) * x.num)
    (h8 : W = 8 → x.den ≤ 10 ^ 9 * x.num ∧ x.num * 10 ^ 1 < x.den) :
    ∃ f : Fld, f.wf = true ∧ f.text.length ≤ W ∧ smallNeg W p c x = rjust W f.text ∧
      (sciCore W c [] x = rjust W f.text ∨
        f = fixedFld true true p (rheDiv (x.num * 10 ^ p) x.den)) := by
  by_cases hN : x.den < 2 * (x.num * 10 ^ p)
  · exact smallNeg_good_partial W p c hc hp x hneg hn hd hlo hhi hN h8
  · have hN0 : rheDiv (x.num * 10 ^ p) x.den = 0 := rheDiv_zero_of_half _ _ hd (by omega)
    have hlt : x.num * 10 ^ p < x.den := by
      have : 0 < x.num * 10 ^ p := by positivity
      omega
    have habs : x.absLtOne = true := by
      have h1 : x.num * 1 ≤ x.num * 10 ^ p := Nat.mul_le_mul_left _ (Nat.one_le_pow _ _ (by norm_num))
      simp [Dbl.absLtOne]; omega
    obtain ⟨P, N3, hP1, h3, h4, hwf, hlen, hshape⟩ := sciCore_struct W c false hc x hn hd hlo hhi
    simp only [Bool.false_eq_true, if_false] at hshape
    obtain ⟨he1, he2⟩ := eParts_exp_range c.ePrec (p + 1) p x hn hd hlow hlt
    have hz : x.isZero = false := by
      have : x.num ≠ 0 := by omega
      simp [Dbl.isZero, this]
    have hS : formatScientific W c x = rjust W (sciFld x.neg false x.absLtOne P N3 (eParts c.ePrec x).2).text := by
      simp [formatScientific, hz, hshape]
    have hp0 : p ≠ 0 := by omega
    have hF2 : stripChars ['0', ' '] (rjust W (fmtF p x)) = ['-', '0', '.'] := by
      rw [stripChars_swap, fmtF_shape p hp0, hneg, rjust, ← fixedFld_zero_text p, fixedFld_text, hN0]
      have := strip_fixed true (0 / 10 ^ p) (fracDigits p 0) (W - ((if true = true then ['-'] else []) ++
          natDigits (0 / 10 ^ p) ++ '.' :: fracDigits p 0).length)
      simpa using this
    -- the comparison fails
    have heabs : (eParts c.ePrec x).2.natAbs = p ∨ (eParts c.ePrec x).2.natAbs = p + 1 := by omega
    have he0 : (eParts c.ePrec x).2.natAbs % 10 ≠ 0 := by
      rcases heabs with h | h <;> rw [h]
      · exact hpd.1
      · exact hpd.2
    obtain ⟨v, hv, hvnum⟩ := field1_nonzero W P N3 (eParts c.ePrec x).2 hP1 h3 h4 he0 (by omega)
    have hfeq : floatEq ('-' :: replace ['-'] ['e', '-'] (stripChars [' ', '0', '-']
        (rjust W (sciFld x.neg false x.absLtOne P N3 (eParts c.ePrec x).2).text))) ['-', '0', '.'] = false := by
      rw [hneg, habs]
      unfold floatEq
      rw [hv, parse_minus_zero]
      simp only [Dbl.eq, Dbl.snum]
      have : v.num ≠ 0 := by omega
      split_ifs <;> simp [this]
    generalize hT : (sciFld x.neg false x.absLtOne P N3 (eParts c.ePrec x).2).text = T at hS hlen hshape hfeq
    have hSlen : (rjust W T).length = W := rjust_length_of_le _ _ hlen
    unfold smallNeg
    simp only [hS, hF2, hfeq, Bool.and_false, Bool.false_eq_true, if_false]
    refine ⟨_, hwf, by rw [hT]; exact hlen, ?_, Or.inl (by rw [hT]; exact hshape)⟩
    rw [hT]
    split_ifs with hW8
    · have hW : W = 8 := by simpa using hW8
      obtain ⟨hr1, hr2⟩ := h8 hW
      obtain ⟨he1', he2'⟩ := eParts_exp_range c.ePrec 9 1 x hn hd hr1 hr2
      rw [← hT]
      exact finish_sci W _ _ _ P N3 _ h3 (by omega) (by omega)
    · exact rjust_of_ge W _ (by rw [hSlen])

end PyYetiVerif.NasFloat
