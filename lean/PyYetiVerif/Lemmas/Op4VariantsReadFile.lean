import PyYetiVerif.Lemmas.Op4VariantsReadCols
import PyYetiVerif.Lemmas.Op4
/-! C11: the binary OUTPUT4 reader model on whole encoded matrices and files: the header record, `_loadop4_binary`
for one matrix, `_skipop4_binary` for one matrix, format detection, the loops of `listload(namelist)` and `dir`. -/
namespace PyYetiVerif.Op4VR
open PyYetiVerif.Op4 (Endian Layout chooseLayout checkName isIdent lowerB)
open PyYetiVerif.Op4V (Variant VStr VMat natBytes intBytes keyBytes realBytes wper strPayload strWords colRec
  trailerRec headerRec encVMat encVFile mtypeV)
open PyYetiVerif.Op2 (V2 kb)
open PyYetiVerif.Op2R (M Err natOfBytes intOfBytes chunks rdI4 rdKeyRaw pyRead seekFwd InKey)
open PyYetiVerif.Generated.Op4Consts

/-- the row count as written in the header: negative marks bigmat -/
def rowsKey (m : VMat) : Int := if m.negRows then -(m.rows : Int) else (m.rows : Int)

/-- the name field of the header record: the name padded with blanks to 8 (16 with 64-bit keys) bytes -/
def nameField (v : Variant) (m : VMat) : List Nat :=
  (m.name ++ List.replicate (nameLen (v2 v) - m.name.length) 32).take (nameLen (v2 v))

/-- a matrix the encoder can write so that it is readable -/
structure VMatOk (v : Variant) (m : VMat) : Prop where
  name_ident : isIdent m.name = true
  name_len : m.name.length ≤ nameLen (v2 v)
  ncols_key : InKey (v2 v) ((m.ncols : Int) + 1)
  rows_key : InKey (v2 v) (rowsKey m)
  form_key : InKey (v2 v) (m.form : Int)
  cols : ∀ p ∈ m.cols, ColOk v m.lay m.ncols p
  big : m.lay = .bigmat → m.cols ≠ [] → rowsKey m < 0 ∨ rowsKey m ≥ (rows4bigmat : Int)
  nonbig : m.lay = .nonbigmat → m.cols ≠ [] → ¬ (rowsKey m < 0 ∨ rowsKey m ≥ (rows4bigmat : Int))

def hdrOf (v : Variant) (m : VMat) : Hdr :=
  ⟨(m.ncols : Int), rowsKey m, (m.form : Int), ((mtypeV v m.cplx : Nat) : Int), nameField v m⟩

/-- the bytes of a matrix behind its header record -/
def bodyBytes (v : Variant) (m : VMat) : List Nat :=
  m.cols.flatMap (fun c => colRec v m.lay c.1 c.2) ++ trailerRec v m.ncols

theorem headerRec_eq (v : Variant) (m : VMat) :
    headerRec v m = Op4V.mark v (4 * keyBytes v + nameLen (v2 v)) ++ (Op4V.key v (m.ncols : Int) ++
      (Op4V.key v (rowsKey m) ++ (Op4V.key v (m.form : Int) ++ (Op4V.key v ((mtypeV v m.cplx : Nat) : Int) ++
        (nameField v m ++ Op4V.mark v (4 * keyBytes v + nameLen (v2 v))))))) := by
  simp only [headerRec, List.append_assoc]; rfl

theorem encVMat_eq (v : Variant) (m : VMat) : encVMat v m = headerRec v m ++ bodyBytes v m := by
  simp only [encVMat, bodyBytes, List.append_assoc]

theorem inKey_ncols (v : Variant) (m : VMat) (h : VMatOk v m) : InKey (v2 v) (m.ncols : Int) := by
  have := h.ncols_key
  unfold InKey at *
  split <;> simp_all <;> omega

theorem inKey_mtype (v : Variant) (cplx : Bool) : InKey (v2 v) ((mtypeV v cplx : Nat) : Int) := by
  apply Op2R.inKey_small <;> (unfold mtypeV; cases cplx <;> cases v.single <;> simp)

theorem length_nameField (v : Variant) (m : VMat) : (nameField v m).length = nameLen (v2 v) := by
  unfold nameField
  rw [List.length_take, List.length_append, List.length_replicate]; omega

theorem isAlnum_lt128 (b : Nat) (h : Op4.isAlnumU b = true) : b < 128 := by
  rw [Op4.isAlnumU_iff] at h; omega

theorem nameField_ascii (v : Variant) (m : VMat) (h : VMatOk v m) : (nameField v m).any (· ≥ 128) = false := by
  rw [List.any_eq_false]
  intro x hx
  have hx' : x ∈ m.name ++ List.replicate (nameLen (v2 v) - m.name.length) 32 := List.mem_of_mem_take hx
  rw [List.mem_append] at hx'
  simp only [ge_iff_le, decide_eq_true_eq, Nat.not_le]
  rcases hx' with h1 | h1
  · exact isAlnum_lt128 x (List.all_eq_true.1 (Op4.isIdent_all m.name h.name_ident) x h1)
  · rw [List.mem_replicate] at h1; omega

/-- `_check_name` on the name field returns the lower-cased name, whatever the counter -/
theorem checkName_nameField (v : Variant) (m : VMat) (h : VMatOk v m) (count : Nat) :
    checkName count (nameField v m) = m.name.map lowerB := by
  have hall := Op4.isIdent_all m.name h.name_ident
  have htake : nameField v m = m.name ++ List.replicate (nameLen (v2 v) - m.name.length) 32 := by
    unfold nameField
    apply List.take_of_length_le
    have := h.name_len
    rw [List.length_append, List.length_replicate]; omega
  have hfil : (nameField v m).filter (fun b => b != 32 && b != 0) = m.name := by
    rw [htake, List.filter_append]
    have h1 : (List.replicate (nameLen (v2 v) - m.name.length) 32).filter (fun b => b != 32 && b != 0) = [] := by
      apply List.filter_eq_nil_iff.2
      intro a ha
      rw [List.mem_replicate] at ha
      simp [ha.2]
    rw [h1, List.append_nil]
    apply List.filter_eq_self.2
    intro a ha
    have := (Op4.isAlnumU_iff a).1 (List.all_eq_true.1 hall a ha)
    have : a ≠ 32 ∧ a ≠ 0 := by omega
    simp [this.1, this.2]
  unfold checkName
  simp only [hfil, Op4.isIdent_lower m.name h.name_ident, if_true]

/-! ### the header record -/

theorem rdHdr_enc (v : Variant) (m : VMat) (h : VMatOk v m) (rest : List Nat) :
    rdHdr (v2 v) (headerRec v m ++ rest) = .ok (some (hdrOf v m, rest)) := by
  have hne : (headerRec v m ++ rest).isEmpty = false := by
    rw [headerRec_eq]
    cases hm : Op4V.mark v (4 * keyBytes v + nameLen (v2 v)) with
    | nil => have := length_mark v (4 * keyBytes v + nameLen (v2 v)); rw [hm] at this; cases this
    | cons a t => rfl
  unfold rdHdr
  rw [hne]
  simp only [Bool.false_eq_true, if_false, headerRec_eq, List.append_assoc, drop4_mark,
    rdKeyRaw_key v _ _ (inKey_ncols v m h), rdKeyRaw_key v _ _ h.rows_key, rdKeyRaw_key v _ _ h.form_key,
    rdKeyRaw_key v _ _ (inKey_mtype v m.cplx), List.take_left' (length_nameField v m),
    List.drop_left' (length_nameField v m), nameField_ascii v m h, hdrOf]

/-! ### one matrix -/

/-- what `sparse=None` resolves to and which column reader `_get_funcs` picks for an encoded matrix: the
layout of its columns; without any column the trailer record (row key 1) is met first -/
def readLayout (m : VMat) : Layout × Bool :=
  if m.cols = [] then (if rowsKey m < 0 then (.bigmat, true) else (.dense, false))
  else (m.lay, m.lay != .dense)

theorem length_colRec_pos (v : Variant) (lay : Layout) (c : Nat) (ss : List VStr) : 1 ≤ (colRec v lay c ss).length := by
  rw [colRec_eq, colHead, List.length_append, List.length_append, length_mark]; omega

theorem length_nextBytes (v : Variant) (lay : Layout) (R : Nat) (C Rr NW : Int) (tail : List Nat)
    (cs : List (Nat × List VStr)) : cs.length + 1 ≤ (nextBytes v lay (termHead v R C Rr NW) tail cs).length := by
  induction cs with
  | nil => simp only [nextBytes, termHead, List.length_append, length_mark, List.length_nil]; omega
  | cons p cs ih =>
    simp only [nextBytes, colHead, List.length_append, length_mark, List.length_cons]; omega

theorem pyRead_trailer (v : Variant) (rest : List Nat) :
    pyRead (((3 * keyBytes v + realBytes v : Nat) : Int) - 3 * ((kb (v2 v) : Nat) : Int) + 4)
        (natBytes v.e (realBytes v) (trailerReal v) ++ (Op4V.mark v (3 * keyBytes v + realBytes v) ++ rest))
      = .ok (natBytes v.e (realBytes v) (trailerReal v) ++ Op4V.mark v (3 * keyBytes v + realBytes v), rest) := by
  have hk : keyBytes v = kb (v2 v) := rfl
  have hrb : realBytes v = 4 ∨ realBytes v = 8 := by unfold realBytes; split <;> simp
  have hn : ((3 * keyBytes v + realBytes v : Nat) : Int) - 3 * ((kb (v2 v) : Nat) : Int) + 4
      = (((natBytes v.e (realBytes v) (trailerReal v) ++ Op4V.mark v (3 * keyBytes v + realBytes v)).length : Nat) : Int) := by
    rw [List.length_append, Op2R.length_natBytes, length_mark, hk]; omega
  rw [hn, ← List.append_assoc]
  apply Op2R.pyRead_len
  rw [List.length_append, Op2R.length_natBytes, length_mark]; omega

theorem rdBody_enc (v : Variant) (cut : Int) (m : VMat) (h : VMatOk v m) (rest : List Nat) :
    rdBody (v2 v) cut (hdrOf v m) (bodyBytes v m ++ rest)
      = .ok ((readLayout m).1, (readLayout m).2, putsOfCols m.cols, rest) := by
  have hR := trailer_len_lt v
  have hC := h.ncols_key
  have h1 : InKey (v2 v) 1 := Op2R.inKey_small _ 1 (by omega) (by omega)
  have hW := inKey_wper v
  have hterm : ¬ ((m.ncols : Int) + 1 - 1 < (m.ncols : Int)) := by omega
  have hbytes : bodyBytes v m ++ rest = nextBytes v m.lay
      (termHead v (3 * keyBytes v + realBytes v) ((m.ncols : Int) + 1) 1 ((wper v : Nat) : Int))
      (natBytes v.e (realBytes v) (trailerReal v) ++ (Op4V.mark v (3 * keyBytes v + realBytes v) ++ rest)) m.cols := by
    rw [nextBytes_eq, bodyBytes, trailerRec_eq]; simp only [List.append_assoc]
  rw [hbytes]
  unfold rdBody
  cases hcols : m.cols with
  | nil =>
    have hge : decide ((m.ncols : Int) + 1 - 1 ≥ (hdrOf v m).cols) = true := by simp [hdrOf]
    simp only [nextBytes, termHead, List.append_assoc, rdRecHead_enc v _ _ _ _ _ hR hC h1 hW, hge]
    simp only [hdrOf]
    have hcl : chooseLayout (rowsKey m) 1 true = readLayout m := by
      unfold chooseLayout readLayout
      simp only [hcols, if_true, gt_iff_lt, Int.zero_lt_one, true_and]
    rw [hcl]
    have hlay : (readLayout m).1 = .dense ∨ (readLayout m).1 = .bigmat := by
      unfold readLayout; simp only [hcols, if_true]; split <;> simp
    rcases hlay with hl | hl <;> rw [hl] <;> simp only
    · rw [rdDense]
      simp only [hterm, if_false, pyRead_trailer v rest, putsOfCols, List.flatMap_nil]
    · rw [rdSparse]
      simp only [hterm, if_false, pyRead_trailer v rest, putsOfCols, List.flatMap_nil]
  | cons p cs =>
    have hp : ColOk v m.lay m.ncols p := h.cols p (by rw [hcols]; exact List.mem_cons_self)
    have hok : ∀ q ∈ p :: cs, ColOk v m.lay m.ncols q := fun q hq => h.cols q (by rw [hcols]; exact hq)
    have hne : m.cols ≠ [] := by rw [hcols]; simp
    have hlt : decide ((p.1 : Int) + 1 - 1 ≥ (hdrOf v m).cols) = false := by
      have := hp.col; simp only [hdrOf, ge_iff_le, decide_eq_false_iff_not]; omega
    have hsub : (p.1 : Int) + 1 - 1 = (p.1 : Int) := by omega
    have hfuel : cs.length + 1 < (colTail v m.lay p.2 ++ nextBytes v m.lay
        (termHead v (3 * keyBytes v + realBytes v) ((m.ncols : Int) + 1) 1 ((wper v : Nat) : Int))
        (natBytes v.e (realBytes v) (trailerReal v) ++ (Op4V.mark v (3 * keyBytes v + realBytes v) ++ rest)) cs).length + 1 := by
      have := length_nextBytes v m.lay (3 * keyBytes v + realBytes v) ((m.ncols : Int) + 1) 1 ((wper v : Nat) : Int)
        (natBytes v.e (realBytes v) (trailerReal v) ++ (Op4V.mark v (3 * keyBytes v + realBytes v) ++ rest)) cs
      rw [List.length_append]; omega
    have hrl : readLayout m = (m.lay, m.lay != .dense) := by unfold readLayout; rw [if_neg hne]
    simp only [nextBytes, colHead, List.append_assoc,
      rdRecHead_enc v _ _ _ _ _ hp.reclen hp.ckey (irowOf_key v m.lay m.ncols p hp) hp.nwkey, hlt]
    simp only [hdrOf, hsub, cfgOf_enc]
    rw [hrl]
    cases hl : m.lay with
    | dense =>
      rw [hl] at hp hok hfuel
      obtain ⟨s, hs⟩ := hp.dense rfl
      have hcl : chooseLayout (rowsKey m) (irowOf .dense p.2) false = (.dense, false) := by
        rw [hs, irowOf_single]
        unfold chooseLayout
        have : (s.1 : Int) + 1 > 0 := by omega
        simp only [this, if_true, Bool.false_eq_true, false_and, if_false]
      rw [hcl]
      simp only
      rw [rdDense_enc v cut m.ncols _ _ _ _ _ hR hC h1 hW hterm cs p _ [] _ hok hfuel]
      simp only [pyRead_trailer v rest, List.nil_append]
      rfl
    | bigmat =>
      rw [hl] at hp hok hfuel
      have hcl : chooseLayout (rowsKey m) (irowOf .bigmat p.2) false = (.bigmat, true) := by
        have hb := h.big hl hne
        unfold chooseLayout irowOf
        simp only [gt_iff_lt, Int.lt_irrefl, if_false, hb, if_true]
      rw [hcl]
      simp only
      have hs := rdSparse_enc v cut true m.ncols (3 * keyBytes v + realBytes v) ((m.ncols : Int) + 1) 1 ((wper v : Nat) : Int)
        (natBytes v.e (realBytes v) (trailerReal v) ++ (Op4V.mark v (3 * keyBytes v + realBytes v) ++ rest)) hR hC h1 hW hterm cs p
        ((recLen v .bigmat p.2 : Nat) : Int) [] _ hok hfuel
      rw [show layOf true = Layout.bigmat from rfl] at hs
      rw [hs]
      simp only [pyRead_trailer v rest, List.nil_append]
      rfl
    | nonbigmat =>
      rw [hl] at hp hok hfuel
      have hcl : chooseLayout (rowsKey m) (irowOf .nonbigmat p.2) false = (.nonbigmat, true) := by
        have hb := h.nonbig hl hne
        unfold chooseLayout irowOf
        simp only [gt_iff_lt, Int.lt_irrefl, if_false, hb]
      rw [hcl]
      simp only
      have hs := rdSparse_enc v cut false m.ncols (3 * keyBytes v + realBytes v) ((m.ncols : Int) + 1) 1 ((wper v : Nat) : Int)
        (natBytes v.e (realBytes v) (trailerReal v) ++ (Op4V.mark v (3 * keyBytes v + realBytes v) ++ rest)) hR hC h1 hW hterm cs p
        ((recLen v .nonbigmat p.2 : Nat) : Int) [] _ hok hfuel
      rw [show layOf false = Layout.nonbigmat from rfl] at hs
      rw [hs]
      simp only [pyRead_trailer v rest, List.nil_append]
      rfl

/-- `_skipop4_binary(cols)` right behind the header record of an encoded matrix ends behind the matrix -/
theorem skipBody_enc (v : Variant) (m : VMat) (h : VMatOk v m) (rest : List Nat) :
    skipCols (v2 v) (m.ncols : Int) ((bodyBytes v m ++ rest).length + 1) 0 (bodyBytes v m ++ rest) = .ok rest := by
  have hlen : m.cols.length + 1 < (bodyBytes v m ++ rest).length + 1 := by
    have : m.cols.length + 1 ≤ (bodyBytes v m).length := by
      unfold bodyBytes
      rw [List.length_append, trailerRec_eq, termHead]
      have : m.cols.length ≤ (m.cols.flatMap (fun c => colRec v m.lay c.1 c.2)).length := by
        generalize m.cols = cs
        induction cs with
        | nil => simp
        | cons p cs ih =>
          have := length_colRec_pos v m.lay p.1 p.2
          simp only [List.flatMap_cons, List.length_append, List.length_cons]; omega
      simp only [List.length_append, length_mark]; omega
    rw [List.length_append]; omega
  have := skipCols_enc v m.lay m.ncols h.ncols_key rest m.cols 0 _ (by omega) h.cols hlen
  unfold bodyBytes
  rw [List.append_assoc]
  unfold bodyBytes at this
  rw [List.append_assoc] at this
  exact this

/-! ### the well-formedness predicates are decidable (used by the non-vacuity examples) -/

instance (v : Variant) (lay : Layout) (s : VStr) : Decidable (StrOk v lay s) :=
  decidable_of_iff ((∀ x ∈ s.2, x < 256 ^ realBytes v) ∧ InKey (v2 v) ((s.1 : Int) + 1) ∧
      InKey (v2 v) (((s.2.length * wper v : Nat) : Int) + 1) ∧
      (lay = .nonbigmat → s.1 + 1 < 65536 ∧
        InKey (v2 v) (((s.1 + 1 : Nat) : Int) + (((s.2.length * wper v : Nat) : Int) + 1) * 65536)))
    ⟨fun ⟨a, b, c, d⟩ => ⟨a, b, c, d⟩, fun h => ⟨h.vals, h.row, h.len, h.is⟩⟩

theorem exists_single_iff {α} (l : List α) : (∃ s, l = [s]) ↔ l.length = 1 := by
  constructor
  · rintro ⟨s, rfl⟩; rfl
  · intro h
    match l, h with
    | [s], _ => exact ⟨s, rfl⟩

instance (v : Variant) (lay : Layout) (ncols : Nat) (p : Nat × List VStr) : Decidable (ColOk v lay ncols p) :=
  decidable_of_iff (p.1 < ncols ∧ InKey (v2 v) ((p.1 : Int) + 1) ∧ InKey (v2 v) ((nwOf v lay p.2 : Nat) : Int) ∧
      recLen v lay p.2 < 2147483648 ∧ (∀ s ∈ p.2, StrOk v lay s) ∧ (lay = .dense → p.2.length = 1))
    ⟨fun ⟨a, b, c, d, e, f⟩ => ⟨a, b, c, d, e, fun h => (exists_single_iff _).2 (f h)⟩,
      fun h => ⟨h.col, h.ckey, h.nwkey, h.reclen, h.strs, fun hl => (exists_single_iff _).1 (h.dense hl)⟩⟩

instance (v : Variant) (m : VMat) : Decidable (VMatOk v m) :=
  decidable_of_iff (isIdent m.name = true ∧ m.name.length ≤ nameLen (v2 v) ∧ InKey (v2 v) ((m.ncols : Int) + 1) ∧
      InKey (v2 v) (rowsKey m) ∧ InKey (v2 v) (m.form : Int) ∧ (∀ p ∈ m.cols, ColOk v m.lay m.ncols p) ∧
      (m.lay = .bigmat → m.cols ≠ [] → rowsKey m < 0 ∨ rowsKey m ≥ (rows4bigmat : Int)) ∧
      (m.lay = .nonbigmat → m.cols ≠ [] → ¬ (rowsKey m < 0 ∨ rowsKey m ≥ (rows4bigmat : Int))))
    ⟨fun ⟨a, b, c, d, e, f, g, h⟩ => ⟨a, b, c, d, e, f, g, h⟩,
      fun h => ⟨h.name_ident, h.name_len, h.ncols_key, h.rows_key, h.form_key, h.cols, h.big, h.nonbig⟩⟩

end PyYetiVerif.Op4VR
