import PyYetiVerif.Lemmas.BulkSetSplit
/-! `wtset` with an ITEM token longer than `max_length` (C13; core Lean only): the first such token is cut, its first
piece of `max_length − 1` characters stands alone on a line that does not end in a comma, so `rdsets` closes the set
there: what is read back is the ids of the items before the cut token followed by what `_rd_set_line` makes of that
piece (or a `ValueError`), and nothing after it is a SET header. -/
namespace PyYetiVerif.Bulk

/-! ### the writer: where the lines break -/

/-- a token longer than `max_length ≥ 3`: first piece `max_length − 1` characters, second piece at least two -/
theorem chunks_cut (m : Nat) (t : Txt) (hm : 3 ≤ m) (ht : m < t.length) :
    ∃ c2 R, chunks (m - 1) t = t.take (m - 1) :: c2 :: R ∧ 2 ≤ c2.length := by
  rw [chunks_eq, if_neg (by omega), chunks_eq]
  split
  · rename_i h
    have hne : (t.drop (m - 1)).isEmpty = false := by
      cases hq : t.drop (m - 1) with
      | nil => have := congrArg List.length hq; simp at this; omega
      | cons a b => rfl
    exact ⟨t.drop (m - 1), [], by simp [hne], by simp only [List.length_drop]; omega⟩
  · rename_i h
    refine ⟨(t.drop (m - 1)).take (m - 1), _, rfl, ?_⟩
    simp only [List.length_take, List.length_drop] at h ⊢
    omega

/-- the greedy loop on whole tokens followed by the two first pieces of a cut token: the first piece is alone on
its line -/
theorem wrapGo_cut (m : Nat) (c1 c2 : Txt) (R : List Txt) (hm : 2 ≤ m) (h1 : c1.length = m - 1) (h2 : 2 ≤ c2.length) :
    ∀ (P : List Txt) (cur : List Txt) (n : Nat), cur ≠ [] → 2 ≤ n → (∀ p ∈ P, 2 ≤ p.length) →
      ∃ G, wrapGo m cur n (P ++ c1 :: c2 :: R) = G ++ [c1] :: wrapGo m [c2] c2.length R ∧ G.flatten = cur ++ P ∧
        ∀ g ∈ G, g ≠ [] := by
  intro P
  induction P with
  | nil =>
      intro cur n hc hn _
      refine ⟨[cur], ?_, by simp, by simpa using hc⟩
      rw [List.nil_append, wrapGo, if_pos (by omega), wrapGo, if_pos (by omega)]
      rfl
  | cons p P ih =>
      intro cur n hc hn hP
      have hp := hP p (by simp)
      have hP' : ∀ q ∈ P, 2 ≤ q.length := fun q hq => hP q (by simp [hq])
      rw [List.cons_append, wrapGo]
      split
      · obtain ⟨G, e, f, g⟩ := ih [p] p.length (by simp) hp hP'
        refine ⟨cur :: G, by rw [e]; rfl, by simp [f], ?_⟩
        intro x hx
        rcases List.mem_cons.mp hx with rfl | hx
        · exact hc
        · exact g x hx
      · obtain ⟨G, e, f, g⟩ := ih (cur ++ [p]) (n + p.length) (by simp) (by omega) hP'
        exact ⟨G, e, by simp [f], g⟩

/-- the lines of `_wrap_text_lines` when the tokens `H :: X` fit and the next token `t` does not: lines made of
`H :: X`, then the first `max_length − 1` characters of `t` alone, then lines whose characters come from the rest
of `t` and the tokens after it -/
theorem wrapLines_cut (m : Nat) (H : Txt) (X : List Txt) (t : Txt) (Y : List Txt) (hm : 3 ≤ m)
    (hH : 2 ≤ H.length ∧ H.length ≤ m) (hX : ∀ x ∈ X, 2 ≤ x.length ∧ x.length ≤ m) (ht : m < t.length) :
    ∃ (T1 : List Txt) (Gs : List (List Txt)) (rest : List Txt),
      wrapLines m (H :: X ++ t :: Y) = (H :: T1).flatten :: (Gs.map List.flatten ++ t.take (m - 1) :: rest) ∧
      T1 ++ Gs.flatten = X ∧ (∀ g ∈ Gs, g ≠ []) ∧ ∀ l ∈ rest, ∀ c ∈ l, c ∈ t ∨ c ∈ Y.flatten := by
  obtain ⟨c2, R, hc, hc2⟩ := chunks_cut m t hm ht
  have hp : presplit m (H :: X ++ t :: Y) = H :: (X ++ t.take (m - 1) :: c2 :: (R ++ presplit m Y)) := by
    have e1 : presplit m (H :: X ++ t :: Y) = presplit m (H :: X) ++ (chunks (m - 1) t ++ presplit m Y) := by
      simp only [presplit, List.cons_append, List.flatMap_cons, List.flatMap_append,
        if_pos (show t.length > m from ht), List.append_assoc]
    rw [e1, presplit_id m (H :: X) (by
      intro x hx
      rcases List.mem_cons.mp hx with rfl | hx
      · exact hH.2
      · exact (hX x hx).2), hc]
    simp
  have h1 : (t.take (m - 1)).length = m - 1 := by simp only [List.length_take]; omega
  obtain ⟨G, e, f, g⟩ := wrapGo_cut m (t.take (m - 1)) c2 (R ++ presplit m Y) (by omega) h1 hc2 X [H] H.length
    (by simp) hH.1 (fun x hx => (hX x hx).1)
  have hl : wrapLines m (H :: X ++ t :: Y) =
      G.map List.flatten ++ t.take (m - 1) :: (wrapGo m [c2] c2.length (R ++ presplit m Y)).map List.flatten := by
    unfold wrapLines wrapGroups
    simp only [hp]
    rw [if_neg (by simp; omega), wrapGo, if_neg (by omega)]
    simp only [List.nil_append, Nat.zero_add]
    rw [e]
    simp
  -- the first group begins with H
  cases G with
  | nil => simp at f
  | cons g1 Gs =>
      have hg1 : g1 ≠ [] := g g1 (by simp)
      cases g1 with
      | nil => exact absurd rfl hg1
      | cons t0 T1 =>
          simp only [List.flatten_cons, List.cons_append, List.nil_append] at f
          injection f with f0 f1
          subst f0
          refine ⟨T1, Gs, (wrapGo m [c2] c2.length (R ++ presplit m Y)).map List.flatten, by rw [hl]; simp, f1, fun x hx => g x (by simp [hx]), ?_⟩
          intro l hlm c hcl
          obtain ⟨gr, hgr, rfl⟩ := List.mem_map.mp hlm
          obtain ⟨tok, htok, hct⟩ := List.mem_flatten.mp hcl
          have hmem : tok ∈ (wrapGo m [c2] c2.length (R ++ presplit m Y)).flatten := List.mem_flatten.mpr ⟨gr, hgr, htok⟩
          rw [wrapGo_flatten] at hmem
          simp only [List.cons_append, List.nil_append, List.mem_cons, List.mem_append] at hmem
          have hchunk : tok ∈ chunks (m - 1) t ∨ tok ∈ presplit m Y := by
            rcases hmem with h | h | h
            · left; rw [hc, h]; simp
            · left; rw [hc]; simp [h]
            · right; exact h
          rcases hchunk with h | h
          · left
            have : c ∈ (chunks (m - 1) t).flatten := List.mem_flatten.mpr ⟨tok, h, hct⟩
            rwa [chunks_flatten] at this
          · right
            have : c ∈ (presplit m Y).flatten := List.mem_flatten.mpr ⟨tok, h, hct⟩
            rwa [presplit_flatten] at this

end PyYetiVerif.Bulk
