import PyYetiVerif.Model.BulkReal
import PyYetiVerif.Lemmas.BulkReal
import PyYetiVerif.Lemmas.NasFloatRat
/-! The written real fields of C13 read back by its reader model: shape of `'{:w.pE}'` / `'{:w.pf}'` (C12's `fmtE`,
`fmtF`), `nas_sscanf` of that shape, and the distance of the value read from the value written (C12's `eParts_spec`,
`rheDiv_rat`). -/
set_option linter.unusedSimpArgs false
namespace PyYetiVerif.Bulk
open PyYetiVerif.PyFloat PyYetiVerif.NasFloat

/-! ### the two character models agree on digits -/

theorem isDigit_bridge (c : Char) (h : PyFloat.isDigit c = true) : c.isDigit = true := by
  unfold PyFloat.isDigit at h
  simp only [Bool.and_eq_true, decide_eq_true_eq] at h
  unfold Char.isDigit
  simp only [Bool.and_eq_true, decide_eq_true_eq]
  have h1 : '0'.val ≤ c.val := h.1
  have h2 : c.val ≤ '9'.val := h.2
  exact ⟨h1, h2⟩

theorem allDig_bridge (s : Txt) (h : ∀ c ∈ s, PyFloat.isDigit c = true) : AllDig s :=
  fun c hc => isDigit_bridge c (h c hc)

theorem digitsVal_bridge (s : Txt) : Bulk.digitsVal s = PyFloat.digitsVal s := by
  unfold Bulk.digitsVal PyFloat.digitsVal
  have : ∀ (a : Nat), s.foldl (fun a c => 10 * a + (c.toNat - '0'.toNat)) a = s.foldl (fun acc c => acc * 10 + (c.toNat - 48)) a := by
    induction s with
    | nil => intro a; rfl
    | cons c r ih =>
        intro a
        simp only [List.foldl_cons]
        rw [show 10 * a + (c.toNat - '0'.toNat) = a * 10 + (c.toNat - 48) by
          have : '0'.toNat = 48 := rfl
          rw [this]; omega]
        exact ih _
  exact this 0

/-! ### what a value is read as -/

/-- the rational a number field stands for (`m · 10^e`) -/
def Val.toRat : Val → Option ℚ
  | .int n => some n
  | .num m e => some ((m : ℚ) * (10 : ℚ) ^ e)
  | _ => none

/-! ### `'{:w.pE}'` -/

theorem map_e_digits (ec : Char) (s : Txt) (h : ∀ c ∈ s, c ≠ 'e') : (s.map fun c => if c = 'e' then ec else c) = s := by
  induction s with
  | nil => rfl
  | cons c r ih => simp [h c (by simp), ih (fun x hx => h x (by simp [hx]))]

theorem pyDigit_ne_e (c : Char) (h : PyFloat.isDigit c = true) : c ≠ 'e' := isDigit_ne c 'e' h (by decide)

/-- the exponent the text of `%.pe` shows -/
def eExp (p : Nat) (x : Dbl) : Int := (eParts p x).2
/-- the `p + 1` significant digits it shows -/
def eDig (p : Nat) (x : Dbl) : Nat := (eParts p x).1

theorem pyE_shape (w p : Nat) (hp : p ≠ 0) (ec : Char) (x : Dbl) :
    pyE w p ec x = blanks (w - (fmtE p x).length) ++
      (sgnT x.neg ++ natDigits (eDig p x / 10 ^ p) ++ '.' :: (fracDigits p (eDig p x) ++
        ec :: esT (decide (eExp p x < 0)) :: expDigits (eExp p x))) := by
  unfold pyE padL
  rw [List.length_map]
  congr 1
  rw [fmtE_shape p hp x]
  unfold eMant
  have hd1 : ∀ c ∈ natDigits ((eParts p x).1 / 10 ^ p), c ≠ 'e' := fun c hc => pyDigit_ne_e c (natDigits_all_digit _ c hc)
  have hd2 : ∀ c ∈ fracDigits p (eParts p x).1, c ≠ 'e' := fun c hc => pyDigit_ne_e c (fracDigits_all_digit _ _ c hc)
  have hd3 : ∀ c ∈ expDigits (eParts p x).2, c ≠ 'e' := fun c hc => pyDigit_ne_e c ((expDigits_spec _).1 c hc)
  simp only [List.map_append, List.map_cons, map_e_digits ec _ hd1, map_e_digits ec _ hd2, map_e_digits ec _ hd3,
    eDig, eExp, sgnT, esT]
  cases x.neg <;> by_cases he : (eParts p x).2 < 0 <;> simp [he]

/-- **`nas_sscanf` of a written `'{:w.pE}'` / `'{:w.pe}'` / `D` field**: it is read as the decimal
`± N · 10^(E − p)` whose digits `N` and exponent `E` the text shows -/
theorem nasScan_pyE (w p : Nat) (hp : p ≠ 0) (ec : Char) (hec : ec = 'e' ∨ ec = 'E' ∨ ec = 'D') (x : Dbl) :
    nasScan (pyE w p ec x) =
      .num (if x.neg then -(eDig p x : Int) else (eDig p x : Int)) (eExp p x - (p : Int)) := by
  rw [pyE_shape w p hp ec x]
  have hip := allDig_bridge _ (natDigits_all_digit (eDig p x / 10 ^ p))
  have hne : natDigits (eDig p x / 10 ^ p) ≠ [] := by
    intro h; have := natDigits_length_pos (eDig p x / 10 ^ p); rw [h] at this; simp at this
  have hfp := allDig_bridge _ (fracDigits_all_digit p (eDig p x))
  obtain ⟨hed0, hedne, hedv⟩ := expDigits_spec (eExp p x)
  have hed := allDig_bridge _ hed0
  have hN : (Bulk.digitsVal (natDigits (eDig p x / 10 ^ p) ++ fracDigits p (eDig p x)) : Int) = (eDig p x : Int) := by
    rw [digitsVal_bridge, digitsVal_int_frac]
  have hE : (if decide (eExp p x < 0) = true then -(Bulk.digitsVal (expDigits (eExp p x)) : Int)
      else (Bulk.digitsVal (expDigits (eExp p x)) : Int)) = eExp p x := by
    rw [digitsVal_bridge, hedv]
    by_cases h : eExp p x < 0
    · simp only [h, decide_true, if_true]; omega
    · simp only [h, decide_false, Bool.false_eq_true, if_false]; omega
  have hlen : ((fracDigits p (eDig p x)).length : Int) = p := by simp
  rcases hec with rfl | rfl | rfl
  · rw [nasScan_sci _ _ _ _ 'e' _ _ hip hne hfp (Or.inl rfl) hed hedne, hN, hE, hlen]
  · rw [nasScan_sci _ _ _ _ 'E' _ _ hip hne hfp (Or.inr rfl) hed hedne, hN, hE, hlen]
  · rw [nasScan_D _ _ _ _ _ _ hip hne hfp hed hedne, hN, hE, hlen]

/-- half a unit of the last written digit of `'%.pe' % x` (`0` for `x = 0`) -/
def eBound (p : Nat) (x : Dbl) : ℚ := if x.num = 0 then 0 else 1 / 2 * (10 : ℚ) ^ (eExp p x - (p : Int))

/-- **accuracy of the value read back from a `'{:w.pE}'` field**: within half a unit of the last of its `p + 1`
significant digits — `½·10^(E−p)`, `E` the printed exponent — of the value written; exactly 0 for 0 -/
theorem pyE_value (p : Nat) (x : Dbl) (hd : 0 < x.den) :
    |((if x.neg then -(eDig p x : Int) else (eDig p x : Int) : Int) : ℚ) * (10 : ℚ) ^ (eExp p x - (p : Int)) - dblRat x| ≤
      eBound p x := by
  unfold eBound dblRat
  by_cases h0 : x.num = 0
  · have : eParts p x = (0, 0) := by simp [eParts, h0]
    simp [h0, eDig, this]
  · have hn : 0 < x.num := Nat.pos_of_ne_zero h0
    obtain ⟨_, _, herr, _⟩ := eParts_spec p x hn hd
    simp only [h0, if_false]
    have h10 : (10 : ℚ) ≠ 0 := by norm_num
    have hpos : (0 : ℚ) < (10 : ℚ) ^ (eExp p x - (p : Int)) := by positivity
    have key : |((eDig p x : ℕ) : ℚ) * (10 : ℚ) ^ (eExp p x - (p : Int)) - (x.num : ℚ) / x.den| ≤
        1 / 2 * (10 : ℚ) ^ (eExp p x - (p : Int)) := by
      have e : ((eDig p x : ℕ) : ℚ) * (10 : ℚ) ^ (eExp p x - (p : Int)) - (x.num : ℚ) / x.den =
          (((eDig p x : ℕ) : ℚ) - (x.num : ℚ) / x.den * (10 : ℚ) ^ ((p : Int) - eExp p x)) * (10 : ℚ) ^ (eExp p x - (p : Int)) := by
        have : (10 : ℚ) ^ ((p : Int) - eExp p x) * (10 : ℚ) ^ (eExp p x - (p : Int)) = 1 := by
          rw [← zpow_add₀ h10]; simp
        rw [sub_mul, mul_assoc, this, mul_one]
      rw [e, abs_mul, abs_of_pos hpos]
      exact mul_le_mul_of_nonneg_right herr (le_of_lt hpos)
    cases hx : x.neg
    · simpa using key
    · simp only [if_true]
      have e : ((-(eDig p x : Int) : Int) : ℚ) * (10 : ℚ) ^ (eExp p x - (p : Int)) - -1 * ((x.num : ℚ) / x.den) =
          -(((eDig p x : ℕ) : ℚ) * (10 : ℚ) ^ (eExp p x - (p : Int)) - (x.num : ℚ) / x.den) := by
        push_cast; ring
      rw [e, abs_neg]; exact key

/-- the field is clean (exactly `w` columns, no `$`, no comma, last character solid) when the text fits the width -/
theorem pyE_clean (w p : Nat) (hp : p ≠ 0) (ec : Char) (hec : ec = 'e' ∨ ec = 'E' ∨ ec = 'D') (x : Dbl)
    (hfit : (fmtE p x).length ≤ w) : CleanField w (pyE w p ec x) := by
  have hlen : (pyE w p ec x).length = w := by
    unfold pyE; rw [padL_length (by rw [List.length_map]; exact hfit)]
  obtain ⟨hed0, hedne, _⟩ := expDigits_spec (eExp p x)
  have hchars : ∀ c ∈ pyE w p ec x, c = ' ' ∨ c = '-' ∨ c = '.' ∨ c = '+' ∨ c = ec ∨ c.isDigit = true := by
    rw [pyE_shape w p hp ec x]
    intro c hc
    simp only [List.mem_append, List.mem_cons] at hc
    rcases hc with hc | (hc | hc) | rfl | hc | rfl | rfl | hc
    · exact Or.inl (mem_blanks hc)
    · cases hx : x.neg <;> simp [sgnT, hx] at hc; subst hc; exact Or.inr (Or.inl rfl)
    · exact Or.inr (Or.inr (Or.inr (Or.inr (Or.inr (isDigit_bridge c (natDigits_all_digit _ c hc))))))
    · exact Or.inr (Or.inr (Or.inl rfl))
    · exact Or.inr (Or.inr (Or.inr (Or.inr (Or.inr (isDigit_bridge c (fracDigits_all_digit _ _ c hc))))))
    · exact Or.inr (Or.inr (Or.inr (Or.inr (Or.inl rfl))))
    · by_cases h : eExp p x < 0 <;> simp [esT, h]
    · exact Or.inr (Or.inr (Or.inr (Or.inr (Or.inr (isDigit_bridge c (hed0 c hc))))))
  have hno : ∀ d : Char, d ≠ ' ' → d ≠ '-' → d ≠ '.' → d ≠ '+' → d ≠ ec → d.isDigit = false → d ∉ pyE w p ec x := by
    intro d h1 h2 h3 h4 h5 h6 hm
    rcases hchars d hm with h | h | h | h | h | h
    · exact h1 h
    · exact h2 h
    · exact h3 h
    · exact h4 h
    · exact h5 h
    · rw [h6] at h; exact absurd h (by decide)
  refine ⟨⟨hlen, ?_, ?_⟩, ?_⟩
  · apply hno <;> first | decide | (rcases hec with h | h | h <;> subst h <;> decide)
  · apply hno <;> first | decide | (rcases hec with h | h | h <;> subst h <;> decide)
  · intro c hc
    rw [pyE_shape w p hp ec x] at hc
    have e : blanks (w - (fmtE p x).length) ++ (sgnT x.neg ++ natDigits (eDig p x / 10 ^ p) ++ '.' :: (fracDigits p (eDig p x) ++
        ec :: esT (decide (eExp p x < 0)) :: expDigits (eExp p x))) =
        (blanks (w - (fmtE p x).length) ++ (sgnT x.neg ++ natDigits (eDig p x / 10 ^ p) ++ '.' :: (fracDigits p (eDig p x) ++
        [ec, esT (decide (eExp p x < 0))]))) ++ expDigits (eExp p x) := by simp
    rw [e, getLast?_append_ne hedne] at hc
    exact digit_noSp (isDigit_bridge c (hed0 c (List.mem_of_getLast? hc)))

/-! ### `'{:w.pf}'` -/

/-- the digits of `'%.pf' % x`: `|x| · 10^p` rounded half-even -/
def fDig (p : Nat) (x : Dbl) : Nat := rheDiv (x.num * 10 ^ p) x.den

theorem pyF_shape (w p : Nat) (hp : p ≠ 0) (x : Dbl) :
    pyF w p x = blanks (w - (fmtF p x).length) ++ (sgnT x.neg ++ natDigits (fDig p x / 10 ^ p) ++ '.' :: fracDigits p (fDig p x)) := by
  unfold pyF padL
  congr 1
  rw [fmtF_shape p hp x]
  cases x.neg <;> simp [sgnT, fDig]

theorem nasScan_pyF (w p : Nat) (hp : p ≠ 0) (x : Dbl) :
    nasScan (pyF w p x) = .num (if x.neg then -(fDig p x : Int) else (fDig p x : Int)) (-(p : Int)) := by
  rw [pyF_shape w p hp x]
  have hip := allDig_bridge _ (natDigits_all_digit (fDig p x / 10 ^ p))
  have hne : natDigits (fDig p x / 10 ^ p) ≠ [] := by
    intro h; have := natDigits_length_pos (fDig p x / 10 ^ p); rw [h] at this; simp at this
  have hfp := allDig_bridge _ (fracDigits_all_digit p (fDig p x))
  rw [nasScan_fixed _ _ _ _ hip hne hfp, digitsVal_bridge, digitsVal_int_frac]
  simp

/-- **accuracy of the value read back from a `'{:w.pf}'` field**: within `½·10^-p` of the value written -/
theorem pyF_value (p : Nat) (x : Dbl) (hd : 0 < x.den) :
    |((if x.neg then -(fDig p x : Int) else (fDig p x : Int) : Int) : ℚ) * (10 : ℚ) ^ (-(p : Int)) - dblRat x| ≤
      1 / 2 * (10 : ℚ) ^ (-(p : Int)) := by
  unfold dblRat
  have hr := rheDiv_rat (x.num * 10 ^ p) x.den hd
  have hpos : (0 : ℚ) < (10 : ℚ) ^ p := by positivity
  have e1 : ((x.num * 10 ^ p : ℕ) : ℚ) / x.den = (x.num : ℚ) / x.den * 10 ^ p := by push_cast; ring
  rw [e1] at hr
  have key : |((fDig p x : ℕ) : ℚ) * (10 : ℚ) ^ (-(p : Int)) - (x.num : ℚ) / x.den| ≤ 1 / 2 * (10 : ℚ) ^ (-(p : Int)) := by
    have e2 : ((fDig p x : ℕ) : ℚ) * (10 : ℚ) ^ (-(p : Int)) - (x.num : ℚ) / x.den =
        (((fDig p x : ℕ) : ℚ) - (x.num : ℚ) / x.den * 10 ^ p) * ((10 : ℚ) ^ p)⁻¹ := by
      rw [zpow_neg, zpow_natCast]; field_simp
    rw [e2, abs_mul, abs_of_pos (inv_pos.2 hpos), zpow_neg, zpow_natCast]
    exact mul_le_mul_of_nonneg_right hr (le_of_lt (inv_pos.2 hpos))
  cases hx : x.neg
  · simpa using key
  · simp only [if_true]
    have e : ((-(fDig p x : Int) : Int) : ℚ) * (10 : ℚ) ^ (-(p : Int)) - -1 * ((x.num : ℚ) / x.den) =
        -(((fDig p x : ℕ) : ℚ) * (10 : ℚ) ^ (-(p : Int)) - (x.num : ℚ) / x.den) := by
      push_cast; ring
    rw [e, abs_neg]; exact key

theorem pyF_clean (w p : Nat) (hp : p ≠ 0) (x : Dbl) (hfit : (fmtF p x).length ≤ w) : CleanField w (pyF w p x) := by
  have hlen : (pyF w p x).length = w := by unfold pyF; exact padL_length hfit
  have hfrac : fracDigits p (fDig p x) ≠ [] := by
    intro h; have := fracDigits_length p (fDig p x); rw [h] at this; simp at this; exact hp this.symm
  have hchars : ∀ c ∈ pyF w p x, c = ' ' ∨ c = '-' ∨ c = '.' ∨ c.isDigit = true := by
    rw [pyF_shape w p hp x]
    intro c hc
    simp only [List.mem_append, List.mem_cons] at hc
    rcases hc with hc | (hc | hc) | rfl | hc
    · exact Or.inl (mem_blanks hc)
    · cases hx : x.neg <;> simp [sgnT, hx] at hc; subst hc; exact Or.inr (Or.inl rfl)
    · exact Or.inr (Or.inr (Or.inr (isDigit_bridge c (natDigits_all_digit _ c hc))))
    · exact Or.inr (Or.inr (Or.inl rfl))
    · exact Or.inr (Or.inr (Or.inr (isDigit_bridge c (fracDigits_all_digit _ _ c hc))))
  have hno : ∀ d : Char, d ≠ ' ' → d ≠ '-' → d ≠ '.' → d.isDigit = false → d ∉ pyF w p x := by
    intro d h1 h2 h3 h6 hm
    rcases hchars d hm with h | h | h | h
    · exact h1 h
    · exact h2 h
    · exact h3 h
    · rw [h6] at h; exact absurd h (by decide)
  refine ⟨⟨hlen, hno '$' (by decide) (by decide) (by decide) (by decide), hno ',' (by decide) (by decide) (by decide) (by decide)⟩, ?_⟩
  intro c hc
  rw [pyF_shape w p hp x] at hc
  have e : blanks (w - (fmtF p x).length) ++ (sgnT x.neg ++ natDigits (fDig p x / 10 ^ p) ++ '.' :: fracDigits p (fDig p x)) =
      (blanks (w - (fmtF p x).length) ++ (sgnT x.neg ++ natDigits (fDig p x / 10 ^ p) ++ ['.'])) ++ fracDigits p (fDig p x) := by simp
  rw [e, getLast?_append_ne hfrac] at hc
  exact digit_noSp (isDigit_bridge c (fracDigits_all_digit _ _ c (List.mem_of_getLast? hc)))

/-! ### what the reader returns, and how near it is -/

/-- the value read back from a `'{:w.pE}'` field: `± N · 10^(E − p)` -/
def readE (p : Nat) (x : Dbl) : Val := .num (if x.neg then -(eDig p x : Int) else (eDig p x : Int)) (eExp p x - (p : Int))
/-- the value read back from a `'{:w.pf}'` field: `± N · 10^(−p)` -/
def readF (p : Nat) (x : Dbl) : Val := .num (if x.neg then -(fDig p x : Int) else (fDig p x : Int)) (-(p : Int))

/-- `v` is a number within `tol` of the rational `r` -/
def Near (v : Val) (r tol : ℚ) : Prop := ∃ q, Val.toRat v = some q ∧ |q - r| ≤ tol

theorem readE_near (p : Nat) (x : Dbl) (hd : 0 < x.den) : Near (readE p x) (dblRat x) (eBound p x) :=
  ⟨_, rfl, pyE_value p x hd⟩

theorem readF_near (p : Nat) (x : Dbl) (hd : 0 < x.den) : Near (readF p x) (dblRat x) (1 / 2 * (10 : ℚ) ^ (-(p : Int))) :=
  ⟨_, rfl, pyF_value p x hd⟩

theorem ofBits_den_pos (b : Nat) (x : Dbl) (h : ofBits b = some x) : 0 < x.den := by
  unfold ofBits at h
  simp only at h
  split at h
  · exact absurd h (by simp)
  · split at h
    · injection h with h; subst h; exact Nat.pos_of_ne_zero (by simp)
    · split at h
      · injection h with h; subst h; exact Nat.one_pos
      · injection h with h; subst h; exact Nat.pos_of_ne_zero (by simp)

theorem dblOf_den_pos (b : Nat) : 0 < (dblOf b).den := by
  unfold dblOf
  cases h : ofBits b with
  | none => exact Nat.one_pos
  | some x => exact ofBits_den_pos b x h

theorem termVal_den_pos (v : Int) : 0 < (termVal v).den := dblOf_den_pos _

/-! ### the width of `'%.pe'`, and the DMIG value field `_dmig_field` -/

/-- zero, or a decimal exponent of at most three digits: every finite double (`termVal_inRange`) -/
def InRange (x : Dbl) : Prop := x.num = 0 ∨ (x.den ≤ 10 ^ 999 * x.num ∧ x.num < 10 ^ 999 * x.den)

theorem eExp_abs_le (p : Nat) (x : Dbl) (hd : 0 < x.den) (hr : InRange x) : (eExp p x).natAbs ≤ 999 := by
  unfold eExp
  rcases hr with h0 | ⟨hlo, hhi⟩
  · have : eParts p x = (0, 0) := by simp [eParts, h0]
    rw [this]; decide
  · have hn : 0 < x.num := by
      rcases Nat.eq_zero_or_pos x.num with h | h
      · rw [h] at hlo; omega
      · exact h
    obtain ⟨h1, h2, _⟩ := eParts_exp_bounds p 999 x hn hd hlo hhi
    omega

theorem expDigits_len (e : Int) (h : e.natAbs ≤ 999) : (expDigits e).length = 2 ∨ (expDigits e).length = 3 := by
  have h3 := natDigits_len_le3 e.natAbs h
  simp only [List.mem_cons, List.not_mem_nil, or_false] at h3
  unfold expDigits
  simp only
  split
  · rename_i hl
    left
    simp only [List.length_cons]
    have := natDigits_length_pos e.natAbs
    omega
  · rename_i hl
    rcases h3 with h | h | h
    · omega
    · exact Or.inl h
    · exact Or.inr h

theorem eDig_lt (p : Nat) (x : Dbl) (hd : 0 < x.den) : eDig p x < 10 ^ (p + 1) := by
  unfold eDig
  rcases Nat.eq_zero_or_pos x.num with h0 | hn
  · have : eParts p x = (0, 0) := by simp [eParts, h0]
    rw [this]; exact Nat.pos_of_ne_zero (by simp)
  · exact (eParts_spec p x hn hd).2.1

/-- `'%.pe' % x` is `[-]d.` + `p` digits + `e±` + two or three exponent digits -/
theorem fmtE_length (p : Nat) (hp : p ≠ 0) (x : Dbl) (hd : 0 < x.den) (hr : InRange x) :
    (fmtE p x).length = (if x.neg then 1 else 0) + p + 4 + (expDigits (eExp p x)).length ∧
      ((expDigits (eExp p x)).length = 2 ∨ (expDigits (eExp p x)).length = 3) := by
  refine ⟨?_, expDigits_len _ (eExp_abs_le p x hd hr)⟩
  rw [fmtE_shape p hp x]
  have h1 : (natDigits ((eParts p x).1 / 10 ^ p)).length = 1 := by
    have hlt : (eParts p x).1 / 10 ^ p < 10 := by
      rw [Nat.div_lt_iff_lt_mul (by positivity)]
      have := eDig_lt p x hd
      unfold eDig at this
      rw [pow_succ] at this
      omega
    rw [natDigits_lt_ten _ hlt]; rfl
  simp only [eMant, List.length_append, List.length_cons, h1, fracDigits_length, eExp]
  cases x.neg <;> simp <;> omega

theorem dmigFld_length (ec : Char) (x : Dbl) (hd : 0 < x.den) (hr : InRange x) : (dmigFld ec x).length = 16 := by
  unfold dmigFld
  split
  · rename_i h
    unfold pyE; exact padL_length (by rw [List.length_map]; exact h)
  · obtain ⟨h8, hed⟩ := fmtE_length 8 (by decide) x hd hr
    unfold pyE
    apply padL_length
    rw [List.length_map, h8]
    cases x.neg <;> simp <;> omega

/-- **the DMIG value field is clean for every finite double** (exactly 16 columns, no `$`, no comma, solid end) -/
theorem dmigFld_clean (ec : Char) (hec : ec = 'e' ∨ ec = 'E' ∨ ec = 'D') (x : Dbl) (hd : 0 < x.den) (hr : InRange x) :
    CleanField 16 (dmigFld ec x) := by
  unfold dmigFld
  split
  · rename_i h; exact pyE_clean 16 9 (by decide) ec hec x h
  · obtain ⟨h8, hed⟩ := fmtE_length 8 (by decide) x hd hr
    apply pyE_clean 16 8 (by decide) ec hec x
    rw [h8]
    cases x.neg <;> simp <;> omega

/-- what `nas_sscanf` returns for the DMIG value field: ten significant digits, nine in the fallback case -/
def dmigRead (x : Dbl) : Val := if (fmtE 9 x).length ≤ 16 then readE 9 x else readE 8 x
/-- … and how near that is: `½·10^(E−9)`, `½·10^(E−8)` in the fallback case -/
def dmigBound (x : Dbl) : ℚ := if (fmtE 9 x).length ≤ 16 then eBound 9 x else eBound 8 x

theorem nasScan_dmigFld (ec : Char) (hec : ec = 'e' ∨ ec = 'E' ∨ ec = 'D') (x : Dbl) : nasScan (dmigFld ec x) = dmigRead x := by
  unfold dmigFld dmigRead
  split
  · exact nasScan_pyE 16 9 (by decide) ec hec x
  · exact nasScan_pyE 16 8 (by decide) ec hec x

theorem dmigRead_near (x : Dbl) (hd : 0 < x.den) : Near (dmigRead x) (dblRat x) (dmigBound x) := by
  unfold dmigRead dmigBound
  split
  · exact readE_near 9 x hd
  · exact readE_near 8 x hd

/-- the fallback is taken exactly for a negative value with a three-digit exponent -/
theorem dmig_fallback_iff (x : Dbl) (hd : 0 < x.den) (hr : InRange x) :
    ¬ (fmtE 9 x).length ≤ 16 ↔ x.neg = true ∧ (expDigits (eExp 9 x)).length = 3 := by
  obtain ⟨h9, hed⟩ := fmtE_length 9 (by decide) x hd hr
  rw [h9]
  cases x.neg <;> simp <;> omega

set_option exponentiation.threshold 4000 in
theorem pow_facts : 2 ^ 1074 ≤ 10 ^ 999 ∧ 2 ^ 1024 < 10 ^ 999 := by constructor <;> decide +kernel

set_option exponentiation.threshold 4000 in
set_option maxRecDepth 4000 in
/-- every bit pattern decodes to a value in range -/
theorem ofBits_inRange (b : Nat) (x : Dbl) (h : ofBits b = some x) : InRange x := by
  obtain ⟨p1, p2⟩ := pow_facts
  unfold ofBits at h
  simp only at h
  have hf : b % 2 ^ 52 < 2 ^ 52 := Nat.mod_lt _ (by positivity)
  have he : b / 2 ^ 52 % 2048 < 2048 := Nat.mod_lt _ (by norm_num)
  generalize b % 2 ^ 52 = f at h hf
  generalize b / 2 ^ 52 % 2048 = e at h he
  split at h
  · exact absurd h (by simp)
  · rename_i h2047
    have hne : e ≠ 2047 := by simpa using h2047
    split at h
    · injection h with h; subst h
      rcases Nat.eq_zero_or_pos f with h0 | hpos
      · exact Or.inl h0
      · right
        simp only
        constructor
        · calc 2 ^ 1074 ≤ 10 ^ 999 := p1
            _ ≤ 10 ^ 999 * f := Nat.le_mul_of_pos_right _ hpos
        · calc f < 2 ^ 52 := hf
            _ ≤ 10 ^ 999 * 2 ^ 1074 := by
              calc 2 ^ 52 ≤ 2 ^ 1074 := Nat.pow_le_pow_right (by norm_num) (by norm_num)
                _ ≤ 10 ^ 999 * 2 ^ 1074 := Nat.le_mul_of_pos_left _ (by positivity)
    · split at h
      · rename_i hge
        injection h with h; subst h
        right
        simp only
        have hge' : 1075 ≤ e := by simpa using hge
        have hpw : 2 ^ (e - 1075) ≤ 2 ^ 971 := Nat.pow_le_pow_right (by norm_num) (by omega)
        constructor
        · have : 0 < (f + 2 ^ 52) * 2 ^ (e - 1075) := by positivity
          calc 1 ≤ (f + 2 ^ 52) * 2 ^ (e - 1075) := this
            _ ≤ 10 ^ 999 * ((f + 2 ^ 52) * 2 ^ (e - 1075)) := Nat.le_mul_of_pos_left _ (by positivity)
        · calc (f + 2 ^ 52) * 2 ^ (e - 1075) ≤ 2 ^ 53 * 2 ^ 971 := Nat.mul_le_mul (by omega) hpw
            _ = 2 ^ 1024 := by rw [← pow_add]
            _ < 10 ^ 999 * 1 := by simpa using p2
      · rename_i hlt
        injection h with h; subst h
        right
        simp only
        have hlt' : e < 1075 := by simpa using hlt
        have hpw : 2 ^ (1075 - e) ≤ 2 ^ 1074 := Nat.pow_le_pow_right (by norm_num) (by
          rename_i h0; have : e ≠ 0 := by simpa using h0
          omega)
        constructor
        · calc 2 ^ (1075 - e) ≤ 2 ^ 1074 := hpw
            _ ≤ 10 ^ 999 := p1
            _ ≤ 10 ^ 999 * (f + 2 ^ 52) := Nat.le_mul_of_pos_right _ (by positivity)
        · calc f + 2 ^ 52 < 2 ^ 1024 := by
                have : (2 : Nat) ^ 52 + 2 ^ 52 ≤ 2 ^ 1024 := by norm_num
                omega
            _ < 10 ^ 999 := p2
            _ ≤ 10 ^ 999 * 2 ^ (1075 - e) := Nat.le_mul_of_pos_right _ (by positivity)

theorem termVal_inRange (v : Int) : InRange (termVal v) := by
  unfold termVal dblOf
  cases h : ofBits v.toNat with
  | none => exact Or.inl rfl
  | some x => exact ofBits_inRange _ x h

end PyYetiVerif.Bulk
