import PyYetiVerif.Lemmas.Op4VariantsRead
/-! C11: the column loops of the binary OUTPUT4 reader model on the encoder's column records
(`_rd_dense_binary`, `_rd_bigmat_binary`, `_rd_nonbigmat_binary`), and `_skipop4_binary` on the same records. -/
namespace PyYetiVerif.Op4VR
open PyYetiVerif.Op4 (Endian Layout chooseLayout checkName)
open PyYetiVerif.Op4V (Variant VStr VMat natBytes intBytes keyBytes realBytes wper strPayload strWords colRec
  trailerRec)
open PyYetiVerif.Op2 (V2 kb)
open PyYetiVerif.Op2R (M Err natOfBytes intOfBytes chunks rdI4 rdKeyRaw pyRead seekFwd InKey)
open PyYetiVerif.Generated.Op4Consts

/-! ### the anatomy of a column record -/

def recLen (v : Variant) (lay : Layout) (ss : List VStr) : Nat :=
  3 * keyBytes v + (ss.flatMap (strPayload v lay)).length

def irowOf (lay : Layout) (ss : List VStr) : Int :=
  match lay, ss with
  | .dense, s :: _ => (s.1 : Int) + 1
  | _, _ => 0

/-- marker and the three keys `icol, irow, nwords` -/
def colHead (v : Variant) (lay : Layout) (c : Nat) (ss : List VStr) : List Nat :=
  Op4V.mark v (recLen v lay ss) ++ (Op4V.key v ((c : Int) + 1) ++ (Op4V.key v (irowOf lay ss) ++
    Op4V.key v ((nwOf v lay ss : Nat) : Int)))

/-- payload and closing marker -/
def colTail (v : Variant) (lay : Layout) (ss : List VStr) : List Nat :=
  ss.flatMap (strPayload v lay) ++ Op4V.mark v (recLen v lay ss)

theorem colRec_eq (v : Variant) (lay : Layout) (c : Nat) (ss : List VStr) :
    colRec v lay c ss = colHead v lay c ss ++ colTail v lay ss := by
  simp only [colRec, colHead, colTail, recLen, irowOf, nwOf, List.append_assoc]
  rfl

/-- the four words in front of the first record that is not a column of the matrix: marker `R`, keys
`C, Rr, NW` -/
def termHead (v : Variant) (R : Nat) (C Rr NW : Int) : List Nat :=
  Op4V.mark v R ++ (Op4V.key v C ++ (Op4V.key v Rr ++ Op4V.key v NW))

/-- the records behind the current one: the remaining columns, then the terminating head and `tail` -/
def nextBytes (v : Variant) (lay : Layout) (term tail : List Nat) : List (Nat × List VStr) → List Nat
  | [] => term ++ tail
  | p :: cs => colHead v lay p.1 p.2 ++ (colTail v lay p.2 ++ nextBytes v lay term tail cs)

theorem nextBytes_eq (v : Variant) (lay : Layout) (term tail : List Nat) (cs : List (Nat × List VStr)) :
    nextBytes v lay term tail cs = cs.flatMap (fun c => colRec v lay c.1 c.2) ++ (term ++ tail) := by
  induction cs with
  | nil => rfl
  | cons p cs ih => simp only [nextBytes, List.flatMap_cons, colRec_eq, ih, List.append_assoc]

/-- what the encoder needs of a present column: its index inside the matrix, representable keys, a record
length that fits the 4-byte marker, admissible strings; a dense record holds one run of values -/
structure ColOk (v : Variant) (lay : Layout) (ncols : Nat) (p : Nat × List VStr) : Prop where
  col : p.1 < ncols
  ckey : InKey (v2 v) ((p.1 : Int) + 1)
  nwkey : InKey (v2 v) ((nwOf v lay p.2 : Nat) : Int)
  reclen : recLen v lay p.2 < 2147483648
  strs : ∀ s ∈ p.2, StrOk v lay s
  dense : lay = .dense → ∃ s, p.2 = [s]

/-- the puts a column record stands for -/
def putsOfCol (c : Nat) (ss : List VStr) : List Put := ss.map fun s => (s.1, c, s.2)

def putsOfCols (cs : List (Nat × List VStr)) : List Put := cs.flatMap fun p => putsOfCol p.1 p.2

theorem irowOf_key (v : Variant) (lay : Layout) (ncols : Nat) (p : Nat × List VStr) (h : ColOk v lay ncols p) :
    InKey (v2 v) (irowOf lay p.2) := by
  obtain ⟨c, ss⟩ := p
  cases lay with
  | dense =>
    cases ss with
    | nil => exact Op2R.inKey_small _ 0 (by omega) (by omega)
    | cons s t => exact (h.strs s (by simp)).row
  | bigmat => exact Op2R.inKey_small _ 0 (by omega) (by omega)
  | nonbigmat => exact Op2R.inKey_small _ 0 (by omega) (by omega)

theorem irowOf_single (s : VStr) : irowOf .dense [s] = (s.1 : Int) + 1 := rfl

/-! ### `_rd_dense_binary` -/

theorem rdDense_enc (v : Variant) (cut : Int) (ncols R : Nat) (C Rr NW : Int) (tail : List Nat)
    (hR : R < 2147483648) (hC : InKey (v2 v) C) (hRr : InKey (v2 v) Rr) (hNW : InKey (v2 v) NW)
    (hterm : ¬ (C - 1 < (ncols : Int))) :
    ∀ (cs : List (Nat × List VStr)) (p : Nat × List VStr) (reclen : Int) (acc : List Put) (fuel : Nat),
      (∀ q ∈ p :: cs, ColOk v .dense ncols q) → cs.length + 1 < fuel →
      rdDense ⟨v2 v, cut, wper v, realBytes v⟩ (ncols : Int) fuel (p.1 : Int) (irowOf .dense p.2)
          ((nwOf v .dense p.2 : Nat) : Int) reclen
          (colTail v .dense p.2 ++ nextBytes v .dense (termHead v R C Rr NW) tail cs) acc
        = .ok (acc ++ putsOfCols (p :: cs), (R : Int), tail) := by
  intro cs
  induction cs with
  | nil =>
    intro p reclen acc fuel hok hf
    obtain ⟨c, ss⟩ := p
    have hp := hok (c, ss) List.mem_cons_self
    obtain ⟨s, hs⟩ := hp.dense rfl
    simp only at hs
    subst hs
    have hso := hp.strs s (by simp)
    match fuel, hf with
    | f + 2, _ =>
      have hc : (c : Int) < (ncols : Int) := by have := hp.col; simp only at this; omega
      have hn : ((nwOf v .dense [s] : Nat) : Int) / ((wper v : Nat) : Int) = (s.2.length : Int) := by
        simp only [nwOf, strWords, List.map_cons, List.map_nil, List.sum_cons, List.sum_nil, Nat.add_zero]
        exact div_wper v _
      have hr : ¬ ((s.1 : Int) + 1 - 1 < 0 ∨ (c : Int) < 0) := by omega
      have hrow : ((s.1 : Int) + 1 - 1).toNat = s.1 := by omega
      rw [rdDense]
      simp only [hc, if_true, irowOf_single, hn, colTail, List.flatMap_cons, List.flatMap_nil, List.append_nil, strPayload_dense,
        List.append_assoc, rdVals_encV v cut _ _ hso.vals, hr, if_false, drop4_mark, nextBytes, termHead,
        rdRecHead_enc v R C Rr NW tail hR hC hRr hNW, hrow, Int.toNat_natCast]
      rw [rdDense]
      simp only [hterm, if_false, putsOfCols, putsOfCol, List.flatMap_cons, List.flatMap_nil, List.map_cons, List.map_nil,
        List.append_nil]
  | cons p' cs ih =>
    intro p reclen acc fuel hok hf
    obtain ⟨c, ss⟩ := p
    have hp := hok (c, ss) List.mem_cons_self
    have hp' := hok p' (by simp)
    obtain ⟨s, hs⟩ := hp.dense rfl
    simp only at hs
    subst hs
    have hso := hp.strs s (by simp)
    match fuel, hf with
    | f + 1, hf =>
      have hc : (c : Int) < (ncols : Int) := by have := hp.col; simp only at this; omega
      have hn : ((nwOf v .dense [s] : Nat) : Int) / ((wper v : Nat) : Int) = (s.2.length : Int) := by
        simp only [nwOf, strWords, List.map_cons, List.map_nil, List.sum_cons, List.sum_nil, Nat.add_zero]
        exact div_wper v _
      have hr : ¬ ((s.1 : Int) + 1 - 1 < 0 ∨ (c : Int) < 0) := by omega
      have hrow : ((s.1 : Int) + 1 - 1).toNat = s.1 := by omega
      have hsub : (p'.1 : Int) + 1 - 1 = (p'.1 : Int) := by omega
      rw [rdDense]
      simp only [hc, if_true, irowOf_single, hn, colTail, List.flatMap_cons, List.flatMap_nil, List.append_nil, strPayload_dense,
        List.append_assoc, rdVals_encV v cut _ _ hso.vals, hr, if_false, drop4_mark, nextBytes, colHead,
        rdRecHead_enc v _ _ _ _ _ hp'.reclen hp'.ckey (irowOf_key v .dense ncols p' hp') hp'.nwkey, hrow,
        Int.toNat_natCast, hsub]
      have := ih p' ((recLen v .dense p'.2 : Nat) : Int) (acc ++ [(s.1, c, s.2)]) f
        (fun q hq => hok q (List.mem_cons_of_mem _ hq)) (by simp only [List.length_cons] at hf; omega)
      simp only [colTail, List.append_assoc] at this
      rw [this]
      simp only [putsOfCols, putsOfCol, List.flatMap_cons, List.map_cons, List.map_nil, List.append_assoc,
        List.cons_append, List.nil_append]

/-! ### `_rd_bigmat_binary` / `_rd_nonbigmat_binary` -/

def layOf (big : Bool) : Layout := if big then .bigmat else .nonbigmat

theorem rdStrs_enc (v : Variant) (cut : Int) (big : Bool) (col : Nat) (rest : List Nat) (ss : List VStr)
    (acc : List Put) (fuel : Nat) (hok : ∀ s ∈ ss, StrOk v (layOf big) s) (hf : ss.length < fuel) :
    (if big then rdStrsBig ⟨v2 v, cut, wper v, realBytes v⟩ (col : Int) fuel ((nwOf v (layOf big) ss : Nat) : Int)
          (ss.flatMap (strPayload v (layOf big)) ++ rest) acc
      else rdStrsNonbig ⟨v2 v, cut, wper v, realBytes v⟩ (col : Int) fuel ((nwOf v (layOf big) ss : Nat) : Int)
          (ss.flatMap (strPayload v (layOf big)) ++ rest) acc)
      = .ok (acc ++ putsOfCol col ss, rest) := by
  cases big with
  | true => exact rdStrsBig_enc v cut col rest ss acc fuel hok hf
  | false => exact rdStrsNonbig_enc v cut col rest ss acc fuel hok hf

theorem length_strPayload_pos (v : Variant) (big : Bool) (s : VStr) : 1 ≤ (strPayload v (layOf big) s).length := by
  have hk := Op2R.kb_pos (v2 v)
  cases big
  · rw [show layOf false = Layout.nonbigmat from rfl, strPayload_nonbig, List.length_append, length_key]; omega
  · rw [show layOf true = Layout.bigmat from rfl, strPayload_big, List.length_append, length_key]; omega

theorem length_le_payload (v : Variant) (big : Bool) (ss : List VStr) :
    ss.length ≤ (ss.flatMap (strPayload v (layOf big))).length := by
  induction ss with
  | nil => simp
  | cons s t ih =>
    have := length_strPayload_pos v big s
    simp only [List.flatMap_cons, List.length_append, List.length_cons]; omega

theorem rdSparse_enc (v : Variant) (cut : Int) (big : Bool) (ncols R : Nat) (C Rr NW : Int) (tail : List Nat)
    (hR : R < 2147483648) (hC : InKey (v2 v) C) (hRr : InKey (v2 v) Rr) (hNW : InKey (v2 v) NW)
    (hterm : ¬ (C - 1 < (ncols : Int))) :
    ∀ (cs : List (Nat × List VStr)) (p : Nat × List VStr) (reclen : Int) (acc : List Put) (fuel : Nat),
      (∀ q ∈ p :: cs, ColOk v (layOf big) ncols q) → cs.length + 1 < fuel →
      rdSparse ⟨v2 v, cut, wper v, realBytes v⟩ big (ncols : Int) fuel (p.1 : Int)
          ((nwOf v (layOf big) p.2 : Nat) : Int) reclen
          (colTail v (layOf big) p.2 ++ nextBytes v (layOf big) (termHead v R C Rr NW) tail cs) acc
        = .ok (acc ++ putsOfCols (p :: cs), (R : Int), tail) := by
  intro cs
  induction cs with
  | nil =>
    intro p reclen acc fuel hok hf
    obtain ⟨c, ss⟩ := p
    have hp := hok (c, ss) List.mem_cons_self
    match fuel, hf with
    | f + 2, _ =>
      have hc : (c : Int) < (ncols : Int) := by have := hp.col; simp only at this; omega
      have hfu : ss.length < (ss.flatMap (strPayload v (layOf big)) ++
          (Op4V.mark v (recLen v (layOf big) ss) ++ (termHead v R C Rr NW ++ tail))).length + 1 := by
        have := length_le_payload v big ss
        rw [List.length_append]; omega
      rw [rdSparse]
      simp only [hc, if_true, colTail, List.append_assoc, nextBytes] at hfu ⊢
      rw [rdStrs_enc v cut big c _ ss acc _ hp.strs hfu]
      simp only [drop4_mark, termHead, List.append_assoc, rdRecHead_enc v R C Rr NW tail hR hC hRr hNW]
      rw [rdSparse]
      simp only [hterm, if_false, putsOfCols, List.flatMap_cons, List.flatMap_nil, List.append_nil]
  | cons p' cs ih =>
    intro p reclen acc fuel hok hf
    obtain ⟨c, ss⟩ := p
    have hp := hok (c, ss) List.mem_cons_self
    have hp' := hok p' (by simp)
    match fuel, hf with
    | f + 1, hf =>
      have hc : (c : Int) < (ncols : Int) := by have := hp.col; simp only at this; omega
      have hsub : (p'.1 : Int) + 1 - 1 = (p'.1 : Int) := by omega
      have hfu : ss.length < (ss.flatMap (strPayload v (layOf big)) ++
          (Op4V.mark v (recLen v (layOf big) ss) ++ (colHead v (layOf big) p'.1 p'.2 ++ (colTail v (layOf big) p'.2 ++
            nextBytes v (layOf big) (termHead v R C Rr NW) tail cs)))).length + 1 := by
        have := length_le_payload v big ss
        rw [List.length_append]; omega
      rw [rdSparse]
      simp only [hc, if_true, colTail, List.append_assoc, nextBytes] at hfu ⊢
      rw [rdStrs_enc v cut big c _ ss acc _ hp.strs hfu]
      simp only [drop4_mark, colHead, List.append_assoc,
        rdRecHead_enc v _ _ _ _ _ hp'.reclen hp'.ckey (irowOf_key v (layOf big) ncols p' hp') hp'.nwkey, hsub]
      have := ih p' ((recLen v (layOf big) p'.2 : Nat) : Int) (acc ++ putsOfCol c ss) f
        (fun q hq => hok q (List.mem_cons_of_mem _ hq)) (by simp only [List.length_cons] at hf; omega)
      simp only [colTail, List.append_assoc] at this
      rw [this]
      simp only [putsOfCols, List.flatMap_cons, List.append_assoc]

/-! ### `_skipop4_binary` -/

/-- one iteration of `while icol <= cols`: a record `[n][icol, body][n]` is left behind its closing marker -/
theorem skip_record (v : Variant) (cols : Int) (n : Nat) (icol cur : Int) (body rest : List Nat) (fuel : Nat)
    (hcur : cur ≤ cols) (hn : n < 2147483648) (hik : InKey (v2 v) icol)
    (hlen : (Op4V.key v icol ++ body).length = n) :
    skipCols (v2 v) cols (fuel + 1) cur (Op4V.mark v n ++ (Op4V.key v icol ++ (body ++ (Op4V.mark v n ++ rest))))
      = skipCols (v2 v) cols fuel icol rest := by
  rw [List.length_append, length_key] at hlen
  have hseek : seekFwd ((n : Int) + 4 - ((kb (v2 v) : Nat) : Int)) (body ++ (Op4V.mark v n ++ rest)) = .ok rest := by
    have h0 : (0 : Int) ≤ (n : Int) + 4 - ((kb (v2 v) : Nat) : Int) := by omega
    have ht : ((n : Int) + 4 - ((kb (v2 v) : Nat) : Int)).toNat = body.length + 4 := by omega
    unfold seekFwd
    rw [if_pos h0, ht, ← List.append_assoc]
    exact congrArg Except.ok (List.drop_left' (by rw [List.length_append, length_mark]))
  rw [skipCols]
  simp only [hcur, if_true, rdI4_mark v n _ hn, rdKeyRaw_key v icol _ hik, hseek]

theorem length_colBody (v : Variant) (lay : Layout) (c : Nat) (ss : List VStr) :
    (Op4V.key v ((c : Int) + 1) ++ (Op4V.key v (irowOf lay ss) ++ (Op4V.key v ((nwOf v lay ss : Nat) : Int) ++
      ss.flatMap (strPayload v lay)))).length = recLen v lay ss := by
  simp only [List.length_append, length_key, recLen, keyBytes_eq]; omega

/-- what the trailer record needs: its column key and its words-per-real key are representable (always, for
`ncols + 1` below 2³¹) -/
def trailerReal (v : Variant) : Nat := if (v.single && !v.bit64) = true then 1065353216 else 4607182418800017408

theorem trailerRec_eq (v : Variant) (ncols : Nat) :
    trailerRec v ncols = termHead v (3 * keyBytes v + realBytes v) ((ncols : Int) + 1) 1 ((wper v : Nat) : Int) ++
      (natBytes v.e (realBytes v) (trailerReal v) ++ Op4V.mark v (3 * keyBytes v + realBytes v)) := by
  simp only [trailerRec, termHead, List.append_assoc]; rfl

theorem inKey_wper (v : Variant) : InKey (v2 v) ((wper v : Nat) : Int) := by
  apply Op2R.inKey_small
  · omega
  · rcases wper_cases v with h | h <;> rw [h] <;> omega

theorem trailer_len_lt (v : Variant) : 3 * keyBytes v + realBytes v < 2147483648 := by
  unfold keyBytes realBytes; split <;> split <;> omega

theorem skipCols_enc (v : Variant) (lay : Layout) (ncols : Nat) (hnc : InKey (v2 v) ((ncols : Int) + 1)) (rest : List Nat) :
    ∀ (cs : List (Nat × List VStr)) (cur : Int) (fuel : Nat), cur ≤ (ncols : Int) →
      (∀ q ∈ cs, ColOk v lay ncols q) → cs.length + 1 < fuel →
      skipCols (v2 v) (ncols : Int) fuel cur (cs.flatMap (fun c => colRec v lay c.1 c.2) ++ (trailerRec v ncols ++ rest))
        = .ok rest := by
  intro cs
  induction cs with
  | nil =>
    intro cur fuel hcur _ hf
    match fuel, hf with
    | f + 2, _ =>
      have hl : (Op4V.key v ((ncols : Int) + 1) ++ (Op4V.key v 1 ++ (Op4V.key v ((wper v : Nat) : Int) ++
          natBytes v.e (realBytes v) (trailerReal v)))).length = 3 * keyBytes v + realBytes v := by
        simp only [List.length_append, length_key, keyBytes_eq, Op2R.length_natBytes]; omega
      have := skip_record v (ncols : Int) (3 * keyBytes v + realBytes v) ((ncols : Int) + 1) cur
        (Op4V.key v 1 ++ (Op4V.key v ((wper v : Nat) : Int) ++ natBytes v.e (realBytes v) (trailerReal v))) rest (f + 1)
        hcur (trailer_len_lt v) hnc hl
      simp only [List.flatMap_nil, List.nil_append, trailerRec_eq, termHead, List.append_assoc] at this ⊢
      rw [this, skipCols]
      have : ¬ ((ncols : Int) + 1 ≤ (ncols : Int)) := by omega
      simp only [this, if_false]
  | cons p cs ih =>
    intro cur fuel hcur hok hf
    have hp := hok p List.mem_cons_self
    match fuel, hf with
    | f + 1, hf =>
      have := skip_record v (ncols : Int) (recLen v lay p.2) ((p.1 : Int) + 1) cur
        (Op4V.key v (irowOf lay p.2) ++ (Op4V.key v ((nwOf v lay p.2 : Nat) : Int) ++ p.2.flatMap (strPayload v lay)))
        (cs.flatMap (fun c => colRec v lay c.1 c.2) ++ (trailerRec v ncols ++ rest)) f hcur hp.reclen hp.ckey
        (length_colBody v lay p.1 p.2)
      rw [List.flatMap_cons, colRec_eq]
      simp only [colHead, colTail, List.append_assoc] at this ⊢
      rw [this]
      have hc := hp.col
      exact ih _ f (by omega) (fun q hq => hok q (List.mem_cons_of_mem _ hq)) (by simp only [List.length_cons] at hf; omega)

end PyYetiVerif.Op4VR
