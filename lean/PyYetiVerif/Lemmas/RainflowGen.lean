import PyYetiVerif.Lemmas.RainflowImp
import PyYetiVerif.Lemmas.Rainflow
import PyYetiVerif.Model.RainflowEntry
/-! Invariants shared by the refinement proofs `generated program = model` (core Lean only):
how the work arrays of the code (`pts`, `cycle_index`: a stack growing upwards, top at `j`;
`rf`, `os`: rows `0 … n` written) represent the model's lists. -/
set_option linter.unusedSectionVars false
namespace PyYetiVerif.RainflowGen
open PyYetiVerif.RainflowImp PyYetiVerif.Rainflow PyYetiVerif.RainflowEntry

/-! ### a stack stored in an array: `a[0 … len-1]`, newest element of the list on top -/

def ArrStack {β : Type} (a : Arr β) (st : List β) : Prop :=
  ∀ i (h : i < st.length), a.val (st.length - 1 - i) = some st[i]

namespace ArrStack
variable {β : Type}

theorem le_size {a : Arr β} {st : List β} (h : ArrStack a st) : st.length ≤ a.size := by
  cases st with
  | nil => simp
  | cons x xs =>
      have := Arr.val_lt_size a _ _ (h 0 (by simp))
      simp at this ⊢; omega

theorem push {a : Arr β} {st : List β} (h : ArrStack a st) (hs : st.length < a.size) (v : β) :
    ArrStack (a.upd st.length v) (v :: st) := by
  intro i hi
  cases i with
  | zero => simp [Arr.val_upd_self a _ v hs]
  | succ i =>
      simp only [List.length_cons] at hi ⊢
      have := h i (by omega)
      rw [Arr.val_upd_ne a _ _ v hs (by omega)]
      simp only [List.getElem_cons_succ]
      rw [← this]; congr 1; omega

/-- top three readable -/
theorem top3 {a : Arr β} {c b x : β} {rest : List β} (h : ArrStack a (c :: b :: x :: rest)) :
    a.val (rest.length + 2) = some c ∧ a.val (rest.length + 1) = some b ∧ a.val rest.length = some x := by
  have h0 := h 0 (by simp)
  have h1 := h 1 (by simp)
  have h2 := h 2 (by simp)
  simp only [List.length_cons, List.getElem_cons_zero, List.getElem_cons_succ] at h0 h1 h2
  refine ⟨?_, ?_, ?_⟩
  · rw [← h0]; congr 1
  · rw [← h1]; congr 1
  · rw [← h2]; congr 1

/-- step 4: `a[j-2] = a[j]; j -= 2` -/
theorem step4 {a : Arr β} {c b x r : β} {rest : List β} (h : ArrStack a (c :: b :: x :: r :: rest)) :
    ArrStack (a.upd (rest.length + 1) c) (c :: r :: rest) := by
  have hs : rest.length + 1 < a.size := by have := h.le_size; simp at this; omega
  intro i hi
  simp only [List.length_cons] at hi ⊢
  cases i with
  | zero =>
      simp only [List.getElem_cons_zero]
      have : rest.length + 1 + 1 - 1 - 0 = rest.length + 1 := by omega
      rw [this]; exact Arr.val_upd_self a _ c hs
  | succ i =>
      have := h (i + 3) (by simp; omega)
      simp only [List.length_cons, List.getElem_cons_succ] at this ⊢
      rw [Arr.val_upd_ne a _ _ c hs (by omega), ← this]; congr 1; omega

/-- step 5: `a[0] = a[1]; a[1] = a[2]; j = 1` -/
theorem step5 {a : Arr β} {c b x : β} (h : ArrStack a [c, b, x]) :
    ArrStack ((a.upd 0 b).upd 1 c) [c, b] := by
  have hs : 3 ≤ a.size := by have := h.le_size; simpa using this
  have hs0 : 0 < a.size := by omega
  have hs1 : 1 < (a.upd 0 b).size := by simp; omega
  intro i hi
  simp only [List.length_cons, List.length_nil] at hi ⊢
  match i, hi with
  | 0, _ => simp [Arr.val_upd_self _ _ c hs1]
  | 1, _ =>
      simp only [List.getElem_cons_succ, List.getElem_cons_zero]
      rw [Arr.val_upd_ne _ _ _ c hs1 (by omega)]
      exact Arr.val_upd_self a _ b hs0

/-- the oldest element is at index 0 -/
theorem bottom {a : Arr β} {st : List β} (h : ArrStack a st) (i : Nat) (hi : i < st.length) :
    a.val i = some (st.reverse[i]'(by simpa using hi)) := by
  have := h (st.length - 1 - i) (by omega)
  rw [List.getElem_reverse]
  rw [← this]; congr 1; omega

end ArrStack

/-! ### the output tables: rows `0 … rows.length-1` written -/

variable {α : Type} [Ops α]

/-- `t` is an `nr × nc` table whose first `rows.length` rows are written with `rows` -/
structure TabOK {β : Type} (nr nc : Nat) (t : Arr2 β) (rows : List (List β)) : Prop where
  wf : t.WF
  hr : t.rows = nr
  hc : t.cols = nc
  hv : ∀ i (h : i < rows.length) (c : Nat), c < nc → t.val i c = rows[i][c]?

namespace TabOK
variable {β : Type}

theorem push3 {nr : Nat} {t : Arr2 β} {rows : List (List β)} (h : TabOK nr 3 t rows)
    (hlt : rows.length < nr) (x y z : β) :
    TabOK nr 3 (((t.upd rows.length 0 x).upd rows.length 1 y).upd rows.length 2 z) (rows ++ [[x, y, z]]) := by
  obtain ⟨wf, hr, hc, hv⟩ := h
  have w1 := Arr2.wf_upd t rows.length 0 x wf
  have w2 := Arr2.wf_upd _ rows.length 1 y w1
  have w3 := Arr2.wf_upd _ rows.length 2 z w2
  refine ⟨w3, by simp [hr], by simp [hc], ?_⟩
  intro i hi c hc3
  have hrow : rows.length < t.rows := by omega
  rw [Arr2.val_upd _ _ _ _ _ _ w2 (by simpa using hrow) (by simp [hc]),
    Arr2.val_upd _ _ _ _ _ _ w1 (by simpa using hrow) (by simp [hc]),
    Arr2.val_upd _ _ _ _ _ _ wf hrow (by simp [hc])]
  simp only [List.length_append, List.length_cons, List.length_nil] at hi
  by_cases he : i = rows.length
  · subst he
    simp only [List.getElem_append_right (Nat.le_refl _), Nat.sub_self, List.getElem_cons_zero, true_and]
    match c, hc3 with
    | 0, _ => simp
    | 1, _ => simp
    | 2, _ => simp
  · have hi' : i < rows.length := by omega
    simp only [he, false_and, if_false]
    rw [hv i hi' c hc3, List.getElem_append_left hi']

theorem push2 {nr : Nat} {t : Arr2 β} {rows : List (List β)} (h : TabOK nr 2 t rows)
    (hlt : rows.length < nr) (x y : β) :
    TabOK nr 2 ((t.upd rows.length 0 x).upd rows.length 1 y) (rows ++ [[x, y]]) := by
  obtain ⟨wf, hr, hc, hv⟩ := h
  have w1 := Arr2.wf_upd t rows.length 0 x wf
  have w2 := Arr2.wf_upd _ rows.length 1 y w1
  refine ⟨w2, by simp [hr], by simp [hc], ?_⟩
  intro i hi c hc3
  have hrow : rows.length < t.rows := by omega
  rw [Arr2.val_upd _ _ _ _ _ _ w1 (by simpa using hrow) (by simp [hc]),
    Arr2.val_upd _ _ _ _ _ _ wf hrow (by simp [hc])]
  simp only [List.length_append, List.length_cons, List.length_nil] at hi
  by_cases he : i = rows.length
  · subst he
    simp only [List.getElem_append_right (Nat.le_refl _), Nat.sub_self, List.getElem_cons_zero, true_and]
    match c, hc3 with
    | 0, _ => simp
    | 1, _ => simp
  · have hi' : i < rows.length := by omega
    simp only [he, false_and, if_false]
    rw [hv i hi' c hc3, List.getElem_append_left hi']

/-- a completely written table is exactly `rows` -/
theorem full_toRows {nr nc : Nat} {t : Arr2 β} {rows : List (List β)} (h : TabOK nr nc t rows)
    (hfull : rows.length = nr) (hlen : ∀ r ∈ rows, r.length = nc) : t.toRows = some rows := by
  obtain ⟨wf, hr, hc, hv⟩ := h
  apply Arr2.toRows_eq
  · rw [hfull, hr]
  · intro i hi
    have hl := hlen rows[i] (List.getElem_mem hi)
    refine ⟨by rw [hl, hc], ?_⟩
    intro j hj
    rw [hv i hi j (by omega)]
    simp [hj]

/-- the slice `t[:rows.length]` is exactly `rows` -/
theorem take_toRows {nr nc : Nat} {t : Arr2 β} {rows : List (List β)} (h : TabOK nr nc t rows)
    (hle : rows.length ≤ nr) (hlen : ∀ r ∈ rows, r.length = nc) :
    (t.take (rows.length : Int)).bind Arr2.toRows = some rows := by
  obtain ⟨wf, hr, hc, hv⟩ := h
  rw [Arr2.take_natCast t rows.length (by omega), Option.bind_some]
  apply Arr2.toRows_eq
  · rfl
  · intro i hi
    have hl := hlen rows[i] (List.getElem_mem hi)
    refine ⟨by simp [hl, hc], ?_⟩
    intro j hj
    rw [Arr2.val_take t rows.length i j wf (by omega) hi, hv i hi j (by omega)]
    simp [hj]

end TabOK

end PyYetiVerif.RainflowGen
