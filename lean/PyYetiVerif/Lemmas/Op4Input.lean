import PyYetiVerif.Lemmas.Op4Sparse
import PyYetiVerif.Model.Op4Input
/-! C04: `write` on its arguments = the checked ndarray writer on the normalised matrices. -/
namespace PyYetiVerif.Op4
open PyYetiVerif.Generated.Op4Consts

theorem writeOneWords_dense (add : Nat → Nat → Nat) (e : Endian) (lay : Layout) (w : WMat) :
    writeOneWords add e lay w = writeMatWords e lay (w.dense add) := by
  cases w with
  | nd m => rfl
  | sp name form A =>
    have henc := encMatWordsSp_eq add e lay name form A
    simp only [writeOneWords, writeMatWords, WMat.dense]
    rw [henc]
    have hlen : (denseMat add name form A).cols.length = A.ncols := by simp [denseMat]
    have hall : ((List.range A.ncols).all
          (fun c => decide (recLen lay A.cplx (denseCol add A c) < 2147483648))) =
        (denseMat add name form A).cols.all
          (fun col => decide (recLen lay (denseMat add name form A).cplx col < 2147483648)) := by
      simp only [denseMat, List.all_map, Function.comp_def]
      rfl
    simp only [hlen, hall]
    rfl

theorem writeAllWords_dense (add : Nat → Nat → Nat) (e : Endian) : ∀ (ws : List (Layout × WMat)),
    writeAllWords add e ws = writeFileWords e (ws.map fun p => (p.1, p.2.dense add)) := by
  intro ws
  induction ws with
  | nil => rfl
  | cons p t ih =>
    obtain ⟨lay, w⟩ := p
    simp only [writeAllWords, List.map_cons, writeFileWords]
    rw [writeOneWords_dense add e lay w, ih]

theorem writeOneAscii_dense (add : Nat → Nat → Nat) (d : Nat) (lay : Layout) (w : WMat) :
    writeOneAscii add d lay w = encMatAscii d lay (w.dense add) := by
  cases w with
  | nd m => rfl
  | sp name form A => exact encMatAsciiSp_eq add d lay name form A

theorem zip3_length {α β γ} : ∀ (a : List α) (b : List β) (c : List γ),
    (zip3 a b c).length = min a.length (min b.length c.length) := by
  intro a
  induction a with
  | nil => intro b c; simp [zip3]
  | cons x xs ih =>
    intro b c
    cases b with
    | nil => simp [zip3]
    | cons y ys =>
      cases c with
      | nil => simp [zip3]
      | cons z zs => simp only [zip3, List.length_cons, ih]; omega

theorem checkNames_length : ∀ (ns : List Name) (i : Nat), (checkNames i ns).length = ns.length := by
  intro ns
  induction ns with
  | nil => intro i; rfl
  | cons n t ih => intro i; simp [checkNames, ih]

theorem checkNames_get : ∀ (ns : List Name) (i k : Nat), (checkNames i ns)[k]? = (ns[k]?).map (writeName (i + k)) := by
  intro ns
  induction ns with
  | nil => intro i k; simp [checkNames]
  | cons n t ih =>
    intro i k
    cases k with
    | zero => simp [checkNames]
    | succ k =>
      simp only [checkNames, List.getElem?_cons_succ, ih]
      congr 2
      omega

theorem zip3_get {α β γ} : ∀ (a : List α) (b : List β) (c : List γ) (k : Nat) (x : α × β × γ),
    (zip3 a b c)[k]? = some x → a[k]? = some x.1 ∧ b[k]? = some x.2.1 ∧ c[k]? = some x.2.2 := by
  intro a
  induction a with
  | nil => intro b c k x h; simp [zip3] at h
  | cons a0 as ih =>
    intro b c k x h
    cases b with
    | nil => simp [zip3] at h
    | cons b0 bs =>
      cases c with
      | nil => simp [zip3] at h
      | cons c0 cs =>
        cases k with
        | zero => simp only [zip3, List.getElem?_cons_zero, Option.some.injEq] at h; subst h; simp
        | succ k => simp only [zip3, List.getElem?_cons_succ] at h ⊢; exact ih bs cs k x h

theorem mapM_some_get {α β} (f : α → Option β) : ∀ (l : List α) (ws : List β), l.mapM f = some ws →
    ws.length = l.length ∧ ∀ (k : Nat) (y : β), ws[k]? = some y → ∃ x, l[k]? = some x ∧ f x = some y := by
  intro l
  induction l with
  | nil =>
    intro ws h
    simp only [List.mapM_nil, Option.pure_def, Option.some.injEq] at h
    subst h
    exact ⟨rfl, fun k y hy => by simp at hy⟩
  | cons a t ih =>
    intro ws h
    simp only [List.mapM_cons, Option.pure_def, Option.bind_eq_bind] at h
    cases hfa : f a with
    | none => simp [hfa] at h
    | some b =>
      cases ht : t.mapM f with
      | none => simp [hfa, ht] at h
      | some bs =>
        simp only [hfa, ht, Option.bind_some, Option.some.injEq] at h
        subst h
        obtain ⟨h1, h2⟩ := ih bs ht
        refine ⟨by simp [h1], ?_⟩
        intro k y hy
        cases k with
        | zero => simp only [List.getElem?_cons_zero, Option.some.injEq] at hy; subst hy; exact ⟨a, by simp, hfa⟩
        | succ k => simp only [List.getElem?_cons_succ] at hy ⊢; exact h2 k y hy

/-- a 1-d array of `n` elements is written as the `1 × n` matrix (one row) -/
theorem colsOfNd_vector (a : NdIn) (n : Nat) (hlen : a.elems.length = n) :
    colsOfNd a 1 n = a.elems.map fun x => [entryOfRaw a.cplx x] := by
  unfold colsOfNd
  apply List.ext_getElem
  · simp [hlen]
  · intro j h1 h2
    have hj : j < n := by simpa using h1
    simp only [List.getElem_map, List.getElem_range, colOfRowMajor, List.range_one, List.map_cons, List.map_nil,
      Nat.zero_mul, Nat.zero_add]
    rw [List.getD_eq_getElem?_getD, List.getElem?_eq_getElem (by omega)]
    rfl

end PyYetiVerif.Op4
