import PyYetiVerif.Lemmas.GenMachine
import PyYetiVerif.Model.GenMachineInst
/-!
Helper lemmas for `Props/C08Inst.lean`: the concrete generators are instances of the abstract
one-step machine.
-/
namespace PyYetiVerif.GenMachine

theorem DV.add_zero' {M : Type} [AddMonoid M] (x : DV M) : x + 0 = x := by
  cases x; simp only [DV.add_def, DV.zero_def, add_zero]

theorem upd_self {α : Type} (g : Nat → α) (i : Nat) : upd g i (g i) = g := by
  funext j
  by_cases h : j = i
  · subst h; exact upd_same _ _ _
  · exact upd_ne _ _ h

instance {R E : Type} [AddSemigroup R] [AddSemigroup E] : AddSemigroup (CX R E) where
  add_assoc a b c := by
    show CX.mk _ _ _ _ = CX.mk _ _ _ _
    congr 1 <;> exact add_assoc _ _ _

theorem CX.add_def {R E : Type} [Add R] [Add E] (a b : CX R E) :
    a + b = ⟨a.drb + b.drb, a.vrb + b.vrb, a.del + b.del, a.vel + b.vel⟩ := rfl
theorem CX.zero_def {R E : Type} [Zero R] [Zero E] : (0 : CX R E) = ⟨0, 0, 0, 0⟩ := rfl
theorem CW.add_def {R S : Type} [Add R] [Add S] (a b : CW R S) :
    a + b = ⟨a.rf + b.rf, a.arb + b.arb⟩ := rfl
theorem P3.add_def {R E S : Type} [Add R] [Add E] [Add S] (a b : P3 R E S) :
    a + b = ⟨a.rb + b.rb, a.el + b.el, a.rf + b.rf⟩ := rfl

theorem CX.add_zero' {R E : Type} [AddMonoid R] [AddMonoid E] (x : CX R E) : x + 0 = x := by
  cases x; simp only [CX.add_def, CX.zero_def, add_zero]

/-! ### real-uncoupled -/
section unc
variable {V M W : Type} [Add V] [AddMonoid M] [Add W]

omit [Add V] [Add W] in
theorem uncSendAt_eq (c : UncCoef V M W) (s : State V (DV M) W) (prev i : Nat) (f : V) :
    uncSendAt c s prev i f = sendAt (uncLin c) s prev i f := by
  cases ho : c.order1
  · simp only [uncSendAt, sendAt, uncLin, ho, Bool.false_eq_true, if_false, DV.add_def,
      DV.zero_def, add_zero]
  · simp only [uncSendAt, sendAt, uncLin, ho, if_true, DV.add_def]

theorem uncAddon_eq (c : UncCoef V M W) (s : State V (DV M) W) (f : V) :
    uncAddon c s f = addonAt (uncLin c) s f := by
  cases ho : c.order1
  · simp only [uncAddon, addonAt, uncLin, ho, Bool.false_eq_true, if_false, DV.add_zero',
      upd_self]
  · simp only [uncAddon, addonAt, uncLin, ho, if_true, DV.add_def]

end unc

/-! ### SolveExp2 -/
section exp2
variable {V M W : Type} [Add V] [AddMonoid M] [Add W]

omit [Add V] [Add W] in
theorem exp2SendAt_eq (c : Exp2Coef V M W) (s : State V (DV M) W) (prev i : Nat) (f : V) :
    exp2SendAt c s prev i f = sendAt (exp2Lin c) s prev i f := by
  cases ho : c.order1
  · simp only [exp2SendAt, sendAt, exp2Lin, ho, Bool.false_eq_true, if_false, DV.add_def,
      DV.zero_def, add_zero]
  · simp only [exp2SendAt, sendAt, exp2Lin, ho, if_true, DV.add_def, add_assoc]

theorem exp2Addon_eq (c : Exp2Coef V M W) (s : State V (DV M) W) (f : V) :
    exp2Addon c s f = addonAt (exp2Lin c) s f := by
  cases ho : c.order1
  · simp only [exp2Addon, addonAt, exp2Lin, ho, Bool.false_eq_true, if_false, DV.add_zero',
      upd_self]
  · simp only [exp2Addon, addonAt, exp2Lin, ho, if_true, DV.add_def]

end exp2

/-! ### complex path -/

/-- the maps the complex generator sends sums through are additive (they are scalings and matrix
products) -/
structure CplxAdditive {R E S Y : Type} [Add R] [Add E] [Add Y] (c : CplxCoef R E S Y) :
    Prop where
  A : ∀ a b, c.A (a + b) = c.A a + c.A b
  Ap : ∀ a b, c.Ap (a + b) = c.Ap a + c.Ap b
  Fe : ∀ a b, c.Fe (a + b) = c.Fe a + c.Fe b
  recD : ∀ a b, c.recD (a + b) = c.recD a + c.recD b
  recV : ∀ a b, c.recV (a + b) = c.recV a + c.recV b

section cplx
variable {R E S Y : Type} [AddMonoid R] [AddMonoid E] [Add S] [Add Y]

omit [Add S] in
theorem cplxSendAt_eq (c : CplxCoef R E S Y) (h : CplxAdditive c) (s : CState R E S)
    (prev i : Nat) (f : P3 R E S) :
    cplxSendAt c s prev i f = sendAt (cplxLin c) s prev i f := by
  cases ho : c.order1
  · simp only [cplxSendAt, sendAt, cplxLin, ho, Bool.false_eq_true, if_false, CX.add_def,
      CX.zero_def, add_zero, h.recD, h.recV]
  · simp only [cplxSendAt, sendAt, cplxLin, ho, if_true, CX.add_def, h.recD, h.recV, h.A, h.Ap,
      add_assoc]

theorem cplxAddon_eq (c : CplxCoef R E S Y) (s : CState R E S) (f : P3 R E S) :
    cplxAddon c s f = addonAt (cplxLin c) s f := by
  cases ho : c.order1
  · simp only [cplxAddon, addonAt, cplxLin, ho, Bool.false_eq_true, if_false, CX.add_zero',
      upd_self, CW.add_def]
  · simp only [cplxAddon, addonAt, cplxLin, ho, if_true, CX.add_def, CW.add_def]

end cplx

end PyYetiVerif.GenMachine
