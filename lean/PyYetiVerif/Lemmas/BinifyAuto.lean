import PyYetiVerif.Lemmas.Binify
import Mathlib.Algebra.Order.Field.Basic
import Mathlib.Data.List.Range
import Mathlib.Tactic.Ring
import Mathlib.Tactic.Linarith
import Mathlib.Tactic.FieldSimp
/-! Helper lemmas for C10 / automatically generated bins (`getbins` with an integer count):
the edges are strictly increasing and every value of `[mn, mx]` lies in some bin's documented
half-open interval. -/
set_option linter.unusedSectionVars false
set_option linter.unusedVariables false
namespace PyYetiVerif.Binify

section order
variable {α : Type} [LinearOrder α]

/-- a value is covered by the bins when some bin's documented interval contains it -/
def Covered (right : Bool) (bins : List α) (x : α) : Prop :=
  ∃ k lo hi, bins[k]? = some lo ∧ bins[k + 1]? = some hi ∧ inBin right lo hi x

theorem inBin_of_below (right : Bool) (lo hi x : α) (h1 : below right x lo = true)
    (h2 : below right x hi = false) : inBin right lo hi x := by
  unfold inBin
  unfold below at h1 h2
  cases right <;> simp at * <;> exact ⟨h1, h2⟩

/-- a value that is "above" the first edge and "not above" the last edge (in the sense of the
`right` convention) lies in some bin: somewhere along the list the predicate flips. -/
theorem covered_of_flip (right : Bool) (x : α) :
    ∀ (bins : List α) (b0 bl : α), bins.head? = some b0 → bins.getLast? = some bl →
      below right x b0 = true → below right x bl = false → Covered right bins x := by
  intro bins
  induction bins with
  | nil => intro b0 bl h; simp at h
  | cons a t ih =>
      intro b0 bl h0 hl hb0 hbl
      simp only [List.head?_cons, Option.some.injEq] at h0
      subst h0
      cases t with
      | nil =>
          simp only [List.getLast?_singleton, Option.some.injEq] at hl
          subst hl
          rw [hb0] at hbl; cases hbl
      | cons b t' =>
          by_cases hb : below right x b = true
          · have hl' : (b :: t').getLast? = some bl := by
              rw [List.getLast?_cons_cons] at hl; exact hl
            obtain ⟨k, lo, hi, e1, e2, e3⟩ := ih b bl rfl hl' hb hbl
            exact ⟨k + 1, lo, hi, by simpa using e1, by simpa using e2, e3⟩
          · have hb' : below right x b = false := by
              cases h : below right x b <;> simp_all
            exact ⟨0, a, b, rfl, rfl, inBin_of_below right a b x hb0 hb'⟩

end order

section field
variable {α : Type} [Field α] [LinearOrder α] [IsStrictOrderedRing α]

theorem fixRange_lt (mx mn : α) : (fixRange mx mn).2 < (fixRange mx mn).1 := by
  unfold fixRange
  by_cases h1 : mx < mn
  · simp [h1]
  · by_cases h2 : mn < mx
    · simp [h1, h2]
    · have : mx = mn := le_antisymm (not_lt.mp h2) (not_lt.mp h1)
      subst this
      simp only [h1, if_false]
      norm_num
      linarith [show (0 : α) < 2⁻¹ by norm_num]

/-- every value between `mn` and `mx` (given in either order) lies in the fixed-up range -/
theorem fixRange_contains (mx mn x : α) (h1 : min mx mn ≤ x) (h2 : x ≤ max mx mn) :
    (fixRange mx mn).2 ≤ x ∧ x ≤ (fixRange mx mn).1 := by
  unfold fixRange
  by_cases c1 : mx < mn
  · simp only [c1, if_true]
    rw [min_eq_left (le_of_lt c1)] at h1
    rw [max_eq_right (le_of_lt c1)] at h2
    exact ⟨h1, h2⟩
  · by_cases c2 : mn < mx
    · simp only [c1, c2, if_true, if_false]
      rw [min_eq_right (le_of_lt c2)] at h1
      rw [max_eq_left (le_of_lt c2)] at h2
      exact ⟨h1, h2⟩
    · have : mx = mn := le_antisymm (not_lt.mp c2) (not_lt.mp c1)
      subst this
      simp only [c1, if_false]
      rw [min_self] at h1
      rw [max_self] at h2
      have hp : (0 : α) < (Nat.cast 1 : α) / (Nat.cast 2 : α) := by norm_num
      constructor <;> linarith

theorem linspace_head (lo hi : α) (n : Nat) (hn : 0 < n) : (linspace lo hi n).head? = some lo := by
  unfold linspace
  obtain ⟨m, rfl⟩ := Nat.exists_eq_succ_of_ne_zero (Nat.pos_iff_ne_zero.mp hn)
  rw [List.range_succ_eq_map]
  simp

theorem linspace_getLast (lo hi : α) (n : Nat) : (linspace lo hi n).getLast? = some hi := by
  unfold linspace
  simp

theorem linspace_length (lo hi : α) (n : Nat) : (linspace lo hi n).length = n + 1 := by
  unfold linspace
  simp

/-- the `np.linspace` edges are strictly increasing -/
theorem linspace_pairwise (lo hi : α) (h : lo < hi) (n : Nat) (hn : 0 < n) :
    (linspace lo hi n).Pairwise (· < ·) := by
  unfold linspace
  have hn' : (0 : α) < (n : α) := by exact_mod_cast hn
  have hstep : 0 < (hi - lo) / (n : α) := div_pos (by linarith) hn'
  rw [List.pairwise_append]
  refine ⟨?_, by simp, ?_⟩
  · rw [List.pairwise_map]
    refine (List.pairwise_lt_range (n := n)).imp ?_
    intro a b hab
    have : (a : α) < (b : α) := by exact_mod_cast hab
    nlinarith
  · intro a ha b hb
    simp only [List.mem_singleton] at hb
    subst hb
    obtain ⟨k, hk, rfl⟩ := List.mem_map.mp ha
    have hk' : (k : α) < (n : α) := by exact_mod_cast List.mem_range.mp hk
    have e : (n : α) * ((b - lo) / (n : α)) = b - lo := by field_simp
    nlinarith

theorem subFirst_head (p a : α) (r : List α) : (subFirst p (a :: r)).head? = some (a - p) := rfl

theorem subFirst_getLast (p : α) (a b : α) (r : List α) :
    (subFirst p (a :: b :: r)).getLast? = (a :: b :: r).getLast? := by
  simp [subFirst, List.getLast?_cons_cons]

theorem subFirst_pairwise (p : α) (hp : 0 < p) (l : List α) (h : l.Pairwise (· < ·)) :
    (subFirst p l).Pairwise (· < ·) := by
  cases l with
  | nil => simp [subFirst]
  | cons a r =>
      simp only [subFirst]
      rw [List.pairwise_cons] at h ⊢
      exact ⟨fun y hy => by have := h.1 y hy; linarith, h.2⟩

theorem mem_addLast (p : α) (l : List α) (y : α) (hy : y ∈ addLast p l) :
    y ∈ l ∨ ∃ z ∈ l, y = z + p := by
  induction l with
  | nil => simp [addLast] at hy
  | cons a r ih =>
      cases r with
      | nil =>
          simp only [addLast, List.mem_singleton] at hy
          exact Or.inr ⟨a, by simp, hy⟩
      | cons b r' =>
          simp only [addLast, List.mem_cons] at hy
          rcases hy with rfl | hy
          · exact Or.inl (by simp)
          · rcases ih (by simpa [addLast] using hy) with h | ⟨z, hz, e⟩
            · exact Or.inl (List.mem_cons_of_mem _ h)
            · exact Or.inr ⟨z, List.mem_cons_of_mem _ hz, e⟩

theorem addLast_pairwise (p : α) (hp : 0 < p) (l : List α) (h : l.Pairwise (· < ·)) :
    (addLast p l).Pairwise (· < ·) := by
  induction l with
  | nil => simp [addLast]
  | cons a r ih =>
      cases r with
      | nil => simp [addLast]
      | cons b r' =>
          rw [List.pairwise_cons] at h
          have ih' := ih h.2
          simp only [addLast] at ih' ⊢
          rw [List.pairwise_cons]
          refine ⟨?_, ih'⟩
          intro y hy
          rcases mem_addLast p (b :: r') y (by simpa [addLast] using hy) with hm | ⟨z, hz, e⟩
          · exact h.1 y hm
          · have := h.1 z hz; linarith

theorem addLast_head (p a b : α) (r : List α) : (addLast p (a :: b :: r)).head? = some a := rfl

theorem addLast_getLast (p : α) (l : List α) (z : α) (h : l.getLast? = some z) :
    (addLast p l).getLast? = some (z + p) := by
  induction l with
  | nil => simp at h
  | cons a r ih =>
      cases r with
      | nil =>
          simp only [List.getLast?_singleton, Option.some.injEq] at h
          subst h
          simp [addLast]
      | cons b r' =>
          rw [List.getLast?_cons_cons] at h
          have := ih h
          simp only [addLast] at this ⊢
          cases hr : addLast p (b :: r') with
          | nil =>
              cases r' <;> simp [addLast] at hr
          | cons c s =>
              rw [List.getLast?_cons_cons, ← hr]
              exact this

/-- the edges produced for an integer bin count are strictly increasing -/
theorem getbinsScalar_pairwise (n : Nat) (hn : 0 < n) (mx mn : α) (right : Bool) :
    (getbinsScalar n mx mn right).Pairwise (· < ·) := by
  unfold getbinsScalar
  have hr := fixRange_lt mx mn
  have hp : 0 < ((fixRange mx mn).1 - (fixRange mx mn).2) / (Nat.cast 1000 : α) :=
    div_pos (by linarith) (by norm_num)
  have hl := linspace_pairwise _ _ hr n hn
  cases right
  · simp only [Bool.false_eq_true, if_false]
    exact addLast_pairwise _ hp _ hl
  · simp only [if_true]
    exact subFirst_pairwise _ hp _ hl

theorem getbinsScalar_length (n : Nat) (mx mn : α) (right : Bool) :
    (getbinsScalar n mx mn right).length = n + 1 := by
  unfold getbinsScalar
  have : ∀ (p : α) (l : List α), (subFirst p l).length = l.length := by
    intro p l; cases l <;> simp [subFirst]
  have h2 : ∀ (p : α) (l : List α), (addLast p l).length = l.length := by
    intro p l
    induction l with
    | nil => simp [addLast]
    | cons a r ih => cases r <;> simp_all [addLast]
  cases right <;> simp [this, h2, linspace_length]

/-- **the bins generated for an integer count cover the fixed-up data range**: every `x` with
`lo ≤ x ≤ hi` lies in the documented half-open interval of some bin — for `right = True` because
the first edge is nudged *below* `lo` (`bb[0] -= p`), for `right = False` because the last edge
is nudged *above* `hi` (`bb[-1] += p`). -/
theorem getbinsScalar_covers (n : Nat) (hn : 0 < n) (mx mn : α) (right : Bool) (x : α)
    (h1 : (fixRange mx mn).2 ≤ x) (h2 : x ≤ (fixRange mx mn).1) :
    Covered right (getbinsScalar n mx mn right) x := by
  unfold getbinsScalar
  have hr := fixRange_lt mx mn
  set lo := (fixRange mx mn).2
  set hi := (fixRange mx mn).1
  have hp : 0 < (hi - lo) / (Nat.cast 1000 : α) := div_pos (by linarith) (by norm_num)
  have hlen := linspace_length lo hi n
  have hh := linspace_head lo hi n hn
  have hg := linspace_getLast lo hi n
  -- the list has at least two entries
  obtain ⟨a, b, r, e⟩ : ∃ a b r, linspace lo hi n = a :: b :: r := by
    match hL : linspace lo hi n, hlen with
    | [], h => simp at h
    | [_], h => simp at h; omega
    | a :: b :: r, _ => exact ⟨a, b, r, rfl⟩
  simp only []
  rw [e] at hh hg
  simp only [List.head?_cons, Option.some.injEq] at hh
  subst hh
  cases right
  · simp only [Bool.false_eq_true, if_false]
    rw [e]
    refine covered_of_flip false x _ lo (hi + (hi - lo) / (Nat.cast 1000 : α))
      (addLast_head _ lo b r) (addLast_getLast _ _ hi hg) ?_ ?_
    · simp [below]; exact h1
    · simp [below]; linarith
  · simp only [if_true]
    rw [e]
    refine covered_of_flip true x _ (lo - (hi - lo) / (Nat.cast 1000 : α)) hi
      (subFirst_head _ lo (b :: r)) (by rw [subFirst_getLast]; exact hg) ?_ ?_
    · simp [below]; linarith
    · simp [below]; exact h2

/-! ### `max` / `min` of the data columns -/

theorem foldl_max_ge' (r : List α) :
    ∀ m : α, m ≤ r.foldl (fun m x => if m < x then x else m) m ∧
      ∀ x ∈ r, x ≤ r.foldl (fun m x => if m < x then x else m) m := by
  induction r with
  | nil => intro m; simp
  | cons x r ih =>
      intro m
      simp only [List.foldl_cons]
      obtain ⟨h1, h2⟩ := ih (if m < x then x else m)
      have hm : m ≤ (if m < x then x else m) := by split <;> [exact le_of_lt ‹_›; exact le_refl _]
      have hx : x ≤ (if m < x then x else m) := by
        split
        · exact le_refl _
        · exact not_lt.mp ‹_›
      refine ⟨le_trans hm h1, ?_⟩
      intro d hd
      rcases List.mem_cons.mp hd with rfl | hd
      · exact le_trans hx h1
      · exact h2 d hd

theorem foldl_min_le' (r : List α) :
    ∀ m : α, r.foldl (fun m x => if x < m then x else m) m ≤ m ∧
      ∀ x ∈ r, r.foldl (fun m x => if x < m then x else m) m ≤ x := by
  induction r with
  | nil => intro m; simp
  | cons x r ih =>
      intro m
      simp only [List.foldl_cons]
      obtain ⟨h1, h2⟩ := ih (if x < m then x else m)
      have hm : (if x < m then x else m) ≤ m := by split <;> [exact le_of_lt ‹_›; exact le_refl _]
      have hx : (if x < m then x else m) ≤ x := by
        split
        · exact le_refl _
        · exact not_lt.mp ‹_›
      refine ⟨le_trans h1 hm, ?_⟩
      intro d hd
      rcases List.mem_cons.mp hd with rfl | hd
      · exact le_trans h1 hx
      · exact h2 d hd

theorem maxOf_spec (a : α) (r : List α) : ∃ M, maxOf (a :: r) = some M ∧ ∀ x ∈ a :: r, x ≤ M := by
  refine ⟨_, rfl, ?_⟩
  obtain ⟨h1, h2⟩ := foldl_max_ge' r a
  intro x hx
  rcases List.mem_cons.mp hx with rfl | hx
  · exact h1
  · exact h2 x hx

theorem minOf_spec (a : α) (r : List α) : ∃ M, minOf (a :: r) = some M ∧ ∀ x ∈ a :: r, M ≤ x := by
  refine ⟨_, rfl, ?_⟩
  obtain ⟨h1, h2⟩ := foldl_min_le' r a
  intro x hx
  rcases List.mem_cons.mp hx with rfl | hx
  · exact h1
  · exact h2 x hx

end field

end PyYetiVerif.Binify
