import PyYetiVerif.Model.BulkDmigX
import PyYetiVerif.Lemmas.BulkDmigText
/-! Helper lemmas for `rddmig(expanded=…, square=…)` (C13; core Lean only): the expansion of a label
list, the relation between the option reader and the plain reader on ANY card list, the cells that no
written term addresses. -/
namespace PyYetiVerif.Bulk

/-! ### `_add_iddof_expanded` -/

theorem mem_sixOf (n : Int) (q : Int × Int) : q ∈ sixOf n ↔ q.1 = n ∧ 1 ≤ q.2 ∧ q.2 ≤ 6 := by
  rcases q with ⟨a, b⟩
  simp only [sixOf, List.mem_cons, Prod.mk.injEq, List.not_mem_nil, or_false]
  omega

theorem mem_expOf (p q : Int × Int) :
    q ∈ expOf p ↔ q.1 = p.1 ∧ (if 0 < p.2 then 1 ≤ q.2 ∧ q.2 ≤ 6 else q.2 = 0) := by
  unfold expOf
  split
  · exact mem_sixOf p.1 q
  · rcases q with ⟨a, b⟩
    simp

/-- `q` is one of the labels the expansion makes of `p`, only through the id and the kind of `p` -/
theorem mem_expOf_congr (p p' q : Int × Int) (h1 : p.1 = p'.1) (h2 : 0 < p.2 ↔ 0 < p'.2) :
    q ∈ expOf p ↔ q ∈ expOf p' := by
  rw [mem_expOf, mem_expOf, h1]
  by_cases h : 0 < p.2
  · simp [h, h2.mp h]
  · have : ¬ 0 < p'.2 := fun h' => h (h2.mpr h')
    simp [h, this]

/-- an id is used either as a scalar point (DOF 0) or as a grid (DOF > 0) throughout the list -/
def Consistent (ls : List (Int × Int)) : Prop :=
  ∀ p ∈ ls, ∀ q ∈ ls, p.1 = q.1 → (0 < p.2 ↔ 0 < q.2)

theorem Consistent.mono {l l' : List (Int × Int)} (h : Consistent l) (hs : ∀ p ∈ l', p ∈ l) : Consistent l' :=
  fun p hp q hq e => h p (hs p hp) q (hs q hq) e

/-- the ids seen are exactly the ids of the labels collected -/
def StOK (st : List Int × List (Int × Int)) : Prop := ∀ n, n ∈ st.1 ↔ ∃ q ∈ st.2, q.1 = n

theorem expOf_ne_nil (p : Int × Int) : ∃ q, q ∈ expOf p := by
  unfold expOf; split
  · exact ⟨(p.1, 1), by simp [sixOf]⟩
  · exact ⟨(p.1, 0), by simp⟩

theorem addExp_ok (st : List Int × List (Int × Int)) (p : Int × Int) (h : StOK st) : StOK (addExp st p) := by
  unfold addExp
  split
  · exact h
  · intro n
    simp only [List.mem_cons, List.mem_append]
    constructor
    · rintro (rfl | hn)
      · obtain ⟨q, hq⟩ := expOf_ne_nil p
        exact ⟨q, Or.inr hq, ((mem_expOf p q).mp hq).1⟩
      · obtain ⟨q, hq, e⟩ := (h n).mp hn
        exact ⟨q, Or.inl hq, e⟩
    · rintro ⟨q, hq | hq, e⟩
      · exact Or.inr ((h n).mpr ⟨q, hq, e⟩)
      · exact Or.inl (by rw [← e]; exact ((mem_expOf p q).mp hq).1)

theorem mem_expandAll (ls : List (Int × Int)) (hc : Consistent ls) :
    ∀ st, StOK st → StOK (expandAll st ls) ∧
      ∀ q, q ∈ (expandAll st ls).2 ↔ q ∈ st.2 ∨ (q.1 ∉ st.1 ∧ ∃ p ∈ ls, q ∈ expOf p) := by
  induction ls with
  | nil => intro st h; exact ⟨h, fun q => by simp [expandAll]⟩
  | cons a r ih =>
      intro st h
      have hcr : Consistent r := hc.mono (fun p hp => by simp [hp])
      obtain ⟨ok', hm⟩ := ih hcr (addExp st a) (addExp_ok st a h)
      refine ⟨ok', fun q => ?_⟩
      have e : expandAll st (a :: r) = expandAll (addExp st a) r := rfl
      rw [e, hm]
      by_cases hin : a.1 ∈ st.1
      · have hst : addExp st a = st := by
          unfold addExp; rw [if_pos (by simpa using hin)]
        rw [hst]
        constructor
        · rintro (h1 | ⟨h1, p, hp, hq⟩)
          · exact Or.inl h1
          · exact Or.inr ⟨h1, p, by simp [hp], hq⟩
        · rintro (h1 | ⟨h1, p, hp, hq⟩)
          · exact Or.inl h1
          · rcases List.mem_cons.mp hp with rfl | hp
            · exact absurd (by rw [((mem_expOf _ q).mp hq).1]; exact hin) h1
            · exact Or.inr ⟨h1, p, hp, hq⟩
      · have hst : addExp st a = (a.1 :: st.1, st.2 ++ expOf a) := by
          unfold addExp; rw [if_neg (by simpa using hin)]
        rw [hst]
        simp only [List.mem_append, List.mem_cons, not_or]
        constructor
        · rintro ((h1 | h1) | ⟨⟨h1, h2⟩, p, hp, hq⟩)
          · exact Or.inl h1
          · refine Or.inr ⟨?_, a, Or.inl rfl, h1⟩
            rw [((mem_expOf a q).mp h1).1]; exact hin
          · exact Or.inr ⟨h2, p, Or.inr hp, hq⟩
        · rintro (h1 | ⟨h1, p, hp, hq⟩)
          · exact Or.inl (Or.inl h1)
          · rcases hp with rfl | hp
            · exact Or.inl (Or.inr hq)
            · by_cases hqa : q.1 = a.1
              · refine Or.inl (Or.inr ?_)
                have hp1 : p.1 = a.1 := by rw [← ((mem_expOf p q).mp hq).1]; exact hqa
                exact (mem_expOf_congr p a q hp1 (hc p (by simp [hp]) a (by simp) hp1)).mp hq
              · exact Or.inr ⟨⟨hqa, h1⟩, p, hp, hq⟩

theorem stOK_nil : StOK ([], []) := fun n => by simp

/-- the expanded label list of a consistent list, by membership -/
theorem mem_expand_nil (ls : List (Int × Int)) (hc : Consistent ls) (q : Int × Int) :
    q ∈ (expandAll ([], []) ls).2 ↔ ∃ p ∈ ls, q ∈ expOf p := by
  have := (mem_expandAll ls hc ([], []) stOK_nil).2 q
  simpa using this

/-- expanding an expanded list again changes nothing (by membership) -/
theorem expOf_expOf (p p' q : Int × Int) (h1 : p' ∈ expOf p) (h2 : q ∈ expOf p') : q ∈ expOf p := by
  have a := (mem_expOf p p').mp h1
  have b := (mem_expOf p' q).mp h2
  rw [mem_expOf]
  refine ⟨b.1.trans a.1, ?_⟩
  by_cases h : 0 < p.2
  · simp only [h, if_true] at a ⊢
    have : 0 < p'.2 := by omega
    simpa [this] using b.2
  · simp only [h, if_false] at a ⊢
    have : ¬ 0 < p'.2 := by omega
    simpa [this] using b.2

theorem expOf_self_kind (p p' : Int × Int) (h : p' ∈ expOf p) : p'.1 = p.1 ∧ (0 < p'.2 ↔ 0 < p.2) := by
  have a := (mem_expOf p p').mp h
  refine ⟨a.1, ?_⟩
  by_cases hp : 0 < p.2
  · simp only [hp, if_true] at a; constructor <;> intro <;> omega
  · simp only [hp, if_false] at a; constructor <;> intro <;> omega

/-- `q ∈ expOf p'` and `p' ∈ expOf p`-related: going back from an expanded label -/
theorem expOf_of_expanded (p p' q : Int × Int) (h1 : p' ∈ expOf p) (h2 : q ∈ expOf p) : q ∈ expOf p' := by
  obtain ⟨e1, e2⟩ := expOf_self_kind p p' h1
  exact (mem_expOf_congr p p' q e1.symm e2.symm).mp h2

theorem consistent_expanded (ls : List (Int × Int)) (hc : Consistent ls) :
    Consistent (expandAll ([], []) ls).2 := by
  intro a ha b hb e
  obtain ⟨p, hp, hap⟩ := (mem_expand_nil ls hc a).mp ha
  obtain ⟨p', hp', hbp⟩ := (mem_expand_nil ls hc b).mp hb
  obtain ⟨a1, a2⟩ := expOf_self_kind p a hap
  obtain ⟨b1, b2⟩ := expOf_self_kind p' b hbp
  have := hc p hp p' hp' (by rw [← a1, ← b1]; exact e)
  rw [a2, b2]; exact this

/-- the union index of the expanded reader (`for nid, dof in col_iddof: add_iddof(row_ids, …)`), by
membership: the expansion of the row labels and of the column labels -/
theorem mem_expand_union (rowL colL : List (Int × Int)) (hc : Consistent (rowL ++ colL)) (q : Int × Int) :
    q ∈ (expandAll (expandAll ([], []) rowL) (expandAll ([], []) colL).2).2 ↔ ∃ p ∈ rowL ++ colL, q ∈ expOf p := by
  have hcr : Consistent rowL := hc.mono (fun p hp => by simp [hp])
  have hcc : Consistent colL := hc.mono (fun p hp => by simp [hp])
  obtain ⟨okr, hmr⟩ := mem_expandAll rowL hcr ([], []) stOK_nil
  have hce : Consistent (expandAll ([], []) colL).2 := consistent_expanded colL hcc
  have := (mem_expandAll _ hce _ okr).2 q
  rw [this, hmr]
  simp only [List.not_mem_nil, false_or, not_false_eq_true, true_and, List.mem_append]
  constructor
  · rintro (⟨p, hp, hq⟩ | ⟨_, p', hp', hq⟩)
    · exact ⟨p, Or.inl hp, hq⟩
    · obtain ⟨p, hp, hpp⟩ := (mem_expand_nil colL hcc p').mp hp'
      exact ⟨p, Or.inr hp, expOf_expOf p p' q hpp hq⟩
  · rintro ⟨p, hp | hp, hq⟩
    · exact Or.inl ⟨p, hp, hq⟩
    · by_cases hseen : q.1 ∈ (expandAll ([], []) rowL).1
      · -- the id is already a row id: the row expansion has the label (same kind by consistency)
        obtain ⟨q', hq', e⟩ := (okr q.1).mp hseen
        obtain ⟨p0, hp0, hq0⟩ := (by simpa using (hmr q').mp hq' : ∃ p ∈ rowL, q' ∈ expOf p)
        left
        refine ⟨p0, hp0, ?_⟩
        have e0 : p0.1 = p.1 := by
          rw [← ((mem_expOf p0 q').mp hq0).1, e, ((mem_expOf p q).mp hq).1]
        exact (mem_expOf_congr p p0 q e0.symm (hc p (by simp [hp]) p0 (by simp [hp0]) e0.symm)).mp hq
      · right
        obtain ⟨p', hp'⟩ := expOf_ne_nil p
        -- `q` itself is in the expanded column list, and expands to itself
        refine ⟨hseen, q, (mem_expand_nil colL hcc q).mpr ⟨p, hp, hq⟩, ?_⟩
        exact expOf_of_expanded p q q hq hq

/-! ### the option reader against the plain reader, on any card list -/

theorem dmigOne_eq_parse (h : List Val) (nm : Txt) (cc : List (List Val)) :
    dmigOne h nm cc = (dmigParse cc).map fun pe =>
      { name := nm, form := h.getD 2 .blank, mtype := h.getD 3 .blank,
        rows := if (h.getD 2 .blank == .int 6) = true then sortSet (pe.2.flatten.map (·.1) ++ pe.1)
                else sortSet (pe.2.flatten.map (·.1)),
        cols := if (h.getD 2 .blank == .int 6) = true then sortSet (pe.2.flatten.map (·.1) ++ pe.1)
                else sortSet pe.1,
        entries := (pe.1.zip pe.2).flatMap fun (cl, es) => es.map fun (rl, x, y) => (rl, cl, x, y) } := by
  unfold dmigOne dmigParse
  simp only []
  generalize (List.mapM (fun c => lbl (c.getD 1 Val.blank) (c.getD 2 Val.blank)) cc) = A
  generalize (List.mapM (m := Option) (β := List ((Int × Int) × Val × Val)) _ cc) = B
  cases A <;> cases B <;> simp
  split <;> simp [*]

/-- with both options off the option reader IS the plain reader -/
theorem dmigOneX_default (h : List Val) (nm : Txt) (cc : List (List Val)) :
    dmigOneX ⟨false, false⟩ h nm cc = dmigOne h nm cc := by
  rw [dmigOne_eq_parse]
  unfold dmigOneX dmigIndex unionIdx
  cases dmigParse cc with
  | none => rfl
  | some pe =>
    obtain ⟨colL, ents⟩ := pe
    simp only [Bool.false_eq_true, if_false, Bool.and_false, Bool.or_false, Option.map_some]
    simp
    split <;> simp [*]

theorem dmigOneX_some (o : RdOpt) (h : List Val) (nm : Txt) (cc : List (List Val)) (r : DmigRead)
    (hx : dmigOneX o h nm cc = some r) :
    ∃ colL ents rows cols, dmigParse cc = some (colL, ents) ∧
      dmigIndex o (h.getD 2 .blank) (h.getD 7 .blank) (ents.flatten.map (·.1)) colL = some (rows, cols) ∧
      r = { name := nm, form := h.getD 2 .blank, mtype := h.getD 3 .blank, rows := rows, cols := cols,
            entries := (colL.zip ents).flatMap fun (cl, es) => es.map fun (rl, x, y) => (rl, cl, x, y) } := by
  unfold dmigOneX at hx
  cases hp : dmigParse cc with
  | none => rw [hp] at hx; simp at hx
  | some pe =>
    obtain ⟨colL, ents⟩ := pe
    rw [hp] at hx
    simp only at hx
    cases hi : dmigIndex o (h.getD 2 .blank) (h.getD 7 .blank) (ents.flatten.map (·.1)) colL with
    | none => rw [hi] at hx; simp at hx
    | some rc =>
      obtain ⟨rows, cols⟩ := rc
      rw [hi] at hx
      simp only [Option.some.injEq] at hx
      exact ⟨colL, ents, rows, cols, rfl, hi, hx.symm⟩

/-- two reads with the same header fields and the same assignments hold the same cells -/
theorem cell_congr (a b : DmigRead) (hf : a.form = b.form) (hm : a.mtype = b.mtype) (he : a.entries = b.entries) :
    a.cell = b.cell := by
  funext r c
  unfold DmigRead.cell DmigRead.assign DmigRead.isReal
  rw [hf, hm, he]

/-! ### cells no written term addresses -/

/-- a position that is not (row label, column label) of a non-zero term holds 0 -/
theorem cell_zero_elsewhere (enc : Int → Val) (d : Dmig) (nm : Txt) (hshape : d.m.length = d.rowids.length)
    (rl cl : Int × Int)
    (h : ¬ ∃ i j v, d.rowids[i]? = some rl ∧ j < d.colids.length ∧ d.colLabel j = cl ∧ d.At i j v ∧ v ≠ (0, 0)) :
    (d.readFrame enc nm).cell rl cl = (Val.int 0, Val.int 0) := by
  have : lastAssign (d.readFrame enc nm).assign rl cl = none := by
    apply lastAssign_none'
    intro e he hp
    rw [readFrame_assign] at he
    obtain ⟨⟨rl', cl', v'⟩, hm, rfl⟩ := List.mem_map.mp he
    simp only [Dmig.encE] at hp
    obtain ⟨hp1, hp2⟩ := hp
    subst hp1; subst hp2
    obtain ⟨hv, i, j, hj, hr, hc, hat⟩ := readBack_true_term d hshape _ _ _ hm
    exact h ⟨i, j, v', hr, hj, hc, hat, hv⟩
  unfold DmigRead.cell
  rw [this]

/-! ### the option reader on the written cards -/

theorem dmigParse_written (enc : Int → Val) (d : Dmig) :
    dmigParse (d.written enc) =
      some (d.cards.map (·.1), d.cards.map fun c => c.2.map fun e => (e.1, enc e.2.1, d.encIm enc e.2)) := by
  have hcol : (d.written enc).mapM (fun c => lbl (c.getD 1 Val.blank) (c.getD 2 Val.blank)) = some (d.cards.map (·.1)) := by
    unfold Dmig.written
    apply mapM_map_some
    intro c _
    simp only [Dmig.cardVals1]
    rw [cardVals_hdr_getD _ _ _ _ 1 (by simp), cardVals_hdr_getD _ _ _ _ 2 (by simp)]
    simp [lbl]
  have hent : (d.cards.map (d.cardVals1 enc)).mapM (fun c =>
      let ids := every4 4 c
      let dofs := every4 5 c
      let res := every4 6 c
      let ims := every4 7 c
      (((ids.zip dofs).zip (res.zip (ims ++ List.replicate res.length Val.blank))).mapM
        fun ((a, b), (x, y)) => (lbl a b).map fun l => (l, x, y))) =
      some (d.cards.map fun c => c.2.map fun e => (e.1, enc e.2.1, d.encIm enc e.2)) :=
    mapM_map_some d.cards (d.cardVals1 enc) _ _ (fun c _ => card_entries enc d c)
  unfold dmigParse
  simp only [Dmig.written] at hcol ⊢
  rw [hcol]
  simp only [hent]

theorem written_rowLabels (enc : Int → Val) (d : Dmig) :
    ((d.cards.map fun c => c.2.map fun e => (e.1, enc e.2.1, d.encIm enc e.2)).flatten.map (·.1)) =
      d.entries.map (·.1) := by
  simp [Dmig.entries, List.flatMap_def, List.map_flatten]
  congr 1
  apply List.map_congr_left
  intro c _
  simp [Function.comp]

theorem written_entries (enc : Int → Val) (d : Dmig) :
    ((d.cards.map (·.1)).zip (d.cards.map fun c => c.2.map fun e => (e.1, enc e.2.1, d.encIm enc e.2))).flatMap
      (fun x => x.2.map fun y => (y.1, x.1, y.2.1, y.2.2)) = d.entries.map (d.encE enc) := by
  rw [zip_map_same]
  simp [Dmig.entries, List.map_flatMap, List.flatMap_map]
  congr 1

/-- the option reader on the cards of `wtdmig`: the index lists of `dmigIndex` over the written row /
column labels, the assignments of the plain reader -/
theorem dmigOneX_written (o : RdOpt) (enc : Int → Val) (d : Dmig) (nm : Txt) :
    dmigOneX o d.headerVals nm (d.written enc) =
      (dmigIndex o (.int d.form) (.int d.ncol) (d.entries.map (·.1)) (d.cards.map (·.1))).map fun rc =>
        { name := nm, form := .int d.form, mtype := .int d.mtype, rows := rc.1, cols := rc.2,
          entries := d.entries.map (d.encE enc) } := by
  unfold dmigOneX
  rw [dmigParse_written]
  simp only [written_rowLabels]
  have hform : d.headerVals.getD 2 Val.blank = Val.int d.form := rfl
  have hmt : d.headerVals.getD 3 Val.blank = Val.int d.mtype := rfl
  have hnc : d.headerVals.getD 7 Val.blank = Val.int d.ncol := rfl
  rw [hform, hmt, hnc]
  cases dmigIndex o (.int d.form) (.int d.ncol) (d.entries.map (·.1)) (d.cards.map (·.1)) with
  | none => rfl
  | some rc =>
    obtain ⟨rows, cols⟩ := rc
    simp only [Option.map_some]
    congr 2
    exact written_entries enc d

/-! ### `np.arange(1, ncol + 1)` -/

theorem mem_colRange (n : Int) (q : Int × Int) : q ∈ colRange n ↔ q.2 = 0 ∧ 1 ≤ q.1 ∧ q.1 ≤ n := by
  rcases q with ⟨a, b⟩
  simp only [colRange, List.mem_map, List.mem_range, Prod.mk.injEq]
  constructor
  · rintro ⟨k, hk, rfl, rfl⟩
    omega
  · rintro ⟨rfl, h1, h2⟩
    exact ⟨(a - 1).toNat, by omega, by omega, rfl⟩

theorem colRange_sorted (n : Int) : KeySorted (colRange n) ∧ (colRange n).Nodup := by
  unfold colRange KeySorted
  constructor
  · rw [List.pairwise_map]
    exact (List.pairwise_lt_range (n := n.toNat)).imp (fun {a b} h => by simp only [key]; omega)
  · rw [List.nodup_iff_pairwise_ne, List.pairwise_map]
    exact (List.pairwise_lt_range (n := n.toNat)).imp (fun {a b} h => by
      intro e; simp only [Prod.mk.injEq] at e; omega)

/-! ### the index lists of `_prep_dataframe` -/

theorem unionIdx_of6 (o : RdOpt) (f : Val) (h : (f == Val.int 6) = true) : unionIdx o f = true := by
  unfold unionIdx; rw [h]; rfl

theorem unionIdx_ne9 (o : RdOpt) (form : Val) (h : unionIdx o form = true) : (form == Val.int 9) = false := by
  unfold unionIdx at h
  simp only [Bool.or_eq_true, Bool.and_eq_true, beq_iff_eq] at h
  rcases h with h | ⟨h, _⟩ <;> subst h <;> decide

/-- `expanded=True`: the row index is the sorted expansion of the row labels (for form 6 / form 1 with
`square`: of the row and the column labels), the column index likewise — or `1 … NCOL` for form 9 -/
theorem dmigIndex_expanded (sq : Bool) (form ncol : Val) (rowL colL rows cols : List (Int × Int))
    (h : dmigIndex ⟨true, sq⟩ form ncol rowL colL = some (rows, cols))
    (hc : if (form == Val.int 9) = true then Consistent rowL else Consistent (rowL ++ colL)) :
    (KeySorted rows ∧ rows.Nodup ∧ KeySorted cols ∧ cols.Nodup) ∧
    (∀ q, q ∈ rows ↔ ∃ p, (p ∈ rowL ∨ (unionIdx ⟨true, sq⟩ form = true ∧ p ∈ colL)) ∧ q ∈ expOf p) ∧
    ((form == Val.int 9) = true → ∃ n, ncol = Val.int n ∧ cols = colRange n) ∧
    ((form == Val.int 9) = false →
      ∀ q, q ∈ cols ↔ ∃ p, (p ∈ colL ∨ (unionIdx ⟨true, sq⟩ form = true ∧ p ∈ rowL)) ∧ q ∈ expOf p) ∧
    (unionIdx ⟨true, sq⟩ form = true → cols = rows) := by
  unfold dmigIndex at h
  simp only [if_true] at h
  by_cases hu : unionIdx ⟨true, sq⟩ form = true
  · have h9 := unionIdx_ne9 _ _ hu
    rw [h9] at hc
    simp only [Bool.false_eq_true, if_false] at hc
    simp only [hu, if_true, h9, Bool.false_eq_true, if_false, Option.some.injEq, Prod.mk.injEq] at h
    obtain ⟨rfl, rfl⟩ := h
    have hm : ∀ q, q ∈ sortSet (expandAll (expandAll ([], []) rowL) (expandAll ([], []) colL).2).2 ↔
        ∃ p, (p ∈ rowL ∨ p ∈ colL) ∧ q ∈ expOf p := by
      intro q
      rw [(sortSet_spec _).2.2, mem_expand_union rowL colL hc]
      simp only [List.mem_append]
    refine ⟨⟨(sortSet_spec _).1, (sortSet_spec _).2.1, (sortSet_spec _).1, (sortSet_spec _).2.1⟩, ?_, ?_, ?_, fun _ => rfl⟩
    · intro q; rw [hm]; simp [hu]
    · intro h9'; rw [h9] at h9'; exact absurd h9' (by decide)
    · intro _ q; rw [hm]; simp only [hu, true_and]
      constructor
      · rintro ⟨p, hp, hq⟩; exact ⟨p, hp.symm, hq⟩
      · rintro ⟨p, hp, hq⟩; exact ⟨p, hp.symm, hq⟩
  · have hu' : unionIdx ⟨true, sq⟩ form = false := by simpa using hu
    simp only [hu', Bool.false_eq_true, if_false] at h
    have hrow : Consistent rowL := by
      split at hc
      · exact hc
      · exact hc.mono (fun p hp => by simp [hp])
    have hmr : ∀ q, q ∈ sortSet (expandAll ([], []) rowL).2 ↔ ∃ p, (p ∈ rowL ∨ (False ∧ p ∈ colL)) ∧ q ∈ expOf p := by
      intro q
      rw [(sortSet_spec _).2.2, mem_expand_nil rowL hrow]
      simp
    by_cases h9 : (form == Val.int 9) = true
    · simp only [h9, if_true] at h
      cases hn : ncol with
      | int n =>
        rw [hn] at h
        simp only [Option.some.injEq, Prod.mk.injEq] at h
        obtain ⟨rfl, rfl⟩ := h
        refine ⟨⟨(sortSet_spec _).1, (sortSet_spec _).2.1, (colRange_sorted n).1, (colRange_sorted n).2⟩, ?_,
          fun _ => ⟨n, rfl, rfl⟩, fun h9' => by rw [h9] at h9'; exact absurd h9' (by decide),
          fun hu'' => by rw [hu'] at hu''; exact absurd hu'' (by decide)⟩
        intro q; rw [hmr]; simp [hu']
      | num m e => rw [hn] at h; simp at h
      | str s => rw [hn] at h; simp at h
      | blank => rw [hn] at h; simp at h
    · have h9' : (form == Val.int 9) = false := by simpa using h9
      rw [h9'] at hc
      simp only [Bool.false_eq_true, if_false] at hc
      simp only [h9', Bool.false_eq_true, if_false, Option.some.injEq, Prod.mk.injEq] at h
      obtain ⟨rfl, rfl⟩ := h
      have hcol : Consistent colL := hc.mono (fun p hp => by simp [hp])
      refine ⟨⟨(sortSet_spec _).1, (sortSet_spec _).2.1, (sortSet_spec _).1, (sortSet_spec _).2.1⟩, ?_,
        fun h => by rw [h9'] at h; exact absurd h (by decide), ?_,
        fun hu'' => by rw [hu'] at hu''; exact absurd hu'' (by decide)⟩
      · intro q; rw [hmr]; simp [hu']
      · intro _ q
        rw [(sortSet_spec _).2.2, mem_expand_nil colL hcol]
        simp [hu']

/-- `expanded=False`: the plain index; with `square=True` a form-1 matrix gets the union of both label
lists on both axes (as form 6 always does) -/
theorem dmigIndex_plain (sq : Bool) (form ncol : Val) (rowL colL : List (Int × Int)) :
    dmigIndex ⟨false, sq⟩ form ncol rowL colL =
      some (if unionIdx ⟨false, sq⟩ form = true then (sortSet (rowL ++ colL), sortSet (rowL ++ colL))
            else (sortSet rowL, sortSet colL)) := by
  unfold dmigIndex
  by_cases hu : unionIdx ⟨false, sq⟩ form = true <;> simp [hu]

theorem self_mem_expOf (p : Int × Int) (h : 0 ≤ p.2 ∧ p.2 ≤ 6) : p ∈ expOf p := by
  rw [mem_expOf]
  refine ⟨rfl, ?_⟩
  by_cases hp : 0 < p.2
  · simp only [hp, if_true]; omega
  · simp only [hp, if_false]; omega

/-! ### the written labels -/

/-- a row label / a column label that carries a non-zero term of the frame -/
def NzRow (d : Dmig) (p : Int × Int) : Prop :=
  ∃ i j v, d.rowids[i]? = some p ∧ j < d.colids.length ∧ d.At i j v ∧ v ≠ (0, 0)
def NzCol (d : Dmig) (p : Int × Int) : Prop :=
  ∃ i j v, j < d.colids.length ∧ d.colLabel j = p ∧ d.At i j v ∧ v ≠ (0, 0)

theorem form9_iff (d : Dmig) : d.form = 9 ↔ d.single = true := by
  unfold Dmig.form
  cases d.single
  · simp only [Bool.false_eq_true, if_false, iff_false]
    split
    · decide
    · split <;> decide
  · simp

theorem nzRow_iff (d : Dmig) (hshape : d.m.length = d.rowids.length) (p : Int × Int) :
    NzRow d p ↔ if d.form = 6 then (p ∈ d.entries.map (·.1) ∨ p ∈ d.cards.map (·.1)) else p ∈ d.entries.map (·.1) := by
  unfold NzRow
  rw [← mem_readFrame_rows (fun _ => Val.blank) d [] hshape p]
  simp only [Dmig.readFrame]
  split <;> simp only [(sortSet_spec _).2.2, List.mem_append]

theorem nzCol_iff (d : Dmig) (p : Int × Int) : NzCol d p ↔ p ∈ d.cards.map (·.1) := by
  unfold NzCol
  rw [mem_cardLabels]
  constructor
  · rintro ⟨i, j, v, hj, rfl, hat, hv⟩
    exact ⟨j, hj, colWritten_of_At d i j v hat hv, rfl⟩
  · rintro ⟨j, hj, hw, rfl⟩
    obtain ⟨i, v, hat, hv⟩ := (colWritten_iff d j).mp hw
    exact ⟨i, j, v, hj, rfl, hat, hv⟩

/-- form 6: a label carries a non-zero term in a row iff it does in a column -/
theorem nzRow_iff_nzCol (d : Dmig) (hshape : d.m.length = d.rowids.length) (h6 : d.form = 6) (p : Int × Int) :
    NzRow d p ↔ NzCol d p := by
  have h1 := mem_readFrame_rows (fun _ => Val.blank) d [] hshape p
  have h2 := mem_readFrame_cols (fun _ => Val.blank) d [] hshape p
  have hsame : (d.readFrame (fun _ => Val.blank) []).cols = (d.readFrame (fun _ => Val.blank) []).rows := by
    simp [Dmig.readFrame, h6]
  rw [hsame] at h2
  unfold NzRow NzCol
  rw [← h1, ← h2]

theorem nzRow_mem (d : Dmig) (p : Int × Int) (h : NzRow d p) : p ∈ d.rowids := by
  obtain ⟨i, _, _, hi, _⟩ := h
  exact List.mem_of_getElem? hi

theorem nzCol_mem (d : Dmig) (hs : d.single = false) (p : Int × Int) (h : NzCol d p) : p ∈ d.colids := by
  obtain ⟨_, j, _, hj, rfl, _⟩ := h
  simp only [Dmig.colLabel, hs, Bool.false_eq_true, if_false, List.getD_eq_getElem?_getD, List.getElem?_eq_getElem hj,
    Option.getD_some]
  exact List.getElem_mem hj

/-! ### physical lines -/

theorem dmigAuxX_nil (o : RdOpt) (fuel : Nat) : dmigAuxX o fuel [] = some [] := by cases fuel <;> rfl

/-- `rddmig(f, expanded=…, square=…)` on the text of `wtdmig`: the option reader applied to the card
values of the written cards (`Lemmas/BulkDmigText`: `rdcards` finds exactly those) -/
theorem rdDmigX_lines (o : RdOpt) (d : Dmig) (hc : d.Clean) :
    rdDmigX o d.lines = (dmigOneX o d.headerVals (lower d.name) (d.written d.encT)).map fun r => [r] := by
  unfold rdDmigX
  rw [rdcards_dmig_lines d hc]
  have hall : ∀ c ∈ d.written d.encT, (cardName c == some (lower d.name)) = true := by
    intro c hcm
    obtain ⟨c', _, rfl⟩ := List.mem_map.mp hcm
    simp [cardName_cardVals1]
  have hhead : cardName d.headerVals = some (lower d.name) := rfl
  simp only [List.isEmpty_cons, Bool.false_eq_true, if_false, List.length_cons, dmigAuxX, hhead, takeWhile_all' _ _ hall,
    dropWhile_all' _ _ hall, dmigAuxX_nil]
  cases dmigOneX o d.headerVals (lower d.name) (d.written d.encT) <;> rfl

end PyYetiVerif.Bulk
