import PyYetiVerif.Lemmas.BulkFileOKW
import PyYetiVerif.Lemmas.BulkTab
/-! The text of `wttabled1` as one card segment (C13; core Lean only). -/
namespace PyYetiVerif.Bulk

theorem noMatch_star (r : Txt) :
    ∀ k, k < bulkReaders.length → (bulkReaders.getD k fun _ => false) ('*' :: r) = false := by
  intro k hk
  have : k = 0 ∨ k = 1 ∨ k = 2 ∨ k = 3 ∨ k = 4 ∨ k = 5 ∨ k = 6 := by
    have : bulkReaders.length = 7 := rfl
    omega
  rcases this with rfl | rfl | rfl | rfl | rfl | rfl | rfl <;> rfl

theorem match_tabled1 (c : Char) (x : Txt) (_hc : c = ' ' ∨ c = '*') : ∀ k, k < bulkReaders.length →
    (bulkReaders.getD k fun _ => false) ('T' :: 'A' :: 'B' :: 'L' :: 'E' :: 'D' :: '1' :: c :: x) = decide (k = 6) := by
  intro k hk
  have : k = 0 ∨ k = 1 ∨ k = 2 ∨ k = 3 ∨ k = 4 ∨ k = 5 ∨ k = 6 := by
    have : bulkReaders.length = 7 := rfl
    omega
  rcases this with rfl | rfl | rfl | rfl | rfl | rfl | rfl <;> rfl

/-- `wttabled1` writes one card segment, well formed alone (both widths) -/
theorem tabled1_seg (wide : Bool) (tid : Int) (pairs : List (Txt × Txt)) (h : TabIn wide (txt "TABLED1") tid pairs) :
    ∃ f cs, tabled1Lines wide (txt "TABLED1") tid pairs = f :: cs ∧ SegLocalOK bulkReaders (.card 6 f cs) := by
  cases wide with
  | false =>
      have hfl : FixedLine 8 (padR 8 (txt "TABLED1")) ([] ++ [padL 8 (dec tid)]) 0 := by
        refine FixedLine.build 8 _ [] _ 0 (by decide) (by decide) (by decide) ?_ ?_ (lastSolid_padL_dec 8 tid) (by simp)
        · intro f hf; simp at hf; subst hf
          exact ⟨padL_length (by have := h.tid_len; simpa using this),
            notin_padL_dec '$' (by decide) (by decide) (by decide) 8 tid,
            notin_padL_dec ',' (by decide) (by decide) (by decide) 8 tid⟩
        · intro e; simp [padL] at e; exact dec_ne_nil tid e.2
      have hm := hfl.modeOf
      have hstar : (padR 8 (txt "TABLED1")).contains '*' = false := by decide
      rw [hstar] at hm; simp only [Bool.false_eq_true, if_false] at hm
      have hl1 : padR 8 (txt "TABLED1") ++ padL 8 (dec tid) =
          padR 8 (txt "TABLED1") ++ ([] ++ [padL 8 (dec tid)]).flatten ++ blanks 0 := by simp [blanks]
      have hlines : tabled1Lines false (txt "TABLED1") tid pairs =
          (padR 8 (txt "TABLED1") ++ padL 8 (dec tid)) :: ((tabled1Rows false pairs).map fun r => blanks 8 ++ r.flatten) := by
        simp [tabled1Lines]
      have e8 : ∀ x, padR 8 (txt "TABLED1") ++ x = 'T' :: 'A' :: 'B' :: 'L' :: 'E' :: 'D' :: '1' :: ' ' :: x := fun _ => rfl
      refine ⟨_, _, hlines, ?_, ?_, ?_⟩
      · rw [e8]; exact match_tabled1 ' ' _ (Or.inl rfl)
      · rw [e8]
        exact ⟨isCont_of_head 'T' _ (by decide) _, isCont_of_head 'T' _ (by decide) _, isCont_of_head 'T' _ (by decide) _⟩
      · intro l hl
        obtain ⟨r, _, rfl⟩ := List.mem_map.mp hl
        rw [hl1, hm]
        exact ⟨isCont_blanks8 _, noMatch_blanks8 _⟩
  | true =>
      have hfl : FixedLine 16 (padR 8 (txt "TABLED1" ++ ['*'])) ([] ++ [padL 16 (dec tid)]) 0 := by
        refine FixedLine.build 16 _ [] _ 0 (by decide) (by decide) (by decide) ?_ ?_ (lastSolid_padL_dec 16 tid) (by simp)
        · intro f hf; simp at hf; subst hf
          exact ⟨padL_length (by have := h.tid_len; simpa using this),
            notin_padL_dec '$' (by decide) (by decide) (by decide) 16 tid,
            notin_padL_dec ',' (by decide) (by decide) (by decide) 16 tid⟩
        · intro e; simp [padL] at e; exact dec_ne_nil tid e.2
      have hm := hfl.modeOf
      have hstar : (padR 8 (txt "TABLED1" ++ ['*'])).contains '*' = true := by decide
      rw [hstar] at hm; simp only [if_true] at hm
      have hl1 : padR 8 (txt "TABLED1" ++ ['*']) ++ padL 16 (dec tid) =
          padR 8 (txt "TABLED1" ++ ['*']) ++ ([] ++ [padL 16 (dec tid)]).flatten ++ blanks 0 := by simp [blanks]
      have hlines : tabled1Lines true (txt "TABLED1") tid pairs =
          (padR 8 (txt "TABLED1" ++ ['*']) ++ padL 16 (dec tid)) ::
            (['*'] :: (tabled1Rows true pairs).map fun r => txt "*       " ++ r.flatten) := by
        simp [tabled1Lines]
      have e8 : ∀ x, padR 8 (txt "TABLED1" ++ ['*']) ++ x = 'T' :: 'A' :: 'B' :: 'L' :: 'E' :: 'D' :: '1' :: '*' :: x :=
        fun _ => rfl
      refine ⟨_, _, hlines, ?_, ?_, ?_⟩
      · rw [e8]; exact match_tabled1 '*' _ (Or.inr rfl)
      · rw [e8]
        exact ⟨isCont_of_head 'T' _ (by decide) _, isCont_of_head 'T' _ (by decide) _, isCont_of_head 'T' _ (by decide) _⟩
      · intro l hl
        rw [hl1, hm]
        rcases List.mem_cons.mp hl with rfl | hl
        · exact ⟨rfl, noMatch_star []⟩
        · obtain ⟨r, _, rfl⟩ := List.mem_map.mp hl
          exact ⟨isCont_star16 _, noMatch_star _⟩

end PyYetiVerif.Bulk
