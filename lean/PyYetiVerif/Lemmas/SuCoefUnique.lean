import PyYetiVerif.Lemmas.SuCoef
import Mathlib.Analysis.ODE.ExistUnique
import Mathlib.Analysis.Normed.Operator.Prod
/-!
Uniqueness of solutions of linear ODEs with a time-dependent inhomogeneity (for C01), from
Mathlib's Grönwall-based `ODE_solution_unique_univ`.
-/
namespace PyYetiVerif.SuCoef

/-- `z' = L z + c(t)` has at most one solution through a given point: the right-hand side is
Lipschitz in `z` with constant `‖L‖` -/
theorem linear_ode_unique {E : Type*} [NormedAddCommGroup E] [NormedSpace ℝ E]
    (L : E →L[ℝ] E) (c : ℝ → E) (f g : ℝ → E) (t₀ : ℝ)
    (hf : ∀ t, HasDerivAt f (L (f t) + c t) t) (hg : ∀ t, HasDerivAt g (L (g t) + c t) t)
    (h0 : f t₀ = g t₀) : f = g := by
  have hv : ∀ t, LipschitzOnWith ‖L‖₊ (fun z => L z + c t) Set.univ := fun t =>
    (L.lipschitz.add (LipschitzWith.const (c t))).lipschitzOnWith.mono (Set.subset_univ _) |>.weaken
      (by simp)
  exact ODE_solution_unique_univ (v := fun t z => L z + c t) (s := fun _ => Set.univ) hv
    (fun t => ⟨hf t, trivial⟩) (fun t => ⟨hg t, trivial⟩) h0

/-- the state map of one mode: `(x, v) ↦ (v, -(k/m) x - (b/m) v)` -/
noncomputable def modeMap (m b k : ℝ) : ℝ × ℝ →L[ℝ] ℝ × ℝ :=
  (ContinuousLinearMap.snd ℝ ℝ ℝ).prod
    ((-(k / m)) • ContinuousLinearMap.fst ℝ ℝ ℝ + (-(b / m)) • ContinuousLinearMap.snd ℝ ℝ ℝ)

theorem modeMap_apply (m b k x v : ℝ) : modeMap m b k (x, v) = (v, -(k / m) * x + -(b / m) * v) := by
  simp [modeMap]

/-- a solution of the second-order equation is a solution of the first-order system -/
theorem IsSol.hasDerivAt_pair {m b k p s x₀ v₀ : ℝ} {x v : ℝ → ℝ} (hm : m ≠ 0)
    (h : IsSol m b k p s x₀ v₀ x v) (t : ℝ) :
    HasDerivAt (fun t => (x t, v t)) (modeMap m b k (x t, v t) + (0, (p + s * t) / m)) t := by
  obtain ⟨a, ha, he⟩ := h.dv t
  have hp := (h.dx t).prodMk ha
  convert hp using 1
  rw [modeMap_apply]
  refine Prod.ext ?_ ?_
  · simp
  · simp only [Prod.snd_add]
    have : a = (p + s * t - b * v t - k * x t) / m := by
      field_simp
      linarith
    rw [this]
    field_simp
    ring

/-- two solutions of `m x'' + b x' + k x = p + s t` with the same initial state coincide -/
theorem IsSol.unique {m b k p s x₀ v₀ : ℝ} {x v x' v' : ℝ → ℝ} (hm : m ≠ 0)
    (h : IsSol m b k p s x₀ v₀ x v) (h' : IsSol m b k p s x₀ v₀ x' v') : x = x' ∧ v = v' := by
  have e := linear_ode_unique (modeMap m b k) (fun t => ((0 : ℝ), (p + s * t) / m))
    (fun t => (x t, v t)) (fun t => (x' t, v' t)) 0
    (fun t => h.hasDerivAt_pair hm t) (fun t => h'.hasDerivAt_pair hm t)
    (by simp [h.x0, h.v0, h'.x0, h'.v0])
  exact ⟨funext fun t => (congrArg Prod.fst (congrFun e t) : _),
    funext fun t => (congrArg Prod.snd (congrFun e t) : _)⟩

theorem RegimeOK.mass_ne_zero {r : Regime} {m b k : ℝ} (h : RegimeOK r m b k) : m ≠ 0 := by
  cases r with
  | rigid => exact h
  | rigidVelo => exact h.elim
  | rigidFull => exact h.1
  | under => exact h.1
  | crit => exact h.1
  | over => exact h.1
  | rf => exact h.elim

end PyYetiVerif.SuCoef
