import PyYetiVerif.Model.FixtimeDrops
import Mathlib.Data.List.Nodup
import Mathlib.Data.List.Range
import Mathlib.Tactic.Ring
/-! Helper lemmas for C19: the index bookkeeping of `fixtime`'s cleaning steps (`_del_drops`,
`_del_outtimes`, `_get_alldrops`) — index maps between the filtered and the full record compose. -/
namespace PyYetiVerif.Fixtime

theorem nonzeroIdx_map_range (n : Nat) (g : Nat → Bool) :
    nonzeroIdx ((List.range n).map g) = (List.range n).filter g := by
  unfold nonzeroIdx
  rw [List.length_map, List.length_range]
  apply List.filter_congr
  intro i hi
  rw [List.mem_range] at hi
  rw [List.getElem?_map, List.getElem?_range hi]
  simp only [Option.map_some]
  cases h : g i <;> simp

theorem nonzeroIdx_not (l : List Bool) :
    nonzeroIdx (l.map not) = (List.range l.length).filter fun i => l[i]? == some false := by
  unfold nonzeroIdx
  rw [List.length_map]
  apply List.filter_congr
  intro i _
  rw [List.getElem?_map]
  cases l[i]? with
  | none => rfl
  | some b => cases b <;> rfl

theorem mem_nonzeroIdx (l : List Bool) (i : Nat) :
    i ∈ nonzeroIdx l ↔ i < l.length ∧ l[i]? = some true := by
  unfold nonzeroIdx
  rw [List.mem_filter, List.mem_range]
  simp

/-- for a duplicate-free index vector `l` and flags `f` of the same length, `l[~f]` is `l` without
the members of `l[f]` -/
theorem zip_filter_compl : ∀ (l : List Nat) (f : List Bool), l.Nodup → f.length = l.length →
    ((l.zip f).filter fun x => !x.2).map (·.1) =
      l.filter fun x => !(((l.zip f).filter (·.2)).map (·.1)).contains x
  | [], _, _, _ => by simp
  | x :: l, [], _, h => by simp at h
  | x :: l, b :: f, hnd, hlen => by
      have hx : x ∉ l := (List.nodup_cons.mp hnd).1
      have ih := zip_filter_compl l f (List.nodup_cons.mp hnd).2 (by simpa using hlen)
      have hsub : ∀ y ∈ ((l.zip f).filter (·.2)).map (·.1), y ∈ l := by
        intro y hy
        obtain ⟨⟨a, c⟩, hac, rfl⟩ := List.mem_map.mp hy
        exact (List.of_mem_zip (List.mem_filter.mp hac).1).1
      have hxo : x ∉ ((l.zip f).filter (·.2)).map (·.1) := fun h => hx (hsub x h)
      cases b with
      | true =>
          simp only [List.zip_cons_cons, List.filter_cons, Bool.not_true, Bool.false_eq_true,
            if_false, if_true, List.map_cons]
          rw [ih]
          have : (!(x :: ((l.zip f).filter (·.2)).map (·.1)).contains x) = false := by simp
          simp only [this, Bool.false_eq_true, if_false]
          apply List.filter_congr
          intro y hy
          have hyx : y ≠ x := fun e => hx (e ▸ hy)
          simp [hyx]
      | false =>
          simp only [List.zip_cons_cons, List.filter_cons, Bool.not_false, if_true, List.map_cons,
            Bool.false_eq_true, if_false]
          rw [ih]
          have : (!(((l.zip f).filter (·.2)).map (·.1)).contains x) = true := by
            simpa using hxo
          simp only [this, if_true]

theorem length_outlierFlags (t : List Rat) : (outlierFlags t).length = t.length := by
  simp [outlierFlags]

theorem length_filterMap_getElem? (told : List Rat) : ∀ (keep : List Nat),
    (∀ i ∈ keep, i < told.length) → (keep.filterMap fun i => told[i]?).length = keep.length
  | [], _ => rfl
  | i :: r, h => by
      have hi : i < told.length := h i (by simp)
      rw [List.filterMap_cons, List.getElem?_eq_getElem hi]
      simp only [List.length_cons]
      rw [length_filterMap_getElem? told r (fun j hj => h j (List.mem_cons_of_mem _ hj))]

/-- **index maps compose** -/
theorem drops_compose (told : List Rat) (drop : List Bool) (hlen : drop.length = told.length) :
    (∀ i ∈ (delOuttimes told (nonzeroIdx (drop.map not)) true).2,
        i < told.length ∧ drop[i]? = some false) ∧
      nonzeroIdx ((alldropsMask told.length (some (nonzeroIdx drop))
          (delOuttimes told (nonzeroIdx (drop.map not)) true).2 true).map not) =
        (delOuttimes told (nonzeroIdx (drop.map not)) true).1 := by
  have hk0 : nonzeroIdx (drop.map not) =
      (List.range told.length).filter fun i => drop[i]? == some false := by
    rw [nonzeroIdx_not, hlen]
  have hnd : (nonzeroIdx (drop.map not)).Nodup := by
    rw [hk0]; exact List.Nodup.filter _ List.nodup_range
  have hin : ∀ i ∈ nonzeroIdx (drop.map not), i < told.length ∧ drop[i]? = some false := by
    intro i hi
    rw [hk0, List.mem_filter, List.mem_range] at hi
    exact ⟨hi.1, by simpa using hi.2⟩
  have hfl : (outlierFlags ((nonzeroIdx (drop.map not)).filterMap fun i => told[i]?)).length =
      (nonzeroIdx (drop.map not)).length := by
    rw [length_outlierFlags, length_filterMap_getElem? told _ (fun i hi => (hin i hi).1)]
  constructor
  · intro i hi
    unfold delOuttimes at hi
    simp only at hi
    obtain ⟨⟨a, c⟩, hac, rfl⟩ := List.mem_map.mp hi
    exact hin a (List.of_mem_zip (List.mem_filter.mp hac).1).1
  · generalize hout : (delOuttimes told (nonzeroIdx (drop.map not)) true).2 = out
    have h1 : (delOuttimes told (nonzeroIdx (drop.map not)) true).1 =
        (nonzeroIdx (drop.map not)).filter fun x => !out.contains x := by
      rw [← hout]
      unfold delOuttimes
      simp only [if_true]
      exact zip_filter_compl _ _ hnd hfl
    rw [h1]
    unfold alldropsMask
    rw [List.map_map, nonzeroIdx_map_range, hk0, List.filter_filter]
    apply List.filter_congr
    intro i hi
    rw [List.mem_range] at hi
    have hb : ∃ b, drop[i]? = some b := ⟨drop[i]'(by omega), List.getElem?_eq_getElem (by omega)⟩
    obtain ⟨b, hb⟩ := hb
    have hc : (nonzeroIdx drop).contains i = b := by
      cases b with
      | true =>
          have : i ∈ nonzeroIdx drop := (mem_nonzeroIdx drop i).mpr ⟨by omega, hb⟩
          simpa using this
      | false =>
          have : i ∉ nonzeroIdx drop := by
            intro h
            have := ((mem_nonzeroIdx drop i).mp h).2
            rw [hb] at this
            cases this
          simpa using this
    simp only [Function.comp, hc, hb, Bool.true_and]
    cases b <;> simp

end PyYetiVerif.Fixtime
