import PyYetiVerif.Lemmas.BulkGrid
/-! Helper lemmas for the CORD2x / USET part of C13 (core Lean only). -/
namespace PyYetiVerif.Bulk

/-! ### stepping of `rdcardsBy` -/

theorem rdcardsByAux_nil (p : Txt → Bool) (keep : Bool) (fuel : Nat) : rdcardsByAux p keep fuel [] = [] := by
  cases fuel <;> rfl

theorem rdcardsByAux_skip (p : Txt → Bool) (keep : Bool) (fuel : Nat) (l : Txt) (rest : List Txt) (h : p l = false) :
    rdcardsByAux p keep (fuel + 1) (l :: rest) = rdcardsByAux p keep fuel rest := by
  simp [rdcardsByAux, h]

theorem rdcardsByAux_skip_all (p : Txt → Bool) (keep : Bool) (pre : List Txt) (h : ∀ l ∈ pre, p l = false) :
    ∀ (fuel : Nat) (rest : List Txt),
      rdcardsByAux p keep (pre.length + fuel) (pre ++ rest) = rdcardsByAux p keep fuel rest := by
  induction pre with
  | nil => intro fuel rest; simp
  | cons l r ih =>
      intro fuel rest
      have e : (l :: r).length + fuel = (r.length + fuel) + 1 := by simp; omega
      rw [e, List.cons_append, rdcardsByAux_skip p keep _ l _ (h l (by simp))]
      exact ih (fun x hx => h x (by simp [hx])) fuel rest

theorem rdcardsByAux_none (p : Txt → Bool) (keep : Bool) (ls : List Txt) (h : ∀ l ∈ ls, p l = false) :
    ∀ fuel, rdcardsByAux p keep fuel ls = [] := by
  induction ls with
  | nil => intro fuel; exact rdcardsByAux_nil p keep fuel
  | cons l r ih =>
      intro fuel
      cases fuel with
      | zero => rfl
      | succ f => rw [rdcardsByAux_skip p keep f l r (h l (by simp))]; exact ih (fun x hx => h x (by simp [hx])) f

theorem rdcardsByAux_card (p : Txt → Bool) (fuel : Nat) (l : Txt) (cs rest : List Txt)
    (hm : p l = true) (hc : ∀ x ∈ cs, isCont (modeOf l) x = true)
    (hr : ∀ x, rest.head? = some x → isCont (modeOf l) x = false) :
    rdcardsByAux p true (fuel + 1) (l :: (cs ++ rest)) =
      (nameField (modeOf l) l ::
        cardVals Val.blank (modeOf l).inc (lineFields (modeOf l) true l :: cs.map (lineFields (modeOf l) false))) ::
        rdcardsByAux p true fuel rest := by
  simp [rdcardsByAux, hm, spanCont_append (modeOf l) cs rest hc hr]

/-! ### a 72-column line followed by a continuation mark in column 73 -/

theorem take72_extra (core extra : Txt) (h : core.length = 72) : (core ++ extra).take 72 = core := by
  rw [← h, List.take_left]

theorem fixedBody_extra (first : Bool) (core extra : Txt) (h : core.length = 72) :
    fixedBody first (core ++ extra) = fixedBody first core := by
  unfold fixedBody
  rw [take72_extra core extra h, List.take_of_length_le (by omega : core.length ≤ 72)]

theorem lineFields_extra (m : Mode) (hm : m ≠ .comma) (first : Bool) (core extra : Txt) (h : core.length = 72) :
    lineFields m first (core ++ extra) = lineFields m first core := by
  cases m with
  | comma => exact absurd rfl hm
  | f8 => simp only [lineFields, fixedBody_extra first core extra h]
  | f16 => simp only [lineFields, fixedBody_extra first core extra h]

theorem modeOf_extra (core extra : Txt) (h : core.length = 72) (hc : ',' ∉ extra) :
    modeOf (core ++ extra) = modeOf core := by
  unfold modeOf
  have : (core ++ extra).contains ',' = core.contains ',' := by
    rw [List.contains_eq_mem, List.contains_eq_mem]
    simp [hc]
  rw [this, take72_extra core extra h, List.take_of_length_le (by omega : core.length ≤ 72)]

theorem nameField_extra (m : Mode) (hm : m ≠ .comma) (core extra : Txt) (h : core.length = 72) :
    nameField m (core ++ extra) = nameField m core := by
  cases m with
  | comma => exact absurd rfl hm
  | f8 => simp only [nameField, take72_extra core extra h, List.take_of_length_le (by omega : core.length ≤ 72)]
  | f16 => simp only [nameField, take72_extra core extra h, List.take_of_length_le (by omega : core.length ≤ 72)]

theorem FixedLine.length_eq {w : Nat} {lead : Txt} {S : List Txt} {k : Nat} (h : FixedLine w lead S k) :
    (lead ++ S.flatten ++ blanks k).length = 8 + w * S.length + k := by
  have := flatten_length_uniform w S h.width
  simp only [List.length_append, blanks_length, h.lead8, this]

theorem FixedLine.nameField {w : Nat} {lead : Txt} {S : List Txt} (h : FixedLine w lead S 0) (m : Mode)
    (hm : m ≠ .comma) : nameField m (lead ++ S.flatten ++ blanks 0) = nasScan lead := by
  have e : lead ++ S.flatten ++ blanks 0 = lead ++ S.flatten := by simp [blanks]
  have h72 : (lead ++ S.flatten).length ≤ 72 := by have := h.length_le; rwa [e] at this
  have : (procLine ((lead ++ S.flatten).take 72)).take 8 = lead := by
    rw [List.take_of_length_le h72, procLine_clean h.nodollar h.solid, ← h.lead8, List.take_left]
  cases m with
  | comma => exact absurd rfl hm
  | f8 => simp only [PyYetiVerif.Bulk.nameField, e, this]
  | f16 => simp only [PyYetiVerif.Bulk.nameField, e, this]

/-! ### CORD2x cards -/

def CordIn.Clean (c : CordIn) : Prop :=
  (c.name = txt "CORD2R" ∨ c.name = txt "CORD2C" ∨ c.name = txt "CORD2S") ∧ c.abc.length = 9 ∧
  (∀ f ∈ c.abc, CleanField 16 f) ∧ (dec c.cid).length ≤ 16 ∧ (dec c.ref).length ≤ 16

/-- what `rdcards(…, keep_name=True, return_var="list")` returns for the written card -/
def CordIn.card (c : CordIn) : List Val :=
  .str (c.name ++ ['*']) :: .int c.cid :: .int c.ref :: c.abc.map nasScan

def CordIn.ctype (c : CordIn) : Int :=
  if c.name = txt "CORD2R" then 1 else if c.name = txt "CORD2C" then 2 else 3

/-- the twelve numbers `_convert_card` hands to `n2p.build_coords` -/
def CordIn.row (c : CordIn) : List Val :=
  .int c.cid :: .int c.ctype :: .int c.ref :: c.abc.map nasScan

theorem list9 {α : Type} (l : List α) (h : l.length = 9) :
    ∃ a1 a2 a3 b1 b2 b3 c1 c2 c3, l = [a1, a2, a3, b1, b2, b3, c1, c2, c3] := by
  match l, h with
  | [a1, a2, a3, b1, b2, b3, c1, c2, c3], _ => exact ⟨_, _, _, _, _, _, _, _, _, rfl⟩

theorem isCont_star (r : Txt) : isCont .f16 ('*' :: r) = true := rfl

theorem cordCard_read (c : CordIn) (hc : c.Clean) (fuel : Nat) (rest : List Txt)
    (hr : ∀ x, rest.head? = some x → isCont .f16 x = false) :
    rdcardsByAux cord2Match true (fuel + 1) (cordCard c ++ rest) =
      c.card :: rdcardsByAux cord2Match true fuel rest := by
  obtain ⟨name, cid, ref, abc⟩ := c
  obtain ⟨hname, h9, hf, hcid, href⟩ := hc
  simp only at hname h9 hf hcid href
  obtain ⟨a1, a2, a3, b1, b2, b3, c1, c2, c3, rfl⟩ := list9 abc h9
  have hfa : ∀ f, f ∈ [a1, a2, a3, b1, b2, b3, c1, c2, c3] → CleanField 16 f := hf
  simp only [List.mem_cons, List.not_mem_nil, or_false] at hfa
  have ha1 := hfa a1 (by simp); have ha2 := hfa a2 (by simp); have ha3 := hfa a3 (by simp)
  have hb1 := hfa b1 (by simp); have hb2 := hfa b2 (by simp); have hb3 := hfa b3 (by simp)
  have hc1 := hfa c1 (by simp); have hc2 := hfa c2 (by simp); have hc3 := hfa c3 (by simp)
  -- the three leads
  have hlead : (padR 8 (name ++ ['*'])).length = 8 ∧ '$' ∉ padR 8 (name ++ ['*']) ∧ ',' ∉ padR 8 (name ++ ['*']) ∧
      (padR 8 (name ++ ['*'])).contains '*' = true ∧ nasScan (padR 8 (name ++ ['*'])) = .str (name ++ ['*']) ∧
      ∀ r, cord2Match (padR 8 (name ++ ['*']) ++ r) = true := by
    rcases hname with h | h | h <;> subst h <;>
      exact ⟨by decide, by decide, by decide, by decide, by decide, fun r => rfl⟩
  obtain ⟨hl8, hld, hlc, hlstar, hlscan, hlmatch⟩ := hlead
  have hfl1 : FixedLine 16 (padR 8 (name ++ ['*'])) ([padL 16 (dec cid), padL 16 (dec ref), a1] ++ [a2]) 0 := by
    refine FixedLine.build 16 _ _ _ _ hl8 hld hlc ?_ (cleanField_ne_nil (by decide) ha2) ha2.2 (by simp)
    intro f hf'
    simp only [List.cons_append, List.nil_append, List.mem_cons, List.not_mem_nil, or_false] at hf'
    rcases hf' with rfl | rfl | rfl | rfl
    · exact fieldOK_padL_dec 16 _ hcid
    · exact fieldOK_padL_dec 16 _ href
    · exact ha1.1
    · exact ha2.1
  have hfl2 : FixedLine 16 (padR 8 ['*']) ([a3, b1, b2] ++ [b3]) 0 := by
    refine FixedLine.build 16 _ _ _ _ (by decide) (by decide) (by decide) ?_ (cleanField_ne_nil (by decide) hb3) hb3.2 (by simp)
    intro f hf'
    simp only [List.cons_append, List.nil_append, List.mem_cons, List.not_mem_nil, or_false] at hf'
    rcases hf' with rfl | rfl | rfl | rfl
    · exact ha3.1
    · exact hb1.1
    · exact hb2.1
    · exact hb3.1
  have hfl3 : FixedLine 16 (padR 8 ['*']) ([c1, c2] ++ [c3]) 0 := by
    refine FixedLine.build 16 _ _ _ _ (by decide) (by decide) (by decide) ?_ (cleanField_ne_nil (by decide) hc3) hc3.2 (by simp)
    intro f hf'
    simp only [List.cons_append, List.nil_append, List.mem_cons, List.not_mem_nil, or_false] at hf'
    rcases hf' with rfl | rfl | rfl
    · exact hc1.1
    · exact hc2.1
    · exact hc3.1
  have hlen1 := hfl1.length_eq
  have hlen2 := hfl2.length_eq
  simp only [List.length_append, List.length_cons, List.length_nil] at hlen1 hlen2
  have hcard : cordCard ⟨name, cid, ref, [a1, a2, a3, b1, b2, b3, c1, c2, c3]⟩ =
      [(padR 8 (name ++ ['*']) ++ ([padL 16 (dec cid), padL 16 (dec ref), a1] ++ [a2]).flatten ++ blanks 0) ++ ['*'],
       (padR 8 ['*'] ++ ([a3, b1, b2] ++ [b3]).flatten ++ blanks 0) ++ ['*'],
       padR 8 ['*'] ++ ([c1, c2] ++ [c3]).flatten ++ blanks 0] := by
    simp [cordCard, blanks]
  rw [hcard]
  have hstar : ',' ∉ ['*'] := by decide
  have hm1 : modeOf ((padR 8 (name ++ ['*']) ++ ([padL 16 (dec cid), padL 16 (dec ref), a1] ++ [a2]).flatten ++ blanks 0) ++ ['*']) = .f16 := by
    rw [modeOf_extra _ _ (by rw [hfl1.length_eq]; simp) hstar, hfl1.modeOf, hlstar]; rfl
  have e3 : ∀ (a b d : Txt) (rest : List Txt), [a, b, d] ++ rest = a :: ([b, d] ++ rest) := by intros; rfl
  rw [e3, rdcardsByAux_card cord2Match fuel _ _ rest (by rw [List.append_assoc, List.append_assoc]; exact hlmatch _)
    (by
      rw [hm1]
      intro x hx
      simp only [List.mem_cons, List.not_mem_nil, or_false] at hx
      rcases hx with rfl | rfl <;> rfl)
    (by rw [hm1]; exact hr)]
  rw [hm1, nameField_extra .f16 (by decide) _ _ (by rw [hfl1.length_eq]; simp), hfl1.nameField .f16 (by decide), hlscan,
    lineFields_extra .f16 (by decide) true _ _ (by rw [hfl1.length_eq]; simp), hfl1.fields .f16 (by decide) (by decide) true]
  simp only [List.map_cons, List.map_nil,
    lineFields_extra .f16 (by decide) false _ _ (by rw [hfl2.length_eq]; simp),
    hfl2.fields .f16 (by decide) (by decide) false, hfl3.fields .f16 (by decide) (by decide) false]
  simp [cardVals, padTo, Mode.inc, CordIn.card, nasScan_padL]

theorem cord2Match_dollar (r : Txt) : cord2Match ('$' :: r) = false := rfl
theorem cord2Match_star (r : Txt) : cord2Match ('*' :: r) = false := rfl
theorem cord2Match_G (r : Txt) : cord2Match ('G' :: r) = false := rfl

theorem cordCard_length (c : CordIn) : (cordCard c).length = 3 := rfl

/-- all cards of `wtcoordcards`, followed by lines that are no CORD2x cards and do not begin with `*` -/
theorem rdcardsByAux_cordLines (cs : List CordIn) (hc : ∀ c ∈ cs, c.Clean) (tail : List Txt)
    (ht : ∀ l ∈ tail, cord2Match l = false) (hh : ∀ x, tail.head? = some x → isCont .f16 x = false) :
    ∀ fuel, (cordLines cs ++ tail).length < fuel →
      rdcardsByAux cord2Match true fuel (cordLines cs ++ tail) = cs.map CordIn.card := by
  induction cs with
  | nil => intro fuel _; simpa [cordLines] using rdcardsByAux_none cord2Match true tail ht fuel
  | cons c r ih =>
      intro fuel hf
      have ih := ih (fun x hx => hc x (by simp [hx]))
      have hlines : cordLines (c :: r) ++ tail =
          (txt "$ Coordinate " ++ dec c.cid ++ [':']) :: (cordCard c ++ (cordLines r ++ tail)) := by
        simp [cordLines]
      rw [hlines] at hf ⊢
      have hrest : ∀ x, (cordLines r ++ tail).head? = some x → isCont .f16 x = false := by
        intro x hx
        cases r with
        | nil => simp [cordLines] at hx; exact hh x hx
        | cons c' r' => simp [cordLines] at hx; subst hx; rfl
      match fuel, hf with
      | f + 2, hf =>
          rw [rdcardsByAux_skip cord2Match true (f + 1) _ _ (by exact cord2Match_dollar _),
            cordCard_read c (hc c (by simp)) f _ hrest, List.map_cons]
          congr 1
          apply ih
          simp only [List.length_cons, List.length_append, cordCard_length] at hf ⊢
          omega
      | 0, hf => simp at hf
      | 1, hf => simp [cordCard_length] at hf

theorem val_beq_blank_of_number {v : Val} (h : v.isNumber = true) : (v == Val.blank) = false := by
  cases v <;> simp_all [Val.isNumber] <;> rfl

theorem convertCard_card (c : CordIn) (hc : c.Clean) (hn : ∀ f ∈ c.abc, (nasScan f).isNumber = true) :
    convertCard c.card = some c.row := by
  obtain ⟨name, cid, ref, abc⟩ := c
  obtain ⟨hname, h9, -, -, -⟩ := hc
  simp only at hname h9 hn
  have hmap : (abc.map nasScan).map (fun v => if v == Val.blank then Val.int 0 else v) = abc.map nasScan := by
    rw [List.map_map]
    apply List.map_congr_left
    intro f hf
    have := val_beq_blank_of_number (hn f hf)
    show (if (nasScan f == Val.blank) = true then Val.int 0 else nasScan f) = nasScan f
    rw [this]; rfl
  have hall : (abc.map nasScan).all Val.isNumber = true := by
    rw [List.all_eq_true]
    intro v hv
    obtain ⟨f, hf, rfl⟩ := List.mem_map.mp hv
    exact hn f hf
  have hstr : ∀ s : Txt, (Val.str s == Val.blank) = false := fun s => rfl
  have hint : ∀ n : Int, (Val.int n == Val.blank) = false := fun n => rfl
  unfold convertCard
  simp only [CordIn.card, List.map_cons, hmap, hstr, hint, Bool.false_eq_true, if_false, List.length_cons,
    List.length_map, h9]
  rcases hname with h | h | h <;> subst h <;>
    simp [CordIn.row, CordIn.ctype, Val.isNumber, hall, txt] <;> exact h9

theorem mapM_convert (cs : List CordIn) (hc : ∀ c ∈ cs, c.Clean)
    (hn : ∀ c ∈ cs, ∀ f ∈ c.abc, (nasScan f).isNumber = true) :
    (cs.map CordIn.card).mapM convertCard = some (cs.map CordIn.row) := by
  induction cs with
  | nil => rfl
  | cons c r ih =>
      have := ih (fun x hx => hc x (by simp [hx])) (fun x hx => hn x (by simp [hx]))
      simp [List.mapM_cons, convertCard_card c (hc c (by simp)) (hn c (by simp)), this]

/-- `rdcord2cards` (up to `build_coords`) on the cards of `wtcoordcards`, between any foreign lines -/
theorem rdCord2_cordLines (cs : List CordIn) (hc : ∀ c ∈ cs, c.Clean)
    (hn : ∀ c ∈ cs, ∀ f ∈ c.abc, (nasScan f).isNumber = true) (pre tail : List Txt)
    (hp : ∀ l ∈ pre, cord2Match l = false)
    (ht : ∀ l ∈ tail, cord2Match l = false) (hh : ∀ x, tail.head? = some x → isCont .f16 x = false) :
    rdCord2 (pre ++ (cordLines cs ++ tail)) = some (cs.map CordIn.row) := by
  unfold rdCord2 rdcardsBy
  rw [List.length_append, Nat.add_assoc, rdcardsByAux_skip_all cord2Match true pre hp,
    rdcardsByAux_cordLines cs hc tail ht hh _ (Nat.lt_succ_self _)]
  exact mapM_convert cs hc hn

/-! ### `uset2bulk` -/

theorem gridCard_heads (wide : Bool) (F : List Txt) : ∀ l ∈ gridCard wide F, ∃ t, l = 'G' :: t ∨ l = '*' :: t := by
  intro l hl
  cases wide
  · simp only [gridCard, Bool.false_eq_true, if_false, List.mem_singleton] at hl
    exact ⟨_, Or.inl hl⟩
  · simp only [gridCard, if_true, List.mem_cons, List.not_mem_nil, or_false] at hl
    rcases hl with hl | hl
    · exact ⟨_, Or.inl hl⟩
    · exact ⟨_, Or.inr hl⟩

theorem cordLines_heads (cs : List CordIn) (hc : ∀ c ∈ cs, c.Clean) :
    ∀ l ∈ cordLines cs, ∃ t, l = '$' :: t ∨ l = 'C' :: t ∨ l = '*' :: t := by
  intro l hl
  simp only [cordLines, List.mem_flatMap, List.mem_cons] at hl
  obtain ⟨c, hcm, hl | hl⟩ := hl
  · exact ⟨_, Or.inl hl⟩
  · obtain ⟨hname, _⟩ := hc c hcm
    simp only [cordCard, List.mem_cons, List.not_mem_nil, or_false] at hl
    rcases hl with hl | hl | hl
    · rcases hname with h | h | h <;> rw [h] at hl <;> exact ⟨_, Or.inr (Or.inl hl)⟩
    · exact ⟨_, Or.inr (Or.inr hl)⟩
    · exact ⟨_, Or.inr (Or.inr hl)⟩

theorem not_grid_of_head {l : Txt} (h : ∃ t, l = '$' :: t ∨ l = 'C' :: t ∨ l = '*' :: t) :
    startsWith (txt "grid") (lower l) = false := by
  obtain ⟨t, h | h | h⟩ := h <;> subst h <;> rfl

/-- the `uset2bulk` file read back by both readers -/
theorem uset_read (cs : List CordIn) (hc : ∀ c ∈ cs, c.Clean)
    (hn : ∀ c ∈ cs, ∀ f ∈ c.abc, (nasScan f).isNumber = true)
    (g : GridIn) (hw : g.wide = true) (hg : g.Compat) (hclean : ∀ r ∈ g.rows, r.Clean 16) (glines : List Txt)
    (hgl : gridLines g = .ok glines) :
    let L := (if cs.isEmpty then [] else [txt "$", txt "$ COORDINATE SYSTEM DATA", txt "$"] ++ cordLines cs) ++
      [txt "$", txt "$ GRID DATA", txt "$"] ++ glines
    rdGrids L = .rows (g.rows.map GRow.vals) ∧ rdCord2 L = some (cs.map CordIn.row) := by
  intro L
  have hrows := gridLines_rows g hg
  rw [hgl] at hrows
  have hgl' : glines = g.rows.flatMap fun r => gridCard g.wide (r.fields g.w g.short) := by
    injection hrows
  have hne : g.rows ≠ [] := by
    intro e
    have := g.rows_length hg
    rw [e] at this
    have := hg.1
    simp at *; omega
  have hw16 : g.w = 16 := by simp [GridIn.w, hw]
  have hcomm : ∀ l ∈ [txt "$", txt "$ COORDINATE SYSTEM DATA", txt "$"], ∃ t, l = '$' :: t ∨ l = 'C' :: t ∨ l = '*' :: t := by
    intro l hl
    simp only [List.mem_cons, List.not_mem_nil, or_false] at hl
    rcases hl with rfl | rfl | rfl <;> exact ⟨_, Or.inl rfl⟩
  have hcomm2 : ∀ l ∈ [txt "$", txt "$ GRID DATA", txt "$"], ∃ t, l = '$' :: t ∨ l = 'C' :: t ∨ l = '*' :: t := by
    intro l hl
    simp only [List.mem_cons, List.not_mem_nil, or_false] at hl
    rcases hl with rfl | rfl | rfl <;> exact ⟨_, Or.inl rfl⟩
  constructor
  · -- GRID reader: everything before the GRID cards is skipped
    have hpre : ∀ l ∈ (if cs.isEmpty then [] else [txt "$", txt "$ COORDINATE SYSTEM DATA", txt "$"] ++ cordLines cs) ++
        [txt "$", txt "$ GRID DATA", txt "$"], startsWith (txt "grid") (lower l) = false := by
      intro l hl
      apply not_grid_of_head
      rcases List.mem_append.mp hl with hl | hl
      · split at hl
        · simp at hl
        · rcases List.mem_append.mp hl with hl | hl
          · exact hcomm l hl
          · exact cordLines_heads cs hc l hl
      · exact hcomm2 l hl
    have := rdGrids_rows g.wide g.short g.rows hne (by rw [hw]; exact hclean) (fun hs => g.short_rows hs) _ hpre
    rw [hw] at this
    simp only [L, hgl', hw, hw16]
    exact this
  · -- CORD2x reader
    have htail : ∀ l ∈ [txt "$", txt "$ GRID DATA", txt "$"] ++ glines, cord2Match l = false := by
      intro l hl
      rcases List.mem_append.mp hl with hl | hl
      · simp only [List.mem_cons, List.not_mem_nil, or_false] at hl
        rcases hl with rfl | rfl | rfl <;> rfl
      · rw [hgl'] at hl
        obtain ⟨r, _, hl⟩ := List.mem_flatMap.mp hl
        obtain ⟨t, h | h⟩ := gridCard_heads _ _ l hl <;> subst h <;> rfl
    have hhead : ∀ x, ([txt "$", txt "$ GRID DATA", txt "$"] ++ glines).head? = some x → isCont .f16 x = false := by
      intro x hx; simp at hx; subst hx; rfl
    by_cases he : cs.isEmpty = true
    · have hcs : cs = [] := by cases cs with | nil => rfl | cons => simp at he
      subst hcs
      have := rdCord2_cordLines [] (by simp) (by simp) [] ([txt "$", txt "$ GRID DATA", txt "$"] ++ glines) (by simp) htail hhead
      simpa [L, cordLines] using this
    · have := rdCord2_cordLines cs hc hn [txt "$", txt "$ COORDINATE SYSTEM DATA", txt "$"]
        ([txt "$", txt "$ GRID DATA", txt "$"] ++ glines)
        (by intro l hl; simp only [List.mem_cons, List.not_mem_nil, or_false] at hl; rcases hl with rfl | rfl | rfl <;> rfl)
        htail hhead
      simp only [L, he, Bool.false_eq_true, if_false]
      simpa [List.append_assoc] using this

end PyYetiVerif.Bulk
