import PyYetiVerif.Lemmas.GenMachine
import PyYetiVerif.Model.GenMachineInit
/-!
Helper lemmas for the C08 theorems about the generator's start and `finalize`
(`Props/C08Init.lean`).
-/
namespace PyYetiVerif.GenMachine

theorem upd_zero_zero {α : Type} [Zero α] : upd (fun _ : Nat => (0 : α)) 0 0 = fun _ => 0 := by
  funext j
  by_cases h : j = 0
  · subst h; exact upd_same _ _ _
  · exact upd_ne _ _ h

section start
variable {R E S X W : Type} [Zero R] [Zero E] [Zero S] [Zero X] [Zero W]

/-- the arrays `_init_dva_part` builds, with `a[:, 0]` possibly set by the generator function
before its first `yield`, seen through a view that maps zero columns to zero, are the start
state `init` of the abstract machine -/
theorem viewState_init (env : IcEnv R E S) (L : Lin (P3 R E S) X W) (vw : View (P3 R E S) X W)
    (o : IcOpts R E S) (F0 a0 : P3 R E S) (hx0 : vw.x 0 0 = 0) (hr0 : vw.r 0 0 = 0)
    (hS : vw.r ((initDvaPart env o F0).d 0) a0 = L.S F0) :
    viewState vw { initDvaPart env o F0 with a := upd (initDvaPart env o F0).a 0 a0 } =
      init L F0 (vw.x ((initDvaPart env o F0).d 0) ((initDvaPart env o F0).v 0)) := by
  simp only [viewState, init, State.mk.injEq, true_and]
  refine ⟨rfl, ?_, ?_⟩
  · funext j
    by_cases h : j = 0
    · subst h; simp only [upd_same]
    · simp only [upd_ne _ _ h, initDvaPart]; exact hx0
  · funext j
    by_cases h : j = 0
    · subst h; simp only [upd_same]; exact hS
    · simp only [upd_ne _ _ h, initDvaPart]; exact hr0

end start

section hw
variable {V X W : Type} [Add V] [Add X] [Add W]

omit [Add V] [Add X] [Add W] in
theorem le_highWater (ops : List (Op V)) : ∀ h0, h0 ≤ highWater h0 ops := by
  induction ops with
  | nil => intro h0; exact Nat.le_refl _
  | cons op ops ih =>
    intro h0
    cases op with
    | send i f => exact Nat.le_trans (Nat.le_max_left _ _) (ih (max h0 i))
    | addon f => exact ih h0

/-- columns beyond the largest index ever addressed are never written -/
theorem beyond_highWater (L : Lin V X W) (ops : List (Op V)) :
    ∀ (s : State V X W) (h0 : Nat), s.cur ≤ h0 → ∀ j, highWater h0 ops < j →
      (run L s ops).x j = s.x j ∧ (run L s ops).force j = s.force j ∧
        (run L s ops).r j = s.r j := by
  induction ops with
  | nil => intro s h0 _ j _; exact ⟨rfl, rfl, rfl⟩
  | cons op ops ih =>
    intro s h0 hc j hj
    cases op with
    | send i f =>
      have hm : max h0 i ≤ highWater (max h0 i) ops := le_highWater ops _
      have hi : i ≤ max h0 i := Nat.le_max_right _ _
      have hne : j ≠ i := by
        have : highWater (max h0 i) ops < j := hj
        omega
      obtain ⟨a, b, c⟩ := ih (step L s (.send i f)) (max h0 i) hi j hj
      refine ⟨a.trans ?_, b.trans ?_, c.trans ?_⟩ <;>
        simp only [step, sendAt, upd_ne _ _ hne]
    | addon f =>
      have hm : h0 ≤ highWater h0 ops := le_highWater ops _
      have hne : j ≠ s.cur := by
        have : highWater h0 ops < j := hj
        omega
      obtain ⟨a, b, c⟩ := ih (step L s (.addon f)) h0 hc j hj
      refine ⟨a.trans ?_, b.trans ?_, c.trans ?_⟩ <;>
        simp only [step, addonAt, upd_ne _ _ hne]

/-- a request writes only the column the loop variable ends on -/
theorem step_frame (L : Lin V X W) (s : State V X W) (op : Op V) (j : Nat)
    (h : (step L s op).cur ≠ j) :
    (step L s op).x j = s.x j ∧ (step L s op).force j = s.force j ∧
      (step L s op).r j = s.r j := by
  cases op with
  | send i f =>
    have hne : j ≠ i := fun e => h e.symm
    simp only [step, sendAt, upd_ne _ _ hne, and_self]
  | addon f =>
    have hne : j ≠ s.cur := fun e => h e.symm
    simp only [step, addonAt, upd_ne _ _ hne, and_self]

theorem avoids_frame (L : Lin V X W) (j : Nat) (ops : List (Op V)) :
    ∀ (s : State V X W), Avoids L j s ops →
      (run L s ops).x j = s.x j ∧ (run L s ops).force j = s.force j ∧
        (run L s ops).r j = s.r j := by
  induction ops with
  | nil => intro s _; exact ⟨rfl, rfl, rfl⟩
  | cons op ops ih =>
    intro s hav
    obtain ⟨a, b, c⟩ := ih (step L s op) hav.2
    obtain ⟨a', b', c'⟩ := step_frame L s op j hav.1
    exact ⟨a.trans a', b.trans b', c.trans c'⟩

theorem run_append (L : Lin V X W) (s : State V X W) (pre post : List (Op V)) :
    run L s (pre ++ post) = run L (run L s pre) post := by
  simp only [run, List.foldl_append]

end hw

end PyYetiVerif.GenMachine
