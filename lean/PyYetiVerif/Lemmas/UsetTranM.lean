import PyYetiVerif.Lemmas.UsetTranBlocks
import Mathlib.Algebra.BigOperators.Group.List.Basic
import Mathlib.Algebra.Ring.Defs
/-!
The m-set block of `formtran` (`Uset.mBlock`) in closed form, over a semiring: entries of `rowComb` / `dot`,
column selections, and the pruning of all-zero columns (`np.any(gmo, 0)`).
-/
set_option linter.constructorNameAsVariable false
set_option linter.unusedSectionVars false
namespace PyYetiVerif.Uset
open PyYetiVerif.Locate

section semi
variable {α : Type} [Semiring α]

theorem addRow_get (a b : List α) (n c : Nat) (ha : a.length = n) (hb : b.length = n) (hc : c < n) :
    (addRow a b)[c]? = some (a.getD c 0 + b.getD c 0) := by
  unfold addRow
  rw [List.getElem?_zipWith]
  have h1 : a[c]? = some (a.getD c 0) := by
    rw [List.getD_eq_getElem?_getD, List.getElem?_eq_getElem (by omega)]; rfl
  have h2 : b[c]? = some (b.getD c 0) := by
    rw [List.getD_eq_getElem?_getD, List.getElem?_eq_getElem (by omega)]; rfl
  rw [h1, h2]

theorem addRow_length (a b : List α) (n : Nat) (ha : a.length = n) (hb : b.length = n) :
    (addRow a b).length = n := by
  unfold addRow; rw [List.length_zipWith, ha, hb, Nat.min_self]

theorem smulRow_getD (x : α) (a : List α) (c : Nat) : (smulRow x a).getD c 0 = x * a.getD c 0 := by
  unfold smulRow
  rw [List.getD_eq_getElem?_getD, List.getD_eq_getElem?_getD, List.getElem?_map]
  cases a[c]? <;> simp

/-- entry `c` of `coef @ B`: `Σ coef[j] * B[j][c]` -/
theorem rowComb_get (n : Nat) (coef : List α) (B : List (List α)) (hB : ∀ r ∈ B, r.length = n) (c : Nat)
    (hc : c < n) :
    (rowComb n coef B).getD c 0 = ((coef.zip B).map fun p => p.1 * p.2.getD c 0).sum ∧
    (rowComb n coef B).length = n := by
  unfold rowComb
  have key : ∀ (ps : List (α × List α)) (acc : List α), acc.length = n → (∀ p ∈ ps, p.2.length = n) →
      (ps.foldl (fun acc p => addRow acc (smulRow p.1 p.2)) acc).getD c 0 =
        acc.getD c 0 + (ps.map fun p => p.1 * p.2.getD c 0).sum ∧
      (ps.foldl (fun acc p => addRow acc (smulRow p.1 p.2)) acc).length = n := by
    intro ps
    induction ps with
    | nil => intro acc ha _; simp [ha]
    | cons p t ih =>
        intro acc ha hp
        have hs : (smulRow p.1 p.2).length = n := by
          unfold smulRow; rw [List.length_map]; exact hp p List.mem_cons_self
        have hl := addRow_length acc (smulRow p.1 p.2) n ha hs
        obtain ⟨h1, h2⟩ := ih (addRow acc (smulRow p.1 p.2)) hl (fun q hq => hp q (List.mem_cons_of_mem _ hq))
        rw [List.foldl_cons]
        refine ⟨?_, h2⟩
        rw [h1, List.map_cons, List.sum_cons]
        have hg := addRow_get acc (smulRow p.1 p.2) n c ha hs hc
        rw [List.getD_eq_getElem?_getD (l := addRow acc (smulRow p.1 p.2)), hg]
        simp only [Option.getD_some]
        rw [smulRow_getD, add_assoc]
  have := key (coef.zip B) (zeroRow n) (zeroRow_length n) (fun p hp => hB _ (List.of_mem_zip hp).2)
  refine ⟨?_, this.2⟩
  rw [this.1]
  have : (zeroRow (α := α) n).getD c 0 = 0 := by
    rw [List.getD_eq_getElem?_getD, zeroRow_get n c hc]; rfl
  rw [this, zero_add]

theorem rowComb_length (n : Nat) (coef : List α) (B : List (List α)) (hB : ∀ r ∈ B, r.length = n) :
    (rowComb n coef B).length = n := by
  unfold rowComb
  have key : ∀ (ps : List (α × List α)) (acc : List α), acc.length = n → (∀ p ∈ ps, p.2.length = n) →
      (ps.foldl (fun acc p => addRow acc (smulRow p.1 p.2)) acc).length = n := by
    intro ps
    induction ps with
    | nil => intro acc ha _; exact ha
    | cons p t ih =>
        intro acc ha hp
        have hs : (smulRow p.1 p.2).length = n := by
          unfold smulRow; rw [List.length_map]; exact hp p List.mem_cons_self
        rw [List.foldl_cons]
        exact ih _ (addRow_length acc _ n ha hs) (fun q hq => hp q (List.mem_cons_of_mem _ hq))
  exact key _ _ (zeroRow_length n) (fun p hp => hB _ (List.of_mem_zip hp).2)

/-- dropping the terms whose coefficient is zero does not change a sum -/
theorem sum_filter_of_zero {ι : Type} (f : ι → α) (p : ι → Bool) : ∀ (l : List ι),
    (∀ u ∈ l, p u = false → f u = 0) → ((l.filter p).map f).sum = (l.map f).sum
  | [], _ => rfl
  | u :: t, h => by
      have ih := sum_filter_of_zero f p t (fun v hv => h v (List.mem_cons_of_mem _ hv))
      by_cases hp : p u = true
      · rw [List.filter_cons_of_pos hp, List.map_cons, List.map_cons, List.sum_cons, List.sum_cons, ih]
      · have hp' : p u = false := by simpa using hp
        rw [List.filter_cons_of_neg hp, List.map_cons, List.sum_cons, h u List.mem_cons_self hp', zero_add, ih]

theorem takeIdx_eq_map {β : Type} {x : List β} {idx : List Nat} {l : List β} (d : β)
    (h : takeIdx x idx = .ok l) : l = idx.map (fun j => x.getD j d) := by
  have h' := takeIdx_ok h
  apply List.ext_getElem?
  intro k
  rw [List.getElem?_map]
  cases hk : idx[k]? with
  | none =>
      have : l[k]? = none := by
        rw [List.getElem?_eq_none_iff, ← h'.length_eq]
        exact List.getElem?_eq_none_iff.mp hk
      rw [this]; rfl
  | some j =>
      obtain ⟨y, hy, hj⟩ := forall₂_getElem? h' k j hk
      rw [hy]
      simp only [Option.map_some, Option.some.injEq]
      rw [List.getD_eq_getElem?_getD, hj]; rfl

theorem forall₂_eq_map {β γ : Type} (f : β → γ) {l : List β} {l' : List γ}
    (h : List.Forall₂ (fun a b => b = f a) l l') : l' = l.map f := by
  induction h with
  | nil => rfl
  | cons hab _ ih => rw [List.map_cons, hab, ih]

/-- `A[:, idx]` row by row -/
theorem colsAt_eq {A B : M α} {idx : List Nat} (h : colsAt A idx = .ok B) :
    B.r = A.r.map (fun row => idx.map (fun j => row.getD j 0)) ∧ B.c = idx.length := by
  unfold colsAt at h
  obtain ⟨l, hl, h⟩ := bind_ok h
  simp only [Except.ok.injEq] at h
  subst h
  refine ⟨?_, rfl⟩
  apply forall₂_eq_map
  exact (mapM_except _ _ _ hl).imp fun row out hro => takeIdx_eq_map 0 hro

theorem rowsAt_eq {A B : M α} {idx : List Nat} (h : rowsAt A idx = .ok B) :
    B.r = idx.map (fun j => A.r.getD j []) ∧ B.c = A.c ∧ ∀ j ∈ idx, j < A.r.length := by
  unfold rowsAt at h
  obtain ⟨l, hl, h⟩ := bind_ok h
  simp only [Except.ok.injEq] at h
  subst h
  refine ⟨takeIdx_eq_map [] hl, rfl, ?_⟩
  intro j hj
  obtain ⟨k, hk⟩ := List.getElem?_of_mem hj
  obtain ⟨y, _, hy⟩ := forall₂_getElem? (takeIdx_ok hl) k j hk
  exact (List.getElem?_eq_some_iff.mp hy).1

theorem dot_eq {A B C : M α} (h : dot A B = .ok C) :
    C.r = A.r.map (fun row => rowComb B.c row B.r) ∧ C.c = B.c := by
  unfold dot at h
  split at h
  · cases h
  · simp only [Except.ok.injEq] at h
    subst h
    exact ⟨rfl, rfl⟩

/-- a column that `np.any(A, 0)` does not list is zero in every row -/
theorem anyCols_zero [DecidableEq α] (A : M α) (u : Nat) (hu : u < A.c) (hn : u ∉ anyCols A) :
    ∀ row ∈ A.r, row.getD u 0 = 0 := by
  intro row hrow
  unfold anyCols at hn
  rw [List.mem_filter, List.mem_range] at hn
  have : ¬ (A.r.any fun row => row[u]? != some 0 && (row[u]?).isSome) = true := fun h => hn ⟨hu, h⟩
  rw [List.any_eq_true] at this
  rw [List.getD_eq_getElem?_getD]
  cases hr : row[u]? with
  | none => rfl
  | some x =>
      by_contra hx
      apply this
      refine ⟨row, hrow, ?_⟩
      rw [hr]
      simp only [Option.isSome_some, Bool.and_true, bne_iff_ne, ne_eq, Option.some.injEq]
      exact fun h0 => hx (by simpa using h0)

/-- `(gmo[:, v] @ B[v])[k][i]` with `v = np.nonzero(np.any(gmo, 0))[0]` is the full sum over the columns of `gmo` -/
theorem pruned_dot_entry [DecidableEq α] (gmo B : M α) (grow : List α) (hg : grow ∈ gmo.r)
    (hgl : grow.length = gmo.c) (hB : ∀ r ∈ B.r, r.length = B.c) (hv : ∀ j ∈ anyCols gmo, j < B.r.length)
    (i : Nat) (hi : i < B.c) :
    (rowComb B.c ((anyCols gmo).map fun j => grow.getD j 0) ((anyCols gmo).map fun j => B.r.getD j [])).getD i 0 =
      ((List.range gmo.c).map fun u => grow.getD u 0 * (B.r.getD u []).getD i 0).sum := by
  have hrows : ∀ r ∈ (anyCols gmo).map (fun j => B.r.getD j []), r.length = B.c := by
    intro r hr
    obtain ⟨j, hj, rfl⟩ := List.mem_map.mp hr
    have hjl := hv j hj
    rw [List.getD_eq_getElem?_getD, List.getElem?_eq_getElem hjl]
    exact hB _ (List.getElem_mem hjl)
  rw [(rowComb_get B.c _ _ hrows i hi).1, List.zip_map', List.map_map]
  have : (fun p : α × List α => p.1 * p.2.getD i 0) ∘ (fun j => (grow.getD j 0, B.r.getD j [])) =
      fun u => grow.getD u 0 * (B.r.getD u []).getD i 0 := rfl
  rw [this]
  unfold anyCols
  apply sum_filter_of_zero
  intro u hu hp
  have hul : u < gmo.c := List.mem_range.mp hu
  have hnot : u ∉ anyCols gmo := by
    unfold anyCols
    rw [List.mem_filter]
    rintro ⟨_, h⟩
    rw [h] at hp; cases hp
  rw [anyCols_zero gmo u hul hnot grow hg, zero_mul]

/-- `Σ_u g[o_n[u]] * B[u][i]`: the o-set columns of a GM row `g` times column `i` of `B` (`got` or `goq`) -/
def oSum (g : List α) (o_n : List Nat) (B : M α) (i : Nat) : α :=
  ((List.range o_n.length).map fun u => g.getD (o_n.getD u 0) 0 * (B.r.getD u []).getD i 0).sum

/-- a row of the m-set block for the GM row `g`, in closed form:
`u_m = GM_t u_t + GM_o (GOT u_t + GOQ u_q) + GM_q u_q` -/
def MRow (ct cq : Nat) (t_a q_a t_n o_n q_n : List Nat) (got goq : M α) (g row : List α) : Prop :=
  row.length = ct + cq ∧
  (∀ (i c : Nat), t_a[i]? = some c → row[c]? = some (g.getD (t_n.getD i 0) 0 + oSum g o_n got i)) ∧
  (cq ≠ 0 → ∀ (i c : Nat), q_a[i]? = some c → row[c]? = some (oSum g o_n goq i + g.getD (q_n.getD i 0) 0)) ∧
  (∀ c, c < ct + cq → c ∉ t_a → (cq ≠ 0 → c ∉ q_a) → row[c]? = some 0)

theorem map_getD_lt {β γ : Type} (f : β → γ) (l : List β) (u : Nat) (d : γ) (d' : β) (hu : u < l.length) :
    (l.map f).getD u d = f (l.getD u d') := by
  rw [List.getD_eq_getElem?_getD, List.getD_eq_getElem?_getD, List.getElem?_map,
    List.getElem?_eq_getElem hu]
  rfl

theorem oSum_eq (g : List α) (o_n : List Nat) (B : M α) (i : Nat) :
    ((List.range o_n.length).map fun u => (o_n.map fun j => g.getD j 0).getD u 0 * (B.r.getD u []).getD i 0).sum
      = oSum g o_n B i := by
  unfold oSum
  congr 1
  apply List.map_congr_left
  intro u hu
  rw [map_getD_lt _ o_n u 0 0 (List.mem_range.mp hu)]

end semi
end PyYetiVerif.Uset
