import PyYetiVerif.Lemmas.NasCardsMultiCmt
/-! C12: `keep_comments=True` — where the kept comment lines stand among the cards. -/
set_option linter.unusedSimpArgs false
set_option linter.unusedVariables false
namespace PyYetiVerif.NasCards
open PyYetiVerif.PyFloat PyYetiVerif.NasFloat

theorem dropVisible_noCmt_append (k : Nat) (a b : List TLine) (ha : NoCmt a) (hk : k ≤ a.length) :
    dropVisible k (a ++ b) = ([], a.drop k ++ b) := by
  induction a generalizing k with
  | nil =>
    have : k = 0 := by simpa using hk
    subst this
    cases b <;> simp [dropVisible]
  | cons t ls ih =>
    cases k with
    | zero => simp [dropVisible]
    | succ k =>
      rw [List.cons_append, dropVisible]
      have ht : t.cmt = false := ha t List.mem_cons_self
      simp only [ht, Bool.false_eq_true, if_false, List.drop_succ_cons]
      exact ih k (fun t' ht' => ha t' (List.mem_cons_of_mem _ ht'))
        (by simp only [List.length_cons] at hk; omega)

/-- a part of a file: one comment line set aside, or a block of lines none of which is -/
inductive Seg where
  | cmt (raw : Str)
  | blk (ls : List TLine)

def Seg.lines : Seg → List TLine
  | .cmt raw => [⟨true, raw, false⟩]
  | .blk ls => ls

/-- the result of `rdcards(..., keep_comments=True)` on a file of comment lines and blocks:
`pend` = the comment lines met since the last card that was read.  A block that gives no card
leaves the pending comments pending; a block that gives cards gets them in front of its first
card; what is pending at the end of the file comes last. -/
def place (cv : Str → NasVal) (bl : NasVal) (keep : Bool) : List Str → List Seg → List Item
  | pend, [] => pend.map .comment
  | pend, .cmt raw :: ss => place cv bl keep (pend ++ [raw]) ss
  | pend, .blk A :: ss =>
    if (rdItems cv bl keep A).isEmpty then place cv bl keep pend ss
    else pend.map .comment ++ rdItems cv bl keep A ++ place cv bl keep [] ss

/-- one block in front of the rest of the file -/
theorem rdItemsGo_block (cv : Str → NasVal) (bl : NasVal) (keep : Bool) (R : List TLine)
    (hR : ∀ l ∈ (visible R).head?, NoCont l) :
    ∀ (n : Nat) (A : List TLine), A.length ≤ n → NoCmt A → ∀ pend : List Str,
      rdItemsGo cv bl keep (A ++ R).length pend (A ++ R) =
        if (rdItems cv bl keep A).isEmpty then rdItemsGo cv bl keep R.length pend R
        else pend.map .comment ++ rdItems cv bl keep A ++ rdItemsGo cv bl keep R.length [] R
  | 0, A, h, _, pend => by
    have : A = [] := List.eq_nil_of_length_eq_zero (by omega)
    subst this
    simp [rdItems, rdItemsGo]
  | n + 1, [], _, _, pend => by
    simp [rdItems, rdItemsGo]
  | n + 1, t :: rest, h, hA, pend => by
    have hr : rest.length ≤ n := by simp only [List.length_cons] at h; omega
    have htc : t.cmt = false := hA t List.mem_cons_self
    have hrest : NoCmt rest := fun t' ht' => hA t' (List.mem_cons_of_mem _ ht')
    unfold rdItems
    simp only [List.cons_append, List.length_cons]
    rw [rdItemsGo, rdItemsGo]
    simp only [htc, Bool.false_eq_true, if_false, List.map_nil, List.nil_append]
    cases hm : t.mat with
    | true =>
      simp only [if_true]
      have hvis : visible (rest ++ R) = visible rest ++ visible R := by
        simp [visible, List.filter_append]
      obtain ⟨he, hk⟩ := rdOneG_append cv bl keep t.txt (visible rest) (visible R) hR
      rw [hvis, he]
      generalize hRR : rdOneG cv bl keep t.txt (visible rest) = r at hk
      have hk' : r.2 ≤ rest.length := by
        rw [visible_noCmt rest hrest, List.length_map] at hk; exact hk
      rw [dropVisible_noCmt_append r.2 rest R hrest hk', dropVisible_noCmt r.2 rest hrest]
      have hdl : (rest.drop r.2).length ≤ n := by simp only [List.length_drop]; omega
      have hdn : NoCmt (rest.drop r.2) := fun t' ht' => hrest t' (List.mem_of_mem_drop ht')
      have ih := rdItemsGo_block cv bl keep R hR n (rest.drop r.2) hdl hdn []
      unfold rdItems at ih
      rw [rdItemsGo_fuel cv bl keep (rest ++ R).length (rest.drop r.2 ++ R) []
          (by simp only [List.length_append, List.length_drop]; omega),
        rdItemsGo_fuel cv bl keep rest.length (rest.drop r.2) [] (by simp only [List.length_drop]; omega), ih]
      simp only [List.isEmpty_cons, Bool.false_eq_true, if_false, List.map_nil, List.nil_append]
      split_ifs with hemp
      · rw [List.isEmpty_iff.1 hemp]; simp
      · simp
    | false =>
      simp only [Bool.false_eq_true, if_false]
      have ih := rdItemsGo_block cv bl keep R hR n rest hr hrest pend
      unfold rdItems at ih
      exact ih

/-- the segments of a file: every block is free of comment lines and starts with a line that is no
continuation line -/
def SegsOK (ss : List Seg) : Prop :=
  ∀ s ∈ ss, ∀ A, s = .blk A → NoCmt A ∧ ∀ t ∈ A.head?, NoCont t.txt

def segLines (ss : List Seg) : List TLine := (ss.map Seg.lines).flatten

theorem segs_visible_head : ∀ (ss : List Seg), SegsOK ss → ∀ l ∈ (visible (segLines ss)).head?, NoCont l
  | [], _, l, hl => by simp [segLines, visible] at hl
  | .cmt raw :: ss, h, l, hl => by
    have : visible (segLines (.cmt raw :: ss)) = visible (segLines ss) := by
      simp [segLines, Seg.lines, visible]
    rw [this] at hl
    exact segs_visible_head ss (fun s hs => h s (List.mem_cons_of_mem _ hs)) l hl
  | .blk [] :: ss, h, l, hl => by
    have : visible (segLines (.blk [] :: ss)) = visible (segLines ss) := by
      simp [segLines, Seg.lines]
    rw [this] at hl
    exact segs_visible_head ss (fun s hs => h s (List.mem_cons_of_mem _ hs)) l hl
  | .blk (x :: xs) :: ss, h, l, hl => by
    obtain ⟨hn, hh⟩ := h (.blk (x :: xs)) List.mem_cons_self _ rfl
    have hx : x.cmt = false := hn x List.mem_cons_self
    simp only [segLines, List.map_cons, Seg.lines, List.flatten_cons, List.cons_append, visible,
      List.filter_cons, hx, Bool.not_false, if_true, List.map_cons, List.head?_cons, Option.mem_def,
      Option.some.injEq] at hl
    subst hl
    exact hh x (by simp)

/-- **placement of the kept comments** at the level of lines -/
theorem rdItemsGo_place (cv : Str → NasVal) (bl : NasVal) (keep : Bool) :
    ∀ (ss : List Seg), SegsOK ss → ∀ pend : List Str,
      rdItemsGo cv bl keep (segLines ss).length pend (segLines ss) = place cv bl keep pend ss
  | [], _, pend => by simp [segLines, rdItemsGo, place]
  | .cmt raw :: ss, h, pend => by
    have e : segLines (.cmt raw :: ss) = ⟨true, raw, false⟩ :: segLines ss := by
      simp [segLines, Seg.lines]
    rw [e, List.length_cons, rdItemsGo]
    simp only [if_true, place]
    exact rdItemsGo_place cv bl keep ss (fun s hs => h s (List.mem_cons_of_mem _ hs)) _
  | .blk A :: ss, h, pend => by
    have hss : SegsOK ss := fun s hs => h s (List.mem_cons_of_mem _ hs)
    obtain ⟨hn, _⟩ := h (.blk A) List.mem_cons_self _ rfl
    have e : segLines (.blk A :: ss) = A ++ segLines ss := by simp [segLines, Seg.lines]
    rw [e, rdItemsGo_block cv bl keep (segLines ss) (segs_visible_head ss hss) A.length A (le_refl _) hn pend]
    simp only [place, rdItemsGo_place cv bl keep ss hss]

/-- the entries that are no comments -/
def noComments (items : List Item) : List Item :=
  items.filter fun | .comment _ => false | .card _ => true

theorem noComments_append (a b : List Item) : noComments (a ++ b) = noComments a ++ noComments b := by
  simp [noComments]

theorem noComments_comments (l : List Str) : noComments (l.map Item.comment) = [] := by
  simp [noComments]

/-- without the comment entries, `place` is the concatenation of the per-block reads -/
theorem noComments_place (cv : Str → NasVal) (bl : NasVal) (keep : Bool) :
    ∀ (ss : List Seg) (pend : List Str),
      noComments (place cv bl keep pend ss) =
        (ss.map fun s => match s with
          | .cmt _ => []
          | .blk A => noComments (rdItems cv bl keep A)).flatten
  | [], pend => by simp [place, noComments_comments]
  | .cmt raw :: ss, pend => by
    simp only [place, List.map_cons, List.flatten_cons, List.nil_append]
    exact noComments_place cv bl keep ss _
  | .blk A :: ss, pend => by
    simp only [place, List.map_cons, List.flatten_cons]
    split_ifs with hemp
    · rw [List.isEmpty_iff.1 hemp, noComments_place cv bl keep ss pend]; simp [noComments]
    · rw [noComments_append, noComments_append, noComments_comments, noComments_place cv bl keep ss []]
      simp

end PyYetiVerif.NasCards
