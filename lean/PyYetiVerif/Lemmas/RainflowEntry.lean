import PyYetiVerif.Lemmas.RainflowGen1
import PyYetiVerif.Lemmas.RainflowGen2
import PyYetiVerif.Generated.RainflowWrap
/-! The generated entry point `py_rain.rainflow` and the generated wrapper `cyclecount.rainflow`
are the hand-written entry model (core Lean only). -/
set_option linter.unusedSectionVars false
namespace PyYetiVerif.RainflowGen
open PyYetiVerif.RainflowImp PyYetiVerif.Rainflow PyYetiVerif.RainflowEntry

variable {α : Type} [Ops α]

theorem atleast_1d_wf (nd : Nd α) (h : NdWF nd) :
    (nd.atleast_1d.ndim = 1 ∧ 2 ≤ nd.atleast_1d.data.length) ↔ (nd.ndim = 1 ∧ 2 ≤ nd.data.length) := by
  unfold Nd.atleast_1d
  by_cases h0 : nd.shape = []
  · simp only [h0, if_true, Nd.ndim, List.length_cons, List.length_nil]
    have : nd.data.length = 1 := by simpa [NdWF, h0] using h
    simp [this]
  · simp [h0]

theorem atleast_1d_data (nd : Nd α) : nd.atleast_1d.data = nd.data := by
  unfold Nd.atleast_1d; split <;> rfl

theorem rows?_error {β : Type} (a : Arr2 β) (e : PyErr) (h : rows? a = .error e) : e = .internal := by
  unfold rows? at h; split at h <;> simp at h; exact h.symm

theorem pyEntry_ok (nd : Nd α) (g : Option Bool) (o : Out α) (ho : pyEntry nd g = .ok o) :
    o = count nd.atleast_1d.data (g.getD false) := by
  unfold pyEntry at ho
  by_cases hc : (if nd.atleast_1d.ndim = 1 then nd.atleast_1d.data.length else 0) < 2
  · simp only [hc, if_true] at ho; cases ho
  · simp only [hc, if_false] at ho; exact (Except.ok.inj ho).symm

theorem cEntry_ok (nd : Nd α) (g : Option Bool) (o : Out α) (ho : cEntry nd g = .ok o) :
    o = count nd.data (g.getD false) := by
  unfold cEntry at ho
  by_cases hs : (!nd.safe) = true
  · simp only [hs, if_true] at ho; cases ho
  · simp only [hs] at ho
    by_cases hc : (if nd.ndim = 1 then nd.data.length else 0) < 2
    · simp only [hc, if_true] at ho; cases ho
    · simp only [hc, if_false] at ho; exact (Except.ok.inj ho).symm

theorem implEntry_ok (i : Impl) (nd : Nd α) (g : Option Bool) (o : Out α)
    (ho : implEntry i nd g = .ok o) : o = count nd.data (g.getD false) := by
  cases i with
  | c_rain => exact cEntry_ok nd g o ho
  | py_rain => rw [← atleast_1d_data nd]; exact pyEntry_ok nd g o ho

/-- **the generated `py_rain.rainflow` is the entry model**: same refusal, same table -/
theorem generated_entry_eq_model (habs : ∀ a b : α, Ops.abs (a - b) = absd a b)
    (nd : Nd α) (g : Bool) (fuel : Nat) (hf : nd.data.length ≤ fuel) :
    observe (PyYetiVerif.Generated.PyRain.rainflow fuel nd g) = pyEntry nd (some g) := by
  unfold PyYetiVerif.Generated.PyRain.rainflow pyEntry
  simp only [Option.getD_some, Nd.size]
  have hf' : nd.atleast_1d.data.length ≤ fuel := by simpa [atleast_1d_data] using hf
  revert hf'
  generalize nd.atleast_1d = p
  intro hf'
  by_cases h1 : p.ndim = 1
  · simp only [h1, if_true]
    by_cases h2 : p.data.length < 2
    · have : ((p.data.length : Nat) : Int) < 2 := by omega
      simp [h2, this, observe]
    · have h2' : ¬ ((p.data.length : Nat) : Int) < 2 := by omega
      simp only [h2, h2', if_false]
      have hlen : 1 ≤ p.data.length := by omega
      have hfu : p.data.length ≤ fuel := hf'
      cases g with
      | true =>
          have h := generated_rainflow2_eq_model habs p.data hlen fuel hfu
          obtain ⟨r, hr, ht⟩ := Option.bind_eq_some_iff.mp h
          simp only [if_true, hr]
          simp only [tables] at ht
          obtain ⟨a, ha, ht⟩ := Option.bind_eq_some_iff.mp ht
          obtain ⟨b, hb, ht⟩ := Option.bind_eq_some_iff.mp ht
          simp only [Option.some.injEq, Prod.mk.injEq] at ht
          simp [observe, rows?, ha, hb, count, ht.1, ht.2, Except.map, Except.bind]
      | false =>
          have h := generated_rainflow1_eq_model habs p.data hlen fuel hfu
          obtain ⟨r, hr, ht⟩ := Option.bind_eq_some_iff.mp h
          simp [hr, observe, rows?, ht, count, Except.map]
  · simp [h1, observe]

/-- the wrapper as generated from cyclecount.py, on top of any `rain.rainflow` whose observable
behaviour is an entry model, is the wrapper model -/
theorem generated_wrapper_eq_model (available : Impl → Bool)
    (rain : Nd α → Bool → Except PyErr (PyResult α))
    (hrain : ∀ nd g, observe (rain nd g) = implEntry (imported available) nd (some g))
    (nd : Nd α) (g up : Bool) :
    observeW (PyYetiVerif.Generated.RainflowWrap.rainflow rain nd g up)
      = wrapper available nd (some g) (some up) := by
  have h := hrain nd g
  unfold PyYetiVerif.Generated.RainflowWrap.rainflow wrapper
  simp only [Option.getD_some]
  rw [← h]
  have hshape : ∀ o, implEntry (imported available) nd (some g) = .ok o →
      (g = true → ∃ a b, o = .tables a b) ∧ (g = false → ∃ a, o = .table a) := by
    intro o ho
    have := implEntry_ok _ nd (some g) o ho
    subst this
    cases g <;> simp [count]
  rw [← h] at hshape
  clear hrain h
  cases hr : rain nd g with
  | error e => cases g <;> simp [observe, observeW]
  | ok r =>
      rw [hr] at hshape
      cases r with
      | plain rf =>
          cases hrf : rows? rf with
          | error e =>
              have := rows?_error _ _ hrf
              subst this
              cases g <;> cases up <;> simp [observe, observeW, hrf, Except.map]
          | ok a =>
              have hs := hshape (.table a) (by simp [observe, hrf, Except.map])
              cases g with
              | true => obtain ⟨x, y, hxy⟩ := hs.1 rfl; cases hxy
              | false => cases up <;> simp [observe, observeW, hrf, Except.map, relabel]
      | pair rf os =>
          cases hrf : rows? rf with
          | error e =>
              have := rows?_error _ _ hrf
              subst this
              cases g <;> cases up <;> simp [observe, observeW, hrf, Except.map, Except.bind]
          | ok a =>
              cases hos : rows? os with
              | error e =>
                  have := rows?_error _ _ hos
                  subst this
                  cases g <;> cases up <;> simp [observe, observeW, hrf, hos, Except.map, Except.bind]
              | ok b =>
                  have hs := hshape (.tables a b) (by simp [observe, hrf, hos, Except.map, Except.bind])
                  cases g with
                  | false => obtain ⟨x, hx⟩ := hs.2 rfl; cases hx
                  | true => cases up <;> simp [observe, observeW, hrf, hos, Except.map, Except.bind, relabel]

/-- the import block of cyclecount.py binds `rain` as the entry model says -/
theorem generated_imported_eq_model (available : Impl → Bool) :
    PyYetiVerif.Generated.RainflowWrap.imported available = imported available := by
  unfold PyYetiVerif.Generated.RainflowWrap.imported imported
  rfl

end PyYetiVerif.RainflowGen
