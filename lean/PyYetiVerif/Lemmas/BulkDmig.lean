import PyYetiVerif.Lemmas.BulkText
/-! Helper lemmas for the DMIG part of C13 (core Lean only): the sorted index sets of `rddmig`, the
last-assignment-wins matrix fill, the reader applied to the card values of `wtdmig`. -/
namespace PyYetiVerif.Bulk

/-! ### `sortSet` (sorted, duplicate-free index) -/

def KeySorted (l : List (Int × Int)) : Prop := l.Pairwise fun a b => key a ≤ key b

theorem mem_insertKey (p q : Int × Int) (l : List (Int × Int)) : q ∈ insertKey p l ↔ q = p ∨ q ∈ l := by
  induction l with
  | nil => simp [insertKey]
  | cons a r ih =>
      unfold insertKey
      split
      · rename_i h; subst h; simp
      · split
        · simp
        · simp only [List.mem_cons, ih]
          constructor
          · rintro (h | h | h) <;> simp [h]
          · rintro (h | h | h) <;> simp [h]

theorem insertKey_sorted (p : Int × Int) (l : List (Int × Int)) (h : KeySorted l) : KeySorted (insertKey p l) := by
  induction l with
  | nil => simp [insertKey, KeySorted]
  | cons a r ih =>
      unfold insertKey
      have ha : ∀ b ∈ r, key a ≤ key b := (List.pairwise_cons.mp h).1
      have hr : KeySorted r := (List.pairwise_cons.mp h).2
      split
      · exact h
      · split
        · rename_i hlt
          refine List.pairwise_cons.mpr ⟨?_, h⟩
          intro b hb
          rcases List.mem_cons.mp hb with rfl | hb
          · omega
          · have := ha b hb; omega
        · rename_i hne hge
          refine List.pairwise_cons.mpr ⟨?_, ih hr⟩
          intro b hb
          rcases (mem_insertKey p b r).mp hb with rfl | hb
          · omega
          · exact ha b hb

theorem insertKey_nodup (p : Int × Int) (l : List (Int × Int)) (hs : KeySorted l) (hn : l.Nodup) :
    (insertKey p l).Nodup := by
  induction l with
  | nil => simp [insertKey]
  | cons a r ih =>
      unfold insertKey
      have ha : ∀ b ∈ r, key a ≤ key b := (List.pairwise_cons.mp hs).1
      have hr : KeySorted r := (List.pairwise_cons.mp hs).2
      have hna : a ∉ r := (List.nodup_cons.mp hn).1
      have hnr : r.Nodup := (List.nodup_cons.mp hn).2
      split
      · exact hn
      · split
        · rename_i hne hlt
          refine List.nodup_cons.mpr ⟨?_, hn⟩
          intro hm
          rcases List.mem_cons.mp hm with e | hm
          · exact hne e
          · have := ha p hm; omega
        · rename_i hne hge
          refine List.nodup_cons.mpr ⟨?_, ih hr hnr⟩
          intro hm
          rcases (mem_insertKey p a r).mp hm with e | hm
          · exact hne e.symm
          · exact hna hm

theorem sortSet_aux (l acc : List (Int × Int)) (hs : KeySorted acc) (hn : acc.Nodup) :
    KeySorted (l.foldl (fun acc p => insertKey p acc) acc) ∧ (l.foldl (fun acc p => insertKey p acc) acc).Nodup ∧
      ∀ q, q ∈ l.foldl (fun acc p => insertKey p acc) acc ↔ q ∈ l ∨ q ∈ acc := by
  induction l generalizing acc with
  | nil => simp [hs, hn]
  | cons a r ih =>
      obtain ⟨h1, h2, h3⟩ := ih (insertKey a acc) (insertKey_sorted a acc hs) (insertKey_nodup a acc hs hn)
      refine ⟨h1, h2, fun q => ?_⟩
      simp only [List.foldl_cons, h3, mem_insertKey, List.mem_cons]
      constructor
      · rintro (h | h | h) <;> simp [h]
      · rintro ((h | h) | h) <;> simp [h]

theorem sortSet_spec (l : List (Int × Int)) :
    KeySorted (sortSet l) ∧ (sortSet l).Nodup ∧ ∀ q, q ∈ sortSet l ↔ q ∈ l := by
  obtain ⟨h1, h2, h3⟩ := sortSet_aux l [] (by simp [KeySorted]) (by simp)
  exact ⟨h1, h2, fun q => by have := h3 q; simp only [List.not_mem_nil, or_false] at this; exact this⟩

/-! ### last assignment wins -/

theorem lastAssign_none (as : List ((Int × Int) × (Int × Int) × Val × Val)) (r c : Int × Int)
    (h : ∀ e ∈ as, ¬ (e.1 = r ∧ e.2.1 = c)) : ∀ init, as.foldl (fun acc e => if e.1 = r ∧ e.2.1 = c then some e.2.2 else acc) init = init := by
  induction as with
  | nil => intro init; rfl
  | cons a t ih =>
      intro init
      simp only [List.foldl_cons, if_neg (h a (by simp))]
      exact ih (fun e he => h e (by simp [he])) init

/-- all assignments to the position carry the same value `v`, and there is one: the cell holds `v` -/
theorem lastAssign_const (as : List ((Int × Int) × (Int × Int) × Val × Val)) (r c : Int × Int) (v : Val × Val)
    (hall : ∀ e ∈ as, e.1 = r ∧ e.2.1 = c → e.2.2 = v) (hex : ∃ e ∈ as, e.1 = r ∧ e.2.1 = c) :
    lastAssign as r c = some v := by
  unfold lastAssign
  have gen : ∀ (as : List ((Int × Int) × (Int × Int) × Val × Val)) (init : Option (Val × Val)),
      (∀ e ∈ as, e.1 = r ∧ e.2.1 = c → e.2.2 = v) → (init = some v ∨ ∃ e ∈ as, e.1 = r ∧ e.2.1 = c) →
      as.foldl (fun acc e => if e.1 = r ∧ e.2.1 = c then some e.2.2 else acc) init = some v := by
    intro as
    induction as with
    | nil => intro init _ h; rcases h with h | ⟨e, he, _⟩; exact h; simp at he
    | cons a t ih =>
        intro init hall h
        simp only [List.foldl_cons]
        by_cases hp : a.1 = r ∧ a.2.1 = c
        · rw [if_pos hp, hall a (by simp) hp]
          exact ih (some v) (fun e he => hall e (by simp [he])) (Or.inl rfl)
        · rw [if_neg hp]
          apply ih init (fun e he => hall e (by simp [he]))
          rcases h with h | ⟨e, he, hpe⟩
          · exact Or.inl h
          · rcases List.mem_cons.mp he with rfl | he
            · exact absurd hpe hp
            · exact Or.inr ⟨e, he, hpe⟩
  exact gen as none hall (Or.inr hex)

theorem lastAssign_none' (as : List ((Int × Int) × (Int × Int) × Val × Val)) (r c : Int × Int)
    (h : ∀ e ∈ as, ¬ (e.1 = r ∧ e.2.1 = c)) : lastAssign as r c = none :=
  lastAssign_none as r c h none

/-! ### `c[k::4]` on the fields of a multi-line card -/

theorem every4_short {α : Type} (k : Nat) (l : List α) (h : l.length ≤ k) : every4 k l = [] := by
  unfold every4
  rw [List.drop_eq_nil_of_le h, chunks_nil]; rfl

theorem every4_single {α : Type} (k : Nat) (l : List α) (x : α) (hx : l[k]? = some x) (h4 : l.length ≤ 4) :
    every4 k l = [x] := by
  unfold every4
  have hk : k < l.length := by
    rcases List.getElem?_eq_some_iff.mp hx with ⟨h, _⟩; exact h
  have hne : (l.drop k).isEmpty = false := by
    cases hq : l.drop k with
    | nil => have := congrArg List.length hq; simp at this; omega
    | cons => rfl
  have hh : (l.drop k).head? = some x := by rw [List.head?_drop]; exact hx
  rw [chunks_eq]
  have : (4 = 0 ∨ (l.drop k).length ≤ 4) := Or.inr (by simp; omega)
  rw [if_pos this, hne]
  simp only [Bool.false_eq_true, if_false, List.filterMap_cons, hh, List.filterMap_nil]

theorem every4_cons4 {α : Type} (k : Nat) (A B : List α) (x : α) (hA : A.length = 4) (hx : A[k]? = some x) :
    every4 k (A ++ B) = x :: every4 k B := by
  have hk : k < 4 := by
    rcases List.getElem?_eq_some_iff.mp hx with ⟨h, _⟩; omega
  unfold every4
  have hd : (A ++ B).drop k = A.drop k ++ B := List.drop_append_of_le_length (by omega)
  have hh : (A.drop k ++ B).head? = some x := by
    rw [List.head?_append, List.head?_drop, hx]; rfl
  rw [hd, chunks_eq]
  by_cases hlen : (A.drop k ++ B).length ≤ 4
  · have hB : B.length ≤ k := by simp at hlen; omega
    have hne : (A.drop k ++ B).isEmpty = false := by
      cases hq : A.drop k ++ B with
      | nil => rw [hq] at hh; simp at hh
      | cons => rfl
    rw [List.drop_eq_nil_of_le hB, chunks_nil, if_pos (Or.inr hlen), hne]
    simp only [Bool.false_eq_true, if_false, List.filterMap_cons, hh, List.filterMap_nil]
  · have h0 : ¬ (4 = 0 ∨ (A.drop k ++ B).length ≤ 4) := by omega
    rw [if_neg h0]
    have hdr : (A.drop k ++ B).drop 4 = B.drop k := by
      rw [List.drop_append, List.drop_drop]
      have : A.drop (k + 4) = [] := List.drop_eq_nil_of_le (by omega)
      simp only [List.length_drop, hA]
      rw [this]
      have : 4 - (4 - k) = k := by omega
      rw [this]; rfl
    rw [hdr]
    have ht : ((A.drop k ++ B).take 4).head? = some x := by
      rw [List.head?_take]; simp [hh]
    simp only [List.filterMap_cons, ht]

theorem every4_skip4 {α : Type} (k : Nat) (A B : List α) (hA : A.length = 4) : every4 (4 + k) (A ++ B) = every4 k B := by
  unfold every4
  have : (A ++ B).drop (4 + k) = B.drop k := by
    rw [← List.drop_drop, ← hA, List.drop_left]
  rw [this]

theorem every4_nil {α : Type} (k : Nat) : every4 k ([] : List α) = [] := every4_short k [] (by simp)

theorem padTo_length {α : Type} (b : α) (n : Nat) (l : List α) (h : l.length ≤ n) : (padTo b n l).length = n := by
  simp [padTo]; omega

theorem padTo_getElem? {α : Type} (b : α) (n : Nat) (l : List α) (k : Nat) (hk : k < n) :
    (padTo b n l)[k]? = some (l.getD k b) := by
  unfold padTo
  by_cases h : k < l.length
  · rw [List.getElem?_append_left h]; simp [List.getD, h]
  · rw [List.getElem?_append_right (by omega)]
    simp [List.getD, List.getElem?_replicate]
    have : l[k]? = none := by simp; omega
    simp [this]; omega

/-- `c[k::4]` over the rows of a card: every physical line but the last is padded to 4 fields -/
theorem every4_cardVals (b : Val) (k : Nat) (hk : k < 4) : ∀ rows : List (List Val),
    (∀ r ∈ rows, k < r.length ∧ r.length ≤ 4) → every4 k (cardVals b 4 rows) = rows.map (·.getD k b) := by
  intro rows
  induction rows with
  | nil => intro _; simp [cardVals, every4_nil]
  | cons r rs ih =>
      intro h
      have hr := h r (by simp)
      cases rs with
      | nil =>
          simp only [cardVals, List.map_cons, List.map_nil]
          apply every4_single k r _ _ hr.2
          simp [List.getD, hr.1]
      | cons r' rs' =>
          have := ih (fun x hx => h x (by simp [hx]))
          simp only [cardVals, List.map_cons] at this ⊢
          rw [every4_cons4 k _ _ (r.getD k b) (padTo_length b 4 r hr.2) (padTo_getElem? b 4 r k hk), this]

/-- the fourth field of three-field rows: the padding blank of every line but the last -/
theorem every4_cardVals_pad (b : Val) : ∀ rows : List (List Val), (∀ r ∈ rows, r.length = 3) →
    every4 3 (cardVals b 4 rows) = rows.dropLast.map (fun _ => b) := by
  intro rows
  induction rows with
  | nil => intro _; simp [cardVals, every4_nil]
  | cons r rs ih =>
      intro h
      have hr := h r (by simp)
      cases rs with
      | nil => simp only [cardVals, List.dropLast_singleton, List.map_nil]; exact every4_short 3 r (by omega)
      | cons r' rs' =>
          have := ih (fun x hx => h x (by simp [hx]))
          simp only [cardVals, List.dropLast_cons_cons, List.map_cons] at this ⊢
          rw [every4_cons4 3 _ _ b (padTo_length b 4 r (by omega)) (by
            rw [padTo_getElem? b 4 r 3 (by omega)]
            have : r[3]? = none := by simp; omega
            simp [List.getD, this]), this]

/-- the card of `hdr` (three fields: name, column id, column dof) and data rows -/
theorem every4_card (b : Val) (k : Nat) (hdr : List Val) (hh : hdr.length = 3) (rows : List (List Val)) :
    every4 (4 + k) (cardVals b 4 (hdr :: rows)) = every4 k (cardVals b 4 rows) := by
  cases rows with
  | nil => simp only [cardVals]; rw [every4_short _ hdr (by omega), every4_nil]
  | cons r rs =>
      simp only [cardVals]
      exact every4_skip4 k _ _ (padTo_length b 4 hdr (by omega))

theorem cardVals_hdr_getD (b d : Val) (hdr : List Val) (rows : List (List Val)) (i : Nat) (hi : i < hdr.length) :
    (cardVals b 4 (hdr :: rows)).getD i d = hdr.getD i d := by
  cases rows with
  | nil => rfl
  | cons r rs =>
      simp only [cardVals, padTo, List.getD]
      rw [List.getElem?_append_left (by simp; omega), List.getElem?_append_left hi]

/-! ### what `rdcards` returns for the cards of `wtdmig` -/

/-- the header card -/
def Dmig.headerVals (d : Dmig) : List Val :=
  [.str d.name, .int 0, .int d.form, .int d.mtype, .int 0, .int 0, .blank, .int d.ncol]

/-- one `*` line: row id, row dof, real part and (complex types) imaginary part; `enc v` is what
`nas_sscanf` returns for the written `{:16.9E}` field of `v` (C12) -/
def Dmig.rowFields (enc : Int → Val) (d : Dmig) (e : (Int × Int) × (Int × Int)) : List Val :=
  [.int e.1.1, .int e.1.2, enc e.2.1] ++ (if d.mtype < 3 then [] else [enc e.2.2])

/-- one column card: the `DMIG*` line and its `*` lines, padded line by line as `rdcards` does -/
def Dmig.cardVals1 (enc : Int → Val) (d : Dmig) (c : (Int × Int) × List ((Int × Int) × (Int × Int))) : List Val :=
  cardVals Val.blank 4 ([.str d.name, .int c.1.1, .int c.1.2] :: c.2.map (d.rowFields enc))

def Dmig.written (enc : Int → Val) (d : Dmig) : List (List Val) := d.cards.map (d.cardVals1 enc)

/-- the value pair the reader stores for a written term -/
def Dmig.encIm (enc : Int → Val) (d : Dmig) (v : Int × Int) : Val := if d.mtype < 3 then .blank else enc v.2

def Dmig.encE (enc : Int → Val) (d : Dmig) (e : (Int × Int) × (Int × Int) × (Int × Int)) :
    (Int × Int) × (Int × Int) × Val × Val := (e.1, e.2.1, enc e.2.2.1, d.encIm enc e.2.2)

theorem zip_map_same {α β γ : Type} (l : List α) (f : α → β) (g : α → γ) :
    (l.map f).zip (l.map g) = l.map fun x => (f x, g x) := by
  induction l with
  | nil => rfl
  | cons a r ih => simp [ih]

theorem zip_map_replicate {α β γ : Type} (l : List α) (f : α → β) (b : γ) (n : Nat) (h : l.length ≤ n) :
    (l.map f).zip (List.replicate n b) = l.map fun x => (f x, b) := by
  induction l generalizing n with
  | nil => simp
  | cons a r ih =>
      cases n with
      | zero => simp at h
      | succ m => simp [List.replicate_succ, ih m (by simpa using h)]

theorem mapM_some_map {α β : Type} (l : List α) (f : α → Option β) (g : α → β) (h : ∀ a ∈ l, f a = some (g a)) :
    l.mapM f = some (l.map g) := by
  induction l with
  | nil => rfl
  | cons a r ih =>
      simp [List.mapM_cons, h a (by simp), ih (fun x hx => h x (by simp [hx]))]

theorem zip_map_append {α β γ : Type} (l : List α) (f : α → β) (g : α → γ) (extra : List γ) :
    (l.map f).zip (l.map g ++ extra) = l.map fun x => (f x, g x) := by
  induction l with
  | nil => simp
  | cons a r ih => simp [ih]

theorem mapM_map_some {α β γ : Type} (l : List α) (h : α → β) (f : β → Option γ) (g : α → γ)
    (hh : ∀ a ∈ l, f (h a) = some (g a)) : (l.map h).mapM f = some (l.map g) := by
  induction l with
  | nil => rfl
  | cons a r ih =>
      simp [List.mapM_cons, hh a (by simp), ih (fun x hx => hh x (by simp [hx]))]

/-- the row entries the reader extracts from one written column card -/
theorem card_entries (enc : Int → Val) (d : Dmig) (c : (Int × Int) × List ((Int × Int) × (Int × Int))) :
    (let cv := d.cardVals1 enc c
     let ids := every4 4 cv
     let dofs := every4 5 cv
     let res := every4 6 cv
     let ims := every4 7 cv
     ((ids.zip dofs).zip (res.zip (ims ++ List.replicate res.length Val.blank))).mapM
        fun ((a, b), (x, y)) => (lbl a b).map fun l => (l, x, y)) =
      some (c.2.map fun e => (e.1, enc e.2.1, d.encIm enc e.2)) := by
  simp only [Dmig.cardVals1]
  have e4 := every4_card Val.blank 0 [.str d.name, .int c.1.1, .int c.1.2] rfl (c.2.map (d.rowFields enc))
  have e5 := every4_card Val.blank 1 [.str d.name, .int c.1.1, .int c.1.2] rfl (c.2.map (d.rowFields enc))
  have e6 := every4_card Val.blank 2 [.str d.name, .int c.1.1, .int c.1.2] rfl (c.2.map (d.rowFields enc))
  have e7 := every4_card Val.blank 3 [.str d.name, .int c.1.1, .int c.1.2] rfl (c.2.map (d.rowFields enc))
  have hlen : ∀ r ∈ c.2.map (d.rowFields enc), 3 ≤ r.length ∧ r.length ≤ 4 := by
    intro r hr
    obtain ⟨e, _, rfl⟩ := List.mem_map.mp hr
    simp only [Dmig.rowFields]; split <;> simp
  have h0 := every4_cardVals Val.blank 0 (by omega) _ (fun r hr => ⟨by have := (hlen r hr).1; omega, (hlen r hr).2⟩)
  have h1 := every4_cardVals Val.blank 1 (by omega) _ (fun r hr => ⟨by have := (hlen r hr).1; omega, (hlen r hr).2⟩)
  have h2 := every4_cardVals Val.blank 2 (by omega) _ (fun r hr => ⟨by have := (hlen r hr).1; omega, (hlen r hr).2⟩)
  simp only [Nat.add_zero] at e4
  rw [show (5 : Nat) = 4 + 1 from rfl, show (6 : Nat) = 4 + 2 from rfl, show (7 : Nat) = 4 + 3 from rfl,
    e4, e5, e6, e7, h0, h1, h2]
  simp only [List.map_map]
  have hid : (c.2.map ((fun x => x.getD 0 Val.blank) ∘ d.rowFields enc)) = c.2.map fun e => Val.int e.1.1 := by
    apply List.map_congr_left; intro e _; simp [Dmig.rowFields]
  have hdof : (c.2.map ((fun x => x.getD 1 Val.blank) ∘ d.rowFields enc)) = c.2.map fun e => Val.int e.1.2 := by
    apply List.map_congr_left; intro e _; simp [Dmig.rowFields]
  have hre : (c.2.map ((fun x => x.getD 2 Val.blank) ∘ d.rowFields enc)) = c.2.map fun e => enc e.2.1 := by
    apply List.map_congr_left; intro e _; simp [Dmig.rowFields]
  rw [hid, hdof, hre, zip_map_same]
  have hzip : (c.2.map fun e => enc e.2.1).zip (every4 3 (cardVals Val.blank 4 (c.2.map (d.rowFields enc))) ++
      List.replicate (c.2.map fun e => enc e.2.1).length Val.blank) = c.2.map fun e => (enc e.2.1, d.encIm enc e.2) := by
    by_cases hr : d.mtype < 3
    · have h3 := every4_cardVals_pad Val.blank (c.2.map (d.rowFields enc)) (by
        intro r hr'
        obtain ⟨e, _, rfl⟩ := List.mem_map.mp hr'
        simp [Dmig.rowFields, hr])
      rw [h3, List.map_const', List.replicate_append_replicate]
      rw [zip_map_replicate _ _ _ _ (by simp)]
      apply List.map_congr_left; intro e _; simp [Dmig.encIm, hr]
    · have h3 := every4_cardVals Val.blank 3 (by omega) (c.2.map (d.rowFields enc)) (by
        intro r hr'
        obtain ⟨e, _, rfl⟩ := List.mem_map.mp hr'
        simp [Dmig.rowFields, hr])
      rw [h3, List.map_map]
      have : (c.2.map ((fun x => x.getD 3 Val.blank) ∘ d.rowFields enc)) = c.2.map fun e => enc e.2.2 := by
        apply List.map_congr_left; intro e _; simp [Dmig.rowFields, hr]
      rw [this, zip_map_append]
      apply List.map_congr_left; intro e _; simp [Dmig.encIm, hr]
  rw [hzip, zip_map_same]
  apply mapM_map_some
  intro e _
  simp [lbl]

/-- what the reader makes of the written matrix -/
def Dmig.readFrame (enc : Int → Val) (d : Dmig) (nm : Txt) : DmigRead :=
  { name := nm, form := .int d.form, mtype := .int d.mtype,
    rows := if d.form = 6 then sortSet (d.entries.map (·.1) ++ d.cards.map (·.1)) else sortSet (d.entries.map (·.1)),
    cols := if d.form = 6 then sortSet (d.entries.map (·.1) ++ d.cards.map (·.1)) else sortSet (d.cards.map (·.1)),
    entries := d.entries.map (d.encE enc) }

theorem val_int_beq (a b : Int) : (Val.int a == Val.int b) = decide (a = b) := by
  by_cases h : a = b
  · subst h; simp
  · simp [h]

theorem dmigOne_written (enc : Int → Val) (d : Dmig) (nm : Txt) :
    dmigOne d.headerVals nm (d.written enc) = some (d.readFrame enc nm) := by
  have hcol : (d.written enc).mapM (fun c => lbl (c.getD 1 Val.blank) (c.getD 2 Val.blank)) = some (d.cards.map (·.1)) := by
    unfold Dmig.written
    apply mapM_map_some
    intro c _
    simp only [Dmig.cardVals1]
    rw [cardVals_hdr_getD _ _ _ _ 1 (by simp), cardVals_hdr_getD _ _ _ _ 2 (by simp)]
    simp [lbl]
  have hent : (d.cards.map (d.cardVals1 enc)).mapM (fun c =>
      let ids := every4 4 c
      let dofs := every4 5 c
      let res := every4 6 c
      let ims := every4 7 c
      (((ids.zip dofs).zip (res.zip (ims ++ List.replicate res.length Val.blank))).mapM
        fun ((a, b), (x, y)) => (lbl a b).map fun l => (l, x, y))) =
      some (d.cards.map fun c => c.2.map fun e => (e.1, enc e.2.1, d.encIm enc e.2)) :=
    mapM_map_some d.cards (d.cardVals1 enc) _ _ (fun c _ => card_entries enc d c)
  unfold dmigOne
  simp only [Dmig.written] at hcol ⊢
  rw [hcol]
  simp only [hent]
  have hform : d.headerVals.getD 2 Val.blank = Val.int d.form := rfl
  have hmt : d.headerVals.getD 3 Val.blank = Val.int d.mtype := rfl
  have hrows : ((d.cards.map fun c => c.2.map fun e => (e.1, enc e.2.1, d.encIm enc e.2)).flatten.map (·.1)) =
      d.entries.map (·.1) := by
    simp [Dmig.entries, List.flatMap_def, List.map_flatten]
    congr 1
    apply List.map_congr_left
    intro c _
    simp [Function.comp]
  have hents : ((d.cards.map (·.1)).zip (d.cards.map fun c => c.2.map fun e => (e.1, enc e.2.1, d.encIm enc e.2))).flatMap
      (fun x => x.2.map fun y => (y.1, x.1, y.2.1, y.2.2)) = d.entries.map (d.encE enc) := by
    rw [zip_map_same]
    simp [Dmig.entries, List.map_flatMap, List.flatMap_map]
    congr 1
  simp only [hform, hmt, hrows, val_int_beq, Dmig.readFrame]
  have h6 : ((d.form : Int) = 6) ↔ d.form = 6 := by omega
  by_cases hf : d.form = 6
  · simp [hf]
    exact hents
  · have : ¬ ((d.form : Int) = 6) := fun h => hf (h6.mp h)
    simp [hf, this]
    exact hents

/-! ### the assignments are exactly the non-zero terms -/

theorem Dmig.form6_iff (d : Dmig) : d.form = 6 ↔ d.single = false ∧ d.rowids = d.colids ∧ d.symm = true := by
  unfold Dmig.form
  cases hs : d.single
  · simp only [Bool.false_eq_true, if_false, true_and]
    constructor
    · intro h
      split at h
      · exact absurd h (by decide)
      · split at h
        · assumption
        · exact absurd h (by decide)
    · rintro ⟨h1, h2⟩
      have : ¬ d.rowids.length ≠ d.colids.length := by rw [h1]; simp
      rw [if_neg this, if_pos ⟨h1, h2⟩]
  · simp

/-- the mirrored term of a form-6 frame -/
theorem Dmig.At_symm (d : Dmig) (hshape : d.m.length = d.rowids.length) (h6 : d.form = 6) (i j : Nat)
    (hi : i < d.rowids.length) (hj : j < d.rowids.length) (v : Int × Int) (hat : d.At i j v) : d.At j i v := by
  obtain ⟨_, hids, hsym⟩ := (Dmig.form6_iff d).mp h6
  obtain ⟨row, hrow, hval⟩ := hat
  have hjm : j < d.m.length := by omega
  refine ⟨d.m[j], by simp [hjm], ?_⟩
  unfold Dmig.symm at hsym
  rw [List.all_eq_true] at hsym
  have hs1 := hsym i (List.mem_range.mpr hi)
  rw [List.all_eq_true] at hs1
  have hs2 := hs1 j (List.mem_range.mpr (by rw [← hids]; exact hj))
  have hrow' : d.m[j]? = some d.m[j] := by simp [hjm]
  simp only [List.getD_eq_getElem?_getD, hrow, hrow', Option.getD_some, beq_iff_eq] at hs2 hval ⊢
  rw [← hs2]; exact hval

theorem Dmig.colLabel_eq_rowid (d : Dmig) (h6 : d.form = 6) (j : Nat) (hj : j < d.rowids.length) :
    d.rowids[j]? = some (d.colLabel j) := by
  obtain ⟨hsingle, hids, _⟩ := (Dmig.form6_iff d).mp h6
  have : j < d.colids.length := by rw [← hids]; exact hj
  simp [Dmig.colLabel, hsingle, hids, List.getD_eq_getElem?_getD, this]

/-- converse of `dmig_roundtrip`: every assignment of the reader is a true non-zero term of the
frame, at the row carrying the row label and the column carrying the column label -/
theorem readBack_true_term (d : Dmig) (hshape : d.m.length = d.rowids.length) (rl cl v : Int × Int)
    (h : (rl, cl, v) ∈ d.readBack) :
    v ≠ (0, 0) ∧ ∃ i j, j < d.colids.length ∧ d.rowids[i]? = some rl ∧ d.colLabel j = cl ∧ d.At i j v := by
  have direct : ∀ rl cl v, (rl, cl, v) ∈ d.entries →
      v ≠ (0, 0) ∧ ∃ i j, j < d.colids.length ∧ d.start j ≤ i ∧ d.rowids[i]? = some rl ∧ d.colLabel j = cl ∧ d.At i j v := by
    intro rl cl v he
    obtain ⟨j, hj, _, rfl, hce⟩ := (mem_entries d rl cl v).mp he
    obtain ⟨hv, i, hs, hr, hat⟩ := (mem_colEntries d j rl v).mp hce
    exact ⟨hv, i, j, hj, hs, hr, rfl, hat⟩
  unfold Dmig.readBack at h
  by_cases h6 : d.form = 6
  · rw [if_pos h6, List.mem_flatMap] at h
    obtain ⟨⟨r, c, v'⟩, he, hm⟩ := h
    obtain ⟨hv, i, j, hj, _, hr, hc, hat⟩ := direct r c v' he
    simp only [List.mem_cons, List.not_mem_nil, or_false, Prod.mk.injEq] at hm
    rcases hm with ⟨rfl, rfl, rfl⟩ | ⟨rfl, rfl, rfl⟩
    · exact ⟨hv, i, j, hj, hr, hc, hat⟩
    · obtain ⟨_, hids, _⟩ := (Dmig.form6_iff d).mp h6
      have hi : i < d.rowids.length := (List.getElem?_eq_some_iff.mp hr).1
      have hjr : j < d.rowids.length := by rw [hids]; exact hj
      refine ⟨hv, j, i, by rw [← hids]; exact hi, ?_, ?_, d.At_symm hshape h6 i j hi hjr v hat⟩
      · rw [← hc]; exact d.colLabel_eq_rowid h6 j hjr
      · have := d.colLabel_eq_rowid h6 i hi
        rw [hr] at this
        exact (Option.some.inj this).symm
  · rw [if_neg h6] at h
    obtain ⟨hv, i, j, hj, _, hr, hc, hat⟩ := direct rl cl v h
    exact ⟨hv, i, j, hj, hr, hc, hat⟩

/-- `dmig_roundtrip` (every non-zero term is assigned), kept here for the assembly theorem -/
theorem readBack_complete (d : Dmig) (hshape : d.m.length = d.rowids.length)
    (i j : Nat) (rl v : Int × Int) (hj : j < d.colids.length)
    (hr : d.rowids[i]? = some rl) (hat : d.At i j v) (hv : v ≠ (0, 0)) :
    (rl, d.colLabel j, v) ∈ d.readBack := by
  have direct : ∀ i j rl, j < d.colids.length → d.rowids[i]? = some rl → d.At i j v →
      (if d.form = 6 then j else 0) ≤ i → (rl, d.colLabel j, v) ∈ d.entries := by
    intro i j rl hj hr hat hs
    exact (mem_entries d rl _ v).mpr ⟨j, hj, colWritten_of_At d i j v hat hv, rfl,
      (mem_colEntries d j rl v).mpr ⟨hv, i, hs, hr, hat⟩⟩
  unfold Dmig.readBack
  by_cases h6 : d.form = 6
  · rw [if_pos h6, List.mem_flatMap]
    obtain ⟨_, hids, _⟩ := (Dmig.form6_iff d).mp h6
    by_cases hij : j ≤ i
    · exact ⟨_, direct i j rl hj hr hat (by simp [h6, hij]), by simp⟩
    · have hi : i < d.rowids.length := (List.getElem?_eq_some_iff.mp hr).1
      have hjr : j < d.rowids.length := by rw [hids]; exact hj
      have hlabi : d.colLabel i = rl := by
        have := d.colLabel_eq_rowid h6 i hi
        rw [hr] at this
        exact (Option.some.inj this).symm
      have := direct j i (d.colLabel j) (by rw [← hids]; exact hi) (d.colLabel_eq_rowid h6 j hjr)
        (d.At_symm hshape h6 i j hi hjr v hat) (by simp [h6]; omega)
      rw [hlabi] at this
      exact ⟨_, this, by simp⟩
  · rw [if_neg h6]
    exact direct i j rl hj hr hat (by simp [h6])

theorem readFrame_assign (enc : Int → Val) (d : Dmig) (nm : Txt) :
    (d.readFrame enc nm).assign = d.readBack.map (d.encE enc) := by
  unfold DmigRead.assign Dmig.readBack
  simp only [Dmig.readFrame, val_int_beq]
  by_cases h6 : d.form = 6
  · have : ((d.form : Int) = 6) := by omega
    simp [h6, List.map_flatMap, List.flatMap_map, Dmig.encE]
  · have : ¬ ((d.form : Int) = 6) := by omega
    simp [h6, this]

theorem At_unique (d : Dmig) (i j : Nat) (v v' : Int × Int) (h : d.At i j v) (h' : d.At i j v') : v = v' := by
  obtain ⟨row, hr, hv⟩ := h
  obtain ⟨row', hr', hv'⟩ := h'
  rw [hr] at hr'
  cases hr'
  rw [← hv, ← hv']

/-- distinct columns carry distinct labels -/
def Dmig.ColsNodup (d : Dmig) : Prop := ((List.range d.colids.length).map d.colLabel).Nodup

theorem Dmig.colLabel_inj (d : Dmig) (h : d.ColsNodup) (j j' : Nat) (hj : j < d.colids.length) (hj' : j' < d.colids.length)
    (he : d.colLabel j = d.colLabel j') : j = j' := by
  have h0 : j < ((List.range d.colids.length).map d.colLabel).length := by simpa using hj
  apply (List.getElem?_inj h0 h).mp
  simp [hj, hj', he]

/-- the cell of the assembled frame at (label of row `i`, label of column `j`) holds the matrix term
(0 for a zero term) -/
theorem cell_written (enc : Int → Val) (d : Dmig) (nm : Txt) (hshape : d.m.length = d.rowids.length)
    (hrn : d.rowids.Nodup) (hcn : d.ColsNodup) (i j : Nat) (rl v : Int × Int) (hi : d.rowids[i]? = some rl)
    (hj : j < d.colids.length) (hat : d.At i j v) :
    (d.readFrame enc nm).cell rl (d.colLabel j) =
      if v = (0, 0) then (Val.int 0, Val.int 0) else (enc v.1, if d.mtype < 3 then Val.int 0 else enc v.2) := by
  have hilt : i < d.rowids.length := (List.getElem?_eq_some_iff.mp hi).1
  -- any assignment to this position is the term (i, j)
  have hpos : ∀ e ∈ (d.readFrame enc nm).assign, e.1 = rl ∧ e.2.1 = d.colLabel j → v ≠ (0, 0) ∧ e.2.2 = (enc v.1, d.encIm enc v) := by
    intro e he hp
    rw [readFrame_assign] at he
    obtain ⟨⟨rl', cl', v'⟩, hm, rfl⟩ := List.mem_map.mp he
    simp only [Dmig.encE] at hp
    obtain ⟨hp1, hp2⟩ := hp
    subst hp1
    obtain ⟨hv', i', j', hj', hr', hc', hat'⟩ := readBack_true_term d hshape _ _ _ hm
    have ei : i' = i := by
      have hi' : i' < d.rowids.length := (List.getElem?_eq_some_iff.mp hr').1
      exact (List.getElem?_inj hi' hrn).mp (by rw [hr', hi])
    have ej : j' = j := d.colLabel_inj hcn j' j hj' hj (by rw [hc', hp2])
    subst ei; subst ej
    have := At_unique d _ _ _ _ hat hat'
    subst this
    exact ⟨hv', rfl⟩
  have hreal : (d.readFrame enc nm).isReal = decide (d.mtype < 3) := by
    simp [DmigRead.isReal, Dmig.readFrame]
    omega
  unfold DmigRead.cell
  by_cases hv : v = (0, 0)
  · rw [if_pos hv]
    have : lastAssign (d.readFrame enc nm).assign rl (d.colLabel j) = none :=
      lastAssign_none' _ _ _ (fun e he hp => (hpos e he hp).1 hv)
    rw [this]
  · rw [if_neg hv]
    have hmem := readBack_complete d hshape i j rl v hj hi hat hv
    have : lastAssign (d.readFrame enc nm).assign rl (d.colLabel j) = some (enc v.1, d.encIm enc v) := by
      apply lastAssign_const _ _ _ _ (fun e he hp => (hpos e he hp).2)
      refine ⟨d.encE enc (rl, d.colLabel j, v), ?_, rfl, rfl⟩
      rw [readFrame_assign]
      exact List.mem_map.mpr ⟨_, hmem, rfl⟩
    rw [this, hreal]
    by_cases hr : d.mtype < 3 <;> simp [hr, Dmig.encIm]

/-! ### the index sets -/

theorem colWritten_iff (d : Dmig) (j : Nat) :
    d.colWritten j = true ↔ ∃ i v, d.At i j v ∧ v ≠ (0, 0) := by
  constructor
  · intro h
    unfold Dmig.colWritten Dmig.col at h
    rw [List.any_eq_true] at h
    obtain ⟨x, hx, hne⟩ := h
    obtain ⟨row, hrow, rfl⟩ := List.mem_map.mp hx
    obtain ⟨i, hi⟩ := List.mem_iff_getElem?.mp hrow
    exact ⟨i, _, ⟨row, hi, rfl⟩, by simpa using hne⟩
  · rintro ⟨i, v, hat, hv⟩
    exact colWritten_of_At d i j v hat hv

theorem mem_cardLabels (d : Dmig) (cl : Int × Int) :
    cl ∈ d.cards.map (·.1) ↔ ∃ j, j < d.colids.length ∧ d.colWritten j = true ∧ cl = d.colLabel j := by
  simp only [Dmig.cards, List.map_map, List.mem_map, List.mem_filter, List.mem_range, Function.comp]
  constructor
  · rintro ⟨j, ⟨hj, hw⟩, rfl⟩; exact ⟨j, hj, hw, rfl⟩
  · rintro ⟨j, hj, hw, rfl⟩; exact ⟨j, ⟨hj, hw⟩, rfl⟩

theorem mem_entryRows (d : Dmig) (rl : Int × Int) :
    rl ∈ d.entries.map (·.1) ↔ ∃ i j v, j < d.colids.length ∧ d.start j ≤ i ∧ d.rowids[i]? = some rl ∧ d.At i j v ∧ v ≠ (0, 0) := by
  simp only [List.mem_map]
  constructor
  · rintro ⟨⟨rl', cl, v⟩, he, rfl⟩
    obtain ⟨j, hj, _, rfl, hce⟩ := (mem_entries d rl' cl v).mp he
    obtain ⟨hv, i, hs, hr, hat⟩ := (mem_colEntries d j rl' v).mp hce
    exact ⟨i, j, v, hj, hs, hr, hat, hv⟩
  · rintro ⟨i, j, v, hj, hs, hr, hat, hv⟩
    exact ⟨(rl, d.colLabel j, v), (mem_entries d rl _ v).mpr ⟨j, hj, colWritten_of_At d i j v hat hv, rfl,
      (mem_colEntries d j rl v).mpr ⟨hv, i, hs, hr, hat⟩⟩, rfl⟩

theorem At_lt (d : Dmig) (i j : Nat) (v : Int × Int) (h : d.At i j v) : i < d.m.length := by
  obtain ⟨row, hr, _⟩ := h
  exact (List.getElem?_eq_some_iff.mp hr).1

/-- row index of the frame `rddmig` returns: the labels of the rows holding a non-zero term -/
theorem mem_readFrame_rows (enc : Int → Val) (d : Dmig) (nm : Txt) (hshape : d.m.length = d.rowids.length)
    (rl : Int × Int) :
    rl ∈ (d.readFrame enc nm).rows ↔
      ∃ i j v, d.rowids[i]? = some rl ∧ j < d.colids.length ∧ d.At i j v ∧ v ≠ (0, 0) := by
  by_cases h6 : d.form = 6
  · obtain ⟨_, hids, _⟩ := (Dmig.form6_iff d).mp h6
    simp only [Dmig.readFrame, if_pos h6, (sortSet_spec _).2.2, List.mem_append, mem_entryRows, mem_cardLabels]
    constructor
    · rintro (⟨i, j, v, hj, _, hr, hat, hv⟩ | ⟨j, hj, hw, rfl⟩)
      · exact ⟨i, j, v, hr, hj, hat, hv⟩
      · obtain ⟨i, v, hat, hv⟩ := (colWritten_iff d j).mp hw
        have hi : i < d.rowids.length := by have := At_lt d i j v hat; omega
        have hjr : j < d.rowids.length := by rw [hids]; exact hj
        exact ⟨j, i, v, d.colLabel_eq_rowid h6 j hjr, by rw [← hids]; exact hi, d.At_symm hshape h6 i j hi hjr v hat, hv⟩
    · rintro ⟨i, j, v, hr, hj, hat, hv⟩
      by_cases hij : j ≤ i
      · exact Or.inl ⟨i, j, v, hj, by simp [Dmig.start, h6, hij], hr, hat, hv⟩
      · have hi : i < d.rowids.length := (List.getElem?_eq_some_iff.mp hr).1
        have hjr : j < d.rowids.length := by rw [hids]; exact hj
        refine Or.inr ⟨i, by rw [← hids]; exact hi,
          colWritten_of_At d j i v (d.At_symm hshape h6 i j hi hjr v hat) hv, ?_⟩
        have := d.colLabel_eq_rowid h6 i hi
        rw [hr] at this
        exact Option.some.inj this
  · simp only [Dmig.readFrame, if_neg h6, (sortSet_spec _).2.2, mem_entryRows]
    constructor
    · rintro ⟨i, j, v, hj, _, hr, hat, hv⟩; exact ⟨i, j, v, hr, hj, hat, hv⟩
    · rintro ⟨i, j, v, hr, hj, hat, hv⟩; exact ⟨i, j, v, hj, by simp [Dmig.start, h6], hr, hat, hv⟩

/-- column index: the labels of the columns holding a non-zero term -/
theorem mem_readFrame_cols (enc : Int → Val) (d : Dmig) (nm : Txt) (hshape : d.m.length = d.rowids.length)
    (cl : Int × Int) :
    cl ∈ (d.readFrame enc nm).cols ↔
      ∃ i j v, j < d.colids.length ∧ d.colLabel j = cl ∧ d.At i j v ∧ v ≠ (0, 0) := by
  by_cases h6 : d.form = 6
  · obtain ⟨_, hids, _⟩ := (Dmig.form6_iff d).mp h6
    have hrows := mem_readFrame_rows enc d nm hshape cl
    have hsame : (d.readFrame enc nm).cols = (d.readFrame enc nm).rows := by simp [Dmig.readFrame, h6]
    rw [hsame, hrows]
    constructor
    · rintro ⟨i, j, v, hr, hj, hat, hv⟩
      have hi : i < d.rowids.length := (List.getElem?_eq_some_iff.mp hr).1
      have hjr : j < d.rowids.length := by rw [hids]; exact hj
      refine ⟨j, i, v, by rw [← hids]; exact hi, ?_, d.At_symm hshape h6 i j hi hjr v hat, hv⟩
      have := d.colLabel_eq_rowid h6 i hi
      rw [hr] at this
      exact (Option.some.inj this).symm
    · rintro ⟨i, j, v, hj, rfl, hat, hv⟩
      have hi : i < d.rowids.length := by have := At_lt d i j v hat; omega
      have hjr : j < d.rowids.length := by rw [hids]; exact hj
      exact ⟨j, i, v, d.colLabel_eq_rowid h6 j hjr, by rw [← hids]; exact hi, d.At_symm hshape h6 i j hi hjr v hat, hv⟩
  · simp only [Dmig.readFrame, if_neg h6, (sortSet_spec _).2.2, mem_cardLabels]
    constructor
    · rintro ⟨j, hj, hw, rfl⟩
      obtain ⟨i, v, hat, hv⟩ := (colWritten_iff d j).mp hw
      exact ⟨i, j, v, hj, rfl, hat, hv⟩
    · rintro ⟨i, j, v, hj, rfl, hat, hv⟩
      exact ⟨j, hj, colWritten_of_At d i j v hat hv, rfl⟩

theorem readFrame_sorted (enc : Int → Val) (d : Dmig) (nm : Txt) :
    KeySorted (d.readFrame enc nm).rows ∧ (d.readFrame enc nm).rows.Nodup ∧
      KeySorted (d.readFrame enc nm).cols ∧ (d.readFrame enc nm).cols.Nodup := by
  simp only [Dmig.readFrame]
  split <;> exact ⟨(sortSet_spec _).1, (sortSet_spec _).2.1, (sortSet_spec _).1, (sortSet_spec _).2.1⟩

end PyYetiVerif.Bulk
