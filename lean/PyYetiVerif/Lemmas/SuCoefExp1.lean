import PyYetiVerif.Lemmas.SuCoefExp
import PyYetiVerif.Model.SuCoefExp1
/-!
Helper lemmas for `SolveExp1` (C01): the model's step in matrix form and the unfolding of its loop.
-/
namespace PyYetiVerif.SuCoef
open Matrix

set_option linter.unusedSectionVars false

variable {n : ℕ}

/-- the loop materialises its state; mathematically it is the plain recurrence -/
theorem runExp1_cons_cons {α : Type} [Add α] [Mul α] [Zero α] (order1 : Bool) (store : α → α)
    (c : Exp1Coef α n) (y f0 f1 : Fin n → α) (fs : List (Fin n → α)) :
    runExp1 order1 store c y (f0 :: f1 :: fs)
      = (fun j => store (y j)) :: runExp1 order1 store c (exp1Step order1 c y f0 f1) (f1 :: fs) := by
  rw [runExp1]
  simp only [Memo.get_ofFn]

/-- the first recorded sample is the (converted) running state -/
theorem runExp1_head {α : Type} [Add α] [Mul α] [Zero α] (order1 : Bool) (store : α → α)
    (c : Exp1Coef α n) (y f : Fin n → α) (fs : List (Fin n → α)) :
    (runExp1 order1 store c y (f :: fs))[0]? = some fun j => store (y j) := by
  cases fs with
  | nil => simp [runExp1]
  | cons g rest => rw [runExp1_cons_cons]; simp

/-- `E, P, Q` as the model's record -/
def exp1CoefOf (E P Q : Matrix (Fin n) (Fin n) ℝ) : Exp1Coef ℝ n :=
  ⟨fun i j => E i j, fun i j => P i j, fun i j => Q i j⟩

/-- one model step in matrix form (order 1) -/
theorem exp1Step_one (E P Q : Matrix (Fin n) (Fin n) ℝ) (y f0 f1 : Fin n → ℝ) :
    exp1Step true (exp1CoefOf E P Q) y f0 f1 = E *ᵥ y + P *ᵥ f0 + Q *ᵥ f1 := by
  funext j
  simp [exp1Step, exp1CoefOf, dotFin_eq_real, Matrix.mulVec, dotProduct]
  ring

/-- one model step in matrix form (order 0: `Q` is not used) -/
theorem exp1Step_zero (E P Q : Matrix (Fin n) (Fin n) ℝ) (y f0 f1 : Fin n → ℝ) :
    exp1Step false (exp1CoefOf E P Q) y f0 f1 = E *ᵥ y + P *ᵥ f0 := by
  funext j
  simp [exp1Step, exp1CoefOf, dotFin_eq_real, Matrix.mulVec, dotProduct]

/-- `force + A @ d` in matrix form -/
theorem exp1Velo_eq (A : Matrix (Fin n) (Fin n) ℝ) (f d : Fin n → ℝ) :
    exp1Velo (fun i j => A i j) f d = A *ᵥ d + f := by
  funext j
  simp [exp1Velo, dotFin_eq_real, Matrix.mulVec, dotProduct]
  ring

end PyYetiVerif.SuCoef
