import PyYetiVerif.Model.SuCoef
import Mathlib.Analysis.SpecialFunctions.Trigonometric.Deriv
import Mathlib.Analysis.SpecialFunctions.ExpDeriv
import Mathlib.Analysis.SpecialFunctions.Sqrt
import Mathlib.Tactic.Ring
import Mathlib.Tactic.FieldSimp
import Mathlib.Tactic.Linarith
import Mathlib.Tactic.Positivity
/-!
Helper lemmas for C01: the real instance of the polymorphic coefficient functions, the notion of
"solution of the one-mode equation with a force `p + s t`" (`IsSol`), the closed forms built from the
code's own `F, G, Fp, Gp` (`xSol`, `vSol`), and per regime
  * `basis_*`  : `F, G` are the fundamental solutions of the homogeneous equation, `Fp, Gp` their
                 derivatives (HasDerivAt, through the polymorphic definitions);
  * `step_*`   : the code's `A, B, Ap, Bp` make one step equal to the closed form at `t = h`.
The regime lemmas are stated in the parameters `(m, β, w)` (`b = 2 m β`, `k = m (w² ± β²)`);
`Props/C01.lean` instantiates them from the hypotheses on `(m, b, k)`.
-/
namespace PyYetiVerif.SuCoef

noncomputable instance instTransOpsReal : TransOps ℝ :=
  ⟨Real.exp, Real.cos, Real.sin, Real.sqrt, fun x => |x|⟩

/-- `x, v` solve `m x'' + b x' + k x = p + s t`, `x 0 = x₀`, `x' 0 = v₀` -/
structure IsSol (m b k p s x₀ v₀ : ℝ) (x v : ℝ → ℝ) : Prop where
  dx : ∀ t, HasDerivAt x (v t) t
  dv : ∀ t, ∃ a, HasDerivAt v a t ∧ m * a + b * v t + k * x t = p + s * t
  x0 : x 0 = x₀
  v0 : v 0 = v₀

/-- `Fh, Gh` are the fundamental solutions of `m x'' + b x' + k x = 0` and `Fph, Gph` their
derivatives -/
structure Basis (m b k : ℝ) (Fh Gh Fph Gph : ℝ → ℝ) : Prop where
  dF : ∀ t, HasDerivAt Fh (Fph t) t
  dG : ∀ t, HasDerivAt Gh (Gph t) t
  dFp : ∀ t, HasDerivAt Fph (-(b * Fph t + k * Fh t) / m) t
  dGp : ∀ t, HasDerivAt Gph (-(b * Gph t + k * Gh t) / m) t
  F0 : Fh 0 = 1
  G0 : Gh 0 = 0
  Fp0 : Fph 0 = 0
  Gp0 : Gph 0 = 1

/-! ### closed forms -/

/-- the code's coefficient functions as functions of the step -/
noncomputable def Fh (r : Regime) (m b k : ℝ) : ℝ → ℝ := fun t => (suCoef r m b k t).F
noncomputable def Gh (r : Regime) (m b k : ℝ) : ℝ → ℝ := fun t => (suCoef r m b k t).G
noncomputable def Fph (r : Regime) (m b k : ℝ) : ℝ → ℝ := fun t => (suCoef r m b k t).Fp
noncomputable def Gph (r : Regime) (m b k : ℝ) : ℝ → ℝ := fun t => (suCoef r m b k t).Gp

/-- elastic closed form: particular solution `(p + s t)/k - s b/k²` plus the homogeneous part -/
noncomputable def xEl (Fh Gh : ℝ → ℝ) (b k p s x₀ v₀ t : ℝ) : ℝ :=
  (p + s * t) / k - s * b / k ^ 2 + Fh t * (x₀ - (p / k - s * b / k ^ 2)) + Gh t * (v₀ - s / k)

noncomputable def vEl (Fph Gph : ℝ → ℝ) (b k p s x₀ v₀ t : ℝ) : ℝ :=
  s / k + Fph t * (x₀ - (p / k - s * b / k ^ 2)) + Gph t * (v₀ - s / k)

/-- the equation a regime integrates: rigid-body regimes ignore `k`, the undamped one also `b` -/
def effB : Regime → ℝ → ℝ
  | .rigid, _ => 0
  | _, b => b

def effK : Regime → ℝ → ℝ
  | .rigid, _ => 0
  | .rigidVelo, _ => 0
  | .rigidFull, _ => 0
  | _, k => k

/-- closed-form displacement of regime `r` for the force `p + s t` -/
noncomputable def xSol (r : Regime) (m b k p s x₀ v₀ t : ℝ) : ℝ :=
  match r with
  | .rigid => x₀ + v₀ * t + p * t ^ 2 / (2 * m) + s * t ^ 3 / (6 * m)
  | .rigidFull | .rigidVelo =>
      x₀ + Gh .rigidFull m b k t * (v₀ - (p / b - s * m / b ^ 2))
        + (p / b - s * m / b ^ 2) * t + s * t ^ 2 / (2 * b)
  | .rf => (p + s * t) / k
  | r => xEl (Fh r m b k) (Gh r m b k) b k p s x₀ v₀ t

/-- closed-form velocity of regime `r` -/
noncomputable def vSol (r : Regime) (m b k p s x₀ v₀ t : ℝ) : ℝ :=
  match r with
  | .rigid => v₀ + p * t / m + s * t ^ 2 / (2 * m)
  | .rigidFull | .rigidVelo =>
      (p + s * t) / b - s * m / b ^ 2 + Gph .rigidFull m b k t * (v₀ - (p / b - s * m / b ^ 2))
  | .rf => s / k
  | r => vEl (Fph r m b k) (Gph r m b k) b k p s x₀ v₀ t

/-! ### elementary derivatives -/

theorem hd_exp (a t : ℝ) : HasDerivAt (fun t => Real.exp (a * t)) (a * Real.exp (a * t)) t := by
  have h := ((hasDerivAt_id t).const_mul a).exp
  simp only [id_eq, mul_one] at h
  exact h.congr_deriv (by ring)

/-- the over-damped branch writes `exp (-h * a)` -/
theorem hd_exp' (a t : ℝ) : HasDerivAt (fun t => Real.exp (-t * a)) (-a * Real.exp (-t * a)) t := by
  have h := (((hasDerivAt_id' t).fun_neg).mul_const a).exp
  exact h.congr_deriv (by ring)

theorem hd_cos (w t : ℝ) : HasDerivAt (fun t => Real.cos (w * t)) (-(w * Real.sin (w * t))) t := by
  have h := ((hasDerivAt_id t).const_mul w).cos
  simp only [id_eq, mul_one] at h
  exact h.congr_deriv (by ring)

theorem hd_sin (w t : ℝ) : HasDerivAt (fun t => Real.sin (w * t)) (w * Real.cos (w * t)) t := by
  have h := ((hasDerivAt_id t).const_mul w).sin
  simp only [id_eq, mul_one] at h
  exact h.congr_deriv (by ring)

/-! ### the generic elastic solution -/

theorem isSol_of_basis {m b k : ℝ} {Fh Gh Fph Gph : ℝ → ℝ} (hB : Basis m b k Fh Gh Fph Gph)
    (hm : m ≠ 0) (hk : k ≠ 0) (p s x₀ v₀ : ℝ) :
    IsSol m b k p s x₀ v₀ (xEl Fh Gh b k p s x₀ v₀) (vEl Fph Gph b k p s x₀ v₀) := by
  refine ⟨fun t => ?_, fun t => ?_, ?_, ?_⟩
  · have h1 : HasDerivAt (fun t => (p + s * t) / k - s * b / k ^ 2) (s / k) t := by
      have := ((((hasDerivAt_id t).const_mul s).const_add p).div_const k).sub_const (s * b / k ^ 2)
      simp only [id_eq, mul_one] at this
      exact this
    have h := (h1.fun_add ((hB.dF t).mul_const (x₀ - (p / k - s * b / k ^ 2)))).fun_add
      ((hB.dG t).mul_const (v₀ - s / k))
    exact h
  · refine ⟨-(b * Fph t + k * Fh t) / m * (x₀ - (p / k - s * b / k ^ 2))
        + -(b * Gph t + k * Gh t) / m * (v₀ - s / k), ?_, ?_⟩
    · have h := (((hB.dFp t).mul_const (x₀ - (p / k - s * b / k ^ 2))).const_add (s / k)).fun_add
        ((hB.dGp t).mul_const (v₀ - s / k))
      exact h
    · simp only [xEl, vEl]
      field_simp
      ring
  · simp only [xEl, hB.F0, hB.G0]
    field_simp
    ring
  · simp only [vEl, hB.Fp0, hB.Gp0]
    ring

/-! ### under-damped regime, parameters `(m, β, w)` -/

theorem basis_under (m β w : ℝ) (hm : m ≠ 0) (hw : w ≠ 0) :
    Basis m (2 * m * β) (m * (w ^ 2 + β ^ 2))
      (fun t => Real.exp (-β * t) * (Real.cos (w * t) + β / w * Real.sin (w * t)))
      (fun t => Real.exp (-β * t) * Real.sin (w * t) / w)
      (fun t => -((w ^ 2 + β ^ 2) / w) * Real.exp (-β * t) * Real.sin (w * t))
      (fun t => Real.exp (-β * t) * (Real.cos (w * t) - β / w * Real.sin (w * t))) := by
  refine ⟨fun t => ?_, fun t => ?_, fun t => ?_, fun t => ?_, ?_, ?_, ?_, ?_⟩
  · have h := (hd_exp (-β) t).fun_mul ((hd_cos w t).fun_add ((hd_sin w t).const_mul (β / w)))
    refine h.congr_deriv ?_
    field_simp
    ring
  · have h := ((hd_exp (-β) t).fun_mul (hd_sin w t)).div_const w
    refine h.congr_deriv ?_
    field_simp
    ring
  · have h := ((hd_exp (-β) t).const_mul (-((w ^ 2 + β ^ 2) / w))).fun_mul (hd_sin w t)
    simp only [← mul_assoc] at h
    refine h.congr_deriv ?_
    field_simp
    ring
  · have h := (hd_exp (-β) t).fun_mul ((hd_cos w t).fun_sub ((hd_sin w t).const_mul (β / w)))
    refine h.congr_deriv ?_
    field_simp
    ring
  · simp
  · simp
  · simp
  · simp

theorem suCoef_under_params (m β w t : ℝ) (hm : m ≠ 0) :
    suCoef .under m (2 * m * β) (m * (w ^ 2 + β ^ 2)) t
      = underCoef (m * (w ^ 2 + β ^ 2)) (w ^ 2 + β ^ 2) (w ^ 2) β t := by
  have h1 : m * (w ^ 2 + β ^ 2) / m = w ^ 2 + β ^ 2 := by field_simp
  have h2 : 2 * m * β / m / 2 = β := by field_simp
  have h3 : |w ^ 2 + β ^ 2 - β * β| = w ^ 2 := by
    rw [abs_of_nonneg] <;> nlinarith [sq_nonneg w]
  simp only [suCoef, h1, h2, TransOps.abs, h3]

theorem basis_of_under (m β w : ℝ) (hm : m ≠ 0) (hw : 0 < w) :
    Basis m (2 * m * β) (m * (w ^ 2 + β ^ 2))
      (Fh .under m (2 * m * β) (m * (w ^ 2 + β ^ 2))) (Gh .under m (2 * m * β) (m * (w ^ 2 + β ^ 2)))
      (Fph .under m (2 * m * β) (m * (w ^ 2 + β ^ 2))) (Gph .under m (2 * m * β) (m * (w ^ 2 + β ^ 2))) := by
  have h := basis_under m β w hm hw.ne'
  have e : Real.sqrt (w ^ 2) = w := Real.sqrt_sq hw.le
  convert h using 1 <;> funext t <;>
    simp only [Fh, Gh, Fph, Gph, suCoef_under_params m β w t hm, underCoef, TransOps.exp, TransOps.cos,
      TransOps.sin, TransOps.sqrt, e]

theorem step_under (m β w h x₀ v₀ P0 P1 : ℝ) (hm : m ≠ 0) (hw : 0 < w) (hh : h ≠ 0) :
    stepUnc1 (suCoef .under m (2 * m * β) (m * (w ^ 2 + β ^ 2)) h) (x₀, v₀) P0 P1 =
      (xSol .under m (2 * m * β) (m * (w ^ 2 + β ^ 2)) P0 ((P1 - P0) / h) x₀ v₀ h,
       vSol .under m (2 * m * β) (m * (w ^ 2 + β ^ 2)) P0 ((P1 - P0) / h) x₀ v₀ h) := by
  have e : Real.sqrt (w ^ 2) = w := Real.sqrt_sq hw.le
  have hw' : w ≠ 0 := hw.ne'
  have hk : w ^ 2 + β ^ 2 ≠ 0 := by positivity
  simp only [stepUnc1, xSol, vSol, xEl, vEl, Fh, Gh, Fph, Gph, suCoef_under_params m β w h hm, underCoef,
    TransOps.exp, TransOps.cos, TransOps.sin, TransOps.sqrt, e]
  refine Prod.ext ?_ ?_ <;> simp only <;> field_simp <;> ring

/-! ### over-damped regime, `k = m (β² - w²)` -/

theorem basis_over (m β w : ℝ) (hm : m ≠ 0) (hw : w ≠ 0) :
    Basis m (2 * m * β) (m * (β ^ 2 - w ^ 2))
      (fun t => (Real.exp (-t * (β - w)) + Real.exp (-t * (β + w))) / 2
          + β / w * ((Real.exp (-t * (β - w)) - Real.exp (-t * (β + w))) / 2))
      (fun t => (Real.exp (-t * (β - w)) - Real.exp (-t * (β + w))) / 2 / w)
      (fun t => -((β ^ 2 - w ^ 2) / w) * ((Real.exp (-t * (β - w)) - Real.exp (-t * (β + w))) / 2))
      (fun t => (Real.exp (-t * (β - w)) + Real.exp (-t * (β + w))) / 2
          - β / w * ((Real.exp (-t * (β - w)) - Real.exp (-t * (β + w))) / 2)) := by
  have hc : ∀ t, HasDerivAt (fun t => (Real.exp (-t * (β - w)) + Real.exp (-t * (β + w))) / 2)
      ((-(β - w) * Real.exp (-t * (β - w)) + -(β + w) * Real.exp (-t * (β + w))) / 2) t :=
    fun t => ((hd_exp' (β - w) t).fun_add (hd_exp' (β + w) t)).div_const 2
  have hs : ∀ t, HasDerivAt (fun t => (Real.exp (-t * (β - w)) - Real.exp (-t * (β + w))) / 2)
      ((-(β - w) * Real.exp (-t * (β - w)) - -(β + w) * Real.exp (-t * (β + w))) / 2) t :=
    fun t => ((hd_exp' (β - w) t).fun_sub (hd_exp' (β + w) t)).div_const 2
  refine ⟨fun t => ?_, fun t => ?_, fun t => ?_, fun t => ?_, ?_, ?_, ?_, ?_⟩
  · refine ((hc t).fun_add ((hs t).const_mul (β / w))).congr_deriv ?_
    field_simp
    ring
  · refine ((hs t).div_const w).congr_deriv ?_
    field_simp
    ring
  · refine ((hs t).const_mul (-((β ^ 2 - w ^ 2) / w))).congr_deriv ?_
    field_simp
    ring
  · refine ((hc t).fun_sub ((hs t).const_mul (β / w))).congr_deriv ?_
    field_simp
    ring
  · simp
  · simp
  · simp
  · simp

theorem suCoef_over_params (m β w t : ℝ) (hm : m ≠ 0) :
    suCoef .over m (2 * m * β) (m * (β ^ 2 - w ^ 2)) t
      = overCoef (m * (β ^ 2 - w ^ 2)) (β ^ 2 - w ^ 2) (w ^ 2) β t := by
  have h1 : m * (β ^ 2 - w ^ 2) / m = β ^ 2 - w ^ 2 := by field_simp
  have h2 : 2 * m * β / m / 2 = β := by field_simp
  have h3 : |β ^ 2 - w ^ 2 - β * β| = w ^ 2 := by
    rw [abs_of_nonpos] <;> nlinarith [sq_nonneg w]
  simp only [suCoef, h1, h2, TransOps.abs, h3]

theorem basis_of_over (m β w : ℝ) (hm : m ≠ 0) (hw : 0 < w) :
    Basis m (2 * m * β) (m * (β ^ 2 - w ^ 2))
      (Fh .over m (2 * m * β) (m * (β ^ 2 - w ^ 2))) (Gh .over m (2 * m * β) (m * (β ^ 2 - w ^ 2)))
      (Fph .over m (2 * m * β) (m * (β ^ 2 - w ^ 2))) (Gph .over m (2 * m * β) (m * (β ^ 2 - w ^ 2))) := by
  have h := basis_over m β w hm hw.ne'
  have e : Real.sqrt (w ^ 2) = w := Real.sqrt_sq hw.le
  convert h using 1 <;> funext t <;>
    simp only [Fh, Gh, Fph, Gph, suCoef_over_params m β w t hm, overCoef, TransOps.exp, TransOps.sqrt, e]

theorem step_over (m β w h x₀ v₀ P0 P1 : ℝ) (hm : m ≠ 0) (hw : 0 < w) (hk : β ^ 2 - w ^ 2 ≠ 0)
    (hh : h ≠ 0) :
    stepUnc1 (suCoef .over m (2 * m * β) (m * (β ^ 2 - w ^ 2)) h) (x₀, v₀) P0 P1 =
      (xSol .over m (2 * m * β) (m * (β ^ 2 - w ^ 2)) P0 ((P1 - P0) / h) x₀ v₀ h,
       vSol .over m (2 * m * β) (m * (β ^ 2 - w ^ 2)) P0 ((P1 - P0) / h) x₀ v₀ h) := by
  have e : Real.sqrt (w ^ 2) = w := Real.sqrt_sq hw.le
  have hw' : w ≠ 0 := hw.ne'
  simp only [stepUnc1, xSol, vSol, xEl, vEl, Fh, Gh, Fph, Gph, suCoef_over_params m β w h hm, overCoef,
    TransOps.exp, TransOps.sqrt, e]
  refine Prod.ext ?_ ?_ <;> simp only <;> field_simp <;> ring

/-! ### critically damped regime, `k = m β²` -/

theorem basis_crit (m β : ℝ) (hm : m ≠ 0) :
    Basis m (2 * m * β) (m * β ^ 2)
      (fun t => Real.exp (-β * t) * (1 + t * β))
      (fun t => t * Real.exp (-β * t))
      (fun t => -(β * β) * (t * Real.exp (-β * t)))
      (fun t => Real.exp (-β * t) * (1 - t * β)) := by
  have hid : ∀ t : ℝ, HasDerivAt (fun t : ℝ => t) 1 t := fun t => hasDerivAt_id' t
  refine ⟨fun t => ?_, fun t => ?_, fun t => ?_, fun t => ?_, ?_, ?_, ?_, ?_⟩
  · refine ((hd_exp (-β) t).fun_mul (((hid t).mul_const β).const_add 1)).congr_deriv ?_
    field_simp
    ring
  · refine ((hid t).fun_mul (hd_exp (-β) t)).congr_deriv ?_
    field_simp
    ring
  · refine (((hid t).fun_mul (hd_exp (-β) t)).const_mul (-(β * β))).congr_deriv ?_
    field_simp
    ring
  · refine ((hd_exp (-β) t).fun_mul (((hid t).mul_const β).const_sub 1)).congr_deriv ?_
    field_simp
    ring
  · simp
  · simp
  · simp
  · simp

theorem suCoef_crit_params (m β t : ℝ) (hm : m ≠ 0) :
    suCoef .crit m (2 * m * β) (m * β ^ 2) t = critCoef (m * β ^ 2) β t := by
  have h2 : 2 * m * β / m / 2 = β := by field_simp
  simp only [suCoef, h2]

theorem basis_of_crit (m β : ℝ) (hm : m ≠ 0) :
    Basis m (2 * m * β) (m * β ^ 2)
      (Fh .crit m (2 * m * β) (m * β ^ 2)) (Gh .crit m (2 * m * β) (m * β ^ 2))
      (Fph .crit m (2 * m * β) (m * β ^ 2)) (Gph .crit m (2 * m * β) (m * β ^ 2)) := by
  have h := basis_crit m β hm
  convert h using 1 <;> funext t <;>
    simp only [Fh, Gh, Fph, Gph, suCoef_crit_params m β t hm, critCoef, TransOps.exp]

theorem step_crit (m β h x₀ v₀ P0 P1 : ℝ) (hm : m ≠ 0) (hβ : β ≠ 0) (hh : h ≠ 0) :
    stepUnc1 (suCoef .crit m (2 * m * β) (m * β ^ 2) h) (x₀, v₀) P0 P1 =
      (xSol .crit m (2 * m * β) (m * β ^ 2) P0 ((P1 - P0) / h) x₀ v₀ h,
       vSol .crit m (2 * m * β) (m * β ^ 2) P0 ((P1 - P0) / h) x₀ v₀ h) := by
  simp only [stepUnc1, xSol, vSol, xEl, vEl, Fh, Gh, Fph, Gph, suCoef_crit_params m β h hm, critCoef,
    TransOps.exp]
  refine Prod.ext ?_ ?_ <;> simp only <;> field_simp <;> ring

/-! ### rigid-body regimes -/

theorem isSol_rigid (m p s x₀ v₀ : ℝ) (hm : m ≠ 0) (b k : ℝ) :
    IsSol m 0 0 p s x₀ v₀ (xSol .rigid m b k p s x₀ v₀) (vSol .rigid m b k p s x₀ v₀) := by
  have hid : ∀ t : ℝ, HasDerivAt (fun t : ℝ => t) 1 t := fun t => hasDerivAt_id' t
  refine ⟨fun t => ?_, fun t => ?_, ?_, ?_⟩
  · have h := ((((hid t).const_mul v₀).const_add x₀).fun_add
      ((((hid t).fun_pow 2).const_mul p).div_const (2 * m))).fun_add
      ((((hid t).fun_pow 3).const_mul s).div_const (6 * m))
    simp only [vSol]
    refine h.congr_deriv ?_
    field_simp
    ring
  · refine ⟨p / m + s * t / m, ?_, ?_⟩
    · have h := ((((hid t).const_mul p).div_const m).const_add v₀).fun_add
        ((((hid t).fun_pow 2).const_mul s).div_const (2 * m))
      refine h.congr_deriv ?_
      field_simp
      ring
    · field_simp
      ring
  · simp [xSol]
  · simp [vSol]

theorem step_rigid (m b k h x₀ v₀ P0 P1 : ℝ) (hm : m ≠ 0) (_hh : h ≠ 0) :
    stepUnc1 (suCoef .rigid m b k h) (x₀, v₀) P0 P1 =
      (xSol .rigid m b k P0 ((P1 - P0) / h) x₀ v₀ h, vSol .rigid m b k P0 ((P1 - P0) / h) x₀ v₀ h) := by
  simp only [stepUnc1, xSol, vSol, suCoef, rigidCoef]
  refine Prod.ext ?_ ?_ <;> simp only <;> field_simp <;> ring

theorem rigidFull_G (m b k t : ℝ) (_hm : m ≠ 0) :
    Gh .rigidFull m b k t = (1 - Real.exp (-(b / m) * t)) / (b / m) := by
  have h : b / m / 2 * 2 = b / m := by ring
  simp only [Gh, suCoef, rigidFullCoef, TransOps.exp, h]

theorem rigidFull_Gp (m b k t : ℝ) (_hm : m ≠ 0) :
    Gph .rigidFull m b k t = Real.exp (-(b / m) * t) := by
  have h : b / m / 2 * 2 = b / m := by ring
  simp only [Gph, suCoef, rigidFullCoef, TransOps.exp, h]

theorem isSol_rigidFull (m b p s x₀ v₀ : ℝ) (hm : m ≠ 0) (hb : b ≠ 0) (k : ℝ) :
    IsSol m b 0 p s x₀ v₀ (xSol .rigidFull m b k p s x₀ v₀) (vSol .rigidFull m b k p s x₀ v₀) := by
  have hid : ∀ t : ℝ, HasDerivAt (fun t : ℝ => t) 1 t := fun t => hasDerivAt_id' t
  have hG : ∀ t, HasDerivAt (Gh .rigidFull m b k) (Gph .rigidFull m b k t) t := by
    intro t
    have e1 : Gh .rigidFull m b k = fun t => (1 - Real.exp (-(b / m) * t)) / (b / m) :=
      funext fun t => rigidFull_G m b k t hm
    rw [e1, rigidFull_Gp m b k t hm]
    refine (((hd_exp (-(b / m)) t).const_sub 1).div_const (b / m)).congr_deriv ?_
    field_simp
  have hGp : ∀ t, HasDerivAt (Gph .rigidFull m b k) (-(b / m) * Gph .rigidFull m b k t) t := by
    intro t
    have e1 : Gph .rigidFull m b k = fun t => Real.exp (-(b / m) * t) :=
      funext fun t => rigidFull_Gp m b k t hm
    rw [e1]
    exact hd_exp (-(b / m)) t
  refine ⟨fun t => ?_, fun t => ?_, ?_, ?_⟩
  · have h := ((((hG t).mul_const (v₀ - (p / b - s * m / b ^ 2))).const_add x₀).fun_add
      ((hid t).const_mul (p / b - s * m / b ^ 2))).fun_add
      ((((hid t).fun_pow 2).const_mul s).div_const (2 * b))
    simp only [vSol]
    refine h.congr_deriv ?_
    field_simp
    ring
  · refine ⟨s / b + -(b / m) * Gph .rigidFull m b k t * (v₀ - (p / b - s * m / b ^ 2)), ?_, ?_⟩
    · have h := (((((hid t).const_mul s).const_add p).div_const b).sub_const (s * m / b ^ 2)).fun_add
        ((hGp t).mul_const (v₀ - (p / b - s * m / b ^ 2)))
      refine h.congr_deriv ?_
      field_simp
    · simp only [xSol, vSol]
      field_simp
      ring
  · simp [xSol, rigidFull_G m b k 0 hm]
  · simp only [vSol, rigidFull_Gp m b k 0 hm]
    simp

theorem step_rigidFull (m b k h x₀ v₀ P0 P1 : ℝ) (hm : m ≠ 0) (hb : b ≠ 0) (hh : h ≠ 0) :
    stepUnc1 (suCoef .rigidFull m b k h) (x₀, v₀) P0 P1 =
      (xSol .rigidFull m b k P0 ((P1 - P0) / h) x₀ v₀ h,
       vSol .rigidFull m b k P0 ((P1 - P0) / h) x₀ v₀ h) := by
  have h2 : b / m / 2 * 2 = b / m := by ring
  simp only [stepUnc1, xSol, vSol, Gh, Gph, suCoef, rigidFullCoef, TransOps.exp, h2]
  refine Prod.ext ?_ ?_ <;> simp only <;> field_simp <;> ring

/-! ### exact hypotheses per regime -/

/-- the hypotheses under which the formulas of regime `r` are the exact solution.  (The code's
`classify` selects `crit` for `|w2/wo2| < 1e-8` and the rigid regimes by cut-offs: those switch
errors are floating-point facts outside the theorems.) -/
def RegimeOK : Regime → ℝ → ℝ → ℝ → Prop
  | .under, m, b, k => m ≠ 0 ∧ (b / m / 2) * (b / m / 2) < k / m
  | .over, m, b, k => m ≠ 0 ∧ k ≠ 0 ∧ k / m < (b / m / 2) * (b / m / 2)
  | .crit, m, b, k => m ≠ 0 ∧ b ≠ 0 ∧ k / m = (b / m / 2) * (b / m / 2)
  | .rigid, m, _, _ => m ≠ 0
  | .rigidFull, m, b, _ => m ≠ 0 ∧ b ≠ 0
  | .rigidVelo, _, _, _ => False
  | .rf, _, _, _ => False

theorem under_params {m b k : ℝ} (hm : m ≠ 0) (hu : (b / m / 2) * (b / m / 2) < k / m) :
    ∃ β w : ℝ, 0 < w ∧ b = 2 * m * β ∧ k = m * (w ^ 2 + β ^ 2) := by
  refine ⟨b / m / 2, Real.sqrt (k / m - (b / m / 2) * (b / m / 2)), Real.sqrt_pos.2 (sub_pos.2 hu), ?_, ?_⟩
  · field_simp
  · rw [Real.sq_sqrt (sub_pos.2 hu).le]
    field_simp
    ring

theorem over_params {m b k : ℝ} (hm : m ≠ 0) (ho : k / m < (b / m / 2) * (b / m / 2)) :
    ∃ β w : ℝ, 0 < w ∧ b = 2 * m * β ∧ k = m * (β ^ 2 - w ^ 2) := by
  refine ⟨b / m / 2, Real.sqrt ((b / m / 2) * (b / m / 2) - k / m), Real.sqrt_pos.2 (sub_pos.2 ho), ?_, ?_⟩
  · field_simp
  · rw [Real.sq_sqrt (sub_pos.2 ho).le]
    field_simp
    ring

theorem crit_params {m b k : ℝ} (hm : m ≠ 0) (hc : k / m = (b / m / 2) * (b / m / 2)) :
    ∃ β : ℝ, b = 2 * m * β ∧ k = m * β ^ 2 := by
  refine ⟨b / m / 2, ?_, ?_⟩
  · field_simp
  · have : k = m * (k / m) := by field_simp
    rw [this, hc]
    ring

end PyYetiVerif.SuCoef
