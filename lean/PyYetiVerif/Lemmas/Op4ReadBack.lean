import PyYetiVerif.Lemmas.Op4AsciiHalf
import PyYetiVerif.Model.PyFloat
import PyYetiVerif.Model.Op4AsciiBits
import PyYetiVerif.Lemmas.Op4AsciiNum
import Mathlib.Tactic.Linarith
import Mathlib.Tactic.Ring
import Mathlib.Tactic.NormNum
import Mathlib.Algebra.Order.Field.Power
/-! C04: `float()` of the decimal printed with at least 17 significant digits is the double that was printed
(`PyFloat.toBits` is the correctly rounded decimal → double conversion of the model). -/
namespace PyYetiVerif.Op4A
open PyYetiVerif.Op4 PyYetiVerif.PyFloat

/-- round-half-even of a fraction strictly within one half of an integer is that integer -/
theorem rheDiv_nearest (n dn M : Nat) (hdn : 0 < dn) (h1 : 2 * n < (2 * M + 1) * dn) (h2 : (2 * M) * dn < 2 * n + dn) :
    rheDiv n dn = M := by
  unfold rheDiv
  simp only
  by_cases hge : M * dn ≤ n
  · -- n = M * dn + t, 2 t < dn
    have ht : n - M * dn < dn := by
      have : 2 * n < 2 * (M * dn) + dn := by nlinarith
      omega
    have hq : n / dn = M := by
      apply Nat.div_eq_of_lt_le
      · exact hge
      · have : n < M * dn + dn := by omega
        calc n < M * dn + dn := this
          _ = (M + 1) * dn := by ring
    have hr : n % dn = n - M * dn := by
      have := Nat.div_add_mod n dn
      rw [hq] at this
      have e : dn * M = M * dn := Nat.mul_comm _ _
      omega
    rw [hq, hr]
    have : 2 * (n - M * dn) < dn := by
      have : 2 * n < 2 * (M * dn) + dn := by nlinarith
      omega
    rw [if_pos this]
  · have hlt : n < M * dn := by omega
    have hM : 1 ≤ M := by
      rcases Nat.eq_zero_or_pos M with h0 | h0
      · subst h0; simp at hlt
      · exact h0
    obtain ⟨M', rfl⟩ : ∃ M', M = M' + 1 := ⟨M - 1, by omega⟩
    have e1 : (M' + 1) * dn = M' * dn + dn := by ring
    have h2' : 2 * (M' * dn) + dn < 2 * n := by nlinarith
    have hq : n / dn = M' := by
      apply Nat.div_eq_of_lt_le
      · omega
      · rw [e1] at hlt; rw [e1]; exact hlt
    have hr : n % dn = n - M' * dn := by
      have := Nat.div_add_mod n dn
      rw [hq] at this
      have e : dn * M' = M' * dn := Nat.mul_comm _ _
      omega
    rw [hq, hr]
    have hnot : ¬ 2 * (n - M' * dn) < dn := by omega
    have hgt : dn < 2 * (n - M' * dn) := by omega
    rw [if_neg hnot, if_pos hgt]

/-- the scaled fraction as a rational -/
theorem scale2_val (a b : Nat) (q : Int) (hb : 0 < b) :
    0 < (scale2 a b q).2 ∧ ((scale2 a b q).1 : ℚ) / ((scale2 a b q).2 : ℚ) = (a : ℚ) / b / (2 : ℚ) ^ q := by
  have hbq : (b : ℚ) ≠ 0 := by positivity
  unfold scale2
  by_cases hq : q ≥ 0
  · obtain ⟨j, rfl⟩ : ∃ j : Nat, q = (j : Int) := ⟨q.toNat, by omega⟩
    simp only [hq, if_true, Int.toNat_natCast, zpow_natCast]
    refine ⟨by positivity, ?_⟩
    push_cast
    field_simp
  · obtain ⟨j, rfl⟩ : ∃ j : Nat, q = -(j : Int) := ⟨(-q).toNat, by omega⟩
    simp only [hq, if_false, neg_neg, Int.toNat_natCast, zpow_neg, zpow_natCast]
    refine ⟨hb, ?_⟩
    push_cast
    field_simp

/-- **the scaling exponent**: `q = binExp a b` is at least `-1074`, puts `a/b/2^q` below `2^53`, and at or
above `2^52` unless it was clamped at the subnormal exponent -/
theorem binExp_spec (a b : Nat) (ha : 0 < a) (hb : 0 < b) :
    -1074 ≤ binExp a b ∧ (a : ℚ) / b / (2 : ℚ) ^ (binExp a b) < 2 ^ 53 ∧
      (-1074 < binExp a b → (2 : ℚ) ^ 52 ≤ (a : ℚ) / b / (2 : ℚ) ^ (binExp a b)) := by
  have ha0 : a ≠ 0 := by omega
  have hb0 : b ≠ 0 := by omega
  have la1 : 2 ^ a.log2 ≤ a := Nat.log2_self_le ha0
  have la2 : a < 2 ^ (a.log2 + 1) := Nat.lt_log2_self
  have lb1 : 2 ^ b.log2 ≤ b := Nat.log2_self_le hb0
  have lb2 : b < 2 ^ (b.log2 + 1) := Nat.lt_log2_self
  have la1q : (2 : ℚ) ^ (a.log2 : Int) ≤ a := by rw [zpow_natCast]; exact_mod_cast la1
  have la2q : (a : ℚ) < (2 : ℚ) ^ ((a.log2 : Int) + 1) := by
    have : ((a.log2 : Int) + 1) = ((a.log2 + 1 : Nat) : Int) := by push_cast; ring
    rw [this, zpow_natCast]; exact_mod_cast la2
  have lb1q : (2 : ℚ) ^ (b.log2 : Int) ≤ b := by rw [zpow_natCast]; exact_mod_cast lb1
  have lb2q : (b : ℚ) < (2 : ℚ) ^ ((b.log2 : Int) + 1) := by
    have : ((b.log2 : Int) + 1) = ((b.log2 + 1 : Nat) : Int) := by push_cast; ring
    rw [this, zpow_natCast]; exact_mod_cast lb2
  have hbq : (0 : ℚ) < b := by exact_mod_cast hb
  have haq : (0 : ℚ) < a := by exact_mod_cast ha
  have h2 : (2 : ℚ) ≠ 0 := by norm_num
  have hpos : ∀ z : Int, (0 : ℚ) < (2 : ℚ) ^ z := fun z => zpow_pos (by norm_num) z
  set t : Int := (a.log2 : Int) - (b.log2 : Int) with ht
  set D : ℚ := (a : ℚ) / b with hD
  have hDpos : 0 < D := div_pos haq hbq
  -- D ∈ (2^(t-1), 2^(t+1))
  have hDhi : D < (2 : ℚ) ^ (t + 1) := by
    have e : (2 : ℚ) ^ (t + 1) = (2 : ℚ) ^ ((a.log2 : Int) + 1) / (2 : ℚ) ^ (b.log2 : Int) := by
      rw [← zpow_sub₀ h2]; congr 1; rw [ht]; ring
    rw [e, hD, div_lt_div_iff₀ hbq (hpos _)]
    calc (a : ℚ) * (2 : ℚ) ^ (b.log2 : Int) ≤ a * b := by
          apply mul_le_mul_of_nonneg_left lb1q (le_of_lt haq)
      _ < (2 : ℚ) ^ ((a.log2 : Int) + 1) * b := by
          apply mul_lt_mul_of_pos_right la2q hbq
  have hDlo : (2 : ℚ) ^ (t - 1) < D := by
    have e : (2 : ℚ) ^ (t - 1) = (2 : ℚ) ^ (a.log2 : Int) / (2 : ℚ) ^ ((b.log2 : Int) + 1) := by
      rw [← zpow_sub₀ h2]; congr 1; rw [ht]; ring
    rw [e, hD, div_lt_div_iff₀ (hpos _) hbq]
    calc (2 : ℚ) ^ (a.log2 : Int) * b < (2 : ℚ) ^ (a.log2 : Int) * (2 : ℚ) ^ ((b.log2 : Int) + 1) := by
          apply mul_lt_mul_of_pos_left lb2q (hpos _)
      _ ≤ a * (2 : ℚ) ^ ((b.log2 : Int) + 1) := by
          apply mul_le_mul_of_nonneg_right la1q (le_of_lt (hpos _))
  -- first scaling
  set q1 : Int := t - 53 with hq1
  have hv1lo : (2 : ℚ) ^ 52 < D / (2 : ℚ) ^ q1 := by
    rw [lt_div_iff₀ (hpos _)]
    have e : (2 : ℚ) ^ 52 * (2 : ℚ) ^ q1 = (2 : ℚ) ^ (t - 1) := by
      have : (2 : ℚ) ^ 52 = (2 : ℚ) ^ (52 : Int) := by norm_num
      rw [this, ← zpow_add₀ h2]; congr 1; rw [hq1]; ring
    rw [e]; exact hDlo
  have hv1hi : D / (2 : ℚ) ^ q1 < 2 ^ 54 := by
    rw [div_lt_iff₀ (hpos _)]
    have e : (2 : ℚ) ^ 54 * (2 : ℚ) ^ q1 = (2 : ℚ) ^ (t + 1) := by
      have : (2 : ℚ) ^ 54 = (2 : ℚ) ^ (54 : Int) := by norm_num
      rw [this, ← zpow_add₀ h2]; congr 1; rw [hq1]; ring
    rw [e]; exact hDhi
  have hhalf : D / (2 : ℚ) ^ (q1 + 1) = D / (2 : ℚ) ^ q1 / 2 := by
    rw [zpow_add_one₀ h2, div_mul_eq_div_div]
  obtain ⟨hs2pos, hsval⟩ := scale2_val a b q1 hb
  -- the test of the model
  have htest : ((scale2 a b q1).1 / (scale2 a b q1).2 ≥ 2 ^ 53) ↔ (2 : ℚ) ^ 53 ≤ D / (2 : ℚ) ^ q1 := by
    rw [ge_iff_le, Nat.le_div_iff_mul_le hs2pos, ← hsval, le_div_iff₀ (by exact_mod_cast hs2pos)]
    constructor
    · intro h; exact_mod_cast h
    · intro h; exact_mod_cast h
  -- clamping
  have hclamp : ∀ q2 : Int, D / (2 : ℚ) ^ q2 < 2 ^ 53 → ((2 : ℚ) ^ 52 ≤ D / (2 : ℚ) ^ q2) →
      -1074 ≤ (if q2 < -1074 then -1074 else q2) ∧ D / (2 : ℚ) ^ (if q2 < -1074 then (-1074 : Int) else q2) < 2 ^ 53 ∧
        (-1074 < (if q2 < -1074 then (-1074 : Int) else q2) →
          (2 : ℚ) ^ 52 ≤ D / (2 : ℚ) ^ (if q2 < -1074 then (-1074 : Int) else q2)) := by
    intro q2 hhi hlo
    by_cases hc : q2 < -1074
    · simp only [hc, if_true]
      refine ⟨le_refl _, ?_, fun h => absurd h (lt_irrefl _)⟩
      have hle : (2 : ℚ) ^ q2 ≤ (2 : ℚ) ^ (-1074 : Int) := zpow_le_zpow_right₀ (by norm_num) (le_of_lt hc)
      calc D / (2 : ℚ) ^ (-1074 : Int) ≤ D / (2 : ℚ) ^ q2 := div_le_div_of_nonneg_left (le_of_lt hDpos) (hpos _) hle
        _ < 2 ^ 53 := hhi
    · simp only [hc, if_false]
      exact ⟨by omega, hhi, fun _ => hlo⟩
  unfold binExp
  simp only
  by_cases hc : (scale2 a b q1).1 / (scale2 a b q1).2 ≥ 2 ^ 53
  · have hc' := htest.1 hc
    simp only [← ht, ← hq1, hc, if_true]
    apply hclamp (q1 + 1)
    · rw [hhalf]; linarith
    · rw [hhalf]; linarith
  · have hc' : D / (2 : ℚ) ^ q1 < (2 : ℚ) ^ 53 := by
      by_contra hcon
      exact hc (htest.2 (not_lt.1 hcon))
    simp only [← ht, ← hq1, hc, if_false]
    exact hclamp q1 hc' (le_of_lt hv1lo)

theorem encodeBits_normal (neg : Bool) (M : Nat) (Q : Int) (hM1 : 2 ^ 52 ≤ M) (hM2 : M < 2 ^ 53)
    (hQ1 : -1074 ≤ Q) (hQ2 : Q ≤ 971) :
    encodeBits neg M Q = (if neg then 2 ^ 63 else 0) + (Q + 1075).toNat * 2 ^ 52 + (M - 2 ^ 52) := by
  unfold encodeBits
  have h1 : ¬ M < 2 ^ 52 := by omega
  have h2 : ¬ M ≥ 2 ^ 53 := by omega
  have h3 : ¬ (Q + 1075 ≥ 2047) := by omega
  simp only [h1, h2, h3, if_false]

theorem encodeBits_carry (neg : Bool) (Q : Int) (hQ1 : -1074 < Q) (hQ2 : Q ≤ 971) :
    encodeBits neg (2 ^ 53) (Q - 1) = (if neg then 2 ^ 63 else 0) + (Q + 1075).toNat * 2 ^ 52 + (2 ^ 52 - 2 ^ 52) := by
  unfold encodeBits
  have h1 : ¬ (2 : Nat) ^ 53 < 2 ^ 52 := by norm_num
  have h2 : (2 : Nat) ^ 53 ≥ 2 ^ 53 := le_refl _
  have h3 : ¬ (Q - 1 + 1 + 1075 ≥ 2047) := by omega
  have h4 : (Q - 1 + 1 + 1075) = Q + 1075 := by ring
  simp only [h1, h2, h3, if_false, if_true, h4]
  have h5 : ¬ (Q + 1075 ≥ 2047) := by omega
  norm_num
  intro h; omega

/-- **decimal → double.**  If the positive rational `a/b` lies strictly within half a unit in the last place of
the normal double `M·2^Q` (and within a quarter below when `M = 2^52` is the bottom of its binade, where the
doubles below are twice as dense), `toBits` returns the bit pattern of `±M·2^Q`. -/
theorem toBits_near (neg : Bool) (a b M : Nat) (Q : Int) (ha : 0 < a) (hb : 0 < b)
    (hM1 : 2 ^ 52 ≤ M) (hM2 : M < 2 ^ 53) (hQ1 : -1074 ≤ Q) (hQ2 : Q ≤ 971)
    (hhi : (a : ℚ) / b < ((M : ℚ) + 1 / 2) * (2 : ℚ) ^ Q)
    (hlo : ((M : ℚ) - 1 / 2) * (2 : ℚ) ^ Q < (a : ℚ) / b)
    (hlo' : M = 2 ^ 52 → -1074 < Q → ((M : ℚ) - 1 / 4) * (2 : ℚ) ^ Q < (a : ℚ) / b) :
    toBits neg a b = (if neg then 2 ^ 63 else 0) + (Q + 1075).toNat * 2 ^ 52 + (M - 2 ^ 52) := by
  have h2 : (2 : ℚ) ≠ 0 := by norm_num
  have hpos : ∀ z : Int, (0 : ℚ) < (2 : ℚ) ^ z := fun z => zpow_pos (by norm_num) z
  obtain ⟨hq0, hqhi, hqlo⟩ := binExp_spec a b ha hb
  obtain ⟨hs2pos, hsval⟩ := scale2_val a b (binExp a b) hb
  have hM1q : (2 : ℚ) ^ 52 ≤ M := by exact_mod_cast hM1
  have hM2q : (M : ℚ) + 1 ≤ 2 ^ 53 := by exact_mod_cast hM2
  set D : ℚ := (a : ℚ) / b with hD
  set q := binExp a b with hq
  have hne : (a == 0) = false := by simpa using (by omega : a ≠ 0)
  unfold toBits
  simp only [hne, Bool.false_eq_true, if_false]
  rw [← hq]
  -- from a rational enclosure of the scaled value to `rheDiv`
  have hround : ∀ M' : Nat, D / (2 : ℚ) ^ q < (M' : ℚ) + 1 / 2 → (M' : ℚ) - 1 / 2 < D / (2 : ℚ) ^ q →
      rheDiv (scale2 a b q).1 (scale2 a b q).2 = M' := by
    intro M' h1 h2'
    have hdn : (0 : ℚ) < ((scale2 a b q).2 : ℚ) := by exact_mod_cast hs2pos
    rw [← hsval] at h1 h2'
    rw [div_lt_iff₀ hdn] at h1
    rw [lt_div_iff₀ hdn] at h2'
    apply rheDiv_nearest _ _ _ hs2pos
    · have : (2 * ((scale2 a b q).1 : ℚ)) < (2 * (M' : ℚ) + 1) * ((scale2 a b q).2 : ℚ) := by linarith
      exact_mod_cast this
    · have : (2 * (M' : ℚ)) * ((scale2 a b q).2 : ℚ) < 2 * ((scale2 a b q).1 : ℚ) + ((scale2 a b q).2 : ℚ) := by linarith
      exact_mod_cast this
  -- monotonicity of powers of two
  have hmono : ∀ x y : Int, x ≤ y → (2 : ℚ) ^ x ≤ (2 : ℚ) ^ y := fun x y h => zpow_le_zpow_right₀ (by norm_num) h
  have hsucc : ∀ x : Int, (2 : ℚ) ^ (x + 1) = 2 * (2 : ℚ) ^ x := fun x => by rw [zpow_add_one₀ h2]; ring
  by_cases hA : (2 : ℚ) ^ 52 * (2 : ℚ) ^ Q ≤ D ∨ Q = -1074
  · -- the scaled value is rounded in the binade of `M·2^Q`
    have hqQ : q = Q := by
      rcases lt_trichotomy q Q with hlt | heq | hgt
      · exfalso
        -- D / 2^q < 2^53 but D ≥ 2^52 · 2^Q ≥ 2^53 · 2^q
        have hQ' : -1074 < Q := by omega
        have hDge : (2 : ℚ) ^ 52 * (2 : ℚ) ^ Q ≤ D := by
          rcases hA with h | h
          · exact h
          · omega
        have h1 : (2 : ℚ) ^ (q + 1) ≤ (2 : ℚ) ^ Q := hmono _ _ (by omega)
        rw [hsucc] at h1
        have h3 : D < 2 ^ 53 * (2 : ℚ) ^ q := (div_lt_iff₀ (hpos q)).1 hqhi
        nlinarith [hpos q, hpos Q]
      · exact heq
      · exfalso
        have hq' : -1074 < q := by omega
        have h1 := hqlo hq'
        rw [le_div_iff₀ (hpos q)] at h1
        have h3 : (2 : ℚ) ^ (Q + 1) ≤ (2 : ℚ) ^ q := hmono _ _ (by omega)
        rw [hsucc] at h3
        nlinarith [hpos q, hpos Q]
    rw [hqQ] at hround ⊢
    have hr := hround M (by rw [div_lt_iff₀ (hpos Q)]; exact hhi) (by rw [lt_div_iff₀ (hpos Q)]; exact hlo)
    rw [hr]
    exact encodeBits_normal neg M Q hM1 hM2 hQ1 hQ2
  · -- just below the bottom of the binade: rounded in the binade below, carried back
    have hA' : D < (2 : ℚ) ^ 52 * (2 : ℚ) ^ Q ∧ -1074 < Q := by
      constructor
      · by_contra hcon; exact hA (Or.inl (not_lt.1 hcon))
      · by_contra hcon; exact hA (Or.inr (by omega))
    obtain ⟨hDlt, hQ'⟩ := hA'
    have hMeq : M = 2 ^ 52 := by
      by_contra hne'
      have hM3 : 2 ^ 52 + 1 ≤ M := by omega
      have hM3q : (2 : ℚ) ^ 52 + 1 ≤ M := by exact_mod_cast hM3
      nlinarith [hpos Q]
    have hlo2 := hlo' hMeq hQ'
    have hMq : (M : ℚ) = 2 ^ 52 := by rw [hMeq]; norm_num
    rw [hMq] at hlo2
    have hqQ : q = Q - 1 := by
      rcases lt_trichotomy q (Q - 1) with hlt | heq | hgt
      · exfalso
        have h1 : (2 : ℚ) ^ (q + 1 + 1) ≤ (2 : ℚ) ^ Q := hmono _ _ (by omega)
        rw [hsucc, hsucc] at h1
        have h3 : D < 2 ^ 53 * (2 : ℚ) ^ q := (div_lt_iff₀ (hpos q)).1 hqhi
        nlinarith [hpos q, hpos Q]
      · exact heq
      · exfalso
        have hq' : -1074 < q := by omega
        have h1 := hqlo hq'
        rw [le_div_iff₀ (hpos q)] at h1
        have h3 : (2 : ℚ) ^ Q ≤ (2 : ℚ) ^ q := hmono _ _ (by omega)
        nlinarith [hpos q, hpos Q]
    have hQs : (2 : ℚ) ^ Q = 2 * (2 : ℚ) ^ (Q - 1) := by
      have := hsucc (Q - 1)
      rwa [sub_add_cancel] at this
    rw [hqQ] at hround ⊢
    have hr := hround (2 ^ 53)
      (by rw [div_lt_iff₀ (hpos _)]; push_cast; nlinarith [hpos (Q - 1)])
      (by rw [lt_div_iff₀ (hpos _)]; push_cast; nlinarith [hpos (Q - 1)])
    rw [hr, hMeq]
    exact encodeBits_carry neg Q hQ' hQ2

/-- a double whose exponent field is not zero and not all ones -/
def IsNormal (b : Nat) : Prop :=
  b < 18446744073709551616 ∧ 1 ≤ b / 4503599627370496 % 2048 ∧ b / 4503599627370496 % 2048 ≤ 2046

set_option exponentiation.threshold 2000 in
theorem sciOf_mant_pos (d : Nat) (neg : Bool) (m : Nat) (e2 : Int) (h0 : m ≠ 0) (hm : m < 2 ^ 53) (h1 : -1074 ≤ e2)
    (h2 : e2 ≤ 972) : 10 ^ d ≤ (sciOf d neg m e2).mant := by
  unfold sciOf
  simp only [h0, if_false]
  have hmpos : 1 ≤ m := by omega
  by_cases he : e2 ≥ 0
  · simp only [he, if_true]
    have hpw : 2 ^ e2.toNat ≤ 2 ^ 972 := Nat.pow_le_pow_right (by norm_num) (by omega)
    refine (sciPos_mant d _ 1 (by norm_num) ?_ ?_).1
    · have : 1 ≤ m * 2 ^ e2.toNat := Nat.mul_pos hmpos (by positivity)
      calc 1 ≤ m * 2 ^ e2.toNat := this
        _ ≤ m * 2 ^ e2.toNat * 10 ^ 400 := Nat.le_mul_of_pos_right _ (by positivity)
    · calc m * 2 ^ e2.toNat < 2 ^ 53 * 2 ^ 972 := by
            apply Nat.mul_lt_mul_of_lt_of_le hm hpw (by positivity)
        _ ≤ 10 ^ 400 * 1 := by norm_num
  · simp only [he, if_false]
    have hpw : 2 ^ (-e2).toNat ≤ 2 ^ 1074 := Nat.pow_le_pow_right (by norm_num) (by omega)
    refine (sciPos_mant d _ _ (by positivity) ?_ ?_).1
    · calc 2 ^ (-e2).toNat ≤ 2 ^ 1074 := hpw
        _ ≤ 1 * 10 ^ 400 := by norm_num
        _ ≤ m * 10 ^ 400 := Nat.mul_le_mul_right _ hmpos
    · calc m < 2 ^ 53 := hm
        _ ≤ 10 ^ 400 * 1 := by norm_num
        _ ≤ 10 ^ 400 * 2 ^ (-e2).toNat := Nat.mul_le_mul_left _ (Nat.one_le_pow _ _ (by norm_num))

/-- the printed mantissa of a non-zero double has exactly `d + 1` digits -/
theorem sci_mant_nonzero (d b : Nat) (h : b % 9223372036854775808 ≠ 0) : 10 ^ d ≤ (sci d b).mant := by
  unfold sci
  simp only
  apply sciOf_mant_pos
  · split <;> omega
  · split <;> omega
  · split <;> omega
  · split <;> omega

theorem sciOf_neg (d : Nat) (neg : Bool) (m : Nat) (e2 : Int) : (sciOf d neg m e2).neg = neg := by
  unfold sciOf
  split <;> rfl

theorem sci_neg (d b : Nat) : (sci d b).neg = (b / 9223372036854775808 % 2 == 1) := by
  unfold sci
  exact sciOf_neg _ _ _ _

/-- the enclosure `toBits_near` asks for, from the half-unit bound of a decimal with at least 17 digits -/
theorem enclosure (N M : Nat) (u X : ℚ) (hu : 0 < u) (hX : 0 < X) (hN : (10 : ℚ) ^ 16 ≤ N)
    (hM1 : 2 ^ 52 ≤ M) (hM2 : M < 2 ^ 53) (habs : |(N : ℚ) * u - (M : ℚ) * X| ≤ 1 / 2 * u) :
    (N : ℚ) * u < ((M : ℚ) + 1 / 2) * X ∧ ((M : ℚ) - 1 / 2) * X < (N : ℚ) * u ∧
      (M = 2 ^ 52 → ((M : ℚ) - 1 / 4) * X < (N : ℚ) * u) := by
  obtain ⟨h1, h2⟩ := abs_le.1 habs
  have hM1q : (2 : ℚ) ^ 52 ≤ M := by exact_mod_cast hM1
  have hM2q : (M : ℚ) + 1 ≤ 2 ^ 53 := by exact_mod_cast hM2
  have hNu : ((10 : ℚ) ^ 16 - 1 / 2) * u ≤ ((N : ℚ) - 1 / 2) * u :=
    mul_le_mul_of_nonneg_right (by linarith) (le_of_lt hu)
  have hP : (M : ℚ) * X ≤ (2 ^ 53 - 1) * X := mul_le_mul_of_nonneg_right (by linarith) (le_of_lt hX)
  have hkey : ((10 : ℚ) ^ 16 - 1 / 2) * u ≤ (M : ℚ) * X := by nlinarith
  have huX : u < X := by
    by_contra hcon
    have hcon' : X ≤ u := not_lt.1 hcon
    have : ((10 : ℚ) ^ 16 - 1 / 2) * X ≤ ((10 : ℚ) ^ 16 - 1 / 2) * u :=
      mul_le_mul_of_nonneg_left hcon' (by norm_num)
    norm_num at this hkey hP
    nlinarith
  refine ⟨by nlinarith, by nlinarith, ?_⟩
  intro hMeq
  have hMq : (M : ℚ) = 2 ^ 52 := by rw [hMeq]; norm_num
  rw [hMq] at hkey h1 h2 ⊢
  have hu2 : 2 * u < X := by
    by_contra hcon
    have hcon' : X ≤ 2 * u := not_lt.1 hcon
    norm_num at hkey
    nlinarith
  nlinarith

/-- **read_back_bits (normal doubles).**  Printed with at least 17 significant digits (`d ≥ 16`), the decimal of a
normal double rounds back to the same bit pattern. -/
theorem decBits_decOf_normal (d b : Nat) (hd : 16 ≤ d) (hd' : d ≤ 5000) (hb : IsNormal b) :
    decBits (decOf0 d b) = b := by
  obtain ⟨hb64, hef1, hef2⟩ := hb
  have hnz : b % 9223372036854775808 ≠ 0 := by omega
  have hmant := sci_mant_nonzero d b hnz
  have hmant2 := (sci_mant d b).1
  have he10 := sci_e10_bound d b
  have herr := decOf0_err d b
  have hneg := sci_neg d b
  set N := (sci d b).mant with hNdef
  set E := (sci d b).e10 with hEdef
  set ef := b / 4503599627370496 % 2048 with hefdef
  set mf := b % 4503599627370496 with hmfdef
  have hef0 : ¬ ef = 0 := by omega
  -- the two values, sign factored out
  have hdec : decOf0 d b = { neg := (b / 9223372036854775808 % 2 == 1), man := N, exp := E - (d : Int) } := by
    unfold decOf0 sciDec
    rw [hneg]
  have hbv : bitsVal b = (if (b / 9223372036854775808 % 2 == 1) then -1 else 1) *
      ((mf + 4503599627370496 : Nat) : ℚ) * (2 : ℚ) ^ ((ef : Int) - 1075) := by
    unfold bitsVal
    simp only [← hefdef, ← hmfdef, hef0, if_false]
  have hX : (0 : ℚ) < (2 : ℚ) ^ ((ef : Int) - 1075) := zpow_pos (by norm_num) _
  have hu : (0 : ℚ) < (10 : ℚ) ^ (E - (d : Int)) := zpow_pos (by norm_num) _
  have habs : |(N : ℚ) * (10 : ℚ) ^ (E - (d : Int)) - ((mf + 4503599627370496 : Nat) : ℚ) * (2 : ℚ) ^ ((ef : Int) - 1075)|
      ≤ 1 / 2 * (10 : ℚ) ^ (E - (d : Int)) := by
    rw [hdec, hbv] at herr
    simp only [Dec10.toRat] at herr
    cases hs : (b / 9223372036854775808 % 2 == 1)
    · simpa [hs] using herr
    · rw [hs] at herr
      simp only [if_true] at herr
      have e : (-1 : ℚ) * (N : ℚ) * (10 : ℚ) ^ (E - (d : Int)) - -1 * ((mf + 4503599627370496 : Nat) : ℚ) * (2 : ℚ) ^ ((ef : Int) - 1075)
          = -((N : ℚ) * (10 : ℚ) ^ (E - (d : Int)) - ((mf + 4503599627370496 : Nat) : ℚ) * (2 : ℚ) ^ ((ef : Int) - 1075)) := by ring
      rw [e, abs_neg] at herr
      exact herr
  have hN16 : (10 : ℚ) ^ 16 ≤ N := by
    have h1 : (10 : Nat) ^ 16 ≤ 10 ^ d := Nat.pow_le_pow_right (by norm_num) hd
    have : (10 : Nat) ^ 16 ≤ N := le_trans h1 hmant
    exact_mod_cast this
  have hM1 : 2 ^ 52 ≤ mf + 4503599627370496 := by norm_num
  have hM2 : mf + 4503599627370496 < 2 ^ 53 := by norm_num; omega
  obtain ⟨hhi, hlo, hlo'⟩ := enclosure N (mf + 4503599627370496) _ _ hu hX hN16 hM1 hM2 habs
  have hNpos : 0 < N := lt_of_lt_of_le (by positivity) hmant
  -- the result of `toBits_near` is `b`
  have hfinal : ∀ neg : Bool, neg = (b / 9223372036854775808 % 2 == 1) →
      (if neg then 2 ^ 63 else 0) + (((ef : Int) - 1075) + 1075).toNat * 2 ^ 52 + (mf + 4503599627370496 - 2 ^ 52) = b := by
    intro neg hn
    have e1 : (((ef : Int) - 1075) + 1075).toNat = ef := by omega
    rw [e1]
    have hb63 : b / 9223372036854775808 < 2 := by omega
    cases neg
    · have : ¬ (b / 9223372036854775808 % 2 = 1) := by
        intro hc; rw [hc] at hn; simp at hn
      norm_num
      omega
    · have : b / 9223372036854775808 % 2 = 1 := by
        by_contra hc
        have : (b / 9223372036854775808 % 2 == 1) = false := by simpa using hc
        rw [this] at hn; cases hn
      norm_num
      omega
  rw [hdec]
  unfold decBits
  simp only
  have hexp : ¬ (E - (d : Int)).natAbs > 6000 := by omega
  rw [if_neg hexp]
  by_cases hge : E - (d : Int) ≥ 0
  · rw [if_pos hge]
    obtain ⟨k, hk⟩ : ∃ k : Nat, E - (d : Int) = (k : Int) := ⟨(E - (d : Int)).toNat, by omega⟩
    rw [hk] at hhi hlo hlo' ⊢
    simp only [Int.toNat_natCast]
    have hval : ((N * 10 ^ k : Nat) : ℚ) / ((1 : Nat) : ℚ) = (N : ℚ) * (10 : ℚ) ^ (k : Int) := by
      push_cast; simp
    rw [toBits_near _ (N * 10 ^ k) 1 (mf + 4503599627370496) ((ef : Int) - 1075) (Nat.mul_pos hNpos (by positivity))
      (by norm_num) hM1 hM2 (by omega) (by omega) (by rw [hval]; exact hhi) (by rw [hval]; exact hlo)
      (fun h1 _ => by rw [hval]; exact hlo' h1)]
    exact hfinal _ rfl
  · rw [if_neg hge]
    obtain ⟨k, hk⟩ : ∃ k : Nat, E - (d : Int) = -(k : Int) := ⟨(-(E - (d : Int))).toNat, by omega⟩
    rw [hk] at hhi hlo hlo' ⊢
    simp only [neg_neg, Int.toNat_natCast]
    have hval : ((N : Nat) : ℚ) / ((10 ^ k : Nat) : ℚ) = (N : ℚ) * (10 : ℚ) ^ (-(k : Int)) := by
      rw [zpow_neg, zpow_natCast]; push_cast; rw [div_eq_mul_inv]
    rw [toBits_near _ N (10 ^ k) (mf + 4503599627370496) ((ef : Int) - 1075) hNpos
      (by positivity) hM1 hM2 (by omega) (by omega) (by rw [hval]; exact hhi) (by rw [hval]; exact hlo)
      (fun h1 _ => by rw [hval]; exact hlo' h1)]
    exact hfinal _ rfl

/-- decimal → subnormal double: within half a unit of `M·2^-1074`, `0 < M < 2^52` -/
theorem toBits_near_sub (neg : Bool) (a b M : Nat) (ha : 0 < a) (hb : 0 < b) (hM2 : M < 2 ^ 52)
    (hhi : (a : ℚ) / b < ((M : ℚ) + 1 / 2) * (2 : ℚ) ^ (-1074 : Int))
    (hlo : ((M : ℚ) - 1 / 2) * (2 : ℚ) ^ (-1074 : Int) < (a : ℚ) / b) :
    toBits neg a b = (if neg then 2 ^ 63 else 0) + M := by
  have h2 : (2 : ℚ) ≠ 0 := by norm_num
  have hpos : ∀ z : Int, (0 : ℚ) < (2 : ℚ) ^ z := fun z => zpow_pos (by norm_num) z
  obtain ⟨hq0, hqhi, hqlo⟩ := binExp_spec a b ha hb
  have hM2q : (M : ℚ) + 1 ≤ 2 ^ 52 := by exact_mod_cast hM2
  have hqQ : binExp a b = -1074 := by
    by_contra hne
    have hq' : -1074 < binExp a b := by omega
    have h1 := hqlo hq'
    rw [le_div_iff₀ (hpos _)] at h1
    have h3 : (2 : ℚ) ^ ((-1074 : Int) + 1) ≤ (2 : ℚ) ^ (binExp a b) := zpow_le_zpow_right₀ (by norm_num) (by omega)
    rw [zpow_add_one₀ h2] at h3
    nlinarith [hpos (binExp a b), hpos (-1074)]
  obtain ⟨hs2pos, hsval⟩ := scale2_val a b (binExp a b) hb
  have hne : (a == 0) = false := by simpa using (by omega : a ≠ 0)
  unfold toBits
  simp only [hne, Bool.false_eq_true, if_false]
  rw [hqQ] at hsval ⊢
  have hdn : (0 : ℚ) < ((scale2 a b (-1074)).2 : ℚ) := by rw [← hqQ]; exact_mod_cast hs2pos
  have hr : rheDiv (scale2 a b (-1074)).1 (scale2 a b (-1074)).2 = M := by
    have h1 : (a : ℚ) / b / (2 : ℚ) ^ (-1074 : Int) < (M : ℚ) + 1 / 2 := by rw [div_lt_iff₀ (hpos _)]; exact hhi
    have h2' : (M : ℚ) - 1 / 2 < (a : ℚ) / b / (2 : ℚ) ^ (-1074 : Int) := by rw [lt_div_iff₀ (hpos _)]; exact hlo
    rw [← hsval] at h1 h2'
    rw [div_lt_iff₀ hdn] at h1
    rw [lt_div_iff₀ hdn] at h2'
    apply rheDiv_nearest _ _ _ (by rw [← hqQ]; exact hs2pos)
    · have : (2 * ((scale2 a b (-1074)).1 : ℚ)) < (2 * (M : ℚ) + 1) * ((scale2 a b (-1074)).2 : ℚ) := by linarith
      exact_mod_cast this
    · have : (2 * (M : ℚ)) * ((scale2 a b (-1074)).2 : ℚ) < 2 * ((scale2 a b (-1074)).1 : ℚ) + ((scale2 a b (-1074)).2 : ℚ) := by linarith
      exact_mod_cast this
  rw [hr]
  unfold encodeBits
  simp only [hM2, if_true]

/-- **read_back_bits (subnormal doubles)**: the unit in the last place is `2^-1074` whatever the magnitude, so
17 significant digits are more than enough -/
theorem decBits_decOf_subnormal (d b : Nat) (hd : 16 ≤ d) (hd' : d ≤ 5000) (hb64 : b < 18446744073709551616)
    (hef : b / 4503599627370496 % 2048 = 0) (hmf : b % 4503599627370496 ≠ 0) :
    decBits (decOf0 d b) = b := by
  have hnz : b % 9223372036854775808 ≠ 0 := by omega
  have hmant := sci_mant_nonzero d b hnz
  have he10 := sci_e10_bound d b
  have herr := decOf0_err d b
  have hneg := sci_neg d b
  set N := (sci d b).mant with hNdef
  set E := (sci d b).e10 with hEdef
  set mf := b % 4503599627370496 with hmfdef
  have hdec : decOf0 d b = { neg := (b / 9223372036854775808 % 2 == 1), man := N, exp := E - (d : Int) } := by
    unfold decOf0 sciDec
    rw [hneg]
  have hbv : bitsVal b = (if (b / 9223372036854775808 % 2 == 1) then -1 else 1) *
      ((mf : Nat) : ℚ) * (2 : ℚ) ^ (-1074 : Int) := by
    unfold bitsVal
    simp only [← hmfdef, hef, if_true]
  have hX : (0 : ℚ) < (2 : ℚ) ^ (-1074 : Int) := zpow_pos (by norm_num) _
  have hu : (0 : ℚ) < (10 : ℚ) ^ (E - (d : Int)) := zpow_pos (by norm_num) _
  have habs : |(N : ℚ) * (10 : ℚ) ^ (E - (d : Int)) - ((mf : Nat) : ℚ) * (2 : ℚ) ^ (-1074 : Int)|
      ≤ 1 / 2 * (10 : ℚ) ^ (E - (d : Int)) := by
    rw [hdec, hbv] at herr
    simp only [Dec10.toRat] at herr
    cases hs : (b / 9223372036854775808 % 2 == 1)
    · simpa [hs] using herr
    · rw [hs] at herr
      simp only [if_true] at herr
      have e : (-1 : ℚ) * (N : ℚ) * (10 : ℚ) ^ (E - (d : Int)) - -1 * ((mf : Nat) : ℚ) * (2 : ℚ) ^ (-1074 : Int)
          = -((N : ℚ) * (10 : ℚ) ^ (E - (d : Int)) - ((mf : Nat) : ℚ) * (2 : ℚ) ^ (-1074 : Int)) := by ring
      rw [e, abs_neg] at herr
      exact herr
  have hN16 : (10 : ℚ) ^ 16 ≤ N := by
    have h1 : (10 : Nat) ^ 16 ≤ 10 ^ d := Nat.pow_le_pow_right (by norm_num) hd
    have : (10 : Nat) ^ 16 ≤ N := le_trans h1 hmant
    exact_mod_cast this
  have hM2 : mf < 2 ^ 52 := by norm_num; omega
  -- the enclosure (as in `enclosure`, without a lower bound on the significand)
  obtain ⟨h1, h2⟩ := abs_le.1 habs
  have hM2q : (mf : ℚ) + 1 ≤ 2 ^ 52 := by exact_mod_cast hM2
  have hNu : ((10 : ℚ) ^ 16 - 1 / 2) * (10 : ℚ) ^ (E - (d : Int)) ≤ ((N : ℚ) - 1 / 2) * (10 : ℚ) ^ (E - (d : Int)) :=
    mul_le_mul_of_nonneg_right (by linarith) (le_of_lt hu)
  have hP : (mf : ℚ) * (2 : ℚ) ^ (-1074 : Int) ≤ (2 ^ 52 - 1) * (2 : ℚ) ^ (-1074 : Int) :=
    mul_le_mul_of_nonneg_right (by linarith) (le_of_lt hX)
  have hkey : ((10 : ℚ) ^ 16 - 1 / 2) * (10 : ℚ) ^ (E - (d : Int)) ≤ (mf : ℚ) * (2 : ℚ) ^ (-1074 : Int) := by nlinarith
  have huX : (10 : ℚ) ^ (E - (d : Int)) < (2 : ℚ) ^ (-1074 : Int) := by
    by_contra hcon
    have hcon' := not_lt.1 hcon
    have : ((10 : ℚ) ^ 16 - 1 / 2) * (2 : ℚ) ^ (-1074 : Int) ≤ ((10 : ℚ) ^ 16 - 1 / 2) * (10 : ℚ) ^ (E - (d : Int)) :=
      mul_le_mul_of_nonneg_left hcon' (by norm_num)
    norm_num at this hkey hP
    nlinarith
  have hhi : (N : ℚ) * (10 : ℚ) ^ (E - (d : Int)) < ((mf : ℚ) + 1 / 2) * (2 : ℚ) ^ (-1074 : Int) := by nlinarith
  have hlo : ((mf : ℚ) - 1 / 2) * (2 : ℚ) ^ (-1074 : Int) < (N : ℚ) * (10 : ℚ) ^ (E - (d : Int)) := by nlinarith
  have hNpos : 0 < N := lt_of_lt_of_le (by positivity) hmant
  have hfinal : ∀ neg : Bool, neg = (b / 9223372036854775808 % 2 == 1) → (if neg then 2 ^ 63 else 0) + mf = b := by
    intro neg hn
    have hb63 : b / 9223372036854775808 < 2 := by omega
    cases neg
    · have : ¬ (b / 9223372036854775808 % 2 = 1) := by
        intro hc; rw [hc] at hn; simp at hn
      norm_num
      omega
    · have : b / 9223372036854775808 % 2 = 1 := by
        by_contra hc
        have : (b / 9223372036854775808 % 2 == 1) = false := by simpa using hc
        rw [this] at hn; cases hn
      norm_num
      omega
  rw [hdec]
  unfold decBits
  simp only
  have hexp : ¬ (E - (d : Int)).natAbs > 6000 := by omega
  rw [if_neg hexp]
  by_cases hge : E - (d : Int) ≥ 0
  · rw [if_pos hge]
    obtain ⟨k, hk⟩ : ∃ k : Nat, E - (d : Int) = (k : Int) := ⟨(E - (d : Int)).toNat, by omega⟩
    rw [hk] at hhi hlo ⊢
    simp only [Int.toNat_natCast]
    have hval : ((N * 10 ^ k : Nat) : ℚ) / ((1 : Nat) : ℚ) = (N : ℚ) * (10 : ℚ) ^ (k : Int) := by
      push_cast; simp
    rw [toBits_near_sub _ (N * 10 ^ k) 1 mf (Nat.mul_pos hNpos (by positivity)) (by norm_num) hM2
      (by rw [hval]; exact hhi) (by rw [hval]; exact hlo)]
    exact hfinal _ rfl
  · rw [if_neg hge]
    obtain ⟨k, hk⟩ : ∃ k : Nat, E - (d : Int) = -(k : Int) := ⟨(-(E - (d : Int))).toNat, by omega⟩
    rw [hk] at hhi hlo ⊢
    simp only [neg_neg, Int.toNat_natCast]
    have hval : ((N : Nat) : ℚ) / ((10 ^ k : Nat) : ℚ) = (N : ℚ) * (10 : ℚ) ^ (-(k : Int)) := by
      rw [zpow_neg, zpow_natCast]; push_cast; rw [div_eq_mul_inv]
    rw [toBits_near_sub _ N (10 ^ k) mf hNpos (by positivity) hM2 (by rw [hval]; exact hhi) (by rw [hval]; exact hlo)]
    exact hfinal _ rfl

/-- `±0.0` prints with mantissa 0 and reads back with its sign -/
theorem decBits_decOf_zero (d b : Nat) (hd' : d ≤ 5000) (hb64 : b < 18446744073709551616)
    (hz : b % 9223372036854775808 = 0) : decBits (decOf0 d b) = b := by
  have h1 : b / 4503599627370496 % 2048 = 0 := by omega
  have h2 : b % 4503599627370496 = 0 := by omega
  have hsci : sci d b = { neg := (b / 9223372036854775808 % 2 == 1), mant := 0, e10 := 0 } := by
    simp [sci, sciOf, h1, h2]
  unfold decOf0 sciDec decBits
  rw [hsci]
  simp only
  have hexp : ¬ ((0 : Int) - (d : Int)).natAbs > 6000 := by omega
  rw [if_neg hexp]
  have hb63 : b / 9223372036854775808 < 2 := by omega
  have hres : toBits (b / 9223372036854775808 % 2 == 1) 0 1 = b := by
    unfold toBits
    simp only [beq_self_eq_true, if_true]
    by_cases hs : b / 9223372036854775808 % 2 = 1
    · simp [hs]; omega
    · have : (b / 9223372036854775808 % 2 == 1) = false := by simpa using hs
      simp [this]; omega
  by_cases hge : (0 : Int) - (d : Int) ≥ 0
  · rw [if_pos hge]; simpa using hres
  · rw [if_neg hge]
    unfold toBits
    simp only [beq_self_eq_true, if_true]
    by_cases hs : b / 9223372036854775808 % 2 = 1
    · simp [hs]; omega
    · have : (b / 9223372036854775808 % 2 == 1) = false := by simpa using hs
      simp [this]; omega

end PyYetiVerif.Op4A
