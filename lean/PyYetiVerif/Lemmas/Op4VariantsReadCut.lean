import PyYetiVerif.Lemmas.Op4VariantsRead
/-! C11: `_rowsCutoff` is irrelevant for the binary OUTPUT4 reader model on EVERY byte string: whenever a read
succeeds with one cut-off it succeeds with any other and returns the same (no encoder involved).  The point is
that `numpy.fromfile` may return fewer values than asked for at the end of the file where `struct.unpack` raises —
but then nothing is left to read and the record head that every column reader reads next fails. -/
namespace PyYetiVerif.Op4VR
open PyYetiVerif.Op4 (Endian Layout chooseLayout checkName)
open PyYetiVerif.Op2 (V2 kb)
open PyYetiVerif.Op2R (M Err natOfBytes intOfBytes chunks rdI4 rdKeyRaw pyRead seekFwd)

/-- the same configuration with another cut-off -/
def Cfg.withCut (c : Cfg) (cut : Int) : Cfg := ⟨c.v, cut, c.wper, c.rb⟩

theorem drop_ne_nil {α} (s : List α) (k : Nat) (h : s.drop k ≠ []) : k < s.length := by
  by_cases hk : k < s.length
  · exact hk
  · exact absurd (List.drop_eq_nil_of_le (by omega)) h

theorem rdVals_indep (c : Cfg) (hrb : 0 < c.rb) (cut : Int) (n : Int) (s ys s' : List Nat)
    (h : rdVals c n s = .ok (ys, s')) (hne : s' ≠ []) : rdVals (c.withCut cut) n s = .ok (ys, s') := by
  -- from a successful read that leaves bytes: the announced values are all there
  have key : 0 ≤ n ∧ n.toNat * c.rb ≤ s.length ∧ valsStruct c.v.e c.rb n s = .ok (ys, s') := by
    unfold rdVals at h
    split at h
    · have h0 := h
      unfold valsStruct at h
      split at h
      · cases h
      · split at h
        · next hn hl =>
          rw [List.length_take] at hl
          exact ⟨by omega, by omega, h0⟩
        · cases h
    · have h0 := h
      unfold valsFromfile at h
      split at h
      · cases h
      · next hn =>
        simp only [Except.ok.injEq, Prod.mk.injEq] at h
        have hlt := drop_ne_nil s _ (by rw [h.2]; exact hne)
        have hle : n.toNat * c.rb ≤ s.length := by omega
        exact ⟨by omega, hle, by rw [valsStruct_eq_valsFromfile c.v.e c.rb hrb n s (by omega) hle]; exact h0⟩
  obtain ⟨hn, hav, hs⟩ := key
  unfold rdVals Cfg.withCut
  simp only
  split
  · exact hs
  · rw [← valsStruct_eq_valsFromfile c.v.e c.rb hrb n s hn hav]; exact hs

theorem rdKeyRaw_nil (v : V2) : ∃ e, rdKeyRaw v [] = .error e := by
  have := Op2R.kb_pos v
  unfold rdKeyRaw Op2R.unpack1
  simp only [List.take_nil, List.length_nil]
  rw [if_neg (by omega)]
  exact ⟨_, rfl⟩

theorem rdRecHead_nil (v : V2) : ∃ e, rdRecHead v [] = .error e := by
  unfold rdRecHead rdI4 Op2R.unpack1
  simp only [List.take_nil, List.length_nil]
  exact ⟨_, rfl⟩

theorem rdStrsBig_nil (c : Cfg) (col : Int) (fuel : Nat) (nw : Int) (acc acc' : List Put) (s' : List Nat)
    (h : rdStrsBig c col fuel nw [] acc = .ok (acc', s')) : s' = [] := by
  cases fuel with
  | zero => simp [rdStrsBig] at h
  | succ f =>
    rw [rdStrsBig] at h
    split at h
    · obtain ⟨e, he⟩ := rdKeyRaw_nil c.v
      rw [he] at h; cases h
    · simp only [Except.ok.injEq, Prod.mk.injEq] at h; exact h.2.symm

theorem rdStrsNonbig_nil (c : Cfg) (col : Int) (fuel : Nat) (nw : Int) (acc acc' : List Put) (s' : List Nat)
    (h : rdStrsNonbig c col fuel nw [] acc = .ok (acc', s')) : s' = [] := by
  cases fuel with
  | zero => simp [rdStrsNonbig] at h
  | succ f =>
    rw [rdStrsNonbig] at h
    split at h
    · obtain ⟨e, he⟩ := rdKeyRaw_nil c.v
      rw [he] at h; cases h
    · simp only [Except.ok.injEq, Prod.mk.injEq] at h; exact h.2.symm

theorem rdStrsBig_indep (c : Cfg) (hrb : 0 < c.rb) (cut : Int) (col : Int) :
    ∀ (fuel : Nat) (nw : Int) (s : List Nat) (acc acc' : List Put) (s' : List Nat),
      rdStrsBig c col fuel nw s acc = .ok (acc', s') → s' ≠ [] →
      rdStrsBig (c.withCut cut) col fuel nw s acc = .ok (acc', s') := by
  intro fuel
  induction fuel with
  | zero => intro nw s acc acc' s' h; simp [rdStrsBig] at h
  | succ f ih =>
    intro nw s acc acc' s' h hne
    rw [rdStrsBig] at h ⊢
    by_cases hnw : nw > 0
    · simp only [hnw, if_true] at h ⊢
      have hv : (c.withCut cut).v = c.v := rfl
      have hw : (c.withCut cut).wper = c.wper := rfl
      rw [hv, hw]
      cases h1 : rdKeyRaw c.v s with
      | error e => rw [h1] at h; cases h
      | ok r1 =>
        obtain ⟨L, s1⟩ := r1
        rw [h1] at h
        simp only at h ⊢
        cases h2 : rdKeyRaw c.v s1 with
        | error e => rw [h2] at h; cases h
        | ok r2 =>
          obtain ⟨r, s2⟩ := r2
          rw [h2] at h
          simp only at h ⊢
          cases h3 : rdVals c ((L - 1) / (c.wper : Int)) s2 with
          | error e => rw [h3] at h; cases h
          | ok r3 =>
            obtain ⟨ys, s3⟩ := r3
            rw [h3] at h
            simp only at h
            by_cases hx : r - 1 < 0 ∨ col < 0
            · simp only [hx, if_true] at h; cases h
            · simp only [hx, if_false] at h
              have hs3 : s3 ≠ [] := by
                intro e; subst e
                exact hne (rdStrsBig_nil c col f _ _ acc' s' h)
              rw [rdVals_indep c hrb cut _ s2 ys s3 h3 hs3]
              simp only [hx, if_false]
              exact ih _ s3 _ acc' s' h hne
    · simp only [hnw, if_false] at h ⊢
      exact h

theorem rdStrsNonbig_indep (c : Cfg) (hrb : 0 < c.rb) (cut : Int) (col : Int) :
    ∀ (fuel : Nat) (nw : Int) (s : List Nat) (acc acc' : List Put) (s' : List Nat),
      rdStrsNonbig c col fuel nw s acc = .ok (acc', s') → s' ≠ [] →
      rdStrsNonbig (c.withCut cut) col fuel nw s acc = .ok (acc', s') := by
  intro fuel
  induction fuel with
  | zero => intro nw s acc acc' s' h; simp [rdStrsNonbig] at h
  | succ f ih =>
    intro nw s acc acc' s' h hne
    rw [rdStrsNonbig] at h ⊢
    by_cases hnw : nw > 0
    · simp only [hnw, if_true] at h ⊢
      have hv : (c.withCut cut).v = c.v := rfl
      have hw : (c.withCut cut).wper = c.wper := rfl
      rw [hv, hw]
      cases h1 : rdKeyRaw c.v s with
      | error e => rw [h1] at h; cases h
      | ok r1 =>
        obtain ⟨IS, s1⟩ := r1
        rw [h1] at h
        simp only at h ⊢
        cases h3 : rdVals c ((IS / ((2 ^ Generated.Op4Consts.isShiftR : Nat) : Int) - 1) / (c.wper : Int)) s1 with
        | error e => rw [h3] at h; cases h
        | ok r3 =>
          obtain ⟨ys, s3⟩ := r3
          rw [h3] at h
          simp only at h
          by_cases hx : IS - (IS / ((2 ^ Generated.Op4Consts.isShiftR : Nat) : Int) - 1 + 1) *
              ((2 ^ Generated.Op4Consts.isShiftR : Nat) : Int) - 1 < 0 ∨ col < 0
          · simp only [hx, if_true] at h; cases h
          · simp only [hx, if_false] at h
            have hs3 : s3 ≠ [] := by
              intro e; subst e
              exact hne (rdStrsNonbig_nil c col f _ _ acc' s' h)
            rw [rdVals_indep c hrb cut _ s1 ys s3 h3 hs3]
            simp only [hx, if_false]
            exact ih _ s3 _ acc' s' h hne
    · simp only [hnw, if_false] at h ⊢
      exact h

theorem rdDense_indep (c : Cfg) (hrb : 0 < c.rb) (cut : Int) (cols : Int) :
    ∀ (fuel : Nat) (col r nw reclen : Int) (s : List Nat) (acc : List Put) (res : List Put × Int × List Nat),
      rdDense c cols fuel col r nw reclen s acc = .ok res →
      rdDense (c.withCut cut) cols fuel col r nw reclen s acc = .ok res := by
  intro fuel
  induction fuel with
  | zero => intro col r nw reclen s acc res h; simp [rdDense] at h
  | succ f ih =>
    intro col r nw reclen s acc res h
    rw [rdDense] at h ⊢
    by_cases hc : col < cols
    · simp only [hc, if_true] at h ⊢
      have hv : (c.withCut cut).v = c.v := rfl
      have hw : (c.withCut cut).wper = c.wper := rfl
      rw [hv, hw]
      cases h3 : rdVals c (nw / (c.wper : Int)) s with
      | error e => rw [h3] at h; cases h
      | ok r3 =>
        obtain ⟨ys, s3⟩ := r3
        rw [h3] at h
        simp only at h
        by_cases hx : r - 1 < 0 ∨ col < 0
        · simp only [hx, if_true] at h; cases h
        · simp only [hx, if_false] at h
          have hs3 : s3 ≠ [] := by
            intro e; subst e
            obtain ⟨e, he⟩ := rdRecHead_nil c.v
            simp only [List.drop_nil, he] at h
            cases h
          rw [rdVals_indep c hrb cut _ s ys s3 h3 hs3]
          simp only [hx, if_false]
          cases h4 : rdRecHead c.v (s3.drop 4) with
          | error e => rw [h4] at h; cases h
          | ok r4 =>
            obtain ⟨reclen', c', r', nw', s4⟩ := r4
            rw [h4] at h
            simp only at h ⊢
            exact ih _ _ _ _ _ _ res h
    · simp only [hc, if_false] at h ⊢
      exact h

theorem rdSparse_indep (c : Cfg) (hrb : 0 < c.rb) (cut : Int) (big : Bool) (cols : Int) :
    ∀ (fuel : Nat) (col nw reclen : Int) (s : List Nat) (acc : List Put) (res : List Put × Int × List Nat),
      rdSparse c big cols fuel col nw reclen s acc = .ok res →
      rdSparse (c.withCut cut) big cols fuel col nw reclen s acc = .ok res := by
  intro fuel
  induction fuel with
  | zero => intro col nw reclen s acc res h; simp [rdSparse] at h
  | succ f ih =>
    intro col nw reclen s acc res h
    rw [rdSparse] at h ⊢
    by_cases hc : col < cols
    · simp only [hc, if_true] at h ⊢
      have hv : (c.withCut cut).v = c.v := rfl
      rw [hv]
      cases h1 : (if big = true then rdStrsBig c col (s.length + 1) nw s acc else rdStrsNonbig c col (s.length + 1) nw s acc) with
      | error e => rw [h1] at h; cases h
      | ok r1 =>
        obtain ⟨acc1, s1⟩ := r1
        rw [h1] at h
        simp only at h
        have hs1 : s1 ≠ [] := by
          intro e; subst e
          obtain ⟨e, he⟩ := rdRecHead_nil c.v
          simp only [List.drop_nil, he] at h
          cases h
        have h1' : (if big = true then rdStrsBig (c.withCut cut) col (s.length + 1) nw s acc
            else rdStrsNonbig (c.withCut cut) col (s.length + 1) nw s acc) = .ok (acc1, s1) := by
          cases big with
          | true => exact rdStrsBig_indep c hrb cut col _ _ _ _ _ _ h1 hs1
          | false => exact rdStrsNonbig_indep c hrb cut col _ _ _ _ _ _ h1 hs1
        rw [h1']
        simp only
        cases h4 : rdRecHead c.v (s1.drop 4) with
        | error e => rw [h4] at h; cases h
        | ok r4 =>
          obtain ⟨reclen', c', r', nw', s4⟩ := r4
          rw [h4] at h
          simp only at h ⊢
          exact ih _ _ _ _ _ res h
    · simp only [hc, if_false] at h ⊢
      exact h

theorem cfgOf_rb_pos (v : V2) (cut mtype : Int) : 0 < (cfgOf v cut mtype).rb := by
  have := Op2R.kb_pos v
  unfold cfgOf; split <;> simp only <;> omega

theorem cfgOf_withCut (v : V2) (c₁ c₂ mtype : Int) : (cfgOf v c₁ mtype).withCut c₂ = cfgOf v c₂ mtype := by
  unfold cfgOf Cfg.withCut; split <;> rfl

theorem rdBody_indep (v : V2) (c₁ c₂ : Int) (h : Hdr) (s : List Nat) (res : Layout × Bool × List Put × List Nat)
    (hr : rdBody v c₁ h s = .ok res) : rdBody v c₂ h s = .ok res := by
  unfold rdBody at hr ⊢
  cases h1 : rdRecHead v s with
  | error e => rw [h1] at hr; cases hr
  | ok r1 =>
    obtain ⟨reclen, c, r, nw, s1⟩ := r1
    rw [h1] at hr
    simp only at hr ⊢
    have hpos := cfgOf_rb_pos v c₁ h.mtype
    rw [← cfgOf_withCut v c₁ c₂ h.mtype]
    cases hl : (chooseLayout h.rows r (decide (c - 1 ≥ h.cols))).1 with
    | dense =>
      rw [hl] at hr
      simp only at hr ⊢
      cases hb : rdDense (cfgOf v c₁ h.mtype) h.cols (s1.length + 1) (c - 1) r nw reclen s1 [] with
      | error e => rw [hb] at hr; cases hr
      | ok rb =>
        rw [rdDense_indep _ hpos c₂ _ _ _ _ _ _ _ _ rb hb]
        rw [hb] at hr
        exact hr
    | bigmat =>
      rw [hl] at hr
      simp only at hr ⊢
      cases hb : rdSparse (cfgOf v c₁ h.mtype) true h.cols (s1.length + 1) (c - 1) nw reclen s1 [] with
      | error e => rw [hb] at hr; cases hr
      | ok rb =>
        rw [rdSparse_indep _ hpos c₂ true _ _ _ _ _ _ _ rb hb]
        rw [hb] at hr
        exact hr
    | nonbigmat =>
      rw [hl] at hr
      simp only at hr ⊢
      cases hb : rdSparse (cfgOf v c₁ h.mtype) false h.cols (s1.length + 1) (c - 1) nw reclen s1 [] with
      | error e => rw [hb] at hr; cases hr
      | ok rb =>
        rw [rdSparse_indep _ hpos c₂ false _ _ _ _ _ _ _ rb hb]
        rw [hb] at hr
        exact hr

theorem loadLoop_indep (v : V2) (c₁ c₂ : Int) (pl : List (List Nat)) :
    ∀ (fuel count : Nat) (s : List Nat) (ds : List VDec), loadLoop v c₁ pl fuel count s = .ok ds →
      loadLoop v c₂ pl fuel count s = .ok ds := by
  intro fuel
  induction fuel with
  | zero => intro count s ds h; simp [loadLoop] at h
  | succ f ih =>
    intro count s ds h
    rw [loadLoop] at h ⊢
    cases h1 : rdHdr v s with
    | error e => rw [h1] at h; cases h
    | ok o =>
      cases o with
      | none => rw [h1] at h; exact h
      | some q =>
        obtain ⟨hd, s1⟩ := q
        rw [h1] at h
        simp only at h ⊢
        by_cases hsk : skipped pl (checkName count hd.rawName) = true
        · simp only [hsk, if_true] at h ⊢
          cases h2 : skipCols v hd.cols (s1.length + 1) 0 s1 with
          | error e => rw [h2] at h; cases h
          | ok s2 =>
            rw [h2] at h
            simp only at h ⊢
            exact ih _ _ ds h
        · simp only [hsk, if_false] at h ⊢
          cases h2 : rdBody v c₁ hd s1 with
          | error e => rw [h2] at h; cases h
          | ok rb =>
            obtain ⟨lay, auto, puts, s2⟩ := rb
            rw [h2] at h
            rw [rdBody_indep v c₁ c₂ hd s1 _ h2]
            simp only at h ⊢
            cases h3 : loadLoop v c₁ pl f (count + 1) s2 with
            | error e => rw [h3] at h; cases h
            | ok ds' =>
              rw [h3] at h
              rw [ih _ _ ds' h3]
              exact h

end PyYetiVerif.Op4VR
