import PyYetiVerif.Lemmas.Srs
import PyYetiVerif.Model.SrsExt
import Mathlib.MeasureTheory.Integral.IntegralEqImproper
import Mathlib.Analysis.SpecialFunctions.Trigonometric.ArctanDeriv
import Mathlib.Analysis.SpecialFunctions.Log.Deriv
/-! Helper lemmas for C03: Miles' equation.  `∫₀^∞ dp / ((1 - p²)² + (2ζp)²) = π/(4ζ)` by an
explicit antiderivative (partial fractions over `p² ± 2sp + 1`, `s = √(1 - ζ²)`). -/
set_option linter.unusedVariables false
set_option linter.unusedSimpArgs false
namespace PyYetiVerif.Srs
open Filter Topology Set MeasureTheory

/-- antiderivative of `1 / ((1 - p²)² + (2 z p)²)` when `s² + z² = 1` -/
noncomputable def milesF (z s p : ℝ) : ℝ :=
  1 / (8 * s) * (Real.log (p * p + 2 * s * p + 1) - Real.log (p * p - 2 * s * p + 1))
    + 1 / (4 * z) * (Real.arctan ((p + s) / z) + Real.arctan ((p - s) / z))

theorem miles_quad_pos (z s : ℝ) (hz : 0 < z) (hzs : s * s + z * z = 1) (p : ℝ) :
    0 < p * p + 2 * s * p + 1 ∧ 0 < p * p - 2 * s * p + 1 := by
  constructor
  · nlinarith [sq_nonneg (p + s), mul_pos hz hz]
  · nlinarith [sq_nonneg (p - s), mul_pos hz hz]

theorem milesF_hasDerivAt (z s : ℝ) (hz : 0 < z) (hs : 0 < s) (hzs : s * s + z * z = 1) (p : ℝ) :
    HasDerivAt (milesF z s) (1 / ((1 - p * p) * (1 - p * p) + (2 * z * p) * (2 * z * p))) p := by
  obtain ⟨hN, hD⟩ := miles_quad_pos z s hz hzs p
  have hid : HasDerivAt (fun x : ℝ => x) 1 p := hasDerivAt_id' p
  have h1 : HasDerivAt (fun x : ℝ => x * x + 2 * s * x + 1) (2 * p + 2 * s) p := by
    have := ((hid.mul hid).add (hid.const_mul (2 * s))).add_const (1 : ℝ)
    simp only [Pi.add_def, Pi.mul_def] at this
    exact this.congr_deriv (by ring)
  have h2 : HasDerivAt (fun x : ℝ => x * x - 2 * s * x + 1) (2 * p - 2 * s) p := by
    have := ((hid.mul hid).sub (hid.const_mul (2 * s))).add_const (1 : ℝ)
    simp only [Pi.add_def, Pi.mul_def, Pi.sub_def] at this
    exact this.congr_deriv (by ring)
  have h3 : HasDerivAt (fun x : ℝ => (x + s) / z) (1 / z) p := (hid.add_const s).div_const z
  have h4 : HasDerivAt (fun x : ℝ => (x - s) / z) (1 / z) p := (hid.sub_const s).div_const z
  have hl1 := h1.log hN.ne'
  have hl2 := h2.log hD.ne'
  have ha1 := h3.arctan
  have ha2 := h4.arctan
  have := ((hl1.sub hl2).const_mul (1 / (8 * s))).add ((ha1.add ha2).const_mul (1 / (4 * z)))
  simp only [Pi.add_def, Pi.mul_def, Pi.sub_def] at this
  unfold milesF
  refine this.congr_deriv ?_
  have hN' : (p + s) ^ 2 + z ^ 2 = p * p + 2 * s * p + 1 := by linear_combination hzs
  have hD' : (p - s) ^ 2 + z ^ 2 = p * p - 2 * s * p + 1 := by linear_combination hzs
  have ea : 1 / (1 + ((p + s) / z) ^ 2) * (1 / z) = z / (p * p + 2 * s * p + 1) := by
    rw [← hN']
    have : (p + s) ^ 2 + z ^ 2 ≠ 0 := by rw [hN']; exact hN.ne'
    field_simp
    ring
  have eb : 1 / (1 + ((p - s) / z) ^ 2) * (1 / z) = z / (p * p - 2 * s * p + 1) := by
    rw [← hD']
    have : (p - s) ^ 2 + z ^ 2 ≠ 0 := by rw [hD']; exact hD.ne'
    field_simp
    ring
  have er : (1 - p * p) * (1 - p * p) + (2 * z * p) * (2 * z * p)
      = (p * p + 2 * s * p + 1) * (p * p - 2 * s * p + 1) := by
    linear_combination (4 * p * p) * hzs
  rw [ea, eb, er]
  have hN0 := hN.ne'
  have hD0 := hD.ne'
  have hs0 := hs.ne'
  have hz0 := hz.ne'
  obtain ⟨N, hNe⟩ : ∃ N, N = p * p + 2 * s * p + 1 := ⟨_, rfl⟩
  obtain ⟨D, hDe⟩ : ∃ D, D = p * p - 2 * s * p + 1 := ⟨_, rfl⟩
  rw [← hNe] at hN0
  rw [← hDe] at hD0
  rw [← hNe, ← hDe]
  field_simp
  rw [hNe, hDe]
  ring

theorem milesF_zero (z s : ℝ) : milesF z s 0 = 0 := by
  unfold milesF
  have e1 : (0 + s) / z = s / z := by ring
  have e2 : (0 - s) / z = -(s / z) := by ring
  rw [e1, e2, Real.arctan_neg]
  simp

theorem milesF_tendsto (z s : ℝ) (hz : 0 < z) (hs : 0 < s) (hzs : s * s + z * z = 1) :
    Tendsto (milesF z s) atTop (𝓝 (Real.pi / (4 * z))) := by
  -- the arctan terms
  have hatan : ∀ c : ℝ, Tendsto (fun p : ℝ => Real.arctan ((p + c) / z)) atTop (𝓝 (Real.pi / 2)) := by
    intro c
    have hin : Tendsto (fun p : ℝ => (p + c) / z) atTop atTop :=
      (tendsto_atTop_add_const_right _ c tendsto_id).atTop_div_const hz
    exact (Real.tendsto_arctan_atTop.mono_right nhdsWithin_le_nhds).comp hin
  have ha1 := hatan s
  have ha2 : Tendsto (fun p : ℝ => Real.arctan ((p - s) / z)) atTop (𝓝 (Real.pi / 2)) := by
    simpa [sub_eq_add_neg] using hatan (-s)
  -- the log term
  have hinv : Tendsto (fun p : ℝ => p⁻¹) atTop (𝓝 0) := tendsto_inv_atTop_zero
  have hf1 : Tendsto (fun p : ℝ => 1 + 2 * s * p⁻¹ + p⁻¹ * p⁻¹) atTop (𝓝 (1 + 2 * s * 0 + 0 * 0)) :=
    (tendsto_const_nhds.add (hinv.const_mul (2 * s))).add (hinv.mul hinv)
  have hf2 : Tendsto (fun p : ℝ => 1 - 2 * s * p⁻¹ + p⁻¹ * p⁻¹) atTop (𝓝 (1 - 2 * s * 0 + 0 * 0)) :=
    (tendsto_const_nhds.sub (hinv.const_mul (2 * s))).add (hinv.mul hinv)
  have hq : Tendsto (fun p : ℝ => (1 + 2 * s * p⁻¹ + p⁻¹ * p⁻¹) / (1 - 2 * s * p⁻¹ + p⁻¹ * p⁻¹)) atTop
      (𝓝 ((1 + 2 * s * 0 + 0 * 0) / (1 - 2 * s * 0 + 0 * 0))) := hf1.div hf2 (by norm_num)
  have hq1 : Tendsto (fun p : ℝ => (p * p + 2 * s * p + 1) / (p * p - 2 * s * p + 1)) atTop (𝓝 1) := by
    have e : (1 + 2 * s * 0 + 0 * 0) / (1 - 2 * s * 0 + 0 * 0) = (1 : ℝ) := by norm_num
    rw [e] at hq
    refine hq.congr' ?_
    filter_upwards [eventually_gt_atTop (0 : ℝ)] with p hp
    obtain ⟨hN, hD⟩ := miles_quad_pos z s hz hzs p
    have hp0 := hp.ne'
    have hD0 := hD.ne'
    have hD1 : 1 - 2 * s * p⁻¹ + p⁻¹ * p⁻¹ ≠ 0 := by
      have : 1 - 2 * s * p⁻¹ + p⁻¹ * p⁻¹ = (p * p - 2 * s * p + 1) / (p * p) := by
        field_simp
      rw [this]
      exact div_ne_zero hD0 (mul_ne_zero hp0 hp0)
    rw [div_eq_div_iff hD1 hD0]
    field_simp
  have hlog : Tendsto (fun p : ℝ => Real.log (p * p + 2 * s * p + 1) - Real.log (p * p - 2 * s * p + 1))
      atTop (𝓝 0) := by
    have := (Real.continuousAt_log one_ne_zero).tendsto.comp hq1
    rw [Real.log_one] at this
    refine this.congr ?_
    intro p
    obtain ⟨hN, hD⟩ := miles_quad_pos z s hz hzs p
    simp only [Function.comp]
    rw [Real.log_div hN.ne' hD.ne']
  have := (hlog.const_mul (1 / (8 * s))).add ((ha1.add ha2).const_mul (1 / (4 * z)))
  have e : 1 / (8 * s) * 0 + 1 / (4 * z) * (Real.pi / 2 + Real.pi / 2) = Real.pi / (4 * z) := by
    field_simp
    ring
  rw [e] at this
  exact this

/-- `∫₀^∞ dp / ((1 - p²)² + (2 z p)²) = π / (4 z)` -/
theorem miles_integral_p (z s : ℝ) (hz : 0 < z) (hs : 0 < s) (hzs : s * s + z * z = 1) :
    ∫ p in Ioi (0 : ℝ), 1 / ((1 - p * p) * (1 - p * p) + (2 * z * p) * (2 * z * p))
      = Real.pi / (4 * z) := by
  have h := integral_Ioi_of_hasDerivAt_of_nonneg' (a := (0 : ℝ)) (g := milesF z s)
    (g' := fun p => 1 / ((1 - p * p) * (1 - p * p) + (2 * z * p) * (2 * z * p)))
    (fun p _ => milesF_hasDerivAt z s hz hs hzs p)
    (fun p _ => div_nonneg zero_le_one (add_nonneg (mul_self_nonneg _) (mul_self_nonneg _)))
    (milesF_tendsto z s hz hs hzs)
  rw [h, milesF_zero, sub_zero]

/-- in Hz: `∫₀^∞ df / ((1 - (f/fn)²)² + (f/(fn Q))²) = (π/2) fn Q` -/
theorem miles_integral_f (Q fn : ℝ) (hQ : 1 / 2 < Q) (hfn : 0 < fn) :
    ∫ f in Ioi (0 : ℝ), 1 / ((1 - f / fn * (f / fn)) * (1 - f / fn * (f / fn)) + f / fn / Q * (f / fn / Q))
      = Real.pi / 2 * fn * Q := by
  have hQ0 : 0 < Q := by linarith
  have hz : (0 : ℝ) < 1 / 2 / Q := by positivity
  have hs := sqz_pos hQ
  have hzs : Real.sqrt (1 - 1 / 2 / Q * (1 / 2 / Q)) * Real.sqrt (1 - 1 / 2 / Q * (1 / 2 / Q))
      + 1 / 2 / Q * (1 / 2 / Q) = 1 := by
    have := sqz_sq hQ
    rw [sq] at this
    linarith
  have hp := miles_integral_p (1 / 2 / Q) _ hz hs hzs
  have hc := integral_comp_mul_left_Ioi
    (fun p : ℝ => 1 / ((1 - p * p) * (1 - p * p) + (2 * (1 / 2 / Q) * p) * (2 * (1 / 2 / Q) * p)))
    (0 : ℝ) (inv_pos.mpr hfn)
  simp only [mul_zero, inv_inv, smul_eq_mul] at hc
  rw [hp] at hc
  have e : (fun f : ℝ => 1 / ((1 - f / fn * (f / fn)) * (1 - f / fn * (f / fn)) + f / fn / Q * (f / fn / Q)))
      = fun x : ℝ => 1 / ((1 - fn⁻¹ * x * (fn⁻¹ * x)) * (1 - fn⁻¹ * x * (fn⁻¹ * x))
          + 2 * (1 / 2 / Q) * (fn⁻¹ * x) * (2 * (1 / 2 / Q) * (fn⁻¹ * x))) := by
    funext f
    congr 1
    field_simp
  rw [e, hc]
  field_simp
  norm_num

end PyYetiVerif.Srs
