import PyYetiVerif.Lemmas.BulkDmig
/-! The physical lines of `wtdmig` as `rdcards` sees them (C13; core Lean only). -/
namespace PyYetiVerif.Bulk

/-! ### the `{:16.9E}` field of an integer value -/

theorem natDigits_spec (n : Nat) (h : n < 10 ^ 10) :
    (∀ c ∈ (toString n).toList, c.isDigit = true) ∧ 1 ≤ (toString n).toList.length ∧ (toString n).toList.length ≤ 10 := by
  have e : (toString n).toList = Nat.toDigits 10 n := by simp
  rw [e]
  exact ⟨isDigit_toDigits n, Nat.length_toDigits_pos, (Nat.length_toDigits_le_iff (by decide) (by decide)).mpr h⟩

/-- characters of the mantissa / exponent part -/
def E9Char (ec : Char) (c : Char) : Prop := c.isDigit = true ∨ c = '.' ∨ c = ec ∨ c = '+'

theorem fmtE9_spec (v : Int) (ec : Char) (hec : ec = 'E' ∨ ec = 'D') (hv : v.natAbs < 10 ^ 10) :
    (fmtE9 v ec).length = 16 ∧ (∀ c ∈ fmtE9 v ec, E9Char ec c ∨ c = '-' ∨ c = ' ') ∧
      ∃ r c, fmtE9 v ec = r ++ [c] ∧ c.isDigit = true := by
  obtain ⟨hd, h1, h10⟩ := natDigits_spec v.natAbs hv
  generalize hds : (toString v.natAbs).toList = ds at hd h1 h10
  -- exponent digits
  have hex : ∃ d : Char, d.isDigit = true ∧ padL 2 (dec ((ds.length - 1 : Nat) : Int)) = [' ', d] := by
    have hlt : ds.length - 1 < 10 := by omega
    have : dec ((ds.length - 1 : Nat) : Int) = [Nat.digitChar (ds.length - 1)] := by
      rw [dec_nonneg (by omega)]; simp [Nat.toDigits_of_lt_base hlt]
    refine ⟨Nat.digitChar (ds.length - 1), ?_, by rw [this]; rfl⟩
    have hm : Nat.digitChar (ds.length - 1) ∈ Nat.toDigits 10 (ds.length - 1) := by
      rw [Nat.toDigits_of_lt_base hlt]; simp
    exact isDigit_toDigits _ _ hm
  obtain ⟨d, hdd, hpad⟩ := hex
  have hmant : ∀ c ∈ ds ++ List.replicate (10 - ds.length) '0', c.isDigit = true := by
    intro c hc
    rcases List.mem_append.mp hc with hc | hc
    · exact hd c hc
    · simp at hc; rw [hc.2]; decide
  have hmlen : (ds ++ List.replicate (10 - ds.length) '0').length = 10 := by simp; omega
  generalize hm : ds ++ List.replicate (10 - ds.length) '0' = mant at hmant hmlen
  have hf : ∀ x : Char, x.isDigit = true → (if x = ' ' then '0' else x) = x := by
    intro x hx; rw [if_neg (digit_ne_space' hx)]
  unfold fmtE9
  simp only [hds, hm, hpad]
  match mant, hmlen, hmant with
  | [m0, m1, m2, m3, m4, m5, m6, m7, m8, m9], _, hmant =>
    have g0 := hf m0 (hmant m0 (by simp)); have g1 := hf m1 (hmant m1 (by simp)); have g2 := hf m2 (hmant m2 (by simp))
    have g3 := hf m3 (hmant m3 (by simp)); have g4 := hf m4 (hmant m4 (by simp)); have g5 := hf m5 (hmant m5 (by simp))
    have g6 := hf m6 (hmant m6 (by simp)); have g7 := hf m7 (hmant m7 (by simp)); have g8 := hf m8 (hmant m8 (by simp))
    have g9 := hf m9 (hmant m9 (by simp)); have gd := hf d hdd
    have gec : (if ec = ' ' then '0' else ec) = ec := by rcases hec with h | h <;> subst h <;> decide
    have hbody : List.map (fun c => if c = ' ' then '0' else c)
        (List.take 1 [m0, m1, m2, m3, m4, m5, m6, m7, m8, m9] ++ ['.'] ++
          List.take 9 (List.drop 1 [m0, m1, m2, m3, m4, m5, m6, m7, m8, m9]) ++ [ec, '+'] ++ [' ', d]) =
        [m0, '.', m1, m2, m3, m4, m5, m6, m7, m8, m9, ec, '+', '0', d] := by
      simp [g0, g1, g2, g3, g4, g5, g6, g7, g8, g9, gd, gec]
    rw [hbody]
    have hchars : ∀ c ∈ [m0, '.', m1, m2, m3, m4, m5, m6, m7, m8, m9, ec, '+', '0', d], E9Char ec c := by
      intro c hc
      simp only [List.mem_cons, List.not_mem_nil, or_false] at hc
      rcases hc with rfl | rfl | rfl | rfl | rfl | rfl | rfl | rfl | rfl | rfl | rfl | rfl | rfl | rfl | rfl
      · exact Or.inl (hmant _ (by simp))
      · exact Or.inr (Or.inl rfl)
      · exact Or.inl (hmant _ (by simp))
      · exact Or.inl (hmant _ (by simp))
      · exact Or.inl (hmant _ (by simp))
      · exact Or.inl (hmant _ (by simp))
      · exact Or.inl (hmant _ (by simp))
      · exact Or.inl (hmant _ (by simp))
      · exact Or.inl (hmant _ (by simp))
      · exact Or.inl (hmant _ (by simp))
      · exact Or.inl (hmant _ (by simp))
      · exact Or.inr (Or.inr (Or.inl rfl))
      · exact Or.inr (Or.inr (Or.inr rfl))
      · exact Or.inl (by decide)
      · exact Or.inl hdd
    refine ⟨?_, ?_, ?_⟩
    · split <;> simp [padL, blanks]
    · intro c hc
      rcases mem_padL hc with hc | hc
      · exact Or.inr (Or.inr hc)
      · rcases List.mem_append.mp hc with hc | hc
        · split at hc
          · simp at hc; exact Or.inr (Or.inl hc)
          · simp at hc
        · exact Or.inl (hchars c hc)
    · split
      · exact ⟨['-', m0, '.', m1, m2, m3, m4, m5, m6, m7, m8, m9, ec, '+', '0'], d, by simp [padL, blanks], hdd⟩
      · exact ⟨[' ', m0, '.', m1, m2, m3, m4, m5, m6, m7, m8, m9, ec, '+', '0'], d, by simp [padL, blanks], hdd⟩
where
  digit_ne_space' {x : Char} (h : x.isDigit = true) : x ≠ ' ' := by
    intro e; subst e; exact absurd h (by decide)

theorem fmtE9_clean (v : Int) (ec : Char) (hec : ec = 'E' ∨ ec = 'D') (hv : v.natAbs < 10 ^ 10) :
    CleanField 16 (fmtE9 v ec) := by
  obtain ⟨hl, hc, r, c, hr, hcd⟩ := fmtE9_spec v ec hec hv
  have hno : ∀ x : Char, x.isDigit = false → x ≠ '.' → x ≠ 'E' → x ≠ 'D' → x ≠ '+' → x ≠ '-' → x ≠ ' ' → x ∉ fmtE9 v ec := by
    intro x h1 h2 h3 h4 h5 h6 h7 hm
    rcases hc x hm with (h | h | h | h) | h | h
    · rw [h1] at h; exact absurd h (by decide)
    · exact h2 h
    · rcases hec with e | e
      · subst e; exact h3 h
      · subst e; exact h4 h
    · exact h5 h
    · exact h6 h
    · exact h7 h
  refine ⟨⟨hl, hno '$' (by decide) (by decide) (by decide) (by decide) (by decide) (by decide) (by decide),
    hno ',' (by decide) (by decide) (by decide) (by decide) (by decide) (by decide) (by decide)⟩, ?_⟩
  intro x hx
  rw [hr] at hx; simp at hx; subst hx
  exact isSp_of_isDigit hcd

/-! ### lines → card values -/

/-- the exponent letter of the written values -/
def Dmig.ec (d : Dmig) : Char := if d.mtype % 2 = 0 then 'D' else 'E'

/-- what `nas_sscanf` returns for the written value field -/
def Dmig.encT (d : Dmig) (v : Int) : Val := nasScan (fmtE9 v d.ec)

/-- what the physical-line theorem asks: the name is a word of at most 8 characters without `$`,
`,` that `nas_sscanf` returns as it is; every written label fits its 16-column field, type and NCOL
their 8-column fields; every written value has at most 10 significant digits -/
structure Dmig.Clean (d : Dmig) : Prop where
  name_len : d.name.length ≤ 8
  name_d : '$' ∉ d.name
  name_c : ',' ∉ d.name
  name8 : nasScan (padR 8 d.name) = .str d.name
  name16 : nasScan (padR 16 d.name) = .str d.name
  mtype_len : (dec d.mtype).length ≤ 8
  ncol_len : (dec d.ncol).length ≤ 8
  labels : ∀ c ∈ d.cards, (dec c.1.1).length ≤ 16 ∧ (dec c.1.2).length ≤ 16 ∧
    ∀ e ∈ c.2, (dec e.1.1).length ≤ 16 ∧ (dec e.1.2).length ≤ 16 ∧ e.2.1.natAbs < 10 ^ 10 ∧ e.2.2.natAbs < 10 ^ 10

theorem Dmig.ec_cases (d : Dmig) : d.ec = 'E' ∨ d.ec = 'D' := by
  unfold Dmig.ec; split <;> simp

theorem fieldOK_padR (w : Nat) (s : Txt) (hl : s.length ≤ w) (hd : '$' ∉ s) (hc : ',' ∉ s) : FieldOK w (padR w s) := by
  refine ⟨padR_length hl, ?_, ?_⟩
  · intro hm; rcases List.mem_append.mp hm with hm | hm
    · exact hd hm
    · exact absurd (mem_blanks hm) (by decide)
  · intro hm; rcases List.mem_append.mp hm with hm | hm
    · exact hc hm
    · exact absurd (mem_blanks hm) (by decide)

theorem isCont_D (m : Mode) (r : Txt) : isCont m ('D' :: r) = false := by
  cases m <;> simp [isCont, Mode.conchar]

theorem padL_dec_ne_nil (w : Nat) (n : Int) : padL w (dec n) ≠ [] := by
  intro e; simp [padL] at e; exact dec_ne_nil n e.2

/-- the text of one column card -/
def Dmig.cardLines (d : Dmig) (c : (Int × Int) × List ((Int × Int) × (Int × Int))) : List Txt :=
  (padR 8 (txt "DMIG*") ++ padR 16 d.name ++ padL 16 (dec c.1.1) ++ padL 16 (dec c.1.2)) ::
    c.2.map fun e =>
      padR 8 ['*'] ++ padL 16 (dec e.1.1) ++ padL 16 (dec e.1.2) ++ fmtE9 e.2.1 d.ec ++
        (if d.mtype < 3 then [] else fmtE9 e.2.2 d.ec)

theorem Dmig.lines_eq (d : Dmig) :
    d.lines = (padR 8 (txt "DMIG") ++ padR 8 d.name ++ padL 8 (dec 0) ++ padL 8 (dec d.form) ++
      padL 8 (dec d.mtype) ++ padL 8 (dec 0) ++ padL 8 (dec 0) ++ blanks 8 ++ padL 8 (dec d.ncol)) ::
      d.cards.flatMap d.cardLines := rfl

/-- a `*` line of a column card -/
theorem dmig_row_fields (d : Dmig) (e : (Int × Int) × (Int × Int))
    (h : (dec e.1.1).length ≤ 16 ∧ (dec e.1.2).length ≤ 16 ∧ e.2.1.natAbs < 10 ^ 10 ∧ e.2.2.natAbs < 10 ^ 10) :
    lineFields .f16 false (padR 8 ['*'] ++ padL 16 (dec e.1.1) ++ padL 16 (dec e.1.2) ++ fmtE9 e.2.1 d.ec ++
        (if d.mtype < 3 then [] else fmtE9 e.2.2 d.ec)) = d.rowFields d.encT e := by
  obtain ⟨h1, h2, h3, h4⟩ := h
  have c1 := fmtE9_clean e.2.1 d.ec d.ec_cases h3
  have c2 := fmtE9_clean e.2.2 d.ec d.ec_cases h4
  by_cases hr : d.mtype < 3
  · have hfl : FixedLine 16 (padR 8 ['*']) ([padL 16 (dec e.1.1), padL 16 (dec e.1.2)] ++ [fmtE9 e.2.1 d.ec]) 0 := by
      refine FixedLine.build 16 _ _ _ 0 (by decide) (by decide) (by decide) ?_ (cleanField_ne_nil (by decide) c1) c1.2 (by simp)
      intro f hf
      simp only [List.cons_append, List.nil_append, List.mem_cons, List.not_mem_nil, or_false] at hf
      rcases hf with rfl | rfl | rfl
      · exact fieldOK_padL_dec 16 _ h1
      · exact fieldOK_padL_dec 16 _ h2
      · exact c1.1
    have := hfl.fields .f16 (by decide) (by decide) false
    simp only [hr, if_true, List.append_nil]
    have e0 : padR 8 ['*'] ++ padL 16 (dec e.1.1) ++ padL 16 (dec e.1.2) ++ fmtE9 e.2.1 d.ec =
        padR 8 ['*'] ++ ([padL 16 (dec e.1.1), padL 16 (dec e.1.2)] ++ [fmtE9 e.2.1 d.ec]).flatten ++ blanks 0 := by
      simp [blanks]
    rw [e0, this]
    simp [Dmig.rowFields, hr, nasScan_padL, Dmig.encT]
  · have hfl : FixedLine 16 (padR 8 ['*'])
        ([padL 16 (dec e.1.1), padL 16 (dec e.1.2), fmtE9 e.2.1 d.ec] ++ [fmtE9 e.2.2 d.ec]) 0 := by
      refine FixedLine.build 16 _ _ _ 0 (by decide) (by decide) (by decide) ?_ (cleanField_ne_nil (by decide) c2) c2.2 (by simp)
      intro f hf
      simp only [List.cons_append, List.nil_append, List.mem_cons, List.not_mem_nil, or_false] at hf
      rcases hf with rfl | rfl | rfl | rfl
      · exact fieldOK_padL_dec 16 _ h1
      · exact fieldOK_padL_dec 16 _ h2
      · exact c1.1
      · exact c2.1
    have := hfl.fields .f16 (by decide) (by decide) false
    simp only [hr, if_false]
    have e0 : padR 8 ['*'] ++ padL 16 (dec e.1.1) ++ padL 16 (dec e.1.2) ++ fmtE9 e.2.1 d.ec ++ fmtE9 e.2.2 d.ec =
        padR 8 ['*'] ++ ([padL 16 (dec e.1.1), padL 16 (dec e.1.2), fmtE9 e.2.1 d.ec] ++ [fmtE9 e.2.2 d.ec]).flatten ++ blanks 0 := by
      simp [blanks]
    rw [e0, this]
    simp [Dmig.rowFields, hr, nasScan_padL, Dmig.encT]

theorem isCont_star16' (x : Txt) : isCont .f16 (padR 8 ['*'] ++ x) = true := rfl

/-- one column card as `rdcards` reads it -/
theorem dmig_card_read (d : Dmig) (hc : d.Clean) (c : (Int × Int) × List ((Int × Int) × (Int × Int))) (hm : c ∈ d.cards)
    (fuel : Nat) (rest : List Txt) (hr : ∀ x, rest.head? = some x → ∃ t, x = 'D' :: t) :
    rdcardsAux (txt "dmig") (fuel + 1) (d.cardLines c ++ rest) =
      d.cardVals1 d.encT c :: rdcardsAux (txt "dmig") fuel rest := by
  obtain ⟨hg, hcj, hrows⟩ := hc.labels c hm
  have hfl : FixedLine 16 (padR 8 (txt "DMIG*")) ([padR 16 d.name, padL 16 (dec c.1.1)] ++ [padL 16 (dec c.1.2)]) 0 := by
    refine FixedLine.build 16 _ _ _ 0 (by decide) (by decide) (by decide) ?_ (padL_dec_ne_nil 16 _) (lastSolid_padL_dec 16 _) (by simp)
    intro f hf
    simp only [List.cons_append, List.nil_append, List.mem_cons, List.not_mem_nil, or_false] at hf
    rcases hf with rfl | rfl | rfl
    · exact fieldOK_padR 16 _ (by have := hc.name_len; omega) hc.name_d hc.name_c
    · exact fieldOK_padL_dec 16 _ hg
    · exact fieldOK_padL_dec 16 _ hcj
  have hmode := hfl.modeOf
  have hstar : (padR 8 (txt "DMIG*")).contains '*' = true := by decide
  rw [hstar] at hmode; simp only [if_true] at hmode
  have e1 : padR 8 (txt "DMIG*") ++ padR 16 d.name ++ padL 16 (dec c.1.1) ++ padL 16 (dec c.1.2) =
      padR 8 (txt "DMIG*") ++ ([padR 16 d.name, padL 16 (dec c.1.1)] ++ [padL 16 (dec c.1.2)]).flatten ++ blanks 0 := by
    simp [blanks]
  unfold Dmig.cardLines
  rw [e1, List.cons_append, rdcardsAux_card (txt "dmig") fuel _ _ rest
    (by rw [List.append_assoc, lower_append]; exact startsWith_append (txt "dmig") _)
    (by
      rw [hmode]; intro x hx
      obtain ⟨e, _, rfl⟩ := List.mem_map.mp hx
      simp only [List.append_assoc]; exact isCont_star16' _)
    (by rw [hmode]; intro x hx; obtain ⟨t, rfl⟩ := hr x hx; exact isCont_D _ t),
    hmode, hfl.fields .f16 (by decide) (by decide) true, List.map_map]
  have hmap : c.2.map (lineFields .f16 false ∘ fun e =>
      padR 8 ['*'] ++ padL 16 (dec e.1.1) ++ padL 16 (dec e.1.2) ++ fmtE9 e.2.1 d.ec ++
        (if d.mtype < 3 then [] else fmtE9 e.2.2 d.ec)) = c.2.map (d.rowFields d.encT) := by
    apply List.map_congr_left
    intro e he
    exact dmig_row_fields d e (hrows e he)
  rw [hmap]
  simp [Dmig.cardVals1, Mode.inc, nasScan_padL, hc.name16]

theorem cardLines_head (d : Dmig) (c : (Int × Int) × List ((Int × Int) × (Int × Int))) :
    ∃ t ls, d.cardLines c = ('D' :: t) :: ls := ⟨_, _, rfl⟩

theorem rdcardsAux_dmig_cards (d : Dmig) (hc : d.Clean) (cs : List ((Int × Int) × List ((Int × Int) × (Int × Int))))
    (hsub : ∀ c ∈ cs, c ∈ d.cards) : ∀ fuel, (cs.flatMap d.cardLines).length < fuel →
    rdcardsAux (txt "dmig") fuel (cs.flatMap d.cardLines) = cs.map (d.cardVals1 d.encT) := by
  induction cs with
  | nil => intro fuel _; simp [rdcardsAux_nil]
  | cons c r ih =>
      intro fuel hf
      have ih := ih (fun x hx => hsub x (by simp [hx]))
      obtain ⟨t, ls, hh⟩ := cardLines_head d c
      cases fuel with
      | zero => omega
      | succ f =>
          have hlen : (r.flatMap d.cardLines).length < f := by
            simp only [List.flatMap_cons, List.length_append, hh, List.length_cons] at hf; omega
          rw [List.flatMap_cons, List.map_cons, ← ih f hlen]
          apply dmig_card_read d hc c (hsub c (by simp)) f
          intro x hx
          cases r with
          | nil => simp at hx
          | cons c' r' =>
              obtain ⟨t', ls', hh'⟩ := cardLines_head d c'
              simp [List.flatMap_cons, hh'] at hx
              exact ⟨t', hx.symm⟩

/-- `rdcards(f, "dmig", return_var="list")` on the text of `wtdmig` -/
theorem rdcards_dmig_lines (d : Dmig) (hc : d.Clean) :
    rdcards (txt "dmig") d.lines = d.headerVals :: d.written d.encT := by
  have hform : (dec (d.form : Int)).length ≤ 8 := by
    rcases form_cases d with h | h | h | h <;> rw [h] <;> decide
  have hfl : FixedLine 8 (padR 8 (txt "DMIG"))
      ([padR 8 d.name, padL 8 (dec 0), padL 8 (dec d.form), padL 8 (dec d.mtype), padL 8 (dec 0), padL 8 (dec 0), blanks 8] ++
        [padL 8 (dec d.ncol)]) 0 := by
    refine FixedLine.build 8 _ _ _ 0 (by decide) (by decide) (by decide) ?_ (padL_dec_ne_nil 8 _) (lastSolid_padL_dec 8 _) (by simp)
    intro f hf
    simp only [List.cons_append, List.nil_append, List.mem_cons, List.not_mem_nil, or_false] at hf
    rcases hf with rfl | rfl | rfl | rfl | rfl | rfl | rfl | rfl
    · exact fieldOK_padR 8 _ hc.name_len hc.name_d hc.name_c
    · exact fieldOK_padL_dec 8 _ (by decide)
    · exact fieldOK_padL_dec 8 _ hform
    · exact fieldOK_padL_dec 8 _ hc.mtype_len
    · exact fieldOK_padL_dec 8 _ (by decide)
    · exact fieldOK_padL_dec 8 _ (by decide)
    · exact fieldOK_blanks 8
    · exact fieldOK_padL_dec 8 _ hc.ncol_len
  have hmode := hfl.modeOf
  have hstar : (padR 8 (txt "DMIG")).contains '*' = false := by decide
  rw [hstar] at hmode; simp only [Bool.false_eq_true, if_false] at hmode
  have e1 : padR 8 (txt "DMIG") ++ padR 8 d.name ++ padL 8 (dec 0) ++ padL 8 (dec d.form) ++
      padL 8 (dec d.mtype) ++ padL 8 (dec 0) ++ padL 8 (dec 0) ++ blanks 8 ++ padL 8 (dec d.ncol) =
      padR 8 (txt "DMIG") ++ ([padR 8 d.name, padL 8 (dec 0), padL 8 (dec d.form), padL 8 (dec d.mtype), padL 8 (dec 0),
        padL 8 (dec 0), blanks 8] ++ [padL 8 (dec d.ncol)]).flatten ++ blanks 0 := by
    simp [blanks]
  have hl : lower (txt "dmig") = txt "dmig" := by decide
  unfold rdcards
  rw [hl, d.lines_eq, e1, List.length_cons]
  have hcards := rdcardsAux_dmig_cards d hc d.cards (fun c h => h) _ (Nat.lt_succ_self _)
  have := rdcardsAux_card (txt "dmig") ((d.cards.flatMap d.cardLines).length + 1)
    (padR 8 (txt "DMIG") ++ ([padR 8 d.name, padL 8 (dec 0), padL 8 (dec d.form), padL 8 (dec d.mtype), padL 8 (dec 0),
        padL 8 (dec 0), blanks 8] ++ [padL 8 (dec d.ncol)]).flatten ++ blanks 0) [] (d.cards.flatMap d.cardLines)
    (by rw [List.append_assoc, lower_append]; exact startsWith_append (txt "dmig") _)
    (by simp)
    (by
      rw [hmode]; intro x hx
      cases hq : d.cards with
      | nil => rw [hq] at hx; simp at hx
      | cons c' r' =>
          obtain ⟨t', ls', hh'⟩ := cardLines_head d c'
          rw [hq] at hx
          simp [List.flatMap_cons, hh'] at hx
          rw [← hx]; exact isCont_D _ t')
  rw [List.nil_append] at this
  rw [this, hmode, hfl.fields .f8 (by decide) (by decide) true, hcards]
  simp [cardVals, Dmig.headerVals, Dmig.written, nasScan_padL, nasScan_blanks, hc.name8]

theorem cardName_cardVals1 (enc : Int → Val) (d : Dmig) (c : (Int × Int) × List ((Int × Int) × (Int × Int))) :
    cardName (d.cardVals1 enc c) = some (lower d.name) := by
  unfold Dmig.cardVals1
  cases c.2.map (d.rowFields enc) with
  | nil => rfl
  | cons r rs => simp [cardVals, padTo, cardName]

theorem dmigAux_nil (fuel : Nat) : dmigAux fuel [] = some [] := by cases fuel <;> rfl

theorem takeWhile_all' {α : Type} (p : α → Bool) (l : List α) (h : ∀ x ∈ l, p x = true) : l.takeWhile p = l :=
  takeWhile_all p l h

theorem dropWhile_all' {α : Type} (p : α → Bool) (l : List α) (h : ∀ x ∈ l, p x = true) : l.dropWhile p = [] := by
  induction l with
  | nil => rfl
  | cons a r ih => simp [h a (by simp), ih (fun x hx => h x (by simp [hx]))]

/-- `rddmig` on the text of `wtdmig`: the frame of `Dmig.readFrame`, with `nas_sscanf` of the written
`{:16.9E}` fields as values -/
theorem rdDmig_lines (d : Dmig) (hc : d.Clean) : rdDmig d.lines = some [d.readFrame d.encT (lower d.name)] := by
  unfold rdDmig
  rw [rdcards_dmig_lines d hc]
  have hall : ∀ c ∈ d.written d.encT, (cardName c == some (lower d.name)) = true := by
    intro c hcm
    obtain ⟨c', _, rfl⟩ := List.mem_map.mp hcm
    simp [cardName_cardVals1]
  have hhead : cardName d.headerVals = some (lower d.name) := rfl
  simp only [List.isEmpty_cons, Bool.false_eq_true, if_false, List.length_cons, dmigAux, hhead, takeWhile_all' _ _ hall,
    dropWhile_all' _ _ hall, dmigOne_written, dmigAux_nil]

end PyYetiVerif.Bulk
