import PyYetiVerif.Lemmas.NasFloatPick
/-! C12: which alternative the small-magnitude mixed branch of the NEGATIVE chain picks, for
exponents whose last digit is not `0` (the code's `field.strip(" 0-")` eats the last zero of an
exponent like `-10`). -/
set_option linter.unusedSimpArgs false
set_option linter.unusedVariables false
namespace PyYetiVerif.NasFloat
open PyYetiVerif.PyFloat PyYetiVerif.Generated.NasFloat

/-- `float("-" + field.strip(" 0-").replace("-", "e-"))` of a negative scientific field with a
negative exponent not ending in `0` is the nearest double of the decimal the field denotes -/
theorem parseFloat?_field1_neg (W P N3 : Nat) (e : Int) (hI : 10 ^ P ≤ N3) (he0 : e.natAbs % 10 ≠ 0)
    (he : e.natAbs ≤ 5000) :
    parseFloat? ('-' :: replace ['-'] ['e', '-']
        (stripChars [' ', '0', '-'] (rjust W (sciFld true false true P N3 e).text))) =
      some (sciFld true false true P N3 e).bits := by
  rw [strip3_sci W P N3 true e hI he0]
  simp only [if_true]
  have hfpd := rstrip0_frac_digits P N3
  have hu : ∀ x ∈ natDigits (N3 / 10 ^ P) ++ '.' :: rstripBy is0 (fracDigits P N3), x ≠ '-' := by
    intro x hx
    simp only [List.mem_append, List.mem_cons] at hx
    rcases hx with h | rfl | h
    · exact isDigit_ne x '-' (natDigits_all_digit _ x h) (by decide)
    · decide
    · exact isDigit_ne x '-' (hfpd x h) (by decide)
  have hv : ∀ x ∈ natDigits e.natAbs, x ≠ '-' :=
    fun x hx => isDigit_ne x '-' (natDigits_all_digit _ x hx) (by decide)
  rw [replace_single_once '-' ['e', '-'] _ _ hu hv]
  have hne : natDigits e.natAbs ≠ [] := by
    intro h; have := natDigits_length_pos e.natAbs; rw [h] at this; simp at this
  have hfin := parse_rewritten true (natDigits (N3 / 10 ^ P)) (rstripBy is0 (fracDigits P N3))
    (natDigits e.natAbs) true (natDigits_all_digit _) hfpd (by
      have := natDigits_length_pos (N3 / 10 ^ P)
      cases h : natDigits (N3 / 10 ^ P) with
      | nil => rw [h] at this; simp at this
      | cons a t => simp) hne (natDigits_all_digit _) (by rw [digitsVal_natDigits]; omega)
  have etext : '-' :: ((natDigits (N3 / 10 ^ P) ++ '.' :: rstripBy is0 (fracDigits P N3)) ++ ['e', '-'] ++
      natDigits e.natAbs) = (if true = true then ['-'] else []) ++ (natDigits (N3 / 10 ^ P) ++
        '.' :: (rstripBy is0 (fracDigits P N3) ++ 'e' :: sgCh true :: natDigits e.natAbs)) := by
    simp [sgCh]
  unfold parseFloat?
  rw [etext, hfin]
  simp [Fld.bits, Fld.dec, Fld.expVal, sciFld, FExp.val]

theorem fixedFld_zero_not_wf (p : Nat) : (fixedFld true true p 0).wf = false := by
  have hz : fracDigits p 0 = List.replicate p '0' := fracDigits_of_dvd p 0 (dvd_zero _)
  have hr : rstripBy isStrip (List.replicate p '0') = [] := by
    have := rstripBy_append_replicate_length isStrip '0' (by decide) p []
    simpa using this
  simp [fixedFld, Fld.wf, ipKept, hz, hr]

/-- **which alternative the negative mixed branch picks** (printed exponent not ending in `0`).
With `fs` the scientific field, `fx0 = -0.000ddd` the `%W.pf` rendering stripped of its zeros and
`fx = -.000ddd` the same without the leading zero: the branch returns `fx` exactly when `N > 0`,
`fx0` is at most `W` characters wide and `fs`, `fx0` read as the same double; otherwise `fs`. -/
theorem smallNeg_choice (W p : Nat) (c : Sci) (hc : SciOK W c 0) (hp : 1 ≤ p) (hp2 : p + 1 ≤ 250)
    (hpd : p % 10 ≠ 0 ∧ (p + 1) % 10 ≠ 0) (x : Dbl)
    (hneg : x.neg = true) (hn : 0 < x.num) (hd : 0 < x.den) (hlt1 : x.num < x.den)
    (hlo : x.den ≤ 10 ^ 999 * x.num) (hhi : x.num < 10 ^ 999 * x.den)
    (hlow : x.den ≤ 10 ^ (p + 1) * x.num)
    (h8 : W = 8 → x.den ≤ 10 ^ 9 * x.num ∧ x.num * 10 ^ 1 < x.den)
    (he0 : (sciExp c x).natAbs % 10 ≠ 0) :
    ∃ fs : Fld, fs.wf = true ∧ fs.text.length ≤ W ∧ formatScientific W c x = rjust W fs.text ∧
      |decRat fs.dec - dblRat x| ≤ sciBound c x ∧
      smallNeg W p c x =
        if 0 < rheDiv (x.num * 10 ^ p) x.den ∧
            (fixedFld true false p (rheDiv (x.num * 10 ^ p) x.den)).text.length ≤ W ∧
            dblEq fs.bits (fixedFld true false p (rheDiv (x.num * 10 ^ p) x.den)).bits = true
        then rjust W (fixedFld true true p (rheDiv (x.num * 10 ^ p) x.den)).text
        else rjust W fs.text := by
  obtain ⟨hq1, hq15, hrows⟩ := id hc
  obtain ⟨hb1, hb2, hs1, hs2⟩ := eParts_exp_bounds c.ePrec 999 x hn hd hlo hhi
  obtain ⟨-, -, hacc, -⟩ := eParts_spec c.ePrec x hn hd
  have habs : x.absLtOne = true := by simp [Dbl.absLtOne, hlt1]
  have hsb : sciBound c x = (1 / 2 * (10 : ℚ) ^ (-(sciPrec c x.neg (natDigits (eParts c.ePrec x).2.natAbs).length : Int)) +
    1 / 2 * (10 : ℚ) ^ (-(c.ePrec : Int))) * (10 : ℚ) ^ ((eParts c.ePrec x).2) := rfl
  unfold sciExp at he0
  generalize he : (eParts c.ePrec x).2 = e at hb1 hb2 hs1 hs2 hacc hsb he0
  have hLmem := natDigits_len_le3 e.natAbs (by omega)
  obtain ⟨hP1, hP2, hW⟩ := hrows x.neg _ hLmem
  obtain ⟨N3, h1, h2, h3, h4, hshape⟩ := sciCore_shape W c false x hn hd hq1 hq15
    (sciPrec c x.neg (natDigits (eParts c.ePrec x).2.natAbs).length) rfl
    (by rw [he]; exact hP1) (by rw [he]; omega)
  rw [he] at h1 h2 h3 h4 hshape
  generalize hP : sciPrec c x.neg (natDigits e.natAbs).length = P at *
  rw [hneg, habs] at hshape
  simp only [Bool.false_eq_true, if_false] at hshape
  have hz : x.isZero = false := by
    have : x.num ≠ 0 := by omega
    simp [Dbl.isZero, this]
  have hS : formatScientific W c x = rjust W (sciFld true false true P N3 e).text := by
    simp [formatScientific, hz, hshape]
  have hwf : (sciFld true false true P N3 e).wf = true := sciFld_wf _ _ _ _ _ _ (by omega)
  have hlen : (sciFld true false true P N3 e).text.length ≤ W := by
    have := sciFld_length true false true P N3 e hP1 h4
    rw [hneg] at hW
    simp only [if_true, Bool.false_eq_true, if_false] at this hW
    omega
  have haccS : |decRat (sciFld true false true P N3 e).dec - dblRat x| ≤ sciBound c x := by
    have := sci_rat_err true false true P N3 c.ePrec (eParts c.ePrec x).1 e
      ((x.num : ℚ) / x.den) (by omega) (fun _ => hs1 habs) (fun h => absurd h (by simp)) hacc h1 h2
    rw [hsb]
    unfold dblRat
    rw [hneg]
    exact this
  refine ⟨sciFld true false true P N3 e, hwf, hlen, hS, haccS, ?_⟩
  by_cases hN : x.den < 2 * (x.num * 10 ^ p)
  · -- N ≥ 1
    have hp0 : p ≠ 0 := by omega
    have hNpos : 0 < rheDiv (x.num * 10 ^ p) x.den := by
      by_contra hcon
      have h0 : rheDiv (x.num * 10 ^ p) x.den = 0 := by omega
      have := (rheDiv_err (x.num * 10 ^ p) x.den hd).2
      rw [h0] at this
      omega
    have hF2 : stripChars ['0', ' '] (rjust W (fmtF p x)) =
        (fixedFld true false p (rheDiv (x.num * 10 ^ p) x.den)).text := by
      rw [stripChars_swap, fmtF_shape p hp0, hneg, rjust, fixedFld_text]
      have := strip_fixed true (rheDiv (x.num * 10 ^ p) x.den / 10 ^ p)
        (fracDigits p (rheDiv (x.num * 10 ^ p) x.den)) (W - ((if true = true then ['-'] else []) ++
          natDigits (rheDiv (x.num * 10 ^ p) x.den / 10 ^ p) ++
            '.' :: fracDigits p (rheDiv (x.num * 10 ^ p) x.den)).length)
      simpa using this
    have hG' : replace ['-', '0', '.'] ['-', '.'] (rstripChars [' ', '0']
        (fixedFld true false p (rheDiv (x.num * 10 ^ p) x.den)).text) =
        (fixedFld true true p (rheDiv (x.num * 10 ^ p) x.den)).text := by
      have h1' : rstripChars [' ', '0'] (fixedFld true false p (rheDiv (x.num * 10 ^ p) x.den)).text =
          (fixedFld true false p (rheDiv (x.num * 10 ^ p) x.den)).text :=
        rstripBy_of_last_neg isStrip _ (fixedFld_last true false p _)
      rw [h1', fixedFld_text, fixedFld_text]
      have := replace_dash_fixed 0 (rheDiv (x.num * 10 ^ p) x.den / 10 ^ p)
        (rstripBy isStrip (fracDigits p (rheDiv (x.num * 10 ^ p) x.den))) (rstrip_frac_digits p _)
      simp only [List.replicate_zero, List.nil_append, dashZeroDot, dashDot] at this
      simp only [if_true, List.singleton_append, ipKept, Bool.false_and, Bool.false_eq_true, if_false]
      simpa [ipKept] using this
    have hG'head : ∀ c ∈ (fixedFld true true p (rheDiv (x.num * 10 ^ p) x.den)).text.head?, isStrip c = false := by
      intro c hc
      simp [fixedFld_text] at hc
      rw [← hc]; decide
    have hG'last := fixedFld_last true true p (rheDiv (x.num * 10 ^ p) x.den)
    have hf1 := parseFloat?_field1_neg W P N3 e h3 he0 (by omega)
    have hwf0 : (fixedFld true false p (rheDiv (x.num * 10 ^ p) x.den)).wf = true :=
      fixedFld_wf true false p _ hNpos
    have hf2 : parseFloat? (fixedFld true false p (rheDiv (x.num * 10 ^ p) x.den)).text =
        some (fixedFld true false p (rheDiv (x.num * 10 ^ p) x.den)).bits := by
      have := parseFloat?_plain' (fixedFld true false p (rheDiv (x.num * 10 ^ p) x.den)) hwf0 rfl 0
      simpa using this
    have hfe := floatEq_of_parse _ _ _ _ hf1 hf2
    generalize hN' : rheDiv (x.num * 10 ^ p) x.den = N at *
    have hSlen : (rjust W (sciFld true false true P N3 e).text).length = W := rjust_length_of_le _ _ hlen
    unfold smallNeg
    simp only [hS, hF2, hfe]
    by_cases hcond : (fixedFld true false p N).text.length ≤ W ∧
        dblEq (sciFld true false true P N3 e).bits (fixedFld true false p N).bits = true
    · have hc2 : (decide ((fixedFld true false p N).text.length ≤ W) &&
          dblEq (sciFld true false true P N3 e).bits (fixedFld true false p N).bits) = true := by
        simp [hcond.1, hcond.2]
      have hR : (if 0 < N ∧ (fixedFld true false p N).text.length ≤ W ∧
          dblEq (sciFld true false true P N3 e).bits (fixedFld true false p N).bits = true
          then rjust W (fixedFld true true p N).text
          else rjust W (sciFld true false true P N3 e).text) = rjust W (fixedFld true true p N).text :=
        if_pos ⟨hNpos, hcond.1, hcond.2⟩
      rw [hR]
      simp only [hc2, if_true, hG']
      by_cases hW8 : (W == 8) = true
      · simp only [hW8, if_true]
        have e' := stripBy_pad_ends isStrip ' ' (by decide) 0 _ hG'head hG'last
        rw [List.replicate_zero, List.nil_append] at e'
        show rjust W (stripBy isStrip (fixedFld true true p N).text) = rjust W (fixedFld true true p N).text
        rw [e']
      · simp only [hW8, if_false, Bool.false_eq_true]
    · have hc2 : (decide ((fixedFld true false p N).text.length ≤ W) &&
          dblEq (sciFld true false true P N3 e).bits (fixedFld true false p N).bits) = false := by
        by_contra hcon
        simp only [Bool.not_eq_false, Bool.and_eq_true, decide_eq_true_eq] at hcon
        exact hcond hcon
      have hR : (if 0 < N ∧ (fixedFld true false p N).text.length ≤ W ∧
          dblEq (sciFld true false true P N3 e).bits (fixedFld true false p N).bits = true
          then rjust W (fixedFld true true p N).text
          else rjust W (sciFld true false true P N3 e).text) = rjust W (sciFld true false true P N3 e).text :=
        if_neg (fun h => hcond ⟨h.2.1, h.2.2⟩)
      rw [hR]
      simp only [hc2, Bool.false_eq_true, if_false]
      by_cases hW8 : (W == 8) = true
      · simp only [hW8, if_true]
        have hW8' : W = 8 := by simpa using hW8
        obtain ⟨hr1, hr2⟩ := h8 hW8'
        obtain ⟨he1, he2⟩ := eParts_exp_range c.ePrec 9 1 x hn hd hr1 hr2
        rw [he] at he1 he2
        exact finish_sci W _ _ _ P N3 _ h3 (by omega) (by omega)
      · simp only [hW8, if_false, Bool.false_eq_true]
        exact rjust_of_ge W _ (by rw [hSlen])
  · -- N = 0: the comparison with `-0.` fails, the scientific field is returned
    have hN0 : rheDiv (x.num * 10 ^ p) x.den = 0 := rheDiv_zero_of_half _ _ hd (by omega)
    obtain ⟨f, hfwf, _, hfshape, hcase⟩ := smallNeg_good W p c hc hp hp2 hpd x hneg hn hd hlo hhi hlow h8
    have hsci : sciCore W c [] x = rjust W f.text := by
      rcases hcase with h | h
      · exact h
      · rw [h, hN0, fixedFld_zero_not_wf p] at hfwf
        exact absurd hfwf (by simp)
    have : ¬ (0 < rheDiv (x.num * 10 ^ p) x.den) := by omega
    simp only [this, false_and, if_false]
    rw [hfshape, ← hsci, hshape]

end PyYetiVerif.NasFloat
