import PyYetiVerif.Lemmas.Newmark
/-!
The displacement history of `Newmark.run` (no nonlinear term) as a sequence `ℕ → V`.

`dseq S Fn d0 v0 z n` is the `n`-th displacement the code computes when the force columns are
`Fn 0, Fn 1, …` and every evaluation of the nonlinear term returns `z` (`z = 0` for a linear system):
`d_0 = d0`, `d_1` from the documented start-up, `d_{n+2}` from the three-point recurrence in which the
scaled force at index `0` is the *replaced* `F₀' = K d0 + B v0`.  `run_eq_dseq` shows that `run` returns
exactly the first `nt` members of this sequence (a loop invariant of `loop`); the convergence, massless
and stability statements of `Props/C17Conv`, `Props/C17Stab` are proved about the sequence and carried
to `run` through it.
-/
namespace PyYetiVerif.Newmark

section seq
variable {α V : Type} [Add V] [Sub V] [VecOps α V] [Mul α] [OfNat α 2] [OfNat α 3]

/-- scaled force the loop holds for column `n`: the replaced `F₀'` at `n = 0`, `A⁻¹ (F_n / 3)` otherwise -/
def gseq (S : Sys V α) (Fn : Nat → V) (d0 v0 : V) (n : Nat) : V :=
  if n = 0 then f0 S d0 v0 else scaled S (Fn n)

/-- the displacement sequence of the scheme (constant nonlinear contribution `z`) -/
def dseq (S : Sys V α) (Fn : Nat → V) (d0 v0 z : V) : Nat → V
  | 0 => d0
  | 1 => step S (scaled S (Fn 1)) (f0 S d0 v0) (fM1 S d0 v0) z d0 (uM1 S d0 v0)
  | n + 2 => step S (scaled S (Fn (n + 2))) (gseq S Fn d0 v0 (n + 1)) (gseq S Fn d0 v0 n) z
      (dseq S Fn d0 v0 z (n + 1)) (dseq S Fn d0 v0 z n)

/-- the loop state after `i` passes of `for j in range(2, nt)` -/
def stateAt (S : Sys V α) (Fn : Nat → V) (d0 v0 z : V) (i : Nat) : LoopSt V :=
  { j := i + 1
    u1 := dseq S Fn d0 v0 z (i + 1)
    u0 := dseq S Fn d0 v0 z i
    older := ((List.range i).map (dseq S Fn d0 v0 z)).reverse ++ [uM1 S d0 v0]
    g1 := gseq S Fn d0 v0 (i + 1)
    g0 := gseq S Fn d0 v0 i }

theorem start_eq_stateAt (S : Sys V α) (Fn : Nat → V) (d0 v0 z : V) :
    start S (fun _ _ => z) (Fn 1) d0 v0 = stateAt S Fn d0 v0 z 0 := by
  simp [start, stateAt, dseq, gseq]

theorem loop_stateAt (S : Sys V α) (Fn : Nat → V) (d0 v0 z : V) :
    ∀ (len i : Nat),
      loop S (fun _ _ => z) (stateAt S Fn d0 v0 z i)
          ((List.range len).map fun t => scaled S (Fn (i + 2 + t)))
        = stateAt S Fn d0 v0 z (i + len)
  | 0, i => by simp [loop]
  | len + 1, i => by
    have hr : (List.range (len + 1)).map (fun t => scaled S (Fn (i + 2 + t)))
        = scaled S (Fn (i + 2)) :: (List.range len).map (fun t => scaled S (Fn (i + 1 + 2 + t))) := by
      rw [List.range_succ_eq_map, List.map_cons, List.map_map]
      refine congrArg₂ _ rfl (List.map_congr_left fun t _ => ?_)
      simp only [Function.comp]
      congr 2; omega
    have hs : ({ j := (stateAt S Fn d0 v0 z i).j + 1
                 u1 := step S (scaled S (Fn (i + 2))) (stateAt S Fn d0 v0 z i).g1
                   (stateAt S Fn d0 v0 z i).g0 z (stateAt S Fn d0 v0 z i).u1 (stateAt S Fn d0 v0 z i).u0
                 u0 := (stateAt S Fn d0 v0 z i).u1
                 older := (stateAt S Fn d0 v0 z i).u0 :: (stateAt S Fn d0 v0 z i).older
                 g1 := scaled S (Fn (i + 2))
                 g0 := (stateAt S Fn d0 v0 z i).g1 } : LoopSt V) = stateAt S Fn d0 v0 z (i + 1) := by
      simp [stateAt, dseq, gseq, List.range_succ]
    rw [hr, loop, hs, loop_stateAt S Fn d0 v0 z len (i + 1)]
    congr 1; omega

/-- `run` on the force columns `Fn 0, …, Fn (n+1)` returns the first `n + 2` members of `dseq`
(and its extrapolated step starts from `stateAt n`) -/
theorem run_eq_dseq (S : Sys V α) (Fn : Nat → V) (d0 v0 z : V) (n : Nat) :
    ∃ hh, run S (fun _ _ => z) ((List.range (n + 2)).map Fn) d0 v0 = some hh ∧
      hh.d = (List.range (n + 2)).map (dseq S Fn d0 v0 z) ∧
      hh.de = lastStep S (fun _ _ => z) (stateAt S Fn d0 v0 z n) := by
  have hF : (List.range (n + 2)).map Fn
      = Fn 0 :: Fn 1 :: (List.range n).map (fun t => Fn (2 + t)) := by
    rw [List.range_succ_eq_map, List.map_cons, List.map_map, List.range_succ_eq_map, List.map_cons,
      List.map_map]
    refine congrArg₂ _ rfl (congrArg₂ _ rfl (List.map_congr_left fun t _ => ?_))
    simp only [Function.comp]
    congr 1; omega
  have hl := loop_stateAt S Fn d0 v0 z n 0
  simp only [Nat.zero_add] at hl
  rw [← start_eq_stateAt] at hl
  have hm : ((List.range n).map fun t => Fn (2 + t)).map (scaled S)
      = (List.range n).map fun t => scaled S (Fn (2 + t)) := by
    rw [List.map_map]; rfl
  refine ⟨_, by rw [hF]; rfl, ?_, ?_⟩
  · simp only [hm, hl]
    simp [stateAt, LoopSt.hist, List.range_succ]
  · simp only [hm, hl]

end seq

end PyYetiVerif.Newmark
