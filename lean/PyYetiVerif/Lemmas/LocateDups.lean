import PyYetiVerif.Lemmas.Locate
import Mathlib.Data.List.Nodup
import Mathlib.Data.Int.Order.Basic
import Mathlib.Data.List.Perm.Basic
/-!
`find_duplicates`: the flags computed from the two *sorted neighbours* are the flags "another
entry lies within `tol`" (the closest other value is a sorted neighbour).  Over `Int` (the harness
sends dyadic floats scaled, so `Int` is the exact semantics of the float comparisons).
-/
namespace PyYetiVerif.Locate

/-- `|y - x| ≤ tol` -/
def near (tol : Int) (y x : Int) : Prop := ((y - x).natAbs : Int) ≤ tol

instance (tol y x : Int) : Decidable (near tol y x) := by unfold near; infer_instance

/-- flags of a list `S` standing behind a prefix `P`: "some *other* entry of `P ++ S` is near" -/
def specF (tol : Int) : List Int → List Int → List Bool
  | _, [] => []
  | P, a :: rest => decide (∃ y ∈ P ++ rest, near tol y a) :: specF tol (P ++ [a]) rest

theorem within_iff {tol a b : Int} (h : a ≤ b) : within tol a b = true ↔ near tol a b := by
  unfold within near
  simp only [decide_eq_true_eq]
  omega

theorem within_iff' {tol a b : Int} (h : a ≤ b) : within tol a b = true ↔ near tol b a := by
  unfold within near
  simp only [decide_eq_true_eq]
  omega

/-- the neighbour flags are the "any other entry" flags on a sorted list -/
theorem dupFlags_spec (tol : Int) : ∀ (L P : List Int), (P ++ L).Pairwise (· ≤ ·) →
    dupFlags tol P.getLast? L = specF tol P L
  | [], _, _ => by simp [dupFlags, specF]
  | a :: rest, P, hs => by
      have ih := dupFlags_spec tol rest (P ++ [a]) (by simpa using hs)
      rw [List.getLast?_concat] at ih
      unfold dupFlags specF
      rw [ih]
      congr 1
      rw [List.pairwise_append] at hs
      obtain ⟨hP, hL, hPL⟩ := hs
      rw [List.pairwise_cons] at hL
      rw [Bool.eq_iff_iff, Bool.or_eq_true, decide_eq_true_eq]
      constructor
      · rintro (h | h)
        · cases hp : P.getLast? with
          | none => rw [hp] at h; cases h
          | some p =>
              rw [hp] at h
              have hmem : p ∈ P := List.mem_of_getLast? hp
              exact ⟨p, List.mem_append_left _ hmem,
                (within_iff (hPL p hmem a List.mem_cons_self)).mp h⟩
        · cases rest with
          | nil => cases h
          | cons b t =>
              exact ⟨b, List.mem_append_right _ List.mem_cons_self,
                (within_iff' (hL.1 b List.mem_cons_self)).mp h⟩
      · rintro ⟨y, hy, hn⟩
        rcases List.mem_append.mp hy with hyP | hyR
        · left
          cases hp : P.getLast? with
          | none =>
              rw [List.getLast?_eq_none_iff] at hp
              rw [hp] at hyP; cases hyP
          | some p =>
              have hmem : p ∈ P := List.mem_of_getLast? hp
              have hpa : p ≤ a := hPL p hmem a List.mem_cons_self
              have hya : y ≤ a := hPL y hyP a List.mem_cons_self
              have hyp : y ≤ p := by
                obtain ⟨Q, rfl⟩ : ∃ Q, P = Q ++ [p] := by
                  have := List.getLast?_eq_some_iff.mp hp
                  exact this
                rcases List.mem_append.mp hyP with h1 | h1
                · exact (List.pairwise_append.mp hP).2.2 y h1 p (by simp)
                · simp at h1; omega
              apply (within_iff hpa).mpr
              unfold near at hn ⊢
              omega
        · right
          cases rest with
          | nil => cases hyR
          | cons b t =>
              have hab : a ≤ b := hL.1 b List.mem_cons_self
              have hby : b ≤ y := by
                rcases List.mem_cons.mp hyR with h1 | h1
                · omega
                · exact (List.pairwise_cons.mp hL.2).1 y h1
              apply (within_iff' hab).mpr
              unfold near at hn ⊢
              omega

/-- the same flags on (value, index) pairs -/
def specFP (tol : Int) : List (Int × Nat) → List (Int × Nat) → List Bool
  | _, [] => []
  | P, a :: rest => decide (∃ p ∈ P ++ rest, near tol p.1 a.1) :: specFP tol (P ++ [a]) rest

theorem specF_map (tol : Int) : ∀ (S P : List (Int × Nat)),
    specF tol (P.map (·.1)) (S.map (·.1)) = specFP tol P S
  | [], _ => rfl
  | a :: rest, P => by
      have ih := specF_map tol rest (P ++ [a])
      simp only [List.map_append, List.map_cons, List.map_nil] at ih
      simp only [List.map_cons, specF, specFP, ih]
      congr 1
      rw [← List.map_append]
      simp only [List.mem_map, decide_eq_decide]
      constructor
      · rintro ⟨y, ⟨p, hp, rfl⟩, h⟩; exact ⟨p, hp, h⟩
      · rintro ⟨p, hp, h⟩; exact ⟨p.1, ⟨p, hp, rfl⟩, h⟩

theorem specFP_nodup (tol : Int) : ∀ (S P : List (Int × Nat)), ((P ++ S).map (·.2)).Nodup →
    specFP tol P S =
      S.map (fun a => decide (∃ p ∈ P ++ S, p.2 ≠ a.2 ∧ near tol p.1 a.1))
  | [], _, _ => rfl
  | a :: rest, P, hnd => by
      have hassoc : (P ++ [a]) ++ rest = P ++ a :: rest := by simp
      have ih := specFP_nodup tol rest (P ++ [a]) (by rw [hassoc]; exact hnd)
      rw [hassoc] at ih
      simp only [specFP, List.map_cons, ih]
      congr 1
      rw [decide_eq_decide]
      have hne : ∀ p ∈ P ++ rest, p.2 ≠ a.2 := by
        intro p hp heq
        rw [List.map_append, List.map_cons] at hnd
        have h1 := List.nodup_middle.mp hnd
        rw [List.nodup_cons] at h1
        apply h1.1
        rw [← List.map_append, ← heq]
        exact List.mem_map_of_mem hp
      constructor
      · rintro ⟨p, hp, h⟩
        refine ⟨p, ?_, hne p hp, h⟩
        rcases List.mem_append.mp hp with h1 | h1
        · exact List.mem_append_left _ h1
        · exact List.mem_append_right _ (List.mem_cons_of_mem _ h1)
      · rintro ⟨p, hp, hn, h⟩
        refine ⟨p, ?_, h⟩
        rcases List.mem_append.mp hp with h1 | h1
        · exact List.mem_append_left _ h1
        · rcases List.mem_cons.mp h1 with h2 | h2
          · exact absurd (by rw [h2]) hn
          · exact List.mem_append_right _ h2

theorem argsort_perm (v : List Int) : (argsort v).Perm v.zipIdx := by
  unfold argsort; exact List.mergeSort_perm _ _

theorem argsort_nodup_snd (v : List Int) : ((argsort v).map (·.2)).Nodup := by
  rw [((argsort_perm v).map _).nodup_iff, List.zipIdx_map_snd]
  exact List.nodup_range'

/-- `find_duplicates(v, tol)[i]` is `True` iff another entry of `v` lies within `tol` of `v[i]`. -/
theorem findDuplicates_eq (v : List Int) (tol : Int) :
    findDuplicates v tol =
      v.zipIdx.map (fun a => decide (∃ p ∈ v.zipIdx, p.2 ≠ a.2 ∧ near tol p.1 a.1)) := by
  unfold findDuplicates
  split
  · rename_i hlt
    match v, hlt with
    | [], _ => rfl
    | [x], _ => simp [List.zipIdx]
  · dsimp only
    have hflags : dupFlags tol none ((argsort v).map (·.1)) =
        (argsort v).map (fun a => decide (∃ p ∈ v.zipIdx, p.2 ≠ a.2 ∧ near tol p.1 a.1)) := by
      have h1 := dupFlags_spec tol ((argsort v).map (·.1)) [] (by simpa using argsort_pairwise v)
      have h2 := specF_map tol (argsort v) []
      have h3 := specFP_nodup tol (argsort v) [] (by simpa using argsort_nodup_snd v)
      simp only [List.getLast?_nil, List.map_nil, List.nil_append] at h1 h2 h3
      rw [h1, h2, h3]
      apply List.map_congr_left
      intro a _
      rw [decide_eq_decide]
      constructor
      · rintro ⟨p, hp, h⟩; exact ⟨p, (argsort_perm v).mem_iff.mp hp, h⟩
      · rintro ⟨p, hp, h⟩; exact ⟨p, (argsort_perm v).mem_iff.mpr hp, h⟩
    rw [hflags, List.zip_map']
    apply List.ext_getElem
    · simp
    · intro j h1 h2
      have hj : j < v.length := by simpa using h1
      simp only [List.getElem_map, List.getElem_range, List.getElem_zipIdx, Nat.zero_add]
      rw [List.find?_map]
      have hmem : (v[j], j) ∈ argsort v := mem_argsort.mpr (by simp [hj])
      cases hf : (argsort v).find? ((fun t : Nat × Bool => decide (t.1 = j)) ∘
          fun a => (a.2, decide (∃ p ∈ v.zipIdx, p.2 ≠ a.2 ∧ near tol p.1 a.1))) with
      | none =>
          have := List.find?_eq_none.mp hf (v[j], j) hmem
          simp at this
      | some a =>
          have ha := List.mem_of_find?_eq_some hf
          have hp := List.find?_some hf
          simp only [Function.comp, decide_eq_true_eq] at hp
          have hv := mem_argsort.mp ha
          rw [hp] at hv
          have : a = (v[j], j) := by
            obtain ⟨x, i⟩ := a
            simp only at hp hv
            subst hp
            rw [List.getElem?_eq_getElem hj] at hv
            simp only [Option.some.injEq] at hv
            rw [hv]
          rw [this]
          simp

end PyYetiVerif.Locate
