import PyYetiVerif.Lemmas.Psd
import PyYetiVerif.Model.PsdMod
import Mathlib.Algebra.Order.BigOperators.Group.List
/-! Helper lemmas for C19: a constant PSD under `rescale`, and the row maximum of `psdmod`. -/
namespace PyYetiVerif.Psd

section field
variable {α : Type} [Field α] [LinearOrder α] [IsStrictOrderedRing α]

theorem overlap_add {x e0 e1 el : α} (h01 : e0 ≤ e1) (h1l : e1 ≤ el) :
    max 0 (min x e1 - e0) + max 0 (min x el - e1) = max 0 (min x el - e0) := by
  simp only [max_def, min_def]
  split_ifs <;> linarith

/-- cumulative area of a constant PSD `c` over contiguous bands: `c · |(-∞, x] ∩ [e0, e_last]|` -/
theorem areaUpTo_const (c x : α) : ∀ (es : List α) (e0 : α) (ps : List α),
    (e0 :: es).Pairwise (· ≤ ·) → ps.length = es.length → (∀ p ∈ ps, p = c) →
    areaUpTo (e0 :: es) ps x = c * max 0 (min x ((e0 :: es).getLast (by simp)) - e0)
  | [], e0, ps, _, hl, _ => by
      have : ps = [] := List.length_eq_zero_iff.mp hl
      subst this
      simp [areaUpTo]
  | e1 :: es, e0, [], _, hl, _ => by simp at hl
  | e1 :: es, e0, p :: ps, hs, hl, hp => by
      have hpc : p = c := hp p (by simp)
      have h01 : e0 ≤ e1 := (List.pairwise_cons.mp hs).1 e1 (by simp)
      have hs' := (List.pairwise_cons.mp hs).2
      have ih := areaUpTo_const c x es e1 ps hs' (by simpa using hl)
        (fun q hq => hp q (List.mem_cons_of_mem _ hq))
      have hlast : e1 ≤ (e1 :: es).getLast (by simp) := by
        rcases List.mem_cons.mp (List.getLast_mem (l := e1 :: es) (by simp)) with h | h
        · rw [h]
        · exact (List.pairwise_cons.mp hs').1 _ h
      rw [areaUpTo, ih, hpc]
      have e : (e0 :: e1 :: es).getLast (by simp) = (e1 :: es).getLast (by simp) := by
        simp [List.getLast_cons]
      rw [e]
      generalize (e1 :: es).getLast (by simp) = el at hlast ⊢
      rw [← mul_add, overlap_add h01 hlast]

/-- the mean-square of a constant PSD `c` in a band inside the input range is `c · width` -/
theorem bandArea_const (c a b : α) (es : List α) (e0 : α) (ps : List α)
    (hs : (e0 :: es).Pairwise (· ≤ ·)) (hl : ps.length = es.length) (hp : ∀ p ∈ ps, p = c)
    (hab : a ≤ b) (h0 : e0 ≤ a) (h1 : b ≤ (e0 :: es).getLast (by simp)) :
    bandArea (e0 :: es) ps a b = c * (b - a) := by
  rw [← bandArea_eq _ _ a b hab hs, areaUpTo_const c b es e0 ps hs hl hp,
    areaUpTo_const c a es e0 ps hs hl hp]
  rw [min_eq_left h1, min_eq_left (le_trans hab h1), max_eq_right (by linarith), max_eq_right (by linarith)]
  ring

end field
end PyYetiVerif.Psd

namespace PyYetiVerif.PsdMod

section order
variable {α : Type} [LinearOrder α]

theorem foldl_max_spec : ∀ (r : List α) (a : α),
    a ≤ r.foldl (fun m x => if m < x then x else m) a ∧
      (∀ x ∈ r, x ≤ r.foldl (fun m x => if m < x then x else m) a) ∧
      (r.foldl (fun m x => if m < x then x else m) a = a ∨
        r.foldl (fun m x => if m < x then x else m) a ∈ r)
  | [], a => by simp
  | x :: r, a => by
      simp only [List.foldl_cons]
      obtain ⟨h1, h2, h3⟩ := foldl_max_spec r (if a < x then x else a)
      have hax : a ≤ (if a < x then x else a) := by split_ifs with h <;> [exact le_of_lt h; exact le_refl _]
      have hxx : x ≤ (if a < x then x else a) := by split_ifs with h <;> [exact le_refl _; exact not_lt.mp h]
      refine ⟨le_trans hax h1, ?_, ?_⟩
      · intro y hy
        rcases List.mem_cons.mp hy with rfl | hy
        · exact le_trans hxx h1
        · exact h2 y hy
      · rcases h3 with h | h
        · rw [h]
          split_ifs
          · right; simp
          · left; rfl
        · right; exact List.mem_cons_of_mem _ h

/-- the row maximum is an element of the row and bounds every element -/
theorem rowMax_spec (row : List α) (m : α) (h : rowMax row = some m) :
    m ∈ row ∧ ∀ x ∈ row, x ≤ m := by
  cases row with
  | nil => simp [rowMax] at h
  | cons a r =>
      simp only [rowMax, Option.some.injEq] at h
      subst h
      obtain ⟨h1, h2, h3⟩ := foldl_max_spec r a
      refine ⟨?_, ?_⟩
      · rcases h3 with h | h
        · rw [h]; simp
        · exact List.mem_cons_of_mem _ h
      · intro x hx
        rcases List.mem_cons.mp hx with rfl | hx
        · exact h1
        · exact h2 x hx

end order

theorem mapM_some_spec {β γ : Type} (f : β → Option γ) : ∀ (l : List β) (r : List γ), l.mapM f = some r →
    r.length = l.length ∧ ∀ (k : Nat) (h1 : k < l.length) (h2 : k < r.length), f l[k] = some r[k]
  | [], r, h => by
      simp only [List.mapM_nil] at h
      have : r = [] := by injection h with h; exact h.symm
      subst this
      exact ⟨rfl, fun k h1 => by simp at h1⟩
  | a :: l, r, h => by
      rw [List.mapM_cons] at h
      cases hfa : f a with
      | none => rw [hfa] at h; simp at h
      | some b =>
          rw [hfa] at h
          cases hl : l.mapM f with
          | none => rw [hl] at h; simp at h
          | some bs =>
              rw [hl] at h
              have hr : r = b :: bs := by
                simp at h; exact h.symm
              subst hr
              obtain ⟨i1, i2⟩ := mapM_some_spec f l bs hl
              refine ⟨by simp [i1], ?_⟩
              intro k h1 h2
              cases k with
              | zero => simpa using hfa
              | succ k =>
                  simp only [List.getElem_cons_succ]
                  exact i2 k (by simpa using h1) (by simpa using h2)

/-- … hence it is at least the average of the row -/
theorem rowMax_ge_average {α : Type} [Field α] [LinearOrder α] [IsStrictOrderedRing α]
    (row : List α) (m : α) (h : rowMax row = some m) : row.sum ≤ (row.length : α) * m := by
  obtain ⟨_, h2⟩ := rowMax_spec row m h
  have := List.sum_le_card_nsmul row m h2
  rwa [nsmul_eq_mul] at this

end PyYetiVerif.PsdMod
