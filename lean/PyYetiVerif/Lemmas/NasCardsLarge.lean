import PyYetiVerif.Lemmas.NasCardsTrip
/-! C12 cards: `rdcards (wtcard16 fields)` — large-field cards: chunks of 4 fields, the `*` in
column 73 before every second line break, the final `*` line, the reader on those lines. -/
set_option linter.unusedSimpArgs false
set_option linter.unusedVariables false
namespace PyYetiVerif.NasCards
open PyYetiVerif.PyFloat PyYetiVerif.NasFloat

/-! ### large-field cards: the text -/

/-- the `*` in column 73 that `_wtcard16` writes before every second line break -/
def sfx16 (m : Nat) : Str := if m % 2 == 0 then ['*'] else []

/-- the text after the fields of the current line: chunks `m, m+1, …` and the final padding `P` -/
def rest16 (P : Str) : Nat → List (List Str) → Str
  | _, [] => P ++ ['\n']
  | m, c :: cs => sfx16 m ++ "\n*       ".toList ++ c.flatten ++ rest16 P (m + 1) cs

theorem sep16_cont (m : Nat) : sep16 (4 * (m + 1)) = sfx16 (m + 1) ++ "\n*       ".toList := by
  have h1 : 4 * (m + 1) > 0 := by omega
  have h4 : 4 * (m + 1) % 4 = 0 := Nat.mul_mod_right 4 _
  unfold sep16 sfx16
  by_cases hpar : (m + 1) % 2 = 0
  · have h8 : 4 * (m + 1) % 8 = 0 := by omega
    simp [h1, h8, hpar]
  · have h8 : 4 * (m + 1) % 8 ≠ 0 := by omega
    simp [h1, h8, h4, hpar]

theorem sep16_none (i : Nat) (h : i % 4 ≠ 0) : sep16 i = [] := by
  have h8 : i % 8 ≠ 0 := by omega
  simp [sep16, h, h8]

theorem sep16_first (t : Nat) (ht : t < 4) : sep16 (0 + t) = [] := by
  rcases Nat.eq_zero_or_pos t with rfl | hpos
  · simp [sep16]
  · exact sep16_none _ (by omega)

theorem bodyGen16_rest (fmt : Dbl → Str) (P : Str) (fuel : Nat) (toks : List Tok) (m : Nat)
    (hne : toks ≠ []) (hfuel : toks.length ≤ fuel) :
    bodyGen 16 sep16 fmt (4 * (m + 1)) toks ++ (P ++ ['\n']) =
      rest16 P (m + 1) (chunksAux 4 fuel (toks.map (enc 16 fmt))) := by
  induction fuel generalizing toks m with
  | zero =>
    have : toks = [] := List.length_eq_zero_iff.1 (by omega)
    exact absurd this hne
  | succ fuel ih =>
    cases toks with
    | nil => exact absurd rfl hne
    | cons t ts =>
      simp only [List.length_cons] at hfuel
      by_cases hlen : ((t :: ts).map (enc 16 fmt)).length ≤ 4
      · rw [chunksAux_le _ _ _ hlen]
        simp only [List.length_map, List.length_cons] at hlen
        have hrun := bodyGen_run 16 sep16 fmt ts.length (4 * (m + 1) + 1) ts
          (fun t ht => sep16_none _ (by omega)) (le_refl _)
        simp only [bodyGen, sep16_cont, hrun, List.take_length, List.drop_length, List.append_nil,
          rest16, List.map_cons, List.flatten_cons, List.append_assoc]
      · rw [chunksAux_gt _ _ _ hlen]
        simp only [List.length_map, List.length_cons, not_le] at hlen
        have hrun := bodyGen_run 16 sep16 fmt 3 (4 * (m + 1) + 1) ts
          (fun t ht => sep16_none _ (by omega)) (by omega)
        have hdne : ts.drop 3 ≠ [] := by
          intro h
          have := congrArg List.length h
          simp at this; omega
        have hih := ih (ts.drop 3) (m + 1) hdne (by simp; omega)
        have e1 : 4 * (m + 1) + 1 + 3 = 4 * (m + 1 + 1) := by ring
        rw [e1] at hrun
        simp only [bodyGen, sep16_cont, hrun, rest16, List.map_cons, List.flatten_cons,
          List.take_succ_cons, List.drop_succ_cons, List.map_take, List.map_drop, List.append_assoc]
        rw [hih]
        simp only [List.map_drop]

theorem bodyGen16_first (fmt : Dbl → Str) (P : Str) (toks : List Tok) :
    ∃ c0 cs, chunks 4 (toks.map (enc 16 fmt)) = c0 :: cs ∧
      bodyGen 16 sep16 fmt 0 toks ++ (P ++ ['\n']) = c0.flatten ++ rest16 P 1 cs := by
  unfold chunks
  by_cases hlen : (toks.map (enc 16 fmt)).length ≤ 4
  · refine ⟨toks.map (enc 16 fmt), [], chunksAux_le _ _ _ hlen, ?_⟩
    simp only [List.length_map] at hlen
    have hrun := bodyGen_run 16 sep16 fmt toks.length 0 toks
      (fun t ht => sep16_first t (by omega)) (le_refl _)
    simp only [hrun, List.take_length, List.drop_length, bodyGen, List.append_nil, rest16]
  · obtain ⟨f', hf'⟩ : ∃ f', (toks.map (enc 16 fmt)).length = f' + 1 :=
      ⟨_, (Nat.succ_pred_eq_of_pos (by omega)).symm⟩
    rw [hf', chunksAux_gt _ _ _ hlen]
    refine ⟨_, _, rfl, ?_⟩
    simp only [List.length_map, not_le] at hlen hf'
    have hrun := bodyGen_run 16 sep16 fmt 4 0 toks (fun t ht => sep16_first t ht) (by omega)
    have hdne : toks.drop 4 ≠ [] := by
      intro h
      have := congrArg List.length h
      simp at this; omega
    have hrest := bodyGen16_rest fmt P f' (toks.drop 4) 0 hdne (by simp; omega)
    simp only [Nat.zero_add, Nat.mul_one] at hrun hrest
    rw [hrun, List.append_assoc, hrest]
    simp only [List.map_take, List.map_drop]


/-! ### large-field cards: the lines -/

theorem fileLines_cons_line (l rest : Str) (h : ∀ c ∈ l, c ≠ '\n') :
    fileLines (l ++ '\n' :: rest) = (l ++ ['\n']) :: fileLines rest := by
  unfold fileLines
  rw [fileLines_go_line l rest [] h]; simp

theorem fileLines_last (l : Str) (h : ∀ c ∈ l, c ≠ '\n') : fileLines (l ++ ['\n']) = [l ++ ['\n']] := by
  rw [fileLines_cons_line l [] h]; rfl

/-- the physical lines of a large-field card after the current line `cur`; `pad` = the final `*`
line that makes the number of lines even -/
def lines16 (pad : Bool) (cur : Str) : Nat → List (List Str) → List Str
  | _, [] => if pad then [cur ++ ['\n'], ['*', '\n']] else [cur ++ ['\n']]
  | m, c :: cs => (cur ++ sfx16 m ++ ['\n']) :: lines16 pad ("*       ".toList ++ c.flatten) (m + 1) cs

theorem sfx16_chars (m : Nat) : ∀ c ∈ sfx16 m, c ≠ '\n' := by
  intro c hc
  unfold sfx16 at hc
  split_ifs at hc
  · simp at hc; subst hc; decide
  · simp at hc

theorem fileLines_rest16 (pad : Bool) (cur : Str) (m : Nat) (cs : List (List Str))
    (hcur : ∀ c ∈ cur, c ≠ '\n') (hcs : ∀ ch ∈ cs, ∀ f ∈ ch, ∀ c ∈ f, c ≠ '\n') :
    fileLines (cur ++ rest16 (if pad then ['\n', '*'] else []) m cs) = lines16 pad cur m cs := by
  induction cs generalizing cur m with
  | nil =>
    cases pad with
    | false => simp only [rest16, lines16, Bool.false_eq_true, if_false, List.nil_append]
               exact fileLines_last cur hcur
    | true =>
      simp only [rest16, lines16, if_true]
      have e : cur ++ (['\n', '*'] ++ ['\n']) = cur ++ '\n' :: (['*'] ++ ['\n']) := rfl
      rw [e, fileLines_cons_line cur _ hcur, fileLines_last ['*'] (by decide)]
      rfl
  | cons ch cs ih =>
    simp only [rest16, lines16]
    have e : cur ++ (sfx16 m ++ "\n*       ".toList ++ ch.flatten ++ rest16 (if pad then ['\n', '*'] else []) (m + 1) cs) =
        (cur ++ sfx16 m) ++ '\n' :: (("*       ".toList ++ ch.flatten) ++
          rest16 (if pad then ['\n', '*'] else []) (m + 1) cs) := by
      simp
    rw [e, fileLines_cons_line _ _ (by
      intro c hc
      rcases List.mem_append.1 hc with h | h
      · exact hcur c h
      · exact sfx16_chars m c h)]
    rw [ih ("*       ".toList ++ ch.flatten) (m + 1) (by
      intro c hc
      rcases List.mem_append.1 hc with h | h
      · have key : ∀ c ∈ "*       ".toList, c ≠ '\n' := by decide
        exact key c h
      · obtain ⟨f, hf, hcf⟩ := List.mem_flatten.1 h
        exact hcs ch List.mem_cons_self f hf c hcf) (fun ch' h => hcs ch' (List.mem_cons_of_mem _ h))]


/-! ### large-field cards: the reader on the lines -/

def valsOf (c : List Str) : List NasVal := (dropEnd isBlankField c).map cardVal

theorem cont16_chars : ∀ c ∈ "*       ".toList, c ≠ '\n' ∧ c ≠ ',' ∧ c ≠ '$' := by decide

theorem sfx16_ws_tail (m : Nat) (X : Str) (hfull : sfx16 m ≠ [] → X.length = 72) (hlen : X.length ≤ 72) :
    ∃ w', (X ++ (sfx16 m ++ ['\n'])).take 72 = X ++ w' ∧ (∀ c ∈ w', isWs c = true) ∧ ∀ c ∈ w', c ≠ '$' := by
  by_cases hs : sfx16 m = []
  · rw [hs, List.nil_append]; exact take72_newline X hlen
  · exact take72_full X _ (hfull hs)

theorem lines16_vals (pad : Bool) (c : List Str) (hc : ∀ f ∈ c, FieldOK 16 f) (hclen : c.length ≤ 4)
    (m : Nat) (cs : List (List Str)) (hcs : ∀ ch ∈ cs, ch.length ≤ 4 ∧ ∀ f ∈ ch, FieldOK 16 f)
    (hfull : fullButLast 4 (c :: cs)) :
    (∀ l ∈ lines16 pad ("*       ".toList ++ c.flatten) m cs, isCont ['*'] l = true) ∧
    (lines16 pad ("*       ".toList ++ c.flatten) m cs).map (lineVals 16) =
      (c :: cs).map valsOf ++ (if pad then [[]] else []) := by
  have hXlen : ∀ ch : List Str, (∀ f ∈ ch, FieldOK 16 f) →
      ("*       ".toList ++ ch.flatten).length = 8 + ch.length * 16 := by
    intro ch hch
    have := flatten_length_eq 16 ch (fun f hf => (hch f hf).1)
    simp only [List.length_append, this]; rfl
  induction cs generalizing c m with
  | nil =>
    obtain ⟨w', htake, hw', hw'd⟩ := take72_newline ("*       ".toList ++ c.flatten) (by
      rw [hXlen c hc]; omega)
    have hv := lineVals_layout 16 (by norm_num) "*       ".toList rfl (fun x hx => (cont16_chars x hx).2.2)
      c hc (by omega) ['\n'] w' hw' hw'd htake
    cases pad with
    | false =>
      simp only [lines16, Bool.false_eq_true, if_false, List.map_cons, List.map_nil, List.append_nil]
      refine ⟨?_, by rw [hv]; rfl⟩
      intro l hl; simp at hl; subst hl; rfl
    | true =>
      simp only [lines16, if_true, List.map_cons, List.map_nil]
      refine ⟨?_, ?_⟩
      · intro l hl
        simp only [List.mem_cons, List.not_mem_nil, or_false] at hl
        rcases hl with rfl | rfl <;> rfl
      · rw [hv, lineVals_short 16 ['*', '\n'] (by decide)]; rfl
  | cons c' cs ih =>
    obtain ⟨hc4, hfull'⟩ := hfull
    have hc' := hcs c' List.mem_cons_self
    obtain ⟨h1, h2⟩ := ih c' hc'.2 hc'.1 (m + 1) (fun ch h => hcs ch (List.mem_cons_of_mem _ h)) hfull'
    have hX72 : ("*       ".toList ++ c.flatten).length = 72 := by rw [hXlen c hc, hc4]
    obtain ⟨w', htake, hw', hw'd⟩ := sfx16_ws_tail m ("*       ".toList ++ c.flatten)
      (fun _ => hX72) (by omega)
    have hv := lineVals_layout 16 (by norm_num) "*       ".toList rfl (fun x hx => (cont16_chars x hx).2.2)
      c hc (by omega) (sfx16 m ++ ['\n']) w' hw' hw'd htake
    simp only [lines16, List.map_cons]
    refine ⟨?_, ?_⟩
    · intro l hl
      rcases List.mem_cons.1 hl with rfl | hl
      · rfl
      · exact h1 l hl
    · rw [h2]
      have e : "*       ".toList ++ c.flatten ++ sfx16 m ++ ['\n'] =
          ("*       ".toList ++ c.flatten) ++ (sfx16 m ++ ['\n']) := by simp
      rw [e, hv]
      rfl


theorem glueOK_append_empty (per : Nat) (cs : List (List Str)) (g : Str → NasVal)
    (h : fullButLast per cs) (hlen : ∀ c ∈ cs, c.length ≤ per) :
    GlueOK per (cs.map (List.map g) ++ [[]]) := by
  induction cs with
  | nil => trivial
  | cons c rest ih =>
    cases rest with
    | nil =>
      simp only [List.map_cons, List.map_nil, List.cons_append, List.nil_append, GlueOK, and_true]
      right
      exact ⟨by simpa using hlen c List.mem_cons_self, by simp⟩
    | cons c' rest' =>
      obtain ⟨h1, h2⟩ := h
      have := ih h2 (fun x hx => hlen x (List.mem_cons_of_mem _ hx))
      simp only [List.map_cons, List.cons_append] at this ⊢
      exact ⟨Or.inl (by simpa using h1), this⟩

/-- **`rdcards (wtcard16 fields)`** — large-field cards (16-wide fields, 4 per line, `*`
continuation lines, the `*` in column 73, the final `*` line that makes the line count even), for
either float formatter (`wtcard16`, `wtcard16d`).  One card is found and, up to trailing blank
fields, it is the name followed by the values of the written fields. -/
theorem wtcard16_roundtrip (fmt : Dbl → Str) (name : Str) (toks : List Tok) (keep : Bool)
    (hname : NameOK name) (hstar : name.getLast? = some '*')
    (hf : ∀ t ∈ toks, CardField 16 (enc 16 fmt t)) :
    ∃ text r, wtcard16With fmt name toks = some text ∧ rdcards name keep text = [r] ∧
      dtb r = (if keep then [NasVal.str name] else []) ++
        dtb (toks.map fun t => cardVal (enc 16 fmt t)) := by
  obtain ⟨pad, hpad⟩ : ∃ pad : Bool, pad = (nLines16 toks.length % 2 != 0) := ⟨_, rfl⟩
  obtain ⟨c0, cs, hchunks, hbody⟩ := bodyGen16_first fmt (if pad then ['\n', '*'] else []) toks
  have hlen8 : ¬ name.length > 8 := by have := hname.2.1; omega
  have hstar' : (name.getLast? != some '*') = false := by simp [hstar]
  generalize hfs : toks.map (enc 16 fmt) = fs at hchunks
  have hfsok : ∀ f ∈ fs, CardField 16 f := by
    intro f hf'
    rw [← hfs] at hf'
    obtain ⟨t, ht, rfl⟩ := List.mem_map.1 hf'
    exact hf t ht
  obtain ⟨hflat, hcprops⟩ := chunksAux_props 4 (by norm_num) fs.length fs (le_refl _)
  have hfullc := chunksAux_full 4 fs.length fs
  change (chunks 4 fs).flatten = fs at hflat
  change ∀ c ∈ chunks 4 fs, _ at hcprops
  change fullButLast 4 (chunks 4 fs) at hfullc
  rw [hchunks] at hflat hcprops hfullc
  have hcp : ∀ c ∈ c0 :: cs, c.length ≤ 4 ∧ ∀ f ∈ c, CardField 16 f := by
    intro c hc
    have := hcprops c hc
    exact ⟨this.1, fun f hf' => hfsok f (this.2 f hf')⟩
  have hc0 := hcp c0 List.mem_cons_self
  refine ⟨ljust 8 name ++ c0.flatten ++ rest16 (if pad then ['\n', '*'] else []) 1 cs, ?_⟩
  -- the text
  have htext : wtcard16With fmt name toks =
      some (ljust 8 name ++ c0.flatten ++ rest16 (if pad then ['\n', '*'] else []) 1 cs) := by
    unfold wtcard16With
    simp only [hstar', Bool.false_eq_true, if_false, hlen8, body16_eq]
    rw [← hpad]
    congr 1
    simp only [List.append_assoc]
    rw [hbody]
  -- lines
  have hcur : ∀ c ∈ ljust 8 name ++ c0.flatten, c ≠ '\n' := by
    intro c hc
    rcases List.mem_append.1 hc with h | h
    · exact (ljust_name_chars name hname c h).1
    · obtain ⟨f, hf', hcf⟩ := List.mem_flatten.1 h
      exact field_no_newline 16 f (hc0.2 f hf').1 c hcf
  have hlines := fileLines_rest16 pad (ljust 8 name ++ c0.flatten) 1 cs hcur (by
    intro ch hch f hf' c hc
    exact field_no_newline 16 f ((hcp ch (List.mem_cons_of_mem _ hch)).2 f hf').1 c hc)
  -- first line and tail
  obtain ⟨tail, hl16, hcont, hvals⟩ : ∃ tail, lines16 pad (ljust 8 name ++ c0.flatten) 1 cs =
      (ljust 8 name ++ c0.flatten ++ ['\n']) :: tail ∧ (∀ l ∈ tail, isCont ['*'] l = true) ∧
      tail.map (lineVals 16) = cs.map valsOf ++ (if pad then [[]] else []) := by
    cases cs with
    | nil =>
      cases pad with
      | false => exact ⟨[], rfl, by simp, rfl⟩
      | true =>
        refine ⟨[['*', '\n']], rfl, ?_, ?_⟩
        · intro l hl; simp at hl; subst hl; rfl
        · simp [lineVals_short 16 ['*', '\n'] (by decide)]
    | cons c1 cs' =>
      have hc1 := hcp c1 (by simp)
      obtain ⟨h1, h2⟩ := lines16_vals pad c1 (fun f hf' => (hc1.2 f hf').1) hc1.1 2 cs'
        (fun ch hch => ⟨(hcp ch (by simp [hch])).1, fun f hf' => ((hcp ch (by simp [hch])).2 f hf').1⟩)
        hfullc.2
      refine ⟨_, ?_, h1, h2⟩
      simp [lines16, sfx16]
  rw [hl16] at hlines
  refine ⟨(if keep then [NasVal.str name] else []) ++ glue (if 16 > 8 then 4 else 8)
    ((dropEnd isBlankField c0).map cardVal :: tail.map (lineVals 16)), htext, ?_, ?_⟩
  · apply rdcards_single name keep _ _ _ hlines
    · have e : ljust 8 name ++ c0.flatten ++ ['\n'] =
          name ++ (List.replicate (8 - name.length) ' ' ++ c0.flatten ++ ['\n']) := by simp [ljust]
      rw [e]; exact lower_prefix _ _
    · have hcomma : (ljust 8 name ++ c0.flatten ++ ['\n']).contains ',' = false := by
        rw [List.contains_eq_mem]
        simp only [decide_eq_false_iff_not, List.mem_append, List.mem_singleton]
        rintro ((h | h) | h)
        · exact (ljust_name_chars name hname _ h).2.1 rfl
        · obtain ⟨f, hf', hcf⟩ := List.mem_flatten.1 h
          exact (hc0.2 f hf').2 _ hcf rfl
        · exact absurd h (by decide)
      obtain ⟨w', htake, hw', hw'd⟩ := take72_newline (ljust 8 name ++ c0.flatten) (by
        have h1 : (ljust 8 name).length = 8 := by simp [ljust]; have := hname.2.1; omega
        have h2 := flatten_length_eq 16 c0 (fun f hf' => (hc0.2 f hf').1.1)
        have h3 := hc0.1
        simp only [List.length_append, h1, h2]; omega)
      obtain ⟨j, hj⟩ := name_line_take8 name hname c0.flatten
      have hs1 : rstripWs ((ljust 8 name ++ c0.flatten ++ ['\n']).take 72) =
          rstripWs (ljust 8 name ++ c0.flatten) := by
        rw [htake]; exact rstripBy_append_allp isWs _ w' hw'
      have hstar8 : ((rstripWs ((ljust 8 name ++ c0.flatten ++ ['\n']).take 72)).take 8).contains '*' = true := by
        rw [hs1, hj, List.contains_eq_mem]
        simp only [decide_eq_true_eq, List.mem_append]
        left
        exact List.mem_of_getLast? hstar
      unfold rdOne
      simp only [hcomma, Bool.false_eq_true, if_false, hstar8, if_true]
      rw [rdfixed_card 16 (by norm_num) ['*'] keep name hname c0
        (fun f hf' => (hc0.2 f hf').1) (by have := hc0.1; omega) ['\n'] w' hw' htake _ hcont]
  · -- up to trailing blanks
    rw [hvals]
    have hmapv : ∀ c ∈ c0 :: cs, valsOf c = dtb (c.map cardVal) := by
      intro c hc
      simp only [valsOf, dtb]
      rw [dropEnd_map isBlankField (· == blankV) cardVal c]
      intro f hf'
      exact cardVal_blank_iff 16 _ ((hcp c hc).2 f hf').1
    have hvs : (valsOf c0 :: (cs.map valsOf ++ (if pad then [[]] else []))) =
        (((c0 :: cs).map (List.map cardVal)) ++ (if pad then [[]] else [])).map dtb := by
      rw [List.map_append, List.map_map]
      have e1 : (c0 :: cs).map (dtb ∘ List.map cardVal) = (c0 :: cs).map valsOf :=
        List.map_congr_left (fun c hc => (hmapv c hc).symm)
      rw [e1]
      cases pad <;> simp [dtb, dropEnd]
    have hok : GlueOK 4 (((c0 :: cs).map (List.map cardVal)) ++ (if pad then [[]] else [])) := by
      cases pad with
      | false => simpa using fullButLast_glueOK 4 (c0 :: cs) cardVal hfullc
      | true => exact glueOK_append_empty 4 (c0 :: cs) cardVal hfullc (fun c hc => (hcp c hc).1)
    have hG := glue_dtb 4 _ hok
    have hfl : (((c0 :: cs).map (List.map cardVal)) ++ (if pad then [[]] else [])).flatten =
        toks.map fun t => cardVal (enc 16 fmt t) := by
      rw [List.flatten_append, ← List.map_flatten, hflat, ← hfs, List.map_map]
      cases pad <;> simp [Function.comp_def]
    have h16 : (if 16 > 8 then 4 else 8) = 4 := by norm_num
    have hv0 : (dropEnd isBlankField c0).map cardVal = valsOf c0 := rfl
    rw [h16, hv0, hvs]
    cases keep with
    | false => simp only [Bool.false_eq_true, if_false, List.nil_append]; rw [hG, hfl]
    | true =>
      simp only [if_true, List.singleton_append]
      have hnb : NasVal.str name ≠ blankV := by
        obtain ⟨⟨c0', t, hn, _⟩, _, _⟩ := hname
        intro hc; injection hc with hc; rw [hn] at hc; exact absurd hc (by simp)
      rw [dtb_cons_keep _ _ hnb, hG, hfl]

end PyYetiVerif.NasCards
