import PyYetiVerif.Model.NasFloat
import Mathlib.Tactic.Ring
import Mathlib.Tactic.Linarith
import Mathlib.Data.Rat.Defs
import Mathlib.Algebra.Order.Field.Rat
import Mathlib.Algebra.Order.Field.Basic
import Mathlib.Algebra.Order.AbsoluteValue.Basic
/-! Helper lemmas for C12: digit counts, round-half-even division, strip / justify lengths. -/
set_option linter.unusedSimpArgs false
namespace PyYetiVerif.PyFloat

/-! ### digits -/

theorem natDigits_lt_ten (n : Nat) (h : n < 10) : natDigits n = [digitChar n] := by
  rw [natDigits]; simp [h]

theorem natDigits_ge_ten (n : Nat) (h : ¬ n < 10) :
    natDigits n = natDigits (n / 10) ++ [digitChar (n % 10)] := by
  rw [natDigits]; simp [h]

/-- a natural below `10^(k+1)` has at most `k+1` decimal digits -/
theorem natDigits_length_le : ∀ (k n : Nat), n < 10 ^ (k + 1) → (natDigits n).length ≤ k + 1
  | 0, n, h => by
      have : n < 10 := by simpa using h
      simp [natDigits_lt_ten n this]
  | k + 1, n, h => by
      by_cases h10 : n < 10
      · simp [natDigits_lt_ten n h10]
      · rw [natDigits_ge_ten n h10]
        have : n / 10 < 10 ^ (k + 1) := by
          apply Nat.div_lt_of_lt_mul
          calc n < 10 ^ (k + 1 + 1) := h
            _ = 10 * 10 ^ (k + 1) := by ring
        have ih := natDigits_length_le k (n / 10) this
        simp only [List.length_append, List.length_cons, List.length_nil]
        omega

/-- a natural `≥ 10^k` has at least `k+1` decimal digits -/
theorem natDigits_length_ge : ∀ (k n : Nat), 10 ^ k ≤ n → k + 1 ≤ (natDigits n).length
  | 0, n, _ => by
      by_cases h10 : n < 10
      · simp [natDigits_lt_ten n h10]
      · rw [natDigits_ge_ten n h10]; simp
  | k + 1, n, h => by
      have h10 : ¬ n < 10 := by
        have : 10 ≤ 10 ^ (k + 1) := by
          calc 10 = 10 ^ 1 := by norm_num
            _ ≤ 10 ^ (k + 1) := Nat.pow_le_pow_right (by norm_num) (by omega)
        omega
      rw [natDigits_ge_ten n h10]
      have : 10 ^ k ≤ n / 10 := by
        rw [Nat.le_div_iff_mul_le (by norm_num)]
        calc 10 ^ k * 10 = 10 ^ (k + 1) := by ring
          _ ≤ n := h
      have ih := natDigits_length_ge k (n / 10) this
      simp only [List.length_append, List.length_cons, List.length_nil]
      omega

theorem natDigits_length_pos (n : Nat) : 1 ≤ (natDigits n).length := by
  by_cases h10 : n < 10
  · simp [natDigits_lt_ten n h10]
  · rw [natDigits_ge_ten n h10]; simp

theorem natDigits_zero : natDigits 0 = ['0'] := by
  rw [natDigits_lt_ten 0 (by norm_num)]; rfl

theorem natDigits_one : natDigits 1 = ['1'] := by
  rw [natDigits_lt_ten 1 (by norm_num)]; rfl

@[simp] theorem fracDigits_length (p n : Nat) : (fracDigits p n).length = p := by
  induction p generalizing n with
  | zero => rfl
  | succ p ih => simp [fracDigits, ih]

theorem digitChar_zero : digitChar 0 = '0' := by decide

/-- the fraction digits of a multiple of `10^p` are all zeros -/
theorem fracDigits_of_dvd (p n : Nat) (h : 10 ^ p ∣ n) : fracDigits p n = List.replicate p '0' := by
  induction p generalizing n with
  | zero => rfl
  | succ p ih =>
    obtain ⟨m, rfl⟩ := h
    have h1 : 10 ^ (p + 1) * m % 10 = 0 := by
      have : 10 ^ (p + 1) * m = 10 * (10 ^ p * m) := by ring
      rw [this]; exact Nat.mul_mod_right 10 _
    have h2 : 10 ^ (p + 1) * m / 10 = 10 ^ p * m := by
      have : 10 ^ (p + 1) * m = 10 * (10 ^ p * m) := by ring
      rw [this]; exact Nat.mul_div_cancel_left _ (by norm_num)
    simp only [fracDigits, h1, h2, ih _ (Dvd.intro _ rfl), digitChar_zero]
    exact (List.replicate_succ' ..).symm

/-! ### round-half-even division -/

theorem rheDiv_cases (a b : Nat) : rheDiv a b = a / b ∨ rheDiv a b = a / b + 1 := by
  unfold rheDiv; simp only; split_ifs <;> simp

/-- `a < M * b → rheDiv a b ≤ M` -/
theorem rheDiv_le (a b M : Nat) (h : a < M * b) : rheDiv a b ≤ M := by
  have hb : 0 < b := by
    rcases Nat.eq_zero_or_pos b with hb | hb
    · subst hb; simp at h
    · exact hb
  have hq : a / b < M := (Nat.div_lt_iff_lt_mul hb).2 h
  rcases rheDiv_cases a b with h1 | h1 <;> omega

/-- the rounding error of `rheDiv` is at most half a unit: `|N·b − a| ≤ b/2` -/
theorem rheDiv_err (a b : Nat) (hb : 0 < b) :
    2 * (rheDiv a b * b) ≤ 2 * a + b ∧ 2 * a ≤ 2 * (rheDiv a b * b) + b := by
  have hdm : b * (a / b) + a % b = a := Nat.div_add_mod a b
  have hr : a % b < b := Nat.mod_lt a hb
  unfold rheDiv; simp only
  have e1 : (a / b + 1) * b = b * (a / b) + b := by ring
  have e2 : a / b * b = b * (a / b) := by ring
  split_ifs <;> simp only [e1, e2] <;> omega

/-! ### justify / strip lengths -/

theorem rjust_length_of_le (w : Nat) (s : Str) (h : s.length ≤ w) : (rjust w s).length = w := by
  simp [rjust]; omega

theorem rjust_of_ge (w : Nat) (s : Str) (h : w ≤ s.length) : rjust w s = s := by
  simp [rjust, Nat.sub_eq_zero_of_le h]

theorem lstripBy_length_le (p : Char → Bool) (s : Str) : (lstripBy p s).length ≤ s.length := by
  unfold lstripBy
  exact (List.dropWhile_sublist p).length_le

theorem rstripBy_length_le (p : Char → Bool) (s : Str) : (rstripBy p s).length ≤ s.length := by
  unfold rstripBy
  rw [List.length_reverse]
  calc (List.dropWhile p s.reverse).length ≤ s.reverse.length := (List.dropWhile_sublist p).length_le
    _ = s.length := List.length_reverse

theorem stripBy_length_le (p : Char → Bool) (s : Str) : (stripBy p s).length ≤ s.length := by
  unfold stripBy
  exact le_trans (rstripBy_length_le _ _) (lstripBy_length_le _ _)

theorem lstripBy_replicate_append (p : Char → Bool) (c : Char) (hc : p c = true) (n : Nat) (t : Str) :
    lstripBy p (List.replicate n c ++ t) = lstripBy p t := by
  unfold lstripBy
  induction n with
  | zero => simp
  | succ n ih => simp [List.replicate_succ, hc, ih]

theorem lstripBy_cons_neg (p : Char → Bool) (c : Char) (hc : p c = false) (t : Str) :
    lstripBy p (c :: t) = c :: t := by
  simp [lstripBy, hc]

theorem lstripBy_cons_pos (p : Char → Bool) (c : Char) (hc : p c = true) (t : Str) :
    lstripBy p (c :: t) = lstripBy p t := by
  simp [lstripBy, hc]

/-- stripping on the right a string that ends in `n` strippable characters leaves at most the
part before them -/
theorem rstripBy_append_replicate_length (p : Char → Bool) (c : Char) (hc : p c = true) (n : Nat)
    (u : Str) : (rstripBy p (u ++ List.replicate n c)).length ≤ u.length := by
  unfold rstripBy
  rw [List.length_reverse, List.reverse_append, List.reverse_replicate]
  have := lstripBy_replicate_append p c hc n u.reverse
  unfold lstripBy at this
  rw [this]
  calc (List.dropWhile p u.reverse).length ≤ u.reverse.length := (List.dropWhile_sublist p).length_le
    _ = u.length := List.length_reverse

/-- left strip does not reach past a character that is not strippable -/
theorem lstripBy_append_of_mem (p : Char → Bool) (u v : Str) (h : ∃ x ∈ u, p x = false) :
    lstripBy p (u ++ v) = lstripBy p u ++ v := by
  unfold lstripBy
  induction u with
  | nil => simp at h
  | cons a u ih =>
    by_cases ha : p a = true
    · have : ∃ x ∈ u, p x = false := by
        obtain ⟨x, hx, hpx⟩ := h
        rcases List.mem_cons.1 hx with rfl | hx'
        · simp [ha] at hpx
        · exact ⟨x, hx', hpx⟩
      simp [ha, ih this]
    · simp [ha]

end PyYetiVerif.PyFloat

/-! ### the width of a fixed-notation branch -/
namespace PyYetiVerif.NasFloat
open PyYetiVerif.PyFloat PyYetiVerif.Generated.NasFloat

/-- Side condition on a fixed-notation row `(bound, precision p)` of the `W`-wide table, `neg` = it
belongs to the negative chain.  With `k := W - (σ + 1 + p)` (σ = 1 for the negative chain):
the bound is `10^k` (so the row's values have at most `k` integer digits), the precision is at
least one, `σ + k + 1 + p = W` (the field is full: `p` is the largest precision that fits — below
one the leading zero is stripped, resp. `-0.` becomes `-.`), and the `replace("-0.", "-.")` is
present exactly in the negative row below one. -/
def RowOK (W : Nat) (neg : Bool) (r : Row) : Prop :=
  let σ := if neg then 1 else 0
  let k := W - (σ + 1 + r.prec)
  σ + 1 + r.prec ≤ W ∧ r.den = 1 ∧ r.num = 10 ^ k ∧ 1 ≤ r.prec ∧
    (r.kind = 3 ↔ (neg = true ∧ k = 0)) ∧ (r.kind = 2 ∨ r.kind = 3) ∧ r.lnum = 0

instance (W : Nat) (neg : Bool) (r : Row) : Decidable (RowOK W neg r) := by
  unfold RowOK; infer_instance

def dashZeroDot : Str := ['-', '0', '.']
def dashDot : Str := ['-', '.']

theorem go_no_dash (fuel : Nat) (s : Str) (h : ∀ c ∈ s, c ≠ '-') :
    replace.go dashZeroDot dashDot fuel s = s := by
  induction fuel generalizing s with
  | zero => cases s <;> rfl
  | succ fuel ih =>
    cases s with
    | nil => rfl
    | cons c t =>
      have hc : c ≠ '-' := h c (List.mem_cons_self)
      have ht : ∀ c ∈ t, c ≠ '-' := fun x hx => h x (List.mem_cons_of_mem _ hx)
      have : dashZeroDot.isPrefixOf (c :: t) = false := by
        simp [dashZeroDot, List.isPrefixOf, Ne.symm hc]
      simp [replace.go, this, ih t ht]

theorem go_length_le (fuel : Nat) (s : Str) :
    (replace.go dashZeroDot dashDot fuel s).length ≤ s.length := by
  induction fuel generalizing s with
  | zero => cases s <;> simp [replace.go]
  | succ fuel ih =>
    cases s with
    | nil => simp [replace.go]
    | cons c t =>
      by_cases hp : dashZeroDot.isPrefixOf (c :: t) = true
      · simp only [replace.go, hp, if_true]
        have h3 : 3 ≤ (c :: t).length := by
          have := (List.isPrefixOf_iff_prefix.1 hp).length_le
          simpa [dashZeroDot] using this
        have := ih ((c :: t).drop dashZeroDot.length)
        simp only [List.length_append, List.length_drop, dashZeroDot, dashDot, List.length_cons,
          List.length_nil] at this ⊢
        simp only [List.length_cons] at h3
        omega
      · simp only [replace.go, hp]
        have := ih t
        simp only [List.length_cons, Bool.false_eq_true, if_false]
        omega

theorem replace_length_le (s : Str) : (replace dashZeroDot dashDot s).length ≤ s.length := by
  unfold replace
  simp only [dashZeroDot, List.isEmpty_cons, Bool.false_eq_true, if_false]
  exact go_length_le _ _

theorem fracDigits_no_dash (p n : Nat) : ∀ c ∈ fracDigits p n, c ≠ '-' := by
  induction p generalizing n with
  | zero => simp [fracDigits]
  | succ p ih =>
    intro c hc
    simp only [fracDigits, List.mem_append, List.mem_singleton] at hc
    rcases hc with hc | rfl
    · exact ih _ c hc
    · have : n % 10 < 10 := Nat.mod_lt _ (by norm_num)
      have key : ∀ d, d < 10 → digitChar d ≠ '-' := by decide
      exact key _ this

def isStrip (c : Char) : Bool := [' ', '0'].contains c

theorem finish_length (W : Nat) (f : Str) (h : (stripChars [' ', '0'] f).length ≤ W) :
    (finish W f).length = W := rjust_length_of_le _ _ h

theorem rowBody_length_aux (W : Nat) (c : Sci) (neg : Bool) (r : Row) (σ k p : Nat)
    (hσ : σ = if neg then 1 else 0) (hpdef : p = r.prec) (hWeq : σ + k + 1 + p = W)
    (hd : r.den = 1) (hn : r.num = 10 ^ k) (hp : 1 ≤ p)
    (hk3 : r.kind = 3 ↔ (neg = true ∧ k = 0)) (hkind : r.kind = 2 ∨ r.kind = 3)
    (x : Dbl) (hneg : x.neg = neg) (hx : x.num * r.den < r.num * x.den) :
    (rowBody W c neg r x).length = W := by
  -- the rounded integer N and its integer part I
  obtain ⟨N, hN⟩ : ∃ N, N = rheDiv (x.num * 10 ^ p) x.den := ⟨_, rfl⟩
  have hpow : 0 < 10 ^ p := by positivity
  have hNle : N ≤ 10 ^ (k + p) := by
    rw [hN]
    apply rheDiv_le
    rw [hd, hn] at hx
    calc x.num * 10 ^ p < 10 ^ k * x.den * 10 ^ p := by
          apply Nat.mul_lt_mul_of_pos_right (by simpa using hx) hpow
      _ = 10 ^ (k + p) * x.den := by ring
  obtain ⟨I, hI⟩ : ∃ I, I = N / 10 ^ p := ⟨_, rfl⟩
  have hIle : I ≤ 10 ^ k := by
    rw [hI]
    calc N / 10 ^ p ≤ 10 ^ (k + p) / 10 ^ p := Nat.div_le_div_right hNle
      _ = 10 ^ k := by rw [pow_add]; exact Nat.mul_div_cancel _ hpow
  have hDlen : (natDigits I).length ≤ k + 1 :=
    natDigits_length_le k I (lt_of_le_of_lt hIle (by
      have : 0 < 10 ^ k := by positivity
      calc 10 ^ k < 10 ^ k * 10 := by omega
        _ = 10 ^ (k + 1) := by ring))
  have hD1 : 1 ≤ (natDigits I).length := natDigits_length_pos I
  -- carry: the fraction digits are zeros
  have hcarry : I = 10 ^ k → fracDigits p N = List.replicate p '0' := by
    intro hIk
    apply fracDigits_of_dvd
    have h1 : 10 ^ k * 10 ^ p ≤ N := by
      have := Nat.div_mul_le_self N (10 ^ p)
      rw [← hI, hIk] at this; exact this
    have : N = 10 ^ (k + p) := le_antisymm hNle (by rw [pow_add]; exact h1)
    rw [this, pow_add]; exact Dvd.intro_left _ rfl
  -- no carry and k ≥ 1: at most k integer digits
  have hnocarry : I < 10 ^ k → 1 ≤ k → (natDigits I).length ≤ k := by
    intro hlt hk1
    obtain ⟨k', hk'⟩ : ∃ k', k = k' + 1 := ⟨k - 1, by omega⟩
    rw [hk'] at hlt ⊢
    exact natDigits_length_le k' I hlt
  have hp0 : p ≠ 0 := by omega
  -- the formatted number
  have hfmt : fmtF p x = (if neg then ['-'] else []) ++ natDigits I ++ ('.' :: fracDigits p N) := by
    simp [fmtF, fmtFixedN, hneg, hp0, ← hN, ← hI]
  have hsp : isStrip ' ' = true := by decide
  have hz : isStrip '0' = true := by decide
  have hdot : isStrip '.' = false := by decide
  have hdash : isStrip '-' = false := by decide
  have hstrip : ∀ s, stripChars [' ', '0'] s = rstripBy isStrip (lstripBy isStrip s) := fun _ => rfl
  rcases hkind with hk2 | hk3'
  · -- kind 2: plain fixed notation
    have hbody : rowBody W c neg r x = finish W (rjust W (fmtF p x)) := by
      simp [rowBody, hk2, hpdef]
    rw [hbody]
    apply finish_length
    rw [hstrip, rjust, lstripBy_replicate_append _ _ hsp]
    cases hnegc : neg with
    | true =>
      have hk1 : 1 ≤ k := by
        by_contra hcon
        have : r.kind = 3 := hk3.2 ⟨hnegc, by omega⟩
        omega
      have hσ1 : σ = 1 := by simp [hσ, hnegc]
      rw [hfmt, hnegc]
      simp only [if_true, List.singleton_append, List.cons_append, List.nil_append]
      rw [lstripBy_cons_neg _ _ hdash]
      rcases Nat.lt_or_ge I (10 ^ k) with hlt | hge
      · refine le_trans (rstripBy_length_le _ _) ?_
        have := hnocarry hlt hk1
        simp only [List.length_cons, List.length_append, fracDigits_length]
        omega
      · have hIk : I = 10 ^ k := le_antisymm hIle hge
        rw [hcarry hIk]
        have := rstripBy_append_replicate_length isStrip '0' hz p ('-' :: (natDigits I ++ ['.']))
        simp only [List.cons_append, List.append_assoc, List.singleton_append] at this
        refine le_trans this ?_
        simp
        omega
    | false =>
      have hσ0 : σ = 0 := by simp [hσ, hnegc]
      rw [hfmt, hnegc]
      simp only [Bool.false_eq_true, if_false, List.nil_append]
      rcases Nat.lt_or_ge I (10 ^ k) with hlt | hge
      · rcases Nat.eq_zero_or_pos k with hk0 | hk1
        · -- below one: the leading zero is stripped
          have hI0 : I = 0 := by rw [hk0] at hlt; simpa using hlt
          have hD : natDigits I = ['0'] := by rw [hI0]; exact natDigits_zero
          rw [hD]
          simp only [List.singleton_append]
          rw [lstripBy_cons_pos _ _ hz, lstripBy_cons_neg _ _ hdot]
          refine le_trans (rstripBy_length_le _ _) ?_
          simp only [List.length_cons, fracDigits_length]
          omega
        · refine le_trans (rstripBy_length_le _ _) (le_trans (lstripBy_length_le _ _) ?_)
          have := hnocarry hlt hk1
          simp only [List.length_cons, List.length_append, fracDigits_length]
          omega
      · have hIk : I = 10 ^ k := le_antisymm hIle hge
        rw [hcarry hIk]
        have e : natDigits I ++ '.' :: List.replicate p '0' =
            (natDigits I ++ ['.']) ++ List.replicate p '0' := by simp
        rw [e, lstripBy_append_of_mem _ _ _ ⟨'.', by simp, hdot⟩]
        refine le_trans (rstripBy_append_replicate_length isStrip '0' hz p _) ?_
        refine le_trans (lstripBy_length_le _ _) ?_
        simp only [List.length_append, List.length_cons, List.length_nil]
        omega
  · -- kind 3: negative, below one, with replace("-0.", "-.")
    obtain ⟨hnegc, hk0⟩ := hk3.1 hk3'
    have hσ1 : σ = 1 := by simp [hσ, hnegc]
    have hbody : rowBody W c neg r x =
        finish W (replace dashZeroDot dashDot (rjust W (fmtF p x))) := by
      simp [rowBody, hk3', hpdef, dashZeroDot, dashDot]
    rw [hbody]
    apply finish_length
    have hI1 : I ≤ 1 := by rw [hk0] at hIle; simpa using hIle
    have hlen : W ≤ (fmtF p x).length := by
      rw [hfmt]
      simp only [hnegc, if_true, List.length_append, List.length_cons, List.length_nil,
        fracDigits_length]
      omega
    rw [rjust_of_ge _ _ hlen, hfmt, hnegc]
    simp only [if_true, List.singleton_append, List.cons_append, List.nil_append]
    have hrep : ∀ t, replace dashZeroDot dashDot t = replace.go dashZeroDot dashDot t.length t := by
      intro t; simp [replace, dashZeroDot]
    rcases Nat.lt_or_ge I 1 with hlt | hge
    · have hI0 : I = 0 := by omega
      have hD : natDigits I = ['0'] := by rw [hI0]; exact natDigits_zero
      rw [hD]
      simp only [List.singleton_append, List.cons_append, List.nil_append]
      rw [hrep]
      simp only [List.length_cons, fracDigits_length]
      have hgo : replace.go dashZeroDot dashDot (p + 1 + 1 + 1) ('-' :: '0' :: '.' :: fracDigits p N) =
          '-' :: '.' :: fracDigits p N := by
        have h2 : replace.go dashZeroDot dashDot (p + 1 + 1 + 1) ('-' :: '0' :: '.' :: fracDigits p N) =
            dashDot ++ replace.go dashZeroDot dashDot (p + 1 + 1) (fracDigits p N) := by
          simp [replace.go, dashZeroDot, List.isPrefixOf]
        rw [h2, go_no_dash _ _ (fracDigits_no_dash p N)]; rfl
      rw [hgo]
      refine le_trans (stripBy_length_le _ _) ?_
      simp only [List.length_cons, fracDigits_length]
      omega
    · have hI1' : I = 1 := by omega
      have hD : natDigits I = ['1'] := by rw [hI1']; exact natDigits_one
      have hIk : I = 10 ^ k := by rw [hk0, hI1']; rfl
      rw [hD, hcarry hIk]
      simp only [List.singleton_append, List.cons_append, List.nil_append]
      rw [hrep]
      simp only [List.length_cons, List.length_replicate]
      have hnd : ∀ c ∈ ('1' :: '.' :: List.replicate p '0'), c ≠ '-' := by
        intro c hc
        simp only [List.mem_cons, List.mem_replicate] at hc
        rcases hc with rfl | rfl | ⟨_, rfl⟩ <;> decide
      have hgo : replace.go dashZeroDot dashDot (p + 1 + 1 + 1) ('-' :: '1' :: '.' :: List.replicate p '0') =
          '-' :: '1' :: '.' :: List.replicate p '0' := by
        have h2 : replace.go dashZeroDot dashDot (p + 1 + 1 + 1) ('-' :: '1' :: '.' :: List.replicate p '0') =
            '-' :: replace.go dashZeroDot dashDot (p + 1 + 1) ('1' :: '.' :: List.replicate p '0') := by
          simp [replace.go, dashZeroDot, List.isPrefixOf]
        rw [h2, go_no_dash _ _ hnd]
      rw [hgo, hstrip, lstripBy_cons_neg _ _ hdash]
      have := rstripBy_append_replicate_length isStrip '0' hz p ['-', '1', '.']
      simp only [List.cons_append, List.nil_append] at this
      refine le_trans this ?_
      simp only [List.length_cons, List.length_nil]
      omega

/-- Width of a fixed-notation branch: for a row satisfying the side condition and *every* fraction
`x = ± a / b` below the row's bound, the field produced by the branch has exactly `W`
characters — also when rounding carries into the next decade. -/
theorem rowBody_length (W : Nat) (c : Sci) (neg : Bool) (r : Row) (hr : RowOK W neg r)
    (x : Dbl) (hneg : x.neg = neg) (hx : x.num * r.den < r.num * x.den) :
    (rowBody W c neg r x).length = W := by
  simp only [RowOK] at hr
  obtain ⟨hW, hd, hn, hp, hk3, hkind, _⟩ := hr
  exact rowBody_length_aux W c neg r (if neg then 1 else 0)
    (W - ((if neg then 1 else 0) + 1 + r.prec)) r.prec rfl rfl (by omega) hd hn hp hk3 hkind x hneg hx


/-! ### table-level side conditions (decidable; discharged by `decide` on the generated tables) -/

def isFixed (r : Row) : Bool := r.kind == 2 || r.kind == 3

/-- consecutive branches: bounds strictly increase (no empty or overlapping branch); every
fixed-notation row starts exactly one decade below its bound (its lower limit is the previous
bound = bound / 10), except the row below one, which starts at the small-magnitude cut-off. -/
def decadesOK : List Row → Bool
  | r1 :: r2 :: rest =>
    (r1.num * r2.den < r2.num * r1.den) &&
    (if isFixed r2 then
        (r1.num * r2.den * 10 == r2.num * r1.den) || (r2.num == r2.den && r1.num < r1.den)
      else true) &&
    decadesOK (r2 :: rest)
  | _ => true

/-- the last fixed-notation row (`[-]ddddddd.d` with bound `B`) is followed by the final
branches: integers `[-]dddddddd.` up to the carry guard `10·B − ½` (the largest magnitude that
does not round to one digit too many) and scientific notation from there on. `guard r` extracts
the guard value of the row that follows the last fixed row. -/
def guardOK (neg : Bool) : List Row → Bool
  | r1 :: r2 :: rest =>
    if isFixed r1 && !isFixed r2 then
      (r1.den == 1) && r2.kind == 0 && rest.isEmpty &&
      (if neg then !r2.strict && r2.lnum == 0 && (r2.den == 2 && r2.num + 1 == 20 * r1.num)
       else r2.strict && (r2.lden == 2 && r2.lnum + 1 == 20 * r1.num) && r2.den == 1 && r2.num == 10 * r1.num)
    else guardOK neg (r2 :: rest)
  | _ => false

def TableOK (W : Nat) (pos neg : List Row) (posLast negLast : Nat × Nat) : Prop :=
  (∀ r ∈ pos, isFixed r = true → RowOK W false r) ∧
  (∀ r ∈ neg, isFixed r = true → RowOK W true r) ∧
  (∀ r ∈ pos ++ neg, r.kind ≤ 3 ∧ (isFixed r = false → r.kind = 0 ∨ r.kind = 1)) ∧
  decadesOK pos = true ∧ decadesOK neg = true ∧
  guardOK false pos = true ∧ guardOK true neg = true ∧
  posLast = (1, 1) ∧ negLast = (1, W - 1)

instance (W : Nat) (pos neg : List Row) (a b : Nat × Nat) : Decidable (TableOK W pos neg a b) := by
  unfold TableOK; infer_instance

/-- `2a < (2M − 1)·b → rheDiv a b < M`: below the carry guard `M − ½` rounding stays below `M` -/
theorem rheDiv_lt_of_lt_half (a b M : Nat) (hM : 1 ≤ M) (h : 2 * a < (2 * M - 1) * b) :
    rheDiv a b < M := by
  have hb : 0 < b := by
    rcases Nat.eq_zero_or_pos b with hb | hb
    · subst hb; simp at h
    · exact hb
  have hdm : b * (a / b) + a % b = a := Nat.div_add_mod a b
  have hr : a % b < b := Nat.mod_lt a hb
  obtain ⟨M', rfl⟩ : ∃ M', M = M' + 1 := ⟨M - 1, by omega⟩
  have e0 : (2 * (M' + 1) - 1) * b = 2 * (M' * b) + b := by
    have : 2 * (M' + 1) - 1 = 2 * M' + 1 := by omega
    rw [this]; ring
  rw [e0] at h
  have hq : a / b ≤ M' := by
    by_contra hcon
    have h1 : M' + 1 ≤ a / b := by omega
    have h2 : b * (M' + 1) ≤ b * (a / b) := Nat.mul_le_mul_left _ h1
    have e1 : b * (M' + 1) = M' * b + b := by ring
    omega
  rcases Nat.lt_or_ge (a / b) M' with hlt | hge
  · rcases rheDiv_cases a b with h1 | h1 <;> omega
  · have hqe : a / b = M' := by omega
    have e1 : b * (a / b) = M' * b := by rw [hqe]; ring
    have h2r : 2 * (a % b) < b := by omega
    have : rheDiv a b = a / b := by
      unfold rheDiv; simp [h2r]
    omega

/-! ### rationals -/

/-- the fraction `± num/den` (lowest terms) of a rational -/
def ofRat (x : ℚ) : Dbl := ⟨decide (x < 0), x.num.natAbs, x.den⟩

theorem rat_bound (x : ℚ) (B : ℕ) (hx : |x| < (B : ℚ)) : x.num.natAbs * 1 < B * x.den := by
  have hden : (0 : ℚ) < x.den := by exact_mod_cast x.den_pos
  have h1 : |x| = (x.num.natAbs : ℚ) / x.den := by
    conv_lhs => rw [← Rat.num_div_den x]
    rw [abs_div, abs_of_pos hden]
    congr 1
    rw [Nat.cast_natAbs, Int.cast_abs]
  rw [h1, div_lt_iff₀ hden] at hx
  have : ((x.num.natAbs * 1 : ℕ) : ℚ) < ((B * x.den : ℕ) : ℚ) := by push_cast; simpa using hx
  exact_mod_cast this

end PyYetiVerif.NasFloat
