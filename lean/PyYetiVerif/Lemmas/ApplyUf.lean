import PyYetiVerif.Model.ApplyUf
import Mathlib.Algebra.Field.Basic
import Mathlib.Tactic.Ring
import Mathlib.Tactic.FieldSimp
/-! Helper lemmas for C16 (`apply_uf` cache). -/
namespace PyYetiVerif.ApplyUf

section
variable {α : Type} [Add α] [Mul α] [Neg α] [Div α] [OfNat α 0]

/-- the only states the `save` dictionary can be in when every call is made with the same
modal data: empty, or holding exactly what `_pre_calcs` computes from that data -/
def SaveOk (modes : List (Mode α)) (sol : Sol α) (save : Option (List (List (Pre α)))) : Prop :=
  save = none ∨ save = some (preAll modes sol)

theorem applyUf_fst (modes : List (Mode α)) (sol : Sol α) (uf : Uf α)
    (save : Option (List (List (Pre α)))) (h : SaveOk modes sol save) :
    (applyUf save modes sol uf).1 = (applyUf none modes sol uf).1 := by
  unfold applyUf
  by_cases hrb : allRb modes = true
  · simp [hrb]
  · simp only [hrb, Bool.false_eq_true, if_false]
    rcases h with h | h <;> simp [h]

theorem applyUf_snd (modes : List (Mode α)) (sol : Sol α) (uf : Uf α)
    (save : Option (List (List (Pre α)))) (h : SaveOk modes sol save) :
    SaveOk modes sol (applyUf save modes sol uf).2 := by
  unfold applyUf
  by_cases hrb : allRb modes = true
  · simpa [hrb] using h
  · simp only [hrb, Bool.false_eq_true, if_false]
    rcases h with h | h <;> simp [h, SaveOk]

theorem applyUfSeq_eq (modes : List (Mode α)) (sol : Sol α) (ufs : List (Uf α))
    (save : Option (List (List (Pre α)))) (h : SaveOk modes sol save) :
    applyUfSeq save modes sol ufs = ufs.map fun uf => (applyUf none modes sol uf).1 := by
  induction ufs generalizing save with
  | nil => rfl
  | cons uf ufs ih =>
    simp only [applyUfSeq, List.map_cons]
    rw [applyUf_fst modes sol uf save h, ih _ (applyUf_snd modes sol uf save h)]

end
end PyYetiVerif.ApplyUf
