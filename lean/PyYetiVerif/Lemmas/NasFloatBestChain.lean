import PyYetiVerif.Lemmas.NasFloatBest
/-! C12: "best precision" over the dispatch, where it is clean: whenever the if-chain of
`format_floatW` lands in a fixed-notation branch or in a final integer branch, the emitted field is
a nearest `W`-character field of the grammar (`formatFloat_best`). -/
set_option linter.unusedSimpArgs false
set_option linter.unusedVariables false
namespace PyYetiVerif.NasFloat
open PyYetiVerif.PyFloat PyYetiVerif.Generated.NasFloat

/-- the emitted field is a nearest field: no well-formed field of at most `W` characters is closer -/
def BestAll (W : Nat) (x : Dbl) (y : Str) : Prop :=
  ∃ f : Fld, f.wf = true ∧ y = rjust W f.text ∧
    ∀ g : Fld, g.wf = true → g.text.length ≤ W → |decRat f.dec - dblRat x| ≤ |decRat g.dec - dblRat x|

/-- kind of the branch the chain takes: the kind (`0..3`) of the first row whose test passes, `4`
for the final `else` -/
def chainKind (neg : Bool) : List Row → Dbl → Nat
  | [], _ => 4
  | r :: rs, x => if rowTest neg r x then (if r.kind ≤ 3 then r.kind else 0) else chainKind neg rs x

/-- the lower bound known when the final `else` is reached -/
def finalLo : Option Dbl → List Row → Option Dbl
  | lo, [] => lo
  | lo, r :: rs => finalLo (nextLo lo r) rs

/-- number of integer digits of a fixed-notation row -/
def rowK (W : Nat) (neg : Bool) (r : Row) : Nat := W - ((if neg then 1 else 0) + 1 + r.prec)

/-- `10^b ≤ l` for the decade exponent `b` of a row with `k` integer digits (`-3` for `k = 0`) -/
def loOK (k : Nat) (l : Dbl) : Bool :=
  decide (0 < l.den) && (if k = 0 then decide (l.den ≤ l.num * 10 ^ 3) else decide (10 ^ (k - 1) * l.den ≤ l.num))

/-- decidable side condition: the lower bound a fixed-notation row inherits is its decade -/
def bestStepOK (W : Nat) (neg : Bool) (lo : Option Dbl) (r : Row) : Bool :=
  if r.kind = 2 ∨ r.kind = 3 then
    match lo with
    | some l => loOK (rowK W neg r) l
    | none => false
  else true

def bestChainOK (W : Nat) (neg : Bool) : Option Dbl → List Row → Bool
  | _, [] => true
  | lo, r :: rs => bestStepOK W neg lo r && bestChainOK W neg (nextLo lo r) rs

theorem lo_rat (k : Nat) (l x : Dbl) (hl : loOK k l = true) (hd : 0 < x.den) (h : mge x l) :
    (10 : ℚ) ^ (if k = 0 then (-3 : ℤ) else (k : ℤ) - 1) ≤ (x.num : ℚ) / x.den := by
  unfold loOK at hl
  simp only [Bool.and_eq_true, decide_eq_true_eq] at hl
  obtain ⟨hlden, hk⟩ := hl
  have hdq : (0 : ℚ) < x.den := by exact_mod_cast hd
  have hlq : (0 : ℚ) < l.den := by exact_mod_cast hlden
  have hx : (l.num : ℚ) / l.den ≤ (x.num : ℚ) / x.den := by
    rw [div_le_div_iff₀ hlq hdq]
    unfold mge at h
    exact_mod_cast h
  refine le_trans ?_ hx
  rw [le_div_iff₀ hlq]
  by_cases hk0 : k = 0
  · simp only [hk0, if_true, decide_eq_true_eq] at hk ⊢
    have key : (10 : ℚ) ^ (-3 : ℤ) = 1 / 1000 := by norm_num
    rw [key]
    have : ((l.den : ℕ) : ℚ) ≤ ((l.num * 10 ^ 3 : ℕ) : ℚ) := by exact_mod_cast hk
    push_cast at this; linarith
  · simp only [hk0, if_false, decide_eq_true_eq] at hk ⊢
    have e : ((k : ℤ) - 1) = ((k - 1 : ℕ) : ℤ) := by omega
    rw [e, zpow_natCast]
    exact_mod_cast hk

/-- **one fixed-notation row is best** -/
theorem stepB (W : Nat) (c : Sci) (neg : Bool) (hW5 : 5 ≤ W) (lo : Option Dbl) (r : Row)
    (hok : stepOK W neg lo r = true) (hbok : bestStepOK W neg lo r = true)
    (x : Dbl) (hx : x.neg = neg) (hn : 0 < x.num) (hd : 0 < x.den)
    (hlow : ∀ l, lo = some l → mge x l) (hk : r.kind = 2 ∨ r.kind = 3) :
    BestAll W x (rowBody W c neg r x) := by
  unfold stepOK at hok
  simp only [Bool.and_eq_true, Bool.not_eq_true', decide_eq_true_eq] at hok
  obtain ⟨⟨hbneg, hbden⟩, hkind⟩ := hok
  have hk2 : ∃ k', r.kind = k' + 2 := by rcases hk with h | h <;> exact ⟨_, h⟩
  obtain ⟨k', hk'⟩ := hk2
  rw [hk'] at hkind
  simp only [Bool.and_eq_true, beq_iff_eq, decide_eq_true_eq] at hkind
  obtain ⟨⟨⟨⟨⟨hl0, hs⟩, hrow⟩, hex⟩, hrden⟩, hlo'⟩ := hkind
  unfold bestStepOK at hbok
  simp only [hk, if_true] at hbok
  cases hloeq : lo with
  | none => rw [hloeq] at hbok; exact absurd hbok (by simp)
  | some l =>
    rw [hloeq] at hbok hlo'
    simp only [Bool.and_eq_true, decide_eq_true_eq] at hlo'
    obtain ⟨hlden, hlp⟩ := hlo'
    have hge := hlow l hloeq
    have hxlo : x.den ≤ x.num * 10 ^ r.prec := mge_pow x l r.prec hlden hge hlp
    have hrow' := hrow
    simp only [RowOK] at hrow'
    obtain ⟨hfit, _, _, hp, hk3, hkind', _⟩ := hrow'
    have hkind'' : r.kind = 2 ∨ (r.kind = 3 ∧ neg = true) := by
      rcases hkind' with h | h
      · exact Or.inl h
      · exact Or.inr ⟨h, (hk3.1 h).1⟩
    have hshape := rowBody_shape W c neg r hp hkind'' x hx
    have hN : 0 < rheDiv (x.num * 10 ^ r.prec) x.den := rheDiv_ge _ _ 1 hd (by simpa using hxlo)
    refine ⟨_, fixedFld_wf _ _ _ _ hN, hshape, ?_⟩
    intro g hwf hlen
    have hlor := lo_rat (rowK W neg r) l x hbok hd hge
    unfold rowK at hlor
    exact fixed_best W r.prec (W - ((if neg then 1 else 0) + 1 + r.prec)) neg _ (by
        cases neg <;> simp at hfit ⊢ <;> omega) (by
        intro h0
        cases neg <;> simp at hfit h0 ⊢ <;> omega) x hd hx hlor g hwf hlen

/-- **the chain**: when the branch taken is a fixed-notation row, the result is a nearest field;
when the final `else` is reached, the lower bound collected is handed on -/
theorem chainB (W : Nat) (c : Sci) (neg : Bool) (hW5 : 5 ≤ W) (last : Dbl → Str)
    (rows : List Row) (lo : Option Dbl) (hok : chainOK W neg lo rows = true)
    (hbok : bestChainOK W neg lo rows = true)
    (x : Dbl) (hx : x.neg = neg) (hn : 0 < x.num) (hd : 0 < x.den)
    (hlow : ∀ l, lo = some l → mge x l)
    (hlast : (∀ r ∈ rows, rowTest neg r x = false) → (∀ l, finalLo lo rows = some l → mge x l) →
      BestAll W x (last x)) :
    (chainKind neg rows x = 2 ∨ chainKind neg rows x = 3 ∨ chainKind neg rows x = 4) →
      BestAll W x (chain W c neg last rows x) := by
  induction rows generalizing lo with
  | nil =>
    intro _
    exact hlast (by simp) (by simpa [finalLo] using hlow)
  | cons r rs ih =>
    simp only [chainOK, Bool.and_eq_true] at hok
    obtain ⟨hstep, hrest⟩ := hok
    simp only [bestChainOK, Bool.and_eq_true] at hbok
    obtain ⟨hbstep, hbrest⟩ := hbok
    unfold chain chainKind
    by_cases htest : rowTest neg r x = true
    · simp only [htest, if_true]
      intro hk
      have hk' : r.kind = 2 ∨ r.kind = 3 := by
        by_cases h3 : r.kind ≤ 3
        · simp only [h3, if_true] at hk
          rcases hk with h | h | h
          · exact Or.inl h
          · exact Or.inr h
          · omega
        · simp only [h3, if_false] at hk
          omega
      exact stepB W c neg hW5 lo r hstep hbstep x hx hn hd hlow hk'
    · have hfalse : rowTest neg r x = false := by simpa using htest
      simp only [hfalse, Bool.false_eq_true, if_false]
      apply ih (nextLo lo r) hrest hbrest
      · intro l hl
        unfold nextLo at hl
        by_cases hcond : (r.lnum == 0 && r.strict) = true
        · simp only [hcond, if_true, Option.some.injEq] at hl
          subst hl
          simp only [Bool.and_eq_true, beq_iff_eq] at hcond
          have hbneg : (rowB r).neg = false := by
            unfold stepOK at hstep
            simp only [Bool.and_eq_true, Bool.not_eq_true'] at hstep
            exact hstep.1.1
          rw [rowTest_strict neg r x hx hcond.1 hcond.2 hbneg] at hfalse
          exact (not_mlt_iff x (rowB r)).1 (by simpa using hfalse)
        · simp only [hcond, Bool.false_eq_true, if_false] at hl
          exact hlow l hl
      · intro hall hfl
        apply hlast
        · intro r' hr'
          rcases List.mem_cons.1 hr' with rfl | h
          · exact hfalse
          · exact hall r' h
        · simpa [finalLo] using hfl

theorem chainKind_all_false (neg : Bool) (rows : List Row) (x : Dbl)
    (h : ∀ r ∈ rows, rowTest neg r x = false) : chainKind neg rows x = 4 := by
  induction rows with
  | nil => rfl
  | cons r rs ih =>
    simp only [chainKind, h r List.mem_cons_self, Bool.false_eq_true, if_false]
    exact ih (fun r' hr' => h r' (List.mem_cons_of_mem _ hr'))

/-- final `else` of the positive chain below `10^(W-1)`: the integer `dddddddd.` is a nearest field -/
theorem lastB_pos (W : Nat) (c : Sci) (hW : 3 ≤ W) (rows : List Row)
    (hok : lastOKpos W rows = true) (x : Dbl) (hx : x.neg = false) (hd : 0 < x.den)
    (hall : ∀ r ∈ rows, rowTest false r x = false) (hsmall : x.num < 10 ^ (W - 1) * x.den)
    (hlo : (10 : ℚ) ^ (((W - 1 : ℕ) : ℤ) - 1) ≤ (x.num : ℚ) / x.den) :
    BestAll W x (lastPos W c (1, 1) x) := by
  unfold lastOKpos at hok
  cases hg : rows.getLast? with
  | none => rw [hg] at hok; exact absurd hok (by simp)
  | some g =>
    rw [hg] at hok
    simp only [Bool.and_eq_true, beq_iff_eq, bne_iff_ne, ne_eq, Bool.not_eq_true', decide_eq_true_eq] at hok
    obtain ⟨⟨⟨⟨⟨⟨⟨⟨hk, hl⟩, hs⟩, hloneg⟩, hhineg⟩, hloden⟩, hhiden⟩, hloeq⟩, hhieq⟩ := hok
    have hfail := hall g (List.mem_of_getLast? hg)
    unfold rowTest at hfail
    have hl' : (g.lnum == 0) = false := by simpa using hl
    simp only [Bool.false_eq_true, if_false, hl', hs, if_true] at hfail
    have hhineg' : (litDbl g.num g.den).neg = false := hhineg
    rw [le_pos _ x hx hloneg, lt_pos x (litDbl g.num g.den) hx hhineg'] at hfail
    simp only [Bool.and_eq_false_iff, decide_eq_false_iff_not] at hfail
    have hbelow : mlt x (litDbl g.lnum g.lden) := by
      rcases hfail with h | h
      · unfold mlt mge at *; omega
      · -- at or beyond `10^(W-1)`: excluded by `hsmall`
        exfalso
        have hge : mge x (rowB g) := (not_mlt_iff x (rowB g)).1 h
        unfold mge at hge
        rw [hhieq] at hge
        have : 10 ^ (W - 1) * x.den * (rowB g).den ≤ x.num * (rowB g).den := by
          calc 10 ^ (W - 1) * x.den * (rowB g).den = 10 ^ (W - 1) * (rowB g).den * x.den := by ring
            _ ≤ x.num * (rowB g).den := hge
        have := Nat.le_of_mul_le_mul_right this hhiden
        omega
    have hg2 : 2 * x.num < (2 * 10 ^ (W - 1) - 1) * x.den := by
      unfold mlt at hbelow
      have h1 : 2 * x.num * (litDbl g.lnum g.lden).den < (litDbl g.lnum g.lden).num * 2 * x.den := by
        nlinarith
      rw [hloeq] at h1
      have h2 : (2 * 10 ^ (W - 1) - 1) * (litDbl g.lnum g.lden).den * x.den =
          (2 * 10 ^ (W - 1) - 1) * x.den * (litDbl g.lnum g.lden).den := by ring
      rw [h2] at h1
      exact Nat.lt_of_mul_lt_mul_right h1
    obtain ⟨fp, hfp, hshape, _⟩ := lastPos_shape W c (by omega) x hx hd hg2
    refine ⟨_, intFld_wf false _ fp hfp, hshape, fun g' hwf hlen => ?_⟩
    exact int_best W (W - 1) false (by simp; omega) (by omega) x hd hx hlo fp hfp g' hwf hlen

/-- final `else` of the negative chain: the integer `-ddddddd.` is a nearest field -/
theorem lastB_neg (W : Nat) (c : Sci) (hW : 4 ≤ W) (rows : List Row)
    (hok : lastOKneg W rows = true) (x : Dbl) (hx : x.neg = true) (hd : 0 < x.den)
    (hall : ∀ r ∈ rows, rowTest true r x = false)
    (hlo : (10 : ℚ) ^ (((W - 2 : ℕ) : ℤ) - 1) ≤ (x.num : ℚ) / x.den) :
    BestAll W x (lastNeg W c (1, W - 1) x) := by
  unfold lastOKneg at hok
  cases hg : rows.getLast? with
  | none => rw [hg] at hok; exact absurd hok (by simp)
  | some g =>
    rw [hg] at hok
    simp only [Bool.and_eq_true, beq_iff_eq, Bool.not_eq_true', decide_eq_true_eq] at hok
    obtain ⟨⟨⟨⟨hk, hs⟩, hbneg⟩, hbden⟩, hbeq⟩ := hok
    have hfail := hall g (List.mem_of_getLast? hg)
    unfold rowTest at hfail
    simp only [if_true, hs, Bool.false_eq_true, if_false] at hfail
    rw [le_neg x (litDbl g.num g.den) hx] at hfail
    have hlt : mlt x (rowB g) := by
      have : ¬ mge x (litDbl g.num g.den) := by simpa using hfail
      unfold mlt mge rowB at *; omega
    have hg2 : 2 * x.num < (2 * 10 ^ (W - 2) - 1) * x.den := by
      unfold mlt at hlt
      have h1 : 2 * x.num * (rowB g).den < (rowB g).num * 2 * x.den := by nlinarith
      rw [hbeq] at h1
      have h2 : (2 * 10 ^ (W - 2) - 1) * (rowB g).den * x.den =
          (2 * 10 ^ (W - 2) - 1) * x.den * (rowB g).den := by ring
      rw [h2] at h1
      exact Nat.lt_of_mul_lt_mul_right h1
    obtain ⟨hshape, _⟩ := lastNeg_shape W c (by omega) x hx hd hg2
    have hrabs : (roundInt x).natAbs = rheDiv x.num x.den := by
      unfold roundInt; simp [hx]
    have hge1 : 1 ≤ rheDiv x.num x.den := by
      apply rheDiv_ge _ _ 1 hd
      have h1 : (1 : ℚ) ≤ (10 : ℚ) ^ (((W - 2 : ℕ) : ℤ) - 1) := by
        apply one_le_zpow₀ (by norm_num)
        have : 2 ≤ W - 2 := by omega
        have : (2 : ℤ) ≤ ((W - 2 : ℕ) : ℤ) := by exact_mod_cast this
        omega
      have h2 : (1 : ℚ) ≤ (x.num : ℚ) / x.den := le_trans h1 hlo
      have hdq : (0 : ℚ) < x.den := by exact_mod_cast hd
      rw [le_div_iff₀ hdq] at h2
      have : ((1 * x.den : ℕ) : ℚ) ≤ (x.num : ℚ) := by push_cast; linarith
      exact_mod_cast this
    have hlt0 : roundInt x < 0 := by
      unfold roundInt; simp [hx]; omega
    have hdec : decide (roundInt x < 0) = true := by simpa using hlt0
    rw [hdec, hrabs] at hshape
    refine ⟨_, intFld_wf true _ [] (Or.inl rfl), hshape, fun g' hwf hlen => ?_⟩
    exact int_best W (W - 2) true (by simp; omega) (by omega) x hd hx hlo [] (Or.inl rfl) g' hwf hlen

/-- decidable side conditions for the final integer branches: the lower bound that reaches the
final `else` is `10^(W-2)` (positive chain) resp. `10^(W-3)` (negative chain) -/
def bestLastOK (W : Nat) (pos neg : List Row) : Bool :=
  (match finalLo none pos with
   | some l => loOK (W - 1) l
   | none => false) &&
  (match finalLo none neg with
   | some l => loOK (W - 2) l
   | none => false)

/-- everything `decide` has to check for the best-precision statement over the dispatch -/
def BestOK (W : Nat) (pos neg : List Row) : Prop :=
  bestChainOK W false none pos = true ∧ bestChainOK W true none neg = true ∧ bestLastOK W pos neg = true

instance (W : Nat) (pos neg : List Row) : Decidable (BestOK W pos neg) := by
  unfold BestOK; infer_instance

/-- kind of the branch `format_floatW` takes for a non-zero `x`: `2`, `3` fixed notation, `4` the
final `else`, `0` scientific, `1` mixed -/
def branchKind (pos neg : List Row) (x : Dbl) : Nat :=
  if geZero x then chainKind false pos x else chainKind true neg x

/-- **best precision over the dispatch.**  For every non-zero fraction: if `format_floatW` takes
a fixed-notation branch — or its final `else` below `10^(W-1)` (the integers `dddddddd.` /
`-ddddddd.`) — the field it returns is a nearest field: no well-formed field of the grammar of at
most `W` characters, of either sign, in any notation, denotes a decimal closer to `x`. -/
theorem formatFloat_best (W : Nat) (c : Sci) (pos neg : List Row) (posLast negLast : Nat × Nat)
    (hW5 : 5 ≤ W) (hok : FormatOK W pos neg posLast negLast) (hbest : BestOK W pos neg)
    (x : Dbl) (hn : 0 < x.num) (hd : 0 < x.den)
    (hk : branchKind pos neg x = 2 ∨ branchKind pos neg x = 3 ∨
      (branchKind pos neg x = 4 ∧ (x.neg = false → x.num < 10 ^ (W - 1) * x.den))) :
    BestAll W x (if geZero x then chain W c false (lastPos W c posLast) pos x
                 else chain W c true (lastNeg W c negLast) neg x) := by
  obtain ⟨hcp, hlp, hfp, hcn, hln, hpl, hnl⟩ := hok
  obtain ⟨hbp, hbn, hbl⟩ := hbest
  subst hpl hnl
  unfold bestLastOK at hbl
  simp only [Bool.and_eq_true] at hbl
  have hz : x.isZero = false := by
    have : x.num ≠ 0 := by omega
    simp [Dbl.isZero, this]
  cases hxn : x.neg with
  | false =>
    have hge : geZero x = true := by simp [geZero, hxn]
    simp only [branchKind, hge, if_true] at hk ⊢
    apply chainB W c false hW5 _ pos none hcp hbp x hxn hn hd (by simp) ?_
      (by rcases hk with h | h | h
          · exact Or.inl h
          · exact Or.inr (Or.inl h)
          · exact Or.inr (Or.inr h.1))
    intro hall hfl
    have hk4 := chainKind_all_false false pos x hall
    have hsmall : x.num < 10 ^ (W - 1) * x.den := by
      rcases hk with h | h | h
      · omega
      · omega
      · exact h.2 hxn
    cases hfin : finalLo none pos with
    | none => rw [hfin] at hbl; exact absurd hbl.1 (by simp)
    | some l =>
      rw [hfin] at hbl
      have hlo := lo_rat (W - 1) l x hbl.1 hd (hfl l hfin)
      have hW1 : W - 1 ≠ 0 := by omega
      simp only [hW1, if_false] at hlo
      exact lastB_pos W c (by omega) pos hlp x hxn hd hall hsmall hlo
  | true =>
    have hge : geZero x = false := by simp [geZero, hxn, hz]
    simp only [branchKind, hge, Bool.false_eq_true, if_false] at hk ⊢
    apply chainB W c true hW5 _ neg none hcn hbn x hxn hn hd (by simp) ?_
      (by rcases hk with h | h | h
          · exact Or.inl h
          · exact Or.inr (Or.inl h)
          · exact Or.inr (Or.inr h.1))
    intro hall hfl
    cases hfin : finalLo none neg with
    | none => rw [hfin] at hbl; exact absurd hbl.2 (by simp)
    | some l =>
      rw [hfin] at hbl
      have hlo := lo_rat (W - 2) l x hbl.2 hd (hfl l hfin)
      have hW2 : W - 2 ≠ 0 := by omega
      simp only [hW2, if_false] at hlo
      exact lastB_neg W c (by omega) neg hln x hxn hd hall hlo

end PyYetiVerif.NasFloat
