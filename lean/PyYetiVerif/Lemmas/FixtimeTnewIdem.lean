import PyYetiVerif.Lemmas.FixtimeTnewTotal
/-! Helper lemmas for C19: the time base of an already-uniform record is the record's own time
vector (`_mk_initial_tnew` applied to a grid returns the grid, shift `0`). -/
namespace PyYetiVerif.Fixtime

theorem ssLeft_between {a : List ℚ} (hs : a.Pairwise (· ≤ ·)) (k : Nat) (hk : k < a.length) (v : ℚ)
    (h1 : a[k] < v) (h2 : ∀ (h : k + 1 < a.length), v ≤ a[k + 1]) : ssLeft a v = k + 1 := by
  have hle := ssLeft_le_length a v
  apply le_antisymm
  · by_contra hlt
    have hlt : k + 1 < ssLeft a v := not_le.mp hlt
    have hk1 : k + 1 < a.length := by omega
    have := lt_of_lt_ssLeft a v (k + 1) hk1 hlt
    exact absurd (h2 hk1) (not_le.mpr this)
  · by_contra hlt
    have hlt : ssLeft a v ≤ k := by omega
    have := le_of_ssLeft_le a v hs k hk hlt
    exact absurd h1 (not_lt.mpr this)

theorem sumQ_zipWith_sub_self_aux : ∀ (l : List ℚ) (c : ℚ),
    (List.zipWith (· - ·) l l).foldl (· + ·) c = c
  | [], c => rfl
  | x :: r, c => by
      simp only [List.zipWith_cons_cons, List.foldl_cons, sub_self, add_zero]
      exact sumQ_zipWith_sub_self_aux r c

theorem sumQ_zipWith_sub_self (l : List ℚ) : sumQ (List.zipWith (· - ·) l l) = 0 :=
  sumQ_zipWith_sub_self_aux l 0

/-- aligning a uniform vector with itself: the shift is `0` -/
theorem alignShift_self (G : List ℚ) (dt : ℚ) (hdt : 0 < dt) (hs : G.Pairwise (· ≤ ·))
    (hstep : ∀ (k : Nat) (h : k + 1 < G.length), G[k + 1] = G[k] + dt)
    (tp : List Nat) (hinc : tp.Pairwise (· < ·)) (hin : ∀ i ∈ tp, i < G.length)
    (delt : ℚ) (mm : Bool) (h : alignShift G G tp dt = some (delt, mm)) : delt = 0 ∧ mm = false := by
  have hprev : ∀ (k : Nat) (hk : k < G.length), prevIndex G (G[k] + dt / 2) = k := by
    intro k hk
    unfold prevIndex
    rw [ssLeft_between hs k hk _ (by linarith) (fun h => by rw [hstep k h]; linarith)]
    omega
  unfold alignShift at h
  split at h
  · exact absurd h (by simp)
  · rename_i j hj
    split at h
    · rename_i a b ha hb
      have hja : j < tp.length := by
        by_contra hc; rw [List.getElem?_eq_none (by omega)] at ha; cases ha
      have hjb : j + 1 < tp.length := by
        by_contra hc; rw [List.getElem?_eq_none (by omega)] at hb; cases hb
      rw [List.getElem?_eq_getElem hja] at ha
      rw [List.getElem?_eq_getElem hjb] at hb
      injection ha with ha
      injection hb with hb
      have hab : a < b := by
        rw [← ha, ← hb]; exact List.pairwise_iff_getElem.mp hinc j (j + 1) hja hjb (by omega)
      have hbl : b < G.length := by rw [← hb]; exact hin _ (List.getElem_mem _)
      have hal : a < G.length := by omega
      simp only at h
      have hh : ((G.take (b + 1)).drop a).head? = some G[a] := by
        rw [List.head?_drop, List.getElem?_take_of_lt (by omega), List.getElem?_eq_getElem hal]
      have hne : (G.take (b + 1)).drop a ≠ [] := by
        intro he; rw [he] at hh; simp at hh
      have hlast : ((G.take (b + 1)).drop a).getLast? = some G[b] := by
        rw [List.getLast?_eq_getElem?, List.length_drop, List.length_take, List.getElem?_drop,
          List.getElem?_take_of_lt (by omega)]
        have : a + (min (b + 1) G.length - a - 1) = b := by omega
        rw [this, List.getElem?_eq_getElem hbl]
      rw [hh, hlast] at h
      simp only at h
      rw [hprev a hal, hprev b hbl] at h
      rw [if_neg (by simp)] at h
      injection h with h
      injection h with h1 h2
      refine ⟨?_, h2.symm⟩
      rw [← h1, sumQ_zipWith_sub_self]
      simp
    · exact absurd h (by simp)

theorem getLast?_grid0 (t0 sr : ℚ) (L : Nat) (hL : 1 ≤ L) :
    (grid0 t0 sr L).getLast? = some (t0 + ((L - 1 : Nat) : ℚ) / sr) := by
  rw [List.getLast?_eq_getElem?, length_grid0, List.getElem?_eq_getElem (by rw [length_grid0]; omega),
    getElem_grid0]

theorem head?_grid0 (t0 sr : ℚ) (L : Nat) (hL : 1 ≤ L) : (grid0 t0 sr L).head? = some t0 := by
  rw [List.head?_eq_getElem?, List.getElem?_eq_getElem (by rw [length_grid0]; omega), getElem_grid0]
  simp

theorem gridLen_grid (t0 sr : ℚ) (hsr : 0 < sr) (L : Nat) (hL : 1 ≤ L) :
    gridLen t0 (t0 + ((L - 1 : Nat) : ℚ) / sr) sr = L := by
  unfold gridLen
  have e : (t0 + ((L - 1 : Nat) : ℚ) / sr - t0) * sr = (((L - 1 : Nat) : ℤ) : ℚ) * 1 / 1 := by
    have : sr ≠ 0 := ne_of_gt hsr
    field_simp
    push_cast
    ring
  rw [e, roundHalfEven_int_mul _ 1 one_ne_zero]
  omega

/-- **the time base of an already-uniform record is the record's own time vector** -/
theorem mkInitialTnew_grid (t0 sr : ℚ) (hsr : 0 < sr) (L : Nat) (hL : 2 ≤ L) (r : Tnew)
    (h : mkInitialTnew (grid0 t0 sr L) sr = some r) : r.tnew = grid0 t0 sr L ∧ r.delt = 0 := by
  have hdt : (0 : ℚ) < 1 / sr := by positivity
  have hs := grid0_sorted t0 sr hsr L
  have hstep : ∀ (k : Nat) (hk : k + 1 < (grid0 t0 sr L).length),
      (grid0 t0 sr L)[k + 1] = (grid0 t0 sr L)[k] + 1 / sr := by
    intro k hk
    rw [getElem_grid0, getElem_grid0]
    push_cast
    ring
  obtain ⟨_, h2, h3⟩ := timeShifts_tp (grid0 t0 sr L) (1 / sr) (by rw [length_grid0]; exact hL)
  have hd0 : r.delt = 0 := by
    unfold mkInitialTnew at h
    rw [head?_grid0 t0 sr L (by omega), getLast?_grid0 t0 sr L (by omega)] at h
    simp only at h
    rw [gridLen_grid t0 sr hsr L (by omega)] at h
    split at h
    · split at h
      · rename_i delt mm hal
        injection h with h
        subst h
        exact (alignShift_self _ (1 / sr) hdt hs hstep _ h2 h3 delt mm hal).1
      · exact absurd h (by simp)
    · injection h with h
      subst h
      rfl
  obtain ⟨t0', tl', h0', hl', ht, _, _⟩ := mkInitialTnew_eq _ sr r h
  rw [head?_grid0 t0 sr L (by omega)] at h0'
  rw [getLast?_grid0 t0 sr L (by omega)] at hl'
  injection h0' with h0'
  injection hl' with hl'
  subst h0'
  subst hl'
  refine ⟨?_, hd0⟩
  rw [ht, hd0, gridLen_grid t0 sr hsr L (by omega)]
  simp

end PyYetiVerif.Fixtime
