import PyYetiVerif.Lemmas.Op2ReadTab
import PyYetiVerif.Lemmas.Op2ReadForms
/-! C11: `rdop2tabheaders` on table records whose pieces may hold fewer than three keys: what the code does. -/
namespace PyYetiVerif.Op2R
open PyYetiVerif.Op4 PyYetiVerif.Op2
open PyYetiVerif.Op4V (leBytes natBytes intBytes)

/-- what `rdop2tabheaders` reports of a piece followed by the bytes `after` (its closing record marker and
whatever the file holds next): `Frm.unpack(f.read(3 * ibytes))` — the piece's own keys as far as there are any,
then the key-sized words found in the bytes that follow — and the record length in bytes -/
def headGen (v : V2) (p : List Int) (after : List Nat) : TabHead :=
  ((chunks (kb v) 3 ((keys v p ++ after).take (3 * kb v))).map (intOfBytes v.e), ((p.length * kb v : Nat) : Int))

def headsGen (v : V2) (tail : List Nat) : List (List Int) → List TabHead
  | [] => []
  | p :: t => headGen v p (mark v (keys v p).length ++ (t.flatMap (encPiece v) ++ tail)) :: headsGen v tail t

theorem length_headsGen (v : V2) (tail : List Nat) (ps : List (List Int)) : (headsGen v tail ps).length = ps.length := by
  induction ps with
  | nil => rfl
  | cons p t ih => simp [headsGen, ih]

theorem length_follow (v : V2) (neg : Int) (tail : List Nat) (t : List (List Int)) :
    8 + kb v ≤ (t.flatMap (encPiece v) ++ (K v neg ++ tail)).length := by
  cases t with
  | nil => simp only [List.flatMap_nil, List.nil_append, List.length_append, length_K]; omega
  | cons q r =>
    simp only [List.flatMap_cons, encPiece, List.length_append, length_K]; omega

theorem rdHeadFrom_gen (v : V2) (neg : Int) (hneg : neg < 0) (hnk : InKey v neg) (tail : List Nat) :
    ∀ (pieces : List (List Int)) (acc : List TabHead) (fuel : Nat), (∀ p ∈ pieces, PieceOk v p) →
      pieces.length < fuel →
      rdHeadFrom v fuel (pieces.flatMap (encPiece v) ++ (K v neg ++ tail)) acc
        = .ok (acc ++ headsGen v (K v neg ++ tail) pieces, tail) := by
  intro pieces
  induction pieces with
  | nil =>
    intro acc fuel _ hf
    cases fuel with
    | zero => omega
    | succ f =>
      have : ¬ (neg > 0) := by omega
      simp only [rdHeadFrom, List.flatMap_nil, List.nil_append, getKey_K v neg _ hnk, rdHeadPieces, this, if_false,
        headsGen, List.append_nil]
  | cons p t ih =>
    intro acc fuel hok hf
    cases fuel with
    | zero => omega
    | succ f =>
      have hp := hok p List.mem_cons_self
      obtain ⟨hck, hcp⟩ := hp.count
      have hkl : (keys v p).length < 2147483648 := by rw [length_keys]; exact hp.len
      have hlk : (keys v p).length = p.length * kb v := length_keys v p
      have hkb := kb_cases v
      have hpos := hp.pos
      have hfol := length_follow v neg tail t
      have hlen3 : ((keys v p ++ (mark v (keys v p).length ++ (t.flatMap (encPiece v) ++ (K v neg ++ tail)))).take (3 * kb v)).length
          = 3 * kb v := by
        rw [List.length_take, List.length_append, List.length_append, length_mark, hlk]
        have : kb v ≤ p.length * kb v := Nat.le_mul_of_pos_left _ hpos
        rcases hkb with ⟨_, h⟩ | ⟨_, h⟩ <;> rw [h] at this hfol ⊢ <;> omega
      have hu : unpackInts v.e (kb v) 3
          ((keys v p ++ (mark v (keys v p).length ++ (t.flatMap (encPiece v) ++ (K v neg ++ tail)))).take (3 * kb v))
          = .ok (headGen v p (mark v (keys v p).length ++ (t.flatMap (encPiece v) ++ (K v neg ++ tail)))).1 := by
        unfold unpackInts headGen
        rw [if_pos hlen3]
      simp only [rdHeadFrom, List.flatMap_cons, encPiece, List.append_assoc, getKey_K v _ _ hck, rdHeadPieces,
        gt_iff_lt, hcp, if_true, rdI4_R v _ _ hkl, hu, Int.toNat_natCast, List.drop_left' hlk, drop4_mark]
      have := ih (acc ++ [headGen v p (mark v (keys v p).length ++ (t.flatMap (encPiece v) ++ (K v neg ++ tail)))]) f
        (fun x hx => hok x (List.mem_cons_of_mem _ hx)) (by simpa using hf)
      simp only [rdHeadFrom, List.append_assoc, List.cons_append, List.nil_append] at this
      simp only [headsGen, headGen, hlk] at this ⊢
      exact this

/-- the headers of a whole table: per record, the heads of its pieces given what follows the record -/
def headersGen (v : V2) (rest : List Nat) : Nat → List (List (List Int)) → List TabHead
  | _, [] => []
  | j, pieces :: r =>
    headsGen v (K v (-((j : Int) + 4)) ++ (K v 1 ++ (K v 0 ++ (encTabRecs v (j + 1) r ++ (K v 0 ++ rest))))) pieces
      ++ headersGen v rest (j + 1) r

theorem rdTabFrom_gen (v : V2) (rest : List Nat) : ∀ (recs : List (List (List Int))) (j : Nat) (acc : List TabHead)
    (fuel : Nat), TabOk v j recs → recs.length < fuel →
    rdTabFrom v fuel (encTabRecs v j recs ++ (K v 0 ++ rest)) acc = .ok (acc ++ headersGen v rest j recs, rest) := by
  intro recs
  induction recs with
  | nil =>
    intro j acc fuel _ hf
    cases fuel with
    | zero => omega
    | succ f =>
      simp only [encTabRecs, List.nil_append, rdTabFrom, rdEot_K v 0 _ (inKey_small v 0 (by omega) (by omega)),
        rdTabLoop, if_true, headersGen, List.append_nil]
  | cons pieces r ih =>
    intro j acc fuel hok hf
    cases fuel with
    | zero => omega
    | succ f =>
      have hj := hok.1
      simp only [List.length_cons] at hj
      have hnk : InKey v (-((j : Int) + 4)) := inKey_small v _ (by omega) (by omega)
      have hp := hok.2 pieces List.mem_cons_self
      obtain ⟨key, s1, hg, he, hl, hk⟩ := firstKey_pieces v (-((j : Int) + 4)) (by omega) hnk
        (K v 1 ++ (K v 0 ++ (encTabRecs v (j + 1) r ++ (K v 0 ++ rest)))) pieces hp
      have h1 := rdHeadFrom_gen v (-((j : Int) + 4)) (by omega) hnk
        (K v 1 ++ (K v 0 ++ (encTabRecs v (j + 1) r ++ (K v 0 ++ rest)))) pieces acc (s1.length + 1) hp (by omega)
      unfold rdHeadFrom at h1
      rw [hg] at h1
      have h2 := ih (j + 1) (acc ++ headsGen v (K v (-((j : Int) + 4)) ++ (K v 1 ++ (K v 0 ++ (encTabRecs v (j + 1) r ++
        (K v 0 ++ rest))))) pieces) f
        ⟨by omega, fun ps h => hok.2 ps (List.mem_cons_of_mem _ h)⟩ (by simpa using hf)
      unfold rdTabFrom at h2
      simp only [encTabRecs_cons, List.append_assoc]
      simp only [rdTabFrom, he, rdTabLoop, hk, if_false, h1, skipKey_K2r]
      refine Eq.trans h2 ?_
      simp only [headersGen, List.append_assoc]

theorem rdTabHeaders_gen (v : V2) (rest : List Nat) (recs : List (List (List Int))) (hok : TabOk v 0 recs) :
    rdTabHeaders v (encTabRecs v 0 recs ++ (K v 0 ++ rest)) = .ok (headersGen v rest 0 recs, rest) := by
  have hlen : recs.length + (8 + kb v) ≤ (encTabRecs v 0 recs ++ (K v 0 ++ rest)).length := by
    have := length_encTabRecs v recs 0
    simp only [List.length_append, length_K]; omega
  cases he : rdEot v (encTabRecs v 0 recs ++ (K v 0 ++ rest)) with
  | error e =>
    have := rdTabFrom_gen v rest recs 0 [] (recs.length + 1) hok (by omega)
    unfold rdTabFrom at this
    rw [he] at this
    exact absurd this (by simp)
  | ok r =>
    obtain ⟨key, s⟩ := r
    have hl := rdEot_length v _ key s he
    have := rdTabFrom_gen v rest recs 0 [] (s.length + 1) hok (by omega)
    unfold rdTabFrom at this
    rw [he] at this
    simp only [List.nil_append] at this
    simp only [rdTabHeaders, he, this]

/-- the first `min 3 (len p)` entries of the reported header are the piece's own first keys; its length entry
is the piece's length in bytes -/
theorem headGen_prefix (v : V2) (p : List Int) (after : List Nat) (hk : ∀ x ∈ p, InKey v x)
    (hav : 3 * kb v ≤ (keys v p ++ after).length) :
    (headGen v p after).1.length = 3 ∧ (headGen v p after).2 = ((p.length * kb v : Nat) : Int) ∧
      (headGen v p after).1.take (min 3 p.length) = p.take 3 := by
  refine ⟨by simp [headGen, length_chunks], rfl, ?_⟩
  generalize hkdef : min 3 p.length = k
  have hk3 : k ≤ 3 := by omega
  have hkl : k ≤ p.length := by omega
  have htk : (p.take 3).take k = p.take k := by rw [List.take_take]; congr 1; omega
  have hpk : p.take 3 = p.take k := by
    rw [← hkdef]
    by_cases h : 3 ≤ p.length
    · rw [Nat.min_eq_left h]
    · rw [Nat.min_eq_right (by omega), List.take_of_length_le (by omega), List.take_of_length_le (Nat.le_refl _)]
  rw [hpk]
  -- the first k·kb bytes are the keys of p.take k
  have hsplit : keys v p = keys v (p.take k) ++ keys v (p.drop k) := by
    rw [← keys_append, List.take_append_drop]
  have hA : (keys v (p.take k)).length = k * kb v := by rw [length_keys, List.length_take]; congr 1; omega
  have hX : (keys v p ++ after).take (3 * kb v)
      = keys v (p.take k) ++ ((keys v (p.drop k) ++ after).take (3 * kb v - k * kb v)) := by
    rw [hsplit, List.append_assoc, List.take_append, hA]
    have : (keys v (p.take k)).take (3 * kb v) = keys v (p.take k) := by
      apply List.take_of_length_le; rw [hA]; exact Nat.mul_le_mul_right _ hk3
    rw [this]
  unfold headGen
  simp only
  rw [hX, show 3 = k + (3 - k) by omega, Op2RF.chunks_append (kb v) k _ hA, List.map_append, List.take_append]
  have hl1 : ((chunks (kb v) k (keys v (p.take k))).map (intOfBytes v.e)).length = k := by simp [length_chunks]
  rw [hl1, Nat.sub_self, List.take_zero, List.append_nil, List.take_of_length_le (by omega)]
  have hlen : (p.take k).length = k := by rw [List.length_take]; omega
  have hu := unpackInts_keys v (p.take k) (fun x hx => hk x (List.mem_of_mem_take hx))
  unfold unpackInts at hu
  rw [hlen, if_pos hA] at hu
  exact Except.ok.inj hu

end PyYetiVerif.Op2R
