import PyYetiVerif.Lemmas.Psd
import Mathlib.Analysis.SpecialFunctions.Integrals.Basic
/-! Helper lemmas for C19 (`psd.area`, `psd.interp` at `ℝ`). -/
namespace PyYetiVerif.Psd
open Real

noncomputable instance instPsdOpsReal : PsdOps ℝ := ⟨Real.log, Real.exp, Real.sqrt⟩

/-- the constant-dB/octave law through `(f1, p1)` with slope `s` (`10 log10(2) s` dB/octave) -/
noncomputable def segLaw (f1 p1 s x : ℝ) : ℝ := p1 * (x / f1) ^ s

theorem absv_eq_abs (x : ℝ) : absv x = |x| := by
  unfold absv
  split
  · rw [abs_of_neg (by assumption)]; ring
  · rw [abs_of_nonneg (not_lt.mp (by assumption))]

theorem integral_segLaw (f1 f2 p1 s : ℝ) (hf1 : 0 < f1) (hf2 : 0 < f2) :
    ∫ x in f1..f2, segLaw f1 p1 s x =
      if s = -1 then p1 * f1 * log (f2 / f1) else (f2 * segLaw f1 p1 s f2 - f1 * p1) / (s + 1) := by
  unfold segLaw
  have hr : 0 < f2 / f1 := div_pos hf2 hf1
  rw [intervalIntegral.integral_const_mul,
    intervalIntegral.integral_comp_div (fun u => u ^ s) (ne_of_gt hf1), div_self (ne_of_gt hf1)]
  split
  · rename_i hs
    subst hs
    have : ∀ u : ℝ, u ^ (-1 : ℝ) = u⁻¹ := fun u => Real.rpow_neg_one u
    simp only [this]
    rw [integral_inv_of_pos one_pos hr, div_one, smul_eq_mul]
    ring
  · rename_i hs
    have h0 : (0 : ℝ) ∉ Set.uIcc 1 (f2 / f1) := by
      rw [Set.mem_uIcc]
      rintro (⟨h1, _⟩ | ⟨h1, _⟩) <;> linarith
    rw [integral_rpow (Or.inr ⟨hs, h0⟩), Real.one_rpow, Real.rpow_add_one (ne_of_gt hr), smul_eq_mul]
    have hs1 : s + 1 ≠ 0 := fun h => hs (by linarith)
    field_simp

/-- the slope the code recovers from the two end points of a segment is the slope of the law -/
theorem slope_recovered (f1 f2 p1 s : ℝ) (hf1 : 0 < f1) (hf : f1 < f2) (hp1 : 0 < p1) :
    log (segLaw f1 p1 s f2 / p1) / log (f2 / f1) = s := by
  unfold segLaw
  have hr : 1 < f2 / f1 := (one_lt_div hf1).mpr hf
  have hl : 0 < log (f2 / f1) := Real.log_pos hr
  have : p1 * (f2 / f1) ^ s / p1 = (f2 / f1) ^ s := by field_simp
  rw [this, Real.log_rpow (by linarith)]
  field_simp

/-- `psd.area`'s segment formula equals the integral of the constant-dB/octave law, for the slope
exactly `-1` and for every slope at least `1e-8` away from `-1` -/
theorem areaSeg_eq_integral (f1 f2 p1 s : ℝ) (hf1 : 0 < f1) (hf : f1 < f2) (hp1 : 0 < p1)
    (hs : s = -1 ∨ 1e-8 ≤ |s + 1|) :
    areaSeg f1 p1 f2 (segLaw f1 p1 s f2) = ∫ x in f1..f2, segLaw f1 p1 s x := by
  rw [integral_segLaw f1 f2 p1 s hf1 (by linarith)]
  unfold areaSeg
  show (if absv (log (segLaw f1 p1 s f2 / p1) / log (f2 / f1) + 1) < 1e-8
      then p1 * f1 * log (f2 / f1)
      else (f2 * segLaw f1 p1 s f2 - f1 * p1) / (log (segLaw f1 p1 s f2 / p1) / log (f2 / f1) + 1)) = _
  rw [slope_recovered f1 f2 p1 s hf1 hf hp1, absv_eq_abs]
  rcases hs with hs | hs
  · subst hs
    rw [if_pos (by norm_num), if_pos rfl]
  · rw [if_neg (not_lt.mpr hs), if_neg]
    intro h
    rw [h] at hs
    norm_num at hs

/-- inside the tolerance band `0 < |s+1| < 1e-8` the code's value is NOT the integral (it is the
`s = -1` formula): the deviation is `p1 f1 (L - (e^{εL} - 1)/ε)`, `ε = s+1`, `L = ln(f2/f1)` -/
theorem areaSeg_band_ne_integral (f1 f2 p1 s : ℝ) (hf1 : 0 < f1) (hf : f1 < f2) (hp1 : 0 < p1)
    (hs0 : s ≠ -1) (hs : |s + 1| < 1e-8) :
    areaSeg f1 p1 f2 (segLaw f1 p1 s f2) ≠ ∫ x in f1..f2, segLaw f1 p1 s x := by
  rw [integral_segLaw f1 f2 p1 s hf1 (by linarith)]
  unfold areaSeg
  show (if absv (log (segLaw f1 p1 s f2 / p1) / log (f2 / f1) + 1) < 1e-8
      then p1 * f1 * log (f2 / f1)
      else (f2 * segLaw f1 p1 s f2 - f1 * p1) / (log (segLaw f1 p1 s f2 / p1) / log (f2 / f1) + 1)) ≠ _
  rw [slope_recovered f1 f2 p1 s hf1 hf hp1, absv_eq_abs, if_pos hs, if_neg hs0]
  have hr : 1 < f2 / f1 := (one_lt_div hf1).mpr hf
  have hr0 : 0 < f2 / f1 := by linarith
  have hL : 0 < log (f2 / f1) := Real.log_pos hr
  have he : s + 1 ≠ 0 := fun h => hs0 (by linarith)
  -- f2 * p1 * r^s = f1 * p1 * r^(s+1) = f1 * p1 * exp((s+1) L)
  have hpow : f2 * segLaw f1 p1 s f2 = f1 * p1 * exp ((s + 1) * log (f2 / f1)) := by
    unfold segLaw
    rw [mul_comm (s + 1), ← Real.rpow_def_of_pos hr0, Real.rpow_add_one (ne_of_gt hr0)]
    field_simp
  rw [hpow]
  have hexp := Real.add_one_lt_exp (x := (s + 1) * log (f2 / f1)) (mul_ne_zero he (ne_of_gt hL))
  intro h
  have h2 : p1 * f1 * log (f2 / f1) * (s + 1) =
      f1 * p1 * exp ((s + 1) * log (f2 / f1)) - f1 * p1 := by
    rw [h]; field_simp
  have h3 : f1 * p1 * ((s + 1) * log (f2 / f1) + 1) = f1 * p1 * exp ((s + 1) * log (f2 / f1)) := by
    linarith
  have h4 := mul_left_cancel₀ (ne_of_gt (mul_pos hf1 hp1)) h3
  linarith

/-- … but only by a relative amount `≤ |s+1|·ln(f2/f1)` (`≤ 1e-8·ln(f2/f1)`) -/
theorem areaSeg_band_bound (f1 f2 p1 s : ℝ) (hf1 : 0 < f1) (hf : f1 < f2) (hp1 : 0 < p1)
    (hs0 : s ≠ -1) (hs : |s + 1| < 1e-8) (hy : |(s + 1) * log (f2 / f1)| ≤ 1) :
    |areaSeg f1 p1 f2 (segLaw f1 p1 s f2) - ∫ x in f1..f2, segLaw f1 p1 s x| ≤
      |s + 1| * log (f2 / f1) * (p1 * f1 * log (f2 / f1)) := by
  rw [integral_segLaw f1 f2 p1 s hf1 (by linarith)]
  unfold areaSeg
  show |(if absv (log (segLaw f1 p1 s f2 / p1) / log (f2 / f1) + 1) < 1e-8
      then p1 * f1 * log (f2 / f1)
      else (f2 * segLaw f1 p1 s f2 - f1 * p1) / (log (segLaw f1 p1 s f2 / p1) / log (f2 / f1) + 1)) - _| ≤ _
  rw [slope_recovered f1 f2 p1 s hf1 hf hp1, absv_eq_abs, if_pos hs, if_neg hs0]
  have hr : 1 < f2 / f1 := (one_lt_div hf1).mpr hf
  have hr0 : 0 < f2 / f1 := by linarith
  have hL : 0 < log (f2 / f1) := Real.log_pos hr
  have he : s + 1 ≠ 0 := fun h => hs0 (by linarith)
  have hpow : f2 * segLaw f1 p1 s f2 = f1 * p1 * exp ((s + 1) * log (f2 / f1)) := by
    unfold segLaw
    rw [mul_comm (s + 1), ← Real.rpow_def_of_pos hr0, Real.rpow_add_one (ne_of_gt hr0)]
    field_simp
  rw [hpow]
  have hb := Real.abs_exp_sub_one_sub_id_le hy
  have hrew : p1 * f1 * log (f2 / f1) - (f1 * p1 * exp ((s + 1) * log (f2 / f1)) - f1 * p1) / (s + 1)
      = -(p1 * f1) * ((exp ((s + 1) * log (f2 / f1)) - 1 - (s + 1) * log (f2 / f1)) / (s + 1)) := by
    field_simp; ring
  rw [hrew, abs_mul, abs_neg, abs_of_pos (mul_pos hp1 hf1), abs_div]
  have he' : 0 < |s + 1| := abs_pos.mpr he
  have h1 : |exp ((s + 1) * log (f2 / f1)) - 1 - (s + 1) * log (f2 / f1)| / |s + 1|
      ≤ |s + 1| * log (f2 / f1) * log (f2 / f1) := by
    rw [div_le_iff₀ he']
    calc _ ≤ ((s + 1) * log (f2 / f1)) ^ 2 := hb
      _ = |s + 1| * log (f2 / f1) * log (f2 / f1) * |s + 1| := by
          rw [mul_pow, ← sq_abs (s + 1)]; ring
  calc p1 * f1 * (|exp ((s + 1) * log (f2 / f1)) - 1 - (s + 1) * log (f2 / f1)| / |s + 1|)
      ≤ p1 * f1 * (|s + 1| * log (f2 / f1) * log (f2 / f1)) :=
        mul_le_mul_of_nonneg_left h1 (mul_pos hp1 hf1).le
    _ = |s + 1| * log (f2 / f1) * (p1 * f1 * log (f2 / f1)) := by ring

theorem segAreas_append (m : ℝ × ℝ) (l2 : List (ℝ × ℝ)) : ∀ (l1 : List (ℝ × ℝ)),
    segAreas (l1 ++ m :: l2) = segAreas (l1 ++ [m]) ++ segAreas (m :: l2)
  | [] => by simp [segAreas]
  | [a] => by simp [segAreas]
  | a :: b :: r => by
      have := segAreas_append m l2 (b :: r)
      simp only [List.cons_append, segAreas] at this ⊢
      rw [this]

/-- additivity over segments: splitting a specification at a break point splits the area -/
theorem area_append (l1 : List (ℝ × ℝ)) (m : ℝ × ℝ) (l2 : List (ℝ × ℝ)) :
    area (l1 ++ m :: l2) = area (l1 ++ [m]) + area (m :: l2) := by
  unfold area
  rw [sumL_eq_sum, sumL_eq_sum, sumL_eq_sum, segAreas_append, List.sum_append]

theorem interpLog_at (spec : List (ℝ × ℝ)) (hf : (spec.map (·.1)).Pairwise (· < ·))
    (hpos : ∀ r ∈ spec, 0 < r.1 ∧ 0 < r.2) (hn : 2 ≤ spec.length) (k : Nat) (hk : k < spec.length) :
    interpLog spec spec[k].1 = spec[k].2 := by
  have hlogs : (spec.map fun r => Real.log r.1).Pairwise (· < ·) := by
    rw [List.pairwise_map] at hf ⊢
    exact hf.imp_of_mem fun {a b} ha hb h => Real.log_lt_log (hpos a ha).1 h
  have hs' : (spec.map (·.1)).Pairwise (· ≤ ·) := hf.imp le_of_lt
  have key := interp1dLin_at (spec.map fun r => Real.log r.1) (spec.map fun r => Real.log r.2) hlogs
    (by simpa using hn) (by simp) k (by simpa using hk)
  simp only [List.getElem_map] at key
  unfold interpLog
  have e1 : ∀ x : ℝ, PsdOps.log x = Real.log x := fun _ => rfl
  have e2 : ∀ x : ℝ, PsdOps.exp x = Real.exp x := fun _ => rfl
  simp only [e1, e2]
  rw [key]
  have hh : (spec.map (·.1)).head? = some spec[0].1 := by
    rw [List.head?_eq_getElem?, List.getElem?_eq_getElem (by simpa using (by omega : 0 < spec.length))]
    simp
  have hl : (spec.map (·.1)).getLast? = some spec[spec.length - 1].1 := by
    rw [List.getLast?_eq_getElem?, List.getElem?_eq_getElem (by simp; omega)]
    simp
  rw [hh, hl]
  have h1 : spec[0].1 ≤ spec[k].1 := by
    have := Fixtime.sorted_getElem_le hs' (Nat.zero_le k) (by simpa using hk)
    simpa using this
  have h2 : spec[k].1 ≤ spec[spec.length - 1].1 := by
    have := Fixtime.sorted_getElem_le hs' (show k ≤ spec.length - 1 by omega) (by simp; omega)
    simpa using this
  simp only
  rw [if_pos ⟨h1, h2⟩, Real.exp_log (hpos _ (List.getElem_mem _)).2]

end PyYetiVerif.Psd
