import PyYetiVerif.Lemmas.CoordRbe3
import Mathlib.Data.List.Perm.Subperm
import Mathlib.Data.List.Sort
import Mathlib.Data.List.Range
/-!
C14, `formrbe3` with a `UM_List`: the DOF bookkeeping (`umPlan`), the re-partition of the chosen branch and
the final reordering (`umApplyMx`) together.  DOF are identified by their uset row; `zKey` reads the
rigid-body row of a DOF from the dependent / independent blocks, `Repro` says that a matrix maps the rows
labelled by one key list to the rows labelled by another.
-/
set_option linter.unusedSectionVars false
namespace PyYetiVerif.Coord
open Matrix

/-! ### index lists -/

theorem idxOf?_getElem_of_nodup {l : List ℕ} (hn : l.Nodup) {i : ℕ} (hi : i < l.length) :
    l.idxOf? l[i] = some i := by
  rw [List.idxOf?_eq_some_iff]
  refine ⟨hi, rfl, fun j hj h => ?_⟩
  have := (List.Nodup.getElem_inj_iff hn (hi := Nat.lt_trans hj hi) (hj := hi)).mp h
  omega

theorem idxOf?_spec {l : List ℕ} {k i : ℕ} (h : l.idxOf? k = some i) : i < l.length ∧ l.getD i 0 = k := by
  obtain ⟨hi, hk, -⟩ := List.idxOf?_eq_some_iff.mp h
  exact ⟨hi, by simp [List.getD_eq_getElem?_getD, hi, hk]⟩

theorem positions_lt {hay l : List ℕ} : ∀ i ∈ positions hay l, i < hay.length := by
  intro i hi
  simp only [positions, List.mem_filterMap] at hi
  obtain ⟨k, _, hk⟩ := hi
  exact (idxOf?_spec hk).1

/-- the keys found by `mat_intersect`, in needle order -/
theorem positions_map_getD (hay l : List ℕ) :
    (positions hay l).map (fun i => hay.getD i 0) = l.filter hay.contains := by
  induction l with
  | nil => rfl
  | cons k t ih =>
    simp only [positions, List.filterMap_cons, List.filter_cons] at ih ⊢
    cases h : hay.idxOf? k with
    | none =>
      have : hay.contains k = false := by
        have := List.idxOf?_eq_none_iff.mp h
        simpa using this
      simp only [this, Bool.false_eq_true, if_false]
      exact ih
    | some i =>
      have hc : hay.contains k = true := by
        have : k ∈ hay := List.isSome_idxOf?.mp (by rw [h]; rfl)
        simpa using this
      simp only [hc, if_true, List.map_cons, (idxOf?_spec h).2]
      exact congrArg _ ih

theorem positions_nodup {hay l : List ℕ} (hl : l.Nodup) : (positions hay l).Nodup := by
  apply List.Nodup.of_map (fun i => hay.getD i 0)
  rw [positions_map_getD]
  exact hl.filter _

theorem mem_positions_iff {hay l : List ℕ} (hn : hay.Nodup) {i : ℕ} :
    i ∈ positions hay l ↔ i < hay.length ∧ hay.getD i 0 ∈ l := by
  simp only [positions, List.mem_filterMap]
  constructor
  · rintro ⟨k, hk, hi⟩
    obtain ⟨h1, h2⟩ := idxOf?_spec hi
    exact ⟨h1, by rw [h2]; exact hk⟩
  · rintro ⟨hi, hm⟩
    refine ⟨hay.getD i 0, hm, ?_⟩
    have : hay.getD i 0 = hay[i] := by simp [List.getD_eq_getElem?_getD, hi]
    rw [this]; exact idxOf?_getElem_of_nodup hn hi

/-- a duplicate-free list of numbers below `n` with `n` entries is a permutation of `0 … n-1` -/
theorem perm_range_of_nodup {l : List ℕ} {n : ℕ} (hn : l.Nodup) (hlt : ∀ x ∈ l, x < n) (hlen : n ≤ l.length) :
    l.Perm (List.range n) := by
  have hs : l.Subperm (List.range n) :=
    List.subperm_of_subset hn (fun x hx => List.mem_range.mpr (hlt x hx))
  exact hs.perm_of_length_le (by simpa using hlen)

/-- `mat_intersect(hay, l)` enumerates all rows of `hay` when every key of `hay` is among the needles -/
theorem positions_perm_range {hay l : List ℕ} (hn : hay.Nodup) (hl : l.Nodup) (hsub : ∀ k ∈ hay, k ∈ l) :
    (positions hay l).Perm (List.range hay.length) := by
  apply perm_range_of_nodup (positions_nodup hl) positions_lt
  have h1 : (positions hay l).length = (l.filter hay.contains).length := by
    rw [← positions_map_getD, List.length_map]
  have h2 : (l.filter hay.contains).Perm hay := by
    apply (List.perm_ext_iff_of_nodup (hl.filter _) hn).mpr
    intro k
    simp only [List.mem_filter, List.contains_iff_mem]
    exact ⟨fun h => h.2, fun h => ⟨hsub k h, h⟩⟩
  rw [h1, h2.length_eq]

theorem mem_maskIdx {pv : List ℕ} {n i : ℕ} : i ∈ maskIdx pv n ↔ i < n ∧ i ∈ pv := by
  simp [maskIdx]

theorem mem_complIdx {pv : List ℕ} {n i : ℕ} : i ∈ complIdx pv n ↔ i < n ∧ i ∉ pv := by
  simp [complIdx]

theorem mask_compl_perm (pv : List ℕ) (n : ℕ) : (maskIdx pv n ++ complIdx pv n).Perm (List.range n) := by
  have := List.filter_append_perm (fun i => pv.contains i) (List.range n)
  simpa [maskIdx, complIdx] using this

theorem maskIdx_nodup (pv : List ℕ) (n : ℕ) : (maskIdx pv n).Nodup := (List.nodup_range).filter _
theorem complIdx_nodup (pv : List ℕ) (n : ℕ) : (complIdx pv n).Nodup := (List.nodup_range).filter _

/-- an index list itself (instead of its ascending mask) with its complement -/
theorem self_compl_perm {pv : List ℕ} {n : ℕ} (hn : pv.Nodup) (hlt : ∀ i ∈ pv, i < n) :
    (pv ++ complIdx pv n).Perm (List.range n) := by
  have h1 : pv.Perm (maskIdx pv n) := by
    apply (List.perm_ext_iff_of_nodup hn (maskIdx_nodup pv n)).mpr
    intro i; rw [mem_maskIdx]; exact ⟨fun h => ⟨hlt i h, h⟩, fun h => h.2⟩
  exact (h1.append_right _).trans (mask_compl_perm pv n)

/-- ascending keys below `n`, read off the uset row numbers, are the list itself -/
theorem filter_range_of_sorted {l : List ℕ} {n : ℕ} (hs : l.Pairwise (· < ·)) (hlt : ∀ k ∈ l, k < n) :
    (List.range n).filter l.contains = l := by
  have hs' : ((List.range n).filter l.contains).Pairwise (· < ·) :=
    (List.pairwise_lt_range).filter _
  apply List.Perm.eq_of_pairwise (le := (· < ·)) _ hs' hs
  · apply (List.perm_ext_iff_of_nodup ((List.nodup_range).filter _) (hs.imp (fun h => Nat.ne_of_lt h))).mpr
    intro k
    simp only [List.mem_filter, List.mem_range, List.contains_iff_mem]
    exact ⟨fun h => h.2, fun h => ⟨hlt k h, h⟩⟩
  · intro a b _ _ h1 h2; exact absurd h1 (Nat.lt_asymm h2)

theorem range_map_getD (l : List ℕ) : (List.range l.length).map (fun i => l.getD i 0) = l := by
  apply List.ext_getElem (by simp)
  intro i h1 h2
  simp at h1
  simp [List.getD_eq_getElem?_getD, h1]


/-! ### sums through index lists, `Repro` -/

section
variable {K : Type} [Field K]

theorem sum_map_range (n : ℕ) (f : ℕ → K) : ((List.range n).map f).sum = ∑ i : Fin n, f i := by
  induction n with
  | zero => simp
  | succ n ih =>
    rw [List.range_succ, List.map_append, List.sum_append, ih, Fin.sum_univ_castSucc]
    simp

/-- sum over the entries of an index list (through `idxMap`) -/
theorem sum_idxMap (l : List ℕ) (n : ℕ) (h : 0 < n) (f : Fin n → K) :
    ∑ j : Fin l.length, f (idxMap l n h j) = (l.map fun x => f ⟨x % n, Nat.mod_lt _ h⟩).sum := by
  rw [← Fin.sum_univ_fun_getElem]
  rfl

theorem sum_idxMap_perm (l : List ℕ) (n : ℕ) (h : 0 < n) (hp : l.Perm (List.range n)) (f : Fin n → K) :
    ∑ j : Fin l.length, f (idxMap l n h j) = ∑ k, f k := by
  rw [sum_idxMap, (hp.map _).sum_eq, sum_map_range]
  apply Finset.sum_congr rfl
  intro k _
  congr 1
  exact Fin.ext (Nat.mod_eq_of_lt k.isLt)

/-- two index lists that together are a permutation of `0 … n-1` split every sum over `Fin n` -/
theorem sum_split_of_perm (l₁ l₂ : List ℕ) (n : ℕ) (h : 0 < n) (hp : (l₁ ++ l₂).Perm (List.range n))
    (f : Fin n → K) :
    ∑ k, f k = ∑ j : Fin l₁.length, f (idxMap l₁ n h j) + ∑ j : Fin l₂.length, f (idxMap l₂ n h j) := by
  rw [sum_idxMap, sum_idxMap, ← List.sum_append, ← List.map_append, (hp.map _).sum_eq, sum_map_range]
  apply Finset.sum_congr rfl
  intro k _
  congr 1
  exact Fin.ext (Nat.mod_eq_of_lt k.isLt).symm

/-- `Y` maps the rigid-body rows labelled `ck` to those labelled `rk` -/
def Repro {a b s : ℕ} (zk : ℕ → Fin s → K) (Y : Mx K a b) (rk ck : List ℕ) : Prop :=
  ∀ (i : Fin a) (t : Fin s), ∑ j : Fin b, Y i j * zk (ck.getD j 0) t = zk (rk.getD i 0) t

theorem Repro.reorder {a b s : ℕ} {zk : ℕ → Fin s → K} {Y : Mx K a b} {rk ck : List ℕ}
    (h : Repro zk Y rk ck) (ha : 0 < a) (hb : 0 < b) (ro co : List ℕ) (hro : ∀ x ∈ ro, x < a)
    (hco : co.Perm (List.range b)) :
    Repro zk (Y.reorder ha hb ro co) (ro.map fun x => rk.getD x 0) (co.map fun x => ck.getD x 0) := by
  intro i t
  have hi : ro[i.val] < a := hro _ (List.getElem_mem _)
  have hrow : (ro.map fun x => rk.getD x 0).getD i 0 = rk.getD (idxMap ro a ha i).val 0 := by
    simp [List.getD_eq_getElem?_getD, idxMap, Nat.mod_eq_of_lt hi]
  have hcol : ∀ j : Fin co.length, (co.map fun x => ck.getD x 0).getD j 0 = ck.getD (idxMap co b hb j).val 0 := by
    intro j
    have hj : co[j.val] < b := by
      have := hco.mem_iff.mp (List.getElem_mem j.isLt); simpa using this
    simp [List.getD_eq_getElem?_getD, idxMap, Nat.mod_eq_of_lt hj]
  rw [hrow, ← h (idxMap ro a ha i) t]
  simp only [Mx.reorder, Mx.selRows, Mx.selCols, hcol]
  exact sum_idxMap_perm co b hb hco fun k => Y (idxMap ro a ha i) k * zk (ck.getD k.val 0) t
end


/-! ### rows labelled by uset rows -/

section
variable {K : Type} [Field K] {nd ni s : ℕ}

/-- the rigid-body row of the DOF with uset row `key`: dependent DOF from `Zd`, independent from `Zi` -/
def zKey (ddof idof : List ℕ) (Zd : Mx K nd s) (Zi : Mx K ni s) (key : ℕ) (t : Fin s) : K :=
  match ddof.idxOf? key with
  | some i => if h : i < nd then Zd ⟨i, h⟩ t else 0
  | none =>
    match idof.idxOf? key with
    | some j => if h : j < ni then Zi ⟨j, h⟩ t else 0
    | none => 0

/-- the rows labelled by a key list -/
def labRows {s : ℕ} (zk : ℕ → Fin s → K) (l : List ℕ) (n : ℕ) : Mx K n s := fun i t => zk (l.getD i 0) t

variable {ddof idof : List ℕ} {Zd : Mx K nd s} {Zi : Mx K ni s}

theorem zKey_ddof (hn : (ddof ++ idof).Nodup) (hl : ddof.length = nd) (i : Fin nd) :
    zKey ddof idof Zd Zi (ddof.getD i 0) = Zd i := by
  funext t
  have hi : i.val < ddof.length := by rw [hl]; exact i.isLt
  have hg : ddof.getD i 0 = ddof[i.val] := by simp [List.getD_eq_getElem?_getD, hi]
  simp only [zKey, hg, idxOf?_getElem_of_nodup (List.Nodup.of_append_left hn) hi, i.isLt, dite_true]

theorem zKey_idof (hn : (ddof ++ idof).Nodup) (hl : idof.length = ni) (j : Fin ni) :
    zKey ddof idof Zd Zi (idof.getD j 0) = Zi j := by
  funext t
  have hj : j.val < idof.length := by rw [hl]; exact j.isLt
  have hg : idof.getD j 0 = idof[j.val] := by simp [List.getD_eq_getElem?_getD, hj]
  have hnot : ddof.idxOf? idof[j.val] = none := by
    rw [List.idxOf?_eq_none_iff]
    intro hm
    exact (List.nodup_append.mp hn).2.2 _ hm _ (List.getElem_mem hj) rfl
  simp only [zKey, hg, hnot, idxOf?_getElem_of_nodup (List.Nodup.of_append_right hn) hj, j.isLt, dite_true]

theorem labRows_ddof (hn : (ddof ++ idof).Nodup) (hl : ddof.length = nd) :
    labRows (zKey ddof idof Zd Zi) ddof nd = Zd := by
  funext i t; simp only [labRows, zKey_ddof hn hl]

theorem labRows_idof (hn : (ddof ++ idof).Nodup) (hl : idof.length = ni) :
    labRows (zKey ddof idof Zd Zi) idof ni = Zi := by
  funext i t; simp only [labRows, zKey_idof hn hl]

/-- rows selected through an index list -/
theorem labRows_map_ddof (hn : (ddof ++ idof).Nodup) (hl : ddof.length = nd) (hd : 0 < nd)
    (l : List ℕ) (hlt : ∀ x ∈ l, x < nd) {c : ℕ} (hc : l.length = c) :
    labRows (zKey ddof idof Zd Zi) (l.map fun x => ddof.getD x 0) c
      = Zd.selRows fun i : Fin c => idxMap l nd hd (Fin.cast hc.symm i) := by
  funext i t
  have hi : i.val < l.length := by rw [hc]; exact i.isLt
  have hx : l[i.val] < nd := hlt _ (List.getElem_mem hi)
  have : (l.map fun x => ddof.getD x 0).getD i 0 = ddof.getD l[i.val] 0 := by
    simp [List.getD_eq_getElem?_getD, hi]
  have e := congrFun (zKey_ddof (Zd := Zd) (Zi := Zi) hn hl ⟨l[i.val], hx⟩) t
  simp only [labRows, this, Mx.selRows]
  rw [e]
  congr 1
  exact Fin.ext (by simp [idxMap, Nat.mod_eq_of_lt hx])

theorem labRows_map_idof (hn : (ddof ++ idof).Nodup) (hl : idof.length = ni) (hi : 0 < ni)
    (l : List ℕ) (hlt : ∀ x ∈ l, x < ni) {c : ℕ} (hc : l.length = c) :
    labRows (zKey ddof idof Zd Zi) (l.map fun x => idof.getD x 0) c
      = Zi.selRows fun i : Fin c => idxMap l ni hi (Fin.cast hc.symm i) := by
  funext i t
  have hi' : i.val < l.length := by rw [hc]; exact i.isLt
  have hx : l[i.val] < ni := hlt _ (List.getElem_mem hi')
  have : (l.map fun x => idof.getD x 0).getD i 0 = idof.getD l[i.val] 0 := by
    simp [List.getD_eq_getElem?_getD, hi']
  have e := congrFun (zKey_idof (Zd := Zd) (Zi := Zi) hn hl ⟨l[i.val], hx⟩) t
  simp only [labRows, this, Mx.selRows]
  rw [e]
  congr 1
  exact Fin.ext (by simp [idxMap, Nat.mod_eq_of_lt hx])

theorem labRows_append {s : ℕ} (zk : ℕ → Fin s → K) (l₁ l₂ : List ℕ) {a : ℕ} (b : ℕ) (ha : l₁.length = a) :
    labRows zk (l₁ ++ l₂) (a + b) = Mx.vstack (labRows zk l₁ a) (labRows zk l₂ b) := by
  funext i t
  simp only [labRows, Mx.vstack]
  split
  · rename_i h
    rw [List.getD_eq_getElem?_getD, List.getD_eq_getElem?_getD,
      List.getElem?_append_left (by rw [ha]; exact h)]
  · rename_i h
    rw [List.getD_eq_getElem?_getD, List.getD_eq_getElem?_getD,
      List.getElem?_append_right (by rw [ha]; omega), ha]

/-- `Repro` in matrix form -/
theorem repro_iff {a b s : ℕ} (zk : ℕ → Fin s → K) (Y : Mx K a b) (rk ck : List ℕ) :
    (∀ (i : Fin a) (t : Fin s), ∑ j : Fin b, Y i j * zk (ck.getD j 0) t = zk (rk.getD i 0) t)
      ↔ toM Y * toM (labRows zk ck b) = toM (labRows zk rk a) := by
  constructor
  · intro h; funext i t; simpa [Matrix.mul_apply, labRows] using h i t
  · intro h i t; have := congrFun (congrFun h i) t; simpa [Matrix.mul_apply, labRows] using this
end


/-! ### key sets of the plan -/

/-- keys read through a duplicate-free list of valid indices -/
theorem map_getD_nodup {hay l : List ℕ} (hn : hay.Nodup) (hl : l.Nodup) (hlt : ∀ i ∈ l, i < hay.length) :
    (l.map fun i => hay.getD i 0).Nodup := by
  apply List.Nodup.map_on _ hl
  intro i hi j hj h
  have h1 := hlt i hi
  have h2 := hlt j hj
  simp only [List.getD_eq_getElem?_getD, List.getElem?_eq_getElem h1, List.getElem?_eq_getElem h2,
    Option.getD_some] at h
  exact (List.Nodup.getElem_inj_iff hn).mp h

theorem mem_map_getD {hay l : List ℕ} (hlt : ∀ i ∈ l, i < hay.length) {k : ℕ}
    (h : k ∈ l.map fun i => hay.getD i 0) : k ∈ hay := by
  obtain ⟨i, hi, rfl⟩ := List.mem_map.mp h
  have h1 := hlt i hi
  simp only [List.getD_eq_getElem?_getD, List.getElem?_eq_getElem h1, Option.getD_some]
  exact List.getElem_mem h1

/-- keys of `hay` that are (mask) / are not (complement) among the needles -/
theorem mem_mask_keys {hay l : List ℕ} (hn : hay.Nodup) {k : ℕ} :
    k ∈ (maskIdx (positions hay l) hay.length).map (fun i => hay.getD i 0) ↔ k ∈ hay ∧ k ∈ l := by
  simp only [List.mem_map, mem_maskIdx, mem_positions_iff hn]
  constructor
  · rintro ⟨i, ⟨hi, _, hm⟩, rfl⟩
    refine ⟨?_, hm⟩
    simp only [List.getD_eq_getElem?_getD, List.getElem?_eq_getElem hi, Option.getD_some]
    exact List.getElem_mem hi
  · rintro ⟨hk, hl⟩
    obtain ⟨i, hi, rfl⟩ := List.getElem_of_mem hk
    refine ⟨i, ⟨hi, hi, ?_⟩, ?_⟩ <;>
      simp only [List.getD_eq_getElem?_getD, List.getElem?_eq_getElem hi, Option.getD_some]
    exact hl

theorem mem_compl_keys {hay l : List ℕ} (hn : hay.Nodup) {k : ℕ} :
    k ∈ (complIdx (positions hay l) hay.length).map (fun i => hay.getD i 0) ↔ k ∈ hay ∧ k ∉ l := by
  simp only [List.mem_map, mem_complIdx, mem_positions_iff hn]
  constructor
  · rintro ⟨i, ⟨hi, hnot⟩, rfl⟩
    have e : hay.getD i 0 = hay[i] := by
      simp only [List.getD_eq_getElem?_getD, List.getElem?_eq_getElem hi, Option.getD_some]
    rw [e]
    refine ⟨List.getElem_mem hi, fun hm => hnot ⟨hi, by rw [e]; exact hm⟩⟩
  · rintro ⟨hk, hl⟩
    obtain ⟨i, hi, rfl⟩ := List.getElem_of_mem hk
    have e : hay.getD i 0 = hay[i] := by
      simp only [List.getD_eq_getElem?_getD, List.getElem?_eq_getElem hi, Option.getD_some]
    exact ⟨i, ⟨hi, fun h => hl (by rw [← e]; exact h.2)⟩, e⟩

/-- the columns that remain after the m-set has been taken out, in uset order -/
def restKeys (ddof idof mdof : List ℕ) (nuset : ℕ) : List ℕ :=
  (List.range nuset).filter fun k => (ddof.contains k || idof.contains k) && !mdof.contains k

/-- the final column order of `formrbe3`: `mat_intersect(curdof, usetdof)` -/
theorem colOrd_labels {ddof idof mdof cur : List ℕ} {nuset : ℕ}
    (hmem : ∀ k, k ∈ cur ↔ (k ∈ ddof ∨ k ∈ idof) ∧ k ∉ mdof) :
    (positions cur (List.range nuset)).map (fun i => cur.getD i 0) = restKeys ddof idof mdof nuset := by
  rw [positions_map_getD, restKeys]
  apply List.filter_congr
  intro k _
  rw [Bool.eq_iff_iff]
  simp [hmem k]

/-! ### the three branches with their reordering -/

section
variable {K : Type} [Field K] {s : ℕ}

/-- what `formrbe3` requires of its DOF lists (uset rows): `idof` in uset order, the m-set duplicate-free,
inside the dependent and independent DOF, and as large as the dependent set -/
structure UmAdmissible (ddof idof mdof : List ℕ) (nuset : ℕ) : Prop where
  nodup : (ddof ++ idof).Nodup
  sorted : idof.Pairwise (· < ·)
  lt : ∀ k ∈ ddof ++ idof, k < nuset
  mnodup : mdof.Nodup
  msub : ∀ k ∈ mdof, k ∈ ddof ∨ k ∈ idof
  mlen : mdof.length = ddof.length

variable {ddof idof mdof : List ℕ} {nuset : ℕ}

theorem UmAdmissible.disjoint (adm : UmAdmissible ddof idof mdof nuset) {k : ℕ} (h1 : k ∈ ddof)
    (h2 : k ∈ idof) : False :=
  (List.nodup_append.mp adm.nodup).2.2 k h1 k h2 rfl

/-- m-set = dependent DOF -/
theorem um_dep_repro (adm : UmAdmissible ddof idof mdof nuset)
    (R : Mx K ddof.length idof.length) (Zi : Mx K idof.length s) (Zd : Mx K ddof.length s)
    (h : toM R * toM Zi = toM Zd) (hd0 : 0 < ddof.length) (hi0 : 0 < idof.length)
    (hno : ∀ k ∈ mdof, k ∉ idof) (hpos : 0 < (positions ddof mdof).length) :
    Repro (zKey ddof idof Zd Zi)
      ((R.selRows (idxMap (positions ddof mdof) ddof.length hd0)).reorder hpos hi0
        (List.range (positions ddof mdof).length) (List.range idof.length))
      mdof (restKeys ddof idof mdof nuset)
    ∧ (List.range (positions ddof mdof).length).length = mdof.length
    ∧ (List.range idof.length).length = (restKeys ddof idof mdof nuset).length := by
  have hnd := List.Nodup.of_append_left adm.nodup
  set zk := zKey ddof idof Zd Zi with hzk
  set dpv := positions ddof mdof with hdpv
  have hin : ∀ k ∈ mdof, k ∈ ddof := fun k hk => (adm.msub k hk).resolve_right (hno k hk)
  -- labels of the rows
  have hrk : dpv.map (fun i => ddof.getD i 0) = mdof := by
    rw [hdpv, positions_map_getD, List.filter_eq_self]
    intro k hk; simpa using hin k hk
  have hlen : dpv.length = mdof.length := by rw [← hrk, List.length_map]
  -- the base statement
  have base : Repro zk (R.selRows (idxMap dpv ddof.length hd0)) mdof idof := by
    unfold Repro
    rw [repro_iff, labRows_idof adm.nodup rfl, selRows_mul, h, ← hrk,
      labRows_map_ddof adm.nodup rfl hd0 dpv (fun x hx => positions_lt x hx) rfl]
    rfl
  have re := base.reorder hpos hi0 (List.range dpv.length) (List.range idof.length)
    (fun x hx => List.mem_range.mp hx) (List.Perm.refl _)
  -- labels after the (trivial) reordering
  have e1 : (List.range dpv.length).map (fun x => mdof.getD x 0) = mdof := by
    rw [hlen]; exact range_map_getD mdof
  have mperm : mdof.Perm ddof :=
    (List.subperm_of_subset adm.mnodup hin).perm_of_length_le (by rw [adm.mlen])
  have e2 : (List.range idof.length).map (fun x => idof.getD x 0) = restKeys ddof idof mdof nuset := by
    rw [range_map_getD, restKeys]
    rw [show (List.range nuset).filter (fun k => (ddof.contains k || idof.contains k) && !mdof.contains k)
        = (List.range nuset).filter idof.contains from ?_]
    · exact (filter_range_of_sorted adm.sorted (fun k hk => adm.lt k (List.mem_append_right _ hk))).symm
    · apply List.filter_congr
      intro k _
      rw [Bool.eq_iff_iff]
      have hequiv : ((k ∈ ddof ∨ k ∈ idof) ∧ k ∉ mdof) ↔ k ∈ idof := by
        constructor
        · rintro ⟨h1 | h1, h2⟩
          · exact absurd (mperm.mem_iff.mpr h1) h2
          · exact h1
        · intro h1
          exact ⟨Or.inr h1, fun hm => adm.disjoint (hin k hm) h1⟩
      simpa using hequiv
  rw [e1, e2] at re
  refine ⟨re, by rw [List.length_range, hlen], ?_⟩
  have := congrArg List.length e2
  simpa using this

theorem sum_cast {n m : ℕ} (h : n = m) (g : Fin m → K) : ∑ j : Fin n, g (Fin.cast h j) = ∑ j, g j := by
  subst h; rfl

/-- m-set inside the independent set -/
theorem um_indep_repro (adm : UmAdmissible ddof idof mdof nuset) (solve : Solver K) (hs : ExactSolve solve)
    (R : Mx K ddof.length idof.length) (Zi : Mx K idof.length s) (Zd : Mx K ddof.length s)
    (h : toM R * toM Zi = toM Zd) (hd0 : 0 < ddof.length) (hi0 : 0 < idof.length)
    (hno : ∀ k ∈ mdof, k ∉ ddof) (hlen : (positions idof mdof).length = ddof.length)
    (hinv : IsUnit (toM (R.selCols fun i => idxMap (positions idof mdof) idof.length hi0
      (Fin.cast hlen.symm i))).det) :
    Repro (zKey ddof idof Zd Zi)
      ((umIndep solve R (fun i => idxMap (positions idof mdof) idof.length hi0 (Fin.cast hlen.symm i))
          (idxMap (complIdx (positions idof mdof) idof.length) idof.length hi0)).mx.reorder hd0
        (Nat.add_pos_left hd0 _) (List.range mdof.length)
        (positions (ddof ++ (complIdx (positions idof mdof) idof.length).map fun i => idof.getD i 0)
          (List.range nuset)))
      mdof (restKeys ddof idof mdof nuset)
    ∧ (List.range mdof.length).length = mdof.length
    ∧ (positions (ddof ++ (complIdx (positions idof mdof) idof.length).map fun i => idof.getD i 0)
          (List.range nuset)).length = (restKeys ddof idof mdof nuset).length := by
  have hnd := List.Nodup.of_append_left adm.nodup
  have hni := List.Nodup.of_append_right adm.nodup
  set zk := zKey ddof idof Zd Zi with hzk
  set mpv := positions idof mdof with hmpv
  set notm := complIdx mpv idof.length with hnotm
  set cur := ddof ++ notm.map (fun i => idof.getD i 0) with hcur
  have hin : ∀ k ∈ mdof, k ∈ idof := fun k hk => (adm.msub k hk).resolve_left (hno k hk)
  have hrk : mpv.map (fun i => idof.getD i 0) = mdof := by
    rw [hmpv, positions_map_getD, List.filter_eq_self]
    intro k hk; simpa using hin k hk
  have hmlt : ∀ i ∈ mpv, i < idof.length := fun i hi => positions_lt i hi
  have hnlt : ∀ i ∈ notm, i < idof.length := fun i hi => (mem_complIdx.mp hi).1
  have hperm : (mpv ++ notm).Perm (List.range idof.length) :=
    self_compl_perm (positions_nodup adm.mnodup) hmlt
  have hp : SumSplit K (fun i : Fin ddof.length => idxMap mpv idof.length hi0 (Fin.cast hlen.symm i))
      (idxMap notm idof.length hi0) := by
    intro f
    rw [sum_split_of_perm mpv notm idof.length hi0 hperm f]
    congr 1
    exact (sum_cast hlen.symm fun j => f (idxMap mpv idof.length hi0 j)).symm
  have base : Repro zk (umIndep solve R (fun i => idxMap mpv idof.length hi0 (Fin.cast hlen.symm i))
      (idxMap notm idof.length hi0)).mx mdof cur := by
    unfold Repro
    rw [repro_iff, hcur, labRows_append zk ddof _ notm.length rfl, labRows_ddof adm.nodup rfl,
      labRows_map_idof adm.nodup rfl hi0 notm hnlt rfl]
    conv_rhs => rw [← hrk, labRows_map_idof adm.nodup rfl hi0 mpv hmlt hlen]
    exact umIndep_spec' solve hs R _ _ hp hinv Zi Zd h
  -- the final column order is a permutation
  have hcn : cur.Nodup := by
    rw [hcur, List.nodup_append]
    refine ⟨hnd, map_getD_nodup hni (complIdx_nodup _ _) hnlt, ?_⟩
    intro a ha b hb hab
    subst hab
    exact adm.disjoint ha (mem_map_getD hnlt hb)
  have hclt : ∀ k ∈ cur, k ∈ List.range nuset := by
    intro k hk
    rw [List.mem_range]
    rcases List.mem_append.mp hk with h1 | h1
    · exact adm.lt k (List.mem_append_left _ h1)
    · exact adm.lt k (List.mem_append_right _ (mem_map_getD hnlt h1))
  have hcl : cur.length = ddof.length + notm.length := by simp [hcur]
  have hco : (positions cur (List.range nuset)).Perm (List.range (ddof.length + notm.length)) := by
    rw [← hcl]; exact positions_perm_range hcn List.nodup_range hclt
  have re := base.reorder hd0 (Nat.add_pos_left hd0 _) (List.range mdof.length)
    (positions cur (List.range nuset)) (fun x hx => by rw [← adm.mlen]; exact List.mem_range.mp hx) hco
  have hmem : ∀ k, k ∈ cur ↔ (k ∈ ddof ∨ k ∈ idof) ∧ k ∉ mdof := by
    intro k
    rw [hcur, List.mem_append, hnotm, hmpv, mem_compl_keys hni]
    constructor
    · rintro (h1 | ⟨h1, h2⟩)
      · exact ⟨Or.inl h1, hno k |> fun f hm => f hm h1⟩
      · exact ⟨Or.inr h1, h2⟩
    · rintro ⟨h1 | h1, h2⟩
      · exact Or.inl h1
      · exact Or.inr ⟨h1, h2⟩
  rw [range_map_getD, colOrd_labels hmem] at re
  refine ⟨re, List.length_range, ?_⟩
  have := congrArg List.length (colOrd_labels (nuset := nuset) hmem)
  simpa using this

/-- m-set with dependent and independent DOF -/
theorem um_mixed_repro (adm : UmAdmissible ddof idof mdof nuset) (solve : Solver K) (hs : ExactSolve solve)
    (R : Mx K ddof.length idof.length) (Zi : Mx K idof.length s) (Zd : Mx K ddof.length s)
    (h : toM R * toM Zi = toM Zd) (hd0 : 0 < ddof.length) (hi0 : 0 < idof.length)
    (hc : (complIdx (positions ddof mdof) ddof.length).length
        = (maskIdx (positions idof mdof) idof.length).length
      ∧ 0 < (maskIdx (positions idof mdof) idof.length).length)
    (hinv : IsUnit (toM ((R.selRows fun i => idxMap (complIdx (positions ddof mdof) ddof.length)
        ddof.length hd0 (Fin.cast hc.1.symm i)).selCols
        (idxMap (maskIdx (positions idof mdof) idof.length) idof.length hi0))).det) :
    Repro (zKey ddof idof Zd Zi)
      ((umMixed solve R (idxMap (maskIdx (positions ddof mdof) ddof.length) ddof.length hd0)
          (fun i => idxMap (complIdx (positions ddof mdof) ddof.length) ddof.length hd0
            (Fin.cast hc.1.symm i))
          (idxMap (maskIdx (positions idof mdof) idof.length) idof.length hi0)
          (idxMap (complIdx (positions idof mdof) idof.length) idof.length hi0)).mx.reorder
        (Nat.add_pos_right _ hc.2) (Nat.add_pos_left hc.2 _)
        (positions ((maskIdx (positions ddof mdof) ddof.length).map (fun i => ddof.getD i 0)
            ++ (maskIdx (positions idof mdof) idof.length).map (fun i => idof.getD i 0)) mdof)
        (positions ((complIdx (positions ddof mdof) ddof.length).map (fun i => ddof.getD i 0)
            ++ (complIdx (positions idof mdof) idof.length).map (fun i => idof.getD i 0))
          (List.range nuset)))
      mdof (restKeys ddof idof mdof nuset)
    ∧ (positions ((maskIdx (positions ddof mdof) ddof.length).map (fun i => ddof.getD i 0)
            ++ (maskIdx (positions idof mdof) idof.length).map (fun i => idof.getD i 0)) mdof).length
        = mdof.length
    ∧ (positions ((complIdx (positions ddof mdof) ddof.length).map (fun i => ddof.getD i 0)
            ++ (complIdx (positions idof mdof) idof.length).map (fun i => idof.getD i 0))
          (List.range nuset)).length = (restKeys ddof idof mdof nuset).length := by
  have hnd := List.Nodup.of_append_left adm.nodup
  have hni := List.Nodup.of_append_right adm.nodup
  set zk := zKey ddof idof Zd Zi with hzk
  set dm := maskIdx (positions ddof mdof) ddof.length with hdm
  set dn := complIdx (positions ddof mdof) ddof.length with hdn
  set im := maskIdx (positions idof mdof) idof.length with him
  set inn := complIdx (positions idof mdof) idof.length with hinn
  set didof := dm.map (fun i => ddof.getD i 0) ++ im.map (fun i => idof.getD i 0) with hdidof
  set cur := dn.map (fun i => ddof.getD i 0) ++ inn.map (fun i => idof.getD i 0) with hcur
  have hdmlt : ∀ i ∈ dm, i < ddof.length := fun i hi => (mem_maskIdx.mp hi).1
  have hdnlt : ∀ i ∈ dn, i < ddof.length := fun i hi => (mem_complIdx.mp hi).1
  have himlt : ∀ i ∈ im, i < idof.length := fun i hi => (mem_maskIdx.mp hi).1
  have hinlt : ∀ i ∈ inn, i < idof.length := fun i hi => (mem_complIdx.mp hi).1
  have hp : SumSplit K (idxMap im idof.length hi0) (idxMap inn idof.length hi0) :=
    fun f => sum_split_of_perm im inn idof.length hi0 (mask_compl_perm _ _) f
  have base : Repro zk (umMixed solve R (idxMap dm ddof.length hd0)
      (fun i => idxMap dn ddof.length hd0 (Fin.cast hc.1.symm i)) (idxMap im idof.length hi0)
      (idxMap inn idof.length hi0)).mx didof cur := by
    unfold Repro
    rw [repro_iff, hcur, labRows_append zk _ _ inn.length (by rw [List.length_map]; exact hc.1),
      labRows_map_ddof adm.nodup rfl hd0 dn hdnlt hc.1, labRows_map_idof adm.nodup rfl hi0 inn hinlt rfl,
      hdidof, labRows_append zk _ _ im.length (List.length_map _),
      labRows_map_ddof adm.nodup rfl hd0 dm hdmlt rfl, labRows_map_idof adm.nodup rfl hi0 im himlt rfl]
    exact umMixed_spec' solve hs R _ _ _ _ hp hinv Zi Zd h
  -- rows: `mat_intersect(didof, mdof)`
  have hrows : ∀ x ∈ positions didof mdof, x < dm.length + im.length := by
    intro x hx
    have := positions_lt x hx
    simpa [hdidof] using this
  -- columns: a permutation
  have hcn : cur.Nodup := by
    rw [hcur, List.nodup_append]
    refine ⟨map_getD_nodup hnd (complIdx_nodup _ _) hdnlt, map_getD_nodup hni (complIdx_nodup _ _) hinlt, ?_⟩
    intro a ha b hb hab
    subst hab
    exact adm.disjoint (mem_map_getD hdnlt ha) (mem_map_getD hinlt hb)
  have hclt : ∀ k ∈ cur, k ∈ List.range nuset := by
    intro k hk
    rw [List.mem_range]
    rcases List.mem_append.mp hk with h1 | h1
    · exact adm.lt k (List.mem_append_left _ (mem_map_getD hdnlt h1))
    · exact adm.lt k (List.mem_append_right _ (mem_map_getD hinlt h1))
  have hcl : cur.length = im.length + inn.length := by simp [hcur, hc.1]
  have hco : (positions cur (List.range nuset)).Perm (List.range (im.length + inn.length)) := by
    rw [← hcl]; exact positions_perm_range hcn List.nodup_range hclt
  have re := base.reorder (Nat.add_pos_right _ hc.2) (Nat.add_pos_left hc.2 _) (positions didof mdof)
    (positions cur (List.range nuset)) hrows hco
  have hrk : (positions didof mdof).map (fun i => didof.getD i 0) = mdof := by
    rw [positions_map_getD, List.filter_eq_self]
    intro k hk
    simp only [List.contains_iff_mem, hdidof, List.mem_append, hdm, him, mem_mask_keys hnd, mem_mask_keys hni]
    rcases adm.msub k hk with h1 | h1
    · exact Or.inl ⟨h1, hk⟩
    · exact Or.inr ⟨h1, hk⟩
  have hmem : ∀ k, k ∈ cur ↔ (k ∈ ddof ∨ k ∈ idof) ∧ k ∉ mdof := by
    intro k
    rw [hcur, List.mem_append, hdn, hinn, mem_compl_keys hnd, mem_compl_keys hni]
    constructor
    · rintro (⟨h1, h2⟩ | ⟨h1, h2⟩)
      · exact ⟨Or.inl h1, h2⟩
      · exact ⟨Or.inr h1, h2⟩
    · rintro ⟨h1 | h1, h2⟩
      · exact Or.inl ⟨h1, h2⟩
      · exact Or.inr ⟨h1, h2⟩
  rw [hrk, colOrd_labels hmem] at re
  refine ⟨re, ?_, ?_⟩
  · have := congrArg List.length hrk
    simpa using this
  · have := congrArg List.length (colOrd_labels (nuset := nuset) hmem)
    simpa using this
end

/-! ### any admissible `UM_List` -/

section
variable {K : Type} [Field K] {s : ℕ} {ddof idof mdof : List ℕ} {nuset : ℕ}

/-- `formrbe3` with any admissible `UM_List`: whatever branch the bookkeeping takes, the returned matrix maps
the rigid-body rows of the remaining DOF (uset order) to the rigid-body rows of the m-set DOF -/
theorem umApplyMx_repro (adm : UmAdmissible ddof idof mdof nuset) (solve : Solver K) (hs : ExactSolve solve)
    (R : Mx K ddof.length idof.length) (Zi : Mx K idof.length s) (Zd : Mx K ddof.length s)
    (h : toM R * toM Zi = toM Zd) (hd0 : 0 < ddof.length) (hi0 : 0 < idof.length)
    {p : UmPlan} (hp : umPlan ddof idof mdof nuset = some p)
    {Y : Mx K p.rowOrd.length p.colOrd.length} (hY : umApplyMx solve hd0 hi0 R p = some Y)
    (hinvI : p.branch = .indep → ∀ hl : p.im.length = ddof.length,
      IsUnit (toM (R.selCols fun i => idxMap p.im idof.length hi0 (Fin.cast hl.symm i))).det)
    (hinvM : p.branch = .mixed → ∀ hl : p.dn.length = p.im.length,
      IsUnit (toM ((R.selRows fun i => idxMap p.dn ddof.length hd0 (Fin.cast hl.symm i)).selCols
        (idxMap p.im idof.length hi0))).det) :
    Repro (zKey ddof idof Zd Zi) Y mdof (restKeys ddof idof mdof nuset)
      ∧ p.rowOrd.length = mdof.length ∧ p.colOrd.length = (restKeys ddof idof mdof nuset).length := by
  unfold umPlan at hp
  simp only [] at hp
  by_cases hd : (positions ddof mdof).isEmpty = true
  · have hno := positions_isEmpty.mp hd
    simp only [hd, if_true] at hp
    split at hp
    · simp only [Option.some.injEq] at hp
      subst hp
      unfold umApplyMx at hY
      simp only [] at hY
      split at hY
      · cases hY
      · split at hY
        · rename_i hl
          simp only [Option.some.injEq] at hY
          subst hY
          exact um_indep_repro adm solve hs R Zi Zd h hd0 hi0 hno hl (hinvI rfl hl)
        · cases hY
    · cases hp
  · simp only [hd, Bool.false_eq_true, if_false] at hp
    by_cases hi : (positions idof mdof).isEmpty = true
    · have hno := positions_isEmpty.mp hi
      simp only [hi, if_true, Option.some.injEq] at hp
      subst hp
      unfold umApplyMx at hY
      simp only [] at hY
      split at hY
      · cases hY
      · split at hY
        · rename_i hpos
          simp only [Option.some.injEq] at hY
          subst hY
          exact um_dep_repro adm R Zi Zd h hd0 hi0 hno hpos
        · cases hY
    · simp only [hi, Bool.false_eq_true, if_false, Option.some.injEq] at hp
      subst hp
      unfold umApplyMx at hY
      simp only [] at hY
      split at hY
      · cases hY
      · split at hY
        · rename_i hc
          simp only [Option.some.injEq] at hY
          subst hY
          exact um_mixed_repro adm solve hs R Zi Zd h hd0 hi0 hc (hinvM rfl hc.1)
        · cases hY
end

end PyYetiVerif.Coord
