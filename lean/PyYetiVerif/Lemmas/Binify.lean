import PyYetiVerif.Model.Binify
import Mathlib.Algebra.Order.Field.Basic
import Mathlib.Algebra.BigOperators.Group.List.Basic
import Mathlib.Tactic.Ring
import Mathlib.Tactic.Linarith
/-! Helper lemmas for C10 / binning. -/
set_option linter.unusedSectionVars false
set_option linter.unusedVariables false
namespace PyYetiVerif.Binify

section order
variable {α : Type} [LinearOrder α]

/-- the predicate counted by `digitize` -/
def below (right : Bool) (x b : α) : Bool := if right then decide (b < x) else !decide (x < b)

theorem digitize_eq (right : Bool) (x : α) (bins : List α) :
    digitize right x bins = (bins.filter (below right x)).length := rfl

theorem below_mono (right : Bool) (x b b' : α) (h : b ≤ b') (hb : below right x b' = true) :
    below right x b = true := by
  unfold below at *
  cases right <;> simp at * <;> [exact le_trans h hb; exact lt_of_le_of_lt h hb]

theorem filter_nil_of_not_below (right : Bool) (x hi : α) (t : List α)
    (hs : List.Pairwise (· < ·) (hi :: t)) (hh : below right x hi = false) :
    (hi :: t).filter (below right x) = [] := by
  rw [List.filter_eq_nil_iff]
  intro b hb
  rcases List.mem_cons.mp hb with rfl | hb
  · simp [hh]
  · have : hi < b := (List.pairwise_cons.mp hs).1 b hb
    intro hbt
    have := below_mono right x hi b (le_of_lt this) hbt
    rw [hh] at this; cases this

theorem digitize_index (right : Bool) (x : α) (bins : List α) :
    ∀ (k : Nat) (lo hi : α), List.Pairwise (· < ·) bins → bins[k]? = some lo → bins[k + 1]? = some hi →
      below right x lo = true → below right x hi = false → digitize right x bins = k + 1 := by
  induction bins with
  | nil => intro k lo hi _ h; simp at h
  | cons a t ih =>
      intro k lo hi hs hlo hhi hl hh
      rw [digitize_eq]
      cases k with
      | zero =>
          simp only [List.getElem?_cons_zero, Option.some.injEq] at hlo
          subst hlo
          simp only [zero_add, List.getElem?_cons_succ] at hhi
          cases t with
          | nil => simp at hhi
          | cons b t' =>
              simp only [List.getElem?_cons_zero, Option.some.injEq] at hhi
              subst hhi
              rw [List.filter_cons_of_pos (by simpa using hl),
                filter_nil_of_not_below right x b t' (List.pairwise_cons.mp hs).2 hh]
              rfl
      | succ k =>
          simp only [List.getElem?_cons_succ] at hlo hhi
          have hal : a < lo := (List.pairwise_cons.mp hs).1 lo (List.mem_of_getElem? hlo)
          have ha : below right x a = true := below_mono right x a lo (le_of_lt hal) hl
          rw [List.filter_cons_of_pos (by simpa using ha), List.length_cons]
          have := ih k lo hi (List.pairwise_cons.mp hs).2 hlo hhi hl hh
          rw [digitize_eq] at this
          omega

theorem inBin_below (right : Bool) (lo hi x : α) (h : inBin right lo hi x) :
    below right x lo = true ∧ below right x hi = false := by
  unfold inBin at h
  unfold below
  cases right <;> simp at * <;> exact h

end order

section table
variable {β : Type} [AddCommMonoid β]

theorem bump_length (w : β) (k : Nat) (l : List β) : (bump w k l).length = l.length := by
  induction l generalizing k with
  | nil => cases k <;> simp [bump]
  | cons x r ih => cases k <;> simp [bump, ih]

theorem sum_bump (w : β) (k : Nat) (l : List β) (h : k < l.length) :
    (bump w k l).sum = l.sum + w := by
  induction l generalizing k with
  | nil => simp at h
  | cons x r ih =>
      cases k with
      | zero => simp [bump, add_right_comm]
      | succ k =>
          simp only [bump, List.sum_cons, List.length_cons] at h ⊢
          rw [ih k (by omega), add_assoc]

theorem bump2_shape (w : β) (nr : Nat) (i j : Nat) (T : List (List β))
    (hT : ∀ row ∈ T, row.length = nr) :
    (bump2 w i j T).length = T.length ∧ ∀ row ∈ bump2 w i j T, row.length = nr := by
  induction T generalizing i with
  | nil => simp [bump2]
  | cons row T ih =>
      cases i with
      | zero =>
          simp only [bump2, List.length_cons, List.mem_cons, true_and]
          rintro r (rfl | hr)
          · rw [bump_length]; exact hT row (by simp)
          · exact hT r (by simp [hr])
      | succ i =>
          obtain ⟨h1, h2⟩ := ih i (fun r hr => hT r (by simp [hr]))
          simp only [bump2, List.length_cons, h1, List.mem_cons, true_and]
          rintro r (rfl | hr)
          · exact hT r (by simp)
          · exact h2 r hr

theorem tableSum_bump2 (w : β) (nr : Nat) (i j : Nat) (T : List (List β))
    (hT : ∀ row ∈ T, row.length = nr) (hi : i < T.length) (hj : j < nr) :
    tableSum (bump2 w i j T) = tableSum T + w := by
  induction T generalizing i with
  | nil => simp at hi
  | cons row T ih =>
      cases i with
      | zero =>
          simp only [bump2, tableSum, List.map_cons, List.sum_cons]
          rw [sum_bump w j row (by rw [hT row (by simp)]; exact hj)]
          rw [add_right_comm]
      | succ i =>
          have := ih i (fun r hr => hT r (by simp [hr])) (by simpa using hi)
          simp only [tableSum, bump2, List.map_cons, List.sum_cons] at this ⊢
          rw [this, add_assoc]

theorem tableSum_zeros (nm nr : Nat) : tableSum (zeros nm nr : List (List β)) = 0 := by
  unfold tableSum zeros
  induction nm with
  | zero => simp
  | succ n ih => simp [List.replicate_succ]

end table

end PyYetiVerif.Binify
