import Mathlib.Algebra.BigOperators.Fin
import Mathlib.Algebra.BigOperators.Ring.Finset
import Mathlib.Data.Matrix.Mul
import Mathlib.Data.Fintype.BigOperators
import Mathlib.Data.List.Perm.Basic
import Mathlib.Data.List.Range
import Mathlib.Data.List.Nodup
import PyYetiVerif.Model.NTCbtf
/-!
Helper lemmas for `Props/C15b.lean`: the function-matrix operations of `Model/NTCbtf.lean` are
Mathlib's at a commutative (semi)ring; a sum over the model DOF splits into the b-set and the q-set
part for ANY pair `bpos`, `qpos` that partitions the DOF; `flippv`.
-/
namespace PyYetiVerif.NT
open Matrix

theorem fsum_eq_sum {α : Type} [AddCommMonoid α] : ∀ (n : Nat) (f : Fin n → α), fsum n f = ∑ i, f i
  | 0, f => by simp [fsum]
  | n + 1, f => by rw [fsum, fsum_eq_sum n, Fin.sum_univ_castSucc]

theorem fmulVec_eq {α : Type} [NonUnitalNonAssocSemiring α] {m n : Nat} (A : Fin m → Fin n → α)
    (x : Fin n → α) : fmulVec A x = Matrix.mulVec (Matrix.of A) x := by
  funext i
  simp [fmulVec, fsum_eq_sum, Matrix.mulVec, dotProduct]

/-- `bpos`, `qpos`, `loc` describe a partition of the model DOF into b-set and q-set positions -/
structure IsPartition {n r nq : Nat} (bpos : Fin r → Fin n) (qpos : Fin nq → Fin n)
    (loc : Fin n → Fin r ⊕ Fin nq) : Prop where
  left : ∀ i, Sum.elim bpos qpos (loc i) = i
  right : ∀ x, loc (Sum.elim bpos qpos x) = x

namespace IsPartition
variable {n r nq : Nat} {bpos : Fin r → Fin n} {qpos : Fin nq → Fin n} {loc : Fin n → Fin r ⊕ Fin nq}

/-- the partition as an equivalence `b ⊕ q ≃ model DOF` -/
def equiv (h : IsPartition bpos qpos loc) : Fin r ⊕ Fin nq ≃ Fin n :=
  ⟨Sum.elim bpos qpos, loc, h.right, h.left⟩

theorem loc_bpos (h : IsPartition bpos qpos loc) (l : Fin r) : loc (bpos l) = .inl l :=
  h.right (.inl l)

theorem loc_qpos (h : IsPartition bpos qpos loc) (k : Fin nq) : loc (qpos k) = .inr k :=
  h.right (.inr k)

/-- a sum over the model DOF = sum over the b-set positions + sum over the q-set positions -/
theorem sum_split {α : Type} [AddCommMonoid α] (h : IsPartition bpos qpos loc) (g : Fin n → α) :
    ∑ i, g i = ∑ l, g (bpos l) + ∑ k, g (qpos k) := by
  rw [← Equiv.sum_comp h.equiv g, Fintype.sum_sum_type]
  rfl

end IsPartition

/-! ## `flippv` -/

theorem mem_flippv (bset : List Nat) (n i : Nat) : i ∈ flippv bset n ↔ i < n ∧ i ∉ bset := by
  simp [flippv]

/-- the q-set is ascending whatever the order of the b-set -/
theorem flippv_sorted (bset : List Nat) (n : Nat) : (flippv bset n).Pairwise (· < ·) :=
  List.Pairwise.filter _ List.pairwise_lt_range

theorem flippv_nodup (bset : List Nat) (n : Nat) : (flippv bset n).Nodup :=
  List.Nodup.filter _ List.nodup_range

/-- b-set (in ANY order, without repetition, inside the model) followed by `flippv` lists every
model DOF exactly once -/
theorem flippv_perm (bset : List Nat) (n : Nat) (hnd : bset.Nodup) (hlt : ∀ i ∈ bset, i < n) :
    (bset ++ flippv bset n).Perm (List.range n) := by
  rw [List.perm_ext_iff_of_nodup _ List.nodup_range]
  · intro i
    rw [List.mem_append, mem_flippv, List.mem_range]
    constructor
    · rintro (h | h)
      · exact hlt i h
      · exact h.1
    · intro h
      by_cases hb : i ∈ bset
      · exact Or.inl hb
      · exact Or.inr ⟨h, hb⟩
  · rw [List.nodup_append]
    refine ⟨hnd, flippv_nodup _ _, ?_⟩
    intro a ha b hb hab
    subst hab
    exact ((mem_flippv _ _ _).1 hb).2 ha

/-! ## positions in the partition vector -/

theorem posOf_some {x : Nat} : ∀ {l : List Nat} {k : Nat}, posOf x l = some k → l[k]? = some x
  | [], k, h => by simp [posOf] at h
  | y :: t, k, h => by
    unfold posOf at h
    split at h
    · rename_i hy
      cases h
      simp [hy]
    · rcases hp : posOf x t with _ | k'
      · simp [hp] at h
      · simp [hp] at h
        subst h
        simpa using posOf_some hp

theorem posOf_none {x : Nat} : ∀ {l : List Nat}, posOf x l = none ↔ x ∉ l
  | [] => by simp [posOf]
  | y :: t => by
    unfold posOf
    by_cases hy : y = x
    · simp [hy]
    · have := @posOf_none x t
      simp [hy, this, Ne.symm hy]

theorem posOf_of_getElem? {x : Nat} : ∀ {l : List Nat} {k : Nat}, l.Nodup → l[k]? = some x → posOf x l = some k
  | [], k, _, h => by simp at h
  | y :: t, 0, _, h => by
    simp at h
    simp [posOf, h]
  | y :: t, k + 1, hnd, h => by
    have hnd' := List.nodup_cons.1 hnd
    have h' : t[k]? = some x := by simpa using h
    have hmem : x ∈ t := List.mem_of_getElem? h'
    have hne : y ≠ x := fun e => hnd'.1 (e ▸ hmem)
    simp [posOf, hne, posOf_of_getElem? hnd'.2 h']


theorem ofNat_val {n : Nat} [NeZero n] {a : Nat} (h : a < n) : (Fin.ofNat n a).1 = a := by
  simp [Fin.ofNat, Nat.mod_eq_of_lt h]

theorem ofNat_fin {n : Nat} [NeZero n] (i : Fin n) : Fin.ofNat n i.1 = i :=
  Fin.ext (ofNat_val i.2)


end PyYetiVerif.NT
