import PyYetiVerif.Lemmas.NewmarkEnergyVec
import PyYetiVerif.Lemmas.NewmarkSeq
import Mathlib.Tactic.Module
import PyYetiVerif.Lemmas.NewmarkTaylorVec
import Mathlib.Analysis.Real.Sqrt
import Mathlib.Algebra.BigOperators.Group.Finset.Basic
import Mathlib.Algebra.Order.BigOperators.Group.Finset
/-!
Energy method for the FORCED Newmark-beta recurrence with full matrices (C17): `V` a real inner product space,
`M`, `K` symmetric, `K ≥ 0`, `⟪B x, x⟫ ≥ 0`, and `M ≥ μ²` (`μ² ‖x‖² ≤ ⟪M x, x⟫`, `μ > 0`).

`energyV_step_le` / `energyV_sum_le`: `√E` grows by at most `h ‖g‖ / μ` per step (no exponential factor, any
`h > 0`); `dispV_sum_le`; `conv_core_V`: stability + consistency ⇒ convergence for abstract sequences;
`dseqV_rec`: the model's displacement sequence in residual form; `truncV`, `truncV_norm_le`: the local
truncation error of the three-point recurrence for a vector-valued solution with four bounded derivatives.
-/
namespace PyYetiVerif.Newmark
open InnerProductSpace

variable {V : Type*} [NormedAddCommGroup V] [InnerProductSpace ℝ V]

theorem quadK_nonneg (K : V →ₗ[ℝ] V) (hK : ∀ x y, ⟪K x, y⟫_ℝ = ⟪x, K y⟫_ℝ) (hKp : ∀ x, 0 ≤ ⟪K x, x⟫_ℝ)
    (x y : V) : 0 ≤ ⟪K x, x⟫_ℝ + ⟪K x, y⟫_ℝ + ⟪K y, y⟫_ℝ := by
  have h2 := hKp ((2 : ℝ)⁻¹ • x + y)
  simp only [map_add, map_smul, inner_add_left, inner_add_right, real_inner_smul_left,
    real_inner_smul_right] at h2
  rw [sym_swap K hK y x] at h2
  nlinarith [hKp x]

/-- `‖x − y‖ ≤ (h/μ) R` when `E(x, y) ≤ R²` and `M ≥ μ²` -/
theorem normdiff_le_of_energyV (M K : V →ₗ[ℝ] V) (h μ R : ℝ) (x y : V)
    (hK : ∀ x y, ⟪K x, y⟫_ℝ = ⟪x, K y⟫_ℝ) (hKp : ∀ x, 0 ≤ ⟪K x, x⟫_ℝ)
    (hMlow : ∀ z, μ ^ 2 * ‖z‖ ^ 2 ≤ ⟪M z, z⟫_ℝ) (hμ : 0 < μ) (hh : 0 < h) (hR : 0 ≤ R)
    (hE : energyV M K h x y ≤ R ^ 2) : ‖x - y‖ ≤ h / μ * R := by
  have hq := quadK_nonneg K hK hKp x y
  have h1 : (h * h)⁻¹ * ⟪M (x - y), x - y⟫_ℝ ≤ R ^ 2 := by
    unfold energyV at hE
    have : 0 ≤ (3 : ℝ)⁻¹ * (⟪K x, x⟫_ℝ + ⟪K x, y⟫_ℝ + ⟪K y, y⟫_ℝ) := by positivity
    linarith
  have h2 := hMlow (x - y)
  have hpos : 0 < h * h := by positivity
  have h3 : ⟪M (x - y), x - y⟫_ℝ ≤ (h * h) * R ^ 2 := by
    calc ⟪M (x - y), x - y⟫_ℝ = (h * h) * ((h * h)⁻¹ * ⟪M (x - y), x - y⟫_ℝ) := by field_simp
      _ ≤ (h * h) * R ^ 2 := mul_le_mul_of_nonneg_left h1 hpos.le
  have h4 : (μ * ‖x - y‖) ^ 2 ≤ (h * R) ^ 2 := by nlinarith
  have h5 := abs_le_of_sq_le_sq h4 (by positivity)
  rw [abs_of_nonneg (by positivity)] at h5
  rw [show h / μ * R = h * R / μ by ring, le_div_iff₀ hμ]
  linarith

/-- one step of the stability estimate for full matrices -/
theorem energyV_step_le (M B K : V →ₗ[ℝ] V) (h : ℝ) (g u2 u1 u0 : V) (μ R : ℝ)
    (hM : ∀ x y, ⟪M x, y⟫_ℝ = ⟪x, M y⟫_ℝ) (hK : ∀ x y, ⟪K x, y⟫_ℝ = ⟪x, K y⟫_ℝ)
    (hBp : ∀ x, 0 ≤ ⟪B x, x⟫_ℝ) (hKp : ∀ x, 0 ≤ ⟪K x, x⟫_ℝ)
    (hMlow : ∀ z, μ ^ 2 * ‖z‖ ^ 2 ≤ ⟪M z, z⟫_ℝ) (hμ : 0 < μ) (hh : 0 < h) (hR : 0 ≤ R)
    (hrec : fullA M B K h u2 = g + fullA1 M K h u1 + fullA0 M B K h u0)
    (hE0 : energyV M K h u1 u0 ≤ R ^ 2) :
    energyV M K h u2 u1 ≤ (R + h * ‖g‖ / μ) ^ 2 := by
  have hMp : ∀ x, 0 ≤ ⟪M x, x⟫_ℝ := fun x => le_trans (by positivity) (hMlow x)
  have hE1 := energyV_nonneg M K h u2 u1 hK hMp hKp
  set a := Real.sqrt (energyV M K h u2 u1) with ha
  have ha0 : 0 ≤ a := Real.sqrt_nonneg _
  have ha2 : a ^ 2 = energyV M K h u2 u1 := Real.sq_sqrt hE1
  have d1 := normdiff_le_of_energyV M K h μ a u2 u1 hK hKp hMlow hμ hh ha0 ha2.ge
  have d0 := normdiff_le_of_energyV M K h μ R u1 u0 hK hKp hMlow hμ hh hR hE0
  have hid := energyV_identity M B K h g u2 u1 u0 hM hK hrec
  have hdiss : 0 ≤ (2 * h)⁻¹ * ⟪B (u2 - u0), u2 - u0⟫_ℝ := mul_nonneg (by positivity) (hBp _)
  have hgw : ⟪g, u2 - u0⟫_ℝ ≤ ‖g‖ * (‖u2 - u1‖ + ‖u1 - u0‖) := by
    have tri : ‖u2 - u0‖ ≤ ‖u2 - u1‖ + ‖u1 - u0‖ := by
      have : u2 - u0 = (u2 - u1) + (u1 - u0) := by abel
      rw [this]; exact norm_add_le _ _
    calc ⟪g, u2 - u0⟫_ℝ ≤ ‖g‖ * ‖u2 - u0‖ := real_inner_le_norm _ _
      _ ≤ ‖g‖ * (‖u2 - u1‖ + ‖u1 - u0‖) := mul_le_mul_of_nonneg_left tri (norm_nonneg _)
  set δ := h * ‖g‖ / μ with hδ
  have hδ0 : 0 ≤ δ := by rw [hδ]; positivity
  have key : a ^ 2 ≤ R ^ 2 + δ * (a + R) := by
    have e1 : ‖g‖ * (‖u2 - u1‖ + ‖u1 - u0‖) ≤ ‖g‖ * (h / μ * a + h / μ * R) :=
      mul_le_mul_of_nonneg_left (add_le_add d1 d0) (norm_nonneg _)
    have e2 : ‖g‖ * (h / μ * a + h / μ * R) = δ * (a + R) := by rw [hδ]; ring
    rw [ha2]
    linarith
  have hle : a ≤ R + δ := by
    by_contra hcon
    push Not at hcon
    nlinarith
  rw [← ha2]
  exact pow_le_pow_left₀ ha0 hle 2

open Finset in
/-- summed stability estimate for a whole history: no exponential factor, any step size -/
theorem energyV_sum_le (M B K : V →ₗ[ℝ] V) (h μ R : ℝ) (u g : ℕ → V)
    (hM : ∀ x y, ⟪M x, y⟫_ℝ = ⟪x, M y⟫_ℝ) (hK : ∀ x y, ⟪K x, y⟫_ℝ = ⟪x, K y⟫_ℝ)
    (hBp : ∀ x, 0 ≤ ⟪B x, x⟫_ℝ) (hKp : ∀ x, 0 ≤ ⟪K x, x⟫_ℝ)
    (hMlow : ∀ z, μ ^ 2 * ‖z‖ ^ 2 ≤ ⟪M z, z⟫_ℝ) (hμ : 0 < μ) (hh : 0 < h) (hR : 0 ≤ R)
    (hrec : ∀ n, fullA M B K h (u (n + 2)) = g n + fullA1 M K h (u (n + 1)) + fullA0 M B K h (u n))
    (hE0 : energyV M K h (u 1) (u 0) ≤ R ^ 2) (n : ℕ) :
    energyV M K h (u (n + 1)) (u n) ≤ (R + h / μ * ∑ j ∈ range n, ‖g j‖) ^ 2 := by
  induction n with
  | zero => simpa using hE0
  | succ n ih =>
    have hs : 0 ≤ ∑ j ∈ range n, ‖g j‖ := sum_nonneg fun _ _ => norm_nonneg _
    have hR' : 0 ≤ R + h / μ * ∑ j ∈ range n, ‖g j‖ := by positivity
    have := energyV_step_le M B K h (g n) (u (n + 2)) (u (n + 1)) (u n) μ _ hM hK hBp hKp hMlow hμ hh hR'
      (hrec n) ih
    rw [sum_range_succ]
    calc energyV M K h (u (n + 1 + 1)) (u (n + 1))
        ≤ (R + h / μ * ∑ j ∈ range n, ‖g j‖ + h * ‖g n‖ / μ) ^ 2 := this
      _ = (R + h / μ * (∑ j ∈ range n, ‖g j‖ + ‖g n‖)) ^ 2 := by ring

open Finset in
/-- displacement from the velocities: `‖u_n − u_0‖ ≤ (h/μ) Σ_{j<n} R_j` whenever `E_j ≤ R_j²` -/
theorem dispV_sum_le (M K : V →ₗ[ℝ] V) (h μ : ℝ) (u : ℕ → V) (Rs : ℕ → ℝ)
    (hK : ∀ x y, ⟪K x, y⟫_ℝ = ⟪x, K y⟫_ℝ) (hKp : ∀ x, 0 ≤ ⟪K x, x⟫_ℝ)
    (hMlow : ∀ z, μ ^ 2 * ‖z‖ ^ 2 ≤ ⟪M z, z⟫_ℝ) (hμ : 0 < μ) (hh : 0 < h) (n : ℕ)
    (hRs : ∀ j < n, 0 ≤ Rs j ∧ energyV M K h (u (j + 1)) (u j) ≤ Rs j ^ 2) :
    ‖u n - u 0‖ ≤ h / μ * ∑ j ∈ range n, Rs j := by
  induction n with
  | zero => simp
  | succ n ih =>
    have ih' := ih fun j hj => hRs j (Nat.lt_succ_of_lt hj)
    obtain ⟨hR0, hE⟩ := hRs n (Nat.lt_succ_self n)
    have b2 := normdiff_le_of_energyV M K h μ (Rs n) (u (n + 1)) (u n) hK hKp hMlow hμ hh hR0 hE
    have tri : ‖u (n + 1) - u 0‖ ≤ ‖u (n + 1) - u n‖ + ‖u n - u 0‖ := by
      have : u (n + 1) - u 0 = (u (n + 1) - u n) + (u n - u 0) := by abel
      rw [this]; exact norm_add_le _ _
    rw [sum_range_succ, mul_add]
    linarith

open Finset in
/-- Core of the convergence proof for full matrices.  `e` satisfies the recurrence forced by `g`, starts at `0`,
the energy of its first pair is `≤ R0²`, the forcing is `≤ G` (plus `D` at the first pass) on the first `N`
passes, and `(N + 1) h ≤ T`.  Then every member up to index `N + 1` has norm at most
`(T/μ) (R0 + (T G + h D)/μ)` and the energy of consecutive members stays below the square of the bracket. -/
theorem conv_core_V (M B K : V →ₗ[ℝ] V) (h T μ R0 G D : ℝ) (e g : ℕ → V) (N : ℕ)
    (hM : ∀ x y, ⟪M x, y⟫_ℝ = ⟪x, M y⟫_ℝ) (hK : ∀ x y, ⟪K x, y⟫_ℝ = ⟪x, K y⟫_ℝ)
    (hBp : ∀ x, 0 ≤ ⟪B x, x⟫_ℝ) (hKp : ∀ x, 0 ≤ ⟪K x, x⟫_ℝ)
    (hMlow : ∀ z, μ ^ 2 * ‖z‖ ^ 2 ≤ ⟪M z, z⟫_ℝ) (hμ : 0 < μ) (hh : 0 < h)
    (hR0 : 0 ≤ R0) (hG : 0 ≤ G) (hD : 0 ≤ D) (hNT : ((N : ℝ) + 1) * h ≤ T)
    (hrec : ∀ n, fullA M B K h (e (n + 2)) = g n + fullA1 M K h (e (n + 1)) + fullA0 M B K h (e n))
    (he0 : e 0 = 0) (hE0 : energyV M K h (e 1) (e 0) ≤ R0 ^ 2)
    (hg0 : 1 ≤ N → ‖g 0‖ ≤ G + D) (hgj : ∀ j, 1 ≤ j → j < N → ‖g j‖ ≤ G) :
    (∀ j, j ≤ N → energyV M K h (e (j + 1)) (e j) ≤ (R0 + (T * G + h * D) / μ) ^ 2) ∧
    ∀ n, n ≤ N + 1 → ‖e n‖ ≤ T / μ * (R0 + (T * G + h * D) / μ) := by
  have hN0 : (0 : ℝ) ≤ N := Nat.cast_nonneg N
  have hhT : h ≤ T := by nlinarith
  have hNh : (N : ℝ) * h ≤ T := by nlinarith
  have hT : 0 < T := lt_of_lt_of_le hh hhT
  have hS : ∀ j, j ≤ N → ∑ i ∈ range j, ‖g i‖ ≤ j * G + D := by
    intro j
    induction j with
    | zero => intro _; simpa using hD
    | succ j ih =>
      intro hj
      rw [sum_range_succ]
      rcases Nat.eq_zero_or_pos j with rfl | hpos
      · simpa using hg0 hj
      · have := ih (Nat.le_of_succ_le hj)
        have hgj' := hgj j hpos (Nat.lt_of_succ_le hj)
        push_cast
        linarith
  set Rbar := R0 + (T * G + h * D) / μ with hRbar
  have hRbar0 : 0 ≤ Rbar := by positivity
  have hEj : ∀ j, j ≤ N → energyV M K h (e (j + 1)) (e j) ≤ Rbar ^ 2 := by
    intro j hj
    have h1 := energyV_sum_le M B K h μ R0 e g hM hK hBp hKp hMlow hμ hh hR0 hrec hE0 j
    have hs0 : 0 ≤ ∑ i ∈ range j, ‖g i‖ := sum_nonneg fun _ _ => norm_nonneg _
    have hjN : (j : ℝ) ≤ N := Nat.cast_le.mpr hj
    have h2 : h / μ * ∑ i ∈ range j, ‖g i‖ ≤ (T * G + h * D) / μ := by
      have hb1 : ∑ i ∈ range j, ‖g i‖ ≤ N * G + D := by
        have := hS j hj
        have : (j : ℝ) * G ≤ N * G := mul_le_mul_of_nonneg_right hjN hG
        linarith
      have hb2 : h * (N * G + D) ≤ T * G + h * D := by nlinarith
      calc h / μ * ∑ i ∈ range j, ‖g i‖ ≤ h / μ * (N * G + D) :=
            mul_le_mul_of_nonneg_left hb1 (by positivity)
        _ = h * (N * G + D) / μ := by ring
        _ ≤ (T * G + h * D) / μ := div_le_div_of_nonneg_right hb2 hμ.le
    refine le_trans h1 (pow_le_pow_left₀ (by positivity) ?_ 2)
    rw [hRbar]; linarith
  refine ⟨hEj, ?_⟩
  intro n hn
  have hd := dispV_sum_le M K h μ e (fun _ => Rbar) hK hKp hMlow hμ hh n fun j hj =>
    ⟨hRbar0, hEj j (by omega)⟩
  rw [he0, sub_zero, sum_const, card_range, nsmul_eq_mul] at hd
  have hnT : (n : ℝ) * h ≤ T := by
    have : (n : ℝ) ≤ N + 1 := by exact_mod_cast hn
    nlinarith
  calc ‖e n‖ ≤ h / μ * (n * Rbar) := hd
    _ = (n * h) / μ * Rbar := by ring
    _ ≤ T / μ * Rbar := by
        apply mul_le_mul_of_nonneg_right _ hRbar0
        exact div_le_div_of_nonneg_right hnT hμ.le

/-! ### local truncation error for a vector-valued solution -/

/-- residual of the exact solution `u` in the three-point recurrence centred at `t`, force `f` -/
noncomputable def truncV (M B K : V →ₗ[ℝ] V) (h : ℝ) (u f : ℝ → V) (t : ℝ) : V :=
  fullA M B K h (u (t + h)) - fullA1 M K h (u t) - fullA0 M B K h (u (t - h))
    - (3 : ℝ)⁻¹ • (f (t + h) + f t + f (t - h))

/-- the `K` terms cancel -/
theorem truncV_eq (M B K : V →ₗ[ℝ] V) (h : ℝ) (u u1 u2 f : ℝ → V) (t : ℝ) (hh : h ≠ 0)
    (hp : M (u2 (t + h)) + B (u1 (t + h)) + K (u (t + h)) = f (t + h))
    (h0 : M (u2 t) + B (u1 t) + K (u t) = f t)
    (hn : M (u2 (t - h)) + B (u1 (t - h)) + K (u (t - h)) = f (t - h)) :
    truncV M B K h u f t
      = M ((h ^ 2)⁻¹ • (u (t + h) + u (t - h) - (2 : ℝ) • u t - (h ^ 2) • u2 t)
            - (3 : ℝ)⁻¹ • (u2 (t + h) + u2 (t - h) - (2 : ℝ) • u2 t))
        + B ((2 * h)⁻¹ • (u (t + h) - u (t - h) - (2 * h) • u1 t)
            - (3 : ℝ)⁻¹ • (u1 (t + h) + u1 (t - h) - (2 : ℝ) • u1 t)) := by
  simp only [truncV, fullA, fullA1, fullA0, ← hp, ← h0, ← hn, LinearMap.add_apply, LinearMap.sub_apply,
    LinearMap.smul_apply, map_add, map_sub, map_smul, smul_add, smul_sub, smul_smul]
  have e1 : (h ^ 2)⁻¹ * h ^ 2 = (1 : ℝ) := by field_simp
  have e2 : (2 * h)⁻¹ * (2 * h) = (1 : ℝ) := by field_simp
  have e3 : (h * h)⁻¹ = (h ^ 2)⁻¹ := by rw [sq]
  rw [e1, e2, e3, one_smul, one_smul]
  module

/-- `‖τ‖ ≤ (5 c_M M₄/12 + c_B M₃/2) h²` with `‖M x‖ ≤ c_M ‖x‖`, `‖B x‖ ≤ c_B ‖x‖` -/
theorem truncV_norm_le (M B K : V →ₗ[ℝ] V) (h cM cB M3 M4 : ℝ) (u u1 u2 u3 u4 f : ℝ → V) (t : ℝ)
    (hcM : ∀ x, ‖M x‖ ≤ cM * ‖x‖) (hcB : ∀ x, ‖B x‖ ≤ cB * ‖x‖) (hcM0 : 0 ≤ cM) (hcB0 : 0 ≤ cB)
    (hh : 0 < h)
    (hu : ∀ t, HasDerivAt u (u1 t) t) (hu1 : ∀ t, HasDerivAt u1 (u2 t) t)
    (hu2 : ∀ t, HasDerivAt u2 (u3 t) t) (hu3 : ∀ t, HasDerivAt u3 (u4 t) t)
    (hM3 : ∀ s ∈ Set.Icc (t - h) (t + h), ‖u3 s‖ ≤ M3) (hM4 : ∀ s ∈ Set.Icc (t - h) (t + h), ‖u4 s‖ ≤ M4)
    (hode : ∀ s ∈ Set.Icc (t - h) (t + h), M (u2 s) + B (u1 s) + K (u s) = f s) :
    ‖truncV M B K h u f t‖ ≤ (5 * cM * M4 / 12 + cB * M3 / 2) * h ^ 2 := by
  have mp : t + h ∈ Set.Icc (t - h) (t + h) := ⟨by linarith, le_refl _⟩
  have m0 : t ∈ Set.Icc (t - h) (t + h) := ⟨by linarith, by linarith⟩
  have mn : t - h ∈ Set.Icc (t - h) (t + h) := ⟨le_refl _, by linarith⟩
  rw [truncV_eq M B K h u u1 u2 f t hh.ne' (hode _ mp) (hode _ m0) (hode _ mn)]
  have a1 := second_diff_taylor_le_vec u u1 u2 u3 u4 hu hu1 hu2 hu3 t h M4 hh.le hM4
  have a2 := second_diff_le_vec u2 u3 u4 hu2 hu3 t h M4 hh.le hM4
  have a3 := centered_diff_le_vec u u1 u2 u3 hu hu1 hu2 t h M3 hh.le hM3
  have a4 := second_diff_le_vec u1 u2 u3 hu1 hu2 t h M3 hh.le hM3
  have hh2 : 0 < h ^ 2 := by positivity
  have c1 : ‖(h ^ 2)⁻¹ • (u (t + h) + u (t - h) - (2 : ℝ) • u t - (h ^ 2) • u2 t)‖ ≤ M4 / 12 * h ^ 2 := by
    rw [norm_smul, Real.norm_eq_abs, abs_of_pos (inv_pos.mpr hh2), inv_mul_le_iff₀ hh2]
    calc _ ≤ M4 / 12 * h ^ 4 := a1
      _ = h ^ 2 * (M4 / 12 * h ^ 2) := by ring
  have c2 : ‖(3 : ℝ)⁻¹ • (u2 (t + h) + u2 (t - h) - (2 : ℝ) • u2 t)‖ ≤ M4 / 3 * h ^ 2 := by
    rw [norm_smul, Real.norm_eq_abs, abs_of_pos (by norm_num : (0 : ℝ) < 3⁻¹)]
    calc _ ≤ (3 : ℝ)⁻¹ * (M4 * h ^ 2) := mul_le_mul_of_nonneg_left a2 (by norm_num)
      _ = M4 / 3 * h ^ 2 := by ring
  have c3 : ‖(2 * h)⁻¹ • (u (t + h) - u (t - h) - (2 * h) • u1 t)‖ ≤ M3 / 6 * h ^ 2 := by
    have h2 : (0 : ℝ) < 2 * h := by positivity
    rw [norm_smul, Real.norm_eq_abs, abs_of_pos (inv_pos.mpr h2), inv_mul_le_iff₀ h2]
    calc _ ≤ M3 / 3 * h ^ 3 := a3
      _ = 2 * h * (M3 / 6 * h ^ 2) := by ring
  have c4 : ‖(3 : ℝ)⁻¹ • (u1 (t + h) + u1 (t - h) - (2 : ℝ) • u1 t)‖ ≤ M3 / 3 * h ^ 2 := by
    rw [norm_smul, Real.norm_eq_abs, abs_of_pos (by norm_num : (0 : ℝ) < 3⁻¹)]
    calc _ ≤ (3 : ℝ)⁻¹ * (M3 * h ^ 2) := mul_le_mul_of_nonneg_left a4 (by norm_num)
      _ = M3 / 3 * h ^ 2 := by ring
  refine le_trans (norm_add_le _ _) ?_
  have n1 := le_trans (hcM _) (mul_le_mul_of_nonneg_left (le_trans (norm_sub_le _ _) (add_le_add c1 c2)) hcM0)
  have n2 := le_trans (hcB _) (mul_le_mul_of_nonneg_left (le_trans (norm_sub_le _ _) (add_le_add c3 c4)) hcB0)
  calc _ ≤ cM * (M4 / 12 * h ^ 2 + M4 / 3 * h ^ 2) + cB * (M3 / 6 * h ^ 2 + M3 / 3 * h ^ 2) :=
        add_le_add n1 n2
    _ = (5 * cM * M4 / 12 + cB * M3 / 2) * h ^ 2 := by ring

/-! ### the model's sequence in residual form, and the start-up step -/
section model
variable {W : Type} [NormedAddCommGroup W] [InnerProductSpace ℝ W]
attribute [local instance 10] moduleVecOps

/-- raw force the recurrence uses for column `n`: the replaced `F₀' = K d0 + B v0` at `n = 0` -/
def effForceV (S : Sys W ℝ) (Fn : ℕ → W) (d0 v0 : W) (n : ℕ) : W :=
  if n = 0 then S.K d0 + S.B v0 else Fn n

theorem gseqV (S : Sys W ℝ) (Fn : ℕ → W) (d0 v0 : W) (n : ℕ) :
    gseq S Fn d0 v0 n = scaled S (effForceV S Fn d0 v0 n) := by
  unfold gseq effForceV
  split <;> simp [f0]

theorem dseqV_one (S : Sys W ℝ) (A : W →ₗ[ℝ] W) (A1 A0 : W → W)
    (hsolve : ∀ x, A (S.solve x) = x) (hA1 : ∀ x, A (S.A1 x) = A1 x) (hA0 : ∀ x, A (S.A0 x) = A0 x)
    (Fn : ℕ → W) (d0 v0 : W) :
    A (dseq S Fn d0 v0 0 1)
      = (3 : ℝ)⁻¹ • (Fn 1 + (S.K d0 + S.B v0) + (S.K (d0 - S.h • v0) + S.B v0))
        + A1 d0 + A0 (d0 - S.h • v0) := by
  have := A_step S (fun _ _ => 0) (fun _ _ => 0) A A1 A0 hsolve hA1 hA0 (fun _ _ => map_zero A)
    (Fn 1) (S.K d0 + S.B v0) (S.K (d0 - S.h • v0) + S.B v0) d0 (d0 - S.h • v0) 0 []
  simp only [add_zero] at this
  exact this

theorem dseqV_rec (S : Sys W ℝ) (A : W →ₗ[ℝ] W) (A1 A0 : W → W)
    (hsolve : ∀ x, A (S.solve x) = x) (hA1 : ∀ x, A (S.A1 x) = A1 x) (hA0 : ∀ x, A (S.A0 x) = A0 x)
    (Fn : ℕ → W) (d0 v0 : W) (n : ℕ) :
    A (dseq S Fn d0 v0 0 (n + 2))
      = (3 : ℝ)⁻¹ • (Fn (n + 2) + Fn (n + 1) + effForceV S Fn d0 v0 n)
        + A1 (dseq S Fn d0 v0 0 (n + 1)) + A0 (dseq S Fn d0 v0 0 n) := by
  have e1 : effForceV S Fn d0 v0 (n + 1) = Fn (n + 1) := by simp [effForceV]
  have := A_step S (fun _ _ => 0) (fun _ _ => 0) A A1 A0 hsolve hA1 hA0 (fun _ _ => map_zero A)
    (Fn (n + 2)) (effForceV S Fn d0 v0 (n + 1)) (effForceV S Fn d0 v0 n)
    (dseq S Fn d0 v0 0 (n + 1)) (dseq S Fn d0 v0 0 n) 0 []
  simp only [add_zero, e1] at this
  rw [← this]
  show A (step S (scaled S (Fn (n + 2))) (gseq S Fn d0 v0 (n + 1)) (gseq S Fn d0 v0 n) 0 _ _) = _
  rw [gseqV, gseqV, e1]

end model

/-- energy of the first error pair `(e₁, 0)` from the residual `A e₁`: `E(e₁, 0) ≤ (h ‖A e₁‖ / μ)²` -/
theorem startV_energy_le (M B K : V →ₗ[ℝ] V) (h μ : ℝ) (e1 : V)
    (hBp : ∀ x, 0 ≤ ⟪B x, x⟫_ℝ) (hKp : ∀ x, 0 ≤ ⟪K x, x⟫_ℝ)
    (hMlow : ∀ z, μ ^ 2 * ‖z‖ ^ 2 ≤ ⟪M z, z⟫_ℝ) (hμ : 0 < μ) (hh : 0 < h) :
    energyV M K h e1 0 ≤ (h * ‖fullA M B K h e1‖ / μ) ^ 2 := by
  have hE : energyV M K h e1 0 = (h * h)⁻¹ * ⟪M e1, e1⟫_ℝ + (3 : ℝ)⁻¹ * ⟪K e1, e1⟫_ℝ := by
    simp [energyV]
  have hA : ⟪fullA M B K h e1, e1⟫_ℝ
      = (h * h)⁻¹ * ⟪M e1, e1⟫_ℝ + (2 * h)⁻¹ * ⟪B e1, e1⟫_ℝ + (3 : ℝ)⁻¹ * ⟪K e1, e1⟫_ℝ := by
    simp only [fullA, LinearMap.add_apply, LinearMap.smul_apply, inner_add_left, real_inner_smul_left]
  have hB0 : 0 ≤ (2 * h)⁻¹ * ⟪B e1, e1⟫_ℝ := mul_nonneg (by positivity) (hBp _)
  have hK0 : 0 ≤ (3 : ℝ)⁻¹ * ⟪K e1, e1⟫_ℝ := mul_nonneg (by norm_num) (hKp _)
  have hcs : ⟪fullA M B K h e1, e1⟫_ℝ ≤ ‖fullA M B K h e1‖ * ‖e1‖ := real_inner_le_norm _ _
  set r := ‖fullA M B K h e1‖ with hr
  have hr0 : 0 ≤ r := norm_nonneg _
  have hpos : 0 < h * h := by positivity
  -- μ² ‖e₁‖² / h² ≤ r ‖e₁‖
  have h1 : (h * h)⁻¹ * (μ ^ 2 * ‖e1‖ ^ 2) ≤ r * ‖e1‖ := by
    have := mul_le_mul_of_nonneg_left (hMlow e1) (inv_pos.mpr hpos).le
    linarith
  have hn : ‖e1‖ ≤ h * h * r / μ ^ 2 := by
    rcases (norm_nonneg e1).eq_or_lt with h0 | h0
    · rw [← h0]; positivity
    · have h2 : (h * h)⁻¹ * μ ^ 2 * ‖e1‖ ≤ r := by
        have : (h * h)⁻¹ * μ ^ 2 * ‖e1‖ * ‖e1‖ ≤ r * ‖e1‖ := by nlinarith
        exact le_of_mul_le_mul_right this h0
      have hμ2 : 0 < μ ^ 2 := by positivity
      rw [le_div_iff₀ hμ2]
      have : ‖e1‖ * μ ^ 2 = (h * h) * ((h * h)⁻¹ * μ ^ 2 * ‖e1‖) := by field_simp
      rw [this]
      exact mul_le_mul_of_nonneg_left h2 hpos.le
  calc energyV M K h e1 0 ≤ r * ‖e1‖ := by rw [hE]; linarith
    _ ≤ r * (h * h * r / μ ^ 2) := mul_le_mul_of_nonneg_left hn hr0
    _ = (h * r / μ) ^ 2 := by field_simp

/-- the residual of the documented start-up on a smooth vector solution: leading term
`(h/12) B u''(0) − (1/6) M u''(0)`, the rest are Taylor remainders -/
theorem startV_residual_eq (M B K : V →ₗ[ℝ] V) (h : ℝ) (u u1 u2 : ℝ → V) (F1 : V) (hh : h ≠ 0)
    (hode : M (u2 h) + B (u1 h) + K (u h) = F1) :
    (3 : ℝ)⁻¹ • (F1 + (K (u 0) + B (u1 0)) + (K (u 0 - h • u1 0) + B (u1 0)))
        + fullA1 M K h (u 0) + fullA0 M B K h (u 0 - h • u1 0) - fullA M B K h (u h)
      = (h / 12) • B (u2 0) - (6 : ℝ)⁻¹ • M (u2 0)
        + M ((3 : ℝ)⁻¹ • (u2 h - u2 0)
            - (h ^ 2)⁻¹ • (u h - u 0 - h • u1 0 - (h ^ 2 / 2) • u2 0))
        + B ((3 : ℝ)⁻¹ • (u1 h - u1 0 - h • u2 0)
            - (2 * h)⁻¹ • (u h - u 0 - h • u1 0 - (h ^ 2 / 2) • u2 0)) := by
  simp only [fullA, fullA1, fullA0, ← hode, LinearMap.add_apply, LinearMap.sub_apply,
    LinearMap.smul_apply, map_add, map_sub, map_smul, smul_add, smul_sub, smul_smul]
  match_scalars <;> first | (field_simp; ring) | field_simp

/-- `‖A e₁‖ ≤ ‖u''(0)‖ (c_B h/12 + c_M/6) + c_M M₃ h/2 + c_B M₃ h²/4` -/
theorem startV_residual_norm_le (M B K : V →ₗ[ℝ] V) (h cM cB M3 : ℝ) (u u1 u2 u3 : ℝ → V)
    (hcM : ∀ x, ‖M x‖ ≤ cM * ‖x‖) (hcB : ∀ x, ‖B x‖ ≤ cB * ‖x‖) (hcM0 : 0 ≤ cM) (hcB0 : 0 ≤ cB)
    (hh : 0 < h)
    (hu : ∀ t, HasDerivAt u (u1 t) t) (hu1 : ∀ t, HasDerivAt u1 (u2 t) t)
    (hu2 : ∀ t, HasDerivAt u2 (u3 t) t) (hM3 : ∀ s ∈ Set.Icc 0 h, ‖u3 s‖ ≤ M3) :
    ‖(h / 12) • B (u2 0) - (6 : ℝ)⁻¹ • M (u2 0)
        + M ((3 : ℝ)⁻¹ • (u2 h - u2 0)
            - (h ^ 2)⁻¹ • (u h - u 0 - h • u1 0 - (h ^ 2 / 2) • u2 0))
        + B ((3 : ℝ)⁻¹ • (u1 h - u1 0 - h • u2 0)
            - (2 * h)⁻¹ • (u h - u 0 - h • u1 0 - (h ^ 2 / 2) • u2 0))‖
      ≤ ‖u2 0‖ * (cB * h / 12 + cM / 6) + cM * M3 * h / 2 + cB * M3 * h ^ 2 / 4 := by
  have hM3' : ∀ s ∈ Set.Icc (0 : ℝ) (0 + h), ‖u3 s‖ ≤ M3 := by simpa using hM3
  obtain ⟨t1, t2, t3⟩ := forward_taylor_le_vec u u1 u2 u3 hu hu1 hu2 0 h M3 hh.le hM3'
  simp only [zero_add] at t1 t2 t3
  set R3 := u h - u 0 - h • u1 0 - (h ^ 2 / 2) • u2 0 with hR3
  have hh2 : 0 < h ^ 2 := by positivity
  have h2 : (0 : ℝ) < 2 * h := by positivity
  have c1 : ‖(3 : ℝ)⁻¹ • (u2 h - u2 0)‖ ≤ M3 * h / 3 := by
    rw [norm_smul, Real.norm_eq_abs, abs_of_pos (by norm_num : (0 : ℝ) < 3⁻¹)]
    calc _ ≤ (3 : ℝ)⁻¹ * (M3 * h) := mul_le_mul_of_nonneg_left t1 (by norm_num)
      _ = M3 * h / 3 := by ring
  have c2 : ‖(h ^ 2)⁻¹ • R3‖ ≤ M3 * h / 6 := by
    rw [norm_smul, Real.norm_eq_abs, abs_of_pos (inv_pos.mpr hh2), inv_mul_le_iff₀ hh2]
    calc _ ≤ M3 / 6 * h ^ 3 := t3
      _ = h ^ 2 * (M3 * h / 6) := by ring
  have c3 : ‖(3 : ℝ)⁻¹ • (u1 h - u1 0 - h • u2 0)‖ ≤ M3 * h ^ 2 / 6 := by
    rw [norm_smul, Real.norm_eq_abs, abs_of_pos (by norm_num : (0 : ℝ) < 3⁻¹)]
    calc _ ≤ (3 : ℝ)⁻¹ * (M3 / 2 * h ^ 2) := mul_le_mul_of_nonneg_left t2 (by norm_num)
      _ = M3 * h ^ 2 / 6 := by ring
  have c4 : ‖(2 * h)⁻¹ • R3‖ ≤ M3 * h ^ 2 / 12 := by
    rw [norm_smul, Real.norm_eq_abs, abs_of_pos (inv_pos.mpr h2), inv_mul_le_iff₀ h2]
    calc _ ≤ M3 / 6 * h ^ 3 := t3
      _ = 2 * h * (M3 * h ^ 2 / 12) := by ring
  have n0 : ‖(h / 12) • B (u2 0) - (6 : ℝ)⁻¹ • M (u2 0)‖ ≤ ‖u2 0‖ * (cB * h / 12 + cM / 6) := by
    refine le_trans (norm_sub_le _ _) ?_
    rw [norm_smul, norm_smul, Real.norm_eq_abs, Real.norm_eq_abs, abs_of_pos (by positivity : 0 < h / 12),
      abs_of_pos (by norm_num : (0 : ℝ) < 6⁻¹)]
    have b1 := mul_le_mul_of_nonneg_left (hcB (u2 0)) (by positivity : 0 ≤ h / 12)
    have b2 := mul_le_mul_of_nonneg_left (hcM (u2 0)) (by norm_num : (0 : ℝ) ≤ 6⁻¹)
    calc _ ≤ h / 12 * (cB * ‖u2 0‖) + 6⁻¹ * (cM * ‖u2 0‖) := add_le_add b1 b2
      _ = ‖u2 0‖ * (cB * h / 12 + cM / 6) := by ring
  have n1 := le_trans (hcM _) (mul_le_mul_of_nonneg_left (le_trans (norm_sub_le _ _) (add_le_add c1 c2)) hcM0)
  have n2 := le_trans (hcB _) (mul_le_mul_of_nonneg_left (le_trans (norm_sub_le _ _) (add_le_add c3 c4)) hcB0)
  refine le_trans (norm_add_le _ _) ?_
  refine le_trans (add_le_add (le_trans (norm_add_le _ _) (add_le_add n0 n1)) n2) (le_of_eq ?_)
  ring

end PyYetiVerif.Newmark
