import PyYetiVerif.Lemmas.FreqGauss
import PyYetiVerif.Model.SuCoefStatic
import PyYetiVerif.Model.SuCoefPreEig
/-!
Helper lemmas for the linear solves of the coupled paths and of `pre_eig` (C01): the model's solver
(`linSolve` = Gaussian elimination with partial pivoting, `Model/FreqGauss.lean`) returns a solution
(`Lemmas/FreqGauss.gaussList_sound`), and the model's index-order sums are Mathlib's.
-/
set_option linter.unusedSectionVars false
namespace PyYetiVerif.SuCoef
open Matrix PyYetiVerif.Freq

section field
variable {α : Type} [Field α]

theorem dotFin_eq_sum {n : ℕ} (a x : Fin n → α) : dotFin a x = ∑ k, a k * x k := by
  simp [dotFin, List.sum_ofFn]

theorem matVec_eq_mulVec {m n : ℕ} (M : Fin m → Fin n → α) (x : Fin n → α) :
    matVec M x = of M *ᵥ x := by
  funext j
  simp [matVec, dotFin_eq_sum, Matrix.mulVec, dotProduct]

/-- whatever `linSolve` returns solves the system -/
theorem linSolve_solves {n : ℕ} (isZero : α → Bool) (hz : ∀ x, isZero x = true ↔ x = 0)
    (absLt : α → α → Bool) (A : Fin n → Fin n → α) (b x : Fin n → α)
    (h : linSolve isZero absLt A b = some x) : of A *ᵥ x = b := by
  unfold linSolve gaussSolveFn at h
  split at h
  · cases h
  · rename_i xs hxs
    simp only [Option.some.injEq] at h
    subst h
    have hlen := gaussList_length isZero absLt n _ xs hxs
    funext r
    have := gaussList_sound isZero hz absLt n _ xs (by simp [eqnsOfFn]) hxs
      ((List.finRange n).map (A r), b r) (by
        simp only [eqnsOfFn, List.mem_map]
        exact ⟨r, List.mem_finRange r, rfl⟩)
    simp only [dot_finRange _ xs hlen] at this
    simpa [Matrix.mulVec, dotProduct] using this

/-- `accelRhs` in matrix form -/
theorem accelRhs_eq {n : ℕ} (B K : Fin n → Fin n → α) (d v f : Fin n → α) :
    accelRhs B K d v f = f - of B *ᵥ v - of K *ᵥ d := by
  funext j
  simp [accelRhs, dotFin_eq_sum, Matrix.mulVec, dotProduct]

end field

end PyYetiVerif.SuCoef
