import PyYetiVerif.Lemmas.UsetTran
/-!
The blocks of `formtran` (`Model/UsetTran.lean`): rows of a retained set (`eyeBlock`: unit vectors), of the
o-set (`oBlock`: the stored `got` / `goq` rows scattered to the t- and q-columns), of the m-set
(`mBlock`: one row per requested m-set DOF), and what `upSelect` selects.
-/
set_option linter.constructorNameAsVariable false
set_option linter.unusedSectionVars false
namespace PyYetiVerif.Uset
open PyYetiVerif.Locate

theorem forall₂_join {ι β γ : Type} {A : ι → β → Prop} {B : ι → γ → Prop} {l : List ι} {x : List β}
    {y : List γ} (h1 : List.Forall₂ A l x) (h2 : List.Forall₂ B l y) :
    List.Forall₂ (fun a b => ∃ i, i ∈ l ∧ A i a ∧ B i b) x y := by
  induction h1 generalizing y with
  | nil => cases h2; exact .nil
  | @cons i a l' x' hia _ ih =>
      cases h2 with
      | cons hib h2' =>
          exact .cons ⟨i, List.mem_cons_self, hia, hib⟩
            ((ih h2').imp fun a b ⟨j, hj, h⟩ => ⟨j, List.mem_cons_of_mem _ hj, h⟩)

theorem mapM_except_length {ε β γ : Type} {f : β → Except ε γ} {l : List β} {out : List γ}
    (h : l.mapM f = .ok out) : out.length = l.length := (mapM_except f l out h).length_eq.symm

section blocks
variable {α : Type} [Add α] [Mul α] [OfNat α 0] [OfNat α 1]

/-- `tran[i, cols] = np.eye(n)[k]` on a zero row: the unit vector at column `cols[k]` -/
theorem setCols_unit {w n k c : Nat} {cols : List Nat} {row : List α}
    (h : setCols (zeroRow w) cols (unitRow n k) = .ok row) (hnd : cols.Nodup)
    (hc : cols[k]? = some c) : row = unitRow w c := by
  have hlen := setCols_length h
  rw [zeroRow_length] at hlen
  have hcl : cols.length = n := by
    unfold setCols at h
    split at h
    · cases h
    · split at h
      · cases h
      · rename_i hl; rw [unitRow_length] at hl; exact not_not.mp hl
  apply List.ext_getElem?
  intro x
  by_cases hx : x < w
  · rw [unitRow_get w c x hx]
    by_cases hm : x ∈ cols
    · obtain ⟨j, hj⟩ := List.getElem?_of_mem hm
      have hjn : j < n := hcl ▸ (List.getElem?_eq_some_iff.mp hj).1
      rw [setCols_at h hnd j x _ (unitRow_get n k j hjn) hj]
      congr 1
      by_cases hjk : j = k
      · subst hjk; rw [hc] at hj; simp only [Option.some.injEq] at hj; simp [hj]
      · have : x ≠ c := by
          intro he; subst he
          exact hjk ((List.getElem?_inj (List.getElem?_eq_some_iff.mp hj).1 hnd).mp (hj.trans hc.symm))
        simp [hjk, this]
    · rw [setCols_other h x hm, zeroRow_get w x hx]
      have : x ≠ c := fun he => hm (he ▸ List.mem_of_getElem? hc)
      simp [this]
  · rw [List.getElem?_eq_none (by rw [hlen]; omega), List.getElem?_eq_none (by rw [unitRow_length]; omega)]

/-- the rows of a retained set: row `j` of the block is the unit vector at the column `cols[pv[j]]` -/
theorem eyeBlock_spec {w n : Nat} {cols pv : List Nat} {rows : List (List α)}
    (h : eyeBlock w n cols pv = .ok rows) (hnd : cols.Nodup) :
    List.Forall₂ (fun i row => ∃ c, cols[i]? = some c ∧ row = unitRow w c) pv rows := by
  unfold eyeBlock at h
  obtain ⟨e, he, h⟩ := bind_ok h
  have h1 := takeIdx_ok he
  have h2 := scatterRows_ok h
  have hlen : pv.length = rows.length := h1.length_eq.trans h2.length_eq
  apply forall₂_of_getElem? hlen
  intro k i row hi hrow
  obtain ⟨y, hy, hiy⟩ := forall₂_getElem? h1 k i hi
  obtain ⟨row', hrow', hset⟩ := forall₂_getElem? h2 k y hy
  rw [hrow] at hrow'
  simp only [Option.some.injEq] at hrow'
  subst hrow'
  have hin : i < n := by
    have := (List.getElem?_eq_some_iff.mp hiy).1
    simpa using this
  have hyv : y = unitRow n i := by
    rw [List.getElem?_map, List.getElem?_range hin] at hiy
    simpa using hiy.symm
  subst hyv
  have hcl : cols.length = n := by
    have h' := hset
    unfold setCols at h'
    split at h'
    · cases h'
    · split at h'
      · cases h'
      · rename_i hl; rw [unitRow_length] at hl; exact not_not.mp hl
  have hic : i < cols.length := by omega
  exact ⟨cols[i], List.getElem?_eq_getElem hic, setCols_unit hset hnd (List.getElem?_eq_getElem hic)⟩

/-- a row of the o-set block: the `got` row `g` at the t-columns, the `goq` row `q` at the q-columns, zero
elsewhere -/
def ORow (w : Nat) (t_a q_a : List Nat) (g q : List α) (row : List α) : Prop :=
  row.length = w ∧ (∀ (j c : Nat), t_a[j]? = some c → row[c]? = g[j]?) ∧
  (∀ (j c : Nat), q_a[j]? = some c → row[c]? = q[j]?) ∧
  (∀ c, c < w → c ∉ t_a → c ∉ q_a → row[c]? = some 0)

theorem setCols_vals_length {row : List α} {cols : List Nat} {vals out : List α}
    (h : setCols row cols vals = .ok out) : cols.length = vals.length := by
  unfold setCols at h
  split at h
  · cases h
  · split at h
    · cases h
    · rename_i hl; exact not_not.mp hl

theorem setCols_get {row : List α} {cols : List Nat} {vals out : List α}
    (h : setCols row cols vals = .ok out) (hnd : cols.Nodup) (j c : Nat) (hc : cols[j]? = some c) :
    out[c]? = vals[j]? := by
  have hl := setCols_vals_length h
  have hj : j < vals.length := hl ▸ (List.getElem?_eq_some_iff.mp hc).1
  rw [setCols_at h hnd j c vals[j] (List.getElem?_eq_getElem hj) hc, List.getElem?_eq_getElem hj]

/-- the o-set block: row `j` holds row `pvdofo[j]` of `got` at the t-columns and (when `goq` has columns) row
`pvdofo[j]` of `goq` at the q-columns -/
theorem oBlock_spec {w : Nat} {gotM goqM : M α} {t_a q_a pvdofo : List Nat} {rows : List (List α)}
    (h : oBlock w gotM goqM t_a q_a pvdofo = .ok rows) (hnt : t_a.Nodup) (hnq : q_a.Nodup)
    (hdis : ∀ c ∈ t_a, c ∉ q_a) :
    List.Forall₂ (fun i row => ∃ g, gotM.r[i]? = some g ∧
      ((goqM.c ≠ 0 ∧ ∃ q, goqM.r[i]? = some q ∧ ORow w t_a q_a g q row) ∨
       (goqM.c = 0 ∧ ORow w t_a [] g [] row))) pvdofo rows := by
  unfold oBlock at h
  obtain ⟨gotO, hgot, h⟩ := bind_ok h
  obtain ⟨_, hgotr⟩ := rowsAt_ok hgot
  obtain ⟨rows0, hr0, h⟩ := bind_ok h
  have h0 := scatterRows_ok hr0
  -- the rows after the `got` assignment
  have base : List.Forall₂ (fun i row => ∃ g, gotM.r[i]? = some g ∧ ORow w t_a [] g [] row) pvdofo rows0 := by
    apply forall₂_of_getElem? (hgotr.length_eq.trans h0.length_eq)
    intro k i row hi hrow
    obtain ⟨g, hg, hig⟩ := forall₂_getElem? hgotr k i hi
    obtain ⟨row', hrow', hset⟩ := forall₂_getElem? h0 k g hg
    rw [hrow] at hrow'; simp only [Option.some.injEq] at hrow'; subst hrow'
    refine ⟨g, hig, ?_, ?_, ?_, ?_⟩
    · rw [setCols_length hset, zeroRow_length]
    · intro j c hc; exact setCols_get hset hnt j c hc
    · intro j c hc; simp at hc
    · intro c hc hct _; rw [setCols_other hset c hct, zeroRow_get w c hc]
  split at h
  · rename_i hcond
    obtain ⟨goqO, hgoq, h⟩ := bind_ok h
    obtain ⟨_, hgoqr⟩ := rowsAt_ok hgoq
    split at h
    · cases h
    · have h2 := mapM_except _ _ _ h
      have hl2 := mapM_except_length h
      rename_i hlen
      have hlen' : goqO.r.length = rows0.length := not_not.mp hlen
      rw [List.length_zip, hlen', Nat.min_self] at hl2
      apply forall₂_of_getElem? (base.length_eq.trans hl2.symm)
      intro k i row hi hrow
      obtain ⟨row0, hrow0, g, hg, hO⟩ := forall₂_getElem? base k i hi
      obtain ⟨q, hq, hiq⟩ := forall₂_getElem? hgoqr k i hi
      obtain ⟨pr, hpr, hset⟩ := forall₂_getElem?' h2 k row hrow
      have hpr' : pr = (row0, q) := by
        rw [List.getElem?_zip_eq_some] at hpr
        obtain ⟨a, b⟩ := pr
        simp only at hpr
        rw [hrow0, hq] at hpr
        simp only [Option.some.injEq] at hpr
        rw [hpr.1, hpr.2]
      subst hpr'
      simp only at hset
      refine ⟨g, hg, Or.inl ⟨hcond.2, q, hiq, ?_, ?_, ?_, ?_⟩⟩
      · rw [setCols_length hset]; exact hO.1
      · intro j c hc
        rw [setCols_other hset c (hdis c (List.mem_of_getElem? hc))]
        exact hO.2.1 j c hc
      · intro j c hc; exact setCols_get hset hnq j c hc
      · intro c hc hct hcq
        rw [setCols_other hset c hcq]
        exact hO.2.2.2 c hc hct (by simp)
  · rename_i hcond
    simp only [pure, Except.pure, Except.ok.injEq] at h
    subst h
    by_cases hp : pvdofo = []
    · subst hp
      cases base
      exact .nil
    · have hc0 : goqM.c = 0 := by
        by_contra hne
        exact hcond ⟨hp, hne⟩
      exact base.imp fun i row ⟨g, hg, hO⟩ => ⟨g, hg, Or.inr ⟨hc0, hO⟩⟩

/-! ### the m-set block has one row per requested m-set DOF -/

theorem colsAt_ok {A B : M α} {idx : List Nat} (h : colsAt A idx = .ok B) :
    B.r.length = A.r.length ∧ B.c = idx.length := by
  unfold colsAt at h
  obtain ⟨l, hl, h⟩ := bind_ok h
  simp only [Except.ok.injEq] at h
  subst h
  exact ⟨mapM_except_length hl, rfl⟩

theorem dot_ok {A B C : M α} (h : dot A B = .ok C) : C.r.length = A.r.length ∧ C.c = B.c := by
  unfold dot at h
  split at h
  · cases h
  · simp only [Except.ok.injEq] at h
    subst h
    exact ⟨by simp, rfl⟩

theorem addM_ok {A B C : M α} (h : addM A B = .ok C) : C.r.length = A.r.length := by
  unfold addM at h
  split at h
  · cases h
  · rename_i hc
    simp only [Except.ok.injEq] at h
    subst h
    have : A.r.length = B.r.length := by
      by_contra hne; exact hc (Or.inr hne)
    simp [this]

theorem mBlock_length [DecidableEq α] {gm got goq : M α} {ct cq : Nat} {t_a q_a t_n o_n q_n : List Nat}
    {rows : List (List α)} (h : mBlock gm got goq ct cq t_a q_a t_n o_n q_n = .ok rows) :
    rows.length = gm.r.length := by
  unfold mBlock at h
  obtain ⟨gmo, hgmo, h⟩ := bind_ok h
  obtain ⟨gmt, hgmt, h⟩ := bind_ok h
  obtain ⟨tq, htq, h⟩ := bind_ok h
  obtain ⟨z1, hz1, h⟩ := bind_ok h
  have hgmo' := (colsAt_ok hgmo).1
  have hgmt' := (colsAt_ok hgmt).1
  have hzl : (gm.r.map fun _ => zeroRow (α := α) (ct + cq)).length = gm.r.length := by simp
  -- the q-part (when there is one) has one row per row of gm
  have hq : ∀ qp, tq.2 = some qp → qp.r.length = gm.r.length := by
    intro qp hqp
    split at htq
    · obtain ⟨gmov, hgmov, htq⟩ := bind_ok htq
      obtain ⟨gotv, _, htq⟩ := bind_ok htq
      obtain ⟨p, _, htq⟩ := bind_ok htq
      obtain ⟨tp, _, htq⟩ := bind_ok htq
      split at htq
      · obtain ⟨goqv, _, htq⟩ := bind_ok htq
        obtain ⟨qp', hqp', htq⟩ := bind_ok htq
        simp only [pure, Except.pure, Except.ok.injEq] at htq
        rw [← htq] at hqp
        simp only [Option.some.injEq] at hqp
        subst hqp
        rw [(dot_ok hqp').1, (colsAt_ok hgmov).1, hgmo']
      · simp only [pure, Except.pure, Except.ok.injEq] at htq
        rw [← htq] at hqp; cases hqp
    · simp only [pure, Except.pure, Except.ok.injEq] at htq
      rw [← htq] at hqp; cases hqp
  split at h
  · cases h
  · rename_i hz1l
    have hz1l' : z1.length = gm.r.length := by rw [not_not.mp hz1l, hzl]
    obtain ⟨z2, hz2, h⟩ := bind_ok h
    have hz2l : z2.length = gm.r.length := by
      cases hqp : tq.2 with
      | none =>
          rw [hqp] at hz2
          simp only [pure, Except.pure, Except.ok.injEq] at hz2
          rw [← hz2]; exact hz1l'
      | some qp =>
          rw [hqp] at hz2
          simp only at hz2
          rw [mapM_except_length hz2, List.length_zip, hz1l', hq qp hqp, Nat.min_self]
    split at h
    · obtain ⟨gmq, hgmq, h⟩ := bind_ok h
      obtain ⟨cur, hcur, h⟩ := bind_ok h
      split at h
      · cases h
      · rw [mapM_except_length h, List.length_zip, List.length_zipWith, mapM_except_length hcur,
          (colsAt_ok hgmq).1, hz2l, Nat.min_self, Nat.min_self]
    · simp only [pure, Except.pure, Except.ok.injEq] at h
      rw [← h]; exact hz2l

theorem mapM_setCols_zip_rowlen {w : Nat} {cols : List Nat} {l v out : List (List α)}
    (h : (l.zip v).mapM (fun p => setCols p.1 cols p.2) = .ok out) (hl : ∀ r ∈ l, r.length = w) :
    ∀ r ∈ out, r.length = w := by
  intro r hr
  obtain ⟨k, hk⟩ := List.getElem?_of_mem hr
  obtain ⟨p, hp, hset⟩ := forall₂_getElem?' (mapM_except _ _ _ h) k r hk
  rw [setCols_length hset]
  exact hl _ (List.of_mem_zip (List.mem_of_getElem? hp)).1

/-- every row of the m-set block has `ct + cq` entries -/
theorem mBlock_row_length [DecidableEq α] {gm got goq : M α} {ct cq : Nat} {t_a q_a t_n o_n q_n : List Nat}
    {rows : List (List α)} (h : mBlock gm got goq ct cq t_a q_a t_n o_n q_n = .ok rows) :
    ∀ r ∈ rows, r.length = ct + cq := by
  unfold mBlock at h
  obtain ⟨gmo, _, h⟩ := bind_ok h
  obtain ⟨gmt, _, h⟩ := bind_ok h
  obtain ⟨tq, _, h⟩ := bind_ok h
  obtain ⟨z1, hz1, h⟩ := bind_ok h
  have hz : ∀ r ∈ (gm.r.map fun _ => zeroRow (α := α) (ct + cq)), r.length = ct + cq := by
    intro r hr
    obtain ⟨_, _, rfl⟩ := List.mem_map.mp hr
    exact zeroRow_length _
  have h1 := mapM_setCols_zip_rowlen hz1 hz
  split at h
  · cases h
  · obtain ⟨z2, hz2, h⟩ := bind_ok h
    have h2 : ∀ r ∈ z2, r.length = ct + cq := by
      cases hqp : tq.2 with
      | none =>
          rw [hqp] at hz2
          simp only [pure, Except.pure, Except.ok.injEq] at hz2
          rw [← hz2]; exact h1
      | some qp =>
          rw [hqp] at hz2
          exact mapM_setCols_zip_rowlen hz2 h1
    split at h
    · obtain ⟨gmq, _, h⟩ := bind_ok h
      obtain ⟨cur, _, h⟩ := bind_ok h
      split at h
      · cases h
      · exact mapM_setCols_zip_rowlen h h2
    · simp only [pure, Except.pure, Except.ok.injEq] at h
      rw [← h]; exact h2

end blocks

end PyYetiVerif.Uset
