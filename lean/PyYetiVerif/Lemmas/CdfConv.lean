import PyYetiVerif.Model.Cdf
import PyYetiVerif.Lemmas.NewmarkTaylorVec
import Mathlib.Analysis.SpecialFunctions.Exp
import Mathlib.Tactic.Abel
import Mathlib.Tactic.Linarith
import Mathlib.Tactic.Positivity
/-!
Ingredients of the convergence statements for the cd-as-force solver (C17): the history as a sequence
(`cdfSeq`, `cdfRun_eq_cdfSeq`), the step as a map on `(q, q̇)` pairs (`cdfStep2`) and its additivity
(`cdfStep2_sub`), a discrete Grönwall lemma (`gronwall_affine`), the linear interpolation error
(`interp_error_le`) and the 2-DOF velocity test problem (`twoDofOps`).
-/
namespace PyYetiVerif.Cdf

section seq
variable {V : Type} [Add V] [Sub V]

/-- states `(q_n, q̇_n, Q_n)` of the cd-as-force loop for the force columns `P 0, P 1, …` -/
def cdfSeq (C : Ops V) (o : Bool) (d0 v0 : V) (P : ℕ → V) : ℕ → V × V × V
  | 0 => (d0, v0, C.bo v0)
  | n + 1 => cdfStep C o (cdfSeq C o d0 v0 P n) (P n) (P (n + 1))

theorem cdfFrom_cdfSeq (C : Ops V) (o : Bool) (d0 v0 : V) (P : ℕ → V) :
    ∀ (len k : ℕ), cdfFrom C o (cdfSeq C o d0 v0 P k) ((List.range (len + 1)).map fun t => P (k + t))
      = (List.range (len + 1)).map fun t => cdfSeq C o d0 v0 P (k + t)
  | 0, k => by simp [cdfFrom]
  | len + 1, k => by
    have hr : ∀ (g : ℕ → V), (List.range (len + 2)).map g
        = g 0 :: g 1 :: (List.range len).map (fun t => g (t + 2)) := by
      intro g
      rw [List.range_succ_eq_map, List.map_cons, List.map_map, List.range_succ_eq_map, List.map_cons,
        List.map_map]
      rfl
    have hr' : ∀ {β : Type} (g : ℕ → β), (List.range (len + 2)).map g
        = g 0 :: (List.range (len + 1)).map (fun t => g (t + 1)) := by
      intro β g
      rw [List.range_succ_eq_map, List.map_cons, List.map_map]
      rfl
    rw [hr, cdfFrom]
    have ih := cdfFrom_cdfSeq C o d0 v0 P len (k + 1)
    have e1 : (List.range (len + 1)).map (fun t => P (k + 1 + t))
        = P (k + 0 + 1) :: (List.range len).map (fun t => P (k + (t + 2))) := by
      rw [List.range_succ_eq_map, List.map_cons, List.map_map]
      refine congrArg₂ _ rfl (List.map_congr_left fun t _ => ?_)
      simp only [Function.comp]
      congr 1; omega
    rw [e1] at ih
    have e2 : cdfSeq C o d0 v0 P (k + 1) = cdfStep C o (cdfSeq C o d0 v0 P k) (P (k + 0)) (P (k + 1)) := rfl
    rw [e2] at ih
    simp only [Nat.add_zero] at ih ⊢
    rw [ih, hr' (fun t => cdfSeq C o d0 v0 P (k + t))]
    refine congrArg₂ _ rfl (List.map_congr_left fun t _ => ?_)
    congr 1; omega

/-- `cdfRun` on the force columns `P 0, …, P n` returns the first `n + 1` members of `cdfSeq` -/
theorem cdfRun_eq_cdfSeq (C : Ops V) (o : Bool) (d0 v0 : V) (P : ℕ → V) (n : ℕ) :
    cdfRun C o d0 v0 ((List.range (n + 1)).map P) = (List.range (n + 1)).map (cdfSeq C o d0 v0 P) := by
  have := cdfFrom_cdfSeq C o d0 v0 P n 0
  simpa [cdfRun, cdfSeq] using this

/-- the step as a map on pairs `(q, q̇)`: the carried damping force is `C_od q̇` -/
def cdfStep2 (C : Ops V) (o : Bool) (x : V × V) (p0 p1 : V) : V × V :=
  ((cdfStep C o (x.1, x.2, C.bo x.2) p0 p1).1, (cdfStep C o (x.1, x.2, C.bo x.2) p0 p1).2.1)

end seq

section linear
variable {V : Type} [AddCommGroup V]

/-- all ten operators are additive -/
structure OpsAdditive (C : Ops V) : Prop where
  F : ∀ x y, C.F (x + y) = C.F x + C.F y
  G : ∀ x y, C.G (x + y) = C.G x + C.G y
  A : ∀ x y, C.A (x + y) = C.A x + C.A y
  B : ∀ x y, C.B (x + y) = C.B x + C.B y
  Fp : ∀ x y, C.Fp (x + y) = C.Fp x + C.Fp y
  Gp : ∀ x y, C.Gp (x + y) = C.Gp x + C.Gp y
  Ap : ∀ x y, C.Ap (x + y) = C.Ap x + C.Ap y
  Bp : ∀ x y, C.Bp (x + y) = C.Bp x + C.Bp y
  bo : ∀ x y, C.bo (x + y) = C.bo x + C.bo y
  alpha : ∀ x y, C.alpha (x + y) = C.alpha x + C.alpha y

theorem additive_sub (T : V → V) (hT : ∀ x y, T (x + y) = T x + T y) (x y : V) : T (x - y) = T x - T y := by
  have := hT (x - y) y
  rw [sub_add_cancel] at this
  rw [this]; abel

/-- the step on pairs is additive in (state, forces) -/
theorem cdfStep2_add (C : Ops V) (H : OpsAdditive C) (o : Bool) (x y : V × V) (p0 p1 r0 r1 : V) :
    cdfStep2 C o (x + y) (p0 + r0) (p1 + r1) = cdfStep2 C o x p0 p1 + cdfStep2 C o y r0 r1 := by
  obtain ⟨xd, xv⟩ := x
  obtain ⟨yd, yv⟩ := y
  cases o
  · simp only [cdfStep2, cdfStep, abf, Prod.mk_add_mk, H.F, H.G, H.A, H.B, H.Fp, H.Gp, H.Ap, H.Bp, H.bo,
      Bool.false_eq_true, if_false]
    set a1 := C.Fp xd + C.Gp xv + (C.Ap p0 + C.Bp p0) - C.Ap (C.bo xv) with ha1
    set a2 := C.Fp yd + C.Gp yv + (C.Ap r0 + C.Bp r0) - C.Ap (C.bo yv) with ha2
    have e : C.Fp xd + C.Fp yd + (C.Gp xv + C.Gp yv) + (C.Ap p0 + C.Ap r0 + (C.Bp p0 + C.Bp r0))
        - (C.Ap (C.bo xv) + C.Ap (C.bo yv)) = a1 + a2 := by rw [ha1, ha2]; abel
    rw [e, H.alpha, H.B, H.Bp]
    refine Prod.ext ?_ ?_ <;> simp only [Prod.mk_add_mk] <;> abel
  · simp only [cdfStep2, cdfStep, abf, Prod.mk_add_mk, H.F, H.G, H.A, H.B, H.Fp, H.Gp, H.Ap, H.Bp, H.bo,
      if_true]
    set a1 := C.Fp xd + C.Gp xv + (C.Ap p0 + C.Bp p1) - C.Ap (C.bo xv) with ha1
    set a2 := C.Fp yd + C.Gp yv + (C.Ap r0 + C.Bp r1) - C.Ap (C.bo yv) with ha2
    have e : C.Fp xd + C.Fp yd + (C.Gp xv + C.Gp yv) + (C.Ap p0 + C.Ap r0 + (C.Bp p1 + C.Bp r1))
        - (C.Ap (C.bo xv) + C.Ap (C.bo yv)) = a1 + a2 := by rw [ha1, ha2]; abel
    rw [e, H.alpha, H.B, H.Bp]
    refine Prod.ext ?_ ?_ <;> simp only [Prod.mk_add_mk] <;> abel

/-- differences of states propagate through the homogeneous step (zero forces) -/
theorem cdfStep2_sub (C : Ops V) (H : OpsAdditive C) (o : Bool) (x y : V × V) (p0 p1 : V) :
    cdfStep2 C o x p0 p1 - cdfStep2 C o y p0 p1 = cdfStep2 C o (x - y) 0 0 := by
  have := cdfStep2_add C H o (x - y) y 0 0 p0 p1
  rw [sub_add_cancel, zero_add, zero_add] at this
  rw [this]; abel

end linear

/-! ### discrete Grönwall for an affine recursion -/

/-- `e_{n+1} = L e_n − τ_n` with `N (L e) ≤ (1 + c h) N e`, `N τ_n ≤ τ`, `e_0 = 0`, `n h ≤ T`:
`N e_n ≤ T e^{cT} τ / h` -/
theorem gronwall_affine {X : Type} [AddCommGroup X] (N : X → ℝ) (L : X → X) (e tau : ℕ → X) (c h T τ : ℝ)
    (hN0 : N 0 = 0) (hNadd : ∀ a b, N (a - b) ≤ N a + N b)
    (hc : 0 ≤ c) (hh : 0 < h) (hτ : 0 ≤ τ) (hstab : ∀ x, N (L x) ≤ (1 + c * h) * N x)
    (he0 : e 0 = 0) (Nst : ℕ) (hrec : ∀ n, n < Nst → e (n + 1) = L (e n) - tau n)
    (hloc : ∀ n, n < Nst → N (tau n) ≤ τ) (hT : (Nst : ℝ) * h ≤ T) :
    ∀ n, n ≤ Nst → N (e n) ≤ T * Real.exp (c * T) * τ / h := by
  have hq : (1 : ℝ) ≤ 1 + c * h := by nlinarith
  have key : ∀ n, n ≤ Nst → N (e n) ≤ n * (1 + c * h) ^ n * τ := by
    intro n
    induction n with
    | zero => intro _; simp [he0, hN0]
    | succ n ih =>
      intro hn
      have h1 := ih (by omega)
      rw [hrec n (by omega)]
      have h2 := hNadd (L (e n)) (tau n)
      have h3 := hstab (e n)
      have h4 := hloc n (by omega)
      have hp : (1 : ℝ) ≤ (1 + c * h) ^ (n + 1) := one_le_pow₀ hq
      have h5 : (1 + c * h) * N (e n) ≤ (1 + c * h) * (n * (1 + c * h) ^ n * τ) :=
        mul_le_mul_of_nonneg_left h1 (by linarith)
      have h6 : τ ≤ (1 + c * h) ^ (n + 1) * τ := by nlinarith
      push_cast
      calc N (L (e n) - tau n) ≤ (1 + c * h) * (n * (1 + c * h) ^ n * τ) + τ := by linarith
        _ ≤ (1 + c * h) * (n * (1 + c * h) ^ n * τ) + (1 + c * h) ^ (n + 1) * τ := by linarith
        _ = (n + 1) * (1 + c * h) ^ (n + 1) * τ := by ring
  intro n hn
  have hnT : (n : ℝ) * h ≤ T := by
    have : (n : ℝ) ≤ Nst := Nat.cast_le.mpr hn
    nlinarith
  have hT0 : 0 ≤ T := le_trans (by positivity) hnT
  have hpow : (1 + c * h) ^ n ≤ Real.exp (c * T) := by
    calc (1 + c * h) ^ n ≤ Real.exp (c * h) ^ n :=
          pow_le_pow_left₀ (by linarith) (by linarith [Real.add_one_le_exp (c * h)]) n
      _ = Real.exp (n * (c * h)) := (Real.exp_nat_mul _ _).symm
      _ ≤ Real.exp (c * T) := by
          apply Real.exp_le_exp.mpr
          nlinarith
  have hn0 : (0 : ℝ) ≤ n := Nat.cast_nonneg n
  have hnh : (n : ℝ) ≤ T / h := by rw [le_div_iff₀ hh]; exact hnT
  calc N (e n) ≤ n * (1 + c * h) ^ n * τ := key n hn
    _ ≤ (T / h) * Real.exp (c * T) * τ := by
        apply mul_le_mul_of_nonneg_right _ hτ
        exact mul_le_mul hnh hpow (by positivity) (by positivity)
    _ = T * Real.exp (c * T) * τ / h := by ring

/-! ### linear interpolation error -/
section interp
open Set
variable {E : Type*} [NormedAddCommGroup E] [NormedSpace ℝ E]

/-- first-order Taylor remainder: `‖g(a+s) − g(a) − s g'(a)‖ ≤ M s²/2` with `‖g''‖ ≤ M` on `[a, a+h]` -/
theorem taylor1_le (g g1 g2 : ℝ → E) (hd0 : ∀ t, HasDerivAt g (g1 t) t) (hd1 : ∀ t, HasDerivAt g1 (g2 t) t)
    (a h M : ℝ) (hM : ∀ t ∈ Icc a (a + h), ‖g2 t‖ ≤ M) :
    ∀ s ∈ Icc 0 h, ‖g (a + s) - g a - s • g1 a‖ ≤ M / 2 * s ^ 2 := by
  have e1 : ∀ s ∈ Icc 0 h, HasDerivAt (fun s => g1 (a + s) - g1 a) (g2 (a + s)) s := by
    intro s _
    exact ((hd1 (a + s)).comp_const_add a s).sub_const (g1 a)
  have e0 : ∀ s ∈ Icc 0 h, HasDerivAt (fun s => g (a + s) - g a - s • g1 a) (g1 (a + s) - g1 a) s := by
    intro s _
    have := (((hd0 (a + s)).comp_const_add a s).sub_const (g a)).sub
      ((hasDerivAt_id s).smul_const (g1 a))
    exact this.congr_deriv (by simp)
  have b2 : ∀ s ∈ Icc 0 h, ‖g2 (a + s)‖ ≤ M * s ^ 0 := by
    intro s hs
    simpa using hM (a + s) ⟨by linarith [hs.1], by linarith [hs.2]⟩
  have b1 := PyYetiVerif.Newmark.norm_le_of_deriv_norm_le _ _ h M 0 e1 (by simp) b2
  have b0 := PyYetiVerif.Newmark.norm_le_of_deriv_norm_le _ _ h (M / ((0 : ℕ) + 1)) (0 + 1) e0 (by simp) b1
  intro s hs
  refine le_trans (b0 s hs) (le_of_eq ?_)
  push_cast; ring

/-- a function with `‖g''‖ ≤ M` on `[a, a+h]` differs from its linear interpolant between the end points by at
most `M h²` on the whole step -/
theorem interp_error_le (g g1 g2 : ℝ → E) (hd0 : ∀ t, HasDerivAt g (g1 t) t)
    (hd1 : ∀ t, HasDerivAt g1 (g2 t) t) (a h M : ℝ) (hh : 0 < h) (hM : ∀ t ∈ Icc a (a + h), ‖g2 t‖ ≤ M) :
    ∀ s ∈ Icc 0 h, ‖g (a + s) - ((1 - s / h) • g a + (s / h) • g (a + h))‖ ≤ M * h ^ 2 := by
  intro s hs
  have t1 := taylor1_le g g1 g2 hd0 hd1 a h M hM s hs
  have t2 := taylor1_le g g1 g2 hd0 hd1 a h M hM h ⟨hh.le, le_refl _⟩
  have hM0 : 0 ≤ M := le_trans (norm_nonneg _) (hM a ⟨le_refl _, by linarith⟩)
  have e : g (a + s) - ((1 - s / h) • g a + (s / h) • g (a + h))
      = (g (a + s) - g a - s • g1 a) - (s / h) • (g (a + h) - g a - h • g1 a) := by
    have hsh : s / h * h = s := by field_simp
    simp only [smul_sub, sub_smul, one_smul, smul_smul, hsh]
    abel
  rw [e]
  refine le_trans (norm_sub_le _ _) ?_
  rw [norm_smul, Real.norm_eq_abs, abs_of_nonneg (div_nonneg hs.1 hh.le)]
  have hs1 : s / h ≤ 1 := by rw [div_le_one hh]; exact hs.2
  have hs2 : s ^ 2 ≤ h ^ 2 := pow_le_pow_left₀ hs.1 hs.2 2
  have h3 : s / h * ‖g (a + h) - g a - h • g1 a‖ ≤ 1 * (M / 2 * h ^ 2) :=
    mul_le_mul hs1 t2 (norm_nonneg _) (by norm_num)
  nlinarith

end interp

/-! ### the 2-DOF velocity test problem -/

/-- two identical DOF (scalar coefficients of `get_su_coef`) coupled by the symmetric off-diagonal damping `c`:
`C_od = [[0, c], [c, 0]]`, `alpha = C_od (I + β C_od)⁻¹` written out -/
noncomputable def twoDofOps (F G A B Fp γ a β c : ℝ) : Ops (ℝ × ℝ) :=
  { F := fun x => (F * x.1, F * x.2), G := fun x => (G * x.1, G * x.2)
    A := fun x => (A * x.1, A * x.2), B := fun x => (B * x.1, B * x.2)
    Fp := fun x => (Fp * x.1, Fp * x.2), Gp := fun x => (γ * x.1, γ * x.2)
    Ap := fun x => (a * x.1, a * x.2), Bp := fun x => (β * x.1, β * x.2)
    bo := fun x => (c * x.2, c * x.1)
    alpha := fun x => (c * ((x.2 - β * c * x.1) / (1 - β ^ 2 * c ^ 2)),
      c * ((x.1 - β * c * x.2) / (1 - β ^ 2 * c ^ 2))) }

end PyYetiVerif.Cdf
