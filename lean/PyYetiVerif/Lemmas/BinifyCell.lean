import PyYetiVerif.Lemmas.BinifySpec
/-! Helper lemmas for C10 / the cell-by-cell content of the `_binify` table. -/
set_option linter.unusedSectionVars false
set_option linter.unusedVariables false
namespace PyYetiVerif.Binify

section table
variable {β : Type}

/-- `T[i, j]` (`none` outside the table) -/
def cell (T : List (List β)) (i j : Nat) : Option β := T[i]?.bind (·[j]?)

variable [AddCommMonoid β]

theorem bump_getElem? (w : β) (k j : Nat) (l : List β) :
    (bump w k l)[j]? = if j = k then l[j]?.map (· + w) else l[j]? := by
  induction l generalizing k j with
  | nil => cases k <;> simp [bump]
  | cons x r ih =>
      cases k with
      | zero => cases j <;> simp [bump]
      | succ k =>
          cases j with
          | zero => simp [bump]
          | succ j => simp only [bump, List.getElem?_cons_succ, ih, Nat.add_right_cancel_iff]

theorem cell_bump2 (w : β) (i j i' j' : Nat) (T : List (List β)) :
    cell (bump2 w i j T) i' j' =
      if i' = i ∧ j' = j then (cell T i' j').map (· + w) else cell T i' j' := by
  induction T generalizing i i' with
  | nil => cases i <;> simp [bump2, cell]
  | cons row T ih =>
      cases i with
      | zero =>
          cases i' with
          | zero =>
              simp only [bump2, cell, List.getElem?_cons_zero, Option.bind_some, bump_getElem?,
                true_and]
          | succ i' => simp [bump2, cell]
      | succ i =>
          cases i' with
          | zero => simp [bump2, cell]
          | succ i' =>
              have := ih i i'
              simp only [cell, bump2, List.getElem?_cons_succ, Nat.add_right_cancel_iff] at this ⊢
              exact this

theorem cell_zeros (nm nr i j : Nat) (hi : i < nm) (hj : j < nr) :
    cell (zeros nm nr : List (List β)) i j = some 0 := by
  simp [cell, zeros, hi, hj]

end table

section loop
variable {α : Type} [LinearOrder α] {β : Type} [AddCommMonoid β]

/-- the counts of the cycles of one cell: amplitude in `(loa, hia]` / `[loa, hia)` AND mean in
`(lom, him]` / `[lom, him)` -/
def cellCounts (right : Bool) (loa hia lom him : α) (cycles : List (α × α × β)) : List β :=
  (cycles.filter fun c => decide (inBin right loa hia c.1) && decide (inBin right lom him c.2.1)).map (·.2.2)

theorem binifyLoop_cell (right : Bool) (br bm : List α) (hr : List.Pairwise (· < ·) br)
    (hm : List.Pairwise (· < ·) bm) (i j : Nat) (lom him loa hia : α)
    (h1 : bm[i]? = some lom) (h2 : bm[i + 1]? = some him)
    (h4 : br[j]? = some loa) (h5 : br[j + 1]? = some hia) (cycles : List (α × α × β)) :
    ∀ (T T' : List (List β)), binifyLoop right true br bm cycles T = some T' →
      cell T' i j = (cell T i j).map (· + (cellCounts right loa hia lom him cycles).sum) := by
  induction cycles with
  | nil =>
      intro T T' h
      simp only [binifyLoop, Option.some.injEq] at h
      subst h
      cases cell T i j <;> simp [cellCounts]
  | cons c cs ih =>
      intro T T' h
      obtain ⟨amp, mean, cnt⟩ := c
      have em := digitize_eq_iff' right mean bm i lom him hm h1 h2
      have ea := digitize_eq_iff' right amp br j loa hia hr h4 h5
      have hi : i + 1 < bm.length := (List.getElem?_eq_some_iff.mp h2).1
      have hj : j + 1 < br.length := (List.getElem?_eq_some_iff.mp h5).1
      unfold binifyLoop at h
      simp only [if_true] at h
      split at h
      · rename_i hg
        rw [ih _ _ h, cell_bump2]
        by_cases hc : digitize right mean bm - 1 = i ∧ digitize right amp br - 1 = j
        · have c1 : inBin right lom him mean := em.mp (by omega)
          have c2 : inBin right loa hia amp := ea.mp (by omega)
          rw [if_pos ⟨hc.1.symm ▸ rfl, hc.2.symm ▸ rfl⟩]
          have : cellCounts right loa hia lom him ((amp, mean, cnt) :: cs)
              = cnt :: cellCounts right loa hia lom him cs := by
            simp [cellCounts, c1, c2]
          rw [this]
          cases cell T i j <;> simp [add_assoc]
        · have : ¬ (inBin right loa hia amp ∧ inBin right lom him mean) := by
            rintro ⟨c2, c1⟩
            have := em.mpr c1
            have := ea.mpr c2
            exact hc ⟨by omega, by omega⟩
          rw [if_neg (by rintro ⟨a, b⟩; exact hc ⟨a.symm, b.symm⟩)]
          have e : cellCounts right loa hia lom him ((amp, mean, cnt) :: cs)
              = cellCounts right loa hia lom him cs := by
            unfold cellCounts
            rw [List.filter_cons_of_neg (by simpa using this)]
          rw [e]
      · rename_i hg
        have : ¬ (inBin right loa hia amp ∧ inBin right lom him mean) := by
          rintro ⟨c2, c1⟩
          have := em.mpr c1
          have := ea.mpr c2
          exact hg ⟨by omega, by omega, by omega, by omega⟩
        have e : cellCounts right loa hia lom him ((amp, mean, cnt) :: cs)
            = cellCounts right loa hia lom him cs := by
          unfold cellCounts
          rw [List.filter_cons_of_neg (by simpa using this)]
        rw [e]
        exact ih _ _ h

end loop

end PyYetiVerif.Binify
