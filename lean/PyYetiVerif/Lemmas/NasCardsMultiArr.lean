import PyYetiVerif.Lemmas.NasCardsMultiFile
/-! C12: the general reader on files without tabs is the reader of `Model/NasCards`; the
`'array'` and `'dict'` post-processing. -/
set_option linter.unusedSimpArgs false
set_option linter.unusedVariables false
namespace PyYetiVerif.NasCards
open PyYetiVerif.PyFloat PyYetiVerif.NasFloat

/-! ### reduction to `rdcards` of `Model/NasCards` -/

def mkLine (name : Str) (l : Str) : TLine := ⟨false, l, prefixMatch name l⟩

theorem prepLines_noTab (name : Str) (ls : List Str) (h : ∀ l ∈ ls, ∀ c ∈ l, c ≠ '\t') :
    prepLines false (prefixMatch name) ls = ls.map (mkLine name) := by
  unfold prepLines
  apply List.map_congr_left
  intro l hl
  simp [prepLine, mkLine, expandTabs_noTab l (h l hl)]

theorem visible_mkLine (name : Str) (ls : List Str) : visible (ls.map (mkLine name)) = ls := by
  rw [visible_noCmt _ (by intro t ht; simp only [List.mem_map] at ht; obtain ⟨l, _, rfl⟩ := ht; rfl)]
  simp [mkLine, Function.comp_def]

theorem dropVisible_mkLine (name : Str) (k : Nat) (ls : List Str) :
    dropVisible k (ls.map (mkLine name)) = ([], (ls.drop k).map (mkLine name)) := by
  rw [dropVisible_noCmt _ _ (by intro t ht; simp only [List.mem_map] at ht; obtain ⟨l, _, rfl⟩ := ht; rfl),
    List.map_drop]

theorem rdItemsGo_default (name : Str) (keep : Bool) : ∀ (f : Nat) (ls : List Str),
    rdItemsGo cardVal (NasVal.str []) keep f [] (ls.map (mkLine name)) =
      (rdcardsGo name keep f ls).map Item.card
  | 0, ls => by simp [rdItemsGo, rdcardsGo]
  | f + 1, [] => by simp [rdItemsGo, rdcardsGo]
  | f + 1, l :: rest => by
    simp only [List.map_cons]
    rw [rdItemsGo, rdcardsGo]
    have hc : (mkLine name l).cmt = false := rfl
    have ht : (mkLine name l).txt = l := rfl
    have hm : (mkLine name l).mat = (lower name).isPrefixOf (lower l) := rfl
    simp only [hc, ht, hm, Bool.false_eq_true, if_false, List.map_nil, List.nil_append]
    by_cases hp : (lower name).isPrefixOf (lower l) = true
    · simp only [hp, if_true, visible_mkLine, rdOneG_default, dropVisible_mkLine, List.map_cons]
      rw [rdItemsGo_default name keep f]
    · have hp' : (lower name).isPrefixOf (lower l) = false := Bool.eq_false_iff.2 hp
      simp only [hp', Bool.false_eq_true, if_false]
      exact rdItemsGo_default name keep f rest

/-- **on a file without tabs, read into a list with the default blank and the literal name
matcher, the general reader is `rdcards` of `Model/NasCards`** — the reader of the round-trip
theorems `card_roundtrip_small / _large / _comma`. -/
theorem rdItems_default (name : Str) (keep : Bool) (text : Str) (h : ∀ c ∈ text, c ≠ '\t') :
    rdItems cardVal (NasVal.str []) keep (prepLines false (prefixMatch name) (fileLines text)) =
      (rdcards name keep text).map Item.card := by
  have hl : ∀ l ∈ fileLines text, ∀ c ∈ l, c ≠ '\t' := by
    -- every character of a line is a character of the text
    have key : ∀ (s acc : Str), ∀ l ∈ fileLines.go s acc, ∀ c ∈ l, c ∈ s ∨ c ∈ acc := by
      intro s
      induction s with
      | nil =>
        intro acc l hl c hc
        simp only [fileLines.go] at hl
        split_ifs at hl
        · simp at hl
        · simp only [List.mem_singleton] at hl
          subst hl
          exact Or.inr (by simpa using hc)
      | cons d s ih =>
        intro acc l hl c hc
        simp only [fileLines.go] at hl
        split_ifs at hl with hd
        · rcases List.mem_cons.1 hl with rfl | hm
          · simp only [List.reverse_cons, List.mem_append, List.mem_reverse, List.mem_singleton] at hc
            rcases hc with h | rfl
            · exact Or.inr h
            · exact Or.inl List.mem_cons_self
          · rcases ih [] l hm c hc with h | h
            · exact Or.inl (List.mem_cons_of_mem _ h)
            · simp at h
        · rcases ih (d :: acc) l hl c hc with h | h
          · exact Or.inl (List.mem_cons_of_mem _ h)
          · rcases List.mem_cons.1 h with rfl | h'
            · exact Or.inl List.mem_cons_self
            · exact Or.inr h'
    intro l hl c hc
    rcases key text [] l hl c hc with h' | h'
    · exact h c h'
    · simp at h'
  rw [prepLines_noTab name _ hl]
  unfold rdItems rdcards
  simp only [List.length_map]
  exact rdItemsGo_default name keep _ _

/-! ### `return_var='array'`: shapes and padding -/

theorem convRow_length (dt : DType) (vals row : List NasVal) (h : convRow dt vals = some row) :
    row.length = vals.length := by
  have mapM_len : ∀ (f : NasVal → Option NasVal) (l r : List NasVal), l.mapM f = some r → r.length = l.length := by
    intro f l
    induction l with
    | nil => intro r hr; simp at hr; subst hr; rfl
    | cons a t ih =>
      intro r hr
      simp only [List.mapM_cons, Option.bind_eq_bind, Option.bind_eq_some_iff] at hr
      obtain ⟨b, _, rs, hrs, hr⟩ := hr
      simp only [Option.pure_def, Option.some.injEq] at hr
      subst hr
      simp [ih rs hrs]
  unfold convRow at h
  cases dt with
  | float => exact mapM_len _ _ _ h
  | int =>
    simp only at h
    split_ifs at h
    · simp only [Option.some.injEq] at h; subst h; rfl
    · simp only [Option.bind_eq_some_iff] at h
      obtain ⟨fs, h1, h2⟩ := h
      rw [mapM_len _ _ _ h2, mapM_len _ _ _ h1]

theorem convCards_spec (dt : DType) : ∀ (cards rows : List (List NasVal)),
    convCards dt cards = .ok rows →
      rows.length = cards.length ∧ List.Forall₂ (fun c r => c ≠ [] ∧ convRow dt c = some r) cards rows
  | [], rows, h => by
    simp only [convCards, Except.ok.injEq] at h
    subst h
    exact ⟨rfl, List.Forall₂.nil⟩
  | c :: cs, rows, h => by
    simp only [convCards] at h
    split_ifs at h with he
    cases hr : convRow dt c with
    | none => rw [hr] at h; simp at h
    | some r =>
      rw [hr] at h
      cases hcs : convCards dt cs with
      | error e => rw [hcs] at h; simp at h
      | ok rs =>
        rw [hcs] at h
        simp only [Except.ok.injEq] at h
        subst h
        obtain ⟨h1, h2⟩ := convCards_spec dt cs rs hcs
        refine ⟨by simp [h1], List.Forall₂.cons ⟨?_, hr⟩ h2⟩
        intro hc; subst hc; simp at he

theorem forall2_imp {α β : Type} {R S : α → β → Prop} (hi : ∀ a b, R a b → S a b) :
    ∀ {l₁ : List α} {l₂ : List β}, List.Forall₂ R l₁ l₂ → List.Forall₂ S l₁ l₂
  | _, _, .nil => .nil
  | _, _, .cons h t => .cons (hi _ _ h) (forall2_imp hi t)

theorem forall2_last {α β : Type} {R : α → β → Prop} : ∀ (l₁ : List α) (l₂ : List β) (a : α) (b : β),
    l₁.length = l₂.length → List.Forall₂ R (l₁ ++ [a]) (l₂ ++ [b]) → R a b
  | [], [], a, b, _, h => by
    cases h with
    | cons hh _ => exact hh
  | x :: l₁, y :: l₂, a, b, hl, h => by
    cases h with
    | cons _ ht => exact forall2_last l₁ l₂ a b (by simpa using hl) ht
  | [], y :: l₂, a, b, hl, _ => by simp at hl
  | x :: l₁, [], a, b, hl, _ => by simp at hl

theorem le_maxLen (rows : List (List NasVal)) : ∀ r ∈ rows, r.length ≤ maxLen rows := by
  induction rows with
  | nil => intro r hr; simp at hr
  | cons a t ih =>
    intro r hr
    simp only [maxLen]
    rcases List.mem_cons.1 hr with rfl | h
    · exact Nat.le_max_left _ _
    · exact le_trans (ih r h) (Nat.le_max_right _ _)

theorem maxLen_attained (rows : List (List NasVal)) (hne : rows ≠ []) : ∃ r ∈ rows, r.length = maxLen rows := by
  induction rows with
  | nil => exact absurd rfl hne
  | cons a t ih =>
    simp only [maxLen]
    by_cases ht : t = []
    · subst ht; exact ⟨a, by simp, by simp [maxLen]⟩
    · obtain ⟨r, hr, hrl⟩ := ih ht
      by_cases hle : maxLen t ≤ a.length
      · exact ⟨a, by simp, by rw [Nat.max_eq_left hle]⟩
      · exact ⟨r, List.mem_cons_of_mem _ hr, by rw [hrl, Nat.max_eq_right (by omega)]⟩

theorem overwritePrefix_replicate (mx : Nat) (b : NasVal) (r : List NasVal) (h : r.length ≤ mx) :
    overwritePrefix (List.replicate mx b) r = r ++ List.replicate (mx - r.length) b ∧
      (overwritePrefix (List.replicate mx b) r).length = mx := by
  unfold overwritePrefix
  simp only [List.drop_replicate, List.length_append, List.length_replicate, true_and]
  omega

theorem convCards_error (dt : DType) : ∀ (cs : List (List NasVal)) (e : RdResult),
    convCards dt cs = .error e → e = .indexError ∨ e = .valueError
  | [], e, h => by simp [convCards] at h
  | c :: cs, e, h => by
    simp only [convCards] at h
    split_ifs at h with hce
    · simp only [Except.error.injEq] at h; exact Or.inl h.symm
    · cases hr : convRow dt c with
      | none => rw [hr] at h; simp only [Except.error.injEq] at h; exact Or.inr h.symm
      | some r =>
        rw [hr] at h
        cases hcs : convCards dt cs with
        | error e' =>
          rw [hcs] at h; simp only [Except.error.injEq] at h; subst h
          exact convCards_error dt cs _ hcs
        | ok rs => rw [hcs] at h; simp at h

theorem finishRd_array (o : RdOpts) (bl : NasVal) (items : List Item) (n : Nat) (rows : List (List NasVal))
    (h : finishRd o bl items = .array n rows) :
    ∃ crows b, convCards o.dtype (cardsOf items) = .ok crows ∧ crows ≠ [] ∧ convBlank o.dtype bl = some b ∧
      n = maxLen crows ∧ rows = crows.map (overwritePrefix (List.replicate (maxLen crows) b)) := by
  unfold finishRd at h
  cases hrv : o.retVar <;> rw [hrv] at h <;> simp only at h
  · -- array
    cases hcc : convCards o.dtype (cardsOf items) with
    | error e => rw [hcc] at h; rcases convCards_error _ _ _ hcc with rfl | rfl <;> simp at h
    | ok crows =>
      rw [hcc] at h
      simp only at h
      have e1 : (RetVar.array == RetVar.dict) = false := by decide
      by_cases hemp : crows.isEmpty = true
      · simp [hemp] at h
      · have hemp' : crows.isEmpty = false := by simpa using hemp
        simp only [hemp', e1, Bool.false_eq_true, if_false] at h
        cases hb : convBlank o.dtype bl with
        | none => rw [hb] at h; simp at h
        | some b =>
          rw [hb] at h
          simp only [RdResult.array.injEq] at h
          exact ⟨crows, b, rfl, by intro hc; subst hc; simp at hemp', rfl, h.1.symm, h.2.symm⟩
  · split_ifs at h
  · -- dict
    cases hcc : convCards o.dtype (cardsOf items) with
    | error e => rw [hcc] at h; rcases convCards_error _ _ _ hcc with rfl | rfl <;> simp at h
    | ok crows =>
      rw [hcc] at h
      simp only at h
      have e1 : (RetVar.dict == RetVar.dict) = true := by decide
      by_cases hemp : crows.isEmpty = true
      · simp [hemp] at h
      · have hemp' : crows.isEmpty = false := by simpa using hemp
        simp [hemp', e1] at h

theorem finishRd_dict (o : RdOpts) (bl : NasVal) (items : List Item) (es : List (NasVal × List NasVal))
    (h : finishRd o bl items = .dict es) :
    ∃ crows, convCards o.dtype (cardsOf items) = .ok crows ∧ crows ≠ [] ∧
      es = ((cardsOf items).zip crows).foldl (fun d kr => dictInsert (kr.1.headD bl) kr.2 d) [] := by
  unfold finishRd at h
  cases hrv : o.retVar <;> rw [hrv] at h <;> simp only at h
  · cases hcc : convCards o.dtype (cardsOf items) with
    | error e => rw [hcc] at h; rcases convCards_error _ _ _ hcc with rfl | rfl <;> simp at h
    | ok crows =>
      rw [hcc] at h
      simp only at h
      have e1 : (RetVar.array == RetVar.dict) = false := by decide
      by_cases hemp : crows.isEmpty = true
      · simp [hemp] at h
      · have hemp' : crows.isEmpty = false := by simpa using hemp
        simp only [hemp', e1, Bool.false_eq_true, if_false] at h
        cases hb : convBlank o.dtype bl <;> rw [hb] at h <;> simp at h
  · split_ifs at h
  · cases hcc : convCards o.dtype (cardsOf items) with
    | error e => rw [hcc] at h; rcases convCards_error _ _ _ hcc with rfl | rfl <;> simp at h
    | ok crows =>
      rw [hcc] at h
      simp only at h
      have e1 : (RetVar.dict == RetVar.dict) = true := by decide
      by_cases hemp : crows.isEmpty = true
      · simp [hemp] at h
      · have hemp' : crows.isEmpty = false := by simpa using hemp
        simp only [hemp', e1, Bool.false_eq_true, if_false, if_true, RdResult.dict.injEq] at h
        exact ⟨crows, rfl, by intro hc; subst hc; simp at hemp', h.symm⟩

/-- **shape of the array form**: when `rdcards(..., return_var='array')` returns an array, it has
one row per card and as many columns as the longest card has values; every row is the card's
values converted to `dtype`, followed by `blank` (converted) up to the width; the width is attained
by some card. -/
theorem array_shape (o : RdOpts) (bl : NasVal) (items : List Item) (n : Nat) (rows : List (List NasVal))
    (h : finishRd o bl items = .array n rows) :
    ∃ crows b, convCards o.dtype (cardsOf items) = .ok crows ∧ convBlank o.dtype bl = some b ∧
      crows.length = (cardsOf items).length ∧ rows.length = (cardsOf items).length ∧
      n = maxLen crows ∧ (∃ r ∈ crows, r.length = n) ∧ (∀ r ∈ rows, r.length = n) ∧
      rows = crows.map (fun r => r ++ List.replicate (n - r.length) b) ∧
      List.Forall₂ (fun c r => c ≠ [] ∧ convRow o.dtype c = some r ∧ r.length = c.length) (cardsOf items) crows := by
  obtain ⟨crows, b, hcc, hne, hb, hn, hrows⟩ := finishRd_array o bl items n rows h
  obtain ⟨hlen, hall⟩ := convCards_spec o.dtype _ _ hcc
  have hpad : ∀ r ∈ crows, overwritePrefix (List.replicate (maxLen crows) b) r =
      r ++ List.replicate (maxLen crows - r.length) b ∧
      (overwritePrefix (List.replicate (maxLen crows) b) r).length = maxLen crows :=
    fun r hr => overwritePrefix_replicate _ b r (le_maxLen crows r hr)
  subst hn
  refine ⟨crows, b, hcc, hb, hlen, ?_, rfl, maxLen_attained crows hne, ?_, ?_, ?_⟩
  · rw [hrows, List.length_map, hlen]
  · intro r hr
    rw [hrows] at hr
    obtain ⟨r0, hr0, rfl⟩ := List.mem_map.1 hr
    exact (hpad r0 hr0).2
  · rw [hrows]
    apply List.map_congr_left
    intro r hr
    exact (hpad r hr).1
  · exact forall2_imp (fun c r hcr => ⟨hcr.1, hcr.2, convRow_length _ _ _ hcr.2⟩) hall

/-! ### `return_var='dict'` -/

theorem keyEq_refl_int (n : Int) : keyEq (.int n) (.int n) = true := by
  simp [keyEq, Dbl.eq]

/-- after `Vals[k] = v` the dictionary holds `v` under a key equal to `k` -/
theorem dictInsert_mem (k : NasVal) (v : List NasVal) (d : List (NasVal × List NasVal)) :
    ∃ k', (k', v) ∈ dictInsert k v d ∧ (k' = k ∨ keyEq k' k = true) := by
  induction d with
  | nil => exact ⟨k, by simp [dictInsert], Or.inl rfl⟩
  | cons e rest ih =>
    obtain ⟨k0, v0⟩ := e
    simp only [dictInsert]
    by_cases he : keyEq k0 k = true
    · simp only [he, if_true]
      exact ⟨k0, by simp, Or.inr he⟩
    · have he' : keyEq k0 k = false := by simpa using he
      simp only [he', Bool.false_eq_true, if_false]
      obtain ⟨k', hm, hk⟩ := ih
      exact ⟨k', List.mem_cons_of_mem _ hm, hk⟩

/-- the keys already present keep their place and spelling; at most one key is appended -/
theorem dictInsert_keys (k : NasVal) (v : List NasVal) (d : List (NasVal × List NasVal)) :
    (dictInsert k v d).map Prod.fst = d.map Prod.fst ∨ (dictInsert k v d).map Prod.fst = d.map Prod.fst ++ [k] := by
  induction d with
  | nil => right; simp [dictInsert]
  | cons e rest ih =>
    obtain ⟨k0, v0⟩ := e
    simp only [dictInsert]
    by_cases he : keyEq k0 k = true
    · simp only [he, if_true]; left; simp
    · have he' : keyEq k0 k = false := by simpa using he
      simp only [he', Bool.false_eq_true, if_false, List.map_cons]
      rcases ih with h | h
      · left; rw [h]
      · right; rw [h]; simp

/-- **the dictionary form: the last card wins.**  If `rdcards(..., return_var='dict')` returns a
dictionary and the cards read are `… ++ [c]`, the dictionary holds the converted values of `c`
under a key that is (numerically) the first value of `c` before conversion. -/
theorem dict_last_wins (o : RdOpts) (bl : NasVal) (items : List Item) (es : List (NasVal × List NasVal))
    (h : finishRd o bl items = .dict es) (cs : List (List NasVal)) (c : List NasVal)
    (hc : cardsOf items = cs ++ [c]) :
    ∃ k r, (k, r) ∈ es ∧ convRow o.dtype c = some r ∧ (k = c.headD bl ∨ keyEq k (c.headD bl) = true) := by
  obtain ⟨crows, hcc, hne, hes⟩ := finishRd_dict o bl items es h
  obtain ⟨hlen, hall⟩ := convCards_spec o.dtype _ _ hcc
  rw [hc] at hall hlen hes
  obtain ⟨rs, r, hcr⟩ : ∃ rs r, crows = rs ++ [r] := by
    rcases List.eq_nil_or_concat crows with hn | ⟨rs, r, hr⟩
    · exact absurd hn hne
    · exact ⟨rs, r, by simpa using hr⟩
  subst hcr
  have hl2 : cs.length = rs.length := by simpa using hlen.symm
  have hlast' : convRow o.dtype c = some r := (forall2_last cs rs c r hl2 hall).2
  rw [List.zip_append hl2, List.foldl_append] at hes
  simp only [List.zip_cons_cons, List.zip_nil_right, List.foldl_cons, List.foldl_nil] at hes
  obtain ⟨k', hm, hk⟩ := dictInsert_mem (c.headD bl) r
    (List.foldl (fun d kr => dictInsert (kr.1.headD bl) kr.2 d) [] (cs.zip rs))
  rw [← hes] at hm
  exact ⟨k', r, hm, hlast', hk⟩

/-- every key of the dictionary is the first value (before conversion) of some card -/
theorem dict_keys_first_values (o : RdOpts) (bl : NasVal) (items : List Item) (es : List (NasVal × List NasVal))
    (h : finishRd o bl items = .dict es) :
    ∀ k ∈ es.map Prod.fst, ∃ c ∈ cardsOf items, k = c.headD bl := by
  obtain ⟨crows, hcc, hne, hes⟩ := finishRd_dict o bl items es h
  subst hes
  have key : ∀ (l : List (List NasVal × List NasVal)) (d : List (NasVal × List NasVal)),
      ∀ k ∈ (l.foldl (fun d kr => dictInsert (kr.1.headD bl) kr.2 d) d).map Prod.fst,
        k ∈ d.map Prod.fst ∨ ∃ kr ∈ l, k = kr.1.headD bl := by
    intro l
    induction l with
    | nil => intro d k hk; exact Or.inl hk
    | cons kr l ih =>
      intro d k hk
      simp only [List.foldl_cons] at hk
      rcases ih _ k hk with h1 | ⟨kr', hkr', rfl⟩
      · rcases dictInsert_keys (kr.1.headD bl) kr.2 d with e | e
        · rw [e] at h1; exact Or.inl h1
        · rw [e] at h1
          rcases List.mem_append.1 h1 with h2 | h2
          · exact Or.inl h2
          · exact Or.inr ⟨kr, List.mem_cons_self, by simpa using h2⟩
      · exact Or.inr ⟨kr', List.mem_cons_of_mem _ hkr', rfl⟩
  intro k hk
  rcases key _ [] k hk with h1 | ⟨kr, hkr, rfl⟩
  · simp at h1
  · exact ⟨kr.1, (List.of_mem_zip hkr).1, rfl⟩

/-! ### a file assembled from texts is read text by text -/

/-- a block of text as the block theorem needs it: it ends with a newline and its first character
is neither a continuation character of any card form nor a tab (which `expandtabs` would turn into
blanks) -/
def BlockText (t : Str) : Prop :=
  (∃ a, t = a ++ ['\n']) ∧ ∀ c ∈ t.head?, c ≠ ' ' ∧ c ≠ '+' ∧ c ≠ '*' ∧ c ≠ ',' ∧ c ≠ '\t'

theorem prepLines_block_head (m : Str → Bool) (t : Str) (ht : BlockText t) :
    ∀ x ∈ (prepLines false m (fileLines t)).head?, NoCont x.txt := by
  obtain ⟨⟨a, ha⟩, hh⟩ := ht
  have hne : t ≠ [] := by rw [ha]; simp
  obtain ⟨c, r, hcr⟩ := List.exists_cons_of_ne_nil hne
  obtain ⟨l, ls, hl, hlh⟩ := fileLines_head t c r hcr
  obtain ⟨h1, h2, h3, h4, h5⟩ := hh c (by rw [hcr]; simp)
  intro x hx
  rw [hl] at hx
  simp only [prepLines, List.map_cons, List.head?_cons, Option.mem_def, Option.some.injEq] at hx
  subst hx
  simp only [prepLine, Bool.false_and, Bool.false_eq_true, if_false]
  cases l with
  | nil => simp at hlh
  | cons c' l' =>
    simp only [List.head?_cons, Option.some.injEq] at hlh
    subst hlh
    intro y hy
    rw [expandTabs_head c' l' h5] at hy
    simp only [Option.mem_def, Option.some.injEq] at hy
    subst hy
    exact ⟨h1, h2, h3, h4⟩

/-- **`rdcards_multi`, items level**: a file that is a concatenation of block texts is read block
by block, for any matcher and any options that do not keep comments -/
theorem rdItems_texts (cv : Str → NasVal) (bl : NasVal) (keep : Bool) (m : Str → Bool) (texts : List Str)
    (h : ∀ t ∈ texts, BlockText t) :
    rdItems cv bl keep (prepLines false m (fileLines texts.flatten)) =
      (texts.map fun t => rdItems cv bl keep (prepLines false m (fileLines t))).flatten := by
  have hsplit : prepLines false m (fileLines texts.flatten) =
      (texts.map fun t => prepLines false m (fileLines t)).flatten := by
    rw [fileLines_texts texts (fun t ht => Or.inr (h t ht).1)]
    simp [prepLines, List.map_flatten, List.map_map, Function.comp_def]
  rw [hsplit, rdItems_blocks]
  · simp [List.map_map, Function.comp_def]
  · intro b hb
    obtain ⟨t, _, rfl⟩ := List.mem_map.1 hb
    exact prepLines_noCmt m _
  · intro b hb
    obtain ⟨t, ht, rfl⟩ := List.mem_map.1 hb
    exact prepLines_block_head m t (h t ht)

theorem map_card_injective : ∀ (a b : List (List NasVal)), a.map Item.card = b.map Item.card → a = b
  | [], [], _ => rfl
  | [], _ :: _, h => by simp at h
  | _ :: _, [], h => by simp at h
  | x :: a, y :: b, h => by
    simp only [List.map_cons, List.cons.injEq, Item.card.injEq] at h
    rw [h.1, map_card_injective a b h.2]

/-- **`rdcards_multi` for `rdcards` of `Model/NasCards`**: on a file without tabs assembled from
block texts, the cards read by a name are those read from each block, in file order -/
theorem rdcards_texts (name : Str) (keep : Bool) (texts : List Str) (h : ∀ t ∈ texts, BlockText t)
    (htab : ∀ t ∈ texts, ∀ c ∈ t, c ≠ '\t') :
    rdcards name keep texts.flatten = (texts.map (rdcards name keep)).flatten := by
  apply map_card_injective
  have hflat : ∀ c ∈ texts.flatten, c ≠ '\t' := by
    intro c hc
    obtain ⟨t, ht, hct⟩ := List.mem_flatten.1 hc
    exact htab t ht c hct
  rw [← rdItems_default name keep _ hflat, rdItems_texts _ _ _ _ texts h, List.map_flatten, List.map_map]
  congr 1
  apply List.map_congr_left
  intro t ht
  exact rdItems_default name keep t (htab t ht)

end PyYetiVerif.NasCards
