import PyYetiVerif.Generated.PyRain
import PyYetiVerif.Lemmas.RainflowGen
/-! The generated `_rainflow2` (Generated/PyRain.lean) never fails and computes the table and the
offsets of the model `Rainflow.rainflow` (core Lean only). -/
set_option linter.unusedSectionVars false
set_option linter.unusedVariables false
set_option linter.unusedSimpArgs false
namespace PyYetiVerif.RainflowGen
open PyYetiVerif.RainflowImp PyYetiVerif.Generated.PyRain PyYetiVerif.Rainflow PyYetiVerif.RainflowEntry

variable {α : Type} [Ops α]

def offs (st : List (α × Nat)) : List Int := st.map fun p => (p.2 : Int)

structure Rel2 (L m : Nat) (s : Rainflow2St α) (st : List (α × Nat)) (rows : List (Cyc α)) : Prop where
  psize : s.pts.size = L
  csize : s.cycle_index.size = L
  hj : s.j = (st.length : Int) - 1
  hpts : ArrStack s.pts (st.map Prod.fst)
  hci : ArrStack s.cycle_index (offs st)
  hn : s.n = (rows.length : Int) - 1
  hrf : TabOK (L - 1) 3 s.rf (rows.map rfRowC)
  hos : TabOK (L - 1) 2 s.os (rows.map osRow)
  hfull : s.fullcyclesp1 = 1 + ((rows.filter (·.full)).length : Int)
  hbound : st.length + rows.length + (rows.filter (·.full)).length = m
  hm : m ≤ L

theorem body2_brk (habs : ∀ a b : α, Ops.abs (a - b) = absd a b) (peaks : Arr α) (L m : Nat)
    (s : Rainflow2St α) (c b a : α × Nat) (rest : List (α × Nat)) (rows : List (Cyc α))
    (hR : Rel2 L m s (c :: b :: a :: rest) rows) (hlt : absd b.1 c.1 < absd a.1 b.1) :
    ∃ s', rainflow2_while1_body peaks (L : Int) s = some (Ctl.brk s') ∧
      Rel2 L m s' (c :: b :: a :: rest) rows := by
  obtain ⟨psize, csize, hj, hpts, hci, hn, hrf, hos, hfull, hbound, hm⟩ := hR
  simp only [List.length_cons] at hj hbound
  have e2 : s.j - 2 = ((rest.length : Nat) : Int) := by omega
  have e1 : s.j - 1 = ((rest.length + 1 : Nat) : Int) := by omega
  have e0 : s.j = ((rest.length + 2 : Nat) : Int) := by omega
  have hp := hpts
  simp only [List.map_cons] at hp
  obtain ⟨p0, p1, p2⟩ := hp.top3
  simp only [List.length_map] at p0 p1 p2
  unfold rainflow2_while1_body
  simp only [e2, e1, Arr.get_natCast, p2, p1, Option.bind_eq_bind, Option.bind_some, habs]
  rw [e0]
  simp only [Arr.get_natCast, p0, Option.bind_some, hlt, if_true]
  refine ⟨_, rfl, ⟨psize, csize, ?_, hpts, hci, hn, hrf, hos, hfull, by simpa using hbound, hm⟩⟩
  simp only [List.length_cons]; omega

theorem body2_full (habs : ∀ a b : α, Ops.abs (a - b) = absd a b) (peaks : Arr α) (L m : Nat)
    (s : Rainflow2St α) (c b a r : α × Nat) (rest : List (α × Nat)) (rows : List (Cyc α))
    (hR : Rel2 L m s (c :: b :: a :: r :: rest) rows) (hlt : ¬ absd b.1 c.1 < absd a.1 b.1) :
    ∃ s', rainflow2_while1_body peaks (L : Int) s = some (Ctl.next s') ∧
      Rel2 L m s' (c :: r :: rest) (rows ++ [mkCyc true a b]) := by
  obtain ⟨psize, csize, hj, hpts, hci, hn, hrf, hos, hfull, hbound, hm⟩ := hR
  simp only [List.length_cons] at hj hbound
  have e2 : s.j - 2 = ((rest.length + 1 : Nat) : Int) := by omega
  have e1 : s.j - 1 = ((rest.length + 1 + 1 : Nat) : Int) := by omega
  have e0 : s.j = ((rest.length + 1 + 2 : Nat) : Int) := by omega
  have hp := hpts
  have hc := hci
  simp only [List.map_cons, offs] at hp hc
  obtain ⟨p0, p1, p2⟩ := hp.top3
  obtain ⟨c0, c1, c2⟩ := hc.top3
  simp only [List.length_cons, List.length_map] at p0 p1 p2 c0 c1 c2
  have en : s.n + 1 = ((rows.length : Nat) : Int) := by omega
  have hrl : (rows.map rfRowC).length = rows.length := by simp
  have hol : (rows.map osRow).length = rows.length := by simp
  have hrow : rows.length < L - 1 := by omega
  have hps : rest.length + 1 < s.pts.size := by omega
  have hcs : rest.length + 1 < s.cycle_index.size := by omega
  unfold rainflow2_while1_body
  simp only [e2, e1, Arr.get_natCast, p2, p1, c2, c1, Option.bind_eq_bind, Option.bind_some, habs]
  rw [e0]
  have hne : ¬ (((rest.length + 1 + 2 : Nat) : Int) = 2) := by omega
  simp only [Arr.get_natCast, p0, c0, Option.bind_some, hlt, if_false, hne, en]
  rw [Arr2.set_c0 _ _ _ (by rw [hrf.hr]; exact hrow) (by rw [hrf.hc]; omega)]
  simp only [Option.bind_some]
  rw [Arr2.set_c1 _ _ _ (by simp [hrf.hr]; exact hrow) (by simp [hrf.hc])]
  simp only [Option.bind_some]
  rw [Arr2.set_c2 _ _ _ (by simp [hrf.hr]; exact hrow) (by simp [hrf.hc])]
  simp only [Option.bind_some]
  rw [Arr2.set_c0 _ _ _ (by rw [hos.hr]; exact hrow) (by rw [hos.hc]; omega)]
  simp only [Option.bind_some]
  rw [Arr2.set_c1 _ _ _ (by simp [hos.hr]; exact hrow) (by simp [hos.hc])]
  simp only [Option.bind_some]
  rw [Arr.set_natCast _ _ _ hps]
  simp only [Option.bind_some]
  rw [Arr.set_natCast _ _ _ hcs]
  simp only [Option.bind_some, Option.pure_def]
  have hp4 := hp.step4
  have hc4 := hc.step4
  simp only [List.length_map] at hp4 hc4
  refine ⟨_, rfl, ⟨by simpa using psize, by simpa using csize, ?_, by simpa using hp4,
    by simpa [offs] using hc4, ?_, ?_, ?_, ?_, ?_, hm⟩⟩
  · simp only [List.length_cons]; omega
  · simp only [List.length_append, List.length_cons, List.length_nil]; omega
  · have := hrf.push3 (by rw [hrl]; exact hrow) (Ops.half (absd a.1 b.1)) (Ops.half (a.1 + b.1)) Ops.c1
    rw [hrl] at this
    simpa [rfRowC, mkCyc] using this
  · have := hos.push2 (by rw [hol]; exact hrow) (a.2 : Int) (b.2 : Int)
    rw [hol] at this
    simpa [osRow, mkCyc] using this
  · simp only [List.filter_append, List.length_append]
    simp [mkCyc]; omega
  · simp only [List.length_cons, List.length_append, List.length_nil, List.filter_append]
    simp [mkCyc]; omega

theorem body2_half (habs : ∀ a b : α, Ops.abs (a - b) = absd a b) (peaks : Arr α) (L m : Nat)
    (s : Rainflow2St α) (c b a : α × Nat) (rows : List (Cyc α))
    (hR : Rel2 L m s [c, b, a] rows) (hlt : ¬ absd b.1 c.1 < absd a.1 b.1) :
    ∃ s', rainflow2_while1_body peaks (L : Int) s = some (Ctl.next s') ∧
      Rel2 L m s' [c, b] (rows ++ [mkCyc false a b]) := by
  obtain ⟨psize, csize, hj, hpts, hci, hn, hrf, hos, hfull, hbound, hm⟩ := hR
  simp only [List.length_cons, List.length_nil] at hj hbound
  have e0 : s.j = 2 := by omega
  have hp := hpts
  have hc := hci
  simp only [List.map_cons, List.map_nil, offs] at hp hc
  obtain ⟨p0, p1, p2⟩ := hp.top3
  obtain ⟨c0, c1, c2⟩ := hc.top3
  simp only [List.length_nil] at p0 p1 p2 c0 c1 c2
  have en : s.n + 1 = ((rows.length : Nat) : Int) := by omega
  have hrl : (rows.map rfRowC).length = rows.length := by simp
  have hol : (rows.map osRow).length = rows.length := by simp
  have hrow : rows.length < L - 1 := by omega
  have hps : 3 ≤ s.pts.size := by omega
  have hcs : 3 ≤ s.cycle_index.size := by omega
  unfold rainflow2_while1_body
  simp only [e0, Int.sub_self, Arr.get_zero, Arr.get_one, Arr.get_two, p2, p1, p0, c2, c1, c0,
    Option.bind_eq_bind, Option.bind_some, habs, hlt, if_false, if_true, en,
    show (2 : Int) - 1 = 1 from rfl]
  rw [Arr2.set_c0 _ _ _ (by rw [hrf.hr]; exact hrow) (by rw [hrf.hc]; omega)]
  simp only [Option.bind_some]
  rw [Arr2.set_c1 _ _ _ (by simp [hrf.hr]; exact hrow) (by simp [hrf.hc])]
  simp only [Option.bind_some]
  rw [Arr2.set_c2 _ _ _ (by simp [hrf.hr]; exact hrow) (by simp [hrf.hc])]
  simp only [Option.bind_some]
  rw [Arr2.set_c0 _ _ _ (by rw [hos.hr]; exact hrow) (by rw [hos.hc]; omega)]
  simp only [Option.bind_some]
  rw [Arr2.set_c1 _ _ _ (by simp [hos.hr]; exact hrow) (by simp [hos.hc])]
  simp only [Option.bind_some]
  rw [Arr.set_zero _ _ (by omega)]
  simp only [Option.bind_some, Arr.get_two]
  rw [Arr.val_upd_ne _ _ _ _ (by omega) (by omega), p0]
  simp only [Option.bind_some]
  rw [Arr.set_one _ _ (by simp; omega)]
  simp only [Option.bind_some]
  rw [Arr.set_zero _ _ (by omega)]
  simp only [Option.bind_some, Arr.get_two]
  rw [Arr.val_upd_ne _ _ _ _ (by omega) (by omega), c0]
  simp only [Option.bind_some]
  rw [Arr.set_one _ _ (by simp; omega)]
  simp only [Option.bind_some, Option.pure_def]
  refine ⟨_, rfl, ⟨by simpa using psize, by simpa using csize, ?_, by simpa using hp.step5,
    by simpa [offs] using hc.step5, ?_, ?_, ?_, ?_, ?_, hm⟩⟩
  · simp
  · simp only [List.length_append, List.length_cons, List.length_nil]; omega
  · have := hrf.push3 (by rw [hrl]; exact hrow) (Ops.half (absd a.1 b.1)) (Ops.half (a.1 + b.1)) Ops.c05
    rw [hrl] at this
    simpa [rfRowC, mkCyc] using this
  · have := hos.push2 (by rw [hol]; exact hrow) (a.2 : Int) (b.2 : Int)
    rw [hol] at this
    simpa [osRow, mkCyc] using this
  · simp only [List.filter_append, List.length_append]
    simp [mkCyc]; omega
  · simp only [List.length_cons, List.length_append, List.length_nil, List.filter_append]
    simp [mkCyc]; omega

/-- the `while j > 1` loop of the generated `_rainflow2` is the model's `reduce` -/
theorem while2_sim (habs : ∀ a b : α, Ops.abs (a - b) = absd a b) (peaks : Arr α) (L m : Nat)
    (st : List (α × Nat)) : ∀ (s : Rainflow2St α) (rows : List (Cyc α)) (fuel : Nat),
    Rel2 L m s st rows → st.length ≤ fuel → 0 < fuel →
    ∃ s', whileLoop (rainflow2_while1_cond peaks (L : Int)) (rainflow2_while1_body peaks (L : Int)) fuel s
        = some s' ∧ Rel2 L m s' (reduce st).1 (rows ++ (reduce st).2) := by
  fun_induction reduce st with
  | case1 c b a h =>
      intro s rows fuel hR hf h0
      obtain ⟨fuel, rfl⟩ : ∃ f, fuel = f + 1 := ⟨fuel - 1, by omega⟩
      obtain ⟨s', hb, hR'⟩ := body2_brk habs peaks L m s c b a [] rows hR h
      have hc : rainflow2_while1_cond peaks (L : Int) s = true := by
        simp [rainflow2_while1_cond, hR.hj]
      refine ⟨s', ?_, by simpa using hR'⟩
      simp [whileLoop, hc, hb]
  | case2 c b a h =>
      intro s rows fuel hR hf h0
      obtain ⟨fuel, rfl⟩ : ∃ f, fuel = f + 1 := ⟨fuel - 1, by omega⟩
      obtain ⟨s', hb, hR'⟩ := body2_half habs peaks L m s c b a rows hR h
      have hc : rainflow2_while1_cond peaks (L : Int) s = true := by
        simp [rainflow2_while1_cond, hR.hj]
      have hc' : rainflow2_while1_cond peaks (L : Int) s' = false := by
        simp [rainflow2_while1_cond, hR'.hj]
      obtain ⟨fuel, rfl⟩ : ∃ f, fuel = f + 1 := ⟨fuel - 1, by simp at hf; omega⟩
      refine ⟨s', ?_, hR'⟩
      simp [whileLoop, hc, hb, hc']
  | case3 c b a r rest h =>
      intro s rows fuel hR hf h0
      obtain ⟨fuel, rfl⟩ : ∃ f, fuel = f + 1 := ⟨fuel - 1, by omega⟩
      obtain ⟨s', hb, hR'⟩ := body2_brk habs peaks L m s c b a (r :: rest) rows hR h
      have hc : rainflow2_while1_cond peaks (L : Int) s = true := by
        simp [rainflow2_while1_cond, hR.hj]; omega
      refine ⟨s', ?_, by simpa using hR'⟩
      simp [whileLoop, hc, hb]
  | case4 c b a r rest h res ih =>
      intro s rows fuel hR hf h0
      obtain ⟨fuel, rfl⟩ : ∃ f, fuel = f + 1 := ⟨fuel - 1, by omega⟩
      obtain ⟨s', hb, hR'⟩ := body2_full habs peaks L m s c b a r rest rows hR h
      have hc : rainflow2_while1_cond peaks (L : Int) s = true := by
        simp [rainflow2_while1_cond, hR.hj]; omega
      obtain ⟨s'', hw, hR''⟩ := ih s' _ fuel hR' (by simp at hf ⊢; omega) (by simp at hf; omega)
      refine ⟨s'', ?_, ?_⟩
      · simp [whileLoop, hc, hb, hw]
      · simpa [res] using hR''
  | case5 st h1 h2 =>
      intro s rows fuel hR hf h0
      obtain ⟨fuel, rfl⟩ : ∃ f, fuel = f + 1 := ⟨fuel - 1, by omega⟩
      have hlen : st.length < 3 := by
        match st, h1, h2 with
        | [], _, _ => simp
        | [a], _, _ => simp
        | [a, b], _, _ => simp
        | [c, b, a], h1, _ => exact absurd rfl (h1 c b a)
        | c :: b :: a :: r :: rest, _, h2 => exact absurd rfl (h2 c b a r rest)
      have hc : rainflow2_while1_cond peaks (L : Int) s = false := by
        simp [rainflow2_while1_cond, hR.hj]; omega
      refine ⟨s, ?_, by simpa using hR⟩
      simp [whileLoop, hc]

/-- one pass of `for k in range(L)`: push `(peaks[k], k)`, then the while loop -/
theorem for2_1_sim (habs : ∀ a b : α, Ops.abs (a - b) = absd a b) (pts : List α) (k : Nat)
    (hk : k < pts.length) (fuel : Nat) (hf : pts.length ≤ fuel)
    (s : Rainflow2St α) (st : List (α × Nat)) (rows : List (Cyc α))
    (hR : Rel2 pts.length k s st rows) :
    ∃ s', rainflow2_for1_body fuel (Arr.ofList pts) (pts.length : Int) (k : Int) s = some s' ∧
      Rel2 pts.length (k + 1) s' (step (st, rows) (pts[k], k)).1 (step (st, rows) (pts[k], k)).2 := by
  obtain ⟨psize, csize, hj, hpts, hci, hn, hrf, hos, hfull, hbound, hm⟩ := hR
  have ej : s.j + 1 = ((st.length : Nat) : Int) := by omega
  have hs : st.length < s.pts.size := by omega
  have hcs : st.length < s.cycle_index.size := by omega
  unfold rainflow2_for1_body
  simp only [Arr.get_natCast, Arr.val_ofList, List.getElem?_eq_getElem hk, Option.bind_eq_bind,
    Option.bind_some, ej]
  rw [Arr.set_natCast _ _ _ hs]
  simp only [Option.bind_some]
  rw [Arr.set_natCast _ _ _ hcs]
  simp only [Option.bind_some]
  have hpp := hpts.push (by simpa using hs) pts[k]
  have hcp := hci.push (by simpa [offs] using hcs) (k : Int)
  simp only [List.length_map, offs] at hpp hcp
  have hR1 : Rel2 pts.length (k + 1)
      ({ s with k := (k : Int), j := (st.length : Int), pts := s.pts.upd st.length pts[k],
                cycle_index := s.cycle_index.upd st.length (k : Int) } : Rainflow2St α)
      ((pts[k], k) :: st) rows :=
    ⟨by simpa using psize, by simpa using csize, by simp, by simpa using hpp, by simpa [offs] using hcp,
      hn, hrf, hos, hfull, by simp; omega, by omega⟩
  obtain ⟨s', hw, hR'⟩ := while2_sim habs (Arr.ofList pts) pts.length (k + 1) ((pts[k], k) :: st) _ rows fuel hR1
    (by simp; omega) (by omega)
  refine ⟨s', ?_, by simpa [step] using hR'⟩
  simp [hw]

theorem index_getElem (pts : List α) (b k : Nat) (hk : k < pts.length) :
    (index pts b)[k]'(by simpa using hk) = (pts[k], b + k) := by
  induction pts generalizing b k with
  | nil => simp at hk
  | cons x xs ih =>
      cases k with
      | zero => simp [index]
      | succ k =>
          simp only [index, List.getElem_cons_succ]
          rw [ih (b + 1) k (by simpa using hk)]
          congr 1; omega

/-- the state after reading the first `k` points -/
def fold2 (pts : List α) (k : Nat) : List (α × Nat) × List (Cyc α) :=
  ((index pts 0).take k).foldl step ([], [])

theorem fold2_succ (pts : List α) (k : Nat) (hk : k < pts.length) :
    fold2 pts (k + 1) = step (fold2 pts k) (pts[k], k) := by
  unfold fold2
  rw [List.take_add_one, List.getElem?_eq_getElem (by simpa using hk), List.foldl_append,
    index_getElem pts 0 k hk, Nat.zero_add]
  rfl

theorem fold2_nonempty (pts : List α) (k : Nat) (hk : k < pts.length) : (fold2 pts (k + 1)).1 ≠ [] := by
  rw [fold2_succ pts k hk]; exact reduce_nonempty _ (by simp)

/-- step 6 of the generated `_rainflow2`: after `k` passes of `for k in range(j)` -/
structure Fin2 (L : Nat) (s0 : Rainflow2St α) (l : List (α × Nat)) (rows0 : List (Cyc α)) (k : Nat)
    (s : Rainflow2St α) : Prop where
  hp : s.pts = s0.pts
  hc : s.cycle_index = s0.cycle_index
  hf : s.fullcyclesp1 = s0.fullcyclesp1
  hA : s.A = (l[k]?).map Prod.fst
  hn : s.n = ((rows0.length + k : Nat) : Int) - 1
  hrows : ∃ rowsk : List (Cyc α), rowsk.length = rows0.length + k ∧
      rowsk ++ finish (l.drop k) = rows0 ++ finish l ∧ TabOK (L - 1) 3 s.rf (rowsk.map rfRowC) ∧
      TabOK (L - 1) 2 s.os (rowsk.map osRow)

theorem for2_2_sim (habs : ∀ a b : α, Ops.abs (a - b) = absd a b) (peaks : Arr α) (L fuel : Nat)
    (s0 : Rainflow2St α) (l : List (α × Nat)) (rows0 : List (Cyc α)) (k : Nat)
    (hk : k < l.length - 1) (hL : rows0.length + l.length ≤ L)
    (hl : ∀ i (h : i < l.length), s0.pts.val i = some l[i].1)
    (hlc : ∀ i (h : i < l.length), s0.cycle_index.val i = some (l[i].2 : Int))
    (s : Rainflow2St α) (hQ : Fin2 L s0 l rows0 k s) :
    ∃ s', rainflow2_for2_body fuel peaks (L : Int) (k : Int) s = some s' ∧ Fin2 L s0 l rows0 (k + 1) s' := by
  obtain ⟨hp, hc, hf, hA, hn, rowsk, hlen, happ, htab, htos⟩ := hQ
  have hk0 : k < l.length := by omega
  have hk1 : k + 1 < l.length := by omega
  have e1 : (k : Int) + 1 = ((k + 1 : Nat) : Int) := by omega
  have en : s.n + 1 = ((rowsk.length : Nat) : Int) := by omega
  have hrl : (rowsk.map rfRowC).length = rowsk.length := by simp
  have hol : (rowsk.map osRow).length = rowsk.length := by simp
  have hrow : rowsk.length < L - 1 := by omega
  rw [List.getElem?_eq_getElem hk0, Option.map_some] at hA
  unfold rainflow2_for2_body
  simp only [e1, Arr.get_natCast, hp, hc, hl (k + 1) hk1, hlc (k + 1) hk1, hlc k hk0, Option.bind_eq_bind,
    Option.bind_some, hA, en, habs]
  rw [Arr2.set_c0 _ _ _ (by rw [htab.hr]; exact hrow) (by rw [htab.hc]; omega)]
  simp only [Option.bind_some]
  rw [Arr2.set_c1 _ _ _ (by simp [htab.hr]; exact hrow) (by simp [htab.hc])]
  simp only [Option.bind_some]
  rw [Arr2.set_c2 _ _ _ (by simp [htab.hr]; exact hrow) (by simp [htab.hc])]
  simp only [Option.bind_some]
  rw [Arr2.set_c0 _ _ _ (by rw [htos.hr]; exact hrow) (by rw [htos.hc]; omega)]
  simp only [Option.bind_some]
  rw [Arr2.set_c1 _ _ _ (by simp [htos.hr]; exact hrow) (by simp [htos.hc])]
  simp only [Option.bind_some, Option.pure_def]
  refine ⟨_, rfl, ⟨rfl, rfl, hf, by simp [List.getElem?_eq_getElem hk1], ?_,
    rowsk ++ [mkCyc false l[k] l[k + 1]], by simp; omega, ?_, ?_, ?_⟩⟩
  · simp only []; omega
  · have hd : l.drop k = l[k] :: l[k + 1] :: l.drop (k + 2) := by
      rw [List.drop_eq_getElem_cons hk0, List.drop_eq_getElem_cons hk1]
    have hd1 : l.drop (k + 1) = l[k + 1] :: l.drop (k + 2) := List.drop_eq_getElem_cons hk1
    rw [← happ, hd, finish, ← hd1]
    simp
  · have := htab.push3 (by rw [hrl]; exact hrow) (Ops.half (absd l[k].1 l[k + 1].1))
      (Ops.half (l[k].1 + l[k + 1].1)) Ops.c05
    rw [hrl] at this
    simpa [rfRowC, mkCyc] using this
  · have := htos.push2 (by rw [hol]; exact hrow) (l[k].2 : Int) (l[k + 1].2 : Int)
    rw [hol] at this
    simpa [osRow, mkCyc] using this

theorem finish_not_full (l : List (α × Nat)) : (finish l).filter (·.full) = [] := by
  fun_induction finish l with
  | case1 a b rest ih => simp [ih, mkCyc]
  | case2 l h => simp

/-- what the caller sees of the pair `(rf, os)` -/
def tables (r : Arr2 α × Arr2 Int) : Option (List (List α) × List (List Int)) :=
  r.1.toRows.bind fun a => r.2.toRows.bind fun b => some (a, b)

/-- everything after the array allocations, from any state that represents "nothing read yet" -/
theorem tail2 (habs : ∀ a b : α, Ops.abs (a - b) = absd a b)
    (pts : List α) (h1 : 1 ≤ pts.length) (fuel : Nat) (hf : pts.length ≤ fuel)
    (s0 : Rainflow2St α) (hR0 : Rel2 pts.length 0 s0 [] []) :
    ((forRange (pts.length : Int) (rainflow2_for1_body fuel (Arr.ofList pts) (pts.length : Int)) s0).bind
      fun s => (s.pts.get 0).bind fun t46 =>
        (forRange s.j (rainflow2_for2_body fuel (Arr.ofList pts) (pts.length : Int))
          { s with A := some t46 }).bind
            fun s => (s.rf.take ((pts.length : Int) - s.fullcyclesp1)).bind fun t60 =>
              (s.os.take ((pts.length : Int) - s.fullcyclesp1)).bind fun t61 => some (t60, t61)).bind tables
      = some ((PyYetiVerif.Rainflow.rainflow pts).map rfRowC, (PyYetiVerif.Rainflow.rainflow pts).map osRow) := by
  -- loop 1
  obtain ⟨s1, hloop1, hR1, hne1⟩ := forRange_inv
    (fun k s => Rel2 pts.length k s (fold2 pts k).1 (fold2 pts k).2 ∧ (0 < k → (fold2 pts k).1 ≠ []))
    pts.length (rainflow2_for1_body fuel (Arr.ofList pts) (pts.length : Int)) s0
    ⟨by simpa [fold2] using hR0, by omega⟩
    (by
      intro k s hk ⟨hR, _⟩
      obtain ⟨s', hb, hR'⟩ := for2_1_sim habs pts k hk fuel hf s _ _ hR
      refine ⟨s', hb, ?_, fun _ => fold2_nonempty pts k hk⟩
      rw [fold2_succ pts k hk]; exact hR')
  have hne := hne1 (by omega)
  rw [hloop1]
  simp only [Option.bind_some]
  generalize hst : (fold2 pts pts.length).1 = st at hR1 hne
  generalize hrows : (fold2 pts pts.length).2 = rows at hR1
  have hmodel : PyYetiVerif.Rainflow.rainflow pts = rows ++ finish st.reverse := by
    have hti : (index pts 0).take pts.length = index pts 0 := by
      apply List.take_of_length_le; simp
    simp only [fold2, hti] at hst hrows
    show (run (index pts 0)).2 ++ finish (run (index pts 0)).1.reverse = _
    unfold run
    rw [hst, hrows]
  obtain ⟨psize, csize, hj, hpts, hci, hn, hrf, hos, hfull, hbound, hm⟩ := hR1
  have hlen : 0 < st.length := List.length_pos_iff.mpr hne
  have hb0 := hpts.bottom 0 (by simpa using hlen)
  simp only [Arr.get_zero, hb0, Option.bind_some]
  have ej : s1.j = ((st.reverse.length - 1 : Nat) : Int) := by simp; omega
  rw [ej]
  -- loop 2
  obtain ⟨s2, hloop2, hQ⟩ := forRange_inv (Fin2 pts.length s1 st.reverse rows)
    (st.reverse.length - 1) (rainflow2_for2_body fuel (Arr.ofList pts) (pts.length : Int))
    ({ s1 with A := some ((st.map Prod.fst).reverse[0]'(by simpa using hlen)),
               j := ((st.reverse.length - 1 : Nat) : Int) })
    ⟨rfl, rfl, rfl, by simp [List.getElem?_eq_getElem (show 0 < st.reverse.length by simpa using hlen)],
      by simpa using hn, rows, by simp, by simp, hrf, hos⟩
    (by
      intro k s hk hQ
      refine for2_2_sim habs _ _ fuel s1 st.reverse rows k hk (by simp; omega) ?_ ?_ s hQ
      · intro i hi
        have := hpts.bottom i (by simpa using hi)
        simpa using this
      · intro i hi
        have := hci.bottom i (by simpa [offs] using hi)
        simpa [offs] using this)
  rw [hloop2]
  simp only [Option.bind_some]
  obtain ⟨hp2, hc2, hf2, hA2, hn2, rowsk, hlenk, happ, htab, htos⟩ := hQ
  have hd : finish (st.reverse.drop (st.reverse.length - 1)) = [] := by
    have : (st.reverse.drop (st.reverse.length - 1)).length = 1 := by simp; omega
    match hx : st.reverse.drop (st.reverse.length - 1), this with
    | [x], _ => simp [finish]
  rw [hd, List.append_nil] at happ
  have hff : (rowsk.filter (·.full)).length = (rows.filter (·.full)).length := by
    rw [happ, List.filter_append, finish_not_full]; simp
  have hstop : (pts.length : Int) - s2.fullcyclesp1 = (((rowsk.map rfRowC).length : Nat) : Int) := by
    rw [hf2, hfull]; simp [hlenk]; omega
  have hstop2 : (pts.length : Int) - s2.fullcyclesp1 = (((rowsk.map osRow).length : Nat) : Int) := by
    rw [hstop]; simp
  have t1 := htab.take_toRows (by simp [hlenk]; omega)
    (by intro r hr; obtain ⟨x, _, rfl⟩ := List.mem_map.mp hr; simp [rfRowC])
  have t2 := htos.take_toRows (by simp [hlenk]; omega)
    (by intro r hr; obtain ⟨x, _, rfl⟩ := List.mem_map.mp hr; simp [osRow])
  rw [← hstop] at t1
  rw [← hstop2] at t2
  obtain ⟨a1, ha1, hb1⟩ := Option.bind_eq_some_iff.mp t1
  obtain ⟨a2, ha2, hb2⟩ := Option.bind_eq_some_iff.mp t2
  rw [ha1, Option.bind_some, ha2, Option.bind_some, Option.bind_some]
  simp only [tables, hb1, hb2, Option.bind_some]
  rw [happ, hmodel]

/-- **the generated `_rainflow2` computes the model's table and offsets** (and never fails: no
index out of range, no unwritten cell read or returned, fuel `L` suffices) -/
theorem generated_rainflow2_eq_model (habs : ∀ a b : α, Ops.abs (a - b) = absd a b)
    (pts : List α) (h1 : 1 ≤ pts.length) (fuel : Nat) (hf : pts.length ≤ fuel) :
    (PyYetiVerif.Generated.PyRain.rainflow2 fuel (Arr.ofList pts) (pts.length : Int)).bind tables
      = some ((PyYetiVerif.Rainflow.rainflow pts).map rfRowC, (PyYetiVerif.Rainflow.rainflow pts).map osRow) := by
  unfold PyYetiVerif.Generated.PyRain.rainflow2
  have e3 : ((pts.length : Nat) : Int) - 1 = ((pts.length - 1 : Nat) : Int) := by omega
  simp only [Option.bind_eq_bind, Arr.empty_natCast, Option.bind_some, e3, Option.pure_def,
    show (3 : Int) = ((3 : Nat) : Int) from rfl, show (2 : Int) = ((2 : Nat) : Int) from rfl,
    Arr2.empty_natCast]
  exact tail2 habs pts h1 fuel hf _
    ⟨by simp, by simp, by simp, by intro i hi; simp at hi, by intro i hi; simp [offs] at hi, by simp,
      ⟨Arr2.wf_replicate _ _, rfl, rfl, by intro i hi; simp at hi⟩,
      ⟨Arr2.wf_replicate _ _, rfl, rfl, by intro i hi; simp at hi⟩, by simp, by simp, by omega⟩

end PyYetiVerif.RainflowGen
