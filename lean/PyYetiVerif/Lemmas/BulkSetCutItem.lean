import PyYetiVerif.Lemmas.BulkSetCutVal
/-! The first `k` characters of an item token never read back as the item followed by the items after it
(C13; core Lean only). -/
namespace PyYetiVerif.Bulk

theorem rangeI_length_two (a b : Int) (h : a < b) : 2 ≤ (rangeI a b).length := by
  simp only [rangeI, List.length_map, List.length_range]; omega

theorem cut_one (a : Int) (ha : 0 ≤ a) (k : Nat) (hk1 : 1 ≤ k) (hk : k ≤ (dec a).length) (tail : List Int)
    (ht : k = (dec a).length → tail ≠ []) :
    ∀ v, rdSetLine (strip ((dec a).take k)) = some v → v ≠ a :: tail := by
  intro v hv
  have hD := (digs_dec ha).take k hk1
  rw [hD.strip, hD.rdSetLine] at hv
  injection hv with hv
  subst hv
  by_cases he : k = (dec a).length
  · intro e; injection e with _ e2; exact ht he e2.symm
  · have := digitsVal_take_lt a ha k hk1 (by omega)
    intro e; injection e with e1 _; omega

theorem cut_thru (a b : Int) (ha : 0 ≤ a) (hb : 0 ≤ b) (hab : a < b) (k : Nat) (hk1 : 1 ≤ k)
    (hk : k ≤ (dec a ++ txt " THRU " ++ dec b).length) (tail : List Int)
    (ht : k = (dec a ++ txt " THRU " ++ dec b).length → tail ≠ []) :
    ∀ v, rdSetLine (strip ((dec a ++ txt " THRU " ++ dec b).take k)) = some v → v ≠ rangeI a b ++ tail := by
  intro v hv
  have hA := digs_dec ha
  have hB := digs_dec hb
  have hlen2 := rangeI_length_two a b hab
  have hbmem : b ∈ rangeI a b ++ tail := List.mem_append_left _ ((mem_rangeI a b b).mpr ⟨by omega, by omega⟩)
  have hS : (txt " THRU ").length = 6 := rfl
  have hlen : (dec a ++ txt " THRU " ++ dec b).length = (dec a).length + 6 + (dec b).length := by
    simp only [List.length_append, hS]
  have one_ne : ∀ x : Int, [x] ≠ rangeI a b ++ tail := by
    intro x e
    have := congrArg List.length e
    simp only [List.length_cons, List.length_nil, List.length_append] at this
    omega
  by_cases h1 : k ≤ (dec a).length
  · -- inside `a`
    have e : (dec a ++ txt " THRU " ++ dec b).take k = (dec a).take k := by
      rw [List.take_append_of_le_length (by simp only [List.length_append]; omega),
        List.take_append_of_le_length h1]
    have hD := hA.take k hk1
    rw [e, hD.strip, hD.rdSetLine] at hv
    injection hv with hv
    subst hv
    exact one_ne _
  · by_cases h2 : k ≤ (dec a).length + 6
    · -- inside ` THRU `
      obtain ⟨j, rfl⟩ : ∃ j, k = (dec a).length + j := ⟨k - (dec a).length, by omega⟩
      have e : (dec a ++ txt " THRU " ++ dec b).take ((dec a).length + j) = dec a ++ (txt " THRU ").take j := by
        rw [List.take_append_of_le_length (by simp only [List.length_append, hS]; omega), List.take_append,
          List.take_of_length_le (by omega)]
        congr 2
        omega
      rw [e] at hv
      have hj : j = 1 ∨ j = 2 ∨ j = 3 ∨ j = 4 ∨ j = 5 ∨ j = 6 := by omega
      rcases hj with rfl | rfl | rfl | rfl | rfl | rfl
      · have e1 : dec a ++ (txt " THRU ").take 1 = blanks 0 ++ dec a ++ blanks 1 := by simp [blanks, txt]
        rw [e1, strip_pad 0 1 (edge_of_noSp fun c hc => isSp_of_isDigit (hA.2 c hc)), hA.rdSetLine] at hv
        injection hv with hv
        subst hv
        exact one_ne _
      · have e1 : dec a ++ (txt " THRU ").take 2 = dec a ++ txt " T" ++ blanks 0 := by simp [blanks, txt]
        rw [e1, strip_thru_word _ _ hA (by simp), rdSetLine_thru_word _ _ hA (by simp)] at hv
        exact absurd hv (by simp)
      · have e1 : dec a ++ (txt " THRU ").take 3 = dec a ++ txt " TH" ++ blanks 0 := by simp [blanks, txt]
        rw [e1, strip_thru_word _ _ hA (by simp), rdSetLine_thru_word _ _ hA (by simp)] at hv
        exact absurd hv (by simp)
      · have e1 : dec a ++ (txt " THRU ").take 4 = dec a ++ txt " THR" ++ blanks 0 := by simp [blanks, txt]
        rw [e1, strip_thru_word _ _ hA (by simp), rdSetLine_thru_word _ _ hA (by simp)] at hv
        exact absurd hv (by simp)
      · have e1 : dec a ++ (txt " THRU ").take 5 = dec a ++ txt " THRU" ++ blanks 0 := by simp [blanks, txt]
        rw [e1, strip_thru_word _ _ hA (by simp), rdSetLine_thru_word _ _ hA (by simp)] at hv
        exact absurd hv (by simp)
      · have e1 : dec a ++ (txt " THRU ").take 6 = dec a ++ txt " THRU" ++ blanks 1 := by simp [blanks, txt]
        rw [e1, strip_thru_word _ _ hA (by simp), rdSetLine_thru_word _ _ hA (by simp)] at hv
        exact absurd hv (by simp)
    · -- inside `b`
      obtain ⟨j, rfl⟩ : ∃ j, k = (dec a).length + 6 + j := ⟨k - (dec a).length - 6, by omega⟩
      have hj1 : 1 ≤ j := by omega
      have e : (dec a ++ txt " THRU " ++ dec b).take ((dec a).length + 6 + j) = dec a ++ txt " THRU " ++ (dec b).take j := by
        rw [List.take_append, List.take_of_length_le (by simp only [List.length_append, hS]; omega)]
        congr 2
        simp only [List.length_append, hS]
        omega
      have hD := hB.take j hj1
      rw [e, rdSetLine_thru_digs _ _ hA hD, digitsVal_dec ha] at hv
      injection hv with hv
      subst hv
      by_cases hjb : j < (dec b).length
      · have hlt := digitsVal_take_lt b hb j hj1 hjb
        intro e2
        rw [← e2] at hbmem
        have := (mem_rangeI _ _ _).mp hbmem
        omega
      · have hfull : (dec b).take j = dec b := List.take_of_length_le (by omega)
        have htl := ht (by rw [hlen]; omega)
        rw [hfull, digitsVal_dec hb]
        intro e2
        exact htl (List.self_eq_append_right.mp e2)

/-- **a cut item token**: the first `k ≥ 1` characters of `a` / `a THRU b` (all of them only when more items
follow) are never read as the ids of the item followed by `tail` -/
theorem cut_item (it : Item) (hn : it.NonNeg) (hp : it.Proper) (k : Nat) (hk1 : 1 ≤ k) (hk : k ≤ it.txt.length)
    (tail : List Int) (ht : k = it.txt.length → tail ≠ []) :
    ∀ v, rdSetLine (strip (it.txt.take k)) = some v → v ≠ it.expand ++ tail := by
  cases it with
  | one a => exact cut_one a hn k hk1 hk tail ht
  | thru a b => exact cut_thru a b hn.1 hn.2 hp k hk1 hk tail ht

end PyYetiVerif.Bulk
