import PyYetiVerif.Lemmas.NewmarkSeq
import Mathlib.Analysis.Real.Sqrt
import Mathlib.Algebra.BigOperators.Group.Finset.Basic
import Mathlib.Algebra.Order.BigOperators.Group.Finset
/-!
Discrete energy method for the scalar Newmark-beta (β = 1/3) recurrence

    A u₂ = g + A1 u₁ + A0 u₀ ,   A = m/h² + b/(2h) + k/3,  A1 = 2m/h² − k/3,  A0 = −m/h² + b/(2h) − k/3 .

`energy m k h x y = m ((x − y)/h)² + (k/3)(x² + x y + y²)` is the quadratic form the scheme conserves for
`b = 0`, `g = 0` and dissipates for `b > 0` (`energy_identity`).  From it: the explicit stability bound
`energy_step_le` / `energy_sum_le` (√E grows by at most `h |g| / √m` per step — no exponential factor, any
`h > 0`) and the displacement bound `disp_sum_le`.
-/
namespace PyYetiVerif.Newmark

/-- discrete energy of two consecutive displacements `x = u_{n+1}`, `y = u_n` -/
noncomputable def energy (m k h x y : ℝ) : ℝ := m * ((x - y) / h) ^ 2 + k / 3 * (x ^ 2 + x * y + y ^ 2)

theorem quadForm_nonneg (x y : ℝ) : 0 ≤ x ^ 2 + x * y + y ^ 2 := by
  nlinarith [sq_nonneg (x + y), sq_nonneg (x - y)]

theorem energy_nonneg {m k : ℝ} (h x y : ℝ) (hm : 0 ≤ m) (hk : 0 ≤ k) : 0 ≤ energy m k h x y := by
  unfold energy
  have := quadForm_nonneg x y
  positivity

/-- the kinetic part is below the energy -/
theorem kinetic_le_energy {m k : ℝ} (h x y : ℝ) (hk : 0 ≤ k) :
    m * ((x - y) / h) ^ 2 ≤ energy m k h x y := by
  unfold energy
  have := quadForm_nonneg x y
  have : 0 ≤ k / 3 * (x ^ 2 + x * y + y ^ 2) := by positivity
  linarith

/-- the newest displacement is controlled by the energy: `(k/4) x² ≤ E(x, y)` -/
theorem stiffness_le_energy {m k : ℝ} (h x y : ℝ) (hm : 0 ≤ m) (hk : 0 ≤ k) :
    k / 4 * x ^ 2 ≤ energy m k h x y := by
  unfold energy
  have h1 : 0 ≤ m * ((x - y) / h) ^ 2 := by positivity
  have h2 : 3 / 4 * x ^ 2 ≤ x ^ 2 + x * y + y ^ 2 := by nlinarith [sq_nonneg (x / 2 + y)]
  have h3 : k / 3 * (3 / 4 * x ^ 2) ≤ k / 3 * (x ^ 2 + x * y + y ^ 2) :=
    mul_le_mul_of_nonneg_left h2 (by positivity)
  linarith

/-- exact energy balance of one application of the recurrence -/
theorem energy_identity (m b k h g u2 u1 u0 : ℝ) (hh : h ≠ 0)
    (hrec : coefA m b k h * u2 = g + coefA1 m k h * u1 + coefA0 m b k h * u0) :
    energy m k h u2 u1 - energy m k h u1 u0 = -(b / (2 * h)) * (u2 - u0) ^ 2 + g * (u2 - u0) := by
  have hg : g = coefA m b k h * u2 - coefA1 m k h * u1 - coefA0 m b k h * u0 := by linarith
  rw [hg]
  simp only [energy, coefA, coefA1, coefA0]
  field_simp
  ring

/-- one step of the stability estimate, written without square roots: `m = μ²`, `E₀ ≤ R²` ⇒
`E₁ ≤ (R + h |g| / μ)²` -/
theorem energy_step_le (m b k h g u2 u1 u0 μ R : ℝ) (hμ : 0 < μ) (hmμ : m = μ ^ 2) (hb : 0 ≤ b)
    (hk : 0 ≤ k) (hh : 0 < h) (hR : 0 ≤ R)
    (hrec : coefA m b k h * u2 = g + coefA1 m k h * u1 + coefA0 m b k h * u0)
    (hE0 : energy m k h u1 u0 ≤ R ^ 2) :
    energy m k h u2 u1 ≤ (R + h * |g| / μ) ^ 2 := by
  have hm : 0 ≤ m := by rw [hmμ]; positivity
  have hE1 := energy_nonneg h u2 u1 hm hk
  set a := Real.sqrt (energy m k h u2 u1) with ha
  have ha0 : 0 ≤ a := Real.sqrt_nonneg _
  have ha2 : a ^ 2 = energy m k h u2 u1 := Real.sq_sqrt hE1
  set w1 := (u2 - u1) / h with hw1
  set w0 := (u1 - u0) / h with hw0
  have k1 : (μ * w1) ^ 2 ≤ a ^ 2 := by
    rw [ha2, mul_pow, ← hmμ]; exact kinetic_le_energy h u2 u1 hk
  have k0 : (μ * w0) ^ 2 ≤ R ^ 2 := by
    rw [mul_pow, ← hmμ]; exact le_trans (kinetic_le_energy h u1 u0 hk) hE0
  have b1 := abs_le_of_sq_le_sq k1 ha0
  have b0 := abs_le_of_sq_le_sq k0 hR
  rw [abs_mul, abs_of_pos hμ] at b1 b0
  have hid := energy_identity m b k h g u2 u1 u0 hh.ne' hrec
  have hd : u2 - u0 = h * (w1 + w0) := by rw [hw1, hw0]; field_simp; ring
  -- E₁ ≤ E₀ + |g| h (|w₁| + |w₀|)
  have hdiss : 0 ≤ b / (2 * h) * (u2 - u0) ^ 2 := by positivity
  have hgw : g * (u2 - u0) ≤ h * |g| * (|w1| + |w0|) := by
    rw [hd]
    have : g * (h * (w1 + w0)) ≤ |g * (h * (w1 + w0))| := le_abs_self _
    rw [abs_mul, abs_mul, abs_of_pos hh] at this
    have h2 : |w1 + w0| ≤ |w1| + |w0| := abs_add_le _ _
    have h3 : |g| * (h * |w1 + w0|) ≤ |g| * (h * (|w1| + |w0|)) :=
      mul_le_mul_of_nonneg_left (mul_le_mul_of_nonneg_left h2 hh.le) (abs_nonneg _)
    linarith
  set δ := h * |g| / μ with hδ
  have hδ0 : 0 ≤ δ := by rw [hδ]; positivity
  have hδμ : δ * μ = h * |g| := by rw [hδ]; field_simp
  -- a² ≤ R² + δ (a + R)
  have key : a ^ 2 ≤ R ^ 2 + δ * (a + R) := by
    have e1 : h * |g| * (|w1| + |w0|) = δ * (μ * |w1| + μ * |w0|) := by rw [← hδμ]; ring
    have e2 : δ * (μ * |w1| + μ * |w0|) ≤ δ * (a + R) :=
      mul_le_mul_of_nonneg_left (add_le_add b1 b0) hδ0
    rw [ha2]
    linarith
  have hle : a ≤ R + δ := by
    by_contra hcon
    push Not at hcon
    nlinarith
  rw [← ha2]
  exact pow_le_pow_left₀ ha0 hle 2

open Finset in
/-- summed stability estimate for a whole history: no exponential factor, any step size -/
theorem energy_sum_le (m b k h μ R : ℝ) (u g : ℕ → ℝ) (hμ : 0 < μ) (hmμ : m = μ ^ 2) (hb : 0 ≤ b)
    (hk : 0 ≤ k) (hh : 0 < h) (hR : 0 ≤ R)
    (hrec : ∀ n, coefA m b k h * u (n + 2) = g n + coefA1 m k h * u (n + 1) + coefA0 m b k h * u n)
    (hE0 : energy m k h (u 1) (u 0) ≤ R ^ 2) (n : ℕ) :
    energy m k h (u (n + 1)) (u n) ≤ (R + h / μ * ∑ j ∈ range n, |g j|) ^ 2 := by
  induction n with
  | zero => simpa using hE0
  | succ n ih =>
    have hs : 0 ≤ ∑ j ∈ range n, |g j| := sum_nonneg fun _ _ => abs_nonneg _
    have hR' : 0 ≤ R + h / μ * ∑ j ∈ range n, |g j| := by positivity
    have := energy_step_le m b k h (g n) (u (n + 2)) (u (n + 1)) (u n) μ _ hμ hmμ hb hk hh hR'
      (hrec n) ih
    rw [sum_range_succ]
    calc energy m k h (u (n + 1 + 1)) (u (n + 1))
        ≤ (R + h / μ * ∑ j ∈ range n, |g j| + h * |g n| / μ) ^ 2 := this
      _ = (R + h / μ * (∑ j ∈ range n, |g j| + |g n|)) ^ 2 := by ring

open Finset in
/-- displacement from the velocities: `|u_n − u_0| ≤ (h/μ) Σ_{j<n} R_j` whenever `E_j ≤ R_j²` -/
theorem disp_sum_le (m k h μ : ℝ) (u Rs : ℕ → ℝ) (hμ : 0 < μ) (hmμ : m = μ ^ 2) (hk : 0 ≤ k)
    (hh : 0 < h) (n : ℕ) (hRs : ∀ j < n, 0 ≤ Rs j ∧ energy m k h (u (j + 1)) (u j) ≤ Rs j ^ 2) :
    |u n - u 0| ≤ h / μ * ∑ j ∈ range n, Rs j := by
  induction n with
  | zero => simp
  | succ n ih =>
    have ih' := ih fun j hj => hRs j (Nat.lt_succ_of_lt hj)
    obtain ⟨hR0, hE⟩ := hRs n (Nat.lt_succ_self n)
    have k1 : (μ * ((u (n + 1) - u n) / h)) ^ 2 ≤ Rs n ^ 2 := by
      rw [mul_pow, ← hmμ]; exact le_trans (kinetic_le_energy h _ _ hk) hE
    have b1 := abs_le_of_sq_le_sq k1 hR0
    rw [abs_mul, abs_of_pos hμ, abs_div, abs_of_pos hh] at b1
    have b2 : |u (n + 1) - u n| ≤ h / μ * Rs n := by
      have : μ * (|u (n + 1) - u n| / h) = |u (n + 1) - u n| * (μ / h) := by ring
      rw [this] at b1
      have hpos : 0 < μ / h := by positivity
      calc |u (n + 1) - u n| = |u (n + 1) - u n| * (μ / h) / (μ / h) := by field_simp
        _ ≤ Rs n / (μ / h) := div_le_div_of_nonneg_right b1 hpos.le
        _ = h / μ * Rs n := by field_simp
    have tri : |u (n + 1) - u 0| ≤ |u (n + 1) - u n| + |u n - u 0| := by
      have : u (n + 1) - u 0 = (u (n + 1) - u n) + (u n - u 0) := by ring
      rw [this]; exact abs_add_le _ _
    rw [sum_range_succ, mul_add]
    linarith

end PyYetiVerif.Newmark
