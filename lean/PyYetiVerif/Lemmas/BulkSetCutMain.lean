import PyYetiVerif.Lemmas.BulkSetCutItem
/-! `rdsets (wtset …)` when the head token fits `max_length` and an item token does not (C13; core Lean only): what
is read back, and that it is never `{setid: ids}`. -/
namespace PyYetiVerif.Bulk

/-- token written for `it` when the items `J2` follow -/
def tokOf (it : Item) (J2 : List Item) : Txt := if J2 = [] then it.txt else ctok it

theorem setBody_append_cons (J1 : List Item) (it : Item) (J2 : List Item) :
    setBody (J1 ++ it :: J2) = J1.map ctok ++ tokOf it J2 :: setBody J2 := by
  induction J1 with
  | nil =>
      cases J2 with
      | nil => simp [setBody, tokOf]
      | cons y ys => simp [setBody_cons2, tokOf]
  | cons x J1' ih =>
      cases hq : J1' ++ it :: J2 with
      | nil => simp at hq
      | cons y ys =>
          rw [List.cons_append, hq, setBody_cons2, ← hq, ih]
          simp

/-- the first token that does not fit -/
theorem first_long (m : Nat) : ∀ J : List Item, (∃ t ∈ setBody J, m < t.length) →
    ∃ J1 it J2, J = J1 ++ it :: J2 ∧ (∀ x ∈ J1, (ctok x).length ≤ m) ∧ m < (tokOf it J2).length := by
  intro J
  induction J with
  | nil => rintro ⟨t, ht, _⟩; simp [setBody] at ht
  | cons it r ih =>
      rintro ⟨t, ht, hl⟩
      cases r with
      | nil =>
          simp only [setBody, List.mem_singleton] at ht
          subst ht
          exact ⟨[], it, [], rfl, by simp, by simpa [tokOf] using hl⟩
      | cons it' r' =>
          by_cases hc : m < (ctok it).length
          · exact ⟨[], it, it' :: r', rfl, by simp, by simpa [tokOf] using hc⟩
          · rw [setBody_cons2] at ht
            rcases List.mem_cons.mp ht with rfl | ht
            · exact absurd hl hc
            · obtain ⟨J1, x, J2, e, h1, h2⟩ := ih ⟨t, ht, hl⟩
              refine ⟨it :: J1, x, J2, by rw [e]; rfl, ?_, h2⟩
              intro y hy
              rcases List.mem_cons.mp hy with rfl | hy
              · omega
              · exact h1 y hy

theorem dropWhile_append_last {α : Type} (p : α → Bool) (c : α) (hc : p c = false) (x : List α) :
    (x ++ [c]).dropWhile p = x.dropWhile p ++ [c] := by
  induction x with
  | nil => simp [hc]
  | cons y r ih =>
      simp only [List.cons_append, List.dropWhile_cons]
      split
      · exact ih
      · rfl

theorem strip_cons_of_not_sp (c : Char) (r : Txt) (hc : isSp c = false) : ∃ r', strip (c :: r) = c :: r' := by
  refine ⟨(r.reverse.dropWhile isSp).reverse, ?_⟩
  unfold strip rstrip
  rw [List.reverse_cons, dropWhile_append_last isSp c hc]
  simp [lstrip, hc]

theorem mem_of_mem_strip {x : Char} {s : Txt} (h : x ∈ strip s) : x ∈ s := by
  unfold strip lstrip rstrip at h
  have h1 := (List.dropWhile_suffix isSp).subset h
  rw [List.mem_reverse] at h1
  have h2 := (List.dropWhile_suffix isSp).subset h1
  simpa using h2

theorem compress_proper (ids : List Int) : ∀ it ∈ compress ids, it.Proper := by
  intro it hit
  cases ids with
  | nil => simp [compress] at hit
  | cons x xs => exact compressAux_proper xs x x it hit

theorem expand_ne_nil (J : List Item) (hJ : J ≠ []) (hp : ∀ x ∈ J, x.Proper) : expand J ≠ [] := by
  cases J with
  | nil => exact absurd rfl hJ
  | cons it r =>
      have : it.expand ≠ [] := by
        cases it with
        | one x => simp [Item.expand]
        | thru a b =>
            have hab : a < b := hp (.thru a b) (by simp)
            have := rangeI_length_two a b hab
            intro e
            simp only [Item.expand] at e
            rw [e] at this
            simp at this
      intro e
      simp only [expand, List.flatMap_cons, List.append_eq_nil_iff] at e
      exact this e.1

/-- **the head token fits, the item token of `it` is the first that does not**: the lines up to the first piece of
the cut token are read, that piece (`max_length − 1` characters of the item text, alone on its line, no comma at the
end) closes the set; nothing after it is a SET header.  `none` = the `ValueError` of `int()` -/
theorem rdSets_setLines_cut (setid : Int) (ids : List Int) (m : Nat) (hs : 0 ≤ setid) (hn : ∀ x ∈ ids, 0 ≤ x)
    (hH : (txt "SET " ++ dec setid ++ txt " = ").length ≤ m)
    (J1 : List Item) (it : Item) (J2 : List Item) (hJ : compress ids = J1 ++ it :: J2)
    (h1 : ∀ x ∈ J1, (ctok x).length ≤ m) (h2 : m < (tokOf it J2).length) :
    rdSets (setLines setid ids m) =
      (rdSetLine (strip (it.txt.take (m - 1)))).map fun v => [(Val.int setid, expand J1 ++ v)] := by
  have hnJ := compress_nonneg ids hn
  have hHlen : (txt "SET " ++ dec setid ++ txt " = ").length = 4 + (dec setid).length + 3 := by simp [txt]; omega
  have hm : 3 ≤ m := by omega
  have hnit : it.NonNeg := hnJ it (by rw [hJ]; simp)
  have hX : ∀ x ∈ J1.map ctok, 2 ≤ x.length ∧ x.length ≤ m := by
    intro x hx
    obtain ⟨y, hy, rfl⟩ := List.mem_map.mp hx
    refine ⟨?_, h1 y hy⟩
    simp [ctok, txt]
  obtain ⟨T1, Gs, rest, hl, hfl, hGs, hrest⟩ :=
    wrapLines_cut m (txt "SET " ++ dec setid ++ txt " = ") (J1.map ctok) (tokOf it J2) (setBody J2) hm
      ⟨by omega, hH⟩ hX h2
  have htake : (tokOf it J2).take (m - 1) = it.txt.take (m - 1) := by
    unfold tokOf at h2 ⊢
    split
    · rfl
    · rename_i hne
      rw [if_neg hne] at h2
      have : (ctok it).length = it.txt.length + 2 := by simp [ctok, txt]
      unfold ctok
      rw [List.take_append_of_le_length (by omega)]
  -- the lines after the cut piece hold no `S`
  have hchars : ∀ c ∈ (setBody (compress ids)).flatten, NotS c := by
    intro c hc
    rcases setBody_chars _ hnJ c hc with h | h
    · exact notS_digit h
    · exact notS_of_mem c h
  have hbody : setBody (compress ids) = J1.map ctok ++ tokOf it J2 :: setBody J2 := by
    rw [hJ, setBody_append_cons]
  have hrest' : ∀ l ∈ rest, setHead l = none := by
    intro l hlm
    apply setHead_none_of_notS
    intro c hc
    apply hchars
    rw [hbody]
    simp only [List.flatten_append, List.flatten_cons, List.mem_append]
    rcases hrest l hlm c hc with h | h
    · exact Or.inr (Or.inl h)
    · exact Or.inr (Or.inr h)
  -- the cut piece begins with a digit and holds no comma
  have hk1 : 1 ≤ m - 1 := by omega
  obtain ⟨⟨c0, r0, e0, hc0⟩, _⟩ := item_ends it hnit
  have hL : it.txt.take (m - 1) = c0 :: r0.take (m - 2) := by
    rw [e0]
    obtain ⟨q, hq⟩ : ∃ q, m - 1 = q + 1 := ⟨m - 2, by omega⟩
    rw [hq, List.take_succ_cons]
    congr 2
    omega
  obtain ⟨r', hr'⟩ := strip_cons_of_not_sp c0 (r0.take (m - 2)) (isSp_of_isDigit hc0)
  have hs1 : (strip (it.txt.take (m - 1))).isEmpty = false := by rw [hL, hr']; rfl
  have hs2 : (strip (it.txt.take (m - 1))).getLast? ≠ some ',' := by
    intro e
    have hmem := mem_of_mem_strip (List.mem_of_getLast? e)
    exact item_nocomma it hnit (List.take_subset _ _ hmem)
  have := rdSets_cut setid hs J1 (fun x hx => hnJ x (by rw [hJ]; simp [hx])) T1 Gs hGs hfl
    (it.txt.take (m - 1)) rest hs1 hs2 hrest'
  have hl' : wrapLines m ((txt "SET " ++ dec setid ++ txt " = ") :: (J1.map ctok ++ tokOf it J2 :: setBody J2)) =
      ((txt "SET " ++ dec setid ++ txt " = ") :: T1).flatten ::
        (Gs.map List.flatten ++ (tokOf it J2).take (m - 1) :: rest) := hl
  unfold setLines setTokens
  rw [hbody, hl', htake]
  exact this

/-- **`⟹` for a cut item token**: the head token fits and some item token does not — `rdsets` never returns
`{setid: ids}` -/
theorem rdSets_setLines_cut_ne (setid : Int) (ids : List Int) (m : Nat) (hs : 0 ≤ setid) (hn : ∀ x ∈ ids, 0 ≤ x)
    (hH : (txt "SET " ++ dec setid ++ txt " = ").length ≤ m)
    (hcut : ∃ t ∈ setBody (compress ids), m < t.length) :
    rdSets (setLines setid ids m) ≠ some [(Val.int setid, ids)] := by
  obtain ⟨J1, it, J2, hJ, h1, h2⟩ := first_long m (compress ids) hcut
  have hnJ := compress_nonneg ids hn
  have hpJ := compress_proper ids
  have hHlen : (txt "SET " ++ dec setid ++ txt " = ").length = 4 + (dec setid).length + 3 := by simp [txt]; omega
  rw [rdSets_setLines_cut setid ids m hs hn hH J1 it J2 hJ h1 h2]
  cases hv : rdSetLine (strip (it.txt.take (m - 1))) with
  | none => simp
  | some v =>
      simp only [Option.map_some]
      intro e
      have e1 : expand J1 ++ v = ids := by
        injection e with e; injection e with e _; injection e with _ e
      have e2 : ids = expand J1 ++ (it.expand ++ expand J2) := by
        conv => lhs; rw [← compress_expand ids, hJ]
        simp [expand]
      rw [e2] at e1
      have e3 := List.append_cancel_left e1
      have hlen : m - 1 ≤ it.txt.length := by
        unfold tokOf at h2
        split at h2
        · omega
        · have : (ctok it).length = it.txt.length + 2 := by simp [ctok, txt]
          omega
      refine cut_item it (hnJ it (by rw [hJ]; simp)) (hpJ it (by rw [hJ]; simp)) (m - 1) (by omega) hlen (expand J2) ?_ v hv e3
      intro hk
      have hJ2 : J2 ≠ [] := by
        intro e
        unfold tokOf at h2
        rw [if_pos e] at h2
        omega
      exact expand_ne_nil J2 hJ2 (fun x hx => hpJ x (by rw [hJ]; simp [hx]))

end PyYetiVerif.Bulk
