import PyYetiVerif.Props.C01
import PyYetiVerif.Model.SuCoefCoupled
import PyYetiVerif.Lemmas.SuCoefUnique
import Mathlib.Data.Matrix.Mul
import Mathlib.Data.Matrix.Diagonal
import Mathlib.LinearAlgebra.Matrix.ToLin
import Mathlib.Topology.Algebra.Module.FiniteDimension
import Mathlib.Analysis.Calculus.Deriv.Pi
import Mathlib.Analysis.Calculus.Deriv.Add
/-!
Helper lemmas for the coupled path of C01: the first-order state equation `z' = A z + g₀ + t s`
over `ℂ`, its uniqueness, the modal closed forms, and the decoupling argument
(`A U = U Λ`, `U V = 1`).
-/
namespace PyYetiVerif.SuCoef
open Matrix PyYetiVerif.C01

set_option linter.unusedSectionVars false

variable {ι κ : Type*} [Fintype ι] [Fintype κ] [DecidableEq ι] [DecidableEq κ]

/-- `z` solves `z' = A z + g₀ + t s`, `z 0 = z₀` -/
structure IsStateSol (A : Matrix ι ι ℂ) (g0 s z0 : ι → ℂ) (z : ℝ → ι → ℂ) : Prop where
  deriv : ∀ t : ℝ, HasDerivAt z (A *ᵥ z t + g0 + (t : ℂ) • s) t
  init : z 0 = z0

/-- `x ↦ A x` as a continuous real-linear map -/
noncomputable def mulVecCLM (A : Matrix ι ι ℂ) : (ι → ℂ) →L[ℝ] (ι → ℂ) :=
  LinearMap.toContinuousLinearMap ((Matrix.mulVecLin A).restrictScalars ℝ)

theorem mulVecCLM_apply (A : Matrix ι ι ℂ) (x : ι → ℂ) : mulVecCLM A x = A *ᵥ x := rfl

/-- the state equation has at most one solution -/
theorem IsStateSol.unique {A : Matrix ι ι ℂ} {g0 s z0 : ι → ℂ} {z z' : ℝ → ι → ℂ}
    (h : IsStateSol A g0 s z0 z) (h' : IsStateSol A g0 s z0 z') : z = z' := by
  refine linear_ode_unique (mulVecCLM A) (fun t => g0 + (t : ℂ) • s) z z' 0 (fun t => ?_) (fun t => ?_)
    (h.init.trans h'.init.symm)
  · have := h.deriv t
    rwa [add_assoc] at this
  · have := h'.deriv t
    rwa [add_assoc] at this

/-- differentiating `U y(t)` componentwise -/
theorem hasDerivAt_mulVec (U : Matrix ι κ ℂ) (Y : ℝ → κ → ℂ) (Y' : κ → ℂ) (t : ℝ)
    (hY : ∀ k, HasDerivAt (fun t => Y t k) (Y' k) t) :
    HasDerivAt (fun t => U *ᵥ Y t) (U *ᵥ Y') t := by
  rw [hasDerivAt_pi]
  intro i
  simp only [Matrix.mulVec, dotProduct]
  exact HasDerivAt.fun_sum fun k _ => (hY k).const_mul (U i k)

/-! ### modal closed forms -/

/-- closed form of `y' = lam y + w0 + s t`, `y 0 = y0`; `sm` selects the `lam = 0` formula -/
noncomputable def yMode (sm : Bool) (lam w0 s y0 : ℂ) (t : ℂ) : ℂ :=
  if sm then y0 + w0 * t + s * t ^ 2 / 2 else yCplx lam w0 s y0 t

theorem yMode_hasDerivAt (sm : Bool) (lam w0 s y0 : ℂ) (h1 : sm = true → lam = 0)
    (h2 : sm = false → lam ≠ 0) (t : ℝ) :
    HasDerivAt (fun t : ℝ => yMode sm lam w0 s y0 t) (lam * yMode sm lam w0 s y0 t + w0 + s * t) t := by
  cases sm with
  | false =>
    simp only [yMode, Bool.false_eq_true, if_false]
    exact (cplx_solves_ode lam w0 s y0 (h2 rfl)).2.1 t
  | true =>
    simp only [yMode, if_true]
    rw [h1 rfl]
    have hc : ∀ t : ℂ, HasDerivAt (fun t : ℂ => y0 + w0 * t + s * t ^ 2 / 2) (w0 + s * t) t := by
      intro t
      have h := (((hasDerivAt_id' t).const_mul w0).const_add y0).fun_add
        ((((hasDerivAt_id' t).fun_pow 2).const_mul s).div_const 2)
      refine h.congr_deriv ?_
      simp
      ring
    have := (hc t).comp_ofReal
    refine this.congr_deriv ?_
    ring

theorem yMode_zero (sm : Bool) (lam w0 s y0 : ℂ) (h2 : sm = false → lam ≠ 0) :
    yMode sm lam w0 s y0 0 = y0 := by
  cases sm with
  | false =>
    simp only [yMode, Bool.false_eq_true, if_false]
    exact (cplx_solves_ode lam w0 s y0 (h2 rfl)).2.2
  | true => simp [yMode]

/-- order 1: one step with the selected coefficients is the closed form at `t = h` -/
theorem yMode_step (sm : Bool) (lam h y0 w0 w1 : ℂ) (h2 : sm = false → lam ≠ 0) (hh : h ≠ 0) :
    stepCplx true (if sm then cplxSmall h else cplxCoef lam h) y0 w0 w1
      = yMode sm lam w0 ((w1 - w0) / h) y0 h := by
  cases sm with
  | false =>
    simp only [yMode, Bool.false_eq_true, if_false]
    exact cplx_coef_eq lam h y0 w0 w1 (h2 rfl) hh
  | true =>
    simp only [yMode, if_true, stepCplx, cplxSmall]
    field_simp
    ring

/-- order 0 (`Ae + Be` applied to the left sample): the closed form with a held force -/
theorem yMode_step0 (sm : Bool) (lam h y0 w0 w1 : ℂ) (h2 : sm = false → lam ≠ 0) (hh : h ≠ 0) :
    stepCplx false (if sm then cplxSmall h else cplxCoef lam h) y0 w0 w1
      = yMode sm lam w0 0 y0 h := by
  have e : stepCplx false (if sm then cplxSmall h else cplxCoef lam h) y0 w0 w1
      = stepCplx true (if sm then cplxSmall h else cplxCoef lam h) y0 w0 w0 := by
    simp only [stepCplx, Bool.false_eq_true, if_false, if_true]
    ring
  rw [e, yMode_step sm lam h y0 w0 w0 h2 hh]
  simp

/-! ### decoupling -/

/-- the modal closed forms mapped back through `U` -/
noncomputable def zModal (U : Matrix ι κ ℂ) (V : Matrix κ ι ℂ) (lam : κ → ℂ) (sm : κ → Bool)
    (g0 s z0 : ι → ℂ) (t : ℝ) : ι → ℂ :=
  U *ᵥ fun k => yMode (sm k) (lam k) ((V *ᵥ g0) k) ((V *ᵥ s) k) ((V *ᵥ z0) k) t

/-- if `A U = U Λ` and `U V = 1`, the modal solutions mapped back through `U` solve the state
equation -/
theorem zModal_isStateSol (A : Matrix ι ι ℂ) (U : Matrix ι κ ℂ) (V : Matrix κ ι ℂ) (lam : κ → ℂ)
    (sm : κ → Bool) (hUV : U * V = 1) (hAU : A * U = U * diagonal lam)
    (hsm : ∀ k, (sm k = true → lam k = 0) ∧ (sm k = false → lam k ≠ 0)) (g0 s z0 : ι → ℂ) :
    IsStateSol A g0 s z0 (zModal U V lam sm g0 s z0) := by
  refine ⟨fun t => ?_, ?_⟩
  · have hd := hasDerivAt_mulVec U
      (fun (t : ℝ) k => yMode (sm k) (lam k) ((V *ᵥ g0) k) ((V *ᵥ s) k) ((V *ᵥ z0) k) t)
      (fun k => lam k * yMode (sm k) (lam k) ((V *ᵥ g0) k) ((V *ᵥ s) k) ((V *ᵥ z0) k) t
        + (V *ᵥ g0) k + (V *ᵥ s) k * t) t
      (fun k => yMode_hasDerivAt (sm k) (lam k) _ _ _ (hsm k).1 (hsm k).2 t)
    refine hd.congr_deriv ?_
    have key : ∀ Y : κ → ℂ, U *ᵥ (fun k => lam k * Y k + (V *ᵥ g0) k + (V *ᵥ s) k * t)
        = A *ᵥ (U *ᵥ Y) + g0 + (t : ℂ) • s := by
      intro Y
      have e : (fun k => lam k * Y k + (V *ᵥ g0) k + (V *ᵥ s) k * t)
          = diagonal lam *ᵥ Y + V *ᵥ g0 + (t : ℂ) • (V *ᵥ s) := by
        funext k
        simp only [Pi.add_apply, Pi.smul_apply, smul_eq_mul, Matrix.mulVec_diagonal]
        ring
      rw [e, Matrix.mulVec_add, Matrix.mulVec_add, Matrix.mulVec_smul, Matrix.mulVec_mulVec,
        Matrix.mulVec_mulVec, Matrix.mulVec_mulVec, Matrix.mulVec_mulVec, hUV, Matrix.one_mulVec,
        Matrix.one_mulVec, hAU]
    exact key _
  · simp only [zModal]
    have : (fun k => yMode (sm k) (lam k) ((V *ᵥ g0) k) ((V *ᵥ s) k) ((V *ᵥ z0) k) ((0 : ℝ) : ℂ))
        = V *ᵥ z0 := by
      funext k
      simpa using yMode_zero (sm k) (lam k) _ _ _ (hsm k).2
    rw [this, Matrix.mulVec_mulVec, hUV, Matrix.one_mulVec]

/-! ### the model's sums are Mathlib's -/

@[simp] theorem Memo.get_ofFn {α : Type} {n : ℕ} (f : Fin n → α) : (Memo.ofFn f).get = f := by
  funext i
  simp [Memo.get, Memo.ofFn]

/-- the loops materialise their state; mathematically they are the plain recurrences -/
theorem runModal_cons_cons {C : Type} [Add C] [Mul C] {N : ℕ} (order1 : Bool) (c : Fin N → C × C × C)
    (y w0 w1 : Fin N → C) (ws : List (Fin N → C)) :
    runModal order1 c y (w0 :: w1 :: ws) = y :: runModal order1 c (stepModal order1 c y w0 w1) (w1 :: ws) := by
  rw [runModal]
  simp only [Memo.get_ofFn]

theorem runExp_cons_cons {α : Type} [Add α] [Mul α] [Zero α] {n : ℕ} (order1 : Bool) (c : ExpCoef α n)
    (dv : (Fin n → α) × (Fin n → α)) (f0 f1 : Fin n → α) (fs : List (Fin n → α)) :
    runExp order1 c dv (f0 :: f1 :: fs) = dv :: runExp order1 c (expStep order1 c dv f0 f1) (f1 :: fs) := by
  rw [runExp]
  simp only [Memo.get_ofFn]

theorem dotFin_eq {n : ℕ} (a x : Fin n → ℂ) : dotFin a x = ∑ k, a k * x k := by
  simp [dotFin, List.sum_ofFn]

theorem matVec_eq {m n : ℕ} (M : Fin m → Fin n → ℂ) (x : Fin n → ℂ) :
    matVec M x = Matrix.of M *ᵥ x := by
  funext j
  simp [matVec, dotFin_eq, Matrix.mulVec, dotProduct]

theorem dotFin_eq_real {n : ℕ} (a x : Fin n → ℝ) : dotFin a x = ∑ k, a k * x k := by
  simp [dotFin, List.sum_ofFn]

end PyYetiVerif.SuCoef
