import PyYetiVerif.Model.SuPartition
/-!
Helper lemmas for the partition bookkeeping of C01 (membership level, core Lean only).
-/
namespace PyYetiVerif.SuPartition

theorem mem_insertSorted {a g : Nat} {l : List Nat} : g ∈ insertSorted a l ↔ g = a ∨ g ∈ l := by
  induction l with
  | nil => simp [insertSorted]
  | cons b r ih =>
    unfold insertSorted
    split
    · simp
    · simp only [List.mem_cons, ih]
      constructor
      · rintro (h | h | h)
        · exact Or.inr (Or.inl h)
        · exact Or.inl h
        · exact Or.inr (Or.inr h)
      · rintro (h | h | h)
        · exact Or.inr (Or.inl h)
        · exact Or.inl h
        · exact Or.inr (Or.inr h)

theorem mem_sortNat {g : Nat} {l : List Nat} : g ∈ sortNat l ↔ g ∈ l := by
  induction l with
  | nil => simp [sortNat]
  | cons a r ih =>
    show g ∈ insertSorted a (sortNat r) ↔ _
    rw [mem_insertSorted, ih, List.mem_cons]

theorem insertSorted_pairwise {a : Nat} {l : List Nat} (h : l.Pairwise (· ≤ ·)) :
    (insertSorted a l).Pairwise (· ≤ ·) := by
  induction l with
  | nil => simp [insertSorted]
  | cons b r ih =>
    unfold insertSorted
    split
    · rename_i hab
      refine List.Pairwise.cons ?_ h
      intro x hx
      rcases List.mem_cons.1 hx with rfl | hx
      · exact hab
      · exact Nat.le_trans hab (List.rel_of_pairwise_cons h hx)
    · rename_i hab
      refine List.Pairwise.cons ?_ (ih h.of_cons)
      intro x hx
      rcases mem_insertSorted.1 hx with rfl | hx
      · omega
      · exact List.rel_of_pairwise_cons h hx

/-- `np.sort` returns an ascending list -/
theorem sortNat_pairwise (l : List Nat) : (sortNat l).Pairwise (· ≤ ·) := by
  induction l with
  | nil => simp [sortNat]
  | cons a r ih => exact insertSorted_pairwise ih

theorem mem_nonrf {n g : Nat} {rf : List Nat} : g ∈ nonrf n rf ↔ g < n ∧ g ∉ rf := by
  simp [nonrf]

theorem mem_relWhere {nr : List Nat} {p : Nat → Bool} {i : Nat} :
    i ∈ relWhere nr p ↔ ∃ g, nr[i]? = some g ∧ p g = true := by
  simp only [relWhere, List.mem_filterMap]
  constructor
  · rintro ⟨⟨g, j⟩, hm, hp⟩
    have := List.mem_zipIdx_iff_getElem?.1 hm
    by_cases h : p g = true
    · simp only [h, if_true, Option.some.injEq] at hp
      subst hp
      exact ⟨g, this, h⟩
    · simp [h] at hp
  · rintro ⟨g, hg, hp⟩
    exact ⟨(g, i), List.mem_zipIdx_iff_getElem?.2 hg, by simp [hp]⟩

theorem mem_take {x pv : List Nat} {g : Nat} : g ∈ take x pv ↔ ∃ i ∈ pv, x[i]? = some g := by
  simp [take, List.mem_filterMap]

/-- the positions selected by `relWhere` name exactly the members that satisfy the predicate -/
theorem mem_take_relWhere {nr : List Nat} {p : Nat → Bool} {g : Nat} :
    g ∈ take nr (relWhere nr p) ↔ g ∈ nr ∧ p g = true := by
  rw [mem_take]
  constructor
  · rintro ⟨i, hi, hg⟩
    obtain ⟨g', hg', hp⟩ := mem_relWhere.1 hi
    rw [hg] at hg'
    cases hg'
    exact ⟨List.mem_of_getElem? hg, hp⟩
  · rintro ⟨hm, hp⟩
    obtain ⟨i, hi⟩ := List.getElem?_of_mem hm
    exact ⟨i, mem_relWhere.2 ⟨g, hi, hp⟩, hi⟩

/-- the complementary positions name exactly the members that do not satisfy it -/
theorem mem_take_compl {nr : List Nat} {p : Nat → Bool} {g : Nat} :
    g ∈ take nr ((List.range nr.length).filter fun i => !(relWhere nr p).contains i) ↔
      g ∈ nr ∧ p g = false := by
  rw [mem_take]
  constructor
  · rintro ⟨i, hi, hg⟩
    refine ⟨List.mem_of_getElem? hg, ?_⟩
    simp only [List.mem_filter, List.mem_range, Bool.not_eq_eq_eq_not, Bool.not_true,
      List.contains_eq_mem, decide_eq_false_iff_not] at hi
    cases hpg : p g with
    | false => rfl
    | true => exact absurd (mem_relWhere.2 ⟨g, hg, hpg⟩) hi.2
  · rintro ⟨hm, hp⟩
    obtain ⟨i, hi⟩ := List.getElem?_of_mem hm
    refine ⟨i, ?_, hi⟩
    simp only [List.mem_filter, List.mem_range, Bool.not_eq_eq_eq_not, Bool.not_true,
      List.contains_eq_mem, decide_eq_false_iff_not]
    refine ⟨(List.getElem?_eq_some_iff.1 hi).1, fun hc => ?_⟩
    obtain ⟨g', hg', hp'⟩ := mem_relWhere.1 hc
    rw [hi] at hg'
    cases hg'
    rw [hp] at hp'
    cases hp'

theorem take_zipIdx_filterMap (p : Nat → Bool) (l pre : List Nat) :
    take (pre ++ l) ((l.zipIdx pre.length).filterMap fun (g, i) => if p g then some i else none)
      = l.filter p := by
  induction l generalizing pre with
  | nil => simp [take]
  | cons g l ih =>
    have h := ih (pre ++ [g])
    simp only [List.append_assoc, List.singleton_append, List.length_append, List.length_cons,
      List.length_nil, Nat.zero_add] at h
    rw [List.zipIdx_cons, List.filterMap_cons, List.filter_cons]
    by_cases hp : p g = true
    · simp only [hp, if_true]
      unfold take at h ⊢
      rw [List.filterMap_cons]
      have : (pre ++ g :: l)[pre.length]? = some g := by simp
      rw [this, h]
    · simp only [hp]
      exact h

theorem take_relWhere_eq_filter (nr : List Nat) (p : Nat → Bool) :
    take nr (relWhere nr p) = nr.filter p := by
  have := take_zipIdx_filterMap p nr []
  simpa [relWhere] using this

theorem insertSorted_perm (a : Nat) (l : List Nat) : (insertSorted a l).Perm (a :: l) := by
  induction l with
  | nil => simp [insertSorted]
  | cons b r ih =>
    unfold insertSorted
    split
    · exact List.Perm.refl _
    · exact (List.Perm.cons b ih).trans (List.Perm.swap a b r)

theorem sortNat_perm (l : List Nat) : (sortNat l).Perm l := by
  induction l with
  | nil => exact List.Perm.refl _
  | cons a r ih => exact (insertSorted_perm a (sortNat r)).trans (List.Perm.cons a ih)

end PyYetiVerif.SuPartition
