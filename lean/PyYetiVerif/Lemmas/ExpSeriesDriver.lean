import Mathlib.Algebra.Order.Field.Rat
import Mathlib.Algebra.Order.Ring.Rat
import Mathlib.Tactic.Linarith
import Mathlib.Tactic.Positivity
import Mathlib.RingTheory.PowerSeries.Exp
import Mathlib.Tactic.LinearCombination
import PyYetiVerif.Model.ExpSeriesDriver
import PyYetiVerif.Lemmas.ExpSeries
/-!
# C07 — lemmas about the driver logic (`Model/ExpSeriesDriver.lean`)
-/
open PowerSeries
namespace PyYetiVerif.ExpSeries

/-! ## the search `scalingExpAux` finds the least exponent -/

theorem scalingExpAux_spec (θ x : ℚ) :
    ∀ (f s : ℕ), x ≤ θ * 2 ^ (s + f) → (∀ s' < s, θ * 2 ^ s' < x) →
      x ≤ θ * 2 ^ scalingExpAux θ x f s ∧ ∀ s' < scalingExpAux θ x f s, θ * 2 ^ s' < x := by
  intro f
  induction f with
  | zero =>
    intro s hx hlt
    simpa [scalingExpAux] using ⟨hx, hlt⟩
  | succ f ih =>
    intro s hx hlt
    unfold scalingExpAux
    by_cases hc : x ≤ θ * 2 ^ s
    · rw [if_pos hc]
      exact ⟨hc, hlt⟩
    · rw [if_neg hc]
      apply ih (s + 1)
      · have : s + 1 + f = s + (f + 1) := by omega
        rw [this]; exact hx
      · intro s' hs'
        rcases Nat.lt_succ_iff_lt_or_eq.mp hs' with h | h
        · exact hlt s' h
        · subst h; exact lt_of_not_ge hc

/-! ## the squaring loop on formal power series -/

theorem iter_succ' {α : Type} (f : α → α) (n : ℕ) (a : α) : iter f (n + 1) a = f (iter f n a) := by
  induction n generalizing a with
  | zero => rfl
  | succ n ih => rw [iter, ih (f a)]; rfl

/-- `e(2^j x)` -/
noncomputable def eAt (j : ℕ) : ℚ⟦X⟧ := rescale ((2 : ℚ) ^ j) eS
/-- `2^j·φ1(2^j x)`: the first integral over `2^j` steps, in units of the base step -/
noncomputable def i1At (j : ℕ) : ℚ⟦X⟧ := C ((2 : ℚ) ^ j) * rescale ((2 : ℚ) ^ j) phi1S
/-- `4^j·φ2(2^j x)` -/
noncomputable def i2At (j : ℕ) : ℚ⟦X⟧ := C ((4 : ℚ) ^ j) * rescale ((2 : ℚ) ^ j) phi2S

theorem rescale_pow_succ (j : ℕ) (f : ℚ⟦X⟧) :
    rescale ((2 : ℚ) ^ (j + 1)) f = rescale ((2 : ℚ) ^ j) (rescale 2 f) := by
  rw [rescale_rescale, pow_succ, mul_comm]

theorem eAt_succ (j : ℕ) : eAt (j + 1) = eAt j * eAt j := by
  unfold eAt
  rw [rescale_pow_succ, ← eS_sq, map_mul]

theorem i1At_succ (j : ℕ) : i1At (j + 1) = i1At j + i1At j * eAt j := by
  unfold i1At eAt
  have h := congrArg (rescale ((2 : ℚ) ^ j)) phi1S_doubling
  simp only [map_add, map_mul, map_ofNat] at h
  rw [rescale_pow_succ, pow_succ, map_mul]
  have h2 : (C (2 : ℚ) : ℚ⟦X⟧) = 2 := map_ofNat C 2
  rw [h2]
  linear_combination (C ((2 : ℚ) ^ j)) * h

theorem i2At_succ (j : ℕ) :
    i2At (j + 1) = i2At j + eAt j * (i2At j + C ((2 : ℚ) ^ j) * i1At j) := by
  unfold i2At i1At eAt
  have h := congrArg (rescale ((2 : ℚ) ^ j)) phi2S_doubling
  simp only [map_add, map_mul, map_ofNat] at h
  rw [rescale_pow_succ, pow_succ, map_mul]
  have h4 : (C (4 : ℚ) : ℚ⟦X⟧) = 4 := map_ofNat C 4
  have h44 : (C ((4 : ℚ) ^ j) : ℚ⟦X⟧) = C ((2 : ℚ) ^ j) * C ((2 : ℚ) ^ j) := by
    rw [← map_mul, ← mul_pow]; norm_num
  rw [h4, h44]
  linear_combination (C ((2 : ℚ) ^ j) * C ((2 : ℚ) ^ j)) * h

/-! ## the power-series loop stops -/

theorem powRun_stops (X : QMat) (tol : ℚ) (M : ℕ) :
    ∀ (f : ℕ) (st : PowState), M ≤ st.j + f →
      powCont tol M (powRun X tol M f st) = false ∧ st.j ≤ (powRun X tol M f st).j := by
  intro f
  induction f with
  | zero =>
    intro st h
    simp only [powRun]
    refine ⟨?_, le_refl _⟩
    unfold powCont
    have : ¬ st.j < M := by omega
    simp [this]
  | succ f ih =>
    intro st h
    unfold powRun
    by_cases hc : powCont tol M st = true
    · rw [if_pos hc]
      have := ih (powStep X st) (by simp only [powStep]; omega)
      refine ⟨this.1, ?_⟩
      have h2 := this.2
      simp only [powStep] at h2 ⊢
      omega
    · rw [if_neg hc]
      exact ⟨by simpa using hc, le_refl _⟩


end PyYetiVerif.ExpSeries
