import PyYetiVerif.Lemmas.ExtremaLabels
/-!
The loop invariant of `_calc_extreme` for one category read BY LABEL (`Inv`), established by the
first event (`formStep_init`) and kept by every later one (`formStep_inv`), whatever rows it lists.
-/
set_option linter.unusedSectionVars false
namespace PyYetiVerif.ExtremaLabels
open PyYetiVerif.Extrema

section inv
variable {α X Lb : Type} [LT α] [DecidableLT α] [DecidableEq Lb]

/-- what the theorems ask of an event's category: as many rows as labels, no label twice, and NaN
abscissae in a table without `ext_x` (what the harness sends; they are never read by the code) -/
structure EvOk (e : Ev α X Lb) : Prop where
  len : e.cat.rows.length = e.cat.labels.length
  nodup : e.cat.labels.Nodup
  nox : e.cat.hasX = false → ∀ m ∈ e.cat.rows, NoX m

/-- the new category after the events `e0 :: rest`, read by label -/
structure Inv (d nc : Nat) (e0 : Ev α X Lb) (rest : List (Ev α X Lb))
    (a : Acc α X Lb) : Prop where
  lab : a.labels = labelFold e0.cat.labels (rest.map (·.cat.labels))
  nodup : a.labels.Nodup
  len : a.rows.length = a.labels.length
  /-- `ext_x` is never invented … -/
  xsrc : a.hasX = true → ∃ e ∈ e0 :: rest, e.cat.hasX = true
  /-- … and never lost once the first event brought one -/
  xfirst : e0.cat.hasX = true → a.hasX = true
  nox : a.hasX = false → ∀ r ∈ a.rows, NoX r.cur
  mem : ∀ l, l ∈ a.labels ↔ ∃ e ∈ e0 :: rest, l ∈ e.cat.labels
  row : ∀ l ∈ a.labels, rowAt a.labels a.rows l = some (specRow d nc l (e0 :: rest))

theorem formStep_init (d nc : Nat) (e0 : Ev α X Lb) (h0 : EvOk e0) :
    ∃ a, formStep d nc none e0 = .ok a ∧ Inv d nc e0 [] a := by
  refine ⟨_, rfl, ?_⟩
  refine ⟨rfl, h0.nodup, by simp [initAcc, h0.len], ?_, fun h => h, ?_, ?_, ?_⟩
  · intro h
    exact ⟨e0, List.mem_cons_self, h⟩
  · intro hf r hr
    simp only [initAcc, List.mem_map] at hr
    obtain ⟨m, hm, rfl⟩ := hr
    obtain ⟨m', hm', rfl⟩ := hm
    exact h0.nox hf m' hm'
  · intro l
    simp [initAcc]
  · intro l hl
    simp only [initAcc] at hl ⊢
    rw [rowAt_map, rowAt_map]
    obtain ⟨r, hr⟩ := rowAt_isSome (rows := e0.cat.rows) hl h0.len
    rw [hr]
    simp only [Option.map_some, Option.some.injEq, recordRow, specRow, rowFold, colFold, evRow, hr,
      List.filterMap_nil, List.foldl_nil, Option.getD_some, List.map_cons, List.map_nil, record,
      List.foldl_cons, Option.bind_some, relabel]
    cases hx : e0.cat.hasX
    · obtain ⟨h1, h2⟩ := h0.nox hx r (by
        rw [rowAt_of_mem hl] at hr
        exact List.mem_of_getElem? hr)
      simp [h1, h2]
    · simp

/-- a row that is not replaced in either column stays as it is -/
theorem upd2_of_not_rep (c m : Cur α (Option X) String)
    (h0 : nanRepl gtB c.hi.v m.hi.v = false) (h1 : nanRepl ltB c.lo.v m.lo.v = false) :
    upd2 (some c) (m.hi, m.lo) = c := by
  simp [upd2, Tr.upd, h0, h1]

/-- a table that still has no `ext_x` after a later call carries NaN abscissae -/
theorem nox_after (j : Nat) (a : Acc α X Lb) (valX : Bool) (ms : List (Cur α (Option X) String))
    (hna : a.hasX = false → ∀ r ∈ a.rows, NoX r.cur) (hnm : valX = false → ∀ m ∈ ms, NoX m)
    (hf : hasXAfter a valX ms = false) :
    ∀ r ∈ List.zipWith (rowSpec j) a.rows ms, NoX r.cur := by
  intro r hr
  obtain ⟨p, hp, rfl⟩ := mem_zipWith _ _ _ _ hr
  unfold hasXAfter at hf
  simp only [Bool.or_eq_false_iff, Bool.and_eq_false_iff] at hf
  obtain ⟨⟨hax, h0⟩, h1⟩ := hf
  have hpa : NoX p.1.cur := hna hax p.1 (List.of_mem_zip hp).1
  show NoX (upd2 (some p.1.cur) (p.2.hi, p.2.lo))
  cases hv : valX with
  | false => exact noX_upd2 _ _ hpa (hnm hv p.2 (List.of_mem_zip hp).2)
  | true =>
    have t0 : nanRepl gtB p.1.cur.hi.v p.2.hi.v = false := by
      rcases h0 with h0 | h0
      · rw [hv] at h0; cases h0
      · cases hr0 : nanRepl gtB p.1.cur.hi.v p.2.hi.v with
        | false => rfl
        | true => rw [List.any_eq_true.2 ⟨p, hp, hr0⟩] at h0; cases h0
    have t1 : nanRepl ltB p.1.cur.lo.v p.2.lo.v = false := by
      rcases h1 with h1 | h1
      · rw [hv] at h1; cases h1
      · cases hr1 : nanRepl ltB p.1.cur.lo.v p.2.lo.v with
        | false => rfl
        | true => rw [List.any_eq_true.2 ⟨p, hp, hr1⟩] at h1; cases h1
    rw [upd2_of_not_rep _ _ t0 t1]
    exact hpa

theorem hasXAfter_true (a : Acc α X Lb) (valX : Bool) (ms : List (Cur α (Option X) String))
    (h : hasXAfter a valX ms = true) : a.hasX = true ∨ valX = true := by
  unfold hasXAfter at h
  cases hax : a.hasX <;> cases hv : valX <;> simp_all

theorem hasXAfter_mono (a : Acc α X Lb) (valX : Bool) (ms : List (Cur α (Option X) String))
    (h : a.hasX = true) : hasXAfter a valX ms = true := by
  simp [hasXAfter, h]

/-- the rows of an event aligned with a label list that contains its own, read by label -/
theorem rowAt_event_rows (d : Nat) (e : Ev α X Lb) (he : e.cat.rows.length = e.cat.labels.length)
    (hn : e.cat.labels.Nodup) (l3 : List Lb) (hsub : ∀ x ∈ e.cat.labels, x ∈ l3) (l : Lb) (hl : l ∈ l3) :
    rowAt l3 ((expandRows fillCur l3.length (e.cat.labels.map l3.idxOf) e.cat.rows).map
        (relabel e.case e.useExt d)) l
      = some ((evRow d l e).getD (relabel e.case e.useExt d fillCur)) := by
  rw [rowAt_map, rowAt_expandRows fillCur _ _ _ hn hsub he l hl]
  simp only [Option.map_some, Option.some.injEq, evRow]
  cases rowAt e.cat.labels e.cat.rows l <;> rfl

/-- `extrema` on aligned tables keeps the by-label reading -/
theorem aligned_step (d nc : Nat) (e0 : Ev α X Lb) (rest : List (Ev α X Lb))
    (e : Ev α X Lb) (L : List Lb) (rows : List (ARow α X)) (ms : List (Cur α (Option X) String))
    (hlr : rows.length = L.length) (hlm : ms.length = L.length)
    (hrow : ∀ l ∈ L, rowAt L rows l = some (specRow d nc l (e0 :: rest)))
    (hms : ∀ l ∈ L, rowAt L ms l = some ((evRow d l e).getD (relabel e.case e.useExt d fillCur)))
    (l : Lb) (hl : l ∈ L) :
    rowAt L (List.zipWith (rowSpec e.j) rows ms) l = some (specRow d nc l (e0 :: (rest ++ [e]))) := by
  rw [rowAt_zipWith, hrow l hl, hms l hl, specRow_snoc]
  rfl

/-- what is common to the two branches: an aligned accumulator `a1` (rows `L`) and aligned event
rows `ms`, both read by label -/
theorem formStep_aligned (d nc : Nat) (e0 : Ev α X Lb) (rest : List (Ev α X Lb)) (a : Acc α X Lb)
    (e : Ev α X Lb) (hinv : Inv d nc e0 rest a) (he : EvOk e)
    (a1 : Acc α X Lb) (ms : List (Cur α (Option X) String))
    (hx1 : a1.hasX = a.hasX)
    (hlab : a1.labels = labelFold e0.cat.labels ((rest ++ [e]).map (·.cat.labels)))
    (hnd : a1.labels.Nodup) (hlr : a1.rows.length = a1.labels.length) (hlm : ms.length = a1.labels.length)
    (hna : a1.hasX = false → ∀ r ∈ a1.rows, NoX r.cur) (hnm : e.cat.hasX = false → ∀ m ∈ ms, NoX m)
    (hmem : ∀ l, l ∈ a1.labels ↔ l ∈ a.labels ∨ l ∈ e.cat.labels)
    (hrow : ∀ l ∈ a1.labels, rowAt a1.labels a1.rows l = some (specRow d nc l (e0 :: rest)))
    (hms : ∀ l ∈ a1.labels, rowAt a1.labels ms l
      = some ((evRow d l e).getD (relabel e.case e.useExt d fillCur))) :
    Inv d nc e0 (rest ++ [e]) (extremaTbl e.j a1 e.cat.hasX ms) := by
  rw [extremaTbl_rowwise e.j a1 e.cat.hasX ms hna hnm]
  refine ⟨hlab, hnd, ?_, ?_, ?_, ?_, ?_, ?_⟩
  · simp [List.length_zipWith, hlr, hlm]
  · intro h
    rcases hasXAfter_true a1 _ ms h with h | h
    · obtain ⟨e', he', hx'⟩ := hinv.xsrc (hx1 ▸ h)
      refine ⟨e', ?_, hx'⟩
      rcases List.mem_cons.1 he' with rfl | h'
      · exact List.mem_cons_self
      · exact List.mem_cons_of_mem _ (List.mem_append_left _ h')
    · exact ⟨e, List.mem_cons_of_mem _ (List.mem_append_right _ List.mem_cons_self), h⟩
  · intro h
    exact hasXAfter_mono a1 _ ms (hx1 ▸ hinv.xfirst h)
  · intro hf
    exact nox_after e.j a1 e.cat.hasX ms hna hnm hf
  · intro l
    show l ∈ a1.labels ↔ _
    rw [hmem l, hinv.mem l]
    constructor
    · rintro (⟨e', he', hl⟩ | hl)
      · refine ⟨e', ?_, hl⟩
        rcases List.mem_cons.1 he' with rfl | h
        · exact List.mem_cons_self
        · exact List.mem_cons_of_mem _ (List.mem_append_left _ h)
      · exact ⟨e, List.mem_cons_of_mem _ (List.mem_append_right _ List.mem_cons_self), hl⟩
    · rintro ⟨e', he', hl⟩
      rcases List.mem_cons.1 he' with rfl | h
      · exact Or.inl ⟨_, List.mem_cons_self, hl⟩
      · rcases List.mem_append.1 h with h | h
        · exact Or.inl ⟨e', List.mem_cons_of_mem _ h, hl⟩
        · rw [List.mem_singleton.1 h] at hl
          exact Or.inr hl
  · intro l hl
    exact aligned_step d nc e0 rest e a1.labels a1.rows ms hlr hlm hrow hms l hl

theorem formStep_inv (d nc : Nat) (e0 : Ev α X Lb) (rest : List (Ev α X Lb))
    (a : Acc α X Lb) (e : Ev α X Lb) (hinv : Inv d nc e0 rest a) (he : EvOk e) :
    ∃ a', formStep d nc (some a) e = .ok a' ∧ Inv d nc e0 (rest ++ [e]) a' := by
  by_cases heq : a.labels = e.cat.labels
  · -- the same rows in the same order: nothing is expanded
    have hstep : formStep d nc (some a) e
        = .ok (extremaTbl e.j a e.cat.hasX (e.cat.rows.map (relabel e.case e.useExt d))) := by
      simp [formStep, checkRows, heq]
    rw [hstep]
    refine ⟨_, rfl, ?_⟩
    apply formStep_aligned d nc e0 rest a e hinv he a _ rfl
    · simp only [List.map_append, List.map_cons, List.map_nil]
      rw [labelFold_snoc, ← hinv.lab, if_pos heq]
    · exact hinv.nodup
    · exact hinv.len
    · rw [List.length_map, he.len, heq]
    · exact hinv.nox
    · intro hf m hm
      obtain ⟨m', hm', rfl⟩ := List.mem_map.1 hm
      exact he.nox hf m' hm'
    · intro l; rw [heq]; simp
    · exact hinv.row
    · intro l' hl'
      rw [rowAt_map]
      have hl'' : l' ∈ e.cat.labels := heq ▸ hl'
      obtain ⟨r, hr⟩ := rowAt_isSome (rows := e.cat.rows) hl'' he.len
      simp only [evRow, ← heq] at hr ⊢
      rw [hr]
      rfl
  · -- other rows, or another order: both sides are expanded onto the merged list
    obtain ⟨hnd, hmem, hsub, hpv1, hpv2⟩ := mergeLists_nodup a.labels e.cat.labels hinv.nodup he.nodup
    have hstep : formStep d nc (some a) e
        = .ok (extremaTbl e.j (expandAcc nc a (mergeLists a.labels e.cat.labels).1
              (mergeLists a.labels e.cat.labels).2.1) e.cat.hasX
            ((expandCat e.cat (mergeLists a.labels e.cat.labels).1
              (mergeLists a.labels e.cat.labels).2.2).rows.map (relabel e.case e.useExt d))) := by
      simp [formStep, checkRows, heq, (nodupB_iff _).2 hinv.nodup, (nodupB_iff _).2 he.nodup, expandCat]
    rw [hstep]
    refine ⟨_, rfl, ?_⟩
    apply formStep_aligned d nc e0 rest a e hinv he (expandAcc nc a (mergeLists a.labels e.cat.labels).1
      (mergeLists a.labels e.cat.labels).2.1) _ rfl
    · simp only [List.map_append, List.map_cons, List.map_nil, expandAcc]
      rw [labelFold_snoc, ← hinv.lab, if_neg heq]
    · exact hnd
    · simp [expandAcc, length_expandRows]
    · simp [expandAcc, expandCat, length_expandRows]
    · intro hf r hr
      rcases mem_expandRows _ _ _ _ _ hr with rfl | h
      · exact ⟨rfl, rfl⟩
      · exact hinv.nox hf r h
    · intro hf m hm
      obtain ⟨m', hm', rfl⟩ := List.mem_map.1 hm
      rcases mem_expandRows _ _ _ _ _ hm' with rfl | h
      · exact ⟨rfl, rfl⟩
      · exact he.nox hf m' h
    · exact hmem
    · intro l' hl'
      have hl' : l' ∈ (mergeLists a.labels e.cat.labels).1 := hl'
      simp only [expandAcc, hpv1]
      rw [rowAt_expandRows (fillARow nc) a.labels _ a.rows hinv.nodup (fun x hx' => (hmem x).2 (Or.inl hx'))
        hinv.len l' hl']
      by_cases hla : l' ∈ a.labels
      · rw [hinv.row l' hla]
        rfl
      · rw [rowAt_of_notMem hla, Option.getD_none, specRow_of_notCarried]
        intro e' he' hle'
        exact hla ((hinv.mem l').2 ⟨e', he', hle'⟩)
    · intro l' hl'
      have hl' : l' ∈ (mergeLists a.labels e.cat.labels).1 := hl'
      simp only [expandCat, hpv2]
      exact rowAt_event_rows d e he.len he.nodup _ (fun x hx' => (hmem x).2 (Or.inr hx')) l' hl'

/-- the whole loop keeps the invariant -/
theorem formCat_inv (d nc : Nat) (e0 : Ev α X Lb) : ∀ (es rest : List (Ev α X Lb))
    (a : Acc α X Lb), Inv d nc e0 rest a → (∀ e ∈ es, EvOk e) →
    ∃ a', formCat d nc (some a) es = .ok (some a') ∧ Inv d nc e0 (rest ++ es) a'
  | [], rest, a, hinv, _ => ⟨a, rfl, by simpa using hinv⟩
  | e :: es, rest, a, hinv, hes => by
      obtain ⟨a1, h1, hinv1⟩ := formStep_inv d nc e0 rest a e hinv (hes e List.mem_cons_self)
      obtain ⟨a2, h2, hinv2⟩ := formCat_inv d nc e0 es (rest ++ [e]) a1 hinv1
        fun e' he' => hes e' (List.mem_cons_of_mem _ he')
      refine ⟨a2, ?_, by simpa using hinv2⟩
      simp only [formCat, h1]
      exact h2

end inv

/-! ### the fold by label against the specification `FirstBest` -/
section best
variable {α X L β : Type} [LinearOrder β] {key : α → β}

/-- a NaN entry in front of the list does not change which entry is the first best, when that one
is a number -/
theorem firstBest_cons_nan {all : List (Tr α X L)} {r f : Tr α X L} (hf : f.v = none)
    (h : FirstBest key (f :: all) r) (hr : r.v ≠ none) : FirstBest key all r := by
  obtain ⟨pre, post, hall, hpre, hpost, hnone⟩ := h
  cases pre with
  | nil =>
    simp only [List.nil_append, List.cons.injEq] at hall
    exact absurd (hall.1 ▸ hf) hr
  | cons p pre' =>
    simp only [List.cons_append, List.cons.injEq] at hall
    exact ⟨pre', post, hall.2, fun t ht => hpre t (List.mem_cons_of_mem _ ht), hpost,
      fun h' => absurd h' hr⟩

/-- the first best is NaN only when every entry is -/
theorem firstBest_none_all {all : List (Tr α X L)} {r : Tr α X L} (h : FirstBest key all r)
    (hr : r.v = none) : ∀ t ∈ all, t.v = none := by
  intro t ht
  cases hv : t.v with
  | none => rfl
  | some w =>
    obtain ⟨u, hu, -⟩ := firstBest_ge h t ht w hv
    rw [hr] at hu
    cases hu

end best

section fold
variable {α X Lb : Type} [LT α] [DecidableLT α] [DecidableEq Lb]

theorem foldl_upd2_eq (c : Cur α (Option X) String) (ms : List (Cur α (Option X) String)) :
    ms.foldl (fun c m => upd2 (some c) (m.hi, m.lo)) c
      = ⟨runTr gtB c.hi (ms.map (·.hi)), runTr ltB c.lo (ms.map (·.lo))⟩ := by
  induction ms generalizing c with
  | nil => rfl
  | cons m ms ih =>
    rw [List.foldl_cons, ih]
    rfl

end fold

end PyYetiVerif.ExtremaLabels
