import PyYetiVerif.Lemmas.ExtremaLabels
/-!
The loop invariant of `_calc_extreme` for one category read BY LABEL (`Inv`), established by the
first event (`formStep_init`) and kept by every later one (`formStep_inv`), whatever rows it lists.
-/
set_option linter.unusedSectionVars false
namespace PyYetiVerif.ExtremaLabels
open PyYetiVerif.Extrema

section inv
variable {α X Lb : Type} [LT α] [DecidableLT α] [DecidableEq Lb]

/-- what the theorems ask of an event's category: as many rows as labels, no label twice, abscissae
present or absent as everywhere else (`hx`), and no abscissae in a table without `ext_x` -/
structure EvOk (hx : Bool) (e : Ev α X Lb) : Prop where
  len : e.cat.rows.length = e.cat.labels.length
  nodup : e.cat.labels.Nodup
  hasX : e.cat.hasX = hx
  nox : hx = false → ∀ m ∈ e.cat.rows, NoX m

/-- the new category after the events `e0 :: rest`, read by label -/
structure Inv (d nc : Nat) (hx : Bool) (e0 : Ev α X Lb) (rest : List (Ev α X Lb))
    (a : Acc α X Lb) : Prop where
  lab : a.labels = labelFold e0.cat.labels (rest.map (·.cat.labels))
  nodup : a.labels.Nodup
  len : a.rows.length = a.labels.length
  hasX : a.hasX = hx
  nox : hx = false → ∀ r ∈ a.rows, NoX r.cur
  mem : ∀ l, l ∈ a.labels ↔ ∃ e ∈ e0 :: rest, l ∈ e.cat.labels
  row : ∀ l ∈ a.labels, rowAt a.labels a.rows l = some (specRow d nc l (e0 :: rest))

theorem formStep_init (d nc : Nat) (hx : Bool) (e0 : Ev α X Lb) (h0 : EvOk hx e0) :
    ∃ a, formStep d nc none e0 = .ok a ∧ Inv d nc hx e0 [] a := by
  refine ⟨_, rfl, ?_⟩
  refine ⟨rfl, h0.nodup, by simp [initAcc, h0.len], h0.hasX, ?_, ?_, ?_⟩
  · intro hf r hr
    simp only [initAcc, List.mem_map] at hr
    obtain ⟨m, hm, rfl⟩ := hr
    obtain ⟨m', hm', rfl⟩ := hm
    exact h0.nox hf m' hm'
  · intro l
    simp [initAcc]
  · intro l hl
    simp only [initAcc] at hl ⊢
    rw [rowAt_map, rowAt_map]
    obtain ⟨r, hr⟩ := rowAt_isSome (rows := e0.cat.rows) hl h0.len
    rw [hr]
    simp only [Option.map_some, Option.some.injEq, recordRow, specRow, rowFold, colFold, evRow, hr,
      List.filterMap_nil, List.foldl_nil, Option.getD_some, List.map_cons, List.map_nil, record,
      List.foldl_cons, Option.bind_some, relabel, h0.hasX]
    cases hx
    · obtain ⟨h1, h2⟩ := h0.nox rfl r (by
        rw [rowAt_of_mem hl] at hr
        exact List.mem_of_getElem? hr)
      simp [h1, h2]
    · simp

/-- the rows of an event aligned with a label list that contains its own, read by label -/
theorem rowAt_event_rows (d : Nat) (e : Ev α X Lb) (he : e.cat.rows.length = e.cat.labels.length)
    (hn : e.cat.labels.Nodup) (l3 : List Lb) (hsub : ∀ x ∈ e.cat.labels, x ∈ l3) (l : Lb) (hl : l ∈ l3) :
    rowAt l3 ((expandRows fillCur l3.length (e.cat.labels.map l3.idxOf) e.cat.rows).map
        (relabel e.case e.useExt d)) l
      = some ((evRow d l e).getD (relabel e.case e.useExt d fillCur)) := by
  rw [rowAt_map, rowAt_expandRows fillCur _ _ _ hn hsub he l hl]
  simp only [Option.map_some, Option.some.injEq, evRow]
  cases rowAt e.cat.labels e.cat.rows l <;> rfl

/-- `extrema` on aligned tables keeps the by-label reading -/
theorem aligned_step (d nc : Nat) (hx : Bool) (e0 : Ev α X Lb) (rest : List (Ev α X Lb))
    (e : Ev α X Lb) (L : List Lb) (rows : List (ARow α X)) (ms : List (Cur α (Option X) String))
    (hlr : rows.length = L.length) (hlm : ms.length = L.length)
    (hrow : ∀ l ∈ L, rowAt L rows l = some (specRow d nc l (e0 :: rest)))
    (hms : ∀ l ∈ L, rowAt L ms l = some ((evRow d l e).getD (relabel e.case e.useExt d fillCur)))
    (l : Lb) (hl : l ∈ L) :
    rowAt L (List.zipWith (rowSpec e.j) rows ms) l = some (specRow d nc l (e0 :: (rest ++ [e]))) := by
  rw [rowAt_zipWith, hrow l hl, hms l hl, specRow_snoc]
  rfl

theorem formStep_inv (d nc : Nat) (hx : Bool) (e0 : Ev α X Lb) (rest : List (Ev α X Lb))
    (a : Acc α X Lb) (e : Ev α X Lb) (hinv : Inv d nc hx e0 rest a) (he : EvOk hx e)
    (hmx : e.cat.hasMx = true) :
    ∃ a', formStep d nc (some a) e = .ok a' ∧ Inv d nc hx e0 (rest ++ [e]) a' := by
  have hmem' : ∀ (L : List Lb), (∀ l, l ∈ L ↔ l ∈ a.labels ∨ l ∈ e.cat.labels) →
      ∀ l, l ∈ L ↔ ∃ e' ∈ e0 :: (rest ++ [e]), l ∈ e'.cat.labels := by
    intro L hL l
    rw [hL l, hinv.mem l]
    constructor
    · rintro (⟨e', he', hl⟩ | hl)
      · refine ⟨e', ?_, hl⟩
        rcases List.mem_cons.1 he' with rfl | h
        · exact List.mem_cons_self
        · exact List.mem_cons_of_mem _ (List.mem_append_left _ h)
      · exact ⟨e, List.mem_cons_of_mem _ (List.mem_append_right _ List.mem_cons_self), hl⟩
    · rintro ⟨e', he', hl⟩
      rcases List.mem_cons.1 he' with rfl | h
      · exact Or.inl ⟨_, List.mem_cons_self, hl⟩
      · rcases List.mem_append.1 h with h | h
        · exact Or.inl ⟨e', List.mem_cons_of_mem _ h, hl⟩
        · rw [List.mem_singleton.1 h] at hl
          exact Or.inr hl
  by_cases heq : a.labels = e.cat.labels
  · -- the same rows in the same order: nothing is expanded
    have hstep : formStep d nc (some a) e
        = .ok (extremaTbl e.j a e.cat.hasX (e.cat.rows.map (relabel e.case e.useExt d))) := by
      simp [formStep, checkRows, heq]
    rw [hstep, he.hasX, extremaTbl_uniform e.j a hx _ hinv.hasX hinv.nox (by
      intro hf m hm
      obtain ⟨m', hm', rfl⟩ := List.mem_map.1 hm
      exact he.nox hf m' hm')]
    refine ⟨_, rfl, ?_⟩
    have hlm : (e.cat.rows.map (relabel e.case e.useExt d)).length = a.labels.length := by
      rw [List.length_map, he.len, heq]
    refine ⟨?_, hinv.nodup, ?_, hinv.hasX, ?_, ?_, ?_⟩
    · simp only [List.map_append, List.map_cons, List.map_nil]
      rw [labelFold_snoc, ← hinv.lab, if_pos heq]
    · simp [List.length_zipWith, hinv.len, hlm]
    · intro hf r hr
      obtain ⟨i, hi⟩ := List.mem_iff_getElem?.1 hr
      rw [List.getElem?_zipWith] at hi
      cases hra : a.rows[i]? with
      | none => simp [hra] at hi
      | some ra =>
        cases hrm : (e.cat.rows.map (relabel e.case e.useExt d))[i]? with
        | none => simp [hra, hrm] at hi
        | some m =>
          simp only [hra, hrm, Option.some.injEq] at hi
          subst hi
          have hm : m ∈ e.cat.rows.map (relabel e.case e.useExt d) := List.mem_of_getElem? hrm
          obtain ⟨m', hm', rfl⟩ := List.mem_map.1 hm
          exact noX_upd2 _ _ (hinv.nox hf ra (List.mem_of_getElem? hra)) (he.nox hf m' hm')
    · exact hmem' a.labels fun l => by rw [heq]; simp
    · intro l hl
      refine aligned_step d nc hx e0 rest e a.labels a.rows _ hinv.len hlm hinv.row ?_ l hl
      intro l' hl'
      rw [rowAt_map]
      have hl'' : l' ∈ e.cat.labels := heq ▸ hl'
      obtain ⟨r, hr⟩ := rowAt_isSome (rows := e.cat.rows) hl'' he.len
      simp only [evRow, ← heq] at hr ⊢
      rw [hr]
      rfl
  · -- other rows, or another order: both sides are expanded onto the merged list
    obtain ⟨hnd, hmem, hsub, hpv1, hpv2⟩ := mergeLists_nodup a.labels e.cat.labels hinv.nodup he.nodup
    have hstep : formStep d nc (some a) e
        = .ok (extremaTbl e.j (expandAcc nc a (mergeLists a.labels e.cat.labels).1
              (mergeLists a.labels e.cat.labels).2.1) e.cat.hasX
            ((expandCat e.cat (mergeLists a.labels e.cat.labels).1
              (mergeLists a.labels e.cat.labels).2.2).rows.map (relabel e.case e.useExt d))) := by
      simp [formStep, checkRows, heq, (nodupB_iff _).2 hinv.nodup, (nodupB_iff _).2 he.nodup, hmx, expandCat]
    set L := (mergeLists a.labels e.cat.labels).1 with hL
    have hxa : ∀ r ∈ (expandAcc nc a L (mergeLists a.labels e.cat.labels).2.1).rows, hx = false → NoX r.cur := by
      intro r hr hf
      rcases mem_expandRows _ _ _ _ _ hr with rfl | h
      · exact ⟨rfl, rfl⟩
      · exact hinv.nox hf r h
    have hxm : ∀ m ∈ (expandCat e.cat L (mergeLists a.labels e.cat.labels).2.2).rows.map
        (relabel e.case e.useExt d), hx = false → NoX m := by
      intro m hm hf
      obtain ⟨m', hm', rfl⟩ := List.mem_map.1 hm
      rcases mem_expandRows _ _ _ _ _ hm' with rfl | h
      · exact ⟨rfl, rfl⟩
      · exact he.nox hf m' h
    rw [hstep, he.hasX, extremaTbl_uniform e.j _ hx _ (by simpa [expandAcc] using hinv.hasX)
      (fun hf r hr => hxa r hr hf) (fun hf m hm => hxm m hm hf)]
    refine ⟨_, rfl, ?_⟩
    have hlr : (expandAcc nc a L (mergeLists a.labels e.cat.labels).2.1).rows.length = L.length := by
      simp [expandAcc, length_expandRows]
    have hlm : ((expandCat e.cat L (mergeLists a.labels e.cat.labels).2.2).rows.map
        (relabel e.case e.useExt d)).length = L.length := by
      simp [expandCat, length_expandRows]
    refine ⟨?_, hnd, ?_, by simpa [expandAcc] using hinv.hasX, ?_, ?_, ?_⟩
    · simp only [List.map_append, List.map_cons, List.map_nil, expandAcc]
      rw [labelFold_snoc, ← hinv.lab, if_neg heq]
    · simp only [expandAcc] at hlr ⊢
      simp [List.length_zipWith, hlr, hlm]
    · intro hf r hr
      obtain ⟨i, hi⟩ := List.mem_iff_getElem?.1 hr
      simp only [List.getElem?_zipWith] at hi
      cases hra : (expandAcc nc a L (mergeLists a.labels e.cat.labels).2.1).rows[i]? with
      | none => simp [hra] at hi
      | some ra =>
        cases hrm : ((expandCat e.cat L (mergeLists a.labels e.cat.labels).2.2).rows.map
            (relabel e.case e.useExt d))[i]? with
        | none => simp [hra, hrm] at hi
        | some m =>
          simp only [hra, hrm, Option.some.injEq] at hi
          subst hi
          exact noX_upd2 _ _ (hxa ra (List.mem_of_getElem? hra) hf) (hxm m (List.mem_of_getElem? hrm) hf)
    · exact hmem' L hmem
    · intro l hl
      have hl : l ∈ L := hl
      refine aligned_step d nc hx e0 rest e L _ _ hlr hlm ?_ ?_ l hl
      · intro l' hl'
        simp only [expandAcc, hpv1]
        rw [rowAt_expandRows (fillARow nc) a.labels L a.rows hinv.nodup (fun x hx' => (hmem x).2 (Or.inl hx'))
          hinv.len l' hl']
        by_cases hla : l' ∈ a.labels
        · rw [hinv.row l' hla]
          rfl
        · rw [rowAt_of_notMem hla, Option.getD_none, specRow_of_notCarried]
          intro e' he' hle'
          exact hla ((hinv.mem l').2 ⟨e', he', hle'⟩)
      · intro l' hl'
        simp only [expandCat, hpv2]
        exact rowAt_event_rows d e he.len he.nodup L (fun x hx' => (hmem x).2 (Or.inr hx')) l' hl'

/-- the whole loop keeps the invariant -/
theorem formCat_inv (d nc : Nat) (hx : Bool) (e0 : Ev α X Lb) : ∀ (es rest : List (Ev α X Lb))
    (a : Acc α X Lb), Inv d nc hx e0 rest a → (∀ e ∈ es, EvOk hx e ∧ e.cat.hasMx = true) →
    ∃ a', formCat d nc (some a) es = .ok (some a') ∧ Inv d nc hx e0 (rest ++ es) a'
  | [], rest, a, hinv, _ => ⟨a, rfl, by simpa using hinv⟩
  | e :: es, rest, a, hinv, hes => by
      obtain ⟨a1, h1, hinv1⟩ := formStep_inv d nc hx e0 rest a e hinv (hes e List.mem_cons_self).1
        (hes e List.mem_cons_self).2
      obtain ⟨a2, h2, hinv2⟩ := formCat_inv d nc hx e0 es (rest ++ [e]) a1 hinv1
        fun e' he' => hes e' (List.mem_cons_of_mem _ he')
      refine ⟨a2, ?_, by simpa using hinv2⟩
      simp only [formCat, h1]
      exact h2

end inv

/-! ### the fold by label against the specification `FirstBest` -/
section best
variable {α X L β : Type} [LinearOrder β] {key : α → β}

/-- a NaN entry in front of the list does not change which entry is the first best, when that one
is a number -/
theorem firstBest_cons_nan {all : List (Tr α X L)} {r f : Tr α X L} (hf : f.v = none)
    (h : FirstBest key (f :: all) r) (hr : r.v ≠ none) : FirstBest key all r := by
  obtain ⟨pre, post, hall, hpre, hpost, hnone⟩ := h
  cases pre with
  | nil =>
    simp only [List.nil_append, List.cons.injEq] at hall
    exact absurd (hall.1 ▸ hf) hr
  | cons p pre' =>
    simp only [List.cons_append, List.cons.injEq] at hall
    exact ⟨pre', post, hall.2, fun t ht => hpre t (List.mem_cons_of_mem _ ht), hpost,
      fun h' => absurd h' hr⟩

/-- the first best is NaN only when every entry is -/
theorem firstBest_none_all {all : List (Tr α X L)} {r : Tr α X L} (h : FirstBest key all r)
    (hr : r.v = none) : ∀ t ∈ all, t.v = none := by
  intro t ht
  cases hv : t.v with
  | none => rfl
  | some w =>
    obtain ⟨u, hu, -⟩ := firstBest_ge h t ht w hv
    rw [hr] at hu
    cases hu

end best

section fold
variable {α X Lb : Type} [LT α] [DecidableLT α] [DecidableEq Lb]

theorem foldl_upd2_eq (c : Cur α (Option X) String) (ms : List (Cur α (Option X) String)) :
    ms.foldl (fun c m => upd2 (some c) (m.hi, m.lo)) c
      = ⟨runTr gtB c.hi (ms.map (·.hi)), runTr ltB c.lo (ms.map (·.lo))⟩ := by
  induction ms generalizing c with
  | nil => rfl
  | cons m ms ih =>
    rw [List.foldl_cons, ih]
    rfl

end fold

end PyYetiVerif.ExtremaLabels
