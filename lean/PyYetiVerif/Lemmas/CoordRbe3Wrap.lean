import PyYetiVerif.Model.CoordRbe3Wrap
import PyYetiVerif.Lemmas.CoordRbe3
import Mathlib.Data.List.Sort
/-!
Lemmas about the list-level packaging of `formrbe3` (`Model/CoordRbe3Wrap.lean`): sorting into uset order
(`sortByRow`, `sortRows`) returns the strictly row-sorted permutation, hence does not depend on the order in
which `Ind_List` / `UM_List` name the DOF; the packed input, and with it `formrbe3W`, is invariant under such
reorderings; multiplying every weight by the same non-zero factor changes nothing.
-/
set_option linter.unusedSectionVars false
set_option linter.unusedVariables false
namespace PyYetiVerif.Coord

/-! ### sorting into uset order -/

section sort
variable {γ : Type}

theorem idxOf?_map_fst_bind (ind : List (Nat × γ)) (k : Nat) :
    ((ind.map (·.1)).idxOf? k).bind (fun i => ind[i]?) = ind.find? (fun e => e.1 == k) := by
  induction ind with
  | nil => rfl
  | cons a t ih =>
    simp only [List.map_cons, List.idxOf?_cons, List.find?_cons]
    by_cases h : (a.1 == k) = true
    · simp [h]
    · simp only [h, Bool.false_eq_true, if_false]
      rw [← ih]
      cases (t.map (·.1)).idxOf? k with
      | none => rfl
      | some i => simp

/-- `sortByRow`: for every uset row, in order, the first entry that names it -/
theorem sortByRow_eq (ind : List (Nat × γ)) (n : Nat) :
    sortByRow ind n = (List.range n).filterMap fun k => ind.find? (fun e => e.1 == k) := by
  unfold sortByRow positions
  rw [List.filterMap_filterMap]
  congr 1
  funext k
  exact idxOf?_map_fst_bind ind k

theorem sortByRow_sorted (ind : List (Nat × γ)) (n : Nat) :
    (sortByRow ind n).Pairwise fun a b => a.1 < b.1 := by
  rw [sortByRow_eq]
  refine List.Pairwise.filterMap _ ?_ List.pairwise_lt_range
  intro k k' hk b hb b' hb'
  have h1 := List.find?_some hb
  have h2 := List.find?_some hb'
  simp only [beq_iff_eq] at h1 h2
  omega

theorem find?_key_of_nodup : ∀ (ind : List (Nat × γ)), (ind.map (·.1)).Nodup → ∀ x ∈ ind,
    ind.find? (fun e => e.1 == x.1) = some x := by
  intro ind
  induction ind with
  | nil => intro _ x hx; cases hx
  | cons a t ih =>
    intro hnd x hx
    simp only [List.map_cons, List.nodup_cons] at hnd
    rcases List.mem_cons.mp hx with rfl | hx
    · simp
    · have hne : a.1 ≠ x.1 := fun h => hnd.1 (h ▸ List.mem_map.mpr ⟨x, hx, rfl⟩)
      have hb : (a.1 == x.1) = false := by simpa using hne
      rw [List.find?_cons, hb]
      exact ih hnd.2 x hx

theorem mem_sortByRow {ind : List (Nat × γ)} {n : Nat} (hnd : (ind.map (·.1)).Nodup) {x : Nat × γ} :
    x ∈ sortByRow ind n ↔ x ∈ ind ∧ x.1 < n := by
  rw [sortByRow_eq, List.mem_filterMap]
  constructor
  · rintro ⟨k, hk, hf⟩
    have h1 := List.find?_some hf
    simp only [beq_iff_eq] at h1
    exact ⟨List.mem_of_find?_eq_some hf, by rw [h1]; exact List.mem_range.mp hk⟩
  · rintro ⟨hx, hlt⟩
    exact ⟨x.1, List.mem_range.mpr hlt, find?_key_of_nodup ind hnd x hx⟩

theorem nodup_of_sorted_fst {l : List (Nat × γ)} (h : l.Pairwise fun a b => a.1 < b.1) : l.Nodup :=
  h.imp fun hab heq => by rw [heq] at hab; exact Nat.lt_irrefl _ hab

/-- with distinct rows, all in the table, sorting returns a permutation -/
theorem sortByRow_perm {ind : List (Nat × γ)} {n : Nat} (hnd : (ind.map (·.1)).Nodup)
    (hlt : ∀ x ∈ ind, x.1 < n) : (sortByRow ind n).Perm ind := by
  rw [List.perm_ext_iff_of_nodup (nodup_of_sorted_fst (sortByRow_sorted ind n)) (List.Nodup.of_map _ hnd)]
  intro x
  rw [mem_sortByRow hnd]
  exact ⟨fun h => h.1, fun h => ⟨h, hlt x h⟩⟩

/-- the sorted list does not depend on the order in which the DOF are named -/
theorem sortByRow_eq_of_perm {a b : List (Nat × γ)} {n : Nat} (hp : a.Perm b)
    (hnd : (a.map (·.1)).Nodup) : sortByRow a n = sortByRow b n := by
  have hndb : (b.map (·.1)).Nodup := (hp.map _).nodup_iff.mp hnd
  refine List.Perm.eq_of_pairwise ?_ (sortByRow_sorted a n) (sortByRow_sorted b n) ?_
  · intro x y _ _ h1 h2; omega
  · rw [List.perm_ext_iff_of_nodup (nodup_of_sorted_fst (sortByRow_sorted a n))
      (nodup_of_sorted_fst (sortByRow_sorted b n))]
    intro x
    rw [mem_sortByRow hnd, mem_sortByRow hndb, hp.mem_iff]

theorem sortByRow_map {δ : Type} (f : γ → δ) (ind : List (Nat × γ)) (n : Nat) :
    sortByRow (ind.map fun e => (e.1, f e.2)) n = (sortByRow ind n).map fun e => (e.1, f e.2) := by
  unfold sortByRow
  rw [List.map_map, List.map_filterMap]
  have : ((fun e : Nat × δ => e.1) ∘ fun e : Nat × γ => (e.1, f e.2)) = fun e => e.1 := rfl
  rw [this]
  congr 1
  funext i
  rw [List.getElem?_map]

theorem idxOf?_bind_getElem? (ks : List Nat) (k : Nat) :
    (ks.idxOf? k).bind (fun i => ks[i]?) = if k ∈ ks then some k else none := by
  induction ks with
  | nil => rfl
  | cons a t ih =>
    simp only [List.idxOf?_cons, List.mem_cons]
    by_cases h : (a == k) = true
    · have : a = k := by simpa using h
      simp [this]
    · have hne : ¬ k = a := fun e => h (by simp [e])
      simp only [h, Bool.false_eq_true, if_false, hne, false_or]
      rw [← ih]
      cases t.idxOf? k with
      | none => rfl
      | some i => simp

/-- `sortRows`: the rows of the table that are named, in table order -/
theorem sortRows_eq (ks : List Nat) (n : Nat) : sortRows ks n = (List.range n).filter fun k => ks.contains k := by
  unfold sortRows positions
  rw [List.filterMap_filterMap]
  have : (fun k => (ks.idxOf? k).bind fun i => ks[i]?) = fun k => if ks.contains k then some k else none := by
    funext k; rw [idxOf?_bind_getElem?]; simp
  rw [this]
  induction List.range n with
  | nil => rfl
  | cons a t ih =>
    rw [List.filterMap_cons, List.filter_cons]
    by_cases h : ks.contains a = true
    · rw [if_pos h, if_pos h, ih]
    · rw [if_neg h, if_neg h, ih]

theorem sortRows_eq_of_mem_iff {a b : List Nat} (n : Nat) (h : ∀ k, k ∈ a ↔ k ∈ b) :
    sortRows a n = sortRows b n := by
  rw [sortRows_eq, sortRows_eq]
  congr 1
  funext k
  rw [Bool.eq_iff_iff, List.contains_iff_mem, List.contains_iff_mem]
  exact h k

end sort

/-! ### `sorted(set(ids))` -/

theorem sortedIds_eq_of_perm {a b : List Nat} (hp : a.Perm b) : sortedIds a = sortedIds b := by
  unfold sortedIds
  congr 1
  have le_tr : ∀ x y z : Nat, decide (x ≤ y) = true → decide (y ≤ z) = true → decide (x ≤ z) = true := by
    intro x y z; simp only [decide_eq_true_eq]; exact Nat.le_trans
  have le_tot : ∀ x y : Nat, (decide (x ≤ y) || decide (y ≤ x)) = true := by
    intro x y; simp only [Bool.or_eq_true, decide_eq_true_eq]; exact Nat.le_total _ _
  have sa := List.pairwise_mergeSort (le := fun x y : Nat => decide (x ≤ y)) le_tr le_tot a
  have sb := List.pairwise_mergeSort (le := fun x y : Nat => decide (x ≤ y)) le_tr le_tot b
  refine List.Perm.eq_of_pairwise ?_ sa sb
    ((List.mergeSort_perm a _).trans (hp.trans (List.mergeSort_perm b _).symm))
  intro x y _ _ h1 h2
  simp only [decide_eq_true_eq] at h1 h2
  omega

/-! ### `mapM` in `Option` -/

theorem mapM_cons_opt {β δ : Type} (f : β → Option δ) (b : β) (t : List β) :
    (b :: t).mapM f = (f b).bind fun v => (t.mapM f).bind fun vs => some (v :: vs) := by
  rw [List.mapM_cons]; rfl

theorem mem_of_mapM_some {β δ : Type} {f : β → Option δ} : ∀ {l : List β} {r : List δ}, l.mapM f = some r →
    ∀ x ∈ r, ∃ y ∈ l, f y = some x := by
  intro l
  induction l with
  | nil => intro r h x hx; simp at h; subst h; cases hx
  | cons b t ih =>
    intro r h x hx
    rw [mapM_cons_opt] at h
    cases hv : f b with
    | none => simp [hv] at h
    | some v =>
      cases hvs : t.mapM f with
      | none => simp [hv, hvs] at h
      | some vs =>
        simp only [hv, hvs, Option.bind_some, Option.some.injEq] at h
        subst h
        rcases List.mem_cons.mp hx with rfl | hx
        · exact ⟨b, List.mem_cons_self, hv⟩
        · obtain ⟨y, hy, hfy⟩ := ih hvs x hx
          exact ⟨y, List.mem_cons_of_mem _ hy, hfy⟩

theorem idxOf?_lt_length {δ : Type} [BEq δ] {l : List δ} {d : δ} {k : Nat} (h : l.idxOf? d = some k) :
    k < l.length := by
  induction l generalizing k with
  | nil => cases h
  | cons a t ih =>
    rw [List.idxOf?_cons] at h
    split at h
    · simp only [Option.some.injEq] at h; subst h; simp
    · simp only [Option.map_eq_some_iff] at h
      obtain ⟨i, hi, rfl⟩ := h
      have := ih hi
      simp only [List.length_cons]; omega

/-! ### the packed input does not depend on the order of `Ind_List` / `UM_List` -/

section pack
variable {α : Type} [OfNat α 1]

/-- the independent DOF that are rows of the table all have rows below the table's length -/
theorem indRowsOf_lt {u : UsetTab α} {il : List (IndGroup α)} {a : List (Nat × Nat × IndDof α)}
    (h : indRowsOf u il = some a) : ∀ x ∈ a, x.1 < (usetDof u).length := by
  unfold indRowsOf at h
  simp only [bind, Option.bind] at h
  split at h
  · cases h
  · rename_i ex hex
    intro x hx
    obtain ⟨ke, hke, hr⟩ := mem_of_mapM_some h x hx
    simp only [List.mem_filterMap, Option.map_eq_some_iff] at hke
    obtain ⟨e, _, k, hk, rfl⟩ := hke
    have hx1 : x.1 = k := by
      unfold indRow at hr
      split at hr
      · cases hr
      · split at hr
        · simp only [Option.some.injEq] at hr; rw [← hr]
        · cases hr
    rw [hx1]
    exact idxOf?_lt_length hk

/-- **row / column order of the packed input**: if two `Ind_List`s name the same independent DOF (with the
same weights) in different orders — groups reordered, ids reordered inside a group, a group split in two … — the
packed inputs are identical -/
theorem packRbe3_eq_of_perm {u : UsetTab α} {gdep dofdep : Nat} {il₁ il₂ : List (IndGroup α)}
    {um : Option (List (Nat × Nat))} {a b : List (Nat × Nat × IndDof α)}
    (h₁ : indRowsOf u il₁ = some a) (h₂ : indRowsOf u il₂ = some b) (hp : a.Perm b)
    (hnd : (a.map (·.1)).Nodup) :
    packRbe3 u gdep dofdep il₁ um = packRbe3 u gdep dofdep il₂ um := by
  have hs : sortByRow a (usetDof u).length = sortByRow b (usetDof u).length := sortByRow_eq_of_perm hp hnd
  have hw : ∀ ddof umk dep, packWith u gdep ddof a umk dep = packWith u gdep ddof b umk dep := by
    intro ddof umk dep; simp only [packWith, hs]
  unfold packRbe3
  rw [h₁, h₂]
  cases expandDof [(gdep, dofdep)] with
  | none => rfl
  | some ddof =>
    cases gridOf u gdep with
    | none => rfl
    | some dep =>
      simp only []
      cases umRows (usetDof u) ddof.length um with
      | none => rfl
      | some umk => simp only [hw]

end pack

/-! ### `UM_List` order, explicit form without `UM_List` -/

section core
variable {α : Type} [Add α] [Sub α] [Mul α] [Div α] [Neg α] [OfNat α 0] [OfNat α 1] [OfNat α 180]
  [TransOps α] [LT α] [∀ a b : α, Decidable (a < b)]

theorem rbe3Core_um_congr (solve : Solver α) (grids : List (GridR α)) (dep : GridR α) (ddofs dkeys : List Nat)
    (ni : Nat) (indf : Fin ni → IndDof α) (ikeys : List Nat) (n : Nat) (k₁ k₂ : List Nat) (nuset : Nat)
    (h : sortRows k₁ nuset = sortRows k₂ nuset) :
    rbe3Core solve grids dep ddofs dkeys ni indf ikeys (some (n, k₁)) nuset
      = rbe3Core solve grids dep ddofs dkeys ni indf ikeys (some (n, k₂)) nuset := by
  unfold rbe3Core
  simp only [h]

theorem rbe3Core_congr_R (solve : Solver α) (grids : List (GridR α)) (dep : GridR α) (ddofs dkeys : List Nat)
    {ni : Nat} (indf indf' : Fin ni → IndDof α) (ikeys : List Nat) (um : Option (Nat × List Nat)) (nuset : Nat)
    (hR : ∀ {nd : Nat} (dd : Fin nd → Fin 6),
      (rbe3Grid solve grids dep dd indf').mx = (rbe3Grid solve grids dep dd indf).mx) :
    rbe3Core solve grids dep ddofs dkeys ni indf' ikeys um nuset
      = rbe3Core solve grids dep ddofs dkeys ni indf ikeys um nuset := by
  unfold rbe3Core
  simp only [hR]

theorem rbe3Core_cast (solve : Solver α) (grids : List (GridR α)) (dep : GridR α) (ddofs dkeys : List Nat)
    {ni ni' : Nat} (e : ni' = ni) (indf : Fin ni → IndDof α) (ikeys : List Nat) (um : Option (Nat × List Nat))
    (nuset : Nat) :
    rbe3Core solve grids dep ddofs dkeys ni' (fun k => indf (Fin.cast e k)) ikeys um nuset
      = rbe3Core solve grids dep ddofs dkeys ni indf ikeys um nuset := by
  subst e; rfl

/-- without a `UM_List`: the matrix of `rbe3Grid` for the packed (sorted) independent DOF -/
theorem rbe3Core_none (solve : Solver α) (grids : List (GridR α)) (dep : GridR α) (ddofs dkeys : List Nat)
    (ni : Nat) (indf : Fin ni → IndDof α) (ikeys : List Nat) (nuset : Nat)
    (h : 0 < ni ∧ 0 < ddofs.length ∧ ddofs.all (· < 6) = true) :
    rbe3Core solve grids dep ddofs dkeys ni indf ikeys none nuset
      = some (rbe3Grid solve grids dep
          (fun i : Fin ddofs.length => (⟨ddofs[i] % 6, Nat.mod_lt _ (by decide)⟩ : Fin 6)) indf).mx.toLists := by
  unfold rbe3Core
  simp only [h, and_self, dite_true]

end core

theorem expandDof_singleton_ne_nil {g d : Nat} {l : List (Nat × Nat)} (h : expandDof [(g, d)] = some l) :
    l ≠ [] := by
  unfold expandDof at h
  split at h
  · simp only [Option.some.injEq] at h; subst h; simp
  · dsimp only at h
    split at h
    · simp only [Option.some.injEq] at h
      subst h
      simp only [List.flatMap_cons, List.flatMap_nil, List.append_nil, ne_eq, List.map_eq_nil_iff, decDigits]
      exact Nat.toDigits_ne_nil
    · cases h

/-! ### a common factor on all weights -/

section scale
open Matrix
variable {K : Type} [Field K]

/-- the least-squares step does not see a common non-zero factor on the weights -/
theorem rbe3Alg_scale {m nd : ℕ} (solve : Solver K) (hs : ExactSolve solve) (rb : Mx K m 6) (w : Fin m → K)
    (T : Mx K 6 6) (dd : Fin nd → Fin 6) (c : K) (hc : c ≠ 0)
    (hA : IsUnit (toM (fun j i => rb i j * w i : Mx K 6 m) * toM rb).det) :
    (rbe3Alg solve rb (fun i => c * w i) T dd).mx = (rbe3Alg solve rb w T dd).mx := by
  set rbw : Mx K 6 m := fun j i => rb i j * w i with hrbw
  set rbw' : Mx K 6 m := fun j i => rb i j * (c * w i) with hrbw'
  have hsm : toM rbw' = c • toM rbw := by
    funext j i; simp only [hrbw, hrbw', Matrix.smul_apply, smul_eq_mul]; ring
  have hAm : toM (Mx.mul rbw' rb) = c • toM (Mx.mul rbw rb) := by
    rw [Mx.mul_eq, Mx.mul_eq, hsm, Matrix.smul_mul]
  have hA1 : IsUnit (toM (Mx.tab (Mx.mul rbw rb)).mx).det := by rw [tab_mx, Mx.mul_eq]; exact hA
  have hA2 : IsUnit (toM (Mx.tab (Mx.mul rbw' rb)).mx).det := by
    rw [tab_mx, hAm, Matrix.det_smul]
    have : IsUnit (toM (Mx.mul rbw rb)).det := by rw [Mx.mul_eq]; exact hA
    exact (IsUnit.pow _ (isUnit_iff_ne_zero.mpr hc)).mul this
  have hX := hs (Mx.tab (Mx.mul rbw rb)) (Mx.tab rbw) hA1
  have hX' := hs (Mx.tab (Mx.mul rbw' rb)) (Mx.tab rbw') hA2
  simp only [tab_mx] at hX hX' hA1
  have hEq : toM (solve (Mx.tab (Mx.mul rbw' rb)) (Mx.tab rbw')).mx
      = toM (solve (Mx.tab (Mx.mul rbw rb)) (Mx.tab rbw)).mx := by
    apply left_cancel_of_isUnit hA1
    rw [hX]
    rw [hAm, hsm, Matrix.smul_mul] at hX'
    exact smul_right_injective _ hc hX'
  have hdef : ∀ (w : Fin m → K), (rbe3Alg solve rb w T dd).mx
      = Mx.selRows (Mx.mul T (solve (Mx.tab (Mx.mul (fun j i => rb i j * w i : Mx K 6 m) rb))
          (Mx.tab (fun j i => rb i j * w i : Mx K 6 m))).mx) dd := by
    intro w; simp only [rbe3Alg, tab_mx]
  rw [hdef, hdef]
  show Mx.selRows (Mx.mul T (solve (Mx.tab (Mx.mul rbw' rb)) (Mx.tab rbw')).mx) dd = _
  rw [show (solve (Mx.tab (Mx.mul rbw' rb)) (Mx.tab rbw')).mx
    = (solve (Mx.tab (Mx.mul rbw rb)) (Mx.tab rbw)).mx from hEq]

end scale

/-- an independent DOF with its weight multiplied by `c` -/
def IndDof.scale (c : ℝ) (d : IndDof ℝ) : IndDof ℝ := ⟨d.g, d.dof, c * d.w⟩

theorem effWt_scale (Lc : ℝ) (dof : Fin 6) (c w : ℝ) : effWt Lc dof (c * w) = c * effWt Lc dof w := by
  unfold effWt
  split
  · ring
  · rfl

/-- `formrbe3`'s matrix is unchanged when every weight is multiplied by the same `c ≠ 0` -/
theorem rbe3Grid_scale {m nd : ℕ} (solve : Solver ℝ) (hs : ExactSolve solve) (grids : List (GridR ℝ))
    (dep : GridR ℝ) (dd : Fin nd → Fin 6) (ind : Fin m → IndDof ℝ) (c : ℝ) (hc : c ≠ 0)
    (hw : ∀ k, 0 < (ind k).w) (hrank : Function.Injective (toM (indRows ind dep.p)).mulVec) :
    (rbe3Grid solve grids dep dd (fun k => (ind k).scale c)).mx = (rbe3Grid solve grids dep dd ind).mx := by
  have hA := normal_isUnit (toM (indRows ind dep.p))
    (fun k => effWt (charLen grids dep) (ind k).dof (ind k).w) (fun k => effWt_pos _ _ (hw k)) hrank
  have h := rbe3Alg_scale solve hs (indRows ind dep.p)
    (fun k => effWt (charLen grids dep) (ind k).dof (ind k).w) (gridRowsMx dep dep.p) dd c hc hA
  have e1 : rbe3Grid solve grids dep dd (fun k => (ind k).scale c) = rbe3Alg solve (indRows ind dep.p)
      (fun k => c * effWt (charLen grids dep) (ind k).dof (ind k).w) (gridRowsMx dep dep.p) dd := by
    simp only [rbe3Grid, IndDof.scale, effWt_scale]
    rfl
  rw [e1, h]
  rfl

/-! ### scaling the weights of `Ind_List` -/

theorem mapM_map_opt {β δ ε : Type} (f : β → Option δ) (h : δ → ε) :
    ∀ l : List β, l.mapM (fun x => (f x).map h) = (l.mapM f).map (List.map h) := by
  intro l
  induction l with
  | nil => rfl
  | cons b t ih =>
    rw [mapM_cons_opt, mapM_cons_opt, ih]
    cases f b with
    | none => rfl
    | some v =>
      cases t.mapM f with
      | none => rfl
      | some vs => rfl

/-- every group's weighting factor multiplied by `c` (a group without one has the default 1.0) -/
def scaleGroup (c : ℝ) (g : IndGroup ℝ) : IndGroup ℝ := ⟨g.dof, some (c * g.wt.getD 1), g.ids⟩

theorem indExpand_scale (c : ℝ) (il : List (IndGroup ℝ)) :
    indExpand (il.map (scaleGroup c)) = (indExpand il).map (List.map fun e => (e.1, c * e.2)) := by
  unfold indExpand
  rw [List.mapM_map]
  have hF : ((fun g : IndGroup ℝ => (expandDof (g.ids.map fun n => (n, g.dof))).map
        fun e => e.map fun d => (d, g.wt.getD 1)) ∘ scaleGroup c)
      = fun g => ((expandDof (g.ids.map fun n => (n, g.dof))).map
        fun e => e.map fun d => (d, g.wt.getD 1)).map (List.map fun e => (e.1, c * e.2)) := by
    funext g
    simp only [Function.comp, scaleGroup, Option.getD_some, Option.map_map]
    congr 1
    funext e
    simp [Function.comp_def]
  rw [hF, mapM_map_opt, Option.map_map, Option.map_map]
  congr 1
  funext L
  simp only [Function.comp, List.map_flatten]

theorem indRow_scale (u : UsetTab ℝ) (c : ℝ) (e : (Nat × Nat) × ℝ) (k : Nat) :
    indRow u (e.1, c * e.2) k = (indRow u e k).map fun r => (r.1, r.2.1, r.2.2.scale c) := by
  unfold indRow
  cases gridOf u e.1.1 with
  | none => rfl
  | some g =>
    simp only []
    split <;> rfl

theorem indRowsOf_scale (u : UsetTab ℝ) (c : ℝ) (il : List (IndGroup ℝ)) :
    indRowsOf u (il.map (scaleGroup c))
      = (indRowsOf u il).map (List.map fun r => (r.1, r.2.1, r.2.2.scale c)) := by
  unfold indRowsOf
  rw [indExpand_scale]
  cases indExpand il with
  | none => rfl
  | some ex =>
    simp only [Option.map_some, bind, Option.bind]
    rw [List.filterMap_map]
    have h1 : List.filterMap ((fun e : (Nat × Nat) × ℝ => (rowOf (usetDof u) e.1).map fun k => (k, e))
          ∘ fun e => (e.1, c * e.2)) ex
        = (List.filterMap (fun e : (Nat × Nat) × ℝ => (rowOf (usetDof u) e.1).map fun k => (k, e)) ex).map
          fun ke => (ke.1, (ke.2.1, c * ke.2.2)) := by
      rw [List.map_filterMap]
      congr 1
      funext e
      simp only [Function.comp, Option.map_map]
      rfl
    rw [h1, List.mapM_map, ← mapM_map_opt]
    congr 1
    funext ke
    exact indRow_scale u c ke.2 ke.1

/-- the packed input of the scaled `Ind_List`: the same, with the weights of the independent DOF scaled -/
theorem packRbe3_scale (u : UsetTab ℝ) (gdep dofdep : Nat) (il : List (IndGroup ℝ))
    (um : Option (List (Nat × Nat))) (c : ℝ) :
    packRbe3 u gdep dofdep (il.map (scaleGroup c)) um
      = (packRbe3 u gdep dofdep il um).map fun p =>
          { p with inds := p.inds.map fun e => (e.1, e.2.scale c) } := by
  unfold packRbe3
  rw [indRowsOf_scale]
  cases expandDof [(gdep, dofdep)] with
  | none => rfl
  | some ddof =>
    cases indRowsOf u il with
    | none => rfl
    | some ind =>
      cases gridOf u gdep with
      | none => rfl
      | some dep =>
        simp only [Option.map_some]
        cases umRows (usetDof u) ddof.length um with
        | none => rfl
        | some umk =>
          simp only [Option.map_some, Option.some.injEq, packWith]
          have hs := sortByRow_map (fun x : Nat × IndDof ℝ => (x.1, x.2.scale c)) ind (usetDof u).length
          have hs' : sortByRow (List.map (fun r : Nat × Nat × IndDof ℝ => (r.1, r.2.1, r.2.2.scale c)) ind)
              (usetDof u).length
              = (sortByRow ind (usetDof u).length).map fun e => (e.1, e.2.1, e.2.2.scale c) := hs
          rw [hs']
          simp only [List.map_map, Function.comp_def]

/-- `evalRbe3` does not see a common factor on the weights (positive weights, full column rank) -/
theorem evalRbe3_scale (solve : Solver ℝ) (hs : ExactSolve solve) (p : Rbe3Packed ℝ) (c : ℝ) (hc : c ≠ 0)
    (hw : ∀ k : Fin p.inds.length, 0 < (p.inds[k]).2.w)
    (hrank : Function.Injective (toM (indRows (fun k : Fin p.inds.length => (p.inds[k]).2) p.dep.p)).mulVec) :
    evalRbe3 solve { p with inds := p.inds.map fun e => (e.1, e.2.scale c) } = evalRbe3 solve p := by
  unfold evalRbe3
  simp only [List.map_map, Function.comp_def]
  have e : (p.inds.map fun e => (e.1, e.2.scale c)).length = p.inds.length := List.length_map _
  have hf : (fun k : Fin (p.inds.map fun e => (e.1, e.2.scale c)).length =>
        ((p.inds.map fun e => (e.1, e.2.scale c))[k]).2)
      = fun k => (fun k : Fin p.inds.length => ((p.inds[k]).2).scale c) (Fin.cast e k) := by
    funext k
    simp
  rw [hf]
  refine (rbe3Core_cast solve p.grids p.dep p.ddofs p.dkeys e
    (fun k : Fin p.inds.length => ((p.inds[k]).2).scale c) _ _ _).trans ?_
  apply rbe3Core_congr_R
  intro nd dd
  exact rbe3Grid_scale solve hs p.grids p.dep dd _ c hc hw hrank

/-- **`formrbe3` is invariant under a common factor on all weights** -/
theorem formrbe3W_scale (solve : Solver ℝ) (hs : ExactSolve solve) (u : UsetTab ℝ) (gdep dofdep : Nat)
    (il : List (IndGroup ℝ)) (um : Option (List (Nat × Nat))) (c : ℝ) (hc : c ≠ 0) {p : Rbe3Packed ℝ}
    (hp : packRbe3 u gdep dofdep il um = some p)
    (hw : ∀ k : Fin p.inds.length, 0 < (p.inds[k]).2.w)
    (hrank : Function.Injective (toM (indRows (fun k : Fin p.inds.length => (p.inds[k]).2) p.dep.p)).mulVec) :
    formrbe3W solve u gdep dofdep (il.map (scaleGroup c)) um = formrbe3W solve u gdep dofdep il um := by
  unfold formrbe3W
  rw [packRbe3_scale, hp]
  simp only [Option.map_some, Option.bind_some]
  exact evalRbe3_scale solve hs p c hc hw hrank

/-! ### reordering the groups of `Ind_List`, reordering `UM_List`, explicit form -/

theorem mapM_perm {β δ : Type} {f : β → Option δ} {l₁ l₂ : List β} (hp : l₁.Perm l₂) :
    ∀ {r₁ : List δ}, l₁.mapM f = some r₁ → ∃ r₂, l₂.mapM f = some r₂ ∧ r₁.Perm r₂ := by
  induction hp with
  | nil => intro r h; exact ⟨r, h, List.Perm.refl _⟩
  | cons x _ ih =>
    intro r h
    rw [mapM_cons_opt] at h ⊢
    cases hx : f x with
    | none => simp [hx] at h
    | some v =>
      rename_i t₁ t₂ _
      cases ht : t₁.mapM f with
      | none => simp [hx, ht] at h
      | some vs =>
        simp only [hx, ht, Option.bind_some, Option.some.injEq] at h
        subst h
        obtain ⟨r₂, h₂, p₂⟩ := ih ht
        exact ⟨v :: r₂, by simp [h₂], p₂.cons v⟩
  | swap x y l =>
    intro r h
    rw [mapM_cons_opt, mapM_cons_opt] at h
    rw [mapM_cons_opt, mapM_cons_opt]
    cases hy : f y with
    | none => simp [hy] at h
    | some vy =>
      cases hx : f x with
      | none => simp [hy, hx] at h
      | some vx =>
        cases hl : l.mapM f with
        | none => simp [hy, hx, hl] at h
        | some vs =>
          simp only [hy, hx, hl, Option.bind_some, Option.some.injEq] at h
          subst h
          exact ⟨vx :: vy :: vs, by simp, List.Perm.swap _ _ _⟩
  | trans _ _ ih1 ih2 =>
    intro r h
    obtain ⟨r2, h2, p2⟩ := ih1 h
    obtain ⟨r3, h3, p3⟩ := ih2 h2
    exact ⟨r3, h3, p2.trans p3⟩

/-- reordering the `DOF_Ind, GRIDS_Ind` pairs of `Ind_List` permutes the list of independent DOF -/
theorem indRowsOf_perm {u : UsetTab ℝ} {il₁ il₂ : List (IndGroup ℝ)} (hp : il₁.Perm il₂)
    {a : List (Nat × Nat × IndDof ℝ)} (h : indRowsOf u il₁ = some a) :
    ∃ b, indRowsOf u il₂ = some b ∧ a.Perm b := by
  unfold indRowsOf at h ⊢
  unfold indExpand at h ⊢
  cases h1 : il₁.mapM (fun g : IndGroup ℝ =>
      (expandDof (g.ids.map fun n => (n, g.dof))).map fun e => e.map fun d => (d, g.wt.getD 1)) with
  | none => simp [h1, bind, Option.bind] at h
  | some L₁ =>
    obtain ⟨L₂, h2, pL⟩ := mapM_perm hp h1
    simp only [h1, h2, Option.map_some, bind, Option.bind] at h ⊢
    exact mapM_perm ((pL.flatten).filterMap _) h

theorem packRbe3_some {α : Type} [OfNat α 1] {u : UsetTab α} {gdep dofdep : Nat} {il : List (IndGroup α)}
    {um : Option (List (Nat × Nat))} {p : Rbe3Packed α} (hp : packRbe3 u gdep dofdep il um = some p) :
    ∃ ddof ind dep umk, expandDof [(gdep, dofdep)] = some ddof ∧ indRowsOf u il = some ind ∧
      gridOf u gdep = some dep ∧ umRows (usetDof u) ddof.length um = some umk ∧
      p = packWith u gdep ddof ind umk dep := by
  unfold packRbe3 at hp
  cases h1 : expandDof [(gdep, dofdep)] with
  | none => simp [h1] at hp
  | some ddof =>
    cases h2 : indRowsOf u il with
    | none => simp [h1, h2] at hp
    | some ind =>
      cases h3 : gridOf u gdep with
      | none => simp [h1, h2, h3] at hp
      | some dep =>
        simp only [h1, h2, h3] at hp
        cases h4 : umRows (usetDof u) ddof.length um with
        | none => simp [h4] at hp
        | some umk =>
          simp only [h4, Option.some.injEq] at hp
          exact ⟨ddof, ind, dep, umk, rfl, rfl, rfl, h4, hp.symm⟩

section
variable {α : Type} [Add α] [Sub α] [Mul α] [Div α] [Neg α] [OfNat α 0] [OfNat α 1] [OfNat α 180]
  [TransOps α] [LT α] [∀ a b : α, Decidable (a < b)]

/-- the order in which `UM_List` names the m-set DOF is irrelevant -/
theorem formrbe3W_um_order (solve : Solver α) (u : UsetTab α) (gdep dofdep : Nat) (il : List (IndGroup α))
    (l₁ l₂ : List (Nat × Nat)) {m₁ m₂ : List (Nat × Nat)} (h₁ : expandDof l₁ = some m₁)
    (h₂ : expandDof l₂ = some m₂) (hp : m₁.Perm m₂) :
    formrbe3W solve u gdep dofdep il (some l₁) = formrbe3W solve u gdep dofdep il (some l₂) := by
  unfold formrbe3W packRbe3
  cases expandDof [(gdep, dofdep)] with
  | none => rfl
  | some ddof =>
    cases indRowsOf u il with
    | none => rfl
    | some ind =>
      cases gridOf u gdep with
      | none => rfl
      | some dep =>
        simp only [umRows, h₁, h₂, hp.length_eq]
        by_cases hl : (m₂.length != ddof.length) = true
        · simp [hl]
        · simp only [hl, Bool.false_eq_true, if_false, Option.bind_some]
          unfold evalRbe3 packWith
          apply rbe3Core_um_congr
          apply sortRows_eq_of_mem_iff
          intro k
          exact (hp.filterMap _).mem_iff

/-- **`formrbe3` without `UM_List` is `rbe3Grid` on the sorted lists**: the dependent rows follow the digits of
`DOF_dep`, the columns are the independent DOF in uset-row order (strictly increasing rows), which is the list
named by `Ind_List` reduced to the rows of the table and sorted -/
theorem formrbe3W_none_eq (solve : Solver α) {u : UsetTab α} {gdep dofdep : Nat} {il : List (IndGroup α)}
    {p : Rbe3Packed α} (hp : packRbe3 u gdep dofdep il none = some p) (hni : 0 < p.inds.length) :
    (p.inds.Pairwise fun a b => a.1 < b.1) ∧
    (∃ a, indRowsOf u il = some a ∧
      p.inds = (sortByRow a (usetDof u).length).map fun e => (e.1, e.2.2)) ∧
    formrbe3W solve u gdep dofdep il none
      = some (rbe3Grid solve p.grids p.dep
          (fun i : Fin p.ddofs.length => (⟨p.ddofs[i] % 6, Nat.mod_lt _ (by decide)⟩ : Fin 6))
          (fun k : Fin p.inds.length => (p.inds[k]).2)).mx.toLists := by
  obtain ⟨ddof, ind, dep, umk, h1, h2, h3, h4, rfl⟩ := packRbe3_some hp
  simp only [umRows, Option.some.injEq] at h4
  subst h4
  refine ⟨?_, ⟨ind, h2, rfl⟩, ?_⟩
  · simp only [packWith]
    rw [List.pairwise_map]
    exact sortByRow_sorted ind _
  · unfold formrbe3W
    rw [hp, Option.bind_some]
    unfold evalRbe3
    apply rbe3Core_none
    refine ⟨hni, ?_, ?_⟩
    · simp only [packWith, List.length_map]
      exact List.length_pos_of_ne_nil (expandDof_singleton_ne_nil h1)
    · simp only [packWith, List.all_map, List.all_eq_true, Function.comp, decide_eq_true_eq]
      intro d _
      exact Nat.mod_lt _ (by decide)

end

end PyYetiVerif.Coord
