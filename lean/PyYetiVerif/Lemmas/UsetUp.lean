import PyYetiVerif.Model.UsetUp
import PyYetiVerif.Lemmas.Uset
import Mathlib.Data.List.Nodup
/-!
Lemmas for `upasetpv` / `upqsetpv` (`Model/UsetUp.lean`): positions of a mask, index assignment
(`scatter`), the monadic loop over the upstream superelements.
-/
namespace PyYetiVerif.Uset
open PyYetiVerif.Locate (normIndex)

/-- `mask.nonzero()[0]`: exactly the `True` positions … -/
theorem mem_positions {mask : List Bool} {i : Nat} : i ∈ positions mask ↔ mask[i]? = some true := by
  unfold positions
  simp only [List.mem_map, List.mem_filter, Prod.exists]
  constructor
  · rintro ⟨b, j, ⟨hm, hb⟩, rfl⟩
    have := List.mem_zipIdx_iff_getElem?.mp hm
    simp only at hb this
    rw [hb] at this; simpa using this
  · intro h
    exact ⟨true, i, ⟨List.mem_zipIdx_iff_getElem?.mpr (by simpa using h), rfl⟩, rfl⟩

/-- … in ascending order -/
theorem positions_sorted (mask : List Bool) : (positions mask).Pairwise (· < ·) := by
  unfold positions
  have hsub : ((mask.zipIdx.filter (·.1)).map (·.2)).Sublist (mask.zipIdx.map (·.2)) :=
    List.Sublist.map _ List.filter_sublist
  refine List.Pairwise.sublist hsub ?_
  rw [List.zipIdx_map_snd]
  exact List.pairwise_lt_range'

theorem zipIdx_filter_length : ∀ (mask : List Bool) (k : Nat),
    ((mask.zipIdx k).filter (·.1)).length = mask.count true
  | [], _ => rfl
  | b :: t, k => by
      rw [List.zipIdx_cons, List.filter_cons, List.count_cons]
      cases b
      · simpa using zipIdx_filter_length t (k + 1)
      · simpa using zipIdx_filter_length t (k + 1)

theorem positions_length (mask : List Bool) : (positions mask).length = mask.count true := by
  unfold positions
  rw [List.length_map, zipIdx_filter_length]

theorem idMask_length (tbl : List Row) (ids : List Nat) : (idMask tbl ids).length = tbl.length := by
  simp [idMask]

theorem idMask_get {tbl : List Row} {ids : List Nat} {i : Nat} :
    (idMask tbl ids)[i]? = some true ↔ ∃ r, tbl[i]? = some r ∧ r.1 ∈ ids := by
  unfold idMask
  rw [List.getElem?_map]
  cases h : tbl[i]? with
  | none => simp
  | some r => simp

/-- `upMask`: a mask over the downstream table, marking the rows whose id is in a set `S` of ids:
`S = dnids` when those rows are at least as many as `dnids` has entries, otherwise the nodes of the
downstream table whose `upids` entry is one of `dnids`; never fewer rows than `dnids` entries. -/
theorem upMask_spec {nas : Nas} {sedn : Nat} {usetdn : List Row} {dnids : List Nat}
    {mask : List Bool} (h : upMask nas sedn usetdn dnids = .ok mask) :
    dnids.length ≤ mask.count true ∧
    ((mask = idMask usetdn dnids) ∨
     (∃ upids, lookupD nas.upids sedn = .ok upids ∧ upids.length = (nodeIds usetdn).length ∧
        (idMask usetdn dnids).count true < dnids.length ∧
        mask = idMask usetdn ((((nodeIds usetdn).zip upids).filter
          fun p => (dnids.map Int.ofNat).contains p.2).map (·.1)))) := by
  unfold upMask at h
  simp only at h
  split at h
  · rename_i hlt
    cases hu : lookupD nas.upids sedn with
    | error e => rw [hu] at h; cases h
    | ok upids =>
        rw [hu] at h
        simp only [bind, Except.bind] at h
        split at h
        · split at h <;> cases h
        · rename_i hlen
          split at h
          · cases h
          · rename_i hcnt
            cases h
            exact ⟨by omega, Or.inr ⟨upids, rfl, by simpa using hlen, hlt, rfl⟩⟩
  · rename_i hge
    cases h
    exact ⟨by omega, Or.inl rfl⟩

/-- `x[idx]`: entry by entry, with wrap-around of negative indices -/
theorem take_spec {β : Type} {x : List β} {idx : List Int} {out : List β}
    (h : take x idx = .ok out) :
    List.Forall₂ (fun i p => ∃ j, normIndex x.length i = some j ∧ x[j]? = some p) idx out := by
  unfold take at h
  cases hm : idx.mapM (fun i => (normIndex x.length i).bind (x[·]?)) with
  | none => rw [hm] at h; cases h
  | some l =>
      rw [hm] at h
      have := (PyYetiVerif.Locate.mapM_option _ idx).2 l hm
      cases h
      refine this.imp ?_
      intro i p hp
      cases hn : normIndex x.length i with
      | none => rw [hn] at hp; cases hp
      | some j => rw [hn] at hp; exact ⟨j, rfl, hp⟩

theorem applyMaps_spec {base : List Nat} {maps : List (Int × Int)} {pv : List Nat}
    (h : applyMaps base maps = .ok pv) :
    (maps = [] → pv = base) ∧
    (maps ≠ [] → (∀ m ∈ maps, m.2 = 1) ∧
      List.Forall₂ (fun m p => ∃ j, normIndex base.length m.1 = some j ∧ base[j]? = some p)
        maps pv) := by
  unfold applyMaps at h
  split at h
  · rename_i he
    cases h
    exact ⟨fun _ => rfl, fun hne => absurd he hne⟩
  · rename_i hne
    split at h
    · cases h
    · rename_i hall
      refine ⟨fun he => absurd he hne, fun _ => ⟨?_, ?_⟩⟩
      · intro m hm
        by_contra hc
        exact hall (List.any_eq_true.mpr ⟨m, hm, by simpa using hc⟩)
      · have := take_spec h
        rw [List.forall₂_map_left_iff] at this
        exact this

theorem zip_filter_map {β γ : Type} (f : β → γ) (g : β → Bool) : ∀ (l : List β),
    ((l.map f).zip (l.map g)).filter (·.2) = (l.filter g).map (fun r => (f r, true))
  | [] => rfl
  | a :: t => by
      simp only [List.map_cons, List.zip_cons_cons, List.filter_cons]
      by_cases ha : g a = true
      · simp only [ha, if_true, List.map_cons]; rw [zip_filter_map f g t]
      · simp only [ha]; exact zip_filter_map f g t

/-! ### index assignment -/

theorem scatter_length : ∀ (idx : List Nat) (vals : List Bool) (pv : List Bool),
    (scatter pv idx vals).length = pv.length
  | [], _, _ => by simp [scatter]
  | _ :: _, [], _ => by simp [scatter]
  | i :: is, v :: vs, pv => by
      have := scatter_length is vs (pv.set i v)
      unfold scatter at this ⊢
      simpa using this

theorem scatter_cons (pv : List Bool) (i : Nat) (is : List Nat) (v : Bool) (vs : List Bool) :
    scatter pv (i :: is) (v :: vs) = scatter (pv.set i v) is vs := by
  simp [scatter]

/-- places that are not assigned keep their value -/
theorem scatter_other : ∀ (idx : List Nat) (vals : List Bool) (pv : List Bool) (j : Nat),
    j ∉ idx → (scatter pv idx vals)[j]? = pv[j]?
  | [], _, _, _, _ => by simp [scatter]
  | _ :: _, [], _, _, _ => by simp [scatter]
  | i :: is, v :: vs, pv, j, hj => by
      rw [scatter_cons, scatter_other is vs _ j (fun h => hj (List.mem_cons_of_mem _ h))]
      have : i ≠ j := fun h => hj (h ▸ List.mem_cons_self)
      rw [List.getElem?_set_ne this]

/-- with distinct places inside the vector, place `idx[k]` receives `vals[k]` -/
theorem scatter_at : ∀ (idx : List Nat) (vals : List Bool) (pv : List Bool),
    idx.Nodup → idx.length = vals.length → (∀ i ∈ idx, i < pv.length) →
    List.Forall₂ (fun i v => (scatter pv idx vals)[i]? = some v) idx vals
  | [], [], _, _, _, _ => List.Forall₂.nil
  | i :: is, v :: vs, pv, hnd, hl, hb => by
      rw [List.nodup_cons] at hnd
      have hrest := scatter_at is vs (pv.set i v) hnd.2 (by simpa using hl)
        (by intro k hk; rw [List.length_set]; exact hb k (List.mem_cons_of_mem _ hk))
      refine List.Forall₂.cons ?_ ?_
      · rw [scatter_cons, scatter_other is vs _ i hnd.1]
        rw [List.getElem?_set_self (hb i List.mem_cons_self)]
      · rw [scatter_cons]; exact hrest

/-! ### the loop over the upstream superelements -/

theorem bcast_length {vals out : List Bool} {n : Nat} (h : bcast vals n = .ok out) : out.length = n := by
  unfold bcast at h
  split at h
  · cases h; assumption
  · split at h
    · cases h; simp
    · cases h

theorem upqWrite_length {nas : Nas} {sedn : Nat} {usetdn : List Row} {pv qup out : List Bool}
    {dnids : List Nat} {maps : List (Int × Int)}
    (h : upqWrite nas sedn usetdn pv qup dnids maps = .ok out) : out.length = pv.length := by
  unfold upqWrite at h
  cases hm : upMask nas sedn usetdn dnids with
  | error e => rw [hm] at h; cases h
  | ok m =>
      rw [hm] at h
      simp only [bind, Except.bind] at h
      split at h
      · cases hb : bcast qup (positions m).length with
        | error e => rw [hb] at h; cases h
        | ok v => rw [hb] at h; cases h; exact scatter_length _ _ _
      · split at h
        · cases h
        · split at h
          · cases ht : take (positions m) (maps.map (·.1)) with
            | error e => rw [ht] at h; cases h
            | ok idx =>
                rw [ht] at h
                simp only at h
                cases hb : bcast qup idx.length with
                | error e => rw [hb] at h; cases h
                | ok v => rw [hb] at h; cases h; exact scatter_length _ _ _
          · split at h
            · cases hb : bcast qup (positions m).length with
              | error e => rw [hb] at h; cases h
              | ok v => rw [hb] at h; cases h; exact scatter_length _ _ _
            · cases h

theorem foldlM_length {γ : Type} (f : List Bool → γ → Except Err (List Bool))
    (hf : ∀ pv x out, f pv x = .ok out → out.length = pv.length) :
    ∀ (l : List γ) (init out : List Bool), l.foldlM f init = .ok out → out.length = init.length
  | [], init, out, h => by simp [List.foldlM, pure, Except.pure] at h; rw [h]
  | x :: t, init, out, h => by
      rw [List.foldlM_cons] at h
      cases hx : f init x with
      | error e => rw [hx] at h; cases h
      | ok pv' =>
          rw [hx] at h
          have := foldlM_length f hf t pv' out h
          rw [this, hf init x pv' hx]

theorem upqStep_length {amask qmask pmask : Nat} {nas : Nas} {rec : Nat → Except Err (List Bool)}
    {sedn : Nat} {usetdn : List Row} (pv : List Bool) (seup : Nat) (out : List Bool)
    (h : upqStep amask qmask pmask nas rec sedn usetdn pv seup = .ok out) :
    out.length = pv.length := by
  unfold upqStep at h
  split at h
  · cases h; rfl
  · cases h1 : lookupD nas.uset seup with
    | error e => rw [h1] at h; cases h
    | ok usetup =>
      cases h2 : lookupD nas.dnids seup with
      | error e => rw [h1, h2] at h; cases h
      | ok dnids =>
        cases h3 : lookupD nas.maps seup with
        | error e => rw [h1, h2, h3] at h; cases h
        | ok maps =>
          cases h4 : upqQup amask qmask pmask nas rec seup usetup with
          | error e => rw [h1, h2, h3] at h; simp only [bind, Except.bind, h4] at h; cases h
          | ok qup =>
            rw [h1, h2, h3] at h
            simp only [bind, Except.bind, h4] at h
            split at h
            · exact upqWrite_length h
            · cases h; rfl

/-- `upqsetpv` returns one flag per row of the downstream table -/
theorem upqsetpv_length' {amask qmask pmask : Nat} {nas : Nas} {fuel sedn : Nat} {out : List Bool}
    (h : upqsetpv amask qmask pmask nas fuel sedn = .ok out) :
    ∃ usetdn, lookupD nas.uset sedn = .ok usetdn ∧ out.length = usetdn.length := by
  cases fuel with
  | zero => cases h
  | succ f =>
      unfold upqsetpv at h
      simp only at h
      split at h
      · cases h
      · cases hu : lookupD nas.uset sedn with
        | error e => rw [hu] at h; cases h
        | ok usetdn =>
            rw [hu] at h
            simp only [bind, Except.bind] at h
            refine ⟨usetdn, rfl, ?_⟩
            have := foldlM_length _ (fun pv x out hx => upqStep_length pv x out hx) _ _ _ h
            rw [this, List.length_replicate]

/-- the rows of `selist` that name `sedn` as its own downstream (the residual's row `[0, 0]`) are
skipped -/
theorem foldlM_upqStep_skip {amask qmask pmask : Nat} {nas : Nas} {rec : Nat → Except Err (List Bool)}
    {sedn : Nat} {usetdn : List Row} : ∀ (l : List Nat) (init : List Bool),
    l.foldlM (upqStep amask qmask pmask nas rec sedn usetdn) init =
      (l.filter (fun s => decide (s ≠ sedn))).foldlM (upqStep amask qmask pmask nas rec sedn usetdn) init
  | [], _ => rfl
  | x :: t, init => by
      by_cases hx : x = sedn
      · have h1 : upqStep amask qmask pmask nas rec sedn usetdn init x = pure init := by
          unfold upqStep; rw [if_pos hx]
        rw [List.foldlM_cons, h1, List.filter_cons]
        simp only [hx, ne_eq, not_true_eq_false, decide_false, Bool.false_eq_true, if_false]
        exact foldlM_upqStep_skip t init
      · rw [List.filter_cons]
        simp only [ne_eq, hx, not_false_eq_true, decide_true, if_true, List.foldlM_cons]
        congr 1
        funext pv
        exact foldlM_upqStep_skip t pv

/-- one upstream SE without upstream SEs of its own and without a reordering map: the rows of
its boundary receive, in table order, its q-set flags; every other row stays `False`. -/
theorem upqsetpv_one {amask qmask pmask : Nat} {nas : Nas} {fuel sedn seup : Nat}
    {usetdn usetup : List Row} {dnids : List Nat} {qup m : List Bool}
    (hups : ((nas.selist.filter fun r => r.2 = sedn).map (·.1)).filter (fun s => decide (s ≠ sedn))
      = [seup]) (hne : seup ≠ sedn)
    (hleaf : nas.selist.any (fun r => r.2 = seup) = false)
    (h1 : lookupD nas.uset sedn = .ok usetdn) (h2 : lookupD nas.uset seup = .ok usetup)
    (h3 : lookupD nas.dnids seup = .ok dnids) (h4 : lookupD nas.maps seup = .ok [])
    (h5 : qupOwn amask qmask pmask usetup = .ok qup) (h6 : upMask nas sedn usetdn dnids = .ok m)
    (h7 : qup.length = (positions m).length) (hm : m.length = usetdn.length) :
    ∃ out, upqsetpv amask qmask pmask nas (fuel + 1) sedn = .ok out ∧ out.length = usetdn.length ∧
      (qup.any id = false → out = List.replicate usetdn.length false) ∧
      (qup.any id = true →
        List.Forall₂ (fun i v => out[i]? = some v) (positions m) qup ∧
        ∀ j, j ∉ positions m → j < usetdn.length → out[j]? = some false) := by
  have hq : upqQup amask qmask pmask nas (upqsetpv amask qmask pmask nas fuel) seup usetup
      = .ok qup := by
    unfold upqQup
    rw [h5]
    simp only [bind, Except.bind, hleaf, Bool.false_eq_true, if_false]
    rfl
  have hstep : ∀ pv, upqStep amask qmask pmask nas (upqsetpv amask qmask pmask nas fuel) sedn usetdn
      pv seup = if qup.any id then .ok (scatter pv (positions m) qup) else .ok pv := by
    intro pv
    unfold upqStep
    rw [if_neg hne, h2, h3, h4]
    simp only [bind, Except.bind, hq]
    split
    · unfold upqWrite
      rw [h6]
      simp only [bind, Except.bind, if_true]
      unfold bcast
      rw [if_pos h7]
    · rfl
  have hrun : upqsetpv amask qmask pmask nas (fuel + 1) sedn =
      if qup.any id then .ok (scatter (List.replicate usetdn.length false) (positions m) qup)
      else .ok (List.replicate usetdn.length false) := by
    unfold upqsetpv
    simp only
    rw [if_neg (by intro h0; rw [h0] at hups; cases hups), h1]
    simp only [bind, Except.bind]
    rw [foldlM_upqStep_skip, hups]
    simp only [bind, Except.bind, List.foldlM_cons, List.foldlM_nil, hstep]
    by_cases ha : qup.any id = true
    · simp only [ha, if_true]; rfl
    · simp [ha]; rfl
  rw [hrun]
  by_cases ha : qup.any id = true
  · rw [if_pos ha]
    refine ⟨_, rfl, by rw [scatter_length, List.length_replicate],
      ⟨fun hf => (by rw [ha] at hf; cases hf), fun _ => ⟨?_, ?_⟩⟩⟩
    · apply scatter_at
      · exact (positions_sorted m).imp (fun h => Nat.ne_of_lt h)
      · exact h7.symm
      · intro i hi
        rw [List.length_replicate, ← hm]
        exact (List.getElem?_eq_some_iff.mp (mem_positions.mp hi)).1
    · intro j hj hlt
      rw [scatter_other _ _ _ j hj]
      simp [hlt]
  · rw [if_neg ha]
    exact ⟨_, rfl, by simp, ⟨fun _ => rfl, fun ht => absurd ht ha⟩⟩

end PyYetiVerif.Uset
