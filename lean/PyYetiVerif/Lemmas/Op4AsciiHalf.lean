import PyYetiVerif.Lemmas.Op4AsciiCol
import Mathlib.Algebra.Order.Field.Rat
import Mathlib.Algebra.Order.Field.Basic
import Mathlib.Algebra.Order.Ring.Abs
import Mathlib.Tactic.FieldSimp
import Mathlib.Tactic.Positivity
/-! "To the requested number of digits": the decimal printed by `%E` (and read back by the ASCII
reader) differs from the exact value of the double by at most half a unit of the last printed digit. -/
namespace PyYetiVerif.Op4A
open PyYetiVerif.Op4

/-- the rational number a decimal denotes -/
def Dec10.toRat (x : Dec10) : ℚ := (if x.neg then -1 else 1) * (x.man : ℚ) * (10 : ℚ) ^ x.exp

/-- the exact value of the finite double with bit pattern `b`: `(-1)^s · m · 2^e2` -/
def bitsVal (b : Nat) : ℚ :=
  (if b / 9223372036854775808 % 2 == 1 then -1 else 1) *
    ((if (b / 4503599627370496) % 2048 = 0 then b % 4503599627370496
      else b % 4503599627370496 + 4503599627370496 : Nat) : ℚ) *
    (2 : ℚ) ^ (if (b / 4503599627370496) % 2048 = 0 then (-1074 : Int) else (((b / 4503599627370496) % 2048 : Nat) : Int) - 1075)

/-- round-half-even of an exact fraction is within one half of it -/
theorem roundHalfEven_err (n d : Nat) (hd : 0 < d) : |((roundHalfEven n d : Nat) : ℚ) - (n : ℚ) / (d : ℚ)| ≤ 1 / 2 := by
  have hdq : (0 : ℚ) < (d : ℚ) := by exact_mod_cast hd
  have hdiv : (n : ℚ) / (d : ℚ) = ((n / d : Nat) : ℚ) + ((n % d : Nat) : ℚ) / (d : ℚ) := by
    have h := Nat.div_add_mod n d
    have hq : (n : ℚ) = (d : ℚ) * ((n / d : Nat) : ℚ) + ((n % d : Nat) : ℚ) := by exact_mod_cast h.symm
    rw [hq]; field_simp
  have hr : n % d < d := Nat.mod_lt n hd
  set q := n / d with hq
  set r := n % d with hr'
  have hrq : ((r : Nat) : ℚ) < (d : ℚ) := by exact_mod_cast hr
  have hr0 : (0 : ℚ) ≤ ((r : Nat) : ℚ) := by positivity
  rw [hdiv, abs_le]
  unfold roundHalfEven
  simp only [← hq, ← hr']
  by_cases h1 : 2 * r < d
  · rw [if_pos h1]
    have h1q : 2 * (r : ℚ) < (d : ℚ) := by exact_mod_cast h1
    have hx : (r : ℚ) / (d : ℚ) < 1 / 2 := by rw [div_lt_iff₀ hdq]; linarith
    have hx0 : 0 ≤ (r : ℚ) / (d : ℚ) := by positivity
    constructor <;> linarith
  · rw [if_neg h1]
    by_cases h2 : 2 * r > d
    · rw [if_pos h2]
      have h2q : (d : ℚ) < 2 * (r : ℚ) := by exact_mod_cast h2
      have hx : 1 / 2 < (r : ℚ) / (d : ℚ) := by rw [lt_div_iff₀ hdq]; linarith
      have hx1 : (r : ℚ) / (d : ℚ) < 1 := by rw [div_lt_one hdq]; exact hrq
      push_cast
      constructor <;> linarith
    · rw [if_neg h2]
      have heq : 2 * r = d := by omega
      have heqq : 2 * (r : ℚ) = (d : ℚ) := by exact_mod_cast heq
      have hx : (r : ℚ) / (d : ℚ) = 1 / 2 := by rw [div_eq_iff (ne_of_gt hdq)]; linarith
      split
      · constructor <;> linarith
      · push_cast; constructor <;> linarith

/-- the scientific form of a positive fraction is within half a unit of its last digit -/
theorem sciPos_err (d num den : Nat) (hden : 0 < den) :
    |((sciPos d num den).1 : ℚ) * (10 : ℚ) ^ ((sciPos d num den).2 - (d : Int)) - (num : ℚ) / (den : ℚ)|
      ≤ 1 / 2 * (10 : ℚ) ^ ((sciPos d num den).2 - (d : Int)) := by
  unfold sciPos
  simp only
  generalize expIndex num den = k
  -- the scaled fraction
  have hdenq : (0 : ℚ) < (den : ℚ) := by exact_mod_cast hden
  have h10 : (10 : ℚ) ≠ 0 := by norm_num
  obtain ⟨n', d', hd', hscale⟩ : ∃ n' d' : Nat, 0 < d' ∧
      ((if d + 400 ≥ k then num * 10 ^ (d + 400 - k) else num) = n' ∧
       (if d + 400 ≥ k then den else den * 10 ^ (k - 400 - d)) = d' ∧
       (num : ℚ) / (den : ℚ) = (n' : ℚ) / (d' : ℚ) * (10 : ℚ) ^ ((k : Int) - 400 - (d : Int))) := by
    by_cases hA : d + 400 ≥ k
    · refine ⟨num * 10 ^ (d + 400 - k), den, hden, by simp [hA], by simp [hA], ?_⟩
      have : ((k : Int) - 400 - (d : Int)) = -((d + 400 - k : Nat) : Int) := by omega
      rw [this, zpow_neg, zpow_natCast]
      push_cast
      field_simp
    · refine ⟨num, den * 10 ^ (k - 400 - d), Nat.mul_pos hden (by positivity), by simp [hA], by simp [hA], ?_⟩
      have : ((k : Int) - 400 - (d : Int)) = ((k - 400 - d : Nat) : Int) := by omega
      rw [this, zpow_natCast]
      push_cast
      field_simp
  obtain ⟨hn', hd'', hx⟩ := hscale
  rw [hn', hd'']
  have herr := roundHalfEven_err n' d' hd'
  set M0 := roundHalfEven n' d' with hM0
  set s : Int := (k : Int) - 400 - (d : Int) with hs
  have hpos : (0 : ℚ) < (10 : ℚ) ^ s := zpow_pos (by norm_num) s
  have hmain : |(M0 : ℚ) * (10 : ℚ) ^ s - (num : ℚ) / (den : ℚ)| ≤ 1 / 2 * (10 : ℚ) ^ s := by
    rw [hx, ← sub_mul, abs_mul, abs_of_pos hpos]
    exact mul_le_mul_of_nonneg_right herr (le_of_lt hpos)
  by_cases hM : M0 = 10 ^ (d + 1)
  · rw [if_pos hM]
    simp only
    have he : ((k : Int) - 400 + 1 - (d : Int)) = s + 1 := by omega
    rw [he, zpow_add₀ h10, zpow_one]
    have hval : ((10 ^ d : Nat) : ℚ) * ((10 : ℚ) ^ s * 10) = (M0 : ℚ) * (10 : ℚ) ^ s := by
      rw [hM]; push_cast; ring
    rw [hval]
    calc |(M0 : ℚ) * (10 : ℚ) ^ s - (num : ℚ) / (den : ℚ)| ≤ 1 / 2 * (10 : ℚ) ^ s := hmain
      _ ≤ 1 / 2 * ((10 : ℚ) ^ s * 10) := by nlinarith
  · rw [if_neg hM]
    exact hmain

/-- the mantissa/exponent pair printed for `±m·2^e2` -/
theorem sciOf_err (d : Nat) (neg : Bool) (m : Nat) (e2 : Int) :
    |Dec10.toRat (sciDec d (sciOf d neg m e2)) - (if neg then -1 else 1) * (m : ℚ) * (2 : ℚ) ^ e2|
      ≤ 1 / 2 * (10 : ℚ) ^ ((sciOf d neg m e2).e10 - (d : Int)) := by
  unfold sciOf
  by_cases h0 : m = 0
  · simp only [h0, if_true, sciDec, Dec10.toRat]
    simp
  · simp only [h0, if_false, sciDec, Dec10.toRat]
    have h2 : (2 : ℚ) ≠ 0 := by norm_num
    have hden : 0 < (if e2 ≥ 0 then 1 else 2 ^ (-e2).toNat) := by split <;> positivity
    have hval : ((if e2 ≥ 0 then m * 2 ^ e2.toNat else m : Nat) : ℚ) / ((if e2 ≥ 0 then 1 else 2 ^ (-e2).toNat : Nat) : ℚ)
        = (m : ℚ) * (2 : ℚ) ^ e2 := by
      by_cases he : e2 ≥ 0
      · obtain ⟨j, rfl⟩ : ∃ j : Nat, e2 = (j : Int) := ⟨e2.toNat, by omega⟩
        simp only [he, if_true, Int.toNat_natCast, zpow_natCast]
        push_cast; simp
      · obtain ⟨j, rfl⟩ : ∃ j : Nat, e2 = -(j : Int) := ⟨(-e2).toNat, by omega⟩
        simp only [he, if_false, neg_neg, Int.toNat_natCast, zpow_neg, zpow_natCast]
        push_cast
        field_simp
    have herr := sciPos_err d (if e2 ≥ 0 then m * 2 ^ e2.toNat else m) (if e2 ≥ 0 then 1 else 2 ^ (-e2).toNat) hden
    rw [hval] at herr
    set M := (sciPos d (if e2 ≥ 0 then m * 2 ^ e2.toNat else m) (if e2 ≥ 0 then 1 else 2 ^ (-e2).toNat)).1
    set e := (sciPos d (if e2 ≥ 0 then m * 2 ^ e2.toNat else m) (if e2 ≥ 0 then 1 else 2 ^ (-e2).toNat)).2
    cases neg
    · simpa using herr
    · simp only [if_true]
      have : (-1 : ℚ) * (M : ℚ) * (10 : ℚ) ^ (e - (d : Int)) - -1 * (m : ℚ) * (2 : ℚ) ^ e2
          = -((M : ℚ) * (10 : ℚ) ^ (e - (d : Int)) - (m : ℚ) * (2 : ℚ) ^ e2) := by ring
      rw [this, abs_neg]
      exact herr

/-- **half a unit of the last digit**: the decimal printed for (and read back from) a double with
`d` digits after the point is within `½·10^(e10 - d)` of the exact value of the double -/
theorem decOf0_err (d b : Nat) :
    |Dec10.toRat (decOf0 d b) - bitsVal b| ≤ 1 / 2 * (10 : ℚ) ^ ((sci d b).e10 - (d : Int)) := by
  unfold decOf0 sci bitsVal
  simp only
  have := sciOf_err d (b / 9223372036854775808 % 2 == 1)
    (if (b / 4503599627370496) % 2048 = 0 then b % 4503599627370496 else b % 4503599627370496 + 4503599627370496)
    (if (b / 4503599627370496) % 2048 = 0 then (-1074 : Int) else (((b / 4503599627370496) % 2048 : Nat) : Int) - 1075)
  exact this

/-- half a unit of the last printed digit: the `d`-th after the point, the `(d-1)`-th for a `Wide` value -/
theorem decOf_err (d b : Nat) :
    (Wide d b = false → |Dec10.toRat (decOf d b) - bitsVal b| ≤ 1 / 2 * (10 : ℚ) ^ ((sci d b).e10 - (d : Int))) ∧
    (Wide d b = true →
      |Dec10.toRat (decOf d b) - bitsVal b| ≤ 1 / 2 * (10 : ℚ) ^ ((sci (d - 1) b).e10 - ((d - 1 : Nat) : Int))) := by
  unfold decOf
  constructor
  · intro h; rw [h]; exact decOf0_err d b
  · intro h; rw [h]; exact decOf0_err (d - 1) b

end PyYetiVerif.Op4A
