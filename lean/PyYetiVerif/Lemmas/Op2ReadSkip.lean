import PyYetiVerif.Lemmas.Op2ReadMat
/-! C11: `skipop2matrix` on the encoder's matrix body; string partitions of a column. -/
namespace PyYetiVerif.Op2R
open PyYetiVerif.Op4 PyYetiVerif.Op2
open PyYetiVerif.Op4V (leBytes natBytes intBytes)

/-- the record of a string is short enough for its 4-byte length marker -/
def StrLen (v : V2) (single : Bool) (s : MStr) : Prop := kb v + s.2.length * realBytes v single < 2147483648

instance (v : V2) (single : Bool) (s : MStr) : Decidable (StrLen v single s) := by unfold StrLen; exact inferInstance

/-- `key = _getkey(); while key > 0:` of `skipop2matrix` -/
def skipColFrom (v : V2) (fuel : Nat) (s : List Nat) : M (List Nat) :=
  match getKey v s with
  | .error e => .error e
  | .ok (key, s) => skipColStrs v fuel key s

theorem seekFwd_len (b rest : List Nat) : seekFwd (b.length : Int) (b ++ rest) = .ok rest := by
  have h0 : (0 : Int) ≤ (b.length : Int) := Int.natCast_nonneg _
  simp only [seekFwd, h0, if_true, Int.toNat_natCast, List.drop_left' rfl]

theorem skipColFrom_enc (v : V2) (single : Bool) (neg : Int) (hneg : neg ≤ 0) (hnk : InKey v neg) (tail : List Nat) :
    ∀ (strs : List MStr) (fuel : Nat), (∀ s ∈ strs, StrLen v single s) → strs.length < fuel →
      skipColFrom v fuel (strs.flatMap (encStr v single) ++ (K v neg ++ tail)) = .ok tail := by
  intro strs
  induction strs with
  | nil =>
    intro fuel _ hf
    cases fuel with
    | zero => omega
    | succ f =>
      have : ¬ (neg > 0) := by omega
      simp only [skipColFrom, List.flatMap_nil, List.nil_append, getKey_K v neg _ hnk, skipColStrs, this, if_false]
  | cons s t ih =>
    intro fuel hok hf
    cases fuel with
    | zero => omega
    | succ f =>
      have hs : StrLen v single s := hok s List.mem_cons_self
      obtain ⟨hcp, hck⟩ := strCount_ok' v single s hs
      have hpl : (key v s.1 ++ s.2.flatMap (natBytes v.e (realBytes v single))).length < 2147483648 := by
        rw [length_payload]; exact hs
      simp only [skipColFrom, List.flatMap_cons, encStr_eq, List.append_assoc, getKey_K v _ _ hck, skipColStrs,
        gt_iff_lt, hcp, if_true, rdI4_R v _ _ hpl]
      rw [← List.append_assoc (key v s.1), seekFwd_len]
      simp only [drop4_mark]
      exact ih f (fun x hx => hok x (List.mem_cons_of_mem _ hx)) (by simpa using hf)

theorem getKey_strs' (v : V2) (single : Bool) (neg : Int) (hnk : InKey v neg) (tail : List Nat)
    (strs : List MStr) (hok : ∀ s ∈ strs, StrLen v single s) :
    ∃ key s1, getKey v (strs.flatMap (encStr v single) ++ (K v neg ++ tail)) = .ok (key, s1) ∧
      strs.length ≤ s1.length := by
  cases strs with
  | nil => exact ⟨neg, tail, by simp only [List.flatMap_nil, List.nil_append, getKey_K v neg _ hnk], by simp⟩
  | cons s t =>
    obtain ⟨_, hck⟩ := strCount_ok' v single s (hok s List.mem_cons_self)
    refine ⟨strCount v single s, R v (key v s.1 ++ s.2.flatMap (natBytes v.e (realBytes v single))) ++
      (t.flatMap (encStr v single) ++ (K v neg ++ tail)),
      by simp only [List.flatMap_cons, encStr_eq, List.append_assoc, getKey_K v _ _ hck], ?_⟩
    have := length_le_flatMap_encStr v single t
    simp only [List.length_append, length_R, List.length_cons]
    omega

theorem skipCols_enc (v : V2) (single : Bool) (ncols : Nat) (hnc : ncols < 2147483000) (tail : List Nat) :
    ∀ (cols : List (List MStr)) (j : Nat) (fuel : Nat),
      cols ≠ [] → j + cols.length = ncols → (∀ strs ∈ cols, ∀ s ∈ strs, StrLen v single s) → cols.length ≤ fuel →
      skipCols v fuel (encMatCols v single ncols j cols ++ tail) = .ok tail := by
  intro cols
  induction cols with
  | nil => intro j fuel h; exact absurd rfl h
  | cons c0 cs ih =>
    intro j fuel _ hj hok hf
    cases fuel with
    | zero => simp at hf
    | succ f =>
      have hok0 := hok c0 List.mem_cons_self
      have hnk : InKey v (-((j : Int) + 4)) := inKey_small v _ (by omega) (by omega)
      have sm := inKey_small v
      simp only [encMatCols, List.append_assoc]
      obtain ⟨key, s1, hg, hl⟩ := getKey_strs' v single (-((j : Int) + 4)) hnk
        (K v 1 ++ (K v (if (j + 1 == ncols) = true then 0 else 1) ++ (encMatCols v single ncols (j + 1) cs ++ tail)))
        c0 hok0
      have hcol : skipColStrs v (s1.length + 1) key s1 = .ok
          (K v 1 ++ (K v (if (j + 1 == ncols) = true then 0 else 1) ++ (encMatCols v single ncols (j + 1) cs ++ tail))) := by
        have := skipColFrom_enc v single (-((j : Int) + 4)) (by omega) hnk
          (K v 1 ++ (K v (if (j + 1 == ncols) = true then 0 else 1) ++ (encMatCols v single ncols (j + 1) cs ++ tail)))
          c0 (s1.length + 1) hok0 (by omega)
        unfold skipColFrom at this
        rw [hg] at this
        exact this
      simp only [skipCols, hg, hcol, getKey_K v 1 _ (sm 1 (by omega) (by omega))]
      by_cases hlast : j + 1 = ncols
      · have hcs : cs = [] := by
          cases cs with
          | nil => rfl
          | cons a b => simp only [List.length_cons] at hj; omega
        subst hcs
        have hb : (j + 1 == ncols) = true := by rw [hlast]; exact beq_self_eq_true _
        simp only [hb, if_true, getKey_K v 0 _ (sm 0 (by omega) (by omega)), encMatCols, List.nil_append,
          gt_iff_lt, Int.lt_irrefl, if_false]
      · have hb : (j + 1 == ncols) = false := by
          rw [beq_eq_false_iff_ne]; exact hlast
        have hcs : cs ≠ [] := by
          intro h; subst h; simp only [List.length_cons, List.length_nil] at hj; omega
        simp only [hb, Bool.false_eq_true, if_false, getKey_K v 1 _ (sm 1 (by omega) (by omega)), gt_iff_lt,
          show (0 : Int) < 1 by omega, if_true]
        exact ih (j + 1) f hcs (by simp only [List.length_cons] at hj; omega)
          (fun strs h => hok strs (List.mem_cons_of_mem _ h)) (by simpa using hf)

/-- `skipop2matrix` on an encoded matrix body stops exactly behind it -/
theorem skipMatrix_enc (v : V2) (single : Bool) (ncols : Nat) (cols : List (List MStr)) (rest : List Nat)
    (hne : cols ≠ []) (hlen : cols.length = ncols) (hnc : ncols < 2147483000)
    (hok : ∀ strs ∈ cols, ∀ s ∈ strs, StrLen v single s) :
    skipMatrix v (encMatCols v single ncols 0 cols ++ (K v 0 ++ rest)) = .ok rest := by
  have hfuel : cols.length ≤ (encMatCols v single ncols 0 cols ++ (K v 0 ++ rest)).length + 1 := by
    have := length_encMatCols v single ncols cols 0
    rw [List.length_append]; omega
  unfold skipMatrix
  simp only [skipCols_enc v single ncols hnc (K v 0 ++ rest) cols 0 _ hne (by omega) hok hfuel,
    rdEot_K v 0 _ (inKey_small v 0 (by omega) (by omega))]

/-! ### string partitions -/

/-- the string in the 0-based form of `Op4V.putReals` / `Op4V.IsPartition` -/
def toVStr (cplx : Bool) (s : MStr) : Op4V.VStr := (strRow cplx s, s.2)

theorem putReals_putCol (cplx : Bool) : ∀ (strs : List MStr) (X : List Nat),
    (∀ s ∈ strs, strRow cplx s + s.2.length ≤ X.length) →
    Op4V.putReals X (strs.map (toVStr cplx)) = some (putCol cplx X strs) := by
  intro strs
  induction strs with
  | nil => intro X _; rfl
  | cons s t ih =>
    intro X h
    have hs := h s List.mem_cons_self
    simp only [List.map_cons, Op4V.putReals, toVStr, hs, if_true]
    exact ih (putStr cplx X s) (fun x hx => by rw [length_putStr cplx X s hs]; exact h x (List.mem_cons_of_mem _ hx))

/-- however a column is cut into strings, putting them into the zero column rebuilds it -/
theorem putCol_partition (cplx : Bool) (col : List Nat) (strs : List MStr)
    (h : Op4V.IsPartition col (strs.map (toVStr cplx))) :
    putCol cplx (List.replicate col.length 0) strs = col := by
  have h1 := Op4V.putReals_partition col _ h
  have h2 := putReals_putCol cplx strs (List.replicate col.length 0) (by
    intro s hs
    have := (h.1 (toVStr cplx s) (List.mem_map_of_mem hs)).1
    simpa [toVStr] using this)
  rw [h1] at h2
  exact (Option.some.inj h2).symm
end PyYetiVerif.Op2R
