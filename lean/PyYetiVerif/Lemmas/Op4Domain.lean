import PyYetiVerif.Lemmas.Op4Bytes
import PyYetiVerif.Lemmas.Op4Sparse
import Mathlib.Data.List.Forall2
/-! C04: the binary round trip on the **true domain** of the writer (every integer handed to
`struct.pack('i', …)` fits: `writeMatWords` succeeds), with the column reader chosen by `_get_funcs` and what
`sparse=None` resolves to made explicit. -/
namespace PyYetiVerif.Op4
open PyYetiVerif.Generated.Op4Consts

/-- what `sparse=None` resolves to for a matrix written in layout `lay`: a sparse matrix iff the file is
distinguishable from a dense-layout file -/
def autoOf (lay : Layout) (m : Mat) : Bool :=
  match lay with
  | .dense => false
  | .bigmat => decide (0 < m.rows)
  | .nonbigmat => m.cols.any fun col => !(nzIdx m.cplx col).isEmpty

/-- the column reader `_get_funcs` picks -/
def layOf (lay : Layout) (m : Mat) : Layout := if autoOf lay m then lay else .dense

/-- the writer's domain: lengths, and every packed integer below `2^31` -/
structure Mat.WfD (lay : Layout) (m : Mat) : Prop where
  cols_len : ∀ col ∈ m.cols, col.length = m.rows
  rows_lt : m.rows < 2147483648
  ncols_lt : m.cols.length + 1 < 2147483648
  form_lt : m.form < 2147483648
  name_lt : ∀ b ∈ m.name, b < 256
  recs_fit : ∀ col ∈ m.cols, recLen lay m.cplx col < 2147483648

theorem recLen_sparse (lay : Layout) (cplx : Bool) (col : List Entry) (s : Nat) (tl : List Nat)
    (h : nzIdx cplx col = s :: tl) :
    recLen .bigmat cplx col = (3 + nwordsBig cplx (strings cplx col)) * 4 ∧
      recLen .nonbigmat cplx col = (3 + nwordsNonbig cplx (strings cplx col)) * 4 := by
  have hne := strings_ne_nil cplx col s tl h
  cases hs : strings cplx col with
  | nil => exact absurd hs hne
  | cons a t => simp [recLen, hs]

theorem recOf_good' (e : Endian) (lay : Layout) (cplx : Bool) (ncols c : Nat) (col : List Entry) (s : Nat)
    (tl : List Nat) (h : nzIdx cplx col = s :: tl) (hc : c < ncols) (hn : ncols + 1 < 2147483648)
    (hrows : col.length < 2147483648) (hfit : recLen lay cplx col < 2147483648)
    (hnb : lay = .nonbigmat → col.length < 65536) :
    (recOf e lay cplx c col s tl).Good e lay cplx ncols := by
  have hs_mem : s ∈ nzIdx cplx col := by rw [h]; exact List.mem_cons_self
  obtain ⟨xs, hxs, _⟩ := (mem_nzIdx _ _ _).1 hs_mem
  have hs_lt : s < col.length := (List.getElem?_eq_some_iff.1 hxs).1
  have hlast_mem : (s :: tl).getLast (by simp) ∈ nzIdx cplx col := by rw [h]; exact List.getLast_mem _
  obtain ⟨x, hx, _⟩ := (mem_nzIdx _ _ _).1 hlast_mem
  have hlast_lt := (List.getElem?_eq_some_iff.1 hx).1
  cases lay
  · -- dense
    rw [recLen_dense cplx col s tl h hlast_lt] at hfit
    refine ⟨hc, by simp only [recOf]; omega, by simp only [recOf]; omega, by simp only [recOf]; omega, ?_⟩
    intro tail
    exact bodyOf_dense e cplx col s tl tail
  · -- bigmat
    rw [(recLen_sparse .bigmat cplx col s tl h).1] at hfit
    refine ⟨hc, by simp only [recOf]; omega, by simp only [recOf]; omega, by simp only [recOf]; omega, ?_⟩
    intro tail
    simp only [recOf, bodyOf, Int.toNat_natCast]
    exact rdStringsBig_enc e cplx _ tail _ (strings_length_le cplx _).2
  · -- nonbigmat
    rw [(recLen_sparse .nonbigmat cplx col s tl h).2] at hfit
    refine ⟨hc, by simp only [recOf]; omega, by simp only [recOf]; omega, by simp only [recOf]; omega, ?_⟩
    intro tail
    simp only [recOf, bodyOf, Int.toNat_natCast]
    exact rdStringsNonbig_enc e cplx _ tail (strings_rows cplx col (hnb rfl)) _ (strings_length_le cplx _).1

theorem recsOf_good' (e : Endian) (lay : Layout) (cplx : Bool) (ncols rows : Nat) (hn : ncols + 1 < 2147483648)
    (hrows : rows < 2147483648) (hnb : lay = .nonbigmat → rows < 65536) :
    ∀ (cols : List (List Entry)) (c : Nat), c + cols.length ≤ ncols → (∀ col ∈ cols, col.length = rows) →
      (∀ col ∈ cols, recLen lay cplx col < 2147483648) →
      ∀ rc ∈ recsOf e lay cplx c cols, rc.Good e lay cplx ncols := by
  intro cols
  induction cols with
  | nil => intro c _ _ _ rc hrc; simp [recsOf] at hrc
  | cons col t ih =>
    intro c hc hl hfit rc hrc
    have hcl := hl col (List.mem_cons_self)
    have iht := ih (c + 1) (by simp at hc ⊢; omega) (fun x hx => hl x (List.mem_cons_of_mem _ hx))
      (fun x hx => hfit x (List.mem_cons_of_mem _ hx))
    unfold recsOf at hrc
    split at hrc
    · exact iht rc hrc
    · next s tl h =>
      rcases List.mem_cons.1 hrc with rfl | hrc
      · exact recOf_good' e lay cplx ncols c col s tl h (by simp at hc; omega) hn (by omega)
          (hfit col List.mem_cons_self) (fun hh => by have := hnb hh; omega)
      · exact iht rc hrc

theorem recsOf_eq_nil_iff (e : Endian) (lay : Layout) (cplx : Bool) :
    ∀ (cols : List (List Entry)) (c : Nat), recsOf e lay cplx c cols = [] ↔ ∀ col ∈ cols, nzIdx cplx col = [] := by
  intro cols
  induction cols with
  | nil => intro c; simp [recsOf]
  | cons col t ih =>
    intro c
    unfold recsOf
    split
    · next h => rw [ih (c + 1)]; simp [h]
    · next s tl h => simp [h]

theorem autoOf_nonbigmat_false (m : Mat) :
    autoOf .nonbigmat m = false ↔ ∀ col ∈ m.cols, nzIdx m.cplx col = [] := by
  simp only [autoOf]
  rw [Bool.eq_false_iff]
  simp only [ne_eq, List.any_eq_true, Bool.not_eq_true', List.isEmpty_eq_false_iff, not_exists, not_and,
    Decidable.not_not]

/-- `rdMatrix` on the words of a written matrix, with layout and `sparse=None` resolution explicit -/
theorem rdMatrix_enc' (e : Endian) (lay : Layout) (m : Mat) (rest ws : List Nat) (hwf : m.WfD lay)
    (hnb : lay = .nonbigmat → m.rows < 65536) (henc : encMatWords e lay m = some ws) :
    rdMatrix e (ws ++ rest) =
      some ({ rawName := nameField m.name,
              rows := if lay = .bigmat then -(m.rows : Int) else (m.rows : Int),
              cols := (m.cols.length : Int), form := (m.form : Int), mtype := (mtypeOf m.cplx : Int),
              layout := layOf lay m, sparseAuto := autoOf lay m,
              puts := (recsOf e lay m.cplx 0 m.cols).flatMap Rec.outPuts }, rest) := by
  rw [encMatWords_eq e lay m ws henc]
  obtain ⟨n0, n1, hn01, hname⟩ := name_words e m.name hwf.name_lt
  have hgood := recsOf_good' e lay m.cplx m.cols.length m.rows hwf.ncols_lt hwf.rows_lt hnb m.cols 0
    (by omega) hwf.cols_len hwf.recs_fit
  have hrows : ofI32 (i32 (if (lay == .bigmat) = true then -(m.rows : Int) else (m.rows : Int)))
      = if lay = .bigmat then -(m.rows : Int) else (m.rows : Int) := by
    have := hwf.rows_lt
    rw [ofI32_i32]
    · cases lay <;> simp
    · split <;> omega
    · split <;> omega
  have hmt := mtype_cases m.cplx
  have hncols := ofI32_small m.cols.length (by have := hwf.ncols_lt; omega)
  have hform := ofI32_small m.form hwf.form_lt
  obtain ⟨d0, d1, hd01⟩ := dWords_two e sqrt2Bits
  have hnil := recsOf_eq_nil_iff e lay m.cplx m.cols 0
  generalize hrecs : recsOf e lay m.cplx 0 m.cols = recs at hgood hnil
  cases recs with
  | nil =>
    have hz := hnil.1 rfl
    simp only [headerWords, hdrReclen, hn01, trailerWords, hd01, List.flatMap_nil, List.nil_append, List.cons_append,
      List.append_assoc, rdMatrix, hrows, hmt.1, hmt.2.1, if_false, hncols, hform, hmt.2.2]
    rw [ofI32_small (m.cols.length + 1) hwf.ncols_lt]
    have hc0 : ((m.cols.length + 1 : Nat) : Int) - 1 = (m.cols.length : Int) := by omega
    rw [hc0]
    simp only [List.length_append, List.length_cons, rdCols_succ, Int.lt_irrefl, if_false, hname]
    -- the reader chosen for an all-zero matrix
    have hch : chooseLayout (if lay = .bigmat then -(m.rows : Int) else (m.rows : Int)) (ofI32 1)
        (decide ((m.cols.length : Int) ≥ (m.cols.length : Int))) = (layOf lay m, autoOf lay m) := by
      have h1 : ofI32 1 = 1 := by decide
      rw [h1]
      unfold chooseLayout layOf
      cases lay
      · simp [autoOf]
      · by_cases hr : 0 < m.rows
        · have : (-(m.rows : Int) < 0) := by omega
          simp [autoOf, hr, this]
        · have hr0 : m.rows = 0 := by omega
          simp [autoOf, hr0]
      · have : autoOf .nonbigmat m = false := (autoOf_nonbigmat_false m).2 hz
        simp [this]
    rw [hch]
    rfl
  | cons hd t =>
    have hg := hgood hd (List.mem_cons_self)
    have hgt : ∀ rc ∈ t, rc.Good e lay m.cplx m.cols.length := fun x hx => hgood x (List.mem_cons_of_mem _ hx)
    simp only [headerWords, hdrReclen, hn01, trailerWords, hd01, List.flatMap_cons, Rec.words, List.nil_append,
      List.cons_append, List.append_assoc, rdMatrix, hrows, hmt.1, hmt.2.1, if_false, hncols, hform, hmt.2.2]
    rw [ofI32_small _ hg.hc31, ofI32_small _ hg.hr31, ofI32_small _ hg.hnw31]
    have hc0 : ((hd.c + 1 : Nat) : Int) - 1 = (hd.c : Int) := by omega
    rw [hc0]
    have hcge : decide ((hd.c : Int) ≥ (m.cols.length : Int)) = false := by
      have := hg.hc; simp; omega
    have hr := recsOf_r e lay m.cplx m.cols 0 hd (by rw [hrecs]; exact List.mem_cons_self)
    obtain ⟨col, hcol, hlen⟩ := recsOf_ne_nil e lay m.cplx m.cols 0 (by rw [hrecs]; simp)
    have hrows_pos : 0 < m.rows := by rw [← hwf.cols_len col hcol]; exact hlen
    have hnz : ¬ ∀ col ∈ m.cols, nzIdx m.cplx col = [] := fun hh => by
      have := hnil.2 hh; cases this
    have hauto : autoOf lay m = decide (lay ≠ .dense) := by
      cases lay
      · simp [autoOf]
      · simp [autoOf, hrows_pos]
      · have : autoOf .nonbigmat m ≠ false := fun hh => hnz ((autoOf_nonbigmat_false m).1 hh)
        simpa using this
    have hch : chooseLayout (if lay = Layout.bigmat then -(m.rows : Int) else (m.rows : Int)) (hd.r : Int) false
        = (layOf lay m, autoOf lay m) := by
      have h1 := chooseLayout_col lay m.rows hd.r hrows_pos hnb hr.1 hr.2
      unfold layOf
      rw [hauto]
      cases lay
      · have := hr.1 rfl
        simp [chooseLayout, this]
      · have := hr.2 (by simp)
        simp [chooseLayout, this, hrows_pos]
      · have := hr.2 (by simp)
        have hlt := hnb rfl
        have h3 : ¬ ((m.rows : Int) < 0 ∨ (65536 : Int) ≤ (m.rows : Int)) := by omega
        simp [chooseLayout, this, rows4bigmat, h3]
    rw [hcge, hch]
    rw [rdCols_chain e (layOf lay m, autoOf lay m).1 m.cplx m.cols.length hwf.ncols_lt d0 d1 20 rest t hd _ [] (by
      have := words_length_ge t
      simp only [List.length_append, List.length_cons]; omega) (by
        have : (layOf lay m, autoOf lay m).1 = lay := by
          simp only [layOf, hauto]; cases lay <;> simp
        rw [this]; exact hg) (by
        have : (layOf lay m, autoOf lay m).1 = lay := by
          simp only [layOf, hauto]; cases lay <;> simp
        rw [this]; exact hgt)]
    simp only [hname, List.nil_append]
    rfl

theorem writeMatWords_ok (e : Endian) (lay : Layout) (m : Mat) (ws : List Nat)
    (h : writeMatWords e lay m = .ok ws) :
    encMatWords e lay m = some ws ∧ m.rows < 2147483648 ∧ m.cols.length + 1 < 2147483648 ∧ m.form < 2147483648 ∧
      ∀ col ∈ m.cols, recLen lay m.cplx col < 2147483648 := by
  unfold writeMatWords at h
  split at h
  · cases h
  · next hdim =>
    split at h
    · next hfit =>
      obtain ⟨h1, h2, h3⟩ := hfit
      cases henc : encMatWords e lay m with
      | none => rw [henc] at h; cases h
      | some ws' =>
        rw [henc] at h
        simp only [Except.ok.injEq] at h
        subst h
        refine ⟨rfl, by omega, h2, h1, ?_⟩
        intro col hcol
        have := (List.all_eq_true.1 h3) col hcol
        simpa using this
    · cases h

/-! ### whole files on the true domain -/

/-- what `d` must be for the matrix `p.2` written in layout `p.1`: `DecOf` with the puts, the column reader and
the `sparse=None` resolution explicit -/
def DecOfX (e : Endian) (p : Layout × Mat) (d : Dec) : Prop :=
  DecOf p d ∧ d.layout = layOf p.1 p.2 ∧ d.sparseAuto = autoOf p.1 p.2 ∧
    d.puts = (recsOf e p.1 p.2.cplx 0 p.2.cols).flatMap Rec.outPuts

theorem rdMatrix_decOfX (e : Endian) (lay : Layout) (m : Mat) (rest ws : List Nat) (hwf : m.WfD lay)
    (hnb : lay = .nonbigmat → m.rows < 65536) (henc : encMatWords e lay m = some ws) :
    ∃ d, rdMatrix e (ws ++ rest) = some (d, rest) ∧ DecOfX e (lay, m) d := by
  have h := rdMatrix_enc' e lay m rest ws hwf hnb henc
  refine ⟨_, h, ⟨rfl, rfl, rfl, rfl, rfl, ?_⟩, rfl, rfl, rfl⟩
  have := applyPuts_recs e lay m.cplx m.rows m.cols [] hwf.cols_len
  simpa [applyPuts_eq] using this

theorem rdFile_encX (e : Endian) :
    ∀ (ms : List (Layout × Mat)) (ws : List Nat) (fuel : Nat), encFileWords e ms = some ws → ms.length < fuel →
      (∀ p ∈ ms, p.2.WfD p.1 ∧ (p.1 = .nonbigmat → p.2.rows < 65536)) →
      ∃ ds, rdFile e fuel ws = some ds ∧ List.Forall₂ (DecOfX e) ms ds := by
  intro ms
  induction ms with
  | nil =>
    intro ws fuel h _ _
    simp only [encFileWords, Option.some.injEq] at h
    subst h
    exact ⟨[], by cases fuel <;> rfl, List.Forall₂.nil⟩
  | cons p t ih =>
    intro ws fuel h hf hall
    obtain ⟨lay, m⟩ := p
    simp only [encFileWords] at h
    cases ha : encMatWords e lay m with
    | none => simp [ha] at h
    | some a =>
      cases hb : encFileWords e t with
      | none => simp [ha, hb] at h
      | some b =>
        simp only [ha, hb, Option.bind_eq_bind, Option.bind_some, Option.some.injEq] at h
        subst h
        obtain ⟨f, rfl⟩ : ∃ f, fuel = f + 1 := ⟨fuel - 1, by simp at hf; omega⟩
        have hp := hall (lay, m) (List.mem_cons_self)
        obtain ⟨d, hd, hdec⟩ := rdMatrix_decOfX e lay m b a hp.1 hp.2 ha
        obtain ⟨ds, hds, hall2⟩ := ih b f hb (by simp at hf; omega) (fun q hq => hall q (List.mem_cons_of_mem _ hq))
        have hne := encMatWords_ne_nil e lay m a ha
        refine ⟨d :: ds, ?_, List.Forall₂.cons hdec hall2⟩
        cases hab : a ++ b with
        | nil => simp at hab; exact absurd hab.1 hne
        | cons w ws' =>
          rw [← hab]
          have : rdFile e (f + 1) (a ++ b) = match rdMatrix e (a ++ b) with
              | some (d, rest) => (rdFile e f rest).map (d :: ·)
              | none => none := by
            rw [hab]; rfl
          rw [this, hd]
          simp only [hds, Option.map_some]

theorem writeFileWords_ok (e : Endian) :
    ∀ (ms : List (Layout × Mat)) (ws : List Nat), writeFileWords e ms = .ok ws →
      encFileWords e ms = some ws ∧ ∀ p ∈ ms, p.2.rows < 2147483648 ∧ p.2.cols.length + 1 < 2147483648 ∧
        p.2.form < 2147483648 ∧ ∀ col ∈ p.2.cols, recLen p.1 p.2.cplx col < 2147483648 := by
  intro ms
  induction ms with
  | nil =>
    intro ws h
    simp only [writeFileWords, Except.ok.injEq] at h
    subst h
    exact ⟨rfl, fun p hp => by cases hp⟩
  | cons p t ih =>
    intro ws h
    obtain ⟨lay, m⟩ := p
    simp only [writeFileWords] at h
    cases ha : writeMatWords e lay m with
    | error err => rw [ha] at h; cases h
    | ok a =>
      cases hb : writeFileWords e t with
      | error err => rw [ha, hb] at h; cases h
      | ok b =>
        rw [ha, hb] at h
        have h' : a ++ b = ws := by cases h; rfl
        subst h'
        obtain ⟨h1, h2⟩ := writeMatWords_ok e lay m a ha
        obtain ⟨h3, h4⟩ := ih b hb
        refine ⟨by simp [encFileWords, h1, h3], ?_⟩
        intro q hq
        rcases List.mem_cons.1 hq with rfl | hq
        · exact h2
        · exact h4 q hq

/-! ### 32-bit words on the true domain -/

theorem str_le_nwords (cplx : Bool) (ss : List (Nat × List Entry)) (s : Nat × List Entry) (hs : s ∈ ss) :
    s.2.length * 2 * mult cplx + 2 ≤ nwordsBig cplx ss ∧ s.2.length * 2 * mult cplx + 1 ≤ nwordsNonbig cplx ss := by
  induction ss with
  | nil => cases hs
  | cons a t ih =>
    rw [nwordsBig_cons, nwordsNonbig_cons]
    rcases List.mem_cons.1 hs with rfl | hs
    · omega
    · have := ih hs; omega

theorem recOf_lt32' (e : Endian) (lay : Layout) (cplx : Bool) (c : Nat) (col : List Entry) (s : Nat) (tl : List Nat)
    (h : nzIdx cplx col = s :: tl) (hc : c + 1 < 2147483648) (hrows : col.length < 2147483648)
    (hrec : recLen lay cplx col < 2147483648)
    (h64 : ∀ x ∈ col, Entry.Is64 x) (hfit : lay = .nonbigmat → stringsFit cplx col = true) :
    Lt32 (recOf e lay cplx c col s tl).words := by
  have hs_mem : s ∈ nzIdx cplx col := by rw [h]; exact List.mem_cons_self
  obtain ⟨xs, hxs, _⟩ := (mem_nzIdx _ _ _).1 hs_mem
  have hs_lt : s < col.length := (List.getElem?_eq_some_iff.1 hxs).1
  have hlast_mem : (s :: tl).getLast (by simp) ∈ nzIdx cplx col := by rw [h]; exact List.getLast_mem _
  obtain ⟨x, hx, _⟩ := (mem_nzIdx _ _ _).1 hlast_mem
  have hlast_lt := (List.getElem?_eq_some_iff.1 hx).1
  cases lay
  · -- dense
    rw [recLen_dense cplx col s tl h hlast_lt] at hrec
    simp only [recOf, Rec.words]
    refine Lt32.cons (by omega) (Lt32.cons (by omega) (Lt32.cons (by omega) (Lt32.cons (by omega)
      (Lt32.append (valWords_lt e cplx _ fun x hx => h64 x (List.mem_of_mem_drop (List.mem_of_mem_take hx)))
        (Lt32.cons (by omega) Lt32.nil)))))
  · -- bigmat
    rw [(recLen_sparse .bigmat cplx col s tl h).1] at hrec
    simp only [recOf, Rec.words]
    refine Lt32.cons (by omega) (Lt32.cons (by omega) (Lt32.cons (by omega) (Lt32.cons (by omega)
      (Lt32.append (Lt32.flatMap _ _ ?_) (Lt32.cons (by omega) Lt32.nil)))))
    intro s' hs'
    obtain ⟨h1, h2, h3⟩ := mem_strings' cplx col s' hs'
    have hle := (str_le_nwords cplx _ s' hs').1
    simp only [bigStringWords]
    exact Lt32.append (Lt32.cons (by omega) (Lt32.cons (by omega) Lt32.nil))
      (valWords_lt e cplx _ fun x hx => h64 x (h3 x hx))
  · -- nonbigmat
    rw [(recLen_sparse .nonbigmat cplx col s tl h).2] at hrec
    simp only [recOf, Rec.words]
    refine Lt32.cons (by omega) (Lt32.cons (by omega) (Lt32.cons (by omega) (Lt32.cons (by omega)
      (Lt32.append (Lt32.flatMap _ _ ?_) (Lt32.cons (by omega) Lt32.nil)))))
    intro s' hs'
    obtain ⟨_, _, h3⟩ := mem_strings' cplx col s' hs'
    have hf := hfit rfl
    unfold stringsFit at hf
    have := (List.all_eq_true.1 hf) s' hs'
    simp only [fitsI32, decide_eq_true_eq] at this
    simp only [nonbigStringWords]
    exact Lt32.cons (by omega) (valWords_lt e cplx _ fun x hx => h64 x (h3 x hx))

theorem recsOf_lt32' (e : Endian) (lay : Layout) (cplx : Bool) (ncols rows : Nat) (hn : ncols + 1 < 2147483648)
    (hrows : rows < 2147483648) :
    ∀ (cols : List (List Entry)) (c : Nat), c + cols.length ≤ ncols → (∀ col ∈ cols, col.length = rows) →
      (∀ col ∈ cols, recLen lay cplx col < 2147483648) →
      (∀ col ∈ cols, ∀ x ∈ col, Entry.Is64 x) → (lay = .nonbigmat → cols.all (stringsFit cplx) = true) →
      Lt32 ((recsOf e lay cplx c cols).flatMap Rec.words) := by
  intro cols
  induction cols with
  | nil => intro c _ _ _ _ _; simp [recsOf]; exact Lt32.nil
  | cons col t ih =>
    intro c hc hl hrec h64 hfit
    have iht := ih (c + 1) (by simp at hc ⊢; omega) (fun x hx => hl x (List.mem_cons_of_mem _ hx))
      (fun x hx => hrec x (List.mem_cons_of_mem _ hx))
      (fun x hx => h64 x (List.mem_cons_of_mem _ hx))
      (fun hh => by have := hfit hh; simp only [List.all_cons, Bool.and_eq_true] at this; exact this.2)
    unfold recsOf
    split
    · exact iht
    · next s tl h =>
      simp only [List.flatMap_cons]
      apply Lt32.append _ iht
      apply recOf_lt32' e lay cplx c col s tl h (by simp at hc; omega)
        (by rw [hl col List.mem_cons_self]; exact hrows) (hrec col List.mem_cons_self) (h64 col List.mem_cons_self)
      intro hh
      have := hfit hh
      simp only [List.all_cons, Bool.and_eq_true] at this
      exact this.1

/-- the byte-level domain: the writer's domain, a valid name, 64-bit patterns -/
structure Mat.WfDB (lay : Layout) (m : Mat) : Prop where
  wf : m.WfD lay
  name_ident : isIdent m.name = true
  name_len : m.name.length ≤ 8
  is64 : ∀ col ∈ m.cols, ∀ x ∈ col, Entry.Is64 x

theorem encMatWords_lt32' (e : Endian) (lay : Layout) (m : Mat) (ws : List Nat) (hwf : m.WfDB lay)
    (henc : encMatWords e lay m = some ws) : Lt32 ws := by
  rw [encMatWords_eq e lay m ws henc]
  have hn := hwf.wf.ncols_lt
  have hform := hwf.wf.form_lt
  have hfit : lay = .nonbigmat → m.cols.all (stringsFit m.cplx) = true := by
    intro hh
    subst hh
    simp only [encMatWords] at henc
    split at henc
    · assumption
    · cases henc
  apply Lt32.append
  · simp only [headerWords, hdrReclen]
    have hmt : mtypeOf m.cplx < 4294967296 := by cases m.cplx <;> simp [mtypeOf]
    exact Lt32.append (Lt32.append
      (Lt32.cons (by omega) (Lt32.cons (by omega) (Lt32.cons (i32_lt _) (Lt32.cons (by omega) (Lt32.cons hmt Lt32.nil)))))
      (wordsOfBytes_lt e _ (nameField_lt m.name hwf.wf.name_lt)))
      (Lt32.cons (by omega) Lt32.nil)
  · apply Lt32.append
    · exact recsOf_lt32' e lay m.cplx m.cols.length m.rows hn hwf.wf.rows_lt m.cols 0 (by omega) hwf.wf.cols_len
        hwf.wf.recs_fit hwf.is64 hfit
    · simp only [trailerWords]
      exact Lt32.append (Lt32.append
        (Lt32.cons (by omega) (Lt32.cons (by omega) (Lt32.cons (by omega) (Lt32.cons (by omega) Lt32.nil))))
        (dWords_lt e sqrt2Bits (by decide))) (Lt32.cons (by omega) Lt32.nil)

theorem encFileWords_lt32' (e : Endian) :
    ∀ (ms : List (Layout × Mat)) (ws : List Nat), (∀ p ∈ ms, p.2.WfDB p.1) → encFileWords e ms = some ws → Lt32 ws := by
  intro ms
  induction ms with
  | nil => intro ws _ h; simp only [encFileWords, Option.some.injEq] at h; subst h; exact Lt32.nil
  | cons p t ih =>
    intro ws hall h
    obtain ⟨lay, m⟩ := p
    simp only [encFileWords] at h
    cases ha : encMatWords e lay m with
    | none => simp [ha] at h
    | some a =>
      cases hb : encFileWords e t with
      | none => simp [ha, hb] at h
      | some b =>
        simp only [ha, hb, Option.bind_eq_bind, Option.bind_some, Option.some.injEq] at h
        subst h
        exact Lt32.append (encMatWords_lt32' e lay m a (hall (lay, m) List.mem_cons_self) ha)
          (ih b (fun q hq => hall q (List.mem_cons_of_mem _ hq)) hb)

theorem decsOf_of_X (e : Endian) : ∀ (ms : List (Layout × Mat)) (ds : List Dec),
    List.Forall₂ (DecOfX e) ms ds → DecsOf ms ds := by
  intro ms ds h
  induction h with
  | nil => exact DecsOf.nil
  | cons h1 _ ih => exact DecsOf.cons h1.1 ih

end PyYetiVerif.Op4
