import PyYetiVerif.Model.Op4Fixed
import PyYetiVerif.Lemmas.Op4AsciiCol
import PyYetiVerif.Lemmas.Op4AsciiHalf
/-! Lemmas for the F3 repair candidate (Model/Op4Fixed.lean, `fmtEFx`): the three facts the ASCII round-trip chain
uses about `fmtE` (`fmtE_length_fits`, `pyFloat_fmtE`, `fmtE_fieldChar`) and the accuracy `decOf_err`, for the patched
formatter and without the hypothesis `Fits`. -/
namespace PyYetiVerif.Op4A
open PyYetiVerif.Op4 PyYetiVerif.Generated.Op4Consts

/-- length of `'%.{d}E' % x` for every `d` (also `d = 0`, where no point is printed) -/
theorem sciChars_length' (d : Nat) (s : Sci) (he : s.e10.natAbs < 1000) :
    (sciChars d s).length
      = (if s.neg then 1 else 0) + (d + 1) + (if d = 0 then 0 else 1) + 2 + (if s.e10.natAbs < 100 then 2 else 3) := by
  unfold sciChars
  by_cases hd0 : d = 0
  · subst hd0
    simp only [if_true, List.length_append, List.length_cons, List.length_nil, List.length_take,
      fixedDigits_length, expDigits_length _ he]
    cases s.neg <;> simp
  · simp only [hd0, if_false, List.length_append, List.length_cons, List.length_nil, List.length_take,
      List.length_drop, fixedDigits_length, expDigits_length _ he]
    cases s.neg <;> simp <;> omega

/-- `float()` of a `'%.0E'` field (one digit, no point) between blanks: exactly the printed decimal -/
theorem pyFloat_sciChars0 (s : Sci) (a b : Str) (hm : s.mant < 10)
    (he : s.e10.natAbs < 1000) (ha : ∀ x ∈ a, isWs x = true) (hb : ∀ x ∈ b, isWs x = true) :
    pyFloat? (a ++ sciChars 0 s ++ b) = some (sciDec 0 s) := by
  obtain ⟨c0, hds⟩ : ∃ c0, fixedDigits (0 + 1) s.mant = [c0] := by
    have hl := fixedDigits_length (0 + 1) s.mant
    cases hfd : fixedDigits (0 + 1) s.mant with
    | nil => rw [hfd] at hl; simp at hl
    | cons c0 rest =>
      rw [hfd] at hl
      cases rest with
      | nil => exact ⟨c0, rfl⟩
      | cons _ _ => simp at hl
  have hdig : ∀ c ∈ [c0], c.isDigit = true := by
    rw [← hds]; exact fixedDigits_isDigit _ _
  have hc0 : c0.isDigit = true := hdig c0 List.mem_cons_self
  have hval : digitsVal [c0] = s.mant := by
    rw [← hds, digitsVal_fixedDigits, Nat.mod_eq_of_lt (by simpa using hm)]
  have hexp := expDigits_isDigit _ he
  have hexpv := digitsVal_expDigits _ he
  have hexpa := allDigits_of _ (expDigits_ne_nil _ he) hexp
  have hbody : ∀ x ∈ sciChars 0 s, isWs x = false := by
    intro x hx
    unfold sciChars at hx
    simp only [if_true, hds, List.take_succ_cons, List.take_zero, List.append_nil,
      List.mem_append, List.mem_cons, List.not_mem_nil, or_false] at hx
    rcases hx with (((h | h) | h) | h)
    · split at h
      · simp only [List.mem_cons, List.not_mem_nil, or_false] at h; rw [h]; decide
      · simp at h
    · rw [h]; exact isDigit_not_ws _ hc0
    · rcases h with h | h
      · rw [h]; decide
      · rw [h]; split <;> decide
    · exact isDigit_not_ws _ (hexp x h)
  unfold pyFloat?
  rw [strip_body a _ b ha hb hbody]
  have hsplit : splitSign (sciChars 0 s) =
      (s.neg, c0 :: 'E' :: (if s.e10 < 0 then '-' else '+') :: expDigits s.e10.natAbs) := by
    unfold sciChars
    simp only [if_true, hds, List.take_succ_cons, List.take_zero, List.append_nil]
    cases s.neg
    · simp only [Bool.false_eq_true, if_false, List.nil_append, List.cons_append, List.append_assoc]
      exact splitSign_digit _ _ hc0
    · simp only [if_true, List.cons_append, List.nil_append, List.append_assoc]
      rfl
  rw [hsplit]
  have h1 : (c0 :: 'E' :: (if s.e10 < 0 then '-' else '+') :: expDigits s.e10.natAbs).takeWhile Char.isDigit = [c0] := by
    simp [List.takeWhile_cons, hc0, not_digit_E]
  have h2 : (c0 :: 'E' :: (if s.e10 < 0 then '-' else '+') :: expDigits s.e10.natAbs).dropWhile Char.isDigit
      = 'E' :: (if s.e10 < 0 then '-' else '+') :: expDigits s.e10.natAbs := by
    simp [List.dropWhile_cons, hc0, not_digit_E]
  simp only [h1, h2]
  have h5 : splitSign ((if s.e10 < 0 then '-' else '+') :: expDigits s.e10.natAbs)
      = (decide (s.e10 < 0), expDigits s.e10.natAbs) := by
    by_cases hneg : s.e10 < 0 <;> simp [hneg, splitSign]
  have hman : digitsVal ([c0] ++ []) = s.mant := by simpa using hval
  split
  · next t heq =>
    exfalso
    have := (List.cons.inj heq).1
    exact absurd this (by decide)
  · simp only [List.isEmpty_cons, Bool.false_and, Bool.false_eq_true, if_false, beq_self_eq_true, Bool.or_true, if_true,
      h5, hexpa, hexpv, hman, List.length_nil]
    unfold sciDec
    by_cases hneg : s.e10 < 0
    · simp [hneg, abs_of_neg hneg]
    · simp [hneg]; omega

/-- the value does not fit its field: negative with a three-digit exponent (`¬ Fits d b`, decidable form) -/
def Wide (d b : Nat) : Bool := (sci d b).neg && decide (100 ≤ (sci d b).e10.natAbs)

theorem wide_iff_not_fits (d b : Nat) : Wide d b = true ↔ ¬ Fits d b := by
  unfold Wide Fits
  simp

/-- the test `len(s) > numlen` of the patched `numform` is the test "negative with a three-digit exponent" -/
theorem fmtE_too_long_iff (d b : Nat) (hd : 1 ≤ d) : (fmtE d b).length > numlen d ↔ Wide d b = true := by
  have he := sci_e10_bound d b
  unfold fmtE Wide
  rw [length_padLeft, sciChars_length d _ hd he]
  unfold numlen numlenBase expdigits
  cases (sci d b).neg <;> by_cases h : (sci d b).e10.natAbs < 100 <;> simp [h] <;> omega

theorem fmtEFx_eq (d b : Nat) (hd : 1 ≤ d) :
    fmtEFx d b = if Wide d b then padLeft (numlen d) (sciChars (d - 1) (sci (d - 1) b)) else fmtE d b := by
  unfold fmtEFx
  by_cases h : Wide d b = true
  · rw [if_pos ((fmtE_too_long_iff d b hd).2 h), if_pos h]
  · rw [if_neg (fun h' => h ((fmtE_too_long_iff d b hd).1 h')), if_neg h]

/-- **F3 repaired (width).**  `numform(x)` of the patched writer has exactly the announced width, for every double -/
theorem fmtEFx_length (d b : Nat) (hd : 1 ≤ d) : (fmtEFx d b).length = numlen d := by
  rw [fmtEFx_eq d b hd]
  split
  · obtain ⟨k, rfl⟩ : ∃ k, d = k + 1 := ⟨d - 1, by omega⟩
    simp only [Nat.add_sub_cancel]
    have he := sci_e10_bound k b
    rw [length_padLeft, sciChars_length' k _ he]
    unfold numlen numlenBase expdigits
    rcases Nat.eq_zero_or_pos k with rfl | hk
    · cases (sci 0 b).neg <;> by_cases h : (sci 0 b).e10.natAbs < 100 <;> simp [h]
    · have h0 : ¬ k = 0 := by omega
      cases (sci k b).neg <;> by_cases h : (sci k b).e10.natAbs < 100 <;> simp [h, h0] <;> omega
  · next hw =>
    have : Fits d b := by
      have := (wide_iff_not_fits d b).not.1 hw
      exact Classical.not_not.1 this
    exact fmtE_length_fits d b hd this

/-- the patch changes nothing for a value that fits -/
theorem fmtEFx_of_fits (d b : Nat) (hd : 1 ≤ d) (h : Fits d b) : fmtEFx d b = fmtE d b := by
  rw [fmtEFx_eq d b hd]
  have : ¬ Wide d b = true := fun hw => (wide_iff_not_fits d b).1 hw h
  rw [if_neg this]

/-- the exact decimal the patched writer prints: `d` digits after the point, `d - 1` for a value that does not fit -/
def decOfFx (d b : Nat) : Dec10 := if Wide d b then decOf (d - 1) b else decOf d b

/-- **F3 repaired (value).**  `float(numform(x))` is the printed decimal, for every double and every `digits ≥ 1`
(with `digits = 1` the fallback prints one digit and no point: `pyFloat_sciChars0`) -/
theorem pyFloat_fmtEFx (d b : Nat) (hd : 1 ≤ d) : pyFloat? (fmtEFx d b) = some (decOfFx d b) := by
  rw [fmtEFx_eq d b hd]
  unfold decOfFx
  split
  · unfold padLeft decOf
    obtain ⟨k, rfl⟩ : ∃ k, d = k + 1 := ⟨d - 1, by omega⟩
    simp only [Nat.add_sub_cancel]
    rcases Nat.eq_zero_or_pos k with rfl | hk
    · have := pyFloat_sciChars0 (sci 0 b)
        (List.replicate (numlen (0 + 1) - (sciChars 0 (sci 0 b)).length) ' ') []
        (by have := (sci_mant 0 b).1; simpa using this) (sci_e10_bound 0 b) (replicate_ws _) (by simp)
      simpa using this
    · have := pyFloat_sciChars k (sci k b)
        (List.replicate (numlen (k + 1) - (sciChars k (sci k b)).length) ' ') [] hk
        (sci_mant k b).1 (sci_e10_bound k b) (replicate_ws _) (by simp)
      simpa using this
  · exact pyFloat_fmtE d b hd

theorem fmtEFx_fieldChar (d b : Nat) : ∀ c ∈ fmtEFx d b, FieldChar c := by
  intro c hc
  unfold fmtEFx at hc
  split at hc
  · unfold padLeft at hc
    rcases List.mem_append.1 hc with h | h
    · exact Or.inl (List.eq_of_mem_replicate h)
    · exact sciChars_fieldChar (d - 1) _ (sci_e10_bound (d - 1) b) c h
  · exact fmtE_fieldChar d b c hc

/-- **F3 repaired (accuracy).**  half a unit of the last printed digit — the `d`-th after the point, the `(d-1)`-th for
a negative value with a three-digit exponent -/
theorem decOfFx_err (d b : Nat) :
    (Wide d b = false → |Dec10.toRat (decOfFx d b) - bitsVal b| ≤ 1 / 2 * (10 : ℚ) ^ ((sci d b).e10 - (d : Int))) ∧
    (Wide d b = true →
      |Dec10.toRat (decOfFx d b) - bitsVal b| ≤ 1 / 2 * (10 : ℚ) ^ ((sci (d - 1) b).e10 - ((d - 1 : Nat) : Int))) := by
  unfold decOfFx
  constructor
  · intro h; rw [h]; exact decOf_err d b
  · intro h; rw [h]; exact decOf_err (d - 1) b

/-! ### a block of values (dense record or string) through the reader -/

def aEntryFx (d : Nat) (cplx : Bool) (x : Entry) : AEntry :=
  (decOfFx d x.1, if cplx then decOfFx d x.2 else Dec10.zero)

theorem mapM_pyFloatFx (d : Nat) (hd : 1 ≤ d) (ds : List Nat) :
    (ds.map (fmtEFx d)).mapM pyFloat? = some (ds.map (decOfFx d)) := by
  induction ds with
  | nil => rfl
  | cons b t ih => simp [List.mapM_cons, pyFloat_fmtEFx d b hd, ih]

theorem pairUp_segDsFx (d : Nat) (seg : List Entry) :
    pairUp ((segDs true seg).map (decOfFx d)) = seg.map (aEntryFx d true) := by
  induction seg with
  | nil => rfl
  | cons x t ih =>
    simp only [segDs, List.flatMap_cons, entryDs, if_true, List.cons_append, List.nil_append, List.map_cons, pairUp]
    simp only [segDs] at ih
    rw [ih]; rfl

theorem real_segDsFx (d : Nat) (seg : List Entry) :
    ((segDs false seg).map (decOfFx d)).map (fun x => (x, Dec10.zero)) = seg.map (aEntryFx d false) := by
  induction seg with
  | nil => rfl
  | cons x t ih =>
    simp only [segDs, List.flatMap_cons, entryDs, Bool.false_eq_true, if_false, List.cons_append, List.nil_append,
      List.map_cons]
    simp only [segDs] at ih
    rw [ih]; rfl

/-- the value lines of the patched writer, as lines -/
def valLinesFx (d : Nat) (ds : List Nat) : List Str := chunkLines (perline d) ds.length (ds.map (fmtEFx d))

/-- `readVals_valLines` for the patched writer: no `Fits` hypothesis -/
theorem readVals_valLinesFx (g : Cfg) (d : Nat) (cplx : Bool) (hg : GoodCfg g d cplx) (hd : 1 ≤ d)
    (hp : 1 ≤ perline d) (seg : List Entry) (rest : List Str) :
    ∃ blk, getBlock g (segDs cplx seg).length (valLinesFx d (segDs cplx seg) ++ rest) = (blk, rest) ∧
      readVals g blk (segDs cplx seg).length = some (seg.map (aEntryFx d cplx)) := by
  obtain ⟨hc, _, hpl, hnl⟩ := hg
  have hlenmap : ((segDs cplx seg).map (fmtEFx d)).length = (segDs cplx seg).length := List.length_map _
  have hwidth : ∀ f ∈ (segDs cplx seg).map (fmtEFx d), f.length = g.numlen := by
    intro f hf
    obtain ⟨b, hb, rfl⟩ := List.mem_map.1 hf
    rw [hnl]; exact fmtEFx_length d b hd
  have hD : ∀ f ∈ (segDs cplx seg).map (fmtEFx d), ∀ c ∈ f, c ≠ 'D' := by
    intro f hf c hcf
    obtain ⟨b, _, rfl⟩ := List.mem_map.1 hf
    exact (fmtEFx_fieldChar d b c hcf).ne_D
  have hblk := getBlock_chunkLines' g (by rw [hpl]; exact hp) (segDs cplx seg).length
    ((segDs cplx seg).map (fmtEFx d)) rest (Nat.le_of_eq hlenmap) hD
  rw [hlenmap] at hblk
  have hfields := fields_chunkLines g.numlen g.perline (by rw [hnl]; exact numlen_pos d) (by rw [hpl]; exact hp)
    (segDs cplx seg).length ((segDs cplx seg).map (fmtEFx d)) (Nat.le_of_eq hlenmap) hwidth
  rw [hlenmap] at hfields
  refine ⟨((chunkLines g.perline (segDs cplx seg).length ((segDs cplx seg).map (fmtEFx d))).map
      fun ln => ln.take (g.perline * g.numlen)).flatten, ?_, ?_⟩
  · unfold valLinesFx; rw [← hpl]; exact hblk
  unfold readVals
  cases cplx with
  | false =>
    simp only [hc, Bool.false_eq_true, if_false]
    rw [hfields, mapM_pyFloatFx d hd, Option.map_some, real_segDsFx]
  | true =>
    simp only [hc, if_true]
    have heven : 2 * ((segDs true seg).length / 2) = (segDs true seg).length := by
      have := length_segDs true seg
      simp only [segDs, mult, if_true] at this ⊢
      omega
    rw [heven, hfields, mapM_pyFloatFx d hd, Option.map_some, pairUp_segDsFx]

end PyYetiVerif.Op4A
