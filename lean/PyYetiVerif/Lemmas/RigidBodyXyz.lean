import PyYetiVerif.Lemmas.UsetXyz
import PyYetiVerif.Model.RigidBodyMult
/-!
`n2p.find_xyz_triples` (C18's model `Model/UsetXyz.lean`, read-only) on the matrices `cb.rbmultchk` hands to it:
exact x, y, z triples in ANY order, mixed with any number of rows that are not part of a triple because their
translation part vanishes (rotation rows of a grid, null rows of a recovery matrix, rows that recover a rotation, a
modal coordinate, …).  Generalises `scan_exact` / `fill_exact` of `Lemmas/UsetXyz.lean` from "nodes only" to such
segment lists; the algebra of one exact triple is reused from there.
-/
namespace PyYetiVerif.Xyz

/-- one piece of a rigid-body response matrix: the three rows of a node, or one row without translation part -/
inductive Seg where
  | node (n : Node)
  | flat (r : V3)

def zero3 : V3 := fun _ => 0

def segRows : Seg → List Row
  | .node n => nodeRows n
  | .flat r => [(zero3, r)]

def rowsOfSegs (l : List Seg) : List Row := l.flatMap segRows

def segLen : Seg → Nat
  | .node _ => 3
  | .flat _ => 1

def segsLen : List Seg → Nat
  | [] => 0
  | s :: t => segLen s + segsLen t

def Seg.Exact : Seg → Prop
  | .node n => n.Exact
  | .flat _ => True

theorem rowsOfSegs_length (l : List Seg) : (rowsOfSegs l).length = segsLen l := by
  induction l with
  | nil => rfl
  | cons s t ih =>
    cases s <;> simp [rowsOfSegs, List.flatMap_cons, segRows, nodeRows, segsLen, segLen] at ih ⊢ <;> omega

theorem rowsOfSegs_append (a b : List Seg) : rowsOfSegs (a ++ b) = rowsOfSegs a ++ rowsOfSegs b := by
  simp [rowsOfSegs]

theorem segsLen_append (a b : List Seg) : segsLen (a ++ b) = segsLen a + segsLen b := by
  induction a with
  | nil => simp [segsLen]
  | cons s t ih => simp [segsLen, ih]; omega

theorem window_seg_node (done todo : List Seg) (n : Node) :
    window (rowsOfSegs (done ++ .node n :: todo)).toArray (segsLen done) = some (n.A, mul n.A (skew n.p)) := by
  have hsplit : rowsOfSegs (done ++ .node n :: todo) = rowsOfSegs done ++
      (n.A 0, mul n.A (skew n.p) 0) :: (n.A 1, mul n.A (skew n.p) 1) :: (n.A 2, mul n.A (skew n.p) 2) :: rowsOfSegs todo := by
    rw [rowsOfSegs_append]
    simp [rowsOfSegs, List.flatMap_cons, segRows, nodeRows]
  obtain ⟨h0, h1, h2⟩ := get_mid (n.A 0, mul n.A (skew n.p) 0) (n.A 1, mul n.A (skew n.p) 1)
    (n.A 2, mul n.A (skew n.p) 2) (rowsOfSegs done) (rowsOfSegs todo)
  rw [rowsOfSegs_length] at h0 h1 h2
  unfold window
  rw [hsplit]
  simp only [List.getElem?_toArray, h0, h1, h2]
  congr 1
  refine Prod.ext ?_ ?_ <;> (funext i; fin_cases i <;> rfl)

/-- a window that starts on a row without translation part: either the matrix ends inside it, or its translation
block is singular -/
theorem window_seg_flat (done todo : List Seg) (r : V3) :
    window (rowsOfSegs (done ++ .flat r :: todo)).toArray (segsLen done) = none ∨
      ∃ A R, window (rowsOfSegs (done ++ .flat r :: todo)).toArray (segsLen done) = some (A, R) ∧ det3 A = 0 := by
  have hsplit : rowsOfSegs (done ++ .flat r :: todo) = rowsOfSegs done ++ (zero3, r) :: rowsOfSegs todo := by
    rw [rowsOfSegs_append]
    simp [rowsOfSegs, List.flatMap_cons, segRows]
  have h0 : (rowsOfSegs done ++ (zero3, r) :: rowsOfSegs todo)[segsLen done]? = some (zero3, r) := by
    rw [← rowsOfSegs_length]
    simp
  unfold window
  rw [hsplit]
  simp only [List.getElem?_toArray, h0]
  cases (rowsOfSegs done ++ (zero3, r) :: rowsOfSegs todo)[segsLen done + 1]? with
  | none => left; rfl
  | some r1 =>
    cases (rowsOfSegs done ++ (zero3, r) :: rowsOfSegs todo)[segsLen done + 2]? with
    | none => left; rfl
    | some r2 =>
      right
      refine ⟨_, _, rfl, ?_⟩
      simp [det3, zero3]

/-- the window is `none` exactly when fewer than three rows remain -/
theorem window_none_iff (rows : Array Row) (j : Nat) : window rows j = none ↔ rows.size < j + 3 := by
  unfold window
  constructor
  · intro h
    by_contra hc
    have h0 : j < rows.size := by omega
    have h1 : j + 1 < rows.size := by omega
    have h2 : j + 2 < rows.size := by omega
    simp [Array.getElem?_eq_getElem h0, Array.getElem?_eq_getElem h1, Array.getElem?_eq_getElem h2] at h
  · intro h
    have h2 : rows[j + 2]? = none := by
      rw [Array.getElem?_eq_none]; omega
    rw [h2]
    cases rows[j]? <;> cases rows[j + 1]? <;> rfl

def potsFromSegs : Nat → List Seg → List Pot
  | _, [] => []
  | j, .node n :: t => { j := j, T2 := T2of n.A, s2 := scale2 n.A } :: potsFromSegs (j + 3) t
  | j, .flat _ :: t => potsFromSegs (j + 1) t

def msFromSegs : ℚ → List Seg → ℚ
  | ms, [] => ms
  | ms, .node n :: t => msFromSegs (maxR ms (absMax (skew n.p))) t
  | ms, .flat _ :: t => msFromSegs ms t

/-- fewer than three rows: no node -/
theorem short_no_node : ∀ (t : List Seg) (j : Nat) (ms : ℚ), segsLen t < 3 →
    potsFromSegs j t = [] ∧ msFromSegs ms t = ms
  | [], _, _, _ => ⟨rfl, rfl⟩
  | .node n :: t, _, _, h => by simp [segsLen, segLen] at h
  | .flat r :: t, j, ms, h => by
      have := short_no_node t (j + 1) ms (by simp [segsLen, segLen] at h; omega)
      simpa [potsFromSegs, msFromSegs] using this

theorem msFromSegs_cases : ∀ (t : List Seg) (ms : ℚ), msFromSegs ms t = ms ∨ (0 ≤ msFromSegs ms t ∧ ms ≤ msFromSegs ms t)
  | [], ms => Or.inl rfl
  | .flat _ :: t, ms => by simpa [msFromSegs] using msFromSegs_cases t ms
  | .node n :: t, ms => by
      right
      rcases msFromSegs_cases t (maxR ms (absMax (skew n.p))) with h | ⟨h0, h1⟩
      · simp only [msFromSegs]; rw [h]
        exact ⟨le_trans (absMax_nonneg _) (le_maxR_right _ _), le_maxR_left _ _⟩
      · exact ⟨h0, le_trans (le_maxR_left _ _) h1⟩

/-- the first loop on a segment list: one potential triple per node, at the node's first row; rows without
translation part are stepped over one at a time -/
theorem scan_segs (tol : ℚ) (ht : 0 ≤ tol) : ∀ (todo done : List Seg) (fuel : Nat) (pots : List Pot) (ms : ℚ),
    (∀ s ∈ todo, s.Exact) → todo.length ≤ fuel →
    scan tol (rowsOfSegs (done ++ todo)).toArray fuel (segsLen done) pots ms =
      some (pots.reverse ++ potsFromSegs (segsLen done) todo, msFromSegs ms todo)
  | [], done, fuel, pots, ms, _, _ => by
      cases fuel with
      | zero => simp [scan, potsFromSegs, msFromSegs]
      | succ f =>
          rw [scan]
          have : window (rowsOfSegs (done ++ [])).toArray (segsLen done) = none := by
            rw [window_none_iff]
            simp [rowsOfSegs_length]
          rw [this]
          simp [potsFromSegs, msFromSegs]
  | .node n :: t, done, fuel, pots, ms, hex, hf => by
      cases fuel with
      | zero => simp at hf
      | succ f =>
          obtain ⟨ho, hs⟩ : n.Exact := hex (.node n) List.mem_cons_self
          rw [scan, window_seg_node]
          simp only
          rw [stage1_exact ho hs ht]
          simp only
          rw [rbrot_eq ho hs, patternOK_skew _ (mul_nonneg ht (absMax_nonneg _))]
          simp only
          have ih := scan_segs tol ht t (done ++ [.node n]) f
            ({ j := segsLen done, T2 := T2of n.A, s2 := scale2 n.A } :: pots)
            (maxR ms (absMax (skew n.p))) (fun m hm => hex m (List.mem_cons_of_mem _ hm))
            (by simp at hf; omega)
          rw [List.append_assoc, List.singleton_append, segsLen_append] at ih
          simp only [segsLen, segLen, Nat.add_zero] at ih
          rw [ih]
          simp [potsFromSegs, msFromSegs]
  | .flat r :: t, done, fuel, pots, ms, hex, hf => by
      cases fuel with
      | zero => simp at hf
      | succ f =>
          rw [scan]
          rcases window_seg_flat done t r with hn | ⟨A, R, hw, hdet⟩
          · rw [hn]
            have hlen : segsLen t < 3 := by
              have := (window_none_iff _ _).1 hn
              simp only [List.size_toArray, rowsOfSegs_length, segsLen_append, segsLen, segLen] at this
              omega
            obtain ⟨h1, h2⟩ := short_no_node t (segsLen done + 1) ms hlen
            simp [potsFromSegs, msFromSegs, h1, h2]
          · rw [hw]
            simp only
            have hst : stage1 tol A = .no := by unfold stage1; rw [if_pos hdet]
            rw [hst]
            simp only
            have ih := scan_segs tol ht t (done ++ [.flat r]) f pots ms
              (fun m hm => hex m (List.mem_cons_of_mem _ hm)) (by simp at hf; omega)
            rw [List.append_assoc, List.singleton_append, segsLen_append] at ih
            simp only [segsLen, segLen, Nat.add_zero] at ih
            rw [ih]
            simp [potsFromSegs, msFromSegs]

/-- what the routine reports for one segment: the node's location (scale²) on its three rows, nothing on a row
without translation part -/
def segCoords : Seg → List (Option (ℚ × ℚ × ℚ))
  | .node n => trip n.p
  | .flat _ => [none]

def segScales : Seg → List (Option ℚ)
  | .node n => trip n.s2
  | .flat _ => [none]

/-- the final loop -/
theorem fill_segs (tol : ℚ) (ht : 0 ≤ tol) (ms : ℚ) (hms : 0 ≤ ms) :
    ∀ (todo done : List Seg) (c : List (Option (ℚ × ℚ × ℚ))) (s : List (Option ℚ)),
    (∀ x ∈ todo, x.Exact) → c.length = segsLen done → s.length = segsLen done →
    fill tol (rowsOfSegs (done ++ todo)).toArray ms (potsFromSegs (segsLen done) todo)
      { coords := c ++ List.replicate (segsLen todo) none,
        scale2 := s ++ List.replicate (segsLen todo) none, modelScale := ms } =
      some { coords := c ++ todo.flatMap segCoords, scale2 := s ++ todo.flatMap segScales, modelScale := ms }
  | [], done, c, s, _, _, _ => by simp [potsFromSegs, fill, segsLen]
  | .node n :: t, done, c, s, hex, hc, hs => by
      obtain ⟨ho, hsp⟩ : n.Exact := hex (.node n) List.mem_cons_self
      rw [potsFromSegs, fill, window_seg_node]
      simp only
      rw [rbrot_eq ho hsp, patternOK_skew _ (mul_nonneg ht hms)]
      simp only
      have hrep : ∀ {β : Type}, List.replicate (segsLen (.node n :: t)) (none : Option β) =
          none :: none :: none :: List.replicate (segsLen t) none := by
        intro β
        simp only [segsLen, segLen]
        rw [show 3 + segsLen t = segsLen t + 1 + 1 + 1 by omega]
        rfl
      rw [hrep, hrep, ← hc, setRows_mid, hc, ← hs, setRows_mid, hs]
      have hx : (skew n.p 1 2 - skew n.p 2 1) / 2 = n.p.1 := by simp [skew]
      have hy : (skew n.p 2 0 - skew n.p 0 2) / 2 = n.p.2.1 := by simp [skew]
      have hz : (skew n.p 0 1 - skew n.p 1 0) / 2 = n.p.2.2 := by simp [skew]
      rw [hx, hy, hz, scale2_eq ho]
      have ih := fill_segs tol ht ms hms t (done ++ [.node n]) (c ++ trip n.p) (s ++ trip n.s2)
        (fun m hm => hex m (List.mem_cons_of_mem _ hm))
        (by simp [trip, segsLen_append, segsLen, segLen, hc]) (by simp [trip, segsLen_append, segsLen, segLen, hs])
      rw [List.append_assoc, List.singleton_append, segsLen_append] at ih
      simp only [segsLen, segLen, Nat.add_zero] at ih
      simp only [trip, List.append_assoc, List.cons_append, List.nil_append] at ih
      simp only [List.flatMap_cons, segCoords, segScales, trip, List.cons_append, List.nil_append]
      exact ih
  | .flat r :: t, done, c, s, hex, hc, hs => by
      rw [potsFromSegs]
      have hrep : ∀ {β : Type}, List.replicate (segsLen (.flat r :: t)) (none : Option β) =
          none :: List.replicate (segsLen t) none := by
        intro β
        simp only [segsLen, segLen]
        rw [show 1 + segsLen t = segsLen t + 1 by omega]
        rfl
      rw [hrep, hrep]
      have ih := fill_segs tol ht ms hms t (done ++ [.flat r]) (c ++ [none]) (s ++ [none])
        (fun m hm => hex m (List.mem_cons_of_mem _ hm))
        (by simp [segsLen_append, segsLen, segLen, hc]) (by simp [segsLen_append, segsLen, segLen, hs])
      rw [List.append_assoc, List.singleton_append, segsLen_append] at ih
      simp only [segsLen, segLen, Nat.add_zero] at ih
      simp only [List.append_assoc, List.cons_append, List.nil_append] at ih
      simp only [List.flatMap_cons, segCoords, segScales, List.cons_append, List.nil_append]
      exact ih

theorem replicate_segsLen_pv (l : List Seg) :
    (l.flatMap segCoords).map Option.isSome = l.flatMap fun s => match s with
      | .node _ => [true, true, true]
      | .flat _ => [false] := by
  induction l with
  | nil => rfl
  | cons s t ih =>
    rw [List.flatMap_cons, List.map_append, ih, List.flatMap_cons]
    cases s <;> rfl

/-! ### the scale of rigid-body modes with six rows per grid (`rbScale2`) -/

section scale
open PyYetiVerif.RigidBody

/-- the first column of the rigid-body modes of one grid: translation rows `a b c`, rotation rows `0 0 0` -/
def gridCol0 (abc : ℚ × ℚ × ℚ) : List ℚ := [abc.1, abc.2.1, abc.2.2, 0, 0, 0]

theorem foldl_maxR_le (σ : ℚ) : ∀ (l : List ℚ) (init : ℚ), init ≤ σ → (∀ x ∈ l, x ≤ σ) → l.foldl maxR init ≤ σ
  | [], init, h, _ => h
  | x :: t, init, h, hl => by
      simp only [List.foldl_cons]
      apply foldl_maxR_le σ t
      · unfold maxR; split
        · exact hl x List.mem_cons_self
        · exact h
      · exact fun y hy => hl y (List.mem_cons_of_mem _ hy)

theorem le_foldl_maxR : ∀ (l : List ℚ) (init : ℚ), init ≤ l.foldl maxR init
  | [], init => le_refl _
  | x :: t, init => le_trans (le_maxR_left init x) (le_foldl_maxR t (maxR init x))

theorem mem_le_foldl_maxR : ∀ (l : List ℚ) (init x : ℚ), x ∈ l → x ≤ l.foldl maxR init
  | y :: t, init, x, h => by
      simp only [List.foldl_cons]
      rcases List.mem_cons.1 h with rfl | h
      · exact le_trans (le_maxR_right init x) (le_foldl_maxR t _)
      · exact mem_le_foldl_maxR t _ x h

/-- all window sums of a column made of grid blocks (after two leading zeros) stay below the block norm -/
theorem colSq3_blocks_le (σ : ℚ) (hσ : 0 ≤ σ) : ∀ (blocks : List (ℚ × ℚ × ℚ)),
    (∀ b ∈ blocks, b.1 * b.1 + b.2.1 * b.2.1 + b.2.2 * b.2.2 = σ) →
    ∀ x ∈ colSq3 (0 :: 0 :: blocks.flatMap gridCol0), x ≤ σ
  | [], _, x, hx => by simp [colSq3] at hx
  | b :: t, hb, x, hx => by
      have hbσ := hb b List.mem_cons_self
      have ih := colSq3_blocks_le σ hσ t (fun c hc => hb c (List.mem_cons_of_mem _ hc))
      simp only [List.flatMap_cons, gridCol0, List.cons_append, List.nil_append, colSq3, List.mem_cons] at hx
      have h1 := mul_self_nonneg b.1
      have h2 := mul_self_nonneg b.2.1
      have h3 := mul_self_nonneg b.2.2
      rcases hx with rfl | rfl | rfl | rfl | rfl | rfl | hx
      · nlinarith
      · nlinarith
      · nlinarith
      · nlinarith
      · nlinarith
      · nlinarith
      · exact ih x hx


end scale

end PyYetiVerif.Xyz
