import Mathlib.Algebra.Ring.Basic
import Mathlib.Tactic.NoncommRing
import Mathlib.Tactic.Ring
import Mathlib.Tactic.LinearCombination
import PyYetiVerif.Model.SSModel
/-!
# C07 — lemmas about `Model/SSModel.lean` over a non-commutative ring

The scalar `k` (and `z`, `s`, `h⁻¹`) is an element of the ring that commutes with everything
(`k·I`); every inverse is given together with its inverse laws.
-/
namespace PyYetiVerif.SSModel
variable {R : Type} [Ring R]

/-- a two-sided inverse of `k − A` commutes with `A` when `k` is central -/
theorem inv_comm (k A Q : R) (hk : ∀ x, k * x = x * k) (h1 : Q * (k - A) = 1) (h2 : (k - A) * Q = 1) :
    Q * A = A * Q := by
  have e : (k - A) * A = A * (k - A) := by rw [sub_mul, mul_sub, hk]
  calc Q * A = Q * A * ((k - A) * Q) := by rw [h2, mul_one]
    _ = Q * (A * (k - A)) * Q := by noncomm_ring
    _ = Q * ((k - A) * A) * Q := by rw [e]
    _ = (Q * (k - A)) * A * Q := by noncomm_ring
    _ = A * Q := by rw [h1, one_mul]

theorem tustin_d2c_c2d (k Q q : R) (s : SS R) (hk : ∀ x, k * x = x * k)
    (hQ1 : Q * (k - s.A) = 1) (hQ2 : (k - s.A) * Q = 1)
    (hq1 : q * (1 + (tustinC2D k Q s).A) = 1) (hq2 : (1 + (tustinC2D k Q s).A) * q = 1) :
    tustinD2C k q (tustinC2D k Q s) = s := by
  obtain ⟨A, B, C, D⟩ := s
  simp only [tustinC2D, tustinD2C] at *
  have hc := inv_comm k A Q hk hQ1 hQ2
  have e1 : 1 + Q * (k + A) = 2 * (k * Q) := by
    have : Q * (k + A) = 2 * (Q * k) - Q * (k - A) := by noncomm_ring
    rw [this, hQ1, ← hk Q]; noncomm_ring
  have e2 : Q * (k + A) - 1 = 2 * (Q * A) := by
    have : Q * (k + A) = Q * (k - A) + 2 * (Q * A) := by noncomm_ring
    rw [this, hQ1]; noncomm_ring
  rw [e1] at hq1 hq2
  have hA : k * ((Q * (k + A) - 1) * q) = A := by
    rw [e2, hc]
    calc k * (2 * (A * Q) * q) = A * (2 * (k * Q) * q) := by
          have : k * (2 * (A * Q) * q) = 2 * ((k * A) * Q * q) := by noncomm_ring
          rw [this, hk A]; noncomm_ring
      _ = A := by rw [hq2, mul_one]
  have hQB : q * ((1 + Q * (k + A)) * (Q * B)) = Q * B := by
    rw [e1, ← mul_assoc, hq1, one_mul]
  rw [SS.mk.injEq]
  refine ⟨hA, ?_, rfl, ?_⟩
  · rw [hA, hQB, ← mul_assoc, hQ2, one_mul]
  · rw [hQB]; simp

theorem tustin_c2d_d2c (k q Q : R) (z : SS R)
    (hq1 : q * (1 + z.A) = 1) (hq2 : (1 + z.A) * q = 1)
    (hQ1 : Q * (k - (tustinD2C k q z).A) = 1) (_hQ2 : (k - (tustinD2C k q z).A) * Q = 1) :
    tustinC2D k Q (tustinD2C k q z) = z := by
  obtain ⟨A, B, C, D⟩ := z
  simp only [tustinC2D, tustinD2C] at *
  -- q commutes with A (inverse of 1 - (-A))
  have hc : q * A = A * q := by
    have := inv_comm (1 : R) (-A) q (fun x => by simp) (by simpa using hq1) (by simpa using hq2)
    simpa using this
  -- k - A' = 2 k q ,  k + A' = 2 k q A
  have e1 : k - k * ((A - 1) * q) = 2 * (k * q) := by
    have : k - k * ((A - 1) * q) = k * ((1 + A) * q) - k * ((A - 1) * q) := by rw [hq2, mul_one]
    rw [this]; noncomm_ring
  have e2 : k + k * ((A - 1) * q) = 2 * (k * q) * A := by
    have : k + k * ((A - 1) * q) = k * ((1 + A) * q) + k * ((A - 1) * q) := by rw [hq2, mul_one]
    rw [this, mul_assoc, mul_assoc, hc]; noncomm_ring
  rw [e1] at hQ1
  have hA : Q * (k + k * ((A - 1) * q)) = A := by
    rw [e2, ← mul_assoc, hQ1, one_mul]
  have hQB : Q * ((k - k * ((A - 1) * q)) * (q * B)) = q * B := by
    rw [e1, ← mul_assoc, hQ1, one_mul]
  rw [SS.mk.injEq]
  refine ⟨hA, ?_, rfl, ?_⟩
  · rw [hA, hQB, ← mul_assoc, hq2, one_mul]
  · rw [hQB]; simp

/-- the transfer function of the Tustin model is the continuous one at `s = k (z−1)/(z+1)`:
`(z − A_z)` has the two-sided inverse `W = (s − A)⁻¹ (z+1)⁻¹ (k − A)` and
`C_z W B_z + D_z = C (s − A)⁻¹ B + D`. -/
theorem tustin_bilinear (k zz ss zi Q Rs : R) (s : SS R)
    (hk : ∀ x, k * x = x * k) (hz : ∀ x, zz * x = x * zz) (hs : ∀ x, ss * x = x * ss)
    (hzi : ∀ x, zi * x = x * zi)
    (hzi1 : zi * (zz + 1) = 1)
    (hbil : ss * (zz + 1) = k * (zz - 1))
    (hQ1 : Q * (k - s.A) = 1) (hQ2 : (k - s.A) * Q = 1)
    (hR1 : Rs * (ss - s.A) = 1) (hR2 : (ss - s.A) * Rs = 1) :
    let z := tustinC2D k Q s
    let W := Rs * zi * (k - s.A)
    W * (zz - z.A) = 1 ∧ (zz - z.A) * W = 1 ∧
      z.C * W * z.B + z.D = s.C * Rs * s.B + s.D := by
  obtain ⟨A, B, C, D⟩ := s
  simp only [tustinC2D] at *
  have hcQ := inv_comm k A Q hk hQ1 hQ2
  have hcR := inv_comm ss A Rs hs hR1 hR2
  have hzi2 : (zz + 1) * zi = 1 := by rw [← hzi]; exact hzi1
  -- z - zA = Q (z+1) (s - A)
  have key : zz - Q * (k + A) = Q * ((zz + 1) * (ss - A)) := by
    have h1 : (zz + 1) * (ss - A) = k * (zz - 1) - (zz + 1) * A := by
      rw [mul_sub, ← hs (zz + 1), hbil]
    calc zz - Q * (k + A) = Q * (k - A) * zz - Q * (k + A) := by rw [hQ1, one_mul]
      _ = Q * (k * zz - A * zz - k - A) := by noncomm_ring
      _ = Q * (k * (zz - 1) - (zz + 1) * A) := by rw [← hz A]; noncomm_ring
      _ = Q * ((zz + 1) * (ss - A)) := by rw [h1]
  refine ⟨?_, ?_, ?_⟩
  · rw [key]
    calc Rs * zi * (k - A) * (Q * ((zz + 1) * (ss - A)))
        = Rs * zi * ((k - A) * Q) * ((zz + 1) * (ss - A)) := by noncomm_ring
      _ = Rs * (zi * (zz + 1)) * (ss - A) := by rw [hQ2]; noncomm_ring
      _ = 1 := by rw [hzi1, mul_one, hR1]
  · rw [key]
    have c1 : (ss - A) * Rs = Rs * (ss - A) := by rw [hR1, hR2]
    calc Q * ((zz + 1) * (ss - A)) * (Rs * zi * (k - A))
        = Q * (zz + 1) * ((ss - A) * Rs) * zi * (k - A) := by noncomm_ring
      _ = Q * ((zz + 1) * zi) * (k - A) := by rw [hR2]; noncomm_ring
      _ = 1 := by rw [hzi2, mul_one, hQ1]
  · -- B_z = (1 + zA) Q B = 2 k Q Q B ; (k - A) Q = 1
    have e1 : 1 + Q * (k + A) = 2 * (k * Q) := by
      have : Q * (k + A) = 2 * (Q * k) - Q * (k - A) := by noncomm_ring
      rw [this, hQ1, ← hk Q]; noncomm_ring
    -- k - s = 2 k zi
    have e3 : k - ss = 2 * (k * zi) := by
      have : ss = ss * ((zz + 1) * zi) := by rw [hzi2, mul_one]
      have h3 : k = k * ((zz + 1) * zi) := by rw [hzi2, mul_one]
      nth_rewrite 1 [h3]
      nth_rewrite 1 [this]
      rw [← mul_assoc ss, hbil]; noncomm_ring
    have e4 : Rs * (k - ss) + 1 = Rs * (k - A) := by
      have : (1 : R) = Rs * (ss - A) := hR1.symm
      nth_rewrite 1 [this]; noncomm_ring
    calc C * (Rs * zi * (k - A)) * ((1 + Q * (k + A)) * (Q * B)) + (C * (Q * B) + D)
        = C * (Rs * zi * ((k - A) * (2 * (k * Q))) * (Q * B)) + (C * (Q * B) + D) := by
          rw [e1]; noncomm_ring
      _ = C * (Rs * (2 * (k * zi)) * ((k - A) * Q) * (Q * B)) + (C * (Q * B) + D) := by
          have a1 : (k - A) * (2 * (k * Q)) = 2 * (k * ((k - A) * Q)) := by
            have : (k - A) * k = k * (k - A) := (hk _).symm
            calc (k - A) * (2 * (k * Q)) = 2 * ((k - A) * k * Q) := by noncomm_ring
              _ = 2 * (k * ((k - A) * Q)) := by rw [this]; noncomm_ring
          rw [a1]
          have a2 : zi * (2 * (k * ((k - A) * Q))) = 2 * (k * zi) * ((k - A) * Q) := by
            have : zi * k = k * zi := hzi k
            calc zi * (2 * (k * ((k - A) * Q))) = 2 * (zi * k * ((k - A) * Q)) := by noncomm_ring
              _ = 2 * (k * zi) * ((k - A) * Q) := by rw [this]; noncomm_ring
          have : Rs * zi * (2 * (k * ((k - A) * Q))) = Rs * (zi * (2 * (k * ((k - A) * Q)))) := by
            noncomm_ring
          rw [this, a2]; noncomm_ring
      _ = C * ((Rs * (k - ss) + 1) * (Q * B)) + D := by rw [hQ2, ← e3]; noncomm_ring
      _ = C * Rs * B + D := by
          rw [e4]
          have : Rs * (k - A) * (Q * B) = Rs * ((k - A) * Q) * B := by noncomm_ring
          rw [this, hQ2]; noncomm_ring

/-! ### input-output equivalence of the first-order-hold forms -/

/-- `foh`: the discrete model `(E, P B + E Q B, C, C Q B + D)` driven by `u` reproduces the outputs of
the exact recurrence `x⁺ = E x + P B u + Q B u⁺`, `y = C x + D u`, with the shifted state
`w = x − Q B u`. -/
theorem foh_io (E P Q : R) (s : SS R) (u x w : ℕ → R)
    (hx : ∀ j, x (j + 1) = E * x j + P * s.B * u j + Q * s.B * u (j + 1))
    (hw : ∀ j, w (j + 1) = (fohC2D E P Q s).A * w j + (fohC2D E P Q s).B * u j)
    (h0 : w 0 = x 0 - Q * s.B * u 0) (j : ℕ) :
    w j = x j - Q * s.B * u j ∧
      (fohC2D E P Q s).C * w j + (fohC2D E P Q s).D * u j = s.C * x j + s.D * u j := by
  have hst : ∀ j, w j = x j - Q * s.B * u j := by
    intro j
    induction j with
    | zero => exact h0
    | succ j ih =>
      rw [hw, hx, ih]
      simp only [fohC2D]
      noncomm_ring
  refine ⟨hst j, ?_⟩
  rw [hst j]
  simp only [fohC2D]
  noncomm_ring

/-- `zoha`: the same with `P = Q = I1/2` (input averaged over the step) -/
theorem zoha_io (E I1 half : R) (s : SS R) (u x w : ℕ → R)
    (hx : ∀ j, x (j + 1) = E * x j + half * (I1 * s.B) * u j + half * (I1 * s.B) * u (j + 1))
    (hw : ∀ j, w (j + 1) = (zohaC2D E I1 half s).A * w j + (zohaC2D E I1 half s).B * u j)
    (h0 : w 0 = x 0 - half * (I1 * s.B) * u 0) (j : ℕ) :
    w j = x j - half * (I1 * s.B) * u j ∧
      (zohaC2D E I1 half s).C * w j + (zohaC2D E I1 half s).D * u j = s.C * x j + s.D * u j := by
  have hst : ∀ j, w j = x j - half * (I1 * s.B) * u j := by
    intro j
    induction j with
    | zero => exact h0
    | succ j ih =>
      rw [hw, hx, ih]
      simp only [zohaC2D]
      noncomm_ring
  refine ⟨hst j, ?_⟩
  rw [hst j]
  simp only [zohaC2D]
  noncomm_ring

/-- `zoh`: the discrete model is the exact recurrence `x⁺ = E x + I1 B u`, `y = C x + D u` itself -/
theorem zoh_io (E I1 : R) (s : SS R) (u x w : ℕ → R)
    (hx : ∀ j, x (j + 1) = E * x j + I1 * s.B * u j)
    (hw : ∀ j, w (j + 1) = (zohC2D E I1 s).A * w j + (zohC2D E I1 s).B * u j)
    (h0 : w 0 = x 0) (j : ℕ) :
    w j = x j ∧ (zohC2D E I1 s).C * w j + (zohC2D E I1 s).D * u j = s.C * x j + s.D * u j := by
  have hst : ∀ j, w j = x j := by
    intro j
    induction j with
    | zero => exact h0
    | succ j ih => rw [hw, hx, ih]; simp only [zohC2D]
  exact ⟨hst j, by rw [hst j]; simp only [zohC2D]⟩

/-! ### round trips of the exponential-based methods, given the logarithm's contract -/

theorem zoh_d2c_c2d (Ef I1f logm : R → R) (s : SS R) (Pinv : R)
    (hlog : logm (Ef s.A) = s.A) (hinv : Pinv * I1f s.A = 1) :
    zohD2C (logm (zohC2D (Ef s.A) (I1f s.A) s).A) Pinv (zohC2D (Ef s.A) (I1f s.A) s) = s := by
  obtain ⟨A, B, C, D⟩ := s
  simp only [zohC2D, zohD2C] at *
  rw [hlog, ← mul_assoc, hinv, one_mul]

theorem zoh_c2d_d2c (Ef I1f logm : R → R) (z : SS R) (Pinv : R)
    (hexp : Ef (logm z.A) = z.A) (hinv : I1f (logm z.A) * Pinv = 1) :
    zohC2D (Ef (logm z.A)) (I1f (logm z.A)) (zohD2C (logm z.A) Pinv z) = z := by
  obtain ⟨A, B, C, D⟩ := z
  simp only [zohC2D, zohD2C] at *
  rw [hexp, ← mul_assoc, hinv, one_mul]

theorem zoha_d2c_c2d (Ef I1f logm : R → R) (s : SS R) (half inv : R)
    (hlog : logm (Ef s.A) = s.A)
    (hinv : inv * (half * I1f s.A + Ef s.A * (half * I1f s.A)) = 1) :
    zohaD2C (logm (zohaC2D (Ef s.A) (I1f s.A) half s).A) (I1f s.A) half inv
      (zohaC2D (Ef s.A) (I1f s.A) half s) = s := by
  obtain ⟨A, B, C, D⟩ := s
  simp only [zohaC2D, zohaD2C] at *
  have hB : inv * (half * (I1f A * B) + Ef A * (half * (I1f A * B))) = B := by
    have : half * (I1f A * B) + Ef A * (half * (I1f A * B))
        = (half * I1f A + Ef A * (half * I1f A)) * B := by noncomm_ring
    rw [this, ← mul_assoc, hinv, one_mul]
  rw [hlog, hB]
  rw [SS.mk.injEq]
  refine ⟨rfl, rfl, rfl, ?_⟩
  noncomm_ring

theorem zoha_c2d_d2c (Ef I1f logm : R → R) (z : SS R) (half inv : R)
    (hexp : Ef (logm z.A) = z.A)
    (hinv : (half * I1f (logm z.A) + z.A * (half * I1f (logm z.A))) * inv = 1) :
    zohaC2D (Ef (logm z.A)) (I1f (logm z.A)) half
      (zohaD2C (logm z.A) (I1f (logm z.A)) half inv z) = z := by
  obtain ⟨A, B, C, D⟩ := z
  simp only [zohaC2D, zohaD2C] at *
  rw [hexp]
  have hB : half * (I1f (logm A) * (inv * B)) + A * (half * (I1f (logm A) * (inv * B))) = B := by
    have : half * (I1f (logm A) * (inv * B)) + A * (half * (I1f (logm A) * (inv * B)))
        = (half * I1f (logm A) + A * (half * I1f (logm A))) * inv * B := by noncomm_ring
    rw [this, hinv, one_mul]
  rw [hB, SS.mk.injEq]
  refine ⟨rfl, rfl, rfl, ?_⟩
  noncomm_ring

theorem foh_d2c_c2d (Ef Pf Qf logm : R → R) (s : SS R) (inv : R)
    (hlog : logm (Ef s.A) = s.A)
    (hinv : inv * (Pf s.A + Ef s.A * Qf s.A) = 1) :
    fohD2C (logm (fohC2D (Ef s.A) (Pf s.A) (Qf s.A) s).A)
      (Pf (logm (fohC2D (Ef s.A) (Pf s.A) (Qf s.A) s).A))
      (Qf (logm (fohC2D (Ef s.A) (Pf s.A) (Qf s.A) s).A)) inv
      (fohC2D (Ef s.A) (Pf s.A) (Qf s.A) s) = s := by
  obtain ⟨A, B, C, D⟩ := s
  simp only [fohC2D, fohD2C] at *
  have hB : inv * (Pf A * B + Ef A * (Qf A * B)) = B := by
    have : Pf A * B + Ef A * (Qf A * B) = (Pf A + Ef A * Qf A) * B := by noncomm_ring
    rw [this, ← mul_assoc, hinv, one_mul]
  rw [hlog, hB, SS.mk.injEq]
  refine ⟨rfl, rfl, rfl, ?_⟩
  noncomm_ring

theorem foh_c2d_d2c (Ef Pf Qf logm : R → R) (z : SS R) (inv : R)
    (hexp : Ef (logm z.A) = z.A)
    (hinv : (Pf (logm z.A) + z.A * Qf (logm z.A)) * inv = 1) :
    fohC2D (Ef (logm z.A)) (Pf (logm z.A)) (Qf (logm z.A))
      (fohD2C (logm z.A) (Pf (logm z.A)) (Qf (logm z.A)) inv z) = z := by
  obtain ⟨A, B, C, D⟩ := z
  simp only [fohC2D, fohD2C] at *
  rw [hexp]
  have hB : Pf (logm A) * (inv * B) + A * (Qf (logm A) * (inv * B)) = B := by
    have : Pf (logm A) * (inv * B) + A * (Qf (logm A) * (inv * B))
        = (Pf (logm A) + A * Qf (logm A)) * inv * B := by noncomm_ring
    rw [this, hinv, one_mul]
  rw [hB, SS.mk.injEq]
  refine ⟨rfl, rfl, rfl, ?_⟩
  noncomm_ring

/-- one step under a first-order hold: the variation-of-constants value
`E y₀ + I1 B u₀ + (h I1 − I2) h⁻¹ B (u₁ − u₀)` is `E y₀ + P B u₀ + Q B u₁` with the code's
`P = I2 / h`, `Q = I1 − P` -/
theorem foh_step_alg (E I1 I2 B y0 u0 u1 h hinv : R) (hc : ∀ x, hinv * x = x * hinv)
    (hh : hinv * h = 1) :
    E * y0 + I1 * (B * u0) + (h * I1 - I2) * (hinv * (B * (u1 - u0)))
      = E * y0 + (hinv * I2) * (B * u0) + (I1 - hinv * I2) * (B * u1) := by
  have e : (h * I1 - I2) * (hinv * (B * (u1 - u0)))
      = (hinv * h) * I1 * (B * (u1 - u0)) - hinv * I2 * (B * (u1 - u0)) := by
    rw [← mul_assoc, ← hc]; noncomm_ring
  rw [e, hh]; noncomm_ring

end PyYetiVerif.SSModel
