import Mathlib.LinearAlgebra.Matrix.NonsingularInverse
import Mathlib.LinearAlgebra.Matrix.SchurComplement
import Mathlib.Data.Matrix.ColumnRowPartitioned
import Mathlib.Tactic.NoncommRing
import Mathlib.Tactic.Abel
import PyYetiVerif.Model.NT
/-!
Helper lemmas for `Props/C15.lean` (Norton-Thevenin coupling).

Everything about rectangular blocks is stated for Mathlib matrices over a commutative ring `K`
(`ℂ` in the application) with *arbitrary finite index types* for the boundary (`b`), the source's
and the load's interior (`o`, `q`) and the load cases (`m`).  Invertibility is always the
hypothesis `IsUnit M.det`; the model's `⁻¹` is Mathlib's `Matrix.inv` through the `Inv` instance.
-/
namespace PyYetiVerif.NT
open Matrix

section blocks
variable {b o q m K : Type} [Fintype b] [Fintype o] [Fintype q] [DecidableEq b] [DecidableEq o]
  [DecidableEq q] [CommRing K]

/-- unfolding of the model's Schur complement at Mathlib matrices -/
theorem schurAM_matrix (A : Matrix b b K) (B : Matrix b q K) (C : Matrix q b K) (D : Matrix q q K) :
    schurAM A B C D = A - B * D⁻¹ * C := rfl

/-- Eliminating the interior unknown `y` of `[[A, B], [C, D]] [x; y] = [·; g]`: the first block
row becomes the Schur complement acting on `x` plus the condensed interior load. -/
theorem schur_elim (A : Matrix b b K) (B : Matrix b q K) (C : Matrix q b K) (D : Matrix q q K)
    (hD : IsUnit D.det) (x : Matrix b m K) (y g : Matrix q m K) (h2 : C * x + D * y = g) :
    A * x + B * y = schurAM A B C D * x + B * D⁻¹ * g := by
  have hy : y = D⁻¹ * (g - C * x) := by
    rw [← h2, add_sub_cancel_left, nonsing_inv_mul_cancel_left D _ hD]
  rw [schurAM_matrix, hy, Matrix.sub_mul, Matrix.mul_sub, Matrix.mul_sub]
  simp only [Matrix.mul_assoc]
  abel

end blocks
end PyYetiVerif.NT
