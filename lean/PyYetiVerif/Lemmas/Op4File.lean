import PyYetiVerif.Lemmas.Op4
/-! Composition lemmas for C04: a whole matrix (header, column records, trailer) through `rdMatrix`. -/
namespace PyYetiVerif.Op4
open PyYetiVerif.Generated.Op4Consts

theorem ofI32_small (n : Nat) (h : n < 2147483648) : ofI32 n = (n : Int) := by
  simp [ofI32, h]

/-- the column-body of one iteration of `rdCols` -/
def bodyOf (e : Endian) (lay : Layout) (cplx : Bool) (r nw : Int) (ws : List Nat) :
    Option (List (Nat × List Entry) × List Nat) :=
  match lay with
  | .dense =>
    if r ≤ 0 then none else
    match takeDs e (nw.toNat / 2) ws with
    | some (ds, rest) => (unchunk cplx ds).map fun es => ([((r - 1).toNat, es)], rest)
    | none => none
  | .bigmat => rdStringsBig e cplx nw.toNat nw.toNat ws
  | .nonbigmat => rdStringsNonbig e cplx nw.toNat nw.toNat ws

theorem rdCols_succ (e : Endian) (lay : Layout) (cplx : Bool) (cols : Int) (fuel : Nat) (c r nw : Int)
    (reclen : Nat) (ws : List Nat) (acc : List Put) :
    rdCols e lay cplx cols (fuel + 1) c r nw reclen ws acc =
      if c < cols then
        if c < 0 ∨ nw < 0 then none else
        match bodyOf e lay cplx r nw ws with
        | some (ss, _ :: reclen' :: c' :: r' :: nw' :: ws2) =>
          rdCols e lay cplx cols fuel (ofI32 c' - 1) (ofI32 r') (ofI32 nw') reclen' ws2
            (acc ++ ss.map fun s => (s.1, c.toNat, s.2))
        | _ => none
      else some (acc, reclen, ws) := by
  conv => lhs; unfold rdCols
  rfl

/-- one column record as data -/
structure Rec where
  c : Nat
  r : Nat
  nw : Nat
  reclen : Nat
  payload : List Nat
  puts : List (Nat × List Entry)

def Rec.words (rc : Rec) : List Nat :=
  rc.reclen :: (rc.c + 1) :: rc.r :: rc.nw :: (rc.payload ++ [rc.reclen])

def Rec.outPuts (rc : Rec) : List Put := rc.puts.map fun s => (s.1, rc.c, s.2)

/-- the record is consumed by one iteration of the column loop -/
structure Rec.Good (e : Endian) (lay : Layout) (cplx : Bool) (ncols : Nat) (rc : Rec) : Prop where
  hc : rc.c < ncols
  hc31 : rc.c + 1 < 2147483648
  hr31 : rc.r < 2147483648
  hnw31 : rc.nw < 2147483648
  body : ∀ tail, bodyOf e lay cplx rc.r rc.nw (rc.payload ++ tail) = some (rc.puts, tail)

theorem rdCols_chain (e : Endian) (lay : Layout) (cplx : Bool) (ncols : Nat) (hn : ncols + 1 < 2147483648)
    (t1 t2 t3 : Nat) (rest : List Nat) :
    ∀ (recs : List Rec) (hd : Rec) (fuel : Nat) (acc : List Put), recs.length + 2 ≤ fuel →
      hd.Good e lay cplx ncols → (∀ rc ∈ recs, rc.Good e lay cplx ncols) →
      rdCols e lay cplx ncols fuel hd.c hd.r hd.nw hd.reclen
          (hd.payload ++ hd.reclen :: (recs.flatMap Rec.words ++ 20 :: (ncols + 1) :: 1 :: 2 :: t1 :: t2 :: t3 :: rest)) acc
        = some (acc ++ hd.outPuts ++ recs.flatMap Rec.outPuts, 20, t1 :: t2 :: t3 :: rest) := by
  intro recs
  induction recs with
  | nil =>
    intro hd fuel acc hf hg _
    obtain ⟨f, rfl⟩ : ∃ f, fuel = f + 2 := ⟨fuel - 2, by simp at hf; omega⟩
    rw [rdCols_succ]
    have h1 : ((hd.c : Nat) : Int) < (ncols : Int) := by have := hg.hc; omega
    have h2 : ¬ (((hd.c : Nat) : Int) < 0 ∨ ((hd.nw : Nat) : Int) < 0) := by omega
    simp only [h1, if_true, h2, if_false, hg.body, List.flatMap_nil, List.nil_append]
    rw [ofI32_small (ncols + 1) hn, rdCols_succ]
    have h3 : ¬ (((ncols + 1 : Nat) : Int) - 1 < (ncols : Int)) := by omega
    simp only [h3, if_false, Int.toNat_natCast, Rec.outPuts, List.append_nil]
  | cons rc t ih =>
    intro hd fuel acc hf hg hall
    obtain ⟨f, rfl⟩ : ∃ f, fuel = f + 1 := ⟨fuel - 1, by simp at hf; omega⟩
    have hgr := hall rc (List.mem_cons_self)
    rw [rdCols_succ]
    have h1 : ((hd.c : Nat) : Int) < (ncols : Int) := by have := hg.hc; omega
    have h2 : ¬ (((hd.c : Nat) : Int) < 0 ∨ ((hd.nw : Nat) : Int) < 0) := by omega
    simp only [h1, if_true, h2, if_false, hg.body, List.flatMap_cons, Rec.words, List.cons_append,
      List.append_assoc]
    rw [ofI32_small _ hgr.hc31, ofI32_small _ hgr.hr31, ofI32_small _ hgr.hnw31]
    have h4 : ((rc.c + 1 : Nat) : Int) - 1 = (rc.c : Int) := by omega
    rw [h4]
    have := ih rc f (acc ++ hd.puts.map fun s => (s.1, ((hd.c : Int)).toNat, s.2)) (by simp at hf ⊢; omega) hgr
      (fun x hx => hall x (List.mem_cons_of_mem _ hx))
    simp only [List.singleton_append, List.append_assoc, List.nil_append] at this ⊢
    rw [this]
    simp [Rec.outPuts, List.append_assoc]

/-! ### size bounds -/

theorem nzIdxFrom_length_le (cplx : Bool) (col : List Entry) :
    ∀ i, (nzIdxFrom cplx i col).length ≤ col.length := by
  induction col with
  | nil => intro i; simp [nzIdxFrom]
  | cons y ys ih =>
    intro i
    unfold nzIdxFrom
    have := ih (i + 1)
    split <;> simp <;> omega

theorem length_le_sum_of_pos (l : List Nat) (h : ∀ x ∈ l, 1 ≤ x) : l.length ≤ l.sum := by
  induction l with
  | nil => simp
  | cons a t ih =>
    have h1 := h a (List.mem_cons_self)
    have h2 := ih fun x hx => h x (List.mem_cons_of_mem _ hx)
    simp only [List.length_cons, List.sum_cons]
    omega

theorem colStats_length_le (r : List Nat) : (colStats r).length ≤ r.length := by
  rw [← colStats_sum r]
  have := length_le_sum_of_pos ((colStats r).map (·.2)) (by
    intro x hx
    rw [List.mem_map] at hx
    obtain ⟨p, hp, rfl⟩ := hx
    exact colStats_pos r p hp)
  simpa using this

theorem strings_length_le_rows (cplx : Bool) (col : List Entry) : (strings cplx col).length ≤ col.length := by
  unfold strings
  rw [List.length_map]
  exact Nat.le_trans (colStats_length_le _) (nzIdxFrom_length_le cplx col 0)

theorem sumLens_map_le (col : List Entry) (runs : List (Nat × Nat)) :
    sumLens (runs.map fun p => (p.1, (col.drop p.1).take p.2)) ≤ (runs.map (·.2)).sum := by
  induction runs with
  | nil => simp [sumLens]
  | cons p t ih =>
    simp only [sumLens, List.map_cons, List.sum_cons, List.length_take] at ih ⊢
    omega

theorem sumLens_strings_le (cplx : Bool) (col : List Entry) : sumLens (strings cplx col) ≤ col.length := by
  unfold strings
  have h1 := sumLens_map_le col (colStats (nzIdx cplx col))
  rw [colStats_sum] at h1
  exact Nat.le_trans h1 (nzIdxFrom_length_le cplx col 0)

theorem mult_le_two (cplx : Bool) : mult cplx ≤ 2 ∧ 1 ≤ mult cplx := by
  cases cplx <;> simp [mult]

theorem nwords_bound (cplx : Bool) (col : List Entry) :
    nwordsBig cplx (strings cplx col) ≤ 6 * col.length ∧ nwordsNonbig cplx (strings cplx col) ≤ 6 * col.length := by
  have h1 := strings_length_le_rows cplx col
  have h2 := sumLens_strings_le cplx col
  unfold nwordsBig nwordsNonbig
  cases cplx <;> simp [mult] <;> omega

/-! ### the record of a non-zero column -/

def recOf (e : Endian) (lay : Layout) (cplx : Bool) (c : Nat) (col : List Entry) (s : Nat) (tl : List Nat) : Rec :=
  match lay with
  | .dense =>
    let seg := denseSeg col s tl
    let elems := seg.length * mult cplx
    { c := c, r := s + 1, nw := 2 * elems, reclen := 3 * 4 + elems * 8, payload := valWords e cplx seg,
      puts := [(s, seg.map (normE cplx))] }
  | .bigmat =>
    let ss := strings cplx col
    { c := c, r := 0, nw := nwordsBig cplx ss, reclen := (3 + nwordsBig cplx ss) * 4,
      payload := ss.flatMap (bigStringWords e cplx), puts := ss.map fun s => (s.1, s.2.map (normE cplx)) }
  | .nonbigmat =>
    let ss := strings cplx col
    { c := c, r := 0, nw := nwordsNonbig cplx ss, reclen := (3 + nwordsNonbig cplx ss) * 4,
      payload := ss.flatMap (nonbigStringWords e cplx), puts := ss.map fun s => (s.1, s.2.map (normE cplx)) }

def encCol (e : Endian) (lay : Layout) (cplx : Bool) : Nat → List Entry → List Nat :=
  match lay with
  | .dense => encColDense e cplx
  | .bigmat => encColBig e cplx
  | .nonbigmat => encColNonbig e cplx

theorem strings_ne_nil (cplx : Bool) (col : List Entry) (s : Nat) (tl : List Nat)
    (h : nzIdx cplx col = s :: tl) : strings cplx col ≠ [] := by
  unfold strings
  rw [h]
  obtain ⟨l, t, ht⟩ := colStats_head s tl
  rw [ht]
  simp

theorem strings_nil (cplx : Bool) (col : List Entry) (h : nzIdx cplx col = []) : strings cplx col = [] := by
  unfold strings; rw [h]; rfl

theorem encCol_nonzero (e : Endian) (lay : Layout) (cplx : Bool) (c : Nat) (col : List Entry) (s : Nat)
    (tl : List Nat) (h : nzIdx cplx col = s :: tl) :
    encCol e lay cplx c col = (recOf e lay cplx c col s tl).words := by
  cases lay
  · simp only [encCol, recOf, Rec.words]
    rw [encColDense_eq e cplx c col s tl h]
    simp
  · simp only [encCol, recOf, Rec.words, encColBig]
    have := strings_ne_nil cplx col s tl h
    split
    · next h' => exact absurd h' this
    · simp
  · simp only [encCol, recOf, Rec.words, encColNonbig]
    have := strings_ne_nil cplx col s tl h
    split
    · next h' => exact absurd h' this
    · simp

theorem encCol_zero (e : Endian) (lay : Layout) (cplx : Bool) (c : Nat) (col : List Entry)
    (h : nzIdx cplx col = []) : encCol e lay cplx c col = [] := by
  cases lay
  · simp [encCol, encColDense, h]
  · simp [encCol, encColBig, strings_nil cplx col h]
  · simp [encCol, encColNonbig, strings_nil cplx col h]

theorem bodyOf_dense (e : Endian) (cplx : Bool) (col : List Entry) (s : Nat) (tl tail : List Nat) :
    bodyOf e .dense cplx ((s + 1 : Nat) : Int) ((2 * ((denseSeg col s tl).length * mult cplx) : Nat) : Int)
        (valWords e cplx (denseSeg col s tl) ++ tail)
      = some ([(s, (denseSeg col s tl).map (normE cplx))], tail) := by
  unfold bodyOf
  have hpos : ¬ (((s + 1 : Nat) : Int) ≤ 0) := by omega
  have hdiv : ((2 * ((denseSeg col s tl).length * mult cplx) : Nat) : Int).toNat / 2
      = (denseSeg col s tl).length * mult cplx := by
    rw [Int.toNat_natCast]; omega
  simp only
  rw [if_neg hpos, hdiv, takeDs_valWords]
  simp only [unchunk_entryDs, Option.map_some]
  have : (((s + 1 : Nat) : Int) - 1).toNat = s := by omega
  rw [this]

theorem recOf_good (e : Endian) (lay : Layout) (cplx : Bool) (ncols c : Nat) (col : List Entry) (s : Nat)
    (tl : List Nat) (h : nzIdx cplx col = s :: tl) (hc : c < ncols) (hn : ncols + 1 < 2147483648)
    (hrows : col.length < 268435456) (hnb : lay = .nonbigmat → col.length < 65536) :
    (recOf e lay cplx c col s tl).Good e lay cplx ncols := by
  have hs_mem : s ∈ nzIdx cplx col := by rw [h]; exact List.mem_cons_self
  obtain ⟨xs, hxs, _⟩ := (mem_nzIdx _ _ _).1 hs_mem
  have hs_lt : s < col.length := (List.getElem?_eq_some_iff.1 hxs).1
  have hm := mult_le_two cplx
  have hb := nwords_bound cplx col
  cases lay
  · -- dense
    have hseg : (denseSeg col s tl).length ≤ col.length := by unfold denseSeg; simp; omega
    have hmul : (denseSeg col s tl).length * mult cplx ≤ 2 * col.length := by
      have := Nat.mul_le_mul hseg hm.1; omega
    refine ⟨hc, by simp only [recOf]; omega, by simp only [recOf]; omega, by simp only [recOf]; omega, ?_⟩
    intro tail
    exact bodyOf_dense e cplx col s tl tail
  · -- bigmat
    refine ⟨hc, by simp only [recOf]; omega, by simp only [recOf]; omega, by simp only [recOf]; omega, ?_⟩
    intro tail
    simp only [recOf, bodyOf, Int.toNat_natCast]
    exact rdStringsBig_enc e cplx _ tail _ (strings_length_le cplx _).2
  · -- nonbigmat
    refine ⟨hc, by simp only [recOf]; omega, by simp only [recOf]; omega, by simp only [recOf]; omega, ?_⟩
    intro tail
    simp only [recOf, bodyOf, Int.toNat_natCast]
    exact rdStringsNonbig_enc e cplx _ tail (strings_rows cplx col (hnb rfl)) _ (strings_length_le cplx _).1

/-! ### all column records of a matrix -/

def recsOf (e : Endian) (lay : Layout) (cplx : Bool) : Nat → List (List Entry) → List Rec
  | _, [] => []
  | c, col :: t =>
    match nzIdx cplx col with
    | [] => recsOf e lay cplx (c + 1) t
    | s :: tl => recOf e lay cplx c col s tl :: recsOf e lay cplx (c + 1) t

theorem encCols_recs (e : Endian) (lay : Layout) (cplx : Bool) :
    ∀ (cols : List (List Entry)) (c : Nat),
      encCols (encCol e lay cplx) c cols = (recsOf e lay cplx c cols).flatMap Rec.words := by
  intro cols
  induction cols with
  | nil => intro c; rfl
  | cons col t ih =>
    intro c
    unfold encCols recsOf
    split
    · next h => rw [encCol_zero e lay cplx c col h, ih]; rfl
    · next s tl h => rw [encCol_nonzero e lay cplx c col s tl h, ih]; simp

theorem recsOf_good (e : Endian) (lay : Layout) (cplx : Bool) (ncols rows : Nat) (hn : ncols + 1 < 2147483648)
    (hrows : rows < 268435456) (hnb : lay = .nonbigmat → rows < 65536) :
    ∀ (cols : List (List Entry)) (c : Nat), c + cols.length ≤ ncols → (∀ col ∈ cols, col.length = rows) →
      ∀ rc ∈ recsOf e lay cplx c cols, rc.Good e lay cplx ncols := by
  intro cols
  induction cols with
  | nil => intro c _ _ rc hrc; simp [recsOf] at hrc
  | cons col t ih =>
    intro c hc hl rc hrc
    have hcl := hl col (List.mem_cons_self)
    have iht := ih (c + 1) (by simp at hc ⊢; omega) (fun x hx => hl x (List.mem_cons_of_mem _ hx))
    unfold recsOf at hrc
    split at hrc
    · exact iht rc hrc
    · next s tl h =>
      rcases List.mem_cons.1 hrc with rfl | hrc
      · exact recOf_good e lay cplx ncols c col s tl h (by simp at hc; omega) hn (by omega)
          (fun hh => by have := hnb hh; omega)
      · exact iht rc hrc

theorem words_length_ge (recs : List Rec) : recs.length ≤ (recs.flatMap Rec.words).length := by
  induction recs with
  | nil => simp
  | cons r t ih => simp only [List.flatMap_cons, List.length_append, List.length_cons, Rec.words]; omega

/-! ### integers of the header -/

theorem ofI32_i32 (n : Int) (h1 : -2147483648 ≤ n) (h2 : n < 2147483648) : ofI32 (i32 n) = n := by
  unfold ofI32 i32
  split <;> omega

theorem eight (l : List Nat) (h : l.length = 8) :
    ∃ a b c d e f g k, l = [a, b, c, d, e, f, g, k] := by
  match l, h with
  | [a, b, c, d, e, f, g, k], _ => exact ⟨a, b, c, d, e, f, g, k, rfl⟩

theorem nameField_length (name : List Nat) : (nameField name).length = 8 := by
  unfold nameField
  simp
  omega

theorem wordBytes_bytesWord (e : Endian) (a b c d : Nat) (ha : a < 256) (hb : b < 256) (hc : c < 256)
    (hd : d < 256) : wordBytes e (bytesWord e a b c d) = [a, b, c, d] := by
  cases e <;> simp [wordBytes, bytesWord] <;> omega

theorem upperB_lt (b : Nat) (h : b < 256) : upperB b < 256 := by unfold upperB; split <;> omega

theorem nameField_lt (name : List Nat) (h : ∀ b ∈ name, b < 256) : ∀ b ∈ nameField name, b < 256 := by
  intro b hb
  unfold nameField at hb
  have hb := List.mem_of_mem_take hb
  rcases List.mem_append.1 hb with hb | hb
  · rw [List.mem_map] at hb
    obtain ⟨x, hx, rfl⟩ := hb
    exact upperB_lt x (h x hx)
  · rw [List.mem_replicate] at hb; omega

/-- the 8 name bytes survive the two name words -/
theorem name_words (e : Endian) (name : List Nat) (h : ∀ b ∈ name, b < 256) :
    ∃ n0 n1, wordsOfBytes e (nameField name) = [n0, n1] ∧ wordBytes e n0 ++ wordBytes e n1 = nameField name := by
  obtain ⟨a, b, c, d, e', f, g, k, hl⟩ := eight _ (nameField_length name)
  have hlt := nameField_lt name h
  rw [hl] at hlt ⊢
  refine ⟨bytesWord e a b c d, bytesWord e e' f g k, rfl, ?_⟩
  rw [wordBytes_bytesWord e a b c d (hlt a (by simp)) (hlt b (by simp)) (hlt c (by simp)) (hlt d (by simp)),
    wordBytes_bytesWord e e' f g k (hlt e' (by simp)) (hlt f (by simp)) (hlt g (by simp)) (hlt k (by simp))]
  rfl

/-! ### a whole matrix -/

structure Mat.Wf (m : Mat) : Prop where
  cols_len : ∀ col ∈ m.cols, col.length = m.rows
  rows_lt : m.rows < 268435456
  ncols_lt : m.cols.length + 1 < 2147483648
  form_lt : m.form < 2147483648
  name_lt : ∀ b ∈ m.name, b < 256

theorem encMatWords_eq (e : Endian) (lay : Layout) (m : Mat) (ws : List Nat)
    (h : encMatWords e lay m = some ws) :
    ws = headerWords e m (lay == .bigmat) ++ ((recsOf e lay m.cplx 0 m.cols).flatMap Rec.words
      ++ trailerWords e m.cols.length) := by
  cases lay
  · simp only [encMatWords, Option.some.injEq] at h
    rw [← h, ← encCols_recs]; simp [encCol]; rfl
  · simp only [encMatWords, Option.some.injEq] at h
    rw [← h, ← encCols_recs]; simp [encCol]
  · simp only [encMatWords] at h
    split at h
    · simp only [Option.some.injEq] at h
      rw [← h, ← encCols_recs]; simp [encCol]; rfl
    · cases h

theorem mtype_cases (cplx : Bool) :
    ofI32 (mtypeOf cplx) = (mtypeOf cplx : Int) ∧ ¬ (((mtypeOf cplx : Nat) : Int) ≠ 2 ∧ ((mtypeOf cplx : Nat) : Int) ≠ 4) ∧
      decide (((mtypeOf cplx : Nat) : Int) = 4) = cplx := by
  cases cplx <;> simp [mtypeOf, ofI32]

theorem recOf_r (e : Endian) (lay : Layout) (cplx : Bool) (c : Nat) (col : List Entry) (s : Nat) (tl : List Nat) :
    (lay = .dense → 0 < (recOf e lay cplx c col s tl).r) ∧ (lay ≠ .dense → (recOf e lay cplx c col s tl).r = 0) := by
  cases lay <;> simp [recOf]

theorem recsOf_r (e : Endian) (lay : Layout) (cplx : Bool) :
    ∀ (cols : List (List Entry)) (c : Nat), ∀ rc ∈ recsOf e lay cplx c cols,
      (lay = .dense → 0 < rc.r) ∧ (lay ≠ .dense → rc.r = 0) := by
  intro cols
  induction cols with
  | nil => intro c rc hrc; simp [recsOf] at hrc
  | cons col t ih =>
    intro c rc hrc
    unfold recsOf at hrc
    split at hrc
    · exact ih (c + 1) rc hrc
    · rcases List.mem_cons.1 hrc with rfl | hrc
      · exact recOf_r e lay cplx c col _ _
      · exact ih (c + 1) rc hrc

theorem recsOf_ne_nil (e : Endian) (lay : Layout) (cplx : Bool) :
    ∀ (cols : List (List Entry)) (c : Nat), recsOf e lay cplx c cols ≠ [] → ∃ col ∈ cols, 0 < col.length := by
  intro cols
  induction cols with
  | nil => intro c h; simp [recsOf] at h
  | cons col t ih =>
    intro c h
    unfold recsOf at h
    split at h
    · obtain ⟨x, hx, hl⟩ := ih (c + 1) h
      exact ⟨x, List.mem_cons_of_mem _ hx, hl⟩
    · next s tl hnz =>
      have hs_mem : s ∈ nzIdx cplx col := by rw [hnz]; exact List.mem_cons_self
      obtain ⟨xs, hxs, _⟩ := (mem_nzIdx _ _ _).1 hs_mem
      have := (List.getElem?_eq_some_iff.1 hxs).1
      exact ⟨col, List.mem_cons_self, by omega⟩

theorem chooseLayout_col (lay : Layout) (rows r : Nat) (hpos : 0 < rows) (hnb : lay = .nonbigmat → rows < 65536)
    (h1 : lay = .dense → 0 < r) (h2 : lay ≠ .dense → r = 0) :
    (chooseLayout (if lay = .bigmat then -(rows : Int) else (rows : Int)) (r : Int) false).fst = lay := by
  unfold chooseLayout rows4bigmat
  cases lay
  · have := h1 rfl
    simp [this]
  · have := h2 (by simp)
    subst this
    simp [hpos]
  · have := h2 (by simp)
    subst this
    have := hnb rfl
    have h3 : ¬ ((rows : Int) < 0 ∨ (65536 : Int) ≤ (rows : Int)) := by omega
    simp [h3]

theorem dWords_two (e : Endian) (x : Nat) : ∃ d0 d1, dWords e x = [d0, d1] := by
  cases e <;> exact ⟨_, _, rfl⟩

theorem rdMatrix_enc (e : Endian) (lay : Layout) (m : Mat) (rest ws : List Nat) (hwf : m.Wf)
    (hnb : lay = .nonbigmat → m.rows < 65536) (henc : encMatWords e lay m = some ws) :
    ∃ lay' auto, rdMatrix e (ws ++ rest) =
      some ({ rawName := nameField m.name,
              rows := if lay = .bigmat then -(m.rows : Int) else (m.rows : Int),
              cols := (m.cols.length : Int), form := (m.form : Int), mtype := (mtypeOf m.cplx : Int),
              layout := lay', sparseAuto := auto,
              puts := (recsOf e lay m.cplx 0 m.cols).flatMap Rec.outPuts }, rest) := by
  rw [encMatWords_eq e lay m ws henc]
  obtain ⟨n0, n1, hn01, hname⟩ := name_words e m.name hwf.name_lt
  have hgood := recsOf_good e lay m.cplx m.cols.length m.rows hwf.ncols_lt hwf.rows_lt hnb m.cols 0
    (by omega) hwf.cols_len
  have hrows : ofI32 (i32 (if (lay == .bigmat) = true then -(m.rows : Int) else (m.rows : Int)))
      = if lay = .bigmat then -(m.rows : Int) else (m.rows : Int) := by
    have := hwf.rows_lt
    rw [ofI32_i32]
    · cases lay <;> simp
    · split <;> omega
    · split <;> omega
  have hmt := mtype_cases m.cplx
  have hncols := ofI32_small m.cols.length (by have := hwf.ncols_lt; omega)
  have hform := ofI32_small m.form hwf.form_lt
  obtain ⟨d0, d1, hd01⟩ := dWords_two e sqrt2Bits
  generalize hrecs : recsOf e lay m.cplx 0 m.cols = recs at hgood
  cases recs with
  | nil =>
    simp only [headerWords, hdrReclen, hn01, trailerWords, hd01, List.flatMap_nil, List.nil_append, List.cons_append,
      List.append_assoc, rdMatrix, hrows, hmt.1, hmt.2.1, if_false, hncols, hform, hmt.2.2]
    rw [ofI32_small (m.cols.length + 1) hwf.ncols_lt]
    have hc0 : ((m.cols.length + 1 : Nat) : Int) - 1 = (m.cols.length : Int) := by omega
    rw [hc0]
    simp only [List.length_append, List.length_cons, rdCols_succ, Int.lt_irrefl, if_false, hname]
    exact ⟨_, _, rfl⟩
  | cons hd t =>
    have hg := hgood hd (List.mem_cons_self)
    have hgt : ∀ rc ∈ t, rc.Good e lay m.cplx m.cols.length := fun x hx => hgood x (List.mem_cons_of_mem _ hx)
    simp only [headerWords, hdrReclen, hn01, trailerWords, hd01, List.flatMap_cons, Rec.words, List.nil_append,
      List.cons_append, List.append_assoc, rdMatrix, hrows, hmt.1, hmt.2.1, if_false, hncols, hform, hmt.2.2]
    rw [ofI32_small _ hg.hc31, ofI32_small _ hg.hr31, ofI32_small _ hg.hnw31]
    have hc0 : ((hd.c + 1 : Nat) : Int) - 1 = (hd.c : Int) := by omega
    rw [hc0]
    have hcge : decide ((hd.c : Int) ≥ (m.cols.length : Int)) = false := by
      have := hg.hc; simp; omega
    have hr := recsOf_r e lay m.cplx m.cols 0 hd (by rw [hrecs]; exact List.mem_cons_self)
    obtain ⟨col, hcol, hlen⟩ := recsOf_ne_nil e lay m.cplx m.cols 0 (by rw [hrecs]; simp)
    have hrows_pos : 0 < m.rows := by rw [← hwf.cols_len col hcol]; exact hlen
    rw [hcge, chooseLayout_col lay m.rows hd.r hrows_pos hnb hr.1 hr.2]
    rw [rdCols_chain e lay m.cplx m.cols.length hwf.ncols_lt d0 d1 20 rest t hd _ [] (by
      have := words_length_ge t
      simp only [List.length_append, List.length_cons]; omega) hg hgt]
    refine ⟨lay, (chooseLayout (if lay = Layout.bigmat then -(m.rows : Int) else (m.rows : Int)) (hd.r : Int) false).snd, ?_⟩
    simp only [hname, List.nil_append]
    rfl

/-! ### from the puts back to the matrix -/

/-- the column as the reader rebuilds it from a record written in layout `lay` -/
def decCol (lay : Layout) (cplx : Bool) (col : List Entry) : List Entry :=
  match lay, nzIdx cplx col with
  | .dense, s :: tl =>
    (List.replicate col.length ((0, 0) : Entry)).take s ++ (denseSeg col s tl).map (normE cplx)
      ++ (List.replicate col.length ((0, 0) : Entry)).drop (s + ((denseSeg col s tl).map (normE cplx)).length)
  | _, _ => canonCol cplx col

theorem canonCol_zero (cplx : Bool) (col : List Entry) (h : nzIdx cplx col = []) :
    canonCol cplx col = List.replicate col.length (0, 0) := by
  apply List.ext_getElem?
  intro i
  simp only [canonCol, List.getElem?_map, List.getElem?_replicate]
  by_cases hi : i < col.length
  · have hx : col[i]? = some col[i] := List.getElem?_eq_getElem hi
    rw [hx, if_pos hi, Option.map_some]
    by_cases hz : (col[i]).isZero cplx = true
    · rw [canonEntry_of_zero cplx _ hz]
    · exfalso
      have hmem : i ∈ nzIdx cplx col := (mem_nzIdx _ _ _).2 ⟨col[i], hx, by simpa using hz⟩
      rw [h] at hmem
      cases hmem
  · rw [List.getElem?_eq_none (by omega), if_neg hi]; rfl

theorem decCol_zero (lay : Layout) (cplx : Bool) (col : List Entry) (h : nzIdx cplx col = []) :
    decCol lay cplx col = List.replicate col.length (0, 0) := by
  unfold decCol
  rw [h]
  cases lay <;> exact canonCol_zero cplx col h

theorem putsCol_recOf (e : Endian) (lay : Layout) (cplx : Bool) (c : Nat) (col : List Entry) (s : Nat) (tl : List Nat)
    (h : nzIdx cplx col = s :: tl) :
    putsCol (List.replicate col.length (0, 0)) (recOf e lay cplx c col s tl).puts = some (decCol lay cplx col) := by
  cases lay
  · have hs_mem : s ∈ nzIdx cplx col := by rw [h]; exact List.mem_cons_self
    obtain ⟨xs, hxs, _⟩ := (mem_nzIdx _ _ _).1 hs_mem
    have hs_lt : s < col.length := (List.getElem?_eq_some_iff.1 hxs).1
    have hseglen : s + (denseSeg col s tl).length ≤ col.length := by unfold denseSeg; simp; omega
    simp only [recOf, putsCol, putCol, List.length_map, List.length_replicate, hseglen, if_true, decCol, h]
  · simp only [recOf, decCol, h]
    exact putsCol_strings cplx col
  · simp only [recOf, decCol, h]
    exact putsCol_strings cplx col

abbrev putStep (X : List (List Entry)) (p : Put) : Option (List (List Entry)) :=
  match X[p.2.1]? with
  | some col => (putCol col p.1 p.2.2).map fun col' => X.set p.2.1 col'
  | none => none

theorem applyPuts_eq (rows cols : Nat) (puts : List Put) :
    applyPuts rows cols puts
      = puts.foldlM putStep (List.replicate cols (List.replicate rows ((0, 0) : Entry))) := rfl

theorem fold_col (c : Nat) : ∀ (puts : List (Nat × List Entry)) (X : List (List Entry)) (cur cur' : List Entry),
    X[c]? = some cur → putsCol cur puts = some cur' →
      (puts.map fun s => ((s.1, c, s.2) : Put)).foldlM putStep X = some (X.set c cur') := by
  intro puts
  induction puts with
  | nil =>
    intro X cur cur' hX hp
    simp only [putsCol, Option.some.injEq] at hp
    subst hp
    simp only [List.map_nil, List.foldlM_nil]
    have hlt := (List.getElem?_eq_some_iff.1 hX).1
    have := (List.getElem?_eq_some_iff.1 hX).2
    congr 1
    rw [← this]; simp
  | cons p t ih =>
    intro X cur cur' hX hp
    simp only [putsCol] at hp
    split at hp
    · next X1 h1 =>
      simp only [List.map_cons, List.foldlM_cons, putStep, hX, h1, Option.map_some, Option.bind_some]
      have hlt := (List.getElem?_eq_some_iff.1 hX).1
      have := ih (X.set c X1) X1 cur' (by simp [hlt]) hp
      simp only [Option.bind_eq_bind, Option.bind_some]
      rw [this]
      simp
    · cases hp

theorem set_append_mid (pre : List (List Entry)) (a b : List Entry) (rest : List (List Entry)) :
    (pre ++ a :: rest).set pre.length b = pre ++ b :: rest := by
  induction pre with
  | nil => rfl
  | cons x t ih => simp [ih]

theorem applyPuts_recs (e : Endian) (lay : Layout) (cplx : Bool) (rows : Nat) :
    ∀ (cols : List (List Entry)) (pre : List (List Entry)), (∀ col ∈ cols, col.length = rows) →
      ((recsOf e lay cplx pre.length cols).flatMap Rec.outPuts).foldlM putStep
          (pre ++ List.replicate cols.length (List.replicate rows ((0, 0) : Entry)))
        = some (pre ++ cols.map (decCol lay cplx)) := by
  intro cols
  induction cols with
  | nil => intro pre _; simp [recsOf]
  | cons col t ih =>
    intro pre hl
    have hcl := hl col (List.mem_cons_self)
    have iht := ih (pre ++ [decCol lay cplx col]) (fun x hx => hl x (List.mem_cons_of_mem _ hx))
    simp only [List.length_append, List.length_singleton, List.append_assoc, List.singleton_append] at iht
    unfold recsOf
    split
    · next hz =>
      rw [decCol_zero lay cplx col hz, hcl] at iht
      simp only [List.length_cons, List.replicate_succ, List.map_cons]
      rw [iht, decCol_zero lay cplx col hz, hcl]
    · next s tl hnz =>
      simp only [List.flatMap_cons, List.foldlM_append, List.length_cons, List.replicate_succ, Rec.outPuts]
      have hc : (recOf e lay cplx pre.length col s tl).c = pre.length := by cases lay <;> rfl
      rw [hc]
      have hput := putsCol_recOf e lay cplx pre.length col s tl hnz
      rw [hcl] at hput
      rw [fold_col pre.length _ _ (List.replicate rows (0, 0)) (decCol lay cplx col) (by simp) hput]
      simp only [Option.bind_eq_bind, Option.bind_some, set_append_mid, List.map_cons]
      exact iht

/-! ### what the rebuilt column is, entry by entry -/

theorem decCol_length (lay : Layout) (cplx : Bool) (col : List Entry) : (decCol lay cplx col).length = col.length := by
  unfold decCol
  split
  · next s tl h =>
    have hs_mem : s ∈ nzIdx cplx col := by rw [h]; exact List.mem_cons_self
    obtain ⟨xs, hxs, _⟩ := (mem_nzIdx _ _ _).1 hs_mem
    have hs_lt : s < col.length := (List.getElem?_eq_some_iff.1 hxs).1
    have hseglen : s + (denseSeg col s tl).length ≤ col.length := by unfold denseSeg; simp; omega
    simp; omega
  · simp [canonCol]

theorem decCol_entry (lay : Layout) (cplx : Bool) (col : List Entry) (i : Nat) (x : Entry)
    (hx : col[i]? = some x) :
    ∃ y : Entry, (decCol lay cplx col)[i]? = some y ∧
      (x.isZero cplx = false → y = normE cplx x) ∧ (x.isZero cplx = true → y.isZero cplx = true) := by
  unfold decCol
  split
  · next s tl h =>
    obtain ⟨X, hX, _, hprop⟩ := decodeColDense_enc Endian.little cplx col [] s tl h
    have hs_mem : s ∈ nzIdx cplx col := by rw [h]; exact List.mem_cons_self
    obtain ⟨xs, hxs, _⟩ := (mem_nzIdx _ _ _).1 hs_mem
    have hs_lt : s < col.length := (List.getElem?_eq_some_iff.1 hxs).1
    have hseglen : s + (denseSeg col s tl).length ≤ col.length := by unfold denseSeg; simp; omega
    unfold decodeColDense at hX
    have hdiv : 2 * ((denseSeg col s tl).length * mult cplx) / 2 = (denseSeg col s tl).length * mult cplx := by
      omega
    rw [hdiv, takeDs_valWords] at hX
    simp only [Nat.add_one_ne_zero, if_false, unchunk_entryDs, Nat.add_sub_cancel, putCol,
      List.length_map, List.length_replicate, hseglen, if_true, Option.map_some, Option.some.injEq,
      Prod.mk.injEq, and_true] at hX
    rw [← hX] at hprop
    simp only [List.length_map]
    exact hprop i x hx
  · refine ⟨canonEntry cplx x, by simp [canonCol, hx], ?_, ?_⟩
    · intro hz; exact canonEntry_of_nonzero cplx x hz
    · intro hz; rw [canonEntry_of_zero cplx x hz]; exact isZero_zero cplx

theorem decCol_sparse (lay : Layout) (cplx : Bool) (col : List Entry) (h : lay ≠ .dense) :
    decCol lay cplx col = canonCol cplx col := by
  cases lay
  · exact absurd rfl h
  · rfl
  · rfl

/-! ### a whole file -/

/-- what `d` must be for the matrix `p.2` written in layout `p.1` -/
def DecOf (p : Layout × Mat) (d : Dec) : Prop :=
  d.rawName = nameField p.2.name ∧ d.rows = (if p.1 = .bigmat then -(p.2.rows : Int) else (p.2.rows : Int)) ∧
    d.cols = (p.2.cols.length : Int) ∧ d.form = (p.2.form : Int) ∧ d.mtype = (mtypeOf p.2.cplx : Int) ∧
    applyPuts p.2.rows p.2.cols.length d.puts = some (p.2.cols.map (decCol p.1 p.2.cplx))

/-- `ds` are the decodings of the matrices `ms`, in order -/
inductive DecsOf : List (Layout × Mat) → List Dec → Prop
  | nil : DecsOf [] []
  | cons {p d ps ds} : DecOf p d → DecsOf ps ds → DecsOf (p :: ps) (d :: ds)

theorem rdMatrix_decOf (e : Endian) (lay : Layout) (m : Mat) (rest ws : List Nat) (hwf : m.Wf)
    (hnb : lay = .nonbigmat → m.rows < 65536) (henc : encMatWords e lay m = some ws) :
    ∃ d, rdMatrix e (ws ++ rest) = some (d, rest) ∧ DecOf (lay, m) d := by
  obtain ⟨lay', auto, h⟩ := rdMatrix_enc e lay m rest ws hwf hnb henc
  refine ⟨_, h, rfl, rfl, rfl, rfl, rfl, ?_⟩
  have := applyPuts_recs e lay m.cplx m.rows m.cols [] hwf.cols_len
  simpa [applyPuts_eq] using this

theorem encMatWords_ne_nil (e : Endian) (lay : Layout) (m : Mat) (ws : List Nat)
    (h : encMatWords e lay m = some ws) : ws ≠ [] := by
  rw [encMatWords_eq e lay m ws h]
  simp [headerWords]

theorem rdFile_enc (e : Endian) :
    ∀ (ms : List (Layout × Mat)) (ws : List Nat) (fuel : Nat), encFileWords e ms = some ws → ms.length < fuel →
      (∀ p ∈ ms, p.2.Wf ∧ (p.1 = .nonbigmat → p.2.rows < 65536)) →
      ∃ ds, rdFile e fuel ws = some ds ∧ DecsOf ms ds := by
  intro ms
  induction ms with
  | nil =>
    intro ws fuel h _ _
    simp only [encFileWords, Option.some.injEq] at h
    subst h
    exact ⟨[], by cases fuel <;> rfl, DecsOf.nil⟩
  | cons p t ih =>
    intro ws fuel h hf hall
    obtain ⟨lay, m⟩ := p
    simp only [encFileWords] at h
    cases ha : encMatWords e lay m with
    | none => simp [ha] at h
    | some a =>
      cases hb : encFileWords e t with
      | none => simp [ha, hb] at h
      | some b =>
        simp only [ha, hb, Option.bind_eq_bind, Option.bind_some, Option.some.injEq] at h
        subst h
        obtain ⟨f, rfl⟩ : ∃ f, fuel = f + 1 := ⟨fuel - 1, by simp at hf; omega⟩
        have hp := hall (lay, m) (List.mem_cons_self)
        obtain ⟨d, hd, hdec⟩ := rdMatrix_decOf e lay m b a hp.1 hp.2 ha
        obtain ⟨ds, hds, hall2⟩ := ih b f hb (by simp at hf; omega) (fun q hq => hall q (List.mem_cons_of_mem _ hq))
        have hne := encMatWords_ne_nil e lay m a ha
        refine ⟨d :: ds, ?_, DecsOf.cons hdec hall2⟩
        cases hab : a ++ b with
        | nil => simp at hab; exact absurd hab.1 hne
        | cons w ws' =>
          rw [← hab]
          have : rdFile e (f + 1) (a ++ b) = match rdMatrix e (a ++ b) with
              | some (d, rest) => (rdFile e f rest).map (d :: ·)
              | none => none := by
            rw [hab]; rfl
          rw [this, hd]
          simp only [hds, Option.map_some]

theorem encFileWords_length (e : Endian) :
    ∀ (ms : List (Layout × Mat)) (ws : List Nat), encFileWords e ms = some ws → ms.length ≤ ws.length := by
  intro ms
  induction ms with
  | nil => intro ws _; simp
  | cons p t ih =>
    intro ws h
    obtain ⟨lay, m⟩ := p
    simp only [encFileWords] at h
    cases ha : encMatWords e lay m with
    | none => simp [ha] at h
    | some a =>
      cases hb : encFileWords e t with
      | none => simp [ha, hb] at h
      | some b =>
        simp only [ha, hb, Option.bind_eq_bind, Option.bind_some, Option.some.injEq] at h
        subst h
        have h1 := ih b hb
        have h2 : 1 ≤ a.length := by
          have := encMatWords_ne_nil e lay m a ha
          cases a with
          | nil => exact absurd rfl this
          | cons _ _ => simp
        simp only [List.length_cons, List.length_append]
        omega

theorem encFileWords_isSome (e : Endian) :
    ∀ (ms : List (Layout × Mat)), (encFileWords e ms).isSome = true ↔
      ∀ p ∈ ms, p.1 = .nonbigmat → p.2.cols.all (stringsFit p.2.cplx) = true := by
  intro ms
  induction ms with
  | nil => simp [encFileWords]
  | cons p t ih =>
    obtain ⟨lay, m⟩ := p
    simp only [encFileWords, List.mem_cons, forall_eq_or_imp]
    rw [← ih]
    cases lay
    · simp [encMatWords]; cases encFileWords e t <;> simp
    · simp [encMatWords]; cases encFileWords e t <;> simp
    · by_cases hfit : m.cols.all (stringsFit m.cplx) = true
      · simp [encMatWords, hfit]; cases encFileWords e t <;> simp
      · simp [encMatWords, hfit]

end PyYetiVerif.Op4
