import PyYetiVerif.Lemmas.SuCoefExp
/-!
Helper lemmas for `SolveExp2` (C01): the real state matrix, the real second-order equation as a
state equation, and the partition copies `E_vv, E_vd, E_dv, E_dd`, `P[:ksize]`, `P[ksize:]` of the
model (`ExpCoef`).
-/
namespace PyYetiVerif.SuCoef
open Matrix

set_option linter.unusedSectionVars false

variable {n : ℕ}

/-- `_build_A` over the reals -/
def stateAR (Mi B K : Matrix (Fin n) (Fin n) ℝ) : Matrix (Fin n ⊕ Fin n) (Fin n ⊕ Fin n) ℝ :=
  fromBlocks (-(Mi * B)) (-(Mi * K)) 1 0

theorem stateAR_mulVec (Mi B K : Matrix (Fin n) (Fin n) ℝ) (v d : Fin n → ℝ) :
    stateAR Mi B K *ᵥ Sum.elim v d = Sum.elim (-(Mi *ᵥ (B *ᵥ v)) - Mi *ᵥ (K *ᵥ d)) v := by
  rw [stateAR, fromBlocks_mulVec]
  congr 1
  · simp only [Sum.elim_comp_inl, Sum.elim_comp_inr, Matrix.neg_mulVec, Matrix.mulVec_mulVec]
    ring
  · simp

theorem IsSol2R.toState {M Mi B K : Matrix (Fin n) (Fin n) ℝ} {f0 fs d0 v0 : Fin n → ℝ}
    {d v : ℝ → Fin n → ℝ} (hM : Mi * M = 1) (h : IsSol2R M B K f0 fs d0 v0 d v) :
    IsStateSolR (stateAR Mi B K) (Sum.elim (Mi *ᵥ f0) 0) (Sum.elim (Mi *ᵥ fs) 0) (Sum.elim v0 d0)
      (fun t => Sum.elim (v t) (d t)) := by
  refine ⟨fun t => ?_, ?_⟩
  · obtain ⟨a, ha, he⟩ := h.dv t
    have hdd := h.dd t
    rw [hasDerivAt_pi] at ha hdd ⊢
    have ea : a = -(Mi *ᵥ (B *ᵥ v t)) - Mi *ᵥ (K *ᵥ d t) + Mi *ᵥ f0 + t • (Mi *ᵥ fs) := by
      have h1 : Mi *ᵥ (M *ᵥ a + B *ᵥ v t + K *ᵥ d t) = Mi *ᵥ (f0 + t • fs) := by rw [he]
      rw [Matrix.mulVec_add, Matrix.mulVec_add, Matrix.mulVec_mulVec, hM, Matrix.one_mulVec,
        Matrix.mulVec_add, Matrix.mulVec_smul] at h1
      calc a = (a + Mi *ᵥ (B *ᵥ v t) + Mi *ᵥ (K *ᵥ d t)) - Mi *ᵥ (B *ᵥ v t) - Mi *ᵥ (K *ᵥ d t) := by abel
        _ = _ := by rw [h1]; abel
    rw [stateAR_mulVec]
    intro i
    cases i with
    | inl j =>
      simp only [Sum.elim_inl, Pi.add_apply, Pi.smul_apply]
      have := ha j
      rw [ea] at this
      simpa using this
    | inr j =>
      simp only [Sum.elim_inr, Pi.add_apply, Pi.smul_apply, Pi.zero_apply, smul_zero, add_zero]
      exact hdd j
  · rw [h.d0, h.v0]

theorem IsStateSolR.toSol2 {M Mi B K : Matrix (Fin n) (Fin n) ℝ} {f0 fs d0 v0 : Fin n → ℝ}
    {z : ℝ → Fin n ⊕ Fin n → ℝ} (hM : M * Mi = 1)
    (h : IsStateSolR (stateAR Mi B K) (Sum.elim (Mi *ᵥ f0) 0) (Sum.elim (Mi *ᵥ fs) 0) (Sum.elim v0 d0) z) :
    IsSol2R M B K f0 fs d0 v0 (fun t j => z t (Sum.inr j)) (fun t j => z t (Sum.inl j)) := by
  have hz : ∀ t, z t = Sum.elim (fun j => z t (Sum.inl j)) (fun j => z t (Sum.inr j)) := by
    intro t; funext i; cases i <;> rfl
  have hd : ∀ t i, HasDerivAt (fun t => z t i)
      ((Sum.elim (-(Mi *ᵥ (B *ᵥ fun j => z t (Sum.inl j))) - Mi *ᵥ (K *ᵥ fun j => z t (Sum.inr j)))
        (fun j => z t (Sum.inl j)) + Sum.elim (Mi *ᵥ f0) 0 + t • Sum.elim (Mi *ᵥ fs) 0
          : Fin n ⊕ Fin n → ℝ) i) t := by
    intro t i
    have := h.deriv t
    rw [hasDerivAt_pi] at this
    have h2 := this i
    rw [hz t, stateAR_mulVec] at h2
    exact h2
  refine ⟨fun t => ?_, fun t => ?_, ?_, ?_⟩
  · rw [hasDerivAt_pi]
    intro j
    simpa using hd t (Sum.inr j)
  · refine ⟨-(Mi *ᵥ (B *ᵥ fun j => z t (Sum.inl j))) - Mi *ᵥ (K *ᵥ fun j => z t (Sum.inr j))
      + Mi *ᵥ f0 + t • (Mi *ᵥ fs), ?_, ?_⟩
    · rw [hasDerivAt_pi]
      intro j
      simpa using hd t (Sum.inl j)
    · simp only [Matrix.mulVec_add, Matrix.mulVec_sub, Matrix.mulVec_neg, Matrix.mulVec_smul,
        Matrix.mulVec_mulVec, ← Matrix.mul_assoc, hM, Matrix.one_mul, Matrix.one_mulVec]
      abel
  · funext j
    have := congrFun h.init (Sum.inr j)
    simpa using this
  · funext j
    have := congrFun h.init (Sum.inl j)
    simpa using this

/-- the partition copies kept by `SolveExp2.__init__`: `E_vv = E[:ksize, :ksize]`, … and the row
blocks of `P`, `Q` (`half=True`: only the first `ksize` columns exist) -/
def expCoefOf (E P Q : Matrix (Fin n ⊕ Fin n) (Fin n ⊕ Fin n) ℝ) : ExpCoef ℝ n where
  Evv := fun i j => E (Sum.inl i) (Sum.inl j)
  Evd := fun i j => E (Sum.inl i) (Sum.inr j)
  Edv := fun i j => E (Sum.inr i) (Sum.inl j)
  Edd := fun i j => E (Sum.inr i) (Sum.inr j)
  Pv := fun i j => P (Sum.inl i) (Sum.inl j)
  Pd := fun i j => P (Sum.inr i) (Sum.inl j)
  Qv := fun i j => Q (Sum.inl i) (Sum.inl j)
  Qd := fun i j => Q (Sum.inr i) (Sum.inl j)

/-- one model step in matrix form (order 1) -/
theorem expStep_one (E P Q : Matrix (Fin n ⊕ Fin n) (Fin n ⊕ Fin n) ℝ) (d v f0 f1 : Fin n → ℝ) :
    Sum.elim (expStep true (expCoefOf E P Q) (d, v) f0 f1).2 (expStep true (expCoefOf E P Q) (d, v) f0 f1).1
      = E *ᵥ Sum.elim v d + P *ᵥ Sum.elim f0 0 + Q *ᵥ Sum.elim f1 0 := by
  funext i
  cases i <;>
    simp [expStep, expCoefOf, dotFin_eq_real, Matrix.mulVec, dotProduct, Fintype.sum_sum_type] <;> ring

/-- one model step in matrix form (order 0: `Q` is not used) -/
theorem expStep_zero (E P Q : Matrix (Fin n ⊕ Fin n) (Fin n ⊕ Fin n) ℝ) (d v f0 f1 : Fin n → ℝ) :
    Sum.elim (expStep false (expCoefOf E P Q) (d, v) f0 f1).2 (expStep false (expCoefOf E P Q) (d, v) f0 f1).1
      = E *ᵥ Sum.elim v d + P *ᵥ Sum.elim f0 0 := by
  funext i
  cases i <;>
    simp [expStep, expCoefOf, dotFin_eq_real, Matrix.mulVec, dotProduct, Fintype.sum_sum_type] <;> ring

end PyYetiVerif.SuCoef
