import PyYetiVerif.Lemmas.BulkSetCutRead
/-! `_rd_set_line` on digit strings that need not be a written integer (a PREFIX of one), and the value of such a
prefix (C13; core Lean only). -/
namespace PyYetiVerif.Bulk

/-- non-empty, digits only -/
def Digs (D : Txt) : Prop := D ≠ [] ∧ ∀ c ∈ D, c.isDigit = true

theorem Digs.take {D : Txt} (h : Digs D) (k : Nat) (hk : 1 ≤ k) : Digs (D.take k) := by
  refine ⟨?_, fun c hc => h.2 c (List.take_subset k D hc)⟩
  intro e
  have := congrArg List.length e
  simp only [List.length_take, List.length_nil] at this
  have : D.length = 0 := by omega
  exact h.1 (List.eq_nil_of_length_eq_zero this)

theorem digs_dec {n : Int} (h : 0 ≤ n) : Digs (dec n) := ⟨dec_ne_nil n, dec_nonneg_digits h⟩

theorem Digs.strip {D : Txt} (h : Digs D) : strip D = D := by
  simpa [blanks] using strip_pad 0 0 (edge_of_noSp fun c hc => isSp_of_isDigit (h.2 c hc))

theorem Digs.parseInt {D : Txt} (h : Digs D) : parseInt D = some (digitsVal D : Int) := by
  unfold Bulk.parseInt
  rw [h.strip]
  cases hq : D with
  | nil => exact absurd hq h.1
  | cons c r =>
      have hc : c.isDigit = true := h.2 c (by simp [hq])
      have h1 : c ≠ '-' := by intro e; subst e; exact absurd hc (by decide)
      have h2 : c ≠ '+' := by intro e; subst e; exact absurd hc (by decide)
      have hsp : splitSign (c :: r) = (false, c :: r) := by
        unfold splitSign; split
        · rename_i heq; simp at heq; exact absurd heq.1 h1
        · rename_i heq; simp at heq; exact absurd heq.1 h2
        · rfl
      have hall : (c :: r).all Char.isDigit = true := by
        rw [List.all_eq_true]; intro x hx; exact h.2 x (by simpa [hq] using hx)
      simp only [hsp, List.isEmpty_cons, hall, Bool.not_true, Bool.or_self, Bool.false_eq_true, if_false]

theorem Digs.parseItem {D : Txt} (h : Digs D) : parseItem D = some [(digitsVal D : Int)] := by
  have hn : thruMatch [] D = none := thruMatch_none D [] fun c hc => notT_digit (h.2 c hc)
  simp [Bulk.parseItem, hn, h.parseInt]

theorem Digs.rdSetLine {D : Txt} (h : Digs D) : rdSetLine D = some [(digitsVal D : Int)] := by
  have hc : ',' ∉ D := fun hm => digit_ne_comma (h.2 _ hm) rfl
  rw [rdSetLine_eq, splitOnChar_none ',' D hc]
  simp [h.parseItem]

/-! ### the value of a prefix -/

theorem foldl_dig_ge (q : Txt) : ∀ a : Nat, a ≤ q.foldl (fun a c => 10 * a + (c.toNat - '0'.toNat)) a := by
  induction q with
  | nil => intro a; exact Nat.le_refl a
  | cons c r ih =>
      intro a
      simp only [List.foldl_cons]
      exact Nat.le_trans (by omega) (ih _)

theorem foldl_dig_eq (q : Txt) (hq : q ≠ []) (a : Nat)
    (h : q.foldl (fun a c => 10 * a + (c.toNat - '0'.toNat)) a = a) : a = 0 := by
  cases q with
  | nil => exact absurd rfl hq
  | cons c r =>
      simp only [List.foldl_cons] at h
      have := foldl_dig_ge r (10 * a + (c.toNat - '0'.toNat))
      omega

theorem dec_zero : dec 0 = ['0'] := by decide

/-- a proper non-empty prefix of a written non-negative integer is a smaller integer -/
theorem digitsVal_take_lt (n : Int) (hn : 0 ≤ n) (j : Nat) (hj1 : 1 ≤ j) (hj : j < (dec n).length) :
    (digitsVal ((dec n).take j) : Int) < n := by
  have hsplit : digitsVal (dec n) =
      ((dec n).drop j).foldl (fun a c => 10 * a + (c.toNat - '0'.toNat)) (digitsVal ((dec n).take j)) := by
    conv => lhs; rw [← List.take_append_drop j (dec n)]
    unfold digitsVal
    rw [List.foldl_append]
  have hdne : (dec n).drop j ≠ [] := by
    intro e
    have := congrArg List.length e
    simp only [List.length_drop, List.length_nil] at this
    omega
  have hle := foldl_dig_ge ((dec n).drop j) (digitsVal ((dec n).take j))
  rw [← hsplit] at hle
  have hN := digitsVal_dec hn
  by_cases he : digitsVal ((dec n).take j) = digitsVal (dec n)
  · exfalso
    have h0 := foldl_dig_eq ((dec n).drop j) hdne (digitsVal ((dec n).take j)) (by rw [← hsplit]; exact he.symm)
    have hn0 : n = 0 := by rw [← hN, ← he, h0]; rfl
    rw [hn0, dec_zero] at hj
    simp at hj
    omega
  · omega

end PyYetiVerif.Bulk
